(* C15 scanner correspondence.  Case: style (s|d|b) \t string(hex)
   Observable: source of the quoted word (hex) and the skeleton of the scanned word, in the harness' skWord format. *)
open Model
open Util

let rec sk_word (w : wpart list) : string =
  "[" ^ String.concat "," (merge w) ^ "]"
and merge (w : wpart list) : string list =
  match w with
  | WLit a :: WLit b :: r -> merge (WLit (a @ b) :: r)
  | WLit a :: r -> ("L" ^ hexb a) :: merge r
  | WQuote (t, v) :: r -> ("Q" ^ Printf.sprintf "%02x" (int_of_n t) ^ (if v = [] then "N" else sk_word v)) :: merge r
  | _ :: r -> "?" :: merge r
  | [] -> []

let runes_of_string (s : string) : n list = List.map fst (syms_of (bytes_of_string s))

let model_line line =
  match String.split_on_char '\t' line with
  | [style; h] ->
    let rs = runes_of_string (string_of_hex h) in
    let q = match style with "s" -> quote_single rs | "d" -> quote_double rs | _ -> quote_backslash rs in
    let src = List.concat_map (fun r -> encode_rune r) q in
    (match scan_word (nat_of_int (2 * List.length q + 4)) (q @ [n_of_int 10]) [] with
     | Some (w, _) -> hexb src ^ " " ^ sk_word w
     | None -> hexb src ^ " none")
  | _ -> failwith "c15: bad case"

(* here-document literal reader (Lex/Heredoc.v).  Case: dash \t delim(hex) \t text(hex) *)
let hdoc_line line =
  match String.split_on_char '\t' line with
  | [dash; d; t] ->
    let delim = runes_of_string (string_of_hex d) and text = runes_of_string (string_of_hex t) in
    let enc l = hexb (List.concat_map (fun r -> encode_rune r) l) in
    (match read_heredoc (nat_of_int (List.length text + 2)) (dash = "1") delim text [] with
     | Some ((body, dline), rest) -> Printf.sprintf "ok %s %s %d" (enc body) (enc dline) (String.length (string_of_hex (enc rest)))
     | None -> "err")
  | [dash; d; t; "u"] ->
    (* unquoted delimiter: the expanding reader (Lex/HeredocExp.v) *)
    let delim = runes_of_string (string_of_hex d) and text = runes_of_string (string_of_hex t) in
    let enc l = hexb (List.concat_map (fun r -> encode_rune r) l) in
    (match read_exp (nat_of_int (List.length text + 2)) (dash = "1") delim text [] [] with
     | HOk (body, dline, rest) -> Printf.sprintf "ok %s %s %d" (enc body) (enc dline) (String.length (string_of_hex (enc rest)))
     | HErr -> "err"
     | HUnmodelled -> "unmodelled")
  | _ -> failwith "hdoc: bad case"

(* the word scanner on arbitrary text and the printer's notation for what it returns (Lex/Reprint.v).
   Case: text(hex), written after a command name.  Output: skeleton, printed text (hex), skeleton again *)
let rword_line line =
  match String.split_on_char '\t' line with
  | h :: _ ->
    let rs = runes_of_string (string_of_hex h) @ [n_of_int 10] in
    (match scan_word (nat_of_int (2 * List.length rs + 4)) rs [] with
     | Some ([], _) -> "noarg"
     | Some (w, rest) ->
       let tail = " " ^ string_of_int (List.length rest) in
       let p = print_parts w in
       (match scan_word (nat_of_int (2 * List.length p + 6)) (p @ [n_of_int 10]) [] with
        | Some (w2, _) -> sk_word w ^ " " ^ hexb (List.concat_map (fun r -> encode_rune r) p) ^ " " ^ sk_word w2 ^ tail
        | None -> sk_word w ^ " " ^ hexb (List.concat_map (fun r -> encode_rune r) p) ^ " none" ^ tail)
     | None -> "unmodelled")
  | _ -> failwith "rword: bad case"

(* the printer's notation for a parameter expansion (Lex/Reprint.v, print_pexp).
   Case: braces \t name(hex) \t op(hex) \t word("-" | hex) *)
let pexp_line line =
  match String.split_on_char '\t' line with
  | [b; name; op; w] ->
    let rs h = runes_of_string (string_of_hex h) in
    let e = { pbraces = (b = "1"); pname = rs name; pop = rs op; pword = (if w = "-" then None else Some (rs w)) } in
    hexb (List.concat_map (fun r -> encode_rune r) (print_pexp e))
  | _ -> failwith "pexp: bad case"

(* words with simple parameter expansions (Lex/Reprint2.v): skeleton in the harness notation, printed text, skeleton again *)
let rec sk_rp (p : rp) : string =
  let enc l = hexb (List.concat_map (fun r -> encode_rune r) l) in
  match p with
  | RL t -> "L" ^ enc t
  | RQ (tok, v) -> "Q" ^ enc [tok] ^ (match v with [] -> "N" | _ -> sk_rps v)
  | RP n -> "P0{" ^ enc n ^ "::N}"
and sk_rps (l : rp list) : string = "[" ^ String.concat "," (List.map sk_rp l) ^ "]"

let rword2_line line =
  match String.split_on_char '\t' line with
  | h :: _ ->
    let rs = runes_of_string (string_of_hex h) @ [n_of_int 10] in
    (match scan_word2 (nat_of_int (2 * List.length rs + 4)) rs [] with
     | Some ([], _) -> "noarg"
     | Some (w, rest) ->
       let tail = " " ^ string_of_int (List.length rest) in
       let p = print_parts2 w in
       let ph = hexb (List.concat_map (fun r -> encode_rune r) p) in
       (match scan_word2 (nat_of_int (2 * List.length p + 6)) (p @ [n_of_int 10]) [] with
        | Some (w2, _) -> sk_rps w ^ " " ^ ph ^ " " ^ sk_rps w2 ^ tail
        | None -> sk_rps w ^ " " ^ ph ^ " none" ^ tail)
     | None -> "unmodelled")
  | _ -> failwith "rword2: bad case"

(* words with braced parameter expansions (Lex/Reprint3.v) *)
let rec sk_rq (p : rq) : string =
  let enc l = hexb (List.concat_map (fun r -> encode_rune r) l) in
  match p with
  | QL t -> "L" ^ enc t
  | QQ (tok, v) -> "Q" ^ enc [tok] ^ (match v with [] -> "N" | _ -> sk_rqs v)
  | QP n -> "P0{" ^ enc n ^ "::N}"
  | QB (n, op, w) -> "P1{" ^ enc n ^ ":" ^ enc op ^ ":" ^ (match w with None -> "N" | Some l -> sk_rqs l) ^ "}"
and sk_rqs (l : rq list) : string = "[" ^ String.concat "," (List.map sk_rq l) ^ "]"

let rword3_line line =
  match String.split_on_char '\t' line with
  | h :: _ ->
    let rs = runes_of_string (string_of_hex h) @ [n_of_int 10] in
    (match scan_word3 (nat_of_int (2 * List.length rs + 4)) rs [] with
     | Some ([], _) -> "noarg"
     | Some (w, rest) ->
       let tail = " " ^ string_of_int (List.length rest) in
       let p = print_parts3 w in
       let ph = hexb (List.concat_map (fun r -> encode_rune r) p) in
       (match scan_word3 (nat_of_int (2 * List.length p + 6)) (p @ [n_of_int 10]) [] with
        | Some (w2, _) -> sk_rqs w ^ " " ^ ph ^ " " ^ sk_rqs w2 ^ tail
        | None -> sk_rqs w ^ " " ^ ph ^ " none" ^ tail)
     | None -> "unmodelled")
  | _ -> failwith "rword3: bad case"
