(* driver <prop> <cases-file> [<impl-file>]
   Prints one line per case:  <model observable> \t <judge verdict>
   (judge verdict = the property's specification evaluated on the implementation's observable;
    "-" when no implementation output was supplied). *)
let () =
  let prop = Sys.argv.(1) in
  let cases = Util.read_lines (open_in Sys.argv.(2)) in
  let impl = if Array.length Sys.argv > 3 then Some (Array.of_list (Util.read_lines (open_in Sys.argv.(3)))) else None in
  let model, judge = match prop with
    | "c20" -> C20.model_line, Some C20.judge_line
    | "c20x" -> Xpc20.model_line, Some Xpc20.judge_line
    | "optstr" -> C20.optstr_line, None
    | "ends" -> Ends.model_line, Some Ends.judge_line
    | "c12" -> C12.model_line, Some C12.judge_line
    | "c11" -> C11.model_line, Some C11.judge_line
    | "unicode" -> C11.unicode_line, None
    | "c16" -> C16.model_line, Some C16.judge_line
    | "qword" -> C15.model_line, None
    | "rword" -> C15.rword_line, None
    | "pexp" -> C15.pexp_line, None
    | "rword2" -> C15.rword2_line, None
    | "rword3" -> C15.rword3_line, None
    | "hdoc" -> C15.hdoc_line, None
    | "gap" -> Gap.model_line, None
    | "hdp" -> Hdp.model_line, Some Hdp.judge_line
    | "astream" -> Astream.model_line, Some Astream.judge_line
    | "ptok" -> Ptok.model_line, Some Ptok.judge_line
    | "dtok" -> Ptok.model_line, Some Ptok.dtok_judge
    | "xp" -> Xp.model_line, None
    | "xp13" -> Xp.model_line, Some Xp.judge13
    | "xp14" -> Xp.model_line, Some Xp.judge14
    | _ -> failwith ("unknown property " ^ prop) in
  let out = Buffer.create 65536 in
  List.iteri (fun i c ->
      let m = try model c with e -> "EXC:" ^ Printexc.to_string e in
      let j = match judge, impl with
        | Some jf, Some im when i < Array.length im ->
          (try jf c im.(i) with e -> "bad:EXC:" ^ Printexc.to_string e)
        | _ -> "-" in
      Buffer.add_string out m; Buffer.add_char out '\t'; Buffer.add_string out j; Buffer.add_char out '\n';
      if Buffer.length out > 60000 then (print_string (Buffer.contents out); Buffer.clear out)) cases;
  print_string (Buffer.contents out)
