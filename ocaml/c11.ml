(* C11: ExecEnv.Eval.  Case: vars (name=value, hex, comma separated) \t expr (hex)
   Observable: ok:<n> | err:<kind>   then " S=" sorted store name=value (hex) *)
open Model
open Util

let mkenv (vars : string) : env =
  let e0 = { args = [bytes_of_string "sh"]; opts = N0; pid = Z0;
             vars = [ (bytes_of_string "IFS", Extracted.coq_IFS) ] } in
  List.fold_left (fun e kv -> match String.split_on_char '=' kv with
      | [k; v] -> set_var e (unhexb k) (unhexb v)
      | _ -> failwith "c11: var") e0 (split_on ',' vars)

let fmt_store (e : env) : string =
  let l = List.map (fun (k, v) -> (string_of_bytes k, string_of_bytes v)) e.vars in
  let l = List.sort compare l in
  String.concat "," (List.map (fun (k, v) -> hex_of_string k ^ "=" ^ hex_of_string v) l)

let kind = function
  | KInvalidNumber -> "invalid" | KLValue -> "lvalue" | KDivZero -> "div0" | KNegShift -> "negshift" | KSyntax -> "syntax"

let fmt_res ((e, r) : env * (z, akind) outcome) : string =
  (match r with
   | Ok n -> "ok:" ^ string_of_z n
   | Err k -> "err:" ^ kind k
   | Panic _ -> "panic"
   | OutOfFuel -> "fuel") ^ " S=" ^ fmt_store e

let parse line = match String.split_on_char '\t' line with
  | [v; x] -> (mkenv v, unhexb x)
  | _ -> failwith "c11: bad case"

let model_line line =
  let (e, src) = parse line in
  fmt_res (eval_model e src)

let parse_expr src =
  let rs = runes_of src in
  let ts = alex (nat_of_int (List.length rs + 1)) rs in
  if has_bad ts then None else aparse ts

(* judge: C semantics on the parsed expression, applied to the implementation's answer *)
let judge_line line impl =
  let (e, src) = parse line in
  match parse_expr src with
  | None -> "-"
  | Some a ->
    if not (c_defined a) then "-" else
      let (e', r) = eval_c e a in
      let is_err s = String.length s >= 4 && String.sub s 0 4 = "err:" in
      let tag = if eager_safe a && numeric_store e a then "c-semantics" else "f11" in
      (match r with
       | Ok _ -> if impl = fmt_res (e', r) then "ok" else "bad:" ^ tag ^ " want=" ^ fmt_res (e', r)
       | Err _ -> if is_err impl then "ok" else "bad:" ^ tag ^ " want=err"
       | _ -> "-")

(* unicode tables: case = decimal rune; output = universe letter digit *)
let unicode_line line =
  let r = n_of_int (int_of_string line) in
  let b x = if x then "1" else "0" in
  b (uni_universe r) ^ b (is_letter r) ^ b (is_udigit r)
