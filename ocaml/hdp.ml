(* Printer here-document placement (Print/Heredocs.v): the operations the real printer performed are replayed on the model;
   the events it emitted must be the model's, and the reader model must accept them. *)
open Model
open Util

let op_of_string s =
  match s.[0] with
  | 'P' -> OPush | 'Q' -> OPop | 'N' -> ONewline | 'S' -> OSuspend | 'T' -> OResume | 'E' -> OEndNewline
  | 'R' -> ORedir (nat_of_int (int_of_string (String.sub s 1 (String.length s - 1))))
  | 'B' -> OBody (nat_of_int (int_of_string (String.sub s 1 (String.length s - 1))))
  | _ -> failwith ("op " ^ s)

let string_of_ev = function
  | EAnn i -> "a" ^ string_of_int (int_of_nat i)
  | ENL -> "n"
  | EBody i -> "b" ^ string_of_int (int_of_nat i)
  | ESub -> "s"
  | EEndSub -> "t"

let model_line (_ : string) : string = "-"

let judge_line (_ : string) (impl : string) : string =
  if String.length impl >= 5 && String.sub impl 0 5 = "skip:" then "-"
  else if String.length impl < 3 || String.sub impl 0 3 <> "ok " then "bad:" ^ impl
  else begin
    let runs = String.split_on_char '|' (String.sub impl 3 (String.length impl - 3)) in
    let check (r : string) : string option =
      match String.split_on_char '/' r with
      | [o; v] ->
        let ops = List.map op_of_string (split_on ',' o) in
        (match hrun { levels = []; writing = []; saved = [] } ops with
         | None -> Some "model-faults (redir or pop on an empty stack, or resume with levels left)"
         | Some (st, evs) ->
           let got = String.concat "," (List.map string_of_ev evs) in
           if got <> v then Some ("events: model " ^ got ^ " printer " ^ v)
           else if st.levels <> [] || st.saved <> [] || st.writing <> [] then Some "levels or bodies left at the end"
           else if not (reader evs RNormal [] []) then Some "reader rejects"
           else None)
      | _ -> Some ("format " ^ r) in
    match List.filter_map check runs with
    | [] -> "ok"
    | e :: _ -> "bad:" ^ e
  end
