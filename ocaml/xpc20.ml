(* C20, extended: store histories interleaved with Expand and Eval.
   ops: S,n,v | U,n | G,n | W | X:<mode>:<hex of word tokens> | E:<hex expr>
   X / E observation:  x;<result>;<store>;A=<args>|O=<opts>   e;<result>;<store>;A=..|O=.. *)
open Model
open Util

type xop = Plain of op | XExpand of n * wpart list | XEval of n list

let parse_xop (s : string) : xop =
  if String.length s > 2 && String.sub s 0 2 = "X:" then
    (match String.split_on_char ':' s with
     | [_; m; w] ->
       let toks = Array.of_list (split_on ' ' (string_of_hex w)) in
       XExpand (n_of_int (int_of_string m), fst (Xp.parse_word toks 0))
     | _ -> failwith "c20x: X")
  else if String.length s > 2 && String.sub s 0 2 = "E:" then
    (match String.split_on_char ':' s with
     | [_; x] -> XEval (unhexb x)
     | _ -> failwith "c20x: E")
  else Plain (C20.parse_op s)

let parse_case (line : string) =
  match String.split_on_char '\t' line with
  | [a; o; p; ops] ->
    let args = List.map unhexb (split_on ',' a) in
    let e = { args = args; opts = n_of_int (int_of_string o); pid = z_of_string p;
              vars = [ (bytes_of_string "IFS", Extracted.coq_IFS) ] } in
    (e, List.map parse_xop (split_on ' ' ops))
  | _ -> failwith "c20x: bad case"

let fmt_ao (e : env) : string =
  Printf.sprintf "A=%s|O=%s" (String.concat "," (List.map hexb e.args)) (string_of_int (int_of_n e.opts))

let model_line (line : string) : string =
  let (e, ops) = parse_case line in
  let e = ref e in
  let out = List.map (fun o ->
      match o with
      | Plain o ->
        let (e', ob) = step !e o in
        e := e';
        (match ob with ONone -> "-" | OGot r -> C20.fmt_get r | OWalked l -> C20.fmt_walk l)
      | XExpand (mode, w) ->
        let r = expand_top (Xp.users ()) Xp.no_glob !e w mode in
        let (res, e') = match r with
          | Ok (e', fields) -> (Printf.sprintf "ok:%d:%s" (List.length fields) (String.concat "," (List.map hexb fields)), e')
          | Err (e', XParam (n, m)) -> (Printf.sprintf "err:param:%s:%s" (hexb n) (hexb m), e')
          | Err (e', XArith _) -> ("err:arith", e')
          | Err (e', XPattern) -> ("err:pattern", e')
          | Err (e', XUnmodelled) -> ("unmodelled", e')
          | Panic _ -> ("panic", !e)
          | OutOfFuel -> ("fuel", !e) in
        e := e';
        Printf.sprintf "x;%s;%s;%s" res (C11.fmt_store e') (fmt_ao e')
      | XEval src ->
        let (e', r) = eval_model !e src in
        let res = match r with Ok n -> "ok:" ^ string_of_z n | Err _ -> "err" | Panic _ -> "panic" | OutOfFuel -> "fuel" in
        e := e';
        Printf.sprintf "e;%s;%s;%s" res (C11.fmt_store e') (fmt_ao e')) ops in
  String.concat " " out

(* judge, on the implementation's observations alone:
   - Args and Opts are the same after every Expand / Eval;
   - an expansion that reports "parameter is unset" for a name has not assigned that name;
   - Expand / Eval change only names that occur under an assigning construct of the word / in the expression *)
let rec assignable (w : wpart list) : string list =
  List.concat_map (function
      | WLit _ | WOther -> []
      | WQuote (_, v) -> assignable v
      | WArith v -> "*arith*" :: assignable v
      | WParam (n, o, word) ->
        let o = string_of_bytes o in
        (if o = ":=" || o = "=" then [string_of_bytes n] else [])
        @ (match word with Some v -> assignable v | None -> [])) w

let store_of (s : string) : (string * string) list =
  List.map (fun kv -> match String.split_on_char '=' kv with
      | [k; v] -> (string_of_hex k, string_of_hex v) | _ -> failwith "c20x: store") (split_on ',' s)

let judge_line (line : string) (impl : string) : string =
  let (e0, ops) = parse_case line in
  let items = split_on ' ' impl in
  if List.length items <> List.length ops then "bad:length" else begin
    let ao0 = fmt_ao e0 in
    (* the store as the implementation shows it: known exactly after an X / E observation, tracked through S / U in between *)
    let cur : (string * string) list option ref = ref (Some [("IFS", string_of_bytes Extracted.coq_IFS)]) in
    let res = ref "ok" in
    List.iteri (fun i (o, it) ->
        if !res = "ok" then
          match o with
          | Plain (OSet (n, v)) ->
            let n = string_of_bytes n and v = string_of_bytes v in
            (match !cur with
             | Some m -> if is_sp_param (bytes_of_string n) || is_pos_param (bytes_of_string n) then () else cur := Some ((n, v) :: List.remove_assoc n m)
             | None -> ())
          | Plain (OUnset n) ->
            let n = string_of_bytes n in
            (match !cur with Some m -> cur := Some (List.remove_assoc n m) | None -> ())
          | Plain _ -> ()
          | XExpand _ | XEval _ ->
            (match String.split_on_char ';' it with
             | [_; r; st; ao] ->
               if ao <> ao0 then res := Printf.sprintf "bad:op%d args-or-opts-changed" i else begin
                 let after = store_of st in
                 (match o with
                  | XExpand (_, w) ->
                    (* unset error => not assigned *)
                    (match String.split_on_char ':' r with
                     | ["err"; "param"; n; m] when string_of_hex m = "parameter is unset" ->
                       if List.mem_assoc (string_of_hex n) after then res := Printf.sprintf "bad:op%d assigned-despite-unset-error" i
                     | _ -> ());
                    let names = assignable w in
                    if not (List.mem "*arith*" names) then
                      (match !cur with
                       | Some before ->
                         let changed = List.filter (fun (k, v) -> List.assoc_opt k before <> Some v) after
                                       @ List.filter (fun (k, _) -> not (List.mem_assoc k after)) before in
                         List.iter (fun (k, _) -> if not (List.mem k names) && !res = "ok" then
                                       res := Printf.sprintf "bad:op%d changed-%s" i (hex_of_string k)) changed
                       | None -> ())
                  | XEval src ->
                    (* only identifiers that are the operand of an assigning operator can change: a name, possibly in redundant
                       parentheses, directly left of = op= ++ -- or directly right of ++ -- (both sides of ++ / -- are taken, a superset) *)
                    let txt = string_of_bytes src in
                    let n = String.length txt in
                    let isid c = (c >= 'a' && c <= 'z') || (c >= 'A' && c <= 'Z') || (c >= '0' && c <= '9') || c = '_' || Char.code c >= 128 in
                    let toks = ref [] in
                    let pos = ref 0 in
                    let ops3 = ["<<="; ">>="] and ops2 = ["++"; "--"; "<<"; ">>"; "<="; ">="; "=="; "!="; "&&"; "||"; "*="; "/="; "%="; "+="; "-="; "&="; "^="; "|="] in
                    while !pos < n do
                      let c = txt.[!pos] in
                      if c = ' ' || c = '\t' || c = '\n' then incr pos
                      else if isid c then begin
                        let j = ref !pos in while !j < n && isid txt.[!j] do incr j done;
                        toks := ("id", String.sub txt !pos (!j - !pos)) :: !toks; pos := !j end
                      else if !pos + 3 <= n && List.mem (String.sub txt !pos 3) ops3 then (toks := ("op", String.sub txt !pos 3) :: !toks; pos := !pos + 3)
                      else if !pos + 2 <= n && List.mem (String.sub txt !pos 2) ops2 then (toks := ("op", String.sub txt !pos 2) :: !toks; pos := !pos + 2)
                      else (toks := ("op", String.make 1 c) :: !toks; incr pos)
                    done;
                    let ta = Array.of_list (List.rev !toks) in
                    let m = Array.length ta in
                    let ids = ref [] in
                    let isop k s = k >= 0 && k < m && ta.(k) = ("op", s) in
                    let left_target k =
                      (* ta.(k) is the operator: name (in k parentheses) directly to its left *)
                      let j = ref (k - 1) and c = ref 0 in
                      while isop !j ")" do decr j; incr c done;
                      if !j >= 0 && fst ta.(!j) = "id" then begin
                        let ok = ref true in
                        for d = 1 to !c do if not (isop (!j - d) "(") then ok := false done;
                        if !ok then ids := snd ta.(!j) :: !ids end in
                    let right_target k =
                      let j = ref (k + 1) and c = ref 0 in
                      while isop !j "(" do incr j; incr c done;
                      if !j < m && fst ta.(!j) = "id" then begin
                        let ok = ref true in
                        for d = 1 to !c do if not (isop (!j + d) ")") then ok := false done;
                        if !ok then ids := snd ta.(!j) :: !ids end in
                    Array.iteri (fun k t ->
                        match t with
                        | ("op", o) when List.mem o ["="; "*="; "/="; "%="; "+="; "-="; "<<="; ">>="; "&="; "^="; "|="] -> left_target k
                        | ("op", o) when o = "++" || o = "--" -> left_target k; right_target k
                        | _ -> ()) ta;
                    (match !cur with
                     | Some before ->
                       let changed = List.filter (fun (k, v) -> List.assoc_opt k before <> Some v) after
                                     @ List.filter (fun (k, _) -> not (List.mem_assoc k after)) before in
                       List.iter (fun (k, _) -> if not (List.mem k !ids) && !res = "ok" then
                                     res := Printf.sprintf "bad:op%d changed-%s" i (hex_of_string k)) changed
                     | None -> ())
                  | _ -> ());
                 cur := Some after
               end
             | _ -> if it = "x;panic" then res := "bad:panic" else res := Printf.sprintf "bad:op%d format" i)) (List.combine ops items);
    !res
  end
