(* Layout model (Lex/Layout.v): what the scanner makes of the text between two tokens.
   case: ctx (arg | lb) \t text(hex)   -- the text that follows the first token / the operator
   out : arg: J|B|L|E : comments(hex,comma) : rest(hex)      lb: K|X : comments : rest *)
open Model
open Util

let runes_of_string s = bytes_of_string s      (* the layout alphabet is ASCII: one rune per byte *)
let fmt_comments cs = String.concat "," (List.map (fun c -> "c" ^ hexb c) cs)

let model_line (line : string) : string =
  match String.split_on_char '\t' line with
  | [ctx; h] ->
    let s = runes_of_string (string_of_hex h) in
    if ctx = "arg" then
      (match scan_gap s with
       | (GJoin, rest) -> "J::" ^ hexb rest
       | (GBlank, rest) -> "B::" ^ hexb rest
       | (GLine cs, rest) -> "L:" ^ fmt_comments cs ^ ":" ^ hexb rest
       | (GEof cs, rest) -> "E:" ^ fmt_comments cs ^ ":" ^ hexb rest)
    else
      (match scan_linebreak s with
       | LOk (cs, rest) -> "K:" ^ fmt_comments cs ^ ":" ^ hexb rest
       | LEnded cs -> "X:" ^ fmt_comments cs ^ ":")
  | _ -> "bad-case"
