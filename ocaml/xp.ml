(* Word expansion.  Case: args \t opts \t vars \t mode \t word
   Observable: ok:<n>:<fields hex,comma> | err:param:<name>:<msg> | err:arith | err:pattern ;  then " S=" store *)
open Model
open Util

let users () : (n list * n list) list =
  match Sys.getenv_opt "VERIF_USERS" with
  | None | Some "" -> []
  | Some s -> List.map (fun kv -> match String.split_on_char '=' kv with
      | [k; v] -> (unhexb k, unhexb v) | _ -> failwith "VERIF_USERS") (String.split_on_char ',' s)

let rec parse_word (toks : string array) (i : int) : wpart list * int =
  let acc = ref [] and i = ref i and fin = ref false in
  while not !fin && !i < Array.length toks do
    let t = toks.(!i) in
    if t = ")" then (incr i; fin := true)
    else if t = "O" then (acc := WOther :: !acc; incr i)
    else match t.[0] with
      | 'L' -> acc := WLit (unhexb (String.sub t 1 (String.length t - 1))) :: !acc; incr i
      | 'Q' ->
        let tok = int_of_string (String.sub t 1 (String.length t - 2)) in
        let (v, j) = parse_word toks (!i + 1) in
        acc := WQuote (n_of_int tok, v) :: !acc; i := j
      | 'A' -> let (v, j) = parse_word toks (!i + 1) in acc := WArith v :: !acc; i := j
      | 'P' ->
        (match String.split_on_char ',' (String.sub t 1 (String.length t - 1)) with
         | [n; o; "N"] -> acc := WParam (unhexb n, unhexb o, None) :: !acc; incr i
         | [n; o; _] -> let (v, j) = parse_word toks (!i + 1) in acc := WParam (unhexb n, unhexb o, Some v) :: !acc; i := j
         | _ -> failwith "xp: P")
      | _ -> failwith ("xp: token " ^ t)
  done;
  (List.rev !acc, !i)

let mkenv args opts vars : env =
  let e0 = { args = List.map unhexb (split_on ',' args); opts = n_of_int (int_of_string opts); pid = Z0; vars = [] } in
  List.fold_left (fun e kv -> match String.split_on_char '=' kv with
      | [k; v] -> set_var e (unhexb k) (unhexb v)
      | _ -> failwith "xp: var") e0 (split_on ',' vars)

let parse line = match String.split_on_char '\t' line with
  | [a; o; v; m; w] ->
    (mkenv a o v, n_of_int (int_of_string m), fst (parse_word (Array.of_list (split_on ' ' w)) 0))
  | _ -> failwith "xp: bad case"

let fmt_store = C11.fmt_store

let fmt (e0 : env) (r : ((env * n list list), (env * xerr)) outcome) : string =
  match r with
  | Ok (e, fields) -> Printf.sprintf "ok:%d:%s S=%s" (List.length fields) (String.concat "," (List.map hexb fields)) (fmt_store e)
  | Err (e, XParam (n, m)) -> Printf.sprintf "err:param:%s:%s S=%s" (hexb n) (hexb m) (fmt_store e)
  | Err (e, XArith _) -> "err:arith S=" ^ fmt_store e
  | Err (e, XPattern) -> "err:pattern S=" ^ fmt_store e
  | Err (_, XUnmodelled) -> "unmodelled"
  | Panic p -> Printf.sprintf "panic:%d" (int_of_nat p)
  | OutOfFuel -> "fuel"

let no_glob _ = None

let model_line line =
  let (e, mode, w) = parse line in
  fmt e (expand_top (users ()) no_glob e w mode)

(* ---- C14 judge: the splitting specification applied to the model's pre-split fields *)
let is_prefix p s = String.length s >= String.length p && String.sub s 0 (String.length p) = p

let impl_fields (impl : string) : string list option =
  (* "ok:<n>:<hex,..> S=..." *)
  if not (is_prefix "ok:" impl) then None else
    match String.split_on_char ' ' impl with
    | r :: _ ->
      (match String.split_on_char ':' r with
       | [_; n; hs] -> let n = int_of_string n in
         if n = 0 then Some [] else Some (List.map string_of_hex (String.split_on_char ',' hs))
       | _ -> None)
    | _ -> None

let impl_store (impl : string) : string =
  match String.split_on_char ' ' impl with [_; s] -> s | _ -> ""

let judge14 line impl =
  let (e, mode, w) = parse line in
  if int_of_n mode <> 0 then "-" else
    match expand (users ()) (nat_of_int (4 * (int_of_nat (word_size w) + 1))) e w mode with
    | Ok (e1, fields) ->
      let want = List.concat_map (fun f -> List.map string_of_bytes (split_spec (ifs_value e1) f)) fields in
      (match impl_fields impl with
       | Some got -> if got = want then "ok" else "bad:split want=" ^ String.concat "," (List.map hex_of_string want)
       | None -> "bad:split-error")
    | _ -> "-"

(* ---- C13 judge: the POSIX table *)
let str b = string_of_bytes b
let literal_mode = n_of_int 4 and pattern_mode = n_of_int 8

let expand_str2 e w mode : (string * env, string) result =
  match expand_top (users ()) no_glob e w mode with
  | Ok (e1, [s]) -> Ok (str s, e1)
  | Ok (_, _) -> Error "fields"
  | Err (_, XUnmodelled) -> Error "unmodelled"
  | _ -> Error "err"

let expand_str e w mode : (string, string) result =
  match expand_top (users ()) no_glob e w mode with
  | Ok (_, [s]) -> Ok (str s)
  | Ok (_, _) -> Error "fields"
  | Err (_, XUnmodelled) -> Error "unmodelled"
  | _ -> Error "err"

let judge13 line impl =
  let (e, mode, w) = parse line in
  let (quoted, pe) = match w with
    | [WQuote (q, [WParam (n, o, ww)])] when int_of_n q = 34 -> (true, Some (n, o, ww))
    | [WParam (n, o, ww)] -> (false, Some (n, o, ww))
    | _ -> (false, None) in
  if int_of_n mode <> 0 then "-" else
    match pe with
    | None -> "-"
    | Some (name, op, ww) ->
      let nm = str name and ops = str op in
      let pos = match e.args with _ :: t -> List.map str t | [] -> [] in
      let ifs = str (ifs_value e) in
      let nounset = (int_of_n e.opts) land 512 <> 0 in
      let store0 = fmt_store e in
      let has_ifs s = List.exists (fun c -> String.contains s c) (List.init (String.length ifs) (String.get ifs)) in
      let expect_fields (l : string list) (store : string) =
        match impl_fields impl with
        | Some got -> if got = l && impl_store impl = "S=" ^ store then "ok"
          else "bad:table want=" ^ String.concat "," (List.map hex_of_string l) ^ " S=" ^ store
        | None -> "bad:table unexpected error, want=" ^ String.concat "," (List.map hex_of_string l) in
      let expect_error (msg : string option) =
        if is_prefix "err:param:" impl then
          (match msg with
           | None -> "ok"
           | Some m -> if is_prefix ("err:param:" ^ hex_of_string nm ^ ":" ^ hex_of_string m ^ " ") (impl ^ " ") then "ok" else "bad:error-message")
        else "bad:table want=error" in
      (* one string R substituted in this context *)
      let subst (r : string) (store : string) =
        if quoted then expect_fields [r] store
        else if has_ifs r || String.exists (fun c -> c = '*' || c = '?' || c = '[') r then "-"
        else expect_fields (if r = "" then [] else [r]) store in
      (* the removal operators on $@ / $* are left to the correspondence: POSIX does not say whether they apply to each
         positional parameter or to the joined string, and the implementation does either depending on the quoting *)
      if nm = "@" || nm = "*" then begin
        if ops <> "" then "-" else
        if nm = "@" && quoted then (if pos = [] then expect_fields [] store0 else expect_fields pos store0)
        else if nm = "*" && quoted then
          let sep = match get e (bytes_of_string "IFS") with
            | Ok ((_, v), true) -> (match syms_of v with (_, b) :: _ -> str b | [] -> "")
            | _ -> " " in
          expect_fields [String.concat sep pos] store0
        else if List.exists (fun p -> has_ifs p || p = "" || String.exists (fun c -> c = '*' || c = '?' || c = '[') p) pos then "-"
        else expect_fields pos store0
      end else
        let state = match get e name with
          | Ok ((_, v), true) -> if v = [] then PNull else PVal v
          | _ -> PUnset in
        let w_str () = match ww with Some x -> expand_str2 e x (if quoted then n_of_int 20 else literal_mode) | None -> Ok ("", e) in
        match ops, ww with
        | "", _ ->
          (match state with
           | PVal v -> subst (str v) store0
           | PNull -> subst "" store0
           | PUnset -> if nounset then expect_error None else subst "" store0)
        | "#", None ->
          (match state with
           | PVal v -> subst (string_of_int (int_of_nat (rune_count v))) store0
           | PNull -> subst "0" store0
           | PUnset -> if nounset then expect_error None else subst "0" store0)
        | ("%" | "%%" | "#" | "##"), Some x ->
          (match state with
           | PUnset -> if nounset then expect_error None else subst "" store0
           | PNull -> subst "" store0
           | PVal v ->
             (match expand_str2 e x pattern_mode with
              | Error _ -> "-"
              | Ok (pat, e1) ->
                let store0 = fmt_store e1 in
                let suffix = ops.[0] = '%' and largest = String.length ops = 2 in
                let pmode = n_of_int ((if suffix then 4 else 8) lor (if largest then 2 else 1)) in
                (match compile_model [bytes_of_string pat] pmode with
                 | COk alts ->
                   let its = List.map (List.map fst) alts in
                   let sy = syms_of v in
                   let m = if suffix then spec_suffix fst largest its sy else spec_prefix fst largest its sy in
                   let ms = match m with Some x -> str (raw x) | None -> "" in
                   let vs = str v in
                   let r = if suffix then String.sub vs 0 (String.length vs - String.length ms)
                     else String.sub vs (String.length ms) (String.length vs - String.length ms) in
                   subst r store0
                 | CErr -> if is_prefix "err:pattern" impl then "ok" else "bad:malformed-pattern-accepted"
                 | CUnmodelled -> "-")))
        | _, Some x ->
          (match posix_table op state with
           | None -> "-"
           | Some act ->
             (match act with
              | AValue v -> subst (str v) store0
              | ANull -> subst "" store0
              | AWord -> (match w_str () with Ok (r, e1) -> if quoted || x = [] then subst r (fmt_store e1) else "-" | Error _ -> "-")
              | AAssign ->
                if is_sp_param name || is_pos_param name then expect_error None else
                (match w_str () with
                 | Ok (r, e1) -> let e' = set_var e1 name (bytes_of_string r) in
                   if quoted then subst r (fmt_store e') else "-"
                 | Error _ -> "-")
              | AErrorWord ->
                (match w_str () with
                 | Ok (r, _) -> expect_error (Some (if x = [] then "parameter is unset or null" else r))
                 | Error _ -> "-")))
        | _, None -> "-"
