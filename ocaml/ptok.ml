(* Token-level grammar model (Parse/Grammar.v) against the tokens the real parser received. *)
open Model
open Util

exception Bad of string

let kind_of_string = function
  | "AND" -> K_AND | "OR" -> K_OR | "PIPE" -> K_PIPE | "LPAREN" -> K_LPAREN | "RPAREN" -> K_RPAREN | "LAE" -> K_LAE | "RAE" -> K_RAE
  | "BREAK" -> K_BREAK | "AMP" -> K_AMP | "SEMI" -> K_SEMI | "LT" -> K_LT | "GT" -> K_GT | "CLOBBER" -> K_CLOBBER | "APPEND" -> K_APPEND
  | "HEREDOC" -> K_HEREDOC | "HEREDOCI" -> K_HEREDOCI | "DUPIN" -> K_DUPIN | "DUPOUT" -> K_DUPOUT | "RDWR" -> K_RDWR
  | "IONUM" -> K_IONUM | "WORD" -> K_WORD | "NAME" -> K_NAME | "ASSIGN" -> K_ASSIGN | "BANG" -> K_BANG | "LBRACE" -> K_LBRACE
  | "RBRACE" -> K_RBRACE | "FOR" -> K_FOR | "CASE" -> K_CASE | "ESAC" -> K_ESAC | "IN" -> K_IN | "IF" -> K_IF | "ELIF" -> K_ELIF
  | "THEN" -> K_THEN | "ELSE" -> K_ELSE | "FI" -> K_FI | "WHILE" -> K_WHILE | "UNTIL" -> K_UNTIL | "DO" -> K_DO | "DONE" -> K_DONE
  | "NL" -> K_NL
  | s -> raise (Bad ("token kind " ^ s))

(* ---- parsing the word skeleton text back into an mword *)
let is_hex c = (c >= '0' && c <= '9') || (c >= 'a' && c <= 'f')

let rec parse_word (s : string) (i : int ref) : mpart list option =
  let n = String.length s in
  let peek () = if !i < n then s.[!i] else '\000' in
  let eat c = if peek () = c then incr i else raise (Bad (Printf.sprintf "expected %c at %d in %s" c !i s)) in
  let hexrun () =
    let j = !i in
    while !i < n && is_hex s.[!i] do incr i done;
    String.sub s j (!i - j) in
  let rec word () : mpart list option =
    if peek () = 'N' then (incr i; None)
    else begin
      eat '[';
      let parts = ref [] in
      if peek () = ']' then incr i
      else begin
        parts := [part ()];
        while peek () = ',' do incr i; parts := part () :: !parts done;
        eat ']'
      end;
      Some (List.rev !parts)
    end
  and part () : mpart =
    match peek () with
    | 'L' -> incr i; MLit (unhexb (hexrun ()))
    | 'Q' -> incr i;
      let t = String.sub s !i 2 in
      i := !i + 2;
      let v = word () in
      MQuote (List.hd (unhexb t), (match v with Some x -> x | None -> []))
    | 'P' -> incr i;
      let br = peek () = '1' in
      incr i; eat '{';
      let name = if peek () = 'N' then (incr i; []) else unhexb (hexrun ()) in
      eat ':';
      let op = unhexb (hexrun ()) in
      eat ':';
      let w = word () in
      eat '}';
      MParam (br, name, op, w)
    | 'C' when !i + 2 < n && s.[!i + 2] = '<' -> incr i;
      (* a nested program given by its tokens: the model computes the skeleton of its commands *)
      let d = peek () = 'd' in
      incr i; incr i;
      let toks, hs = parse_prog s i in
      eat '>';
      (match parse_subst toks hs with
       | Some sk -> MSubst (d, sk)
       | None -> raise (Bad "nested program not derivable"))
    | 'C' -> incr i;
      let d = peek () = 'd' in
      incr i;
      let j = !i in
      let depth = ref 0 in
      let fin = ref false in
      while not !fin do
        (match peek () with
         | '(' -> incr depth
         | ')' -> decr depth; if !depth = 0 then fin := true
         | '\000' -> raise (Bad "unbalanced C")
         | _ -> ());
        incr i
      done;
      MSubst (d, bytes_of_string (String.sub s j (!i - j)))
    | 'A' -> incr i;
      let w = word () in
      MArith (match w with Some x -> x | None -> [])
    | c -> raise (Bad (Printf.sprintf "part %c at %d in %s" c !i s))
  in
  word ()

(* tokens: KIND#word@KIND#word...[!heredoc~delim|...] ; ends at '>' or at the end of the string *)
and parse_prog (s : string) (i : int ref) : token list * (mpart list option * mpart list option) list =
  let n = String.length s in
  let toks = ref [] in
  let k = ref 0 in
  let fin () = !i >= n || s.[!i] = '>' || s.[!i] = '!' in
  while not (fin ()) do
    let j = !i in
    while !i < n && s.[!i] <> '#' do incr i done;
    let kd = String.sub s j (!i - j) in
    incr i;
    let w = if !i < n && s.[!i] = '-' then (incr i; []) else (match parse_word s i with Some x -> x | None -> []) in
    toks := { tk = kind_of_string kd; tw = w; tidx = nat_of_int !k } :: !toks;
    incr k;
    if !i < n && s.[!i] = '@' then incr i
  done;
  let hs = ref [] in
  if !i < n && s.[!i] = '!' then begin
    incr i;
    let more = ref true in
    while !more do
      let a = parse_word s i in
      if !i < n && s.[!i] = '~' then incr i else raise (Bad "heredoc pair");
      let b = parse_word s i in
      hs := (a, b) :: !hs;
      if !i < n && s.[!i] = '|' then incr i else more := false
    done
  end;
  List.rev !toks, List.rev !hs

let word_of_string (s : string) : mpart list option =
  let i = ref 0 in
  let w = parse_word s i in
  if !i <> String.length s then raise (Bad ("trailing text in word " ^ s));
  w

let fields (out : string) : (string * string) list =
  List.filter_map (fun kv -> match String.index_opt kv '=' with
      | Some j -> Some (String.sub kv 0 j, String.sub kv (j + 1) (String.length kv - j - 1))
      | None -> None) (String.split_on_char ' ' out)

(* tokens and their positions *)
let parse_T (t : string) : token list * string array =
  let items = if t = "" then [] else String.split_on_char '@' t in
  let pos = Array.of_list (List.map (fun it -> match String.split_on_char '#' it with [_; _; p] -> p | _ -> raise (Bad it)) items) in
  let toks = List.mapi (fun k it ->
      match String.split_on_char '#' it with
      | [kd; w; _] ->
        { tk = kind_of_string kd; tw = (if w = "-" then [] else match word_of_string w with Some x -> x | None -> []); tidx = nat_of_int k }
      | _ -> raise (Bad it)) items in
  toks, pos

let parse_H (h : string) : (mpart list option * mpart list option) list =
  if h = "" then [] else
    List.map (fun it -> match String.split_on_char '~' it with
        | [a; b] -> (word_of_string a, word_of_string b)
        | _ -> raise (Bad it)) (String.split_on_char '|' h)

let model_line (_ : string) : string = "-"

(* judge: the grammar model run on the delivered tokens must agree with what the parser made of them *)
let judge_line (_ : string) (impl : string) : string =
  if String.length impl < 3 || String.sub impl 0 3 <> "ok " then "bad:" ^ impl
  else begin
    let f = fields impl in
    let get k = try List.assoc k f with Not_found -> "" in
    let toks, pos = parse_T (get "T") in
    let hs = parse_H (get "H") in
    let e = get "E" in
    match parse_tokens toks hs with
    | POk (sk, _, _) ->
      let sk = string_of_bytes sk in
      if e = "nil" then (if sk = get "K" then "ok:accepted" else "bad:skeleton:" ^ sk)
      else "ok:model-accepts-delivered-prefix:" ^ e
    | PFuel -> "bad:model-out-of-fuel"
    | PErr at ->
      if e = "nil" then
        "bad:accepted-ungrammatical-token-sequence:" ^ (match at with Some i -> "token " ^ string_of_int (int_of_nat i) | None -> "EOF")
      else begin
        match at with
        | None -> "ok:rejected-at-end"
        | Some i ->
          let p = pos.(int_of_nat i) in
          (* syn:<name>:<line>:<col>:<msg> *)
          (match String.split_on_char ':' e with
           | ["syn"; _; l; c; m] ->
             let msg = string_of_hex m in
             let parserside = String.length msg >= 24 && String.sub msg 0 24 = "syntax error: unexpected" in
             if l ^ "." ^ c = p then "ok:rejected-located"
             else if parserside then "ok:rejected-elsewhere:" ^ p ^ ":" ^ l ^ "." ^ c ^ ":" ^ msg
             else "ok:rejected-lexer:" ^ msg
           | _ -> "ok:rejected-other")
      end
  end


(* ---- C02, derivation generator: case = src \t expected tokens[!here-documents] \t comments *)
let sk_of_word (w : mpart list) : string = string_of_bytes (sk_word w)

let dtok_judge (case : string) (impl : string) : string =
  if String.length impl < 3 || String.sub impl 0 3 <> "ok " then "bad:" ^ impl
  else begin
    let cf = Array.of_list (String.split_on_char '\t' case) in
    let i = ref 0 in
    let etoks, ehs = parse_prog cf.(1) i in
    if !i <> String.length cf.(1) then raise (Bad "trailing text in expected tokens");
    let f = fields impl in
    let get k = try List.assoc k f with Not_found -> "" in
    match parse_tokens etoks ehs with
    | PFuel -> "bad:model-out-of-fuel"
    | PErr _ -> "bad:generator:expected tokens are not derivable"
    | POk (sk, _, _) ->
      let sk = string_of_bytes sk in
      if get "E" <> "nil" then "bad:rejected:" ^ get "E"
      else if get "K" <> sk then "bad:skeleton:want " ^ sk
      else begin
        (* delivered tokens = expected tokens, newline tokens apart *)
        let want = List.filter_map (fun t -> if t.tk = K_NL then None else Some (t.tk, sk_of_word t.tw)) etoks in
        let items = if get "T" = "" then [] else String.split_on_char '@' (get "T") in
        let got = List.filter_map (fun it -> match String.split_on_char '#' it with
            | [kd; w; _] -> let k = kind_of_string kd in if k = K_NL then None else Some (k, w)
            | _ -> raise (Bad it)) items in
        let is_wordy k = (k = K_WORD || k = K_NAME || k = K_ASSIGN || k = K_IONUM) in
        let rec cmp n a b = match a, b with
          | [], [] -> None
          | (k1, w1) :: a', (k2, w2) :: b' ->
            if k1 <> k2 then Some (Printf.sprintf "token %d: kind" n)
            else if is_wordy k1 && w1 <> w2 then Some (Printf.sprintf "token %d: word want %s got %s" n w1 w2)
            else cmp (n + 1) a' b'
          | _ -> Some (Printf.sprintf "token count: want %d got %d" (List.length want) (List.length got)) in
        match cmp 0 want got with
        | Some d -> "bad:tokens:" ^ d
        | None ->
          let strip c = if String.length c > 0 && c.[0] = 'c' then String.sub c 1 (String.length c - 1) else c in
          let wantc = if Array.length cf > 2 && cf.(2) <> "" then List.map strip (String.split_on_char ',' cf.(2)) else [] in
          let gotc = if get "M" = "" then [] else List.map (fun c -> match String.split_on_char '.' c with [_; _; t] -> t | _ -> c) (String.split_on_char ',' (get "M")) in
          if wantc <> gotc then "bad:comments:want " ^ String.concat "," wantc ^ " got " ^ String.concat "," gotc
          else "ok"
      end
  end
