(* Conversions between OCaml values and the extracted inductive numerals; hex I/O. *)
open Model
(* the extracted Coq string type must not shadow OCaml strings *)
type string = Stdlib.String.t

let rec pos_of_int (i : int) : positive =
  if i = 1 then XH else if i land 1 = 0 then XO (pos_of_int (i lsr 1)) else XI (pos_of_int (i lsr 1))
let n_of_int (i : int) : n = if i = 0 then N0 else Npos (pos_of_int i)
let rec int_of_pos = function XH -> 1 | XO p -> 2 * int_of_pos p | XI p -> 2 * int_of_pos p + 1
let int_of_n = function N0 -> 0 | Npos p -> int_of_pos p
let rec nat_of_int i = if i <= 0 then O else S (nat_of_int (i - 1))
let rec int_of_nat = function O -> 0 | S n -> 1 + int_of_nat n

(* Z via decimal strings (values may exceed OCaml's 63-bit int) *)
let rec pos_double_plus (p : positive) (b : bool) = if b then XI p else XO p
let z_of_string (s : string) : z =
  (* parse decimal with optional sign, using Z arithmetic from bits: build via repeated *10+d on positive *)
  let neg = String.length s > 0 && s.[0] = '-' in
  let digits = if neg then String.sub s 1 (String.length s - 1) else s in
  let ten = Zpos (pos_of_int 10) in
  let acc = ref Z0 in
  String.iter (fun c ->
      let d = Char.code c - 48 in
      acc := Z.add (Z.mul !acc ten) (if d = 0 then Z0 else Zpos (pos_of_int d))) digits;
  if neg then Z.opp !acc else !acc
let string_of_z (v : z) : string =
  let b = Model.itoa v in
  String.concat "" (List.map (fun x -> String.make 1 (Char.chr (int_of_n x))) b)

let bytes_of_string (s : string) : n list =
  List.init (String.length s) (fun i -> n_of_int (Char.code s.[i]))
let string_of_bytes (b : n list) : string =
  let buf = Buffer.create 16 in
  List.iter (fun x -> Buffer.add_char buf (Char.chr ((int_of_n x) land 255))) b;
  Buffer.contents buf

let hex_of_string (s : string) : string =
  let buf = Buffer.create (2 * String.length s) in
  String.iter (fun c -> Buffer.add_string buf (Printf.sprintf "%02x" (Char.code c))) s;
  Buffer.contents buf
let string_of_hex (h : string) : string =
  let n = String.length h / 2 in
  String.init n (fun i -> Char.chr (int_of_string ("0x" ^ String.sub h (2 * i) 2)))
let hexb (b : n list) = hex_of_string (string_of_bytes b)
let unhexb (h : string) = bytes_of_string (string_of_hex h)

let split_on c s = if s = "" then [] else String.split_on_char c s

let read_lines (ic : in_channel) : string list =
  let rec go acc = match input_line ic with
    | l -> go (l :: acc)
    | exception End_of_file -> List.rev acc in
  go []
