(* C20: store histories.  Case line:  args(hex,comma) \t opts \t pid \t ops(space separated)
   op = S,<name>,<value> | U,<name> | G,<name> | W
   Observation line: one item per op, space separated:
     -            for S/U
     g:<name>:<value>:<0|1>   or  g:panic
     w:<name>=<value>,...     (sorted by name bytes) *)
open Model
open Util

let parse_op (s : string) : op =
  match String.split_on_char ',' s with
  | ["S"; n; v] -> OSet (unhexb n, unhexb v)
  | ["U"; n] -> OUnset (unhexb n)
  | ["G"; n] -> OGet (unhexb n)
  | ["W"] -> OWalk
  | _ -> failwith ("c20: bad op " ^ s)

let fmt_get (r : (((n list * n list) * bool), unit) outcome) : string =
  match r with
  | Ok ((n, v), set) -> Printf.sprintf "g:%s:%s:%d" (hexb n) (hexb v) (if set then 1 else 0)
  | _ -> "g:panic"

let fmt_walk (l : (n list * n list) list) : string =
  let l = List.map (fun (k, v) -> (string_of_bytes k, string_of_bytes v)) l in
  let l = List.sort compare l in
  "w:" ^ String.concat "," (List.map (fun (k, v) -> hex_of_string k ^ "=" ^ hex_of_string v) l)

let parse_case (line : string) =
  match String.split_on_char '\t' line with
  | [a; o; p; ops] ->
    let args = List.map unhexb (split_on ',' a) in
    let e = { args = args; opts = n_of_int (int_of_string o); pid = z_of_string p;
              vars = [ (bytes_of_string "IFS", Extracted.coq_IFS) ] } in
    (e, List.map parse_op (split_on ' ' ops))
  | _ -> failwith "c20: bad case"

let model_line (line : string) : string =
  let (e, ops) = parse_case line in
  let (_, obs) = run e ops in
  String.concat " " (List.map (function
      | ONone -> "-"
      | OGot r -> fmt_get r
      | OWalked l -> fmt_walk l) obs)

(* judge: the abstract-map specification evaluated on the implementation's observations *)
let judge_line (line : string) (impl : string) : string =
  let (e, ops) = parse_case line in
  let (_, aobs) = arun (absS e) ops in
  let names = List.sort_uniq compare
      (bytes_of_string "IFS" :: List.concat_map (function
           | OSet (n, _) | OUnset n | OGet n -> [n] | OWalk -> []) ops) in
  let items = split_on ' ' impl in
  if List.length items <> List.length aobs then "bad:length" else
    let rec go i its aos = match its, aos with
      | [], [] -> "ok"
      | it :: its', ao :: aos' ->
        let ok = match ao with
          | ANone -> it = "-"
          | AGot r -> it = fmt_get r
          | AWalked m ->
            String.length it >= 2 && String.sub it 0 2 = "w:" &&
            (let body = String.sub it 2 (String.length it - 2) in
             let pairs = List.map (fun kv -> match String.split_on_char '=' kv with
                 | [k; v] -> (unhexb k, unhexb v) | _ -> failwith "c20: walk item") (split_on ',' body) in
             let keys = List.map fst pairs in
             List.length (List.sort_uniq compare keys) = List.length keys
             && List.for_all (fun (k, v) -> m k = Some v) pairs
             && List.for_all (fun k -> match m k with
                 | Some v -> List.mem (k, v) pairs | None -> true) names) in
        if ok then go (i + 1) its' aos' else Printf.sprintf "bad:op%d" i
      | _ -> "bad:length" in
    go 0 items aobs

(* Option.String over all values: case line = decimal option value; output = hex string | panic *)
let optstr_line (line : string) : string =
  match option_string (n_of_int (int_of_string line)) with
  | Ok s -> hexb s
  | _ -> "panic"
