(* Alias character stream (Lex/AliasStream.v): the reads, unreads and substitutions the real lexer performed are replayed on
   the model; every character the lexer read must be the one the model reads, every substitution (performed or refused by
   the guard) must be the model's decision.
   case: source(hex) \t aliases (hexname=hexvalue,...)
   impl: ok <events comma separated>   r<hex bytes of the rune> | e | u | s<hexname> | g<hexname> *)
open Model
open Util

let model_line (_ : string) : string = "-"

let table_of (s : string) : (n list * n list) list =
  if s = "" then [] else
    List.map (fun kv -> match String.split_on_char '=' kv with
        | [k; v] -> (bytes_of_string (string_of_hex k), bytes_of_string (string_of_hex v))
        | _ -> failwith ("alias " ^ kv)) (String.split_on_char ',' s)

let judge_line (case : string) (impl : string) : string =
  if String.length impl >= 5 && String.sub impl 0 5 = "skip:" then "-"
  else if String.length impl < 3 || String.sub impl 0 3 <> "ok " then "bad:" ^ impl
  else match String.split_on_char '\t' case with
    | src :: al :: _ ->
      let t = table_of al in
      let st = ref (([], bytes_of_string (string_of_hex src)) : (entry list * n list)) in
      let last = ref [] in
      let err = ref None in
      let evs = List.filter (fun e -> e <> "") (String.split_on_char ',' (String.sub impl 3 (String.length impl - 3))) in
      List.iteri (fun k ev ->
          if !err = None then begin
            let fail m = err := Some (Printf.sprintf "event %d (%s): %s" k ev m) in
            let arg () = bytes_of_string (string_of_hex (String.sub ev 1 (String.length ev - 1))) in
            match ev.[0] with
            | 'r' ->
              let bs = arg () in
              List.iter (fun b ->
                  if !err = None then
                    match read !st with
                    | (Some c, st') when c = b -> st := st'
                    | (Some c, _) -> fail (Printf.sprintf "the model reads byte %d" (int_of_n c))
                    | (None, _) -> fail "the model is at the end of the text") bs;
              last := bs
            | 'e' ->
              (match read !st with
               | (None, st') -> st := st'; last := []
               | (Some c, _) -> fail (Printf.sprintf "the lexer saw the end of the input, the model reads byte %d" (int_of_n c)))
            | 'u' ->
              List.iter (fun b -> st := unread !st b) (List.rev !last); last := []
            | 's' ->
              (match asubst t !st (arg ()) with
               | Some st' -> st := st'
               | None -> fail "the model refuses this substitution")
            | 'g' ->
              (match asubst t !st (arg ()) with
               | None -> ()
               | Some _ -> fail "the model performs this substitution (the name is not being expanded)")
            | _ -> fail "unknown event"
          end) evs;
      (match !err with None -> "ok" | Some m -> "bad:" ^ m)
    | _ -> "bad:case format"
