(* C12: pattern.Match.  Case: patterns(hex,comma) \t mode \t subject(hex)
   Observable:  R=<hex of regex source | !>  M=<ok:hex | nomatch | err>          *)
open Model
open Util

let parse line = match String.split_on_char '\t' line with
  | [p; m; s] -> ((if p = "-" then [] else List.map unhexb (String.split_on_char ',' p)), n_of_int (int_of_string m), unhexb s)
  | _ -> failwith "c12: bad case"

let fmt_m = function
  | MOk b -> "ok:" ^ hexb b
  | MNoMatch -> "nomatch"
  | MErr -> "err"
  | MUnmodelled -> "unmodelled"

let model_line line =
  let (pats, mode, s) = parse line in
  let r = match compile_model pats mode with
    | COk alts -> hexb (regex_text mode alts)
    | CErr -> "!"
    | CUnmodelled -> "unmodelled" in
  let both = (int_of_n mode) land 12 = 12 in
  Printf.sprintf "R=%s M=%s" r (if both then "nomatch" else fmt_m (match_model pats mode s))

(* judge: the four-mode extreme-affix specification evaluated on the implementation's answer *)
let judge_line line impl =
  let (pats, mode, s) = parse line in
  let mi = int_of_n mode in
  let im = match String.split_on_char ' ' impl with [_; m] -> String.sub m 2 (String.length m - 2) | _ -> "?" in
  let four = (mi = 9 || mi = 10 || mi = 5 || mi = 6) in
  if not four then "-" else
    match compile_model pats mode with
    | CUnmodelled -> "-"
    | CErr -> if im = "err" then "ok" else "bad:malformed-pattern-accepted"
    | COk alts ->
      let its = List.map (List.map fst) alts in
      let sy = syms_of s in
      let largest = mi land 2 <> 0 in
      let want = if mi land 8 <> 0 then spec_prefix fst largest its sy else spec_suffix fst largest its sy in
      (match want, alts with
       | None, _ -> if im = "nomatch" then "ok" else "bad:should-not-match"
       | Some w, [_] -> if im = "ok:" ^ hexb (raw w) then "ok" else "bad:wrong-extreme want=" ^ hexb (raw w)
       | Some _, _ -> if String.length im >= 3 && String.sub im 0 3 = "ok:" then "ok" else "bad:should-match")
