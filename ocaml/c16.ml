(* C16: pattern.Glob over a materialised tree.  Case: entries \t pattern(hex) *)
open Model
open Util

(* build the tree from path:type entries *)
type t = F | L | D of (string * t) list ref

let build (entries : string) : (n list * node) list =
  let root = ref [] in
  let rec ins (d : (string * t) list ref) (comps : string list) (ty : string) =
    match comps with
    | [] -> ()
    | [c] ->
      if not (List.mem_assoc c !d) then
        d := !d @ [ (c, match ty with "d" -> D (ref []) | "l" -> L | _ -> F) ]
    | c :: rest ->
      (match List.assoc_opt c !d with
       | Some (D sub) -> ins sub rest ty
       | Some _ -> ()
       | None -> let sub = ref [] in d := !d @ [ (c, D sub) ]; ins sub rest ty) in
  List.iter (fun e -> match String.split_on_char ':' e with
      | [p; ty] -> ins root (List.map string_of_hex (String.split_on_char '/' p)) ty
      | _ -> failwith "c16: entry") (split_on ',' entries);
  let rec conv (l : (string * t) list) : (n list * node) list =
    List.map (fun (k, v) -> (bytes_of_string k, match v with F -> File | L -> Dangling | D s -> Dir (conv !s))) l in
  conv !root

let replace_all (s : string) (a : string) (b : string) : string =
  Str.global_replace (Str.regexp_string a) b s

let parse line = match String.split_on_char '\t' line with
  | [es; p] ->
    let tree = build es in
    let root = [ (bytes_of_string "R", Dir tree) ] in
    (root, [bytes_of_string "R"], bytes_of_string (replace_all (string_of_hex p) "@ROOT@" "/R"))
  | _ -> failwith "c16: bad case"

let fmt_paths l = "ok:" ^ String.concat "," (List.map hexb l)

let model_line line =
  let (root, cwd, pat) = parse line in
  match glob_model root cwd pat with
  | GOk l -> fmt_paths l
  | GErr -> "err"
  | GUnmodelled -> "unmodelled"

let judge_line line impl =
  let (root, cwd, pat) = parse line in
  if String.length impl > 3 && (try ignore (Str.search_forward (Str.regexp_string "MISSING") impl 0); true with Not_found -> false)
  then "bad:returned-path-does-not-exist" else
    match glob_spec root cwd pat with
    | None -> "-"
    | Some l -> if impl = fmt_paths l then "ok" else "bad:glob want=" ^ fmt_paths l
