(* C04: the End() methods of the word parts.  Impl line: "ok <n> W [ parts ] = l c ..." (harness handler ends):
   every part with the positions stored in it and the End() it reports.  The judge recomputes each End() with the
   model (Ast/Ends.v, end_part / word_end) from the stored positions and says how many parts were laid out
   contiguously (layout <> None), the hypothesis of the theorem end_of_placed. *)
open Model
open Util

let model_line (_ : string) : string = "-"

exception Bad of string

let judge_line (_ : string) (impl : string) : string =
  if String.length impl < 3 || String.sub impl 0 3 <> "ok " then "-" else
  let toks = ref (List.filter (fun s -> s <> "") (String.split_on_char ' ' impl)) in
  let next () = match !toks with t :: r -> toks := r; t | [] -> raise (Bad "truncated") in
  let peek () = match !toks with t :: _ -> t | [] -> "" in
  let int () = int_of_string (next ()) in
  let pos () = let l = int () in let c = int () in (nat_of_int l, nat_of_int c) in
  let hex () = let h = next () in if h = "-" then [] else unhexb h in
  let show (l, c) = Printf.sprintf "%d:%d" (int_of_nat l) (int_of_nat c) in
  let nparts = ref 0 and placed = ref 0 in
  let fuel = nat_of_int 60 in
  let start_of = function
    | Lit (p, _) -> p | Quote (p, _, _) -> p | Param (d, _, _, _, _, _, _) -> d
    | Cmd (dollar, (l, c), _) -> if dollar then (l, (match c with S c' -> c' | O -> O)) else (l, c)
    | Arith (l, _) -> l in
  (* a list of parts up to the closing bracket; None when a part is outside the model *)
  let rec parts () : part list option =
    if peek () = "]" then (ignore (next ()); Some []) else begin
      let p = part () in
      if next () <> "=" then raise (Bad "format");
      let e = pos () in
      (match p with
       | Some p ->
         incr nparts;
         let m = end_part p in
         if m <> e then raise (Bad (Printf.sprintf "end:model=%s:impl=%s" (show m) (show e)));
         (match layout fuel (start_of p) p with
          | Some e' -> incr placed; if e' <> e then raise (Bad (Printf.sprintf "placed:spec=%s:impl=%s" (show e') (show e)))
          | None -> ())
       | None -> ());
      match p, parts () with
      | Some p, Some r -> Some (p :: r)
      | _ -> None
    end
  and part () : part option =
    match next () with
    | "L" -> let p = pos () in let v = hex () in Some (Lit (p, v))
    | "Q" -> let p = pos () in let tok = hex () in
      if next () <> "[" then raise (Bad "format");
      let v = parts () in
      (match tok, v with
       | [t], Some v -> Some (Quote (p, t, v))
       | _ -> None)
    | "P" -> let d = pos () in let br = int () = 1 in let np = pos () in let name = hex () in let op_ = pos () in let op = hex () in
      if next () <> "[" then raise (Bad "format");
      (match parts () with
       | Some w -> Some (Param (d, br, np, name, op_, op, w))
       | None -> None)
    | "C" -> let dollar = int () = 1 in let l = pos () in let r = pos () in Some (Cmd (dollar, l, r))
    | "A" -> let l = pos () in let r = pos () in Some (Arith (l, r))
    | "X" -> None
    | t -> raise (Bad ("token:" ^ t)) in
  try
    ignore (next ()); ignore (next ());
    while peek () = "W" do
      ignore (next ());
      if next () <> "[" then raise (Bad "format");
      let ps = parts () in
      if next () <> "=" then raise (Bad "format");
      let e = pos () in
      (match ps with
       | Some (_ :: _ as l) -> let m = word_end l in if m <> e then raise (Bad (Printf.sprintf "word-end:model=%s:impl=%s" (show m) (show e)))
       | _ -> ())
    done;
    Printf.sprintf "ok:parts=%d:placed=%d" !nparts !placed
  with Bad m -> "bad:" ^ m
