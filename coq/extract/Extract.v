(** Extraction of the executable models and oracles.  Only ExtrOcamlBasic's directives are used;
    nat, positive, N and Z stay inductive datatypes. *)
From Coq Require Import Extraction ExtrOcamlBasic.
From GoShGen Require Import Extracted.
From GoSh Require Import Base.Bytes Base.Outcome Store.Env Store.EnvSpec.
Extraction Language OCaml.
Extraction "model.ml"
  Bytes.decode_rune Bytes.encode_rune Bytes.itoa
  Z.add Z.mul Z.opp Z.of_N
  Extracted.IFS
  Env.run Env.option_string Env.get EnvSpec.arun EnvSpec.absS.
