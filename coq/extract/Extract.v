(** Extraction of the executable models and oracles.  Only ExtrOcamlBasic's directives are used;
    nat, positive, N and Z stay inductive datatypes. *)
From Coq Require Import Extraction ExtrOcamlBasic.
From GoShGen Require Import Extracted.
From GoSh Require Import Base.Bytes Base.Outcome Store.Env Store.EnvSpec.
From GoSh Require Import Arith.ASyntax Arith.AEval.
From GoSh Require Import Expand.Expand Expand.Spec Lex.Quote Lex.Heredoc Lex.HeredocExp Lex.Alias Lex.AliasStream.
From GoSh Require Import Parse.Skel Parse.Grammar Lex.Layout Print.Heredocs.
From GoSh Require Import Ast.Ends Lex.Reprint Lex.Reprint2 Lex.Reprint3.
From GoSh Require Import Pattern.Regex Pattern.PCompile Pattern.Match Pattern.PSpec Pattern.Glob.
Extraction Language OCaml.
Extraction "model.ml"
  Bytes.decode_rune Bytes.encode_rune Bytes.itoa
  Z.add Z.mul Z.opp Z.of_N
  Extracted.IFS
  Env.run Env.option_string Env.get EnvSpec.arun EnvSpec.absS
  PCompile.compile_model PCompile.regex_text PCompile.syms_of Match.match_model Match.raw Match.full_match
  Glob.glob_model Glob.glob_spec
  PSpec.spec_prefix PSpec.spec_suffix PSpec.pmb_any
  ASyntax.alex ASyntax.aparse ASyntax.has_bad ASyntax.is_letter ASyntax.is_udigit ASyntax.uni_universe
  Env.is_sp_param Env.is_pos_param Bytes.rune_count
  Heredoc.read_heredoc HeredocExp.read_exp
  AliasStream.read AliasStream.unread AliasStream.asubst AliasStream.flatten Alias.alias_lookup
  Quote.scan_word Quote.quote_single Quote.quote_double Quote.quote_backslash
  Spec.split_spec Spec.split_model Spec.posix_table Expand.expand Expand.word_size Expand.join_all Expand.ifs_value
  Expand.expand_top Expand.split_field Expand.fempty Expand.funquote
  Grammar.parse_tokens Grammar.parse_subst Skel.sk_word Layout.scan_gap Layout.scan_linebreak Heredocs.hrun Heredocs.reader
  Ends.end_part Ends.word_end Ends.layout Reprint.print_parts Reprint.print_pexp Reprint2.scan_word2 Reprint2.print_parts2 Reprint3.scan_word3 Reprint3.print_parts3
  AEval.eval_model AEval.eval_top_i AEval.eval_c AEval.c_defined AEval.eager_safe AEval.numeric_store AEval.runes_of AEval.parse_int0.
