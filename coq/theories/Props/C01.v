(** C01 — Parsing is total: any input yields a result or an error, never a crash or hang. *)
From GoSh Require Import Base.Bytes Proto.Confluence Proto.LTS Lex.Alias.
From GoShGen Require Import Extracted.

(** ** Never bring the process down from the background goroutine, under both panicnil settings.
    The lexer goroutine unwinds by panicking with its bail-out value; run() recovers it and
    re-panics everything else.  recover() returns nil for panic(nil) only under panicnil=1; under
    panicnil=0 it returns a *runtime.PanicNilError.  What the two lexers panic with, and what
    run() filters, is translated from the source on every run ([Extracted]). *)
Inductive bail := Exits | Crashes.
Definition bail_outcome (panics_with_nil filters_sentinel panicnil : bool) : bail :=
  if panics_with_nil then (if panicnil then Exits else Crashes)   (* recover() <> nil: re-panic *)
  else if filters_sentinel then Exits else Crashes.

Theorem C01_bailout_never_crashes :
  forall panicnil,
    bail_outcome Extracted.parser_bailout_is_nil Extracted.parser_bailout_filtered panicnil = Exits /\
    bail_outcome Extracted.interp_bailout_is_nil Extracted.interp_bailout_filtered panicnil = Exits.
Proof. intros []; split; reflexivity. Qed.
Print Assumptions C01_bailout_never_crashes.

(** ** Never block forever (protocol level): every reachable configuration of the two-goroutine
    protocol can move, has returned, or is the here-document stand-off that the code excludes by
    construction (see Proto/LTS.v). *)
Theorem C01_protocol_progress :
  forall (tok hd res pstate : Type) (pfeed : pstate -> tok -> pout hd pstate) (peof : pstate -> res + err)
         (c : cfg tok hd res pstate),
    Inv tok hd res pstate c ->
    (exists c', step tok hd res pstate pfeed peof c c') \/ (exists r, cP _ _ _ _ c = PRet _ _ _ r)
    \/ heredoc_standoff tok hd res pstate c.
Proof. exact progress. Qed.
Print Assumptions C01_protocol_progress.

(** ** Every alias table terminates: the alias stack holds pairwise distinct names, so its depth
    is bounded by the table (self-referential and mutually recursive aliases included). *)
Theorem C01_alias_depth_bounded :
  forall (t : table) (st : list bytes), reachable t st -> (length st <= length t)%nat.
Proof. exact alias_depth_bounded. Qed.
Print Assumptions C01_alias_depth_bounded.

(** Not proved: termination and absence of panics of the 1700-line scanner itself (every scan loop
    ends at EOF / read error).  Decided on every run by exhaustive short inputs over the significant
    alphabet in isolated workers under both panicnil settings, all source kinds and alias tables. *)
