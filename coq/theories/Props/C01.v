(** C01 — placeholder *)
From GoSh Require Import Base.Bytes.
