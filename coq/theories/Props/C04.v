(** C04 placeholder *)
From GoSh Require Import Base.Bytes.
