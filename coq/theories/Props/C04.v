(** C04 — Every recorded position designates the token it documents. *)
From GoSh Require Import Base.Bytes Base.Utf8 Lex.Cursor Ast.Ends Ast.Closers.
From GoShGen Require Import Extracted.

(** The line/column bookkeeping of read(): after consuming any rune sequence the cursor is the
    character position that follows it (lines and columns count characters, not bytes; a newline
    starts a new line at column 1).  mark(off) records cursor + off, so every position taken
    outside an alias is the character position of a point of the consumed text. *)
Theorem C04_cursor_is_position_of_consumed_prefix :
  forall p c, let c' := fold_left rd p c in (line c', col c') = pos_of p (line c) (col c).
Proof. exact cursor_correct. Qed.
Print Assumptions C04_cursor_is_position_of_consumed_prefix.

(** Look-ahead is undone exactly: one unread() after one read() restores the position. *)
Theorem C04_unread_undoes_read :
  forall c r, (1 <= col c)%nat -> let c' := unrd (rd c r) in line c' = line c /\ col c' = col c.
Proof. exact unread_undoes_read. Qed.
Print Assumptions C04_unread_undoes_read.

(** Within a line the column advances by one per character, whatever its encoded length. *)
Theorem C04_columns_count_characters :
  forall q l c, forallb (fun r => negb (N.eqb r 10)) q = true -> pos_of q l c = (l, (c + length q)%nat).
Proof. exact pos_of_line. Qed.
Print Assumptions C04_columns_count_characters.

(** The derived End() methods of the word parts (Lit, Quote, ParamExp, CmdSubst, ArithExp and Word of
    ast/ast.go, transcribed in Ast/Ends.v).  [layout fuel s p = Some e] says that the positions stored
    in the part p are those of a piece of text written contiguously from s on ($name, ${name},
    ${#name}, ${name op word}, the three quotings, literals with any characters and newlines, nested
    to any depth; no line continuation inside) and that e is the position following it.  For every
    such part End() is exactly that position; for a word, End() is where its last part ends. *)
Theorem C04_end_of_a_contiguous_part :
  forall fuel p s e, (1 <= fst s)%nat -> layout fuel s p = Some e -> end_part p = e /\ (1 <= fst e)%nat.
Proof. exact end_of_placed. Qed.
Print Assumptions C04_end_of_a_contiguous_part.

Theorem C04_end_of_a_contiguous_word :
  forall fuel l s e, (1 <= fst s)%nat -> l <> [] -> layout_list fuel s l = Some e -> word_end l = e.
Proof. exact word_end_of_placed. Qed.
Print Assumptions C04_end_of_a_contiguous_word.

(** Pos() of such a part is the place where its text begins, and Pos() <= End(). *)
Theorem C04_pos_of_a_contiguous_part :
  forall fuel p s e, (1 <= fst s)%nat -> layout fuel s p = Some e -> pos_part p = s.
Proof. exact pos_of_placed. Qed.
Print Assumptions C04_pos_of_a_contiguous_part.

Theorem C04_pos_before_end :
  forall fuel p s e, layout fuel s p = Some e -> ple s e.
Proof. exact placed_pos_le_end. Qed.
Print Assumptions C04_pos_before_end.

(** A literal's End() counts characters: for every text (any Unicode scalar values, newlines
    included), a literal that starts where the reading cursor stood ends where the cursor stands
    after reading the text (the lexer and Lit.End agree on lines and columns). *)
Theorem C04_literal_ends_where_the_cursor_stands :
  forall c rs, forallb scalar rs = true ->
    let c' := fold_left rd rs c in lit_end (line c, col c) (encode_all rs) = (line c', col c').
Proof. exact lit_end_is_cursor. Qed.
Print Assumptions C04_literal_ends_where_the_cursor_stands.

(** UTF-8: decoding an encoded character gives it back with its encoded length, whatever follows. *)
Theorem C04_decode_after_encode :
  forall r t, scalar r = true -> decode_rune (encode_rune r ++ t) = (r, rune_len r).
Proof. exact decode_encode. Qed.
Print Assumptions C04_decode_after_encode.

(** The nodes that end with a closing token (subshell, group, arithmetic evaluation, for, case, if,
    while, until, command substitution, arithmetic expansion): End() is the stored position of that
    token shifted by a constant.  The constants are read from ast.go on every run
    ([Extracted.end_shifts]); each is the length of the token's spelling, so End() is the position
    that follows the closing token. *)
Theorem C04_closing_token_shifts : shifts_ok = true.
Proof. exact closing_token_shifts. Qed.
Print Assumptions C04_closing_token_shifts.

Theorem C04_end_follows_the_closing_token :
  forall ty fld n (pos : P) c,
    In (ty, fld, n) Extracted.end_shifts -> closer_of ty fld closers = Some c ->
    forallb (fun r => negb (N.eqb r 10)) c = true ->
    shift pos n = after pos c.
Proof. exact end_after_closing_token. Qed.
Print Assumptions C04_end_follows_the_closing_token.

(** Not proved: that each of the ~40 mark() call sites uses the offset of the token it documents,
    and the Pos()/End() methods of the command nodes that are computed from their children (those of the word parts and of the nodes ending with a closing token are above).  Decided on every run by the intrinsic checker on
    the implementation's (source, AST) pairs.  Known finding F28 (here-document extent) is listed. *)
