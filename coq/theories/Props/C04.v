(** C04 — Every recorded position designates the token it documents. *)
From GoSh Require Import Base.Bytes Lex.Cursor.

(** The line/column bookkeeping of read(): after consuming any rune sequence the cursor is the
    character position that follows it (lines and columns count characters, not bytes; a newline
    starts a new line at column 1).  mark(off) records cursor + off, so every position taken
    outside an alias is the character position of a point of the consumed text. *)
Theorem C04_cursor_is_position_of_consumed_prefix :
  forall p c, let c' := fold_left rd p c in (line c', col c') = pos_of p (line c) (col c).
Proof. exact cursor_correct. Qed.
Print Assumptions C04_cursor_is_position_of_consumed_prefix.

(** Look-ahead is undone exactly: one unread() after one read() restores the position. *)
Theorem C04_unread_undoes_read :
  forall c r, (1 <= col c)%nat -> let c' := unrd (rd c r) in line c' = line c /\ col c' = col c.
Proof. exact unread_undoes_read. Qed.
Print Assumptions C04_unread_undoes_read.

(** Within a line the column advances by one per character, whatever its encoded length. *)
Theorem C04_columns_count_characters :
  forall q l c, forallb (fun r => negb (N.eqb r 10)) q = true -> pos_of q l c = (l, (c + length q)%nat).
Proof. exact pos_of_line. Qed.
Print Assumptions C04_columns_count_characters.

(** Not proved: that each of the ~40 mark() call sites uses the offset of the token it documents,
    and the derived Pos()/End() methods of ast.go.  Decided on every run by the intrinsic checker on
    the implementation's (source, AST) pairs.  Known finding F28 (here-document extent) is listed. *)
