(** C03 — Ill-formed programs are rejected with a located syntax error.
    Token level (see C02 for the model and its tie to the code): what the parser rejects is not a
    sentence of the grammar, and whatever it accepts is one, with every token accounted for. *)
From GoSh Require Import Base.Bytes Parse.Skel Parse.Grammar Parse.GrammarSpec Parse.GrammarSound Parse.GrammarComplete Parse.GrammarLoc.

(** Nothing ill-formed is accepted: acceptance implies a derivation that uses all the tokens received,
    none dropped, none re-associated (the skeleton is the derivation's). *)
Theorem C03_accepted_is_a_sentence :
  forall ts hs sk rest hs', parse_tokens ts hs = POk sk rest hs' -> rest = [] /\ G_program ts hs sk hs'.
Proof. exact parse_tokens_sound. Qed.
Print Assumptions C03_accepted_is_a_sentence.

(** A syntax error is reported only for token sequences that are not sentences. *)
Theorem C03_rejected_is_not_a_sentence :
  forall ts hs e, parse_tokens ts hs = PErr e -> forall sk hs', ~ G_program ts hs sk hs'.
Proof. exact parse_tokens_rejects. Qed.
Print Assumptions C03_rejected_is_not_a_sentence.

(** A located syntax error designates one of the tokens received (never a position outside the input);
    the harness translates the token to its line:column and compares with the reported position. *)
Theorem C03_error_designates_a_received_token :
  forall ts hs i, parse_tokens ts hs = PErr (Some i) -> exists t, In t ts /\ tidx t = i.
Proof. exact parse_tokens_error_located. Qed.
Print Assumptions C03_error_designates_a_received_token.

(** Every token sequence that is not a sentence is rejected with a syntax error (the parser model
    never runs out of its recursion budget: Parse/GrammarBudget.v). *)
From GoSh Require Import Parse.GrammarBudget.
Theorem C03_ill_formed_is_rejected :
  forall ts hs, (forall sk hs', ~ G_program ts hs sk hs') -> exists e, parse_tokens ts hs = PErr e.
Proof. exact ill_formed_rejected. Qed.
Print Assumptions C03_ill_formed_is_rejected.
