(** C03 placeholder *)
From GoSh Require Import Base.Bytes.
