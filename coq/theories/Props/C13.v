(** C13 — Parameter expansion follows the POSIX operator table for every parameter state. *)
From GoSh Require Import Base.Bytes Base.Outcome Store.Env Expand.Expand Expand.Spec Expand.ParamProofs Expand.ParamMore.
From GoSh Require Import Pattern.Regex Pattern.PCompile Pattern.Match Pattern.MatchProofs.
From GoShGen Require Import Extracted.

(** For every environment, parameter name other than @ and *, operator of the table
    (:- - := = :? ? :+ +), operator word, expansion mode and field context: the model of
    expandParam performs exactly the action the POSIX table prescribes for the parameter's state
    (unset / null / non-null): substitute the value, substitute the expansion of the word (expanded
    in the documented mode), assign-and-substitute (an error for special and positional
    parameters), fail with the word as message, or substitute nothing. *)
Theorem C13_param_table :
  forall users fuel e fs name op w mode act,
    beqb name s_at = false -> beqb name s_star = false ->
    In op table_ops ->
    posix_table op (pstate_of e name) = Some act ->
    expand_param users (S fuel) e fs name op (Some w) mode = table_result users fuel e fs name op w mode act.
Proof. exact param_table. Qed.
Print Assumptions C13_param_table.

(** The word is expanded only when it is used: when the table says "value" or "null", the result
    (fields and store) is the same for every word. *)
Theorem C13_unused_word_irrelevant :
  forall users fuel e fs name op w w' mode act,
    beqb name s_at = false -> beqb name s_star = false -> In op table_ops ->
    posix_table op (pstate_of e name) = Some act ->
    match act with AValue _ | ANull => True | _ => False end ->
    expand_param users (S fuel) e fs name op (Some w) mode = expand_param users (S fuel) e fs name op (Some w') mode.
Proof. exact unused_word_irrelevant. Qed.
Print Assumptions C13_unused_word_irrelevant.

(** ${p} and $p outside arithmetic: the value; nothing for a null value; for an unset parameter
    nothing, or a ParamExpError under nounset. *)
Theorem C13_plain_parameter :
  forall users fuel e fs name word mode,
    beqb name s_at = false -> beqb name s_star = false -> mbit mode mArith = false ->
    expand_param users (S fuel) e fs name [] word mode =
    match pstate_of e name with
    | PVal v => Ok (e, join_last fs v (mbit mode mQuote))
    | PNull => Ok (e, fs)
    | PUnset => if opt_bit e Extracted.opt_NoUnset then Err (e, XParam name msg_unset) else Ok (e, fs)
    end.
Proof. exact param_plain. Qed.
Print Assumptions C13_plain_parameter.

(** $name inside arithmetic (an ordinary variable): the name itself is handed to Eval, which reads
    the variable when it needs it; with nounset an unset variable is an error here too. *)
Theorem C13_parameter_in_arithmetic :
  forall users fuel e fs name word mode,
    beqb name s_at = false -> beqb name s_star = false -> mbit mode mArith = true ->
    is_sp_param name || is_pos_param name = false ->
    expand_param users (S fuel) e fs name [] word mode =
    match pstate_of e name with
    | PUnset => if opt_bit e Extracted.opt_NoUnset then Err (e, XParam name msg_unset)
                else Ok (e, join_last fs name (mbit mode mQuote))
    | _ => Ok (e, join_last fs name (mbit mode mQuote))
    end.
Proof. exact param_in_arithmetic. Qed.
Print Assumptions C13_parameter_in_arithmetic.

(** ${#p} counts characters (runes, not bytes); 0 for a null or unset parameter, an error for an
    unset one under nounset. *)
Theorem C13_length :
  forall users fuel e fs name mode,
    beqb name s_at = false -> beqb name s_star = false ->
    expand_param users (S fuel) e fs name [35%N] None mode =
    match pstate_of e name with
    | PVal v => Ok (e, join_last fs (itoa (Z.of_nat (rune_count v))) (mbit mode mQuote))
    | PNull => Ok (e, join_last fs (itoa 0) (mbit mode mQuote))
    | PUnset => if opt_bit e Extracted.opt_NoUnset then Err (e, XParam name msg_unset)
                else Ok (e, join_last fs (itoa 0) (mbit mode mQuote))
    end.
Proof. exact param_length. Qed.
Print Assumptions C13_length.

(** $@ produces one field per positional parameter (the first continues the current field), quoted
    according to the context; $* does the same unquoted and, inside double quotes, gives the
    parameters joined by the first character of IFS as one field. *)
Theorem C13_at_fields :
  forall users fuel e fs word mode,
    expand_param users (S fuel) e fs s_at [] word mode =
    match tl (args e) with
    | [] => Ok (e, fs)
    | [x] => if beqb x [] then Ok (e, fs) else Ok (e, param_fields fs [x] (mbit mode mQuote))
    | pos => Ok (e, param_fields fs pos (mbit mode mQuote))
    end.
Proof. exact at_fields. Qed.
Print Assumptions C13_at_fields.

Theorem C13_star_fields :
  forall users fuel e fs word mode,
    expand_param users (S fuel) e fs s_star [] word mode =
    match tl (args e) with
    | [] => Ok (e, fs)
    | [x] => if beqb x [] then Ok (e, fs) else Ok (e, param_fields fs [x] (mbit mode mQuote))
    | pos => if mbit mode mQuote then Ok (e, join_last fs (join_with (ifs_sep e) pos) true)
             else Ok (e, param_fields fs pos false)
    end.
Proof. exact star_fields. Qed.
Print Assumptions C13_star_fields.

(** ${p%w} ${p%%w} ${p#w} ${p##w} on a set, non-null parameter: the word is expanded in Pattern
    mode; the result is the value without the shortest / longest suffix / prefix that the compiled
    pattern matches as a whole -- C12's denotation [extreme] -- and the whole value when no such
    affix exists. *)
Theorem C13_pattern_removal :
  forall users fuel e fs name op w mode v e1 wf items,
    beqb name s_at = false -> beqb name s_star = false -> In op remove_ops ->
    pstate_of e name = PVal v ->
    expand users fuel e w mPattern = Ok (e1, wf) ->
    compile_model [fpattern (join_all e1 wf)] (op_pmode op) = COk [items] ->
    exists r,
      extreme (if op_suffix op then is_suffix else is_prefix) (op_longest op) (map fst items) (syms_of v) r /\
      expand_param users (S fuel) e fs name op (Some w) mode = Ok (e1, join_last fs (removed op v r) (mbit mode mQuote)).
Proof. exact param_remove. Qed.
Print Assumptions C13_pattern_removal.

(** "$@" -- a double-quoted part made of $@ expansions only -- without positional parameters
    generates no field at all: the part leaves the fields untouched, and the word "$@" alone
    expands to zero fields. *)
Theorem C13_quoted_at_without_parameters :
  forall users f e v rest mode first fs,
    only_at v = true -> (length (args e) <= 1)%nat ->
    expand_parts users (S f) e (WQuote 34%N v :: rest) mode first fs = expand_parts users f e rest mode false fs.
Proof. exact quoted_at_no_params. Qed.
Print Assumptions C13_quoted_at_without_parameters.

Theorem C13_quoted_at_alone_is_no_field :
  forall users glob e mode,
    (length (args e) <= 1)%nat ->
    mbit mode mLiteral = false -> mbit mode mPattern = false -> mbit mode mArith = false -> mbit mode mQuote = false ->
    expand_top users glob e [WQuote 34%N [WParam s_at [] None]] mode = Ok (e, []).
Proof. exact quoted_at_alone_is_no_field. Qed.
Print Assumptions C13_quoted_at_alone_is_no_field.

(** Not proved: the operators of the table applied to $@ and $* themselves and the pattern-removal
    operators on them (one removal per positional parameter); decided by the correspondence with
    the implementation and the table oracle. *)

(** Expand under mode Quote expands the word "as if it is within double-quotes": a word made of $@
    expansions only, without positional parameters, gives no field there either. *)
Theorem C13_at_in_quote_mode_is_no_field :
  forall users glob e w mode,
    only_at w = true -> (length (args e) <= 1)%nat ->
    mbit mode mQuote = true -> mbit mode mLiteral = false -> mbit mode mPattern = false ->
    expand_top users glob e w mode = Ok (e, []).
Proof. exact at_in_quote_mode_is_no_field. Qed.
Print Assumptions C13_at_in_quote_mode_is_no_field.
