(** C13 — Parameter expansion follows the POSIX operator table for every parameter state. *)
From GoSh Require Import Base.Bytes Base.Outcome Store.Env Expand.Expand Expand.Spec Expand.ParamProofs.

(** For every environment, parameter name other than @ and *, operator of the table
    (:- - := = :? ? :+ +), operator word, expansion mode and field context: the model of
    expandParam performs exactly the action the POSIX table prescribes for the parameter's state
    (unset / null / non-null): substitute the value, substitute the expansion of the word (expanded
    in the documented mode), assign-and-substitute (an error for special and positional
    parameters), fail with the word as message, or substitute nothing. *)
Theorem C13_param_table :
  forall users fuel e fs name op w mode act,
    beqb name s_at = false -> beqb name s_star = false ->
    In op table_ops ->
    posix_table op (pstate_of e name) = Some act ->
    expand_param users (S fuel) e fs name op (Some w) mode = table_result users fuel e fs name op w mode act.
Proof. exact param_table. Qed.
Print Assumptions C13_param_table.

(** The word is expanded only when it is used: when the table says "value" or "null", the result
    (fields and store) is the same for every word. *)
Theorem C13_unused_word_irrelevant :
  forall users fuel e fs name op w w' mode act,
    beqb name s_at = false -> beqb name s_star = false -> In op table_ops ->
    posix_table op (pstate_of e name) = Some act ->
    match act with AValue _ | ANull => True | _ => False end ->
    expand_param users (S fuel) e fs name op (Some w) mode = expand_param users (S fuel) e fs name op (Some w') mode.
Proof. exact unused_word_irrelevant. Qed.
Print Assumptions C13_unused_word_irrelevant.

(** Not yet proved (correspondence and the table oracle only): the $@ / $* field rules, ${#p},
    the four pattern-removal operators (they reduce to C12's theorems through match_model), nounset. *)
