(** C13 — placeholder until the table theorem is in place. *)
From GoSh Require Import Base.Bytes Expand.Expand Expand.Spec.
