(** C11 — placeholder until the refinement theorem is in place. *)
From GoSh Require Import Base.Bytes Arith.ASyntax Arith.AEval.
