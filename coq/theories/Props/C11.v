(** C11 — Arithmetic evaluation follows C expression semantics on 64-bit signed integers. *)
From GoSh Require Import Base.Bytes Base.Outcome Store.Env Store.EnvSpec Arith.ASyntax Arith.AEval Arith.AProofs Arith.ARefine Arith.ARoundTrip Arith.ARefineFull.

(** Full statement of the property on the model: on every C-defined expression (no variable both
    modified and otherwise accessed between sequence points) on which eager evaluation of the
    operands of && || ?: is unobservable ([eager_safe], the complement of known finding F11) and
    whose variables hold numbers, the rule-action evaluator computes C's value and C's store --
    assignments, compound assignments, increments and decrements included -- and it fails exactly
    when C's evaluation fails.  (The evaluator delays the reading of variables and evaluates the
    operands that C skips; what it writes it reads back: strconv.Itoa / ParseInt round trip.) *)
Theorem C11_refines_C :
  forall a e, c_defined a = true -> eager_safe a = true -> numeric_store e a = true ->
    match eval_top_i e a, eval_c e a with
    | (e1, Ok n1), (e2, Ok n2) => n1 = n2 /\ forall k, abs e1 k = abs e2 k
    | (_, Err _), (_, Err _) => True
    | _, _ => False
    end.
Proof. exact refines_C. Qed.
Print Assumptions C11_refines_C.

(** What is written is read back (strconv.Itoa then strconv.ParseInt(s, 0, 0)) on the whole int64 range. *)
Theorem C11_written_values_are_read_back :
  forall n, (- 9223372036854775808 <= n < 9223372036854775808)%Z -> parse_int0 (itoa n) = Some n.
Proof. exact parse_itoa. Qed.
Print Assumptions C11_written_values_are_read_back.

(** Proved (every expression, every store): assignments and increments update exactly the named
    variables -- evaluation changes the store at most at the names under =, op=, ++, -- and never
    touches Args / Opts. *)
Theorem C11_partial_only_named_variables_change :
  forall a e, same_except (mods a) e (fst (eval_i e a)).
Proof. exact eval_i_frame. Qed.
Print Assumptions C11_partial_only_named_variables_change.

(** Kept from an earlier round: on expressions without assignment, increment or decrement the refinement statement holds
    in full -- the evaluator leaves the store alone and gives C's value (or both fail), although it
    delays the reading of variables and evaluates the operands that C skips. *)
Theorem C11_partial_refines_C_without_assignments :
  forall a e, pure a = true -> eager_safe a = true -> numeric_store e a = true ->
    fst (eval_top_i e a) = e /\ fst (eval_c e a) = e /\ same_answer (snd (eval_top_i e a)) (snd (eval_c e a)).
Proof. exact pure_refines_C_top. Qed.
Print Assumptions C11_partial_refines_C_without_assignments.

Local Open Scope N_scope.
(** Non-vacuity / sanity: 7 - 2 * 3, x = y = 4 with y read back, and a wrap-around. *)
Example C11_witness :
  let e0 := mkEnv [[115; 104]] 0 0%Z [] in
  snd (eval_model e0 [55; 45; 50; 42; 51]) = Ok 1%Z /\
  snd (eval_model e0 [120; 61; 121; 61; 52]) = Ok 4%Z /\
  snd (eval_model e0 [57;50;50;51;51;55;50;48;51;54;56;53;52;55;55;53;56;48;55;43;49]) = Ok (-9223372036854775808)%Z.
Proof. vm_compute. repeat split. Qed.

(** Non-vacuity of C11_refines_C: x = y++ + 2, (x += 3) * (y = x0 ? 1 : 2) meet the three hypotheses. *)
Example C11_refines_C_witness :
  let e0 := mkEnv [[115; 104]] 0 0%Z [([121], [53])] in
  let x := EVar [120] in let y := EVar [121] in let z := EVar [122] in
  let a1 := EAssign None x (EBin Add (EPostInc y) (ENum [50])) in
  let a2 := EBin Mul (EParen (EAssign (Some Add) x (ENum [51]))) (EParen (EAssign None y (ECond z (ENum [49]) (ENum [50])))) in
  c_defined a1 = true /\ eager_safe a1 = true /\ numeric_store e0 a1 = true /\ snd (eval_top_i e0 a1) = Ok 7%Z /\
  c_defined a2 = true /\ eager_safe a2 = true /\ numeric_store e0 a2 = true /\ snd (eval_top_i e0 a2) = Ok 6%Z.
Proof. vm_compute. repeat split. Qed.

(** Open finding F11, as a theorem about the faithful model: without the hypothesis [eager_safe]
    the refinement is false.  The expression 0 && (x = 1) is C-defined and the store is numeric;
    C does not evaluate the right operand, the rule-action evaluator does: both give 0, but x is
    assigned.  The witness is replayed on the implementation on every run (Eval("0 && (x = 1)")
    is in the corpus and reported as the known finding). *)
Theorem C11_short_circuit_refuted_F11 :
  exists e a, c_defined a = true /\ numeric_store e a = true /\ eager_safe a = false /\
    snd (eval_top_i e a) = snd (eval_c e a) /\
    abs (fst (eval_top_i e a)) [120] <> abs (fst (eval_c e a)) [120].
Proof.
  exists (mkEnv [[115; 104]] 0 0%Z []), (ELAnd (ENum [48]) (EParen (EAssign None (EVar [120]) (ENum [49])))).
  vm_compute. repeat split; discriminate.
Qed.
Print Assumptions C11_short_circuit_refuted_F11.
