(** C19 — totality of the downstream entry points (model side so far: Option.String). *)
From GoSh Require Import Base.Bytes Base.Outcome Store.Env Store.EnvSpec.
From GoShGen Require Import Extracted.

(** Option.String never panics, on every bit combination (all of N, not only the 2^14 named ones).
    The loop bound is translated from interp.go on every run, so this theorem is re-checked against
    what the code says now. *)
Theorem C19_option_string_total : forall o, exists s, option_string o = Ok s.
Proof.
  intros o. unfold option_string. apply option_string_loop_total. vm_compute. apply le_n.
Qed.
Print Assumptions C19_option_string_total.

(** Eval never panics: on every source text and every environment the model of Eval (tokenizer,
    parser, evaluator; harness sub-command "arith" compares it with interp.Eval on every run) ends
    with a number or with one of the documented errors — no panic site is reached and no fuel runs
    out, whatever the nesting depth. *)
From GoSh Require Import Arith.ASyntax Arith.AEval Arith.ATotal.
Theorem C19_eval_total : forall e src,
  match snd (eval_model e src) with Ok _ | Err _ => True | Panic _ | OutOfFuel => False end.
Proof. exact eval_model_total. Qed.
Print Assumptions C19_eval_total.

(** Expand is total on parser-shaped words: for every word in which a single-quoted or
    backslash-quoted part holds at most one literal (the shape the parser builds; the harness
    checks it on every word of every accepted source), every environment, mode and pathname
    oracle, the model of Expand (compared with ExecEnv.Expand on every run by C13, C14, C15, C20)
    ends with fields or with a documented error: it reaches no panic site (quote with a
    non-literal inside, field splitting out of range, arithmetic) and its recursion budget always
    suffices. *)
From GoSh Require Import Expand.Expand Expand.NoPanic Expand.Fuel.
Theorem C19_expand_total :
  forall users glob e w m, wfw w = true ->
    match expand_top users glob e w m with Ok _ | Err _ => True | Panic _ | OutOfFuel => False end.
Proof. exact expand_top_total. Qed.
Print Assumptions C19_expand_total.
