(** C12 — Pattern matching implements shell pattern notation in all four removal modes.
    Only property theorems; each is closed by [exact] of a lemma proved in Pattern/. *)
From GoSh Require Import Base.Bytes Pattern.Regex Pattern.PCompile Pattern.Match Pattern.PSpec
     Pattern.RegexProofs Pattern.MatchProofs Pattern.Collating Expand.QuotedLiteral.

(** For every pattern item list (hence every well-formed pattern, whatever compile translates it
    to) and every subject, the model of Match returns exactly the longest / shortest prefix /
    suffix of the subject that the pattern matches as a whole, and no match when there is none.
    [extreme affix longest items s r] spells this out; [Mt] is the denotation of the pattern. *)
Theorem C12_prefix_largest : forall items s, extreme is_prefix true items s (match_items [items] mPL s).
Proof. exact match_prefix_largest. Qed.
Print Assumptions C12_prefix_largest.

Theorem C12_prefix_smallest : forall items s, extreme is_prefix false items s (match_items [items] mPS s).
Proof. exact match_prefix_smallest. Qed.
Print Assumptions C12_prefix_smallest.

Theorem C12_suffix_largest : forall items s, extreme is_suffix true items s (match_items [items] mSL s).
Proof. exact match_suffix_largest. Qed.
Print Assumptions C12_suffix_largest.

Theorem C12_suffix_smallest : forall items s, extreme is_suffix false items s (match_items [items] mSS s).
Proof. exact match_suffix_smallest. Qed.
Print Assumptions C12_suffix_smallest.

(** Several patterns match exactly when one of them does. *)
Theorem C12_alternatives_prefix : forall alts s mode, m_prefix mode = true -> m_suffix mode = false ->
  (match_items alts mode s <> None <-> exists p m, In p alts /\ is_prefix m s /\ Mt fst p m).
Proof. exact match_alt_prefix. Qed.
Print Assumptions C12_alternatives_prefix.

Theorem C12_alternatives_suffix : forall alts s mode, m_prefix mode = false -> m_suffix mode = true ->
  (match_items alts mode s <> None <-> exists p m, In p alts /\ is_suffix m s /\ Mt fst p m).
Proof. exact match_alt_suffix. Qed.
Print Assumptions C12_alternatives_suffix.

(** The first match in priority order of the modelled leftmost-first matcher is the extreme one
    (the mechanism behind the four theorems above). *)
Theorem C12_greedy_is_longest : forall (A : Type) (rune_of : A -> rune) ae items s,
  match bt rune_of true ae items s with
  | Some u => Mp rune_of ae items s u /\ forall u', Mp rune_of ae items s u' -> (length u <= length u')%nat
  | None => forall u', ~ Mp rune_of ae items s u'
  end.
Proof. exact bt_greedy_spec. Qed.
Print Assumptions C12_greedy_is_longest.

Theorem C12_lazy_is_shortest : forall (A : Type) (rune_of : A -> rune) ae items s,
  match bt rune_of false ae items s with
  | Some u => Mp rune_of ae items s u /\ forall u', Mp rune_of ae items s u' -> (length u' <= length u)%nat
  | None => forall u', ~ Mp rune_of ae items s u'
  end.
Proof. exact bt_lazy_spec. Qed.
Print Assumptions C12_lazy_is_shortest.

(** The executable whole-string matcher used as the oracle on the implementation's answers
    decides the denotation. *)
Theorem C12_oracle_decides_denotation : forall (A : Type) (rune_of : A -> rune) items t,
  pmb rune_of items t = true <-> Mt rune_of items t.
Proof. exact pmb_correct. Qed.
Print Assumptions C12_oracle_decides_denotation.

(** Non-vacuity: "a*b" against "aXbYb": longest prefix is everything, shortest is "aXb". *)
Example C12_witness :
  let s := map (fun r => (r, [r])) [97; 88; 98; 89; 98]%N in
  let items := [RLit 97; RStar; RLit 98]%N in
  option_map raw (match_items [items] mPL s) = Some [97; 88; 98; 89; 98]%N /\
  option_map raw (match_items [items] mPS s) = Some [97; 88; 98]%N /\
  option_map raw (match_items [RStar :: [RLit 98]%N] mSS s) = Some [98]%N /\
  option_map raw (match_items [RStar :: [RLit 98]%N] mSL s) = Some [97; 88; 98; 89; 98]%N.
Proof. vm_compute. repeat split. Qed.

(** Several patterns match exactly when one of them does: none matches when there is none. *)
Theorem C12_no_pattern_no_match : forall mode s, match_model [] mode s = MNoMatch.
Proof. exact no_pattern_no_match. Qed.
Print Assumptions C12_no_pattern_no_match.

(** A bracketed metacharacter matches only itself, also when it is written as a collating symbol
    [.x.] or an equivalence class [=x=]: the expression [[.x.]] compiles to one class whose only
    member is x; the text between the delimiters does not reach the regular expression as written
    (any other content is rejected by the compiler). *)
Theorem C12_collating_single_character :
  forall g d x f rest,
    (d = 46 \/ d = 61)%N -> (0 < f)%nat ->
    citems f g (91 :: 91 :: d :: x :: d :: 93 :: 93 :: rest)%N =
    match citems (f - 1) g rest with
    | COk l => COk ((RClass false [CChar x], 91%N :: txt (emit [x] ++ [93%N])) :: l)
    | CErr => CErr
    | CUnmodelled => CUnmodelled
    end.
Proof. exact collating_single. Qed.
Print Assumptions C12_collating_single_character.

(** "A malformed pattern gives an error (never a wrong match)": [:^name:], which package regexp
    reads as the complement of a class, is no class name; a bracket expression that holds one is
    rejected whatever the name. *)
Theorem C12_negated_class_name_rejected :
  forall g f name rest,
    forallb (fun c => negb (c =? 58)%N) name = true -> (0 < f)%nat ->
    citems f g (91 :: 91 :: 58 :: 94 :: name ++ 58 :: 93 :: 93 :: rest)%N = CErr.
Proof. exact negated_class_rejected. Qed.
Print Assumptions C12_negated_class_name_rejected.
