(** C02 — Every grammatical program is accepted and its AST mirrors its derivation.
    Token level: the grammar of parser/parser.go.y is the derivation relation [G_program]
    (Parse/GrammarSpec.v); the model of the generated parser and its rule actions is [parse_tokens]
    (Parse/Grammar.v), tied to the real parser by the token tap (delivered tokens, returned AST).
    The lexing half (source text to tokens) is decided by the correspondence check, not proved. *)
From GoSh Require Import Base.Bytes Parse.Skel Parse.Grammar Parse.GrammarSpec Parse.GrammarSound Parse.GrammarFuel Parse.GrammarComplete Parse.GrammarBudget.

(** Every program the grammar derives is accepted, all of its tokens are consumed, and the skeleton
    of the tree built is the one the derivation builds: commands, operators, words, redirections in
    source order.  (The recursion budget of the model always suffices: Parse/GrammarBudget.v.) *)
Theorem C02_grammatical_programs_accepted :
  forall ts hs sk hs', G_program ts hs sk hs' -> parse_tokens ts hs = POk sk [] hs'.
Proof. exact parse_tokens_accepts. Qed.
Print Assumptions C02_grammatical_programs_accepted.

(** Conversely the tree that is built always mirrors a derivation of exactly the tokens received. *)
Theorem C02_tree_mirrors_a_derivation :
  forall ts hs sk rest hs', parse_tokens ts hs = POk sk rest hs' -> rest = [] /\ G_program ts hs sk hs'.
Proof. exact parse_tokens_sound. Qed.
Print Assumptions C02_tree_mirrors_a_derivation.

(** All derivations of a token sequence build the same skeleton: the grammar is unambiguous up to the tree. *)
Theorem C02_skeleton_unique :
  forall ts hs sk1 hs1 sk2 hs2, G_program ts hs sk1 hs1 -> G_program ts hs sk2 hs2 -> sk1 = sk2 /\ hs1 = hs2.
Proof. exact skeleton_unique'. Qed.
Print Assumptions C02_skeleton_unique.

(** The parser model always answers: a token sequence is accepted with a derivation of exactly its
    tokens, or rejected and then it is no program of the grammar; it never runs out of budget. *)
Theorem C02_parser_decides_the_grammar :
  forall ts hs,
    (exists sk hs', parse_tokens ts hs = POk sk [] hs' /\ G_program ts hs sk hs') \/
    (exists e, parse_tokens ts hs = PErr e /\ forall sk hs', ~ G_program ts hs sk hs').
Proof. exact parse_tokens_decides. Qed.
Print Assumptions C02_parser_decides_the_grammar.
