(** C10 — A failing source reader is reported as that failure, never as success. *)
From GoSh Require Import Base.Bytes Lex.Eff.
From Coq Require Import List.
Import ListNotations.

(** The error slot keeps the most significant report (rank 0 = the reader's error, 1 + position =
    a syntax error; lexer.report in parser/lexer.go).  Whatever is reported before and after --
    by the lexer or by the parser, in any order -- once the reader's failure has been reported
    the slot holds it: it is never replaced by a made-up syntax error and never lost. *)
Theorem C10_read_fault_sticky :
  forall before after : list nat, fold_left report (before ++ 0%nat :: after) None = Some 0%nat.
Proof. exact read_fault_sticky. Qed.
Print Assumptions C10_read_fault_sticky.

(** Every failing read that a lexer program performs is noticed by the interpreter of the reader
    interface, and stays noticed. *)
Theorem C10_fault_noticed :
  forall (O A : Type) (p : prog O A) (s : source) (st : rstate),
    faulted st = true -> faulted (snd (run p s st)) = true.
Proof. exact (@faulted_mono). Qed.
Print Assumptions C10_fault_noticed.

(** For every program over the reader interface, every source that fails from position k on and
    every starting state that has not yet passed k: once the program has inspected position k it
    has been told of the failure ... *)
Theorem C10_fault_noticed_when_inspected :
  forall (O A : Type) (k : nat) (rs : list rune) (p : prog O A) (st : rstate),
    (cursor st <= hiwater st)%nat -> ((k < hiwater st)%nat -> faulted st = true) ->
    (k < hiwater (snd (run p (mkSource rs (Some k)) st)))%nat ->
    faulted (snd (run p (mkSource rs (Some k)) st)) = true.
Proof. exact fault_noticed_when_inspected. Qed.
Print Assumptions C10_fault_noticed_when_inspected.

(** ... and a program that was never told of it has run exactly as on the whole input: same
    result, same outputs (tokens, errors), same final reader state.  A failure that is not reached
    changes nothing. *)
Theorem C10_unnoticed_fault_changes_nothing :
  forall (O A : Type) (k : nat) (rs : list rune) (p : prog O A) (st : rstate),
    (cursor st <= hiwater st)%nat -> (hiwater st <= k)%nat ->
    faulted (snd (run p (mkSource rs (Some k)) st)) = false ->
    run p (mkSource rs None) st = run p (mkSource rs (Some k)) st.
Proof. exact unnoticed_fault_changes_nothing. Qed.
Print Assumptions C10_unnoticed_fault_changes_nothing.
