(** C10 — placeholder *)
From GoSh Require Import Base.Bytes.
