(** C05 placeholder *)
From GoSh Require Import Base.Bytes.
