(** C05 — Print then parse gives back the same program, under every printer style.
    Proved here: the here-document placement of the printer (the part of the round trip where the
    defects were).  Model: Print/Heredocs.v, the bookkeeping of printer.go (push / redir / newline /
    heredoc / suspend) as operations on a stack of levels, and the lexer's reading rule as a reader
    of the emitted events; tied to the printer on every run by replaying on the model the operations
    the real printer performed (hook printer.VerifHook) and comparing the events.
    The token-level half of the round trip is C02's completeness (every token rendering of a
    derivation parses to its skeleton).  The rest of the printer (word quoting, separators, layout
    under the 256 styles) is not modelled: it is decided by the round-trip check on every run;
    except the words of literal quotings, whose printed notation is modelled (Lex/Reprint.v) and
    proved to be scanned back to the same word (last theorem below). *)
From Coq Require Import List.
Import ListNotations.
From GoSh Require Import Print.Heredocs.
From GoSh Require Import Base.Bytes Base.Utf8 Expand.Expand Lex.Quote Lex.Reprint.
From GoSh Require Lex.Reprint2 Lex.Reprint3.

(** For every sequence of printer operations -- any nesting of levels and of multi-line expansions,
    any placement of newlines, expansions printed in the middle of a body -- that runs without fault
    and leaves nothing open, every here-document is read back exactly once, by the lexer that saw
    its announcement, at the first newline after it, in the order of the announcements. *)
Theorem C05_printed_heredocs_are_read_back :
  forall ops s evs,
    hrun (mkP [] [] []) ops = Some (s, evs) -> levels s = [] -> writing s = [] -> saved s = [] ->
    reader evs RNormal [] [] = true.
Proof. exact printed_heredocs_are_read_back. Qed.
Print Assumptions C05_printed_heredocs_are_read_back.

(** The same from any intermediate state: what the reader still expects is what the printer is
    writing followed by what is pending, outermost level first (the invariant of the proof). *)
Theorem C05_reader_tracks_printer :
  forall ops s s2 evs, hrun s ops = Some (s2, evs) -> forall k,
    reader (evs ++ k) RNormal (q_of (levels s) (writing s)) (ctx_of (saved s)) =
    reader k RNormal (q_of (levels s2) (writing s2)) (ctx_of (saved s2)).
Proof. exact run_reader. Qed.
Print Assumptions C05_reader_tracks_printer.

(** Words.  For every text (any Unicode scalar values) that the word scanner accepts as a word of
    plain characters, single quotes, double quotes with escapes, backslash escapes and line
    continuations anywhere, followed by any rest: the parts it returns, written in the printer's
    notation ([print_parts]: a literal as it is, a quotation between its quoting characters, an
    escaped character after its backslash) and followed by the same rest, are scanned to exactly
    the same parts with the same rest.  The model of the printer's notation is compared with
    printer.Fprint on every run (harness handler rword). *)
Theorem C05_printed_word_is_scanned_back :
  forall f s w rest, forallb scalar s = true ->
    scan_word f s [] = Some (w, rest) ->
    exists F, scan_word F (print_parts w ++ rest) [] = Some (w, rest).
Proof. exact scan_print_scan. Qed.
Print Assumptions C05_printed_word_is_scanned_back.

(** Open finding F64, as a theorem about the model of the printer's notation for parameter
    expansions: two different expansions are written alike (the parameter # with operator ? and an
    empty word, and the length of $?).  The witness is replayed on the implementation by the round
    trip on every run ('echo ${#?' + line continuation + '}' in the corpus) and reported as the
    known finding. *)
Theorem C05_parameter_notation_not_injective_F64 :
  exists a b, a <> b /\ print_pexp a = print_pexp b.
Proof. exact print_pexp_refuted. Qed.
Print Assumptions C05_parameter_notation_not_injective_F64.

(** Open finding F65, likewise: the word a\ at the very end of the input is accepted (an escape of
    nothing); printed and followed by anything else than the end of the input it is another word.
    Replayed on the implementation on every run ('>f echo a\' without a final newline). *)
Theorem C05_trailing_backslash_refuted_F65 :
  exists f s w, scan_word f s [] = Some (w, []) /\
    forall F, scan_word F (print_parts w ++ [32; 62; 102]%N) [] <> Some (w, [32; 62; 102]%N).
Proof. exact trailing_backslash_refuted. Qed.
Print Assumptions C05_trailing_backslash_refuted_F65.

(** The same with simple parameter expansions ($name, $1, $@ and the other special parameters,
    outside and inside double quotes; rune-level model Lex/Reprint2.v, compared with the lexer and
    with printer.Fprint on every run): for every text the model scanner accepts, followed by any
    rest, the parts it returns, printed and followed by the same rest, are scanned to exactly the
    same parts and rest.  A name is followed in the printed text by what followed it in the
    source, so it is read back whole. *)
Theorem C05_printed_word_with_parameters_is_scanned_back :
  forall f s w rest, Reprint2.scan_word2 f s [] = Some (w, rest) ->
    exists F, Reprint2.scan_word2 F (Reprint2.print_parts2 w ++ rest) [] = Some (w, rest).
Proof. exact Reprint2.scan_print_scan2. Qed.
Print Assumptions C05_printed_word_with_parameters_is_scanned_back.

(** And with braced parameter expansions: ${name}, ${#name} and ${name op word} with the fourteen
    operators, special and positional parameters, the word scanned up to the closing brace with
    quotations, parameters and nested braced expansions to any depth, outside and inside double
    quotes (rune-level model Lex/Reprint3.v of scanRawToken's word loop, scanQuote, scanParamExp and
    scanParamExpInBraces with its look-ahead after ${#; compared with the lexer and with
    printer.Fprint on every run).  For every text the model scanner accepts, followed by any rest,
    the parts it returns, printed and followed by the same rest, are scanned to exactly the same
    parts and rest.  (Outside the fragment: command substitutions, arithmetic, line continuations
    inside braces and directly after a name -- where open finding F64 lives --, a dollar that stays
    literal, non-ASCII characters next to a name.) *)
Theorem C05_printed_word_with_braced_expansions_is_scanned_back :
  forall f s w rest, Reprint3.scan_word3 f s [] = Some (w, rest) ->
    exists F, Reprint3.scan_word3 F (Reprint3.print_parts3 w ++ rest) [] = Some (w, rest).
Proof. exact Reprint3.scan_print_scan3. Qed.
Print Assumptions C05_printed_word_with_braced_expansions_is_scanned_back.
