(** C05 — Print then parse gives back the same program, under every printer style.
    Proved here: the here-document placement of the printer (the part of the round trip where the
    defects were).  Model: Print/Heredocs.v, the bookkeeping of printer.go (push / redir / newline /
    heredoc / suspend) as operations on a stack of levels, and the lexer's reading rule as a reader
    of the emitted events; tied to the printer on every run by replaying on the model the operations
    the real printer performed (hook printer.VerifHook) and comparing the events.
    The token-level half of the round trip is C02's completeness (every token rendering of a
    derivation parses to its skeleton).  The rest of the printer (word quoting, separators, layout
    under the 256 styles) is not modelled: it is decided by the round-trip check on every run. *)
From Coq Require Import List.
Import ListNotations.
From GoSh Require Import Print.Heredocs.

(** For every sequence of printer operations -- any nesting of levels and of multi-line expansions,
    any placement of newlines, expansions printed in the middle of a body -- that runs without fault
    and leaves nothing open, every here-document is read back exactly once, by the lexer that saw
    its announcement, at the first newline after it, in the order of the announcements. *)
Theorem C05_printed_heredocs_are_read_back :
  forall ops s evs,
    hrun (mkP [] [] []) ops = Some (s, evs) -> levels s = [] -> writing s = [] -> saved s = [] ->
    reader evs RNormal [] [] = true.
Proof. exact printed_heredocs_are_read_back. Qed.
Print Assumptions C05_printed_heredocs_are_read_back.

(** The same from any intermediate state: what the reader still expects is what the printer is
    writing followed by what is pending, outermost level first (the invariant of the proof). *)
Theorem C05_reader_tracks_printer :
  forall ops s s2 evs, hrun s ops = Some (s2, evs) -> forall k,
    reader (evs ++ k) RNormal (q_of (levels s) (writing s)) (ctx_of (saved s)) =
    reader k RNormal (q_of (levels s2) (writing s2)) (ctx_of (saved s2)).
Proof. exact run_reader. Qed.
Print Assumptions C05_reader_tracks_printer.
