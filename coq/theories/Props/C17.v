(** C17 — Alias substitution equals textual replacement at command position and terminates. *)
From GoSh Require Import Base.Bytes Lex.Alias Lex.AliasStream.

(** The stack of aliases being expanded always holds pairwise distinct names that are aliases. *)
Theorem C17_stack_names_distinct :
  forall (t : table) (st : list bytes), reachable t st -> good t st.
Proof. exact stack_names_distinct. Qed.
Print Assumptions C17_stack_names_distinct.

(** Hence its depth is bounded by the size of the table: every table terminates. *)
Theorem C17_alias_depth_bounded :
  forall (t : table) (st : list bytes), reachable t st -> (length st <= length t)%nat.
Proof. exact alias_depth_bounded. Qed.
Print Assumptions C17_alias_depth_bounded.

(** A name is never expanded again inside its own expansion. *)
Theorem C17_no_self_expansion :
  forall (t : table) (st : list bytes) (name : bytes), on_stack name st = true -> subst t st name = None.
Proof. exact no_self_expansion. Qed.
Print Assumptions C17_no_self_expansion.

(** * the character stream under substitution (Lex/AliasStream.v: read, unread, subst of the lexer,
    replayed on every run against the events of the real lexer)

    The text still to be read is [flatten]: the unread parts of the alias values being expanded,
    innermost first, then the rest of the source. *)

(** one read returns the first character of that text and leaves the rest (whichever exhausted
    entries it drops on the way) *)
Theorem C17_read_is_head_of_text : forall s,
  match read s with
  | (Some c, s') => flatten s = c :: flatten s'
  | (None, s') => flatten s = [] /\ s' = ([], [])
  end.
Proof. exact read_flatten. Qed.
Print Assumptions C17_read_is_head_of_text.

(** reading to the end yields exactly that text, in order *)
Theorem C17_stream_is_the_replaced_text : forall fuel s, (length (flatten s) <= fuel)%nat -> drain fuel s = flatten s.
Proof. exact drain_flatten. Qed.
Print Assumptions C17_stream_is_the_replaced_text.

(** putting a character back restores the text *)
Theorem C17_unread_restores : forall s c s', read s = (Some c, s') -> flatten (unread s' c) = flatten s.
Proof. exact unread_read. Qed.
Print Assumptions C17_unread_restores.

(** substitution is textual replacement: after the word [name] has been read, what the lexer
    reads next is the alias value (its trailing blanks replaced by one blank; a blank quoted by a
    backslash is part of the value's text, [trim_value]) followed by what followed the word -- also when the word itself came from an alias value (repeated replacement) *)
Theorem C17_substitution_is_textual_replacement : forall t s name s',
  asubst t s name = Some s' ->
  exists v, alias_lookup name t = Some v /\ flatten s' = trim_value v ++ [32] ++ flatten s.
Proof. exact subst_is_textual_replacement. Qed.
Print Assumptions C17_substitution_is_textual_replacement.

(** a name is never replaced inside its own expansion *)
Theorem C17_guard : forall t s name, In name (names (fst s)) -> asubst t s name = None.
Proof. exact subst_guard. Qed.
Print Assumptions C17_guard.

(** whatever the lexer does (any sequence of reads, unreads and substitutions, on any table, cyclic
    ones included), the names being expanded stay pairwise distinct and the stack is no deeper than
    the table *)
Theorem C17_every_table_terminates : forall t ops src,
  let s := fold_left (astep t) ops ([], src) in
  NoDup (names (fst s)) /\ (length (fst s) <= length t)%nat.
Proof. exact stream_depth_bounded. Qed.
Print Assumptions C17_every_table_terminates.

(** when a value ends in a blank the following word is examined too: the flag recorded at the
    substitution says exactly that blanks were cut from the end of the value (the value is its text
    followed by a non-empty run of blanks; a blank quoted by a backslash belongs to the text), and
    it is pending once the value has been read to its end *)
Theorem C17_blank_rule : forall t s name s' e below,
  asubst t s name = Some s' -> fst s' = e :: below ->
  (eblank e = true <-> exists v tail, alias_lookup name t = Some v /\ v = trim_value v ++ tail /\ tail <> [] /\ forallb is_blank tail = true) /\
  blank_pending (set_rest e [] :: below) = eblank e || blank_pending below.
Proof. exact blank_rule. Qed.
Print Assumptions C17_blank_rule.

(** what is cut: the two blanks after ls; nothing from e, backslash, blank (a quoted blank); the blank
    after e, backslash, backslash (a quoted backslash); one of the two blanks after e, backslash; a
    quoted tab stays like a quoted blank *)
Example C17_trim_value_witness :
  trim_value [108; 115; 32; 32] = [108; 115] /\
  trim_value [101; 92; 32] = [101; 92; 32] /\
  trim_value [101; 92; 92; 32] = [101; 92; 92] /\
  trim_value [101; 92; 32; 32] = [101; 92; 32] /\
  trim_value [101; 92; 9] = [101; 92; 9].
Proof. vm_compute. repeat split. Qed.

(** the premises are met: a chain of two aliases, the inner one blank-terminated *)
Example C17_stream_witness :
  let t := [([97], [98; 32; 120]); ([98], [99; 32])] in
  match asubst t ([], [32; 122]) [97] with
  | Some s1 =>
    match asubst t (snd (read s1)) [98] with
    | Some s2 => drain 20 s2 = [99; 32; 32; 120; 32; 32; 122]
    | None => False
    end
  | None => False
  end.
Proof. vm_compute. reflexivity. Qed.

(** Not proved: that the tokens the lexer forms from this character stream are examined for
    substitution at command position only (which words are looked up); decided on every run against
    the reference replacement on folded / unfolded renderings of generated command structures. *)
