(** C17 — Alias substitution equals textual replacement at command position and terminates. *)
From GoSh Require Import Base.Bytes Lex.Alias.

(** The stack of aliases being expanded always holds pairwise distinct names that are aliases. *)
Theorem C17_stack_names_distinct :
  forall (t : table) (st : list bytes), reachable t st -> good t st.
Proof. exact stack_names_distinct. Qed.
Print Assumptions C17_stack_names_distinct.

(** Hence its depth is bounded by the size of the table: every table terminates. *)
Theorem C17_alias_depth_bounded :
  forall (t : table) (st : list bytes), reachable t st -> (length st <= length t)%nat.
Proof. exact alias_depth_bounded. Qed.
Print Assumptions C17_alias_depth_bounded.

(** A name is never expanded again inside its own expansion. *)
Theorem C17_no_self_expansion :
  forall (t : table) (st : list bytes) (name : bytes), on_stack name st = true -> subst t st name = None.
Proof. exact no_self_expansion. Qed.
Print Assumptions C17_no_self_expansion.

(** Not proved: equality with textual replacement (decided on every run against the reference
    replacement on folded / unfolded renderings of generated command structures). *)
