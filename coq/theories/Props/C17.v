(** C17 placeholder *)
From GoSh Require Import Base.Bytes.
