(** C18 placeholder *)
From GoSh Require Import Base.Bytes.
