(** C18 — Printing is an idempotent, deterministic normal form; the AST stays untouched. *)
From GoSh Require Import Print.Bufio.
From GoSh Require Import Base.Bytes Base.Utf8 Expand.Expand Lex.Quote Lex.Reprint.
From GoSh Require Lex.Reprint3.
From Coq Require Import List.

(** A writer that fails before the whole output has been accepted is reported by Fprint: the
    buffered writer's first error is sticky and the final Flush returns it -- for every sequence of
    writes, every buffering schedule (when and how much is handed to the underlying writer) and
    every failure point below the output length. *)
Theorem C18_failing_writer_reported :
  forall ops limit, (limit < written ops)%nat -> failed (fprint ops limit) = true.
Proof. exact failing_writer_reported. Qed.
Print Assumptions C18_failing_writer_reported.

(** The separators that the printer hides temporarily (trim) are all restored by the deferred
    undos, in whatever nesting, also when the same node is trimmed twice: the tree is unchanged
    after Fprint returns. *)
Theorem C18_trim_undo_identity :
  forall is seps, fold_left undo (snd (trims seps is)) (fst (trims seps is)) = seps.
Proof. exact trims_then_undos_restore. Qed.
Print Assumptions C18_trim_undo_identity.

(** Not proved: idempotence of the layout (print o parse o print = print); decided on every run
    on generated programs under all 256 Configs, together with determinism and the deep comparison
    of the tree before and after printing. *)

(** Formatting is a fix-point at the level of words of literal quotings: for every text the word
    scanner accepts, the printed form of the word, scanned again and printed again, is the same text
    (model of the printer's notation: Lex/Reprint.v, compared with printer.Fprint on every run). *)
Theorem C18_printed_word_is_a_fix_point :
  forall f s w rest, forallb scalar s = true ->
    scan_word f s [] = Some (w, rest) ->
    exists F w', scan_word F (print_parts w ++ rest) [] = Some (w', rest) /\ print_parts w' = print_parts w.
Proof. exact print_scan_print. Qed.
Print Assumptions C18_printed_word_is_a_fix_point.

(** The same for words with parameter expansions, braced ones included (Lex/Reprint3.v): the printed
    form, scanned and printed again, is the same text. *)
Theorem C18_printed_word_with_expansions_is_a_fix_point :
  forall f s w rest, Reprint3.scan_word3 f s [] = Some (w, rest) ->
    exists F w', Reprint3.scan_word3 F (Reprint3.print_parts3 w ++ rest) [] = Some (w', rest) /\
                 Reprint3.print_parts3 w' = Reprint3.print_parts3 w.
Proof.
  intros f s w rest H. destruct (Reprint3.scan_print_scan3 f s w rest H) as [F HF]. exists F, w. split; [exact HF|reflexivity].
Qed.
Print Assumptions C18_printed_word_with_expansions_is_a_fix_point.
