(** C08 — Here-document bodies are attached to the right redirection, verbatim. *)
From GoSh Require Import Base.Bytes Proto.Confluence Proto.LTS Lex.Heredoc.

(** Under every schedule of the lexer / parser pair the redirections are taken by the lexer in
    the order the parser pushed them (the k-th body read goes to the k-th here-document operator). *)
Theorem C08_heredoc_fifo :
  forall (tok hd res pstate : Type) (pfeed : pstate -> tok -> pout hd pstate) (peof : pstate -> res + err)
         (p : lprog tok) (s0 : pstate) (c : cfg tok hd res pstate),
    steps _ (step tok hd res pstate pfeed peof) (init tok hd res pstate p s0) c ->
    exists rest, pushed _ _ _ _ c = popped _ _ _ _ c ++ rest.
Proof. exact heredoc_fifo. Qed.
Print Assumptions C08_heredoc_fifo.

(** For a quoted delimiter: every body whose lines differ from the delimiter is returned byte for
    byte (an empty first line included), the delimiter line is recognised -- tab-indented too for
    the dash form -- and reading stops right after it. *)
Theorem C08_literal_body_verbatim :
  forall dash delim lines dline rest acc fuel,
    forallb (fun l => no_nl l && negb (is_delim dash delim l)) lines = true ->
    no_nl dline = true -> is_delim dash delim dline = true -> (length lines < fuel)%nat ->
    read_heredoc fuel dash delim (body_of lines ++ dline ++ 10%N :: rest) acc = Some (acc ++ body_of lines, dline, rest).
Proof. exact heredoc_literal_body. Qed.
Print Assumptions C08_literal_body_verbatim.

(** A delimiter that never comes is an error (never a silently truncated body). *)
Theorem C08_unterminated_is_error :
  forall dash delim lines acc fuel,
    forallb (fun l => no_nl l && negb (is_delim dash delim l)) lines = true ->
    is_delim dash delim [] = false ->
    read_heredoc fuel dash delim (body_of lines) acc = None.
Proof. exact heredoc_unterminated. Qed.
Print Assumptions C08_unterminated_is_error.

(** Not proved: expanding bodies (unquoted delimiter: $, backquote, backslash scanning) and the
    quote removal of the delimiter word; decided by the generator-driven check on the implementation. *)
