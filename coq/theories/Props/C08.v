(** C08 placeholder *)
From GoSh Require Import Base.Bytes.
