(** C08 — Here-document bodies are attached to the right redirection, verbatim. *)
From GoSh Require Import Base.Bytes Proto.Confluence Proto.LTS Lex.Heredoc Lex.HeredocExp Lex.DelimUnquote.
From GoSh Require Import Expand.Expand Lex.Quote.

(** Under every schedule of the lexer / parser pair the redirections are taken by the lexer in
    the order the parser pushed them (the k-th body read goes to the k-th here-document operator). *)
Theorem C08_heredoc_fifo :
  forall (tok hd res pstate : Type) (pfeed : pstate -> tok -> pout hd pstate) (peof : pstate -> res + err)
         (p : lprog tok) (s0 : pstate) (c : cfg tok hd res pstate),
    steps _ (step tok hd res pstate pfeed peof) (init tok hd res pstate p s0) c ->
    exists rest, pushed _ _ _ _ c = popped _ _ _ _ c ++ rest.
Proof. exact heredoc_fifo. Qed.
Print Assumptions C08_heredoc_fifo.

(** For a quoted delimiter: every body whose lines differ from the delimiter is returned byte for
    byte (an empty first line included), the delimiter line is recognised -- tab-indented too for
    the dash form -- and reading stops right after it. *)
Theorem C08_literal_body_verbatim :
  forall dash delim lines dline rest acc fuel,
    forallb (fun l => no_nl l && negb (is_delim dash delim l)) lines = true ->
    no_nl dline = true -> is_delim dash delim dline = true -> (length lines < fuel)%nat ->
    read_heredoc fuel dash delim (body_of lines ++ dline ++ 10%N :: rest) acc = Some (acc ++ body_of lines, dline, rest).
Proof. exact heredoc_literal_body. Qed.
Print Assumptions C08_literal_body_verbatim.

(** A delimiter that never comes is an error (never a silently truncated body). *)
Theorem C08_unterminated_is_error :
  forall dash delim lines acc fuel,
    forallb (fun l => no_nl l && negb (is_delim dash delim l)) lines = true ->
    is_delim dash delim [] = false ->
    read_heredoc fuel dash delim (body_of lines) acc = None.
Proof. exact heredoc_unterminated. Qed.
Print Assumptions C08_unterminated_is_error.

(** For an unquoted delimiter (body without '$' and backquote; Lex/HeredocExp.v, run against the
    implementation on every check): every body whose logical lines -- physical lines joined by
    backslash-newline -- differ from the delimiter is returned with the continuations removed and
    every other backslash pair kept as written; the first logical line equal to the delimiter ends
    it (a physical line that spells the delimiter but continues a line does not), and reading
    stops right after it. *)
Theorem C08_expanding_body :
  forall dash delim ls dl rest acc fuel,
    forallb (fun l => line_ok l && negb (is_delim dash delim (line_text l))) ls = true ->
    line_ok dl = true -> is_delim dash delim (line_text dl) = true ->
    (body_cost ls + line_cost dl <= fuel)%nat ->
    read_exp fuel dash delim (body_src ls ++ line_src dl ++ rest) acc [] = HOk (acc ++ body_text ls) (line_text dl) rest.
Proof. exact heredoc_expanding_body. Qed.
Print Assumptions C08_expanding_body.

Theorem C08_expanding_unterminated_is_error :
  forall dash delim ls acc fuel,
    forallb (fun l => line_ok l && negb (is_delim dash delim (line_text l))) ls = true ->
    is_delim dash delim [] = false ->
    read_exp fuel dash delim (body_src ls) acc [] = HErr.
Proof. exact heredoc_expanding_unterminated. Qed.
Print Assumptions C08_expanding_unterminated_is_error.

(** The delimiter matches after quote removal, and the body is scanned if and only if no part of
    the delimiter word was quoted: for a word written under the literal quotings (single, double
    with its escapes, backslash, any mixture, nested) the delimiter is the text and the word counts
    as quoted; a plain literal is its own delimiter and is not. *)
Theorem C08_delimiter_after_quote_removal :
  forall w text, word_text w = Some text ->
    lits_text (fst (unq w)) = Some text /\ snd (unq w) = negb (Nat.eqb (length w) 0).
Proof. exact delimiter_of_quoted_word. Qed.
Print Assumptions C08_delimiter_after_quote_removal.

Theorem C08_plain_delimiter_is_unquoted : forall t, unq [WLit t] = ([WLit t], false).
Proof. exact delimiter_of_plain_word. Qed.
Print Assumptions C08_plain_delimiter_is_unquoted.

(** the premises are met: a continued line that spells the delimiter, an escaped dollar, then the delimiter *)
Example C08_expanding_witness :
  read_exp 40 false [69] ([107; 92; 10; 69; 10] ++ [92; 36; 120; 10] ++ [69; 10] ++ [122]) [] [] = HOk [107; 69; 10; 92; 36; 120; 10] [69] [122].
Proof. vm_compute. reflexivity. Qed.

(** Not proved: '$' and backquote expansions inside a scanned body (their text is kept as
    written; a delimiter-like line inside a multi-line expansion does not end the body); decided
    by the generator-driven check on the implementation. *)
