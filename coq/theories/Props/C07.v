(** C07 placeholder *)
From GoSh Require Import Base.Bytes.
