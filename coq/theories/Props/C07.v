(** C07 — One call consumes exactly one complete command from the stream. *)
From GoSh Require Import Base.Bytes Lex.Eff.

(** For every program over the ReadRune / UnreadRune interface (the lexer is one: all its input
    goes through read() / unread()), every source and every interpreter state: replacing the text
    beyond the inspected prefix by anything else changes neither the result, nor the outputs
    (tokens, comments, errors, here-document bodies), nor the final reader position.  Hence the
    parse of a command in a stream equals the parse of its text alone, and the next call starts
    where this one stopped. *)
Theorem C07_prefix_locality :
  forall (O A : Type) (p : prog O A) (s1 s2 : source) (st : rstate),
    agree (hiwater (snd (run p s1 st))) s1 s2 -> run p s2 st = run p s1 st.
Proof. exact prefix_locality. Qed.
Print Assumptions C07_prefix_locality.

(** The reader is never positioned beyond what was inspected (look-ahead is undone by unread). *)
Theorem C07_cursor_within_inspected :
  forall (O A : Type) (p : prog O A) (s : source) (st : rstate),
    (cursor st <= hiwater st)%nat -> (cursor (snd (run p s st)) <= hiwater (snd (run p s st)))%nat.
Proof. exact cursor_le_hiwater. Qed.
Print Assumptions C07_cursor_within_inspected.

(** Not proved here (decided by the stream check on the implementation): that the lexer stops
    exactly after the terminating newline of a complete command (it needs the lexer model). *)
