(** C07 — One call consumes exactly one complete command from the stream. *)
From GoSh Require Import Base.Bytes Lex.Eff.

(** For every program over the ReadRune / UnreadRune interface (the lexer is one: all its input
    goes through read() / unread()), every source and every interpreter state: replacing the text
    beyond the inspected prefix by anything else changes neither the result, nor the outputs
    (tokens, comments, errors, here-document bodies), nor the final reader position.  Hence the
    parse of a command in a stream equals the parse of its text alone, and the next call starts
    where this one stopped. *)
Theorem C07_prefix_locality :
  forall (O A : Type) (p : prog O A) (s1 s2 : source) (st : rstate),
    agree (hiwater (snd (run p s1 st))) s1 s2 -> run p s2 st = run p s1 st.
Proof. exact prefix_locality. Qed.
Print Assumptions C07_prefix_locality.

(** The reader is never positioned beyond what was inspected (look-ahead is undone by unread). *)
Theorem C07_cursor_within_inspected :
  forall (O A : Type) (p : prog O A) (s : source) (st : rstate),
    (cursor st <= hiwater st)%nat -> (cursor (snd (run p s st)) <= hiwater (snd (run p s st)))%nat.
Proof. exact cursor_le_hiwater. Qed.
Print Assumptions C07_cursor_within_inspected.

(** Two successive calls on one reader (each call a fresh lexer, which never unreads before it has
    read): for every pair of programs and every text, the second call gives what the same program
    gives on the text that begins where the first call stopped -- same result, same outputs
    (tokens, comments, errors) -- and it stops at the corresponding place.  With prefix locality:
    the sequence of results over a stream equals parsing each command's text on its own. *)
Theorem C07_successive_calls :
  forall (O A B : Type) (p : prog O A) (q : prog O B) (rs : list rune),
    let s := mkSource rs None in
    let '(a, os, st1) := run p s r0 in
    let '(b, os2, st2) := run q s (fresh st1) in
    let '(b', os2', st2') := run q (mkSource (skipn (cursor st1) rs) None) r0 in
    b = b' /\ os2 = os2' /\ cursor st2 = (cursor st2' + cursor st1)%nat.
Proof. exact (@successive_calls). Qed.
Print Assumptions C07_successive_calls.

(** Sequencing: running one program after another is running them in turn on the same reader. *)
Theorem C07_sequencing :
  forall (O A B : Type) (m : prog O A) (f : A -> prog O B) (s : source) (st : rstate),
    run (bind m f) s st =
    let '(a, os, st1) := run m s st in let '(b, os2, st2) := run (f a) s st1 in (b, os ++ os2, st2).
Proof. exact (@run_bind). Qed.
Print Assumptions C07_sequencing.

(** Not proved here (decided by the stream check on the implementation): that the lexer stops
    exactly after the terminating newline of a complete command (it needs the lexer model). *)
