(** C09 placeholder *)
From GoSh Require Import Base.Bytes.
