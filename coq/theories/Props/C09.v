(** C09 — Layout is inert: blanks, comments and line continuations do not change meaning.
    Character level: the model of what the scanner does with the text between two tokens
    (Lex/Layout.v: the blank / newline / comment cases of scanRawToken, the line continuation, and
    linebreak()), tied to the lexer on every run by all strings over the layout alphabet in argument
    position and after && || |.  The theorems quantify over every layout of the stated shape and
    every following text.  That the tokens themselves are scanned alike in every layout, and the
    newline-for-semicolon exchange, are decided by the metamorphic checks, not proved. *)
From GoSh Require Import Base.Bytes Lex.Layout.

(** Any mixture of blanks, tabs and backslash-newline between two tokens of a line only separates
    them (or, without a blank, joins them as the continuation of one word); nothing is lost or added. *)
Theorem C09_blanks_and_continuations_only_separate :
  forall l rest, forallb inl_ok l = true -> token_start rest = true ->
    scan_gap (inls_text l ++ rest) = ((if has_blank l then GBlank else GJoin), rest).
Proof. exact inline_layout_inert. Qed.
Print Assumptions C09_blanks_and_continuations_only_separate.

(** A comment before the newline, any number of blank lines and comment lines after it, and the
    indentation of the next line end the line and are returned once, in order, with their text. *)
Theorem C09_comment_and_blank_lines_end_the_line :
  forall l c ls bs rest,
    forallb inl_ok l = true -> forallb (fun x => negb (x =? 10)%N) c = true ->
    forallb lline_ok ls = true -> forallb is_blank bs = true -> line_start rest = true ->
    scan_gap (inls_text l ++ 35%N :: c ++ 10%N :: llines_text ls ++ bs ++ rest) = (GLine (c :: llines_comments ls), rest).
Proof. exact line_layout_inert. Qed.
Print Assumptions C09_comment_and_blank_lines_end_the_line.

Theorem C09_blank_lines_are_skipped :
  forall l ls bs rest,
    forallb inl_ok l = true -> forallb lline_ok ls = true -> forallb is_blank bs = true -> line_start rest = true ->
    scan_gap (inls_text l ++ 10%N :: llines_text ls ++ bs ++ rest) = (GLine (llines_comments ls), rest).
Proof. exact newline_layout_inert. Qed.
Print Assumptions C09_blank_lines_are_skipped.

(** Where the grammar allows a line break (after && || |, after the word and the 'in' of a case,
    after ;; , after the ';' or the name of a for header, after f()): blanks, blank lines, comment
    lines and line continuations, in any order and number, are skipped; the comments are returned,
    each once and in order; the command goes on at the next token. *)
Theorem C09_line_break_after_an_operator :
  forall l rest,
    forallb lbitem_ok l = true -> token_start rest = true ->
    scan_linebreak (lbitems_text l ++ rest) = LOk (lbitems_comments l) rest.
Proof. exact linebreak_layout_inert. Qed.
Print Assumptions C09_line_break_after_an_operator.
