(** C06 placeholder *)
From GoSh Require Import Base.Bytes.
