(** C06 — Results are schedule-independent; nothing races or keeps running after return.
    Theorems about the protocol model (Proto/LTS.v): lexer goroutine = deterministic emitting
    program, parser = deterministic automaton, unbuffered token channel, cancel flag observed
    only at emit / here-document wait, order-independent error slot, join before return. *)
From GoSh Require Import Proto.Confluence Proto.LTS.

(** For every lexer program, every parser automaton and every two complete runs (schedules) from
    the initial configuration: the final configurations are equal -- returned value, error slot,
    here-documents taken, number of tokens delivered. *)
Theorem C06_schedule_independent :
  forall (tok hd res pstate : Type) (pfeed : pstate -> tok -> pout hd pstate) (peof : pstate -> res + err)
         (p : lprog tok) (s0 : pstate) a b,
    steps _ (step tok hd res pstate pfeed peof) (init tok hd res pstate p s0) a ->
    steps _ (step tok hd res pstate pfeed peof) (init tok hd res pstate p s0) b ->
    final _ (step tok hd res pstate pfeed peof) a -> final _ (step tok hd res pstate pfeed peof) b -> a = b.
Proof. exact schedule_independent. Qed.
Print Assumptions C06_schedule_independent.

(** When the call has returned the lexer goroutine has exited, and no step is possible any more
    (nothing touches the reader or the results afterwards). *)
Theorem C06_quiescent_at_return :
  forall (tok hd res pstate : Type) (pfeed : pstate -> tok -> pout hd pstate) (peof : pstate -> res + err)
         (p : lprog tok) (s0 : pstate) c r,
    steps _ (step tok hd res pstate pfeed peof) (init tok hd res pstate p s0) c ->
    cP _ _ _ _ c = PRet _ _ _ r ->
    cL _ _ _ _ c = LExit _ /\ final _ (step tok hd res pstate pfeed peof) c.
Proof. exact quiescent_at_return. Qed.
Print Assumptions C06_quiescent_at_return.

(** Once an error has been reported (cancel set) no token is delivered any more, whatever the
    interleaving: emit's choice between "send" and "bail out" is never a coin toss. *)
Theorem C06_no_delivery_after_cancel :
  forall (tok hd res pstate : Type) (pfeed : pstate -> tok -> pout hd pstate) (peof : pstate -> res + err)
         (p : lprog tok) (s0 : pstate) c c',
    steps _ (step tok hd res pstate pfeed peof) (init tok hd res pstate p s0) c ->
    step tok hd res pstate pfeed peof c c' -> cancel _ _ _ _ c = true ->
    delivered _ _ _ _ c' = delivered _ _ _ _ c.
Proof. exact no_delivery_after_cancel. Qed.
Print Assumptions C06_no_delivery_after_cancel.

(** Not expressible in this model (named, not proved): the Go memory model (data races are observed
    with the race detector), fairness of the runtime scheduler, a caller's ReadRune that blocks. *)
