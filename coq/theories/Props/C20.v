(** C20 — Variable store is a map with read-only specials; only assignments change it.
    This file holds only property theorems, each closed by [exact] of a lemma proved elsewhere. *)
From GoSh Require Import Base.Bytes Base.Outcome Store.Env Store.EnvSpec.

(** Every history of Set/Unset/Get/Walk on the store model is observationally the abstract map:
    the run keeps the representation invariant, commutes with the abstraction, and every Get and
    Walk observation is the one the map [name -> last value set] gives (Walk: exactly the live
    entries, each once). *)
Theorem C20_store_refines_map :
  forall ops e a, wf e -> aeq (absS e) a ->
    wf (fst (run e ops)) /\ aeq (absS (fst (run e ops))) (fst (arun a ops)) /\
    Forall2 obs_match (snd (run e ops)) (snd (arun a ops)).
Proof. exact run_refines. Qed.
Print Assumptions C20_store_refines_map.

(** Special and positional parameters cannot be changed through Set: the environment is untouched. *)
Theorem C20_set_reserved_is_identity :
  forall e n v, reserved n = true -> set_var e n v = e.
Proof. exact set_reserved_id. Qed.
Print Assumptions C20_set_reserved_is_identity.

(** Their values are a function of Args/Opts alone (never of the map). *)
Theorem C20_specials_reflect_args_opts :
  forall e e' n, synthesised n = true -> args e = args e' -> opts e = opts e' -> pid e = pid e' ->
    get e n = get e' n.
Proof. exact get_synth_indep. Qed.
Print Assumptions C20_specials_reflect_args_opts.

Theorem C20_synthesised_names_are_reserved :
  forall n, synthesised n = true -> reserved n = true.
Proof. exact synthesised_reserved. Qed.
Print Assumptions C20_synthesised_names_are_reserved.

(** Non-vacuity: the initial environment of the correspondence harness meets the hypotheses. *)
Example C20_init_wf : wf (mkEnv [[115; 104]] 0 0 [([73; 70; 83], [32; 9; 10])]).
Proof. unfold wf, keys_distinct; cbn. constructor; [intros []|constructor]. Qed.
