(** C20 — Variable store is a map with read-only specials; only assignments change it.
    This file holds only property theorems, each closed by [exact] of a lemma proved elsewhere. *)
From GoSh Require Import Base.Bytes Base.Outcome Store.Env Store.EnvSpec.

(** Every history of Set/Unset/Get/Walk on the store model is observationally the abstract map:
    the run keeps the representation invariant, commutes with the abstraction, and every Get and
    Walk observation is the one the map [name -> last value set] gives (Walk: exactly the live
    entries, each once). *)
Theorem C20_store_refines_map :
  forall ops e a, wf e -> aeq (absS e) a ->
    wf (fst (run e ops)) /\ aeq (absS (fst (run e ops))) (fst (arun a ops)) /\
    Forall2 obs_match (snd (run e ops)) (snd (arun a ops)).
Proof. exact run_refines. Qed.
Print Assumptions C20_store_refines_map.

(** Special and positional parameters cannot be changed through Set: the environment is untouched. *)
Theorem C20_set_reserved_is_identity :
  forall e n v, reserved n = true -> set_var e n v = e.
Proof. exact set_reserved_id. Qed.
Print Assumptions C20_set_reserved_is_identity.

(** Their values are a function of Args/Opts alone (never of the map). *)
Theorem C20_specials_reflect_args_opts :
  forall e e' n, synthesised n = true -> args e = args e' -> opts e = opts e' -> pid e = pid e' ->
    get e n = get e' n.
Proof. exact get_synth_indep. Qed.
Print Assumptions C20_specials_reflect_args_opts.

Theorem C20_synthesised_names_are_reserved :
  forall n, synthesised n = true -> reserved n = true.
Proof. exact synthesised_reserved. Qed.
Print Assumptions C20_synthesised_names_are_reserved.

(** Non-vacuity: the initial environment of the correspondence harness meets the hypotheses. *)
Example C20_init_wf : wf (mkEnv [[115; 104]] 0 0 [([73; 70; 83], [32; 9; 10])]).
Proof. unfold wf, keys_distinct; cbn. constructor; [intros []|constructor]. Qed.

(** Expand never modifies Args, Opts (nor the pid oracle): whatever the word, the mode, the
    pathname-expansion oracle and the environment, the environment that comes back -- with the
    fields or with an error -- has the same Args and Opts.  (Expand works on the model of
    interp/expand.go, compared with ExecEnv.Expand on every run: store, Args and Opts after each
    call of the histories.) *)
From GoSh Require Import Arith.ASyntax Arith.AEval Arith.AProofs Expand.Expand Expand.Frame.
Theorem C20_expand_keeps_args_opts :
  forall users glob e w m,
    match expand_top users glob e w m with
    | Ok (e', _) | Err (e', _) => args e' = args e /\ opts e' = opts e /\ pid e' = pid e
    | _ => True
    end.
Proof. intros users glob e w m. pose proof (expand_top_keeps users glob e w m) as H. destruct (expand_top users glob e w m) as [[e' r]|[e' x]| |]; exact H. Qed.
Print Assumptions C20_expand_keeps_args_opts.

(** Eval changes the store only at the names under = op= ++ -- of the expression that was parsed,
    and never Args or Opts. *)
Theorem C20_eval_changes_only_assigned_names :
  forall a e, same_except (mods a) e (fst (eval_i e a)).
Proof. exact eval_i_frame. Qed.
Print Assumptions C20_eval_changes_only_assigned_names.

Theorem C20_eval_keeps_args_opts :
  forall e src, args (fst (eval_model e src)) = args e /\ opts (fst (eval_model e src)) = opts e /\ pid (fst (eval_model e src)) = pid e.
Proof. exact eval_model_keeps. Qed.
Print Assumptions C20_eval_keeps_args_opts.
