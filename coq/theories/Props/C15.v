(** C15 — Quoted text survives parsing and expansion unchanged. *)
From GoSh Require Import Base.Bytes Base.Outcome Store.Env Expand.Expand Lex.Quote Lex.QuoteProofs.

(** For every rune string s written under one of the POSIX literal quotings, every text that
    follows the word (end of input, blank or operator), every environment (IFS, HOME, positional
    parameters, variables -- all universally quantified inside [e]) and every expansion mode that
    consults no pathname oracle (Literal, Pattern, Arith, Quote, or the default mode with noglob):
    the word scanner returns one word, and expanding it yields exactly one field: s itself, or in
    Pattern mode s with the pattern characters escaped.  The store is unchanged. *)
Theorem C15_single_quotes :
  forall users glob s tail f e mode,
    forallb (fun c => negb (c =? 39)%N) s = true -> word_end tail -> mode_ok e mode ->
    exists w, scan_word (S (S f)) (quote_single s ++ tail) [] = Some (w, tail) /\
              expand_top users glob e w mode = Ok (e, [expected mode (encode_all s)]).
Proof. exact roundtrip_single. Qed.
Print Assumptions C15_single_quotes.

Theorem C15_double_quotes :
  forall users glob s tail f e mode,
    word_end tail -> mode_ok e mode ->
    exists w, scan_word (S (S f)) (quote_double s ++ tail) [] = Some (w, tail) /\
              expand_top users glob e w mode = Ok (e, [expected mode (encode_all s)]).
Proof. exact roundtrip_double. Qed.
Print Assumptions C15_double_quotes.

Theorem C15_backslash_each :
  forall users glob s tail f e mode,
    forallb (fun c => negb (c =? 10)%N) s = true -> s <> [] -> word_end tail -> mode_ok e mode -> (length s < f)%nat ->
    exists w, scan_word f (quote_backslash s ++ tail) [] = Some (w, tail) /\
              expand_top users glob e w mode = Ok (e, [expected mode (encode_all s)]).
Proof. exact roundtrip_backslash. Qed.
Print Assumptions C15_backslash_each.

(** Any word made of such quoted parts (the mixed style) expands to the concatenation of their texts. *)
Theorem C15_mixed_parts :
  forall users glob w text e mode,
    word_text w = Some text -> w <> [] -> mode_ok e mode ->
    expand_top users glob e w mode = Ok (e, [expected mode text]).
Proof. exact expand_literal_word. Qed.
Print Assumptions C15_mixed_parts.

(** Not proved: the default mode with pathname expansion enabled (the escaped pattern reaches Glob,
    whose literal fast path returns the same string when such a file exists -- observed by the
    harness with matching files in the working directory); that the escaped text matches only
    itself is C12's denotation of an all-literal pattern. *)
