(** C15 — Quoted text survives parsing and expansion unchanged. *)
From GoSh Require Import Base.Bytes Base.Outcome Store.Env Expand.Expand Lex.Quote Lex.QuoteProofs.
From GoSh Require Import Pattern.Regex Pattern.PCompile Pattern.Glob Pattern.GlobLiteral Expand.QuotedLiteral.
From GoShGen Require Import Extracted.

(** For every rune string s written under one of the POSIX literal quotings, every text that
    follows the word (end of input, blank or operator), every environment (IFS, HOME, positional
    parameters, variables -- all universally quantified inside [e]) and every expansion mode that
    consults no pathname oracle (Literal, Pattern, Arith, Quote, or the default mode with noglob):
    the word scanner returns one word, and expanding it yields exactly one field: s itself, or in
    Pattern mode s with the pattern characters escaped.  The store is unchanged. *)
Theorem C15_single_quotes :
  forall users glob s tail f e mode,
    forallb (fun c => negb (c =? 39)%N) s = true -> word_end tail -> mode_ok e mode ->
    exists w, scan_word (S (S f)) (quote_single s ++ tail) [] = Some (w, tail) /\
              expand_top users glob e w mode = Ok (e, [expected mode (encode_all s)]).
Proof. exact roundtrip_single. Qed.
Print Assumptions C15_single_quotes.

Theorem C15_double_quotes :
  forall users glob s tail f e mode,
    word_end tail -> mode_ok e mode ->
    exists w, scan_word (S (S f)) (quote_double s ++ tail) [] = Some (w, tail) /\
              expand_top users glob e w mode = Ok (e, [expected mode (encode_all s)]).
Proof. exact roundtrip_double. Qed.
Print Assumptions C15_double_quotes.

Theorem C15_backslash_each :
  forall users glob s tail f e mode,
    forallb (fun c => negb (c =? 10)%N) s = true -> s <> [] -> word_end tail -> mode_ok e mode -> (length s < f)%nat ->
    exists w, scan_word f (quote_backslash s ++ tail) [] = Some (w, tail) /\
              expand_top users glob e w mode = Ok (e, [expected mode (encode_all s)]).
Proof. exact roundtrip_backslash. Qed.
Print Assumptions C15_backslash_each.

(** Any word made of such quoted parts (the mixed style) expands to the concatenation of their texts. *)
Theorem C15_mixed_parts :
  forall users glob w text e mode,
    word_text w = Some text -> w <> [] -> mode_ok e mode ->
    expand_top users glob e w mode = Ok (e, [expected mode text]).
Proof. exact expand_literal_word. Qed.
Print Assumptions C15_mixed_parts.

(** "In Pattern mode its characters are escaped so that they match only themselves": what Pattern mode
    yields for quoted text is [esc_pattern text] (the theorems above, [expected]); the set of escaped
    characters is read from the source ([Extracted.pattern_escaped]).  For every rune string the
    pattern compiler turns the escaped text into literal items only, one per character, in order
    ([esc_runes] is [esc_pattern] on runes); and a bracket expression whose content is quoted text
    compiles to one class whose members are exactly the characters of the text -- no range, no
    negation, no early end.  The matcher's behaviour on literal items and classes is C12. *)
Theorem C15_pattern_text_is_literal :
  forall s f g, (length s <= f)%nat ->
    exists l, citems f g (esc_runes s) = COk l /\ map fst l = map RLit s.
Proof. exact quoted_is_literal. Qed.
Print Assumptions C15_pattern_text_is_literal.

Theorem C15_quoted_in_bracket_is_member :
  forall s g f rest, s <> [] -> (0 < f)%nat ->
    citems f g (91 :: esc_runes s ++ 93 :: rest) =
    match citems (f - 1) g rest with
    | COk l => COk ((RClass false (map CChar s), 91 :: txt (emit s ++ [93])) :: l)
    | CErr => CErr
    | CUnmodelled => CUnmodelled
    end.
Proof. exact quoted_in_bracket. Qed.
Print Assumptions C15_quoted_in_bracket_is_member.

Theorem C15_bracket_members_are_the_text :
  forall s c, existsb (fun ci => citem_matches ci c) (map CChar s) = memb c s.
Proof. exact quoted_class_members. Qed.
Print Assumptions C15_bracket_members_are_the_text.

(** The same for the pattern text itself (bytes), when the quoted text is ASCII. *)
Theorem C15_ascii_pattern_text_is_literal :
  forall s g, ascii s = true ->
    exists l, compile1 g (esc_pattern s) = COk l /\ map fst l = map RLit s.
Proof. exact quoted_ascii_is_literal. Qed.
Print Assumptions C15_ascii_pattern_text_is_literal.

Theorem C15_ascii_quoted_in_bracket :
  forall s g, ascii s = true -> s <> [] ->
    compile1 g (91 :: esc_pattern s ++ [93]) = COk [(RClass false (map CChar s), 91 :: txt (emit s ++ [93]))].
Proof. exact quoted_ascii_in_bracket. Qed.
Print Assumptions C15_ascii_quoted_in_bracket.

(** the premises are met by texts made of the very characters that needed the repair (X65) *)
Example C15_bracket_witness :
  compile1 true (91 :: esc_pattern [93; 45; 33; 94; 97] ++ [93]) = COk [(RClass false [CChar 93; CChar 45; CChar 33; CChar 94; CChar 97], [91; 92; 93; 92; 45; 92; 33; 92; 94; 97; 93])].
Proof. vm_compute. reflexivity. Qed.

(** The default mode with pathname expansion enabled (no noglob), for ASCII text: the pattern that
    reaches Glob consists of literal components only; for every file-system tree and working
    directory the model of Glob (proved exact against the specification of pathname expansion in
    C16) returns nothing or exactly the text, so the field is the text whatever files exist. *)
Theorem C15_glob_of_quoted_text :
  forall root cwd s, ascii s = true ->
    glob_model root cwd (esc_pattern s) = GOk [] \/ glob_model root cwd (esc_pattern s) = GOk [s].
Proof. exact glob_quoted. Qed.
Print Assumptions C15_glob_of_quoted_text.

Theorem C15_mixed_parts_any_mode :
  forall users root cwd w text e mode,
    word_text w = Some text -> w <> [] -> ascii text = true ->
    expand_top users (glob_oracle root cwd) e w mode = Ok (e, [expected mode text]).
Proof. exact quoted_word_any_mode. Qed.
Print Assumptions C15_mixed_parts_any_mode.

Theorem C15_single_quotes_any_mode :
  forall users root cwd s tail f e mode,
    forallb (fun c => negb (c =? 39)%N) s = true -> word_end tail -> ascii (encode_all s) = true ->
    exists w, scan_word (S (S f)) (quote_single s ++ tail) [] = Some (w, tail) /\
              expand_top users (glob_oracle root cwd) e w mode = Ok (e, [expected mode (encode_all s)]).
Proof. exact roundtrip_single_fs. Qed.
Print Assumptions C15_single_quotes_any_mode.

Theorem C15_double_quotes_any_mode :
  forall users root cwd s tail f e mode,
    word_end tail -> ascii (encode_all s) = true ->
    exists w, scan_word (S (S f)) (quote_double s ++ tail) [] = Some (w, tail) /\
              expand_top users (glob_oracle root cwd) e w mode = Ok (e, [expected mode (encode_all s)]).
Proof. exact roundtrip_double_fs. Qed.
Print Assumptions C15_double_quotes_any_mode.

Theorem C15_backslash_each_any_mode :
  forall users root cwd s tail f e mode,
    forallb (fun c => negb (c =? 10)%N) s = true -> s <> [] -> word_end tail -> ascii (encode_all s) = true -> (length s < f)%nat ->
    exists w, scan_word f (quote_backslash s ++ tail) [] = Some (w, tail) /\
              expand_top users (glob_oracle root cwd) e w mode = Ok (e, [expected mode (encode_all s)]).
Proof. exact roundtrip_backslash_fs. Qed.
Print Assumptions C15_backslash_each_any_mode.

(** Not proved: pathname expansion of quoted text that is not ASCII (the decoding of the pattern
    bytes into runes, syms_of, is covered by the correspondence check; observed by the harness with
    matching files in the working directory); that a sequence of literal items matches only the
    text itself is C12's denotation. *)
