(** C15 placeholder *)
From GoSh Require Import Base.Bytes.
