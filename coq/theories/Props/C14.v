(** C14 — Field splitting cuts exactly at unquoted IFS characters and never inside quotes. *)
From GoSh Require Import Base.Bytes Base.Outcome Store.Env Expand.Expand Expand.Spec Expand.SplitProofs Expand.SplitRefine.

(** Full statement on the model: for every IFS value and every field (valid UTF-8 or not),
    splitting with expand.go's state machine (byte offsets, ws flag, trailing-field rule), dropping
    the empty unquoted pieces and removing quotes gives exactly the pieces obtained by cutting at
    every unquoted IFS character and keeping those that contain a character or a quoted part
    ([split_spec], written from the property text): quoted text is never cut, a quoted part always
    contributes, no character is lost or reordered, no unquoted IFS character survives.
    The model is compared with ExecEnv.Expand on every run (exhaustive words of <= 4 (quick) / 6
    (thorough) segments x IFS settings, invalid UTF-8 included). *)
Theorem C14_split_refines_spec :
  forall e f, split_model e f = Ok (split_spec (ifs_value e) f).
Proof. exact split_refines_spec. Qed.
Print Assumptions C14_split_refines_spec.

(** Corollaries kept from earlier rounds. *)
Theorem C14_partial_quoted_text_is_never_cut :
  forall e f, all_quoted f = true -> f <> [] -> split_field e f = Ok [f].
Proof. exact quoted_never_split. Qed.
Print Assumptions C14_partial_quoted_text_is_never_cut.

Theorem C14_partial_empty_ifs_disables_splitting :
  forall e f, ifs_value e = [] -> split_field e f = Ok [f].
Proof. exact empty_ifs_no_split. Qed.
Print Assumptions C14_partial_empty_ifs_disables_splitting.
