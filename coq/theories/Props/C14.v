(** C14 — placeholder until the splitter theorem is in place. *)
From GoSh Require Import Base.Bytes Expand.Expand Expand.Spec.
