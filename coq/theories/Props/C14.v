(** C14 — Field splitting cuts exactly at unquoted IFS characters and never inside quotes. *)
From GoSh Require Import Base.Bytes Base.Outcome Store.Env Expand.Expand Expand.Spec Expand.SplitProofs.

(** Full statement on the model: for every IFS value and every field whose unquoted text is valid
    UTF-8, splitting, dropping the empty unquoted pieces and removing quotes gives exactly the
    pieces obtained by cutting at every unquoted IFS character and keeping those that contain a
    character or a quoted part ([split_spec], written from the property text).
    Kept in full; decided on every run by the oracle on the implementation's answers and by the
    model correspondence (exhaustive words of <= 4 (quick) / 6 (thorough) segments x 7 IFS settings). *)
Definition C14_split_refines_spec_statement : Prop :=
  forall e f, split_model e f = Ok (split_spec (ifs_value e) f).

(** Proved so far. *)
Theorem C14_partial_quoted_text_is_never_cut :
  forall e f, all_quoted f = true -> f <> [] -> split_field e f = Ok [f].
Proof. exact quoted_never_split. Qed.
Print Assumptions C14_partial_quoted_text_is_never_cut.

Theorem C14_partial_empty_ifs_disables_splitting :
  forall e f, ifs_value e = [] -> split_field e f = Ok [f].
Proof. exact empty_ifs_no_split. Qed.
Print Assumptions C14_partial_empty_ifs_disables_splitting.
