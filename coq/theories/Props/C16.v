(** C16 — Pathname expansion returns exactly the existing matching paths, in sorted order. *)
From GoSh Require Import Base.Bytes Pattern.Regex Pattern.PCompile Pattern.Match Pattern.PSpec Pattern.Glob Pattern.GlobProofs Pattern.GlobExact.
From Coq Require Import Permutation.

(** Full statement on the model over an abstract file system (tree of files, directories and
    dangling symlinks, names without a separator): whatever the pattern and the working directory,
    when Glob returns paths they are exactly the specification's list -- the existing paths that
    match component by component ([pmb], the denotation of C12), hidden names only for a component
    that starts with a literal period, directories only before a separator, repeated and escaped
    separators kept as written -- in ascending byte order, each once.
    (Glob sorts after every component and stops early on an empty intermediate result; the
    specification filters everything and sorts once.)
    The model is compared with pattern.Glob on materialised trees on every run, and the extracted
    [glob_spec] is evaluated on the implementation's own answers. *)
Theorem C16_glob_exact :
  forall root cwd pattern paths, wf_dir root ->
    glob_model root cwd pattern = GOk paths -> glob_spec root cwd pattern = Some paths.
Proof. intros root cwd pattern paths Hwf. exact (glob_exact root cwd Hwf pattern paths). Qed.
Print Assumptions C16_glob_exact.

(** Non-vacuity: a tree with a hidden entry, a file and two directories; "*/?*" and ".*". *)
Example C16_witness :
  let d1 := Dir [([120]%N, File); ([46; 104]%N, File)] in
  let root := [([98; 45]%N, d1); ([98]%N, Dir [([121]%N, File)]); ([102]%N, File); ([46; 99]%N, Dir [])] in
  wf_dir root /\
  glob_model root [] [47; 42; 47; 63; 42]%N = GOk [[47; 98; 45; 47; 120]; [47; 98; 47; 121]]%N /\
  glob_model root [] [46; 42]%N = GOk [[46]; [46; 46]; [46; 99]]%N.
Proof. vm_compute. repeat split. Qed.

(** Kept from earlier rounds: the sorting step of the model (sort.Strings after every component) yields an
    ascending permutation, so results are in ascending byte order without loss or duplication. *)
Theorem C16_partial_sort_ascending : forall l, ascending (sort_bytes l).
Proof. exact sort_bytes_ascending. Qed.
Print Assumptions C16_partial_sort_ascending.

Theorem C16_partial_sort_permutation : forall l, Permutation l (sort_bytes l).
Proof. exact sort_bytes_permutation. Qed.
Print Assumptions C16_partial_sort_permutation.
