(** C16 — Pathname expansion returns exactly the existing matching paths, in sorted order. *)
From GoSh Require Import Base.Bytes Pattern.Regex Pattern.PCompile Pattern.Match Pattern.PSpec Pattern.Glob Pattern.GlobProofs.
From Coq Require Import Permutation.

(** Full statement on the model over an abstract file system (tree of files, directories and
    dangling symlinks): Glob returns exactly the specification's path list (existing paths that
    match component by component, hidden-name rule, directories only before a separator, sorted).
    Stated in full, NOT yet proved; decided on every run by evaluating [glob_spec] (extracted) on
    the implementation's answers over materialised random trees and by model correspondence. *)
Definition C16_glob_exact_statement : Prop :=
  forall root cwd pattern paths,
    glob_model root cwd pattern = GOk paths -> glob_spec root cwd pattern = Some paths.

(** Proved: the sorting step of the model (sort.Strings after every component) yields an
    ascending permutation, so results are in ascending byte order without loss or duplication. *)
Theorem C16_partial_sort_ascending : forall l, ascending (sort_bytes l).
Proof. exact sort_bytes_ascending. Qed.
Print Assumptions C16_partial_sort_ascending.

Theorem C16_partial_sort_permutation : forall l, Permutation l (sort_bytes l).
Proof. exact sort_bytes_permutation. Qed.
Print Assumptions C16_partial_sort_permutation.
