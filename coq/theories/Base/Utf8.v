(** UTF-8: decoding what was encoded gives the character back, with its encoded length (utf8.DecodeRune
    after utf8.EncodeRune / AppendRune), for every Unicode scalar value and whatever follows. *)
From GoSh Require Import Base.Bytes.
From Coq Require Import Bool ZArith NArith Lia ZifyBool ZifyN List.
Import ListNotations.
Open Scope N_scope.

Definition scalar (r : rune) : bool := (r <? 55296) || ((57343 <? r) && (r <=? 1114111)).

Ltac Zify.zify_post_hook ::= Z.div_mod_to_equations.
Local Ltac blia := lia.

Local Ltac decide_if :=
  match goal with
  | |- context [if ?b then _ else _] =>
    lazymatch b with context [if _ then _ else _] => fail | _ => idtac end;
    first [ let H := fresh in assert (H : b = true) by blia; rewrite H; clear H
          | let H := fresh in assert (H : b = false) by blia; rewrite H; clear H ]
  end.

Local Ltac split_if :=
  match goal with
  | |- context [if ?b then _ else _] =>
    lazymatch b with context [if _ then _ else _] => fail | _ => idtac end;
    destruct b eqn:?
  end.
Local Ltac ifs := repeat first [decide_if | split_if].

Lemma decode_encode r t : scalar r = true -> decode_rune (encode_rune r ++ t) = (r, rune_len r).
Proof.
  intros Hs. unfold scalar in Hs. unfold rune_len, encode_rune.
  destruct (r <? 128) eqn:E1.
  { cbn [app length]. unfold decode_rune. rewrite E1. reflexivity. }
  destruct (r <? 2048) eqn:E2.
  { cbn [app length]. unfold decode_rune, is_cont. ifs; f_equal; blia. }
  assert (E3 : ((55296 <=? r) && (r <=? 57343) || (1114111 <? r)) = false) by blia.
  rewrite E3.
  destruct (r <? 65536) eqn:E4.
  { cbn [app length]. unfold decode_rune, is_cont. ifs; f_equal; blia. }
  cbn [app length]. unfold decode_rune, is_cont. ifs; f_equal; blia.
Qed.

(** ranging over an encoded text yields its characters, each with its encoded length *)
Lemma skipn_app_exact {A} (a b : list A) : skipn (length a) (a ++ b) = b.
Proof. induction a as [|x a IH]; [reflexivity|exact IH]. Qed.

Lemma encode_rune_nonempty r : encode_rune r <> [].
Proof.
  unfold encode_rune. destruct (r <? 128); [discriminate|]. destruct (r <? 2048); [discriminate|].
  destruct ((55296 <=? r) && (r <=? 57343) || (1114111 <? r)); [discriminate|]. destruct (r <? 65536); discriminate.
Qed.

Lemma decode_all_fuel_step f s : s <> [] ->
  decode_all_fuel (S f) s = (let '(r, w) := decode_rune s in (r, w) :: decode_all_fuel f (skipn w s)).
Proof. destruct s; [congruence|reflexivity]. Qed.

Lemma decode_all_fuel_encode rs : forall fuel,
  forallb scalar rs = true -> (length (encode_all rs) <= fuel)%nat ->
  decode_all_fuel fuel (encode_all rs) = map (fun r => (r, rune_len r)) rs.
Proof.
  induction rs as [|r rs IH]; intros fuel Hs Hf.
  - destruct fuel; reflexivity.
  - cbn [forallb] in Hs. apply andb_true_iff in Hs as [Hr Hs].
    cbn [encode_all flat_map] in *. fold (encode_all rs) in *. rewrite app_length in Hf.
    pose proof (encode_rune_nonempty r) as Hne.
    assert (Hl : (1 <= length (encode_rune r))%nat) by (destruct (encode_rune r); [congruence|cbn; lia]).
    destruct fuel as [|fuel]; [lia|].
    rewrite decode_all_fuel_step by (destruct (encode_rune r); [congruence|discriminate]).
    rewrite (decode_encode r (encode_all rs) Hr). unfold rune_len. rewrite skipn_app_exact.
    cbn [map]. f_equal. apply IH; [exact Hs|lia].
Qed.

Theorem decode_all_encode rs : forallb scalar rs = true ->
  decode_all (encode_all rs) = map (fun r => (r, rune_len r)) rs.
Proof. intros H. unfold decode_all. apply decode_all_fuel_encode; [exact H|lia]. Qed.

Corollary runes_of_encoded rs : forallb scalar rs = true -> map fst (decode_all (encode_all rs)) = rs.
Proof. intros H. rewrite (decode_all_encode rs H), map_map. cbn [fst]. apply map_id. Qed.

Corollary rune_count_encoded rs : forallb scalar rs = true -> rune_count (encode_all rs) = length rs.
Proof. intros H. unfold rune_count. rewrite (decode_all_encode rs H). apply map_length. Qed.
