(** Go strings as byte lists; runes; UTF-8 decoding as in unicode/utf8. *)
From Coq Require Export List NArith ZArith Bool Lia.
Export ListNotations.
Open Scope N_scope.

(* plain aliases: notations, so that terms mentioning them are syntactically the underlying types *)
Notation byte := N (only parsing).
Notation bytes := (list N) (only parsing).
Notation rune := N (only parsing).

Fixpoint beqb (a b : bytes) : bool :=
  match a, b with
  | [], [] => true
  | x :: a', y :: b' => N.eqb x y && beqb a' b'
  | _, _ => false
  end.

Lemma beqb_spec a b : reflect (a = b) (beqb a b).
Proof.
  revert b; induction a as [|x a IH]; intros [|y b]; cbn; try (constructor; congruence).
  destruct (N.eqb_spec x y) as [->|Hn]; cbn.
  - destruct (IH b) as [->|Hn]; constructor; congruence.
  - constructor; congruence.
Qed.

Lemma beqb_refl a : beqb a a = true.
Proof. destruct (beqb_spec a a); congruence. Qed.

Lemma beqb_eq a b : beqb a b = true <-> a = b.
Proof. destruct (beqb_spec a b); split; congruence. Qed.

Lemma beqb_neq a b : beqb a b = false <-> a <> b.
Proof. destruct (beqb_spec a b); split; congruence. Qed.

(** lexicographic byte order (Go's string <) *)
Fixpoint bltb (a b : bytes) : bool :=
  match a, b with
  | [], [] => false
  | [], _ :: _ => true
  | _ :: _, [] => false
  | x :: a', y :: b' => if N.ltb x y then true else if N.eqb x y then bltb a' b' else false
  end.

Definition bleb (a b : bytes) : bool := negb (bltb b a).

(** membership *)
Fixpoint memb (x : N) (l : list N) : bool :=
  match l with [] => false | y :: l' => N.eqb x y || memb x l' end.

Lemma memb_In x l : memb x l = true <-> In x l.
Proof.
  induction l as [|y l IH]; cbn; [intuition congruence|].
  rewrite orb_true_iff, IH, N.eqb_eq. intuition congruence.
Qed.

(** prefix test and dropping *)
Fixpoint has_prefix (p s : bytes) : bool :=
  match p, s with
  | [], _ => true
  | x :: p', y :: s' => N.eqb x y && has_prefix p' s'
  | _ :: _, [] => false
  end.

(** * UTF-8, transcribed from unicode/utf8.DecodeRuneInString.
    Result: (rune, width); (RuneError,0) on empty, (RuneError,1) on invalid. *)
Definition RuneError : rune := 65533.

Definition is_cont (b : byte) : bool := (128 <=? b) && (b <=? 191).

Definition decode_rune (s : bytes) : rune * nat :=
  match s with
  | [] => (RuneError, 0%nat)
  | b0 :: t =>
    if b0 <? 128 then (b0, 1%nat)
    else if b0 <? 194 then (RuneError, 1%nat)
    else if b0 <? 224 then
      match t with
      | b1 :: _ => if is_cont b1 then ((b0 - 192) * 64 + (b1 - 128), 2%nat) else (RuneError, 1%nat)
      | _ => (RuneError, 1%nat)
      end
    else if b0 <? 240 then
      match t with
      | b1 :: b2 :: _ =>
        let lo := if b0 =? 224 then 160 else 128 in
        let hi := if b0 =? 237 then 159 else 191 in
        if (lo <=? b1) && (b1 <=? hi) && is_cont b2
        then ((b0 - 224) * 4096 + (b1 - 128) * 64 + (b2 - 128), 3%nat)
        else (RuneError, 1%nat)
      | _ => (RuneError, 1%nat)
      end
    else if b0 <? 245 then
      match t with
      | b1 :: b2 :: b3 :: _ =>
        let lo := if b0 =? 240 then 144 else 128 in
        let hi := if b0 =? 244 then 143 else 191 in
        if (lo <=? b1) && (b1 <=? hi) && is_cont b2 && is_cont b3
        then ((b0 - 240) * 262144 + (b1 - 128) * 4096 + (b2 - 128) * 64 + (b3 - 128), 4%nat)
        else (RuneError, 1%nat)
      | _ => (RuneError, 1%nat)
      end
    else (RuneError, 1%nat)
  end.

(** utf8.EncodeRune / AppendRune (surrogates and out-of-range become RuneError) *)
Definition encode_rune (r : rune) : bytes :=
  if r <? 128 then [r]
  else if r <? 2048 then [192 + r / 64; 128 + r mod 64]
  else if ((55296 <=? r) && (r <=? 57343)) || (1114111 <? r) then [239; 191; 189]
  else if r <? 65536 then [224 + r / 4096; 128 + (r / 64) mod 64; 128 + r mod 64]
  else [240 + r / 262144; 128 + (r / 4096) mod 64; 128 + (r / 64) mod 64; 128 + r mod 64].

Definition rune_len (r : rune) : nat := length (encode_rune r).

(** `for j, r := range s`: the runes with their widths, fuelled by length. *)
Fixpoint decode_all_fuel (fuel : nat) (s : bytes) : list (rune * nat) :=
  match fuel with
  | O => []
  | S f =>
    match s with
    | [] => []
    | _ => let '(r, w) := decode_rune s in (r, w) :: decode_all_fuel f (skipn w s)
    end
  end.
Definition decode_all (s : bytes) : list (rune * nat) := decode_all_fuel (length s) s.

Definition rune_count (s : bytes) : nat := length (decode_all s).

Definition encode_all (rs : list rune) : bytes := flat_map encode_rune rs.

(** decimal rendering (strconv.Itoa on int64) *)
Fixpoint digits_fuel (fuel : nat) (n : N) (acc : bytes) : bytes :=
  match fuel with
  | O => acc
  | S f => let acc' := (48 + n mod 10) :: acc in
           if n <? 10 then acc' else digits_fuel f (n / 10) acc'
  end.
Definition itoa_N (n : N) : bytes := digits_fuel (S (N.to_nat (N.log2 n))) n [].
Definition itoa (z : Z) : bytes :=
  match z with
  | Z0 => [48]
  | Zpos p => itoa_N (Npos p)
  | Zneg p => 45 :: itoa_N (Npos p)
  end.

Definition is_digit (b : byte) : bool := (48 <=? b) && (b <=? 57).

(** strconv.Atoi restricted to all-digit strings, saturating at MaxInt64
    (Atoi returns MaxInt64 with a range error, which callers here ignore). *)
Definition max_int64 : Z := 9223372036854775807.
Definition min_int64 : Z := -9223372036854775808.
Fixpoint atoi_digits (s : bytes) (acc : Z) : Z :=
  match s with
  | [] => acc
  | b :: t => atoi_digits t (Z.min max_int64 (acc * 10 + Z.of_N (b - 48)))
  end.

Definition bytes_of_nat_list := map N.of_nat.
