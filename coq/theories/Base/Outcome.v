(** Panics and errors are values, never totalised away. *)
From Coq Require Import List.
Inductive outcome (A E : Type) : Type :=
| Ok (a : A)
| Err (e : E)
| Panic (site : nat)
| OutOfFuel.
Arguments Ok {A E} a.
Arguments Err {A E} e.
Arguments Panic {A E} site.
Arguments OutOfFuel {A E}.

Definition obind {A B E} (m : outcome A E) (f : A -> outcome B E) : outcome B E :=
  match m with
  | Ok a => f a
  | Err e => Err e
  | Panic s => Panic s
  | OutOfFuel => OutOfFuel
  end.

Definition is_panic {A E} (m : outcome A E) : bool :=
  match m with Panic _ => true | _ => false end.
Definition is_ok {A E} (m : outcome A E) : bool :=
  match m with Ok _ => true | _ => false end.

Notation "x <- m ;; k" := (obind m (fun x => k)) (at level 61, m at next level, right associativity).
Notation "' p <- m ;; k" := (obind m (fun p => k)) (at level 61, p pattern, m at next level, right associativity).
