(** Field splitting: facts proved about the splitter model so far (the full refinement
    [split_model = split_spec] is stated in Props/C14.v). *)
From GoSh Require Import Base.Bytes Base.Outcome Store.Env Expand.Expand Expand.Spec.
Open Scope N_scope.

Definition all_quoted (f : field) : bool := forallb (fun sq : bytes * bool => snd sq) f.

Lemma upd_last_snoc (g : field -> field) (fs : list field) (l : field) : upd_last g (fs ++ [l]) = fs ++ [g l].
Proof. unfold upd_last. rewrite rev_app_distr. cbn. rewrite rev_involutive. reflexivity. Qed.

(** quoted text is never cut: a field made of quoted segments only goes to the current field whole *)
Lemma split_loop_quoted ifs : forall f fs l ws,
  all_quoted f = true ->
  split_loop ifs f (fs ++ [l]) ws = Ok (fs ++ [l ++ f], match f with [] => ws | _ => false end).
Proof.
  induction f as [|[s q] f IH]; intros fs l ws H; cbn in *.
  - rewrite app_nil_r. reflexivity.
  - apply andb_true_iff in H as [Hq Hf]. cbn in Hq. subst q.
    unfold join_last. rewrite upd_last_snoc. rewrite (IH fs (fjoin l s true) false Hf).
    unfold fjoin. rewrite <- app_assoc. cbn. destruct f; reflexivity.
Qed.

Theorem quoted_never_split e f :
  all_quoted f = true -> f <> [] -> split_field e f = Ok [f].
Proof.
  intros Hq Hne. unfold split_field. cbv zeta. destruct (ifs_value e) as [|c ifs]; [reflexivity|].
  pose proof (split_loop_quoted (c :: ifs) f [] [] true Hq) as H. cbn [app] in H. unfold field in *. rewrite H.
  destruct f as [|sq f]; [congruence|]. cbn. reflexivity.
Qed.

(** an empty IFS disables splitting *)
Theorem empty_ifs_no_split e f : ifs_value e = [] -> split_field e f = Ok [f].
Proof. intros H. unfold split_field. cbv zeta. rewrite H. reflexivity. Qed.
