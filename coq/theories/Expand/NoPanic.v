(** The model of Expand never reaches a panic site on words shaped as the parser builds them
    (between single quotes and after a backslash: at most one literal), whatever the environment,
    the mode and the recursion budget. *)
From GoSh Require Import Base.Bytes Base.Outcome Store.Env Store.EnvSpec Arith.ASyntax Arith.AEval Arith.AProofs Arith.ATotal Pattern.Match Expand.Expand Expand.Spec Expand.SplitRefine Expand.Frame.
From Coq Require Import Lia.
Open Scope N_scope.

(** words as the parser builds them: what stands between single quotes or after a backslash is one literal (or nothing) *)
Fixpoint wfp (p : wpart) : bool :=
  match p with
  | WLit _ | WOther => true
  | WQuote tok v =>
    if (tok =? 92) || (tok =? 39) then match v with [] => true | WLit _ :: _ => true | _ :: _ => false end
    else forallb wfp v
  | WParam _ _ None => true
  | WParam _ _ (Some w) => forallb wfp w
  | WArith x => forallb wfp x
  end.
Definition wfw (w : list wpart) : bool := forallb wfp w.

Definition Q {A E} (r : outcome A E) : Prop := match r with Panic _ => False | _ => True end.

Lemma wfw_skipn n w : wfw w = true -> wfw (skipn n w) = true.
Proof.
  revert w; induction n as [|n IH]; intros w H; [exact H|]. destruct w as [|p w]; [reflexivity|].
  cbn [skipn]. apply IH. unfold wfw in *. cbn [forallb] in H. apply andb_true_iff in H. apply H.
Qed.

Lemma after_tilde_wf s rest off col : wfw rest = true -> wfw (snd (after_tilde s rest off col)) = true.
Proof. intros H. unfold after_tilde. destruct off; cbn [snd]; [exact H|apply wfw_skipn, H]. Qed.

Lemma assign_loop_wf users : forall fuel e mode f s rest, wfw rest = true -> wfw (snd (assign_loop fuel e users mode f s rest)) = true.
Proof.
  induction fuel as [|fuel IH]; intros e mode f s rest H; cbn [assign_loop]; [exact H|].
  destruct (index_byte s 58) as [j|]; [|exact H]. cbv zeta.
  match goal with |- context [match ?x with (_, _) => _ end] => destruct x as [s2 rest2] eqn:E1 end.
  assert (H2 : wfw rest2 = true).
  { assert (Ht : forall p r, rest = p :: r -> wfw r = true).
    { intros p r ->. unfold wfw in *. cbn [forallb] in H. apply andb_true_iff in H. apply H. }
    destruct (skipn (S j) s) as [|c0 s0].
    - destruct rest as [|p r]; [inversion E1; subst; exact H|].
      destruct p; inversion E1; subst; exact H.
    - inversion E1; subst. exact H. }
  match goal with |- context [match ?x with (_, _) => _ end] => destruct x as [[off col] f2] end.
  match goal with |- context [match ?x with (_, _) => _ end] => destruct x as [s3 rest3] eqn:E3 end.
  apply IH. pose proof (after_tilde_wf s2 rest2 off col H2) as H3. rewrite E3 in H3. exact H3.
Qed.

Lemma eval_model_nopanic e src : Q (snd (eval_model e src)).
Proof. pose proof (eval_model_total e src) as H. destruct (snd (eval_model e src)); cbn in *; auto. Qed.

Lemma fold_nopanic {A B} (stepf : xres A -> B -> xres A) :
  (forall acc s, Q acc -> Q (stepf acc s)) -> forall l acc, Q acc -> Q (fold_left stepf l acc).
Proof. intros Hs. induction l as [|s l IH]; intros acc Ha; cbn; [exact Ha|]. apply IH, Hs, Ha. Qed.

Section NP.
  Variable users : list (bytes * bytes).

  Lemma nopanic fuel :
    (forall e w m, wfw w = true -> Q (expand users fuel e w m)) /\
    (forall e ws m first fs, wfw ws = true -> Q (expand_parts users fuel e ws m first fs)) /\
    (forall e fs name op word mode, match word with Some w => wfw w = true | None => True end -> Q (expand_param users fuel e fs name op word mode)).
  Proof.
    induction fuel as [|f (IH1 & IH2 & IH3)]; [repeat split; intros; exact I|].
    split; [|split].
    - intros e w m H. cbn [expand]. apply IH2, H.
    - intros e ws m first fs H. cbn [expand_parts]. fold (expand users) (expand_parts users) (expand_param users).
      destruct ws as [|p rest]; [exact I|]. unfold wfw in H. cbn [forallb] in H. apply andb_true_iff in H as [Hp Hr]. fold (wfw rest) in Hr.
      destruct p.
      + (* literal *) cbv zeta.
        assert (H1 : wfw (snd (fst (if first then let '(off, col, f1) := expand_tilde e users (last fs []) s rest m in
                                                 let '(s', rest') := after_tilde s rest off col in (s', rest', f1)
                                    else (s, rest, last fs [])))) = true).
        { destruct first; [|exact Hr]. destruct (expand_tilde e users (last fs []) s rest m) as [[off col] f1].
          pose proof (after_tilde_wf s rest off col Hr) as Ha. destruct (after_tilde s rest off col); exact Ha. }
        destruct (if first then _ else _) as [[s1 rest1] cur1]. cbn [fst snd] in H1.
        assert (H2 : wfw (snd (if mbit m mAssign
                               then assign_loop (S (length s1) + length rest1 + fold_left (fun n w => (n + length (lit_value w))%nat) rest1 0%nat) e users m cur1 s1 rest1
                               else (cur1, s1, rest1))) = true).
        { destruct (mbit m mAssign); [apply assign_loop_wf, H1|exact H1]. }
        destruct (if mbit m mAssign then _ else _) as [[cur2 s2] rest2]. cbn [snd] in H2. apply IH2, H2.
      + (* quote *) cbn [wfp] in Hp.
        destruct ((tok =? 92) || (tok =? 39)).
        * destruct value as [|[] ?]; try discriminate; apply IH2, Hr.
        * destruct (tok =? 34); [|apply IH2, Hr].
          destruct (only_at value && Nat.leb (length (args e)) 1); [apply IH2, Hr|].
          match goal with |- Q (match expand users f ?e ?w ?m with _ => _ end) => pose proof (IH1 e w m Hp) as H1; destruct (expand users f e w m) as [[e1 w1]|[e1 x1]| |] end;
            cbn [Q] in *; try exact I; try contradiction. apply IH2, Hr.
      + (* parameter *)
        match goal with |- Q (match expand_param users f ?e ?a ?b ?c ?d ?m with _ => _ end) =>
          assert (H1 : Q (expand_param users f e a b c d m)) by (apply IH3; destruct d; cbn [wfp] in Hp; [exact Hp|exact I]);
          destruct (expand_param users f e a b c d m) as [[e1 w1]|[e1 x1]| |] end;
          cbn [Q] in *; try exact I; try contradiction. apply IH2, Hr.
      + (* arithmetic *) cbn [wfp] in Hp.
        match goal with |- Q (match expand users f ?e ?w ?m with _ => _ end) => pose proof (IH1 e w m Hp) as H1; destruct (expand users f e w m) as [[e1 w1]|[e1 x1]| |] end;
          cbn [Q] in *; try exact I; try contradiction.
        cbv zeta. pose proof (eval_model_nopanic e1 (funquote (join_all e1 w1))) as H2.
        destruct (eval_model e1 (funquote (join_all e1 w1))) as [e2 [n|k| |]]; cbn [snd Q] in *; try exact I; try contradiction.
        apply IH2, Hr.
      + apply IH2, Hr.
    - (* expandParam *)
      intros e fs name op word mode Hw. cbn [expand_param]. fold (expand users) (expand_parts users) (expand_param users). cbv zeta.
      destruct word as [w|].
      + repeat match goal with
               | |- Q (match expand users f ?e ?w ?m with _ => _ end) =>
                 let H := fresh "HX" in pose proof (IH1 e w m Hw) as H; destruct (expand users f e w m) as [[? ?]|[? ?]| |]; cbn [Q] in H; try contradiction
               | |- Q (match fold_left ?st ?l ?acc with _ => _ end) =>
                 let E := fresh "EF" in
                 assert (E : Q (fold_left st l acc));
                 [apply fold_nopanic; [|exact I]; intros acc0 s0 Ha0; destruct acc0 as [[? ?]|[? ?]| |]; cbn [Q] in *; try exact I; try contradiction;
                  destruct (match_model _ _ _); exact I
                 |destruct (fold_left st l acc) as [[? ?]|[? ?]| |]; cbn [Q] in E; try contradiction]
               | |- Q (match ?x with _ => _ end) => destruct x
               | |- Q (if ?x then _ else _) => destruct x
               end; try exact I.
      + repeat match goal with
               | |- Q (match ?x with _ => _ end) => destruct x
               | |- Q (if ?x then _ else _) => destruct x
               end; try exact I.
  Qed.
End NP.

Section NPTop.
  Variable users : list (bytes * bytes).
  Variable glob : bytes -> option (list bytes).

  Theorem expand_top_nopanic e w m : wfw w = true -> Q (expand_top users glob e w m).
  Proof.
    intros H. unfold expand_top. destruct (quoted_at_only e w m); [exact I|]. pose proof (proj1 (nopanic users (4 * S (word_size w))) e w m H) as H1.
    destruct (expand users (4 * S (word_size w)) e w m) as [[e1 fields]|[e1 x]| |]; cbn [Q] in *; try exact I; try contradiction.
    destruct (mbit m mLiteral); [exact I|]. destruct (mbit m mPattern); [exact I|].
    match goal with |- Q (match fold_left ?st ?l ?acc with _ => _ end) => assert (EF : Q (fold_left st l acc)) end.
    { apply fold_nopanic; [|exact I]. intros acc f Ha. destruct acc as [rv|[ea xa]| |]; cbn [Q] in *; try exact I; try contradiction.
      destruct (mbit m mArith || mbit m mQuote); [exact I|]. destruct (fempty f); [exact I|].
      destruct (split_field_ok e1 f) as [parts ->]. exact I. }
    match goal with |- Q (match ?x with _ => _ end) => destruct x as [rv|[ea xa]| |] end; cbn [Q] in *; try exact I; contradiction.
  Qed.
End NPTop.
