(** The remaining rows of C13: ${p} and $p, ${#p}, the field rules of $@ and $*, and the four
    pattern-removal operators (reduced to C12's denotation through match_model). *)
From GoSh Require Import Base.Bytes Base.Outcome Store.Env Expand.Expand Expand.Spec Expand.ParamProofs.
From GoSh Require Import Pattern.Regex Pattern.PCompile Pattern.Match Pattern.MatchProofs.
From GoShGen Require Import Extracted.
From Coq Require Import Lia.
Open Scope N_scope.

Definition msg_unset : bytes := [112;97;114;97;109;101;116;101;114;32;105;115;32;117;110;115;101;116].

Section More.
  Variable users : list (bytes * bytes).

  (** ${p} / $p outside arithmetic: the value, nothing for a null value, and for an unset parameter
      nothing, or an error under nounset *)
  Theorem param_plain fuel e fs name word mode :
    beqb name s_at = false -> beqb name s_star = false -> mbit mode mArith = false ->
    expand_param users (S fuel) e fs name [] word mode =
    match pstate_of e name with
    | PVal v => Ok (e, join_last fs v (mbit mode mQuote))
    | PNull => Ok (e, fs)
    | PUnset => if opt_bit e Extracted.opt_NoUnset then Err (e, XParam name msg_unset) else Ok (e, fs)
    end.
  Proof.
    intros Hat Hstar Ha. cbn [expand_param]. rewrite Hat, Hstar, Ha. unfold pstate_of.
    destruct (get e name) as [[[n v] set]|x|p|]; [destruct set; [destruct (beqb v []) eqn:Ev|]|..]; cbn; try rewrite Ev; try reflexivity.
  Qed.

  (** ${#p} counts the characters of the value; 0 for a null or unset parameter, an error for an
      unset one under nounset *)
  Theorem param_length fuel e fs name mode :
    beqb name s_at = false -> beqb name s_star = false ->
    expand_param users (S fuel) e fs name [35] None mode =
    match pstate_of e name with
    | PVal v => Ok (e, join_last fs (itoa (Z.of_nat (rune_count v))) (mbit mode mQuote))
    | PNull => Ok (e, join_last fs (itoa 0) (mbit mode mQuote))
    | PUnset => if opt_bit e Extracted.opt_NoUnset then Err (e, XParam name msg_unset)
                else Ok (e, join_last fs (itoa 0) (mbit mode mQuote))
    end.
  Proof.
    intros Hat Hstar. cbn [expand_param]. rewrite Hat, Hstar. unfold pstate_of.
    destruct (get e name) as [[[n v] set]|x|p|]; [destruct set; [destruct (beqb v []) eqn:Ev|]|..]; cbn; try reflexivity;
      try (apply beqb_eq in Ev; subst v; reflexivity); destruct (opt_bit e Extracted.opt_NoUnset); reflexivity.
  Qed.

  (** $name inside arithmetic (an ordinary variable): the name itself is handed to Eval, which reads
      the variable when it needs it; with nounset an unset variable is an error here too *)
  Theorem param_in_arithmetic fuel e fs name word mode :
    beqb name s_at = false -> beqb name s_star = false -> mbit mode mArith = true ->
    is_sp_param name || is_pos_param name = false ->
    expand_param users (S fuel) e fs name [] word mode =
    match pstate_of e name with
    | PUnset => if opt_bit e Extracted.opt_NoUnset then Err (e, XParam name msg_unset)
                else Ok (e, join_last fs name (mbit mode mQuote))
    | _ => Ok (e, join_last fs name (mbit mode mQuote))
    end.
  Proof.
    intros Hat Hstar Ha Hr. cbn [expand_param]. rewrite Hat, Hstar, Ha, Hr. unfold pstate_of.
    destruct (get e name) as [[[n v] set]|x|p|]; [destruct set; [destruct (beqb v []) eqn:Ev|]|..]; cbn; try reflexivity;
      destruct (opt_bit e Extracted.opt_NoUnset); reflexivity.
  Qed.

  (** $@ : one field per positional parameter (the first one continues the current field), quoted
      or not according to the context; no parameters, or a single empty one, give nothing *)
  Theorem at_fields fuel e fs word mode :
    expand_param users (S fuel) e fs s_at [] word mode =
    match tl (args e) with
    | [] => Ok (e, fs)
    | [x] => if beqb x [] then Ok (e, fs) else Ok (e, param_fields fs [x] (mbit mode mQuote))
    | pos => Ok (e, param_fields fs pos (mbit mode mQuote))
    end.
  Proof.
    cbn [expand_param]. change (beqb s_at s_at) with true. cbv iota.
    change (is_sp_param s_at) with true. cbn [orb negb andb]. rewrite Bool.andb_false_r.
    destruct (tl (args e)) as [|x [|y r]]; cbn; try reflexivity. destruct (beqb x []); reflexivity.
  Qed.

  (** $* : unquoted like $@; inside double quotes one field, the parameters joined by the first
      character of IFS *)
  Theorem star_fields fuel e fs word mode :
    expand_param users (S fuel) e fs s_star [] word mode =
    match tl (args e) with
    | [] => Ok (e, fs)
    | [x] => if beqb x [] then Ok (e, fs) else Ok (e, param_fields fs [x] (mbit mode mQuote))
    | pos => if mbit mode mQuote then Ok (e, join_last fs (join_with (ifs_sep e) pos) true)
             else Ok (e, param_fields fs pos false)
    end.
  Proof.
    cbn [expand_param]. change (beqb s_star s_at) with false. change (beqb s_star s_star) with true. cbv iota.
    change (is_sp_param s_star) with true. cbn [orb negb andb]. rewrite Bool.andb_false_r.
    destruct (tl (args e)) as [|x [|y r]]; cbn; try reflexivity; [destruct (beqb x []); reflexivity|].
    destruct (mbit mode mQuote); cbn; reflexivity.
  Qed.

  (** ${p%w} ${p%%w} ${p#w} ${p##w} on a set, non-null parameter: the word is expanded in Pattern
      mode, and the result is the value without the shortest / longest suffix / prefix that the
      pattern matches (C12's denotation), the whole value when nothing matches *)
  Definition remove_ops : list bytes := [[37]; [37; 37]; [35]; [35; 35]].
  Definition op_suffix (op : bytes) : bool := (last op 0 =? 37).
  Definition op_longest (op : bytes) : bool := Nat.eqb (length op) 2.
  Definition op_pmode (op : bytes) : N :=
    N.lor (if op_suffix op then Extracted.mode_Suffix else Extracted.mode_Prefix)
          (if op_longest op then Extracted.mode_Largest else Extracted.mode_Smallest).
  Definition removed (op : bytes) (v : bytes) (r : option (list sym)) : bytes :=
    match r with
    | Some m => if op_suffix op then firstn (length v - length (raw m)) v else skipn (length (raw m)) v
    | None => v
    end.

  Lemma pstate_val e name v : pstate_of e name = PVal v ->
    exists n, get e name = Ok (n, v, true) /\ beqb v [] = false.
  Proof.
    unfold pstate_of. destruct (get e name) as [[[n v'] set]|x|p|]; try discriminate.
    destruct set; [|discriminate]. destruct (beqb v' []) eqn:Ev; [discriminate|]. intros H. inversion H; subst. eauto.
  Qed.

  Theorem param_remove fuel e fs name op w mode v e1 wf items :
    beqb name s_at = false -> beqb name s_star = false -> In op remove_ops ->
    pstate_of e name = PVal v ->
    expand users fuel e w mPattern = Ok (e1, wf) ->
    compile_model [fpattern (join_all e1 wf)] (op_pmode op) = COk [items] ->
    exists r,
      extreme (if op_suffix op then is_suffix else is_prefix) (op_longest op) (map fst items) (syms_of v) r /\
      expand_param users (S fuel) e fs name op (Some w) mode = Ok (e1, join_last fs (removed op v r) (mbit mode mQuote)).
  Proof.
    intros Hat Hstar Hop Hst Hw Hc. destruct (pstate_val e name v Hst) as (n & Hg & Hv).
    exists (match_items [map fst items] (op_pmode op) (syms_of v)).
    assert (Hext : extreme (if op_suffix op then is_suffix else is_prefix) (op_longest op) (map fst items) (syms_of v)
                     (match_items [map fst items] (op_pmode op) (syms_of v))).
    { cbn in Hop. destruct Hop as [<-|[<-|[<-|[<-|[]]]]].
      - exact (match_suffix_smallest (map fst items) (syms_of v)).
      - exact (match_suffix_largest (map fst items) (syms_of v)).
      - exact (match_prefix_smallest (map fst items) (syms_of v)).
      - exact (match_prefix_largest (map fst items) (syms_of v)). }
    split; [exact Hext|]. clear Hext.
    set (r := match_items [map fst items] (op_pmode op) (syms_of v)).
    assert (Hm : match_model [fpattern (join_all e1 wf)] (op_pmode op) v = match r with Some m => MOk (raw m) | None => MNoMatch end).
    { unfold match_model. rewrite Hc. cbn [map]. fold r.
      cbn in Hop. destruct Hop as [<-|[<-|[<-|[<-|[]]]]]; reflexivity. }
    clearbody r.
    cbn in Hop. destruct Hop as [<-|[<-|[<-|[<-|[]]]]];
      cbn [expand_param]; fold (expand users) (expand_parts users) (expand_param users); rewrite Hat, Hstar, Hg, Hv;
      cbn -[expand match_model fpattern join_all join_last removed]; rewrite Hw;
      cbn -[match_model fpattern join_all join_last removed];
      match type of Hm with match_model ?P ?M v = _ => let M' := eval vm_compute in M in change M with M' in Hm end;
      rewrite Hm; (destruct r; [reflexivity|cbn [removed length]; rewrite ?Nat.sub_0_r, ?firstn_all; reflexivity]).
  Qed.
End More.

(** "$@" (a double-quoted part made of $@ expansions only) without positional parameters generates
    no field at all: the part leaves the fields as they are, and the word "$@" alone expands to
    zero fields in the default mode *)
Section AtNone.
  Variable users : list (bytes * bytes).
  Variable glob : bytes -> option (list bytes).

  Theorem quoted_at_no_params f e v rest mode first fs :
    only_at v = true -> (length (args e) <= 1)%nat ->
    expand_parts users (S f) e (WQuote 34 v :: rest) mode first fs = expand_parts users f e rest mode false fs.
  Proof.
    intros Hv Ha. cbn [expand_parts]. fold (expand users) (expand_parts users) (expand_param users).
    change (34 =? 92) with false. change (34 =? 39) with false. change (34 =? 34) with true. cbn [orb]. cbv iota.
    rewrite Hv. apply Nat.leb_le in Ha. rewrite Ha. reflexivity.
  Qed.

  Theorem quoted_at_alone_is_no_field e mode :
    (length (args e) <= 1)%nat ->
    mbit mode mLiteral = false -> mbit mode mPattern = false -> mbit mode mArith = false -> mbit mode mQuote = false ->
    expand_top users glob e [WQuote 34 [WParam s_at [] None]] mode = Ok (e, []).
  Proof.
    intros Ha HL HP HA HQ. unfold expand_top, quoted_at_only. rewrite HQ. cbn [andb]. cbv iota. cbn [word_size fold_right part_size plus mult].
    cbn [expand]. fold (expand users) (expand_parts users) (expand_param users). rewrite HQ.
    apply Nat.leb_le in Ha.
    change ((34 =? 92) || (34 =? 39)) with false. change (34 =? 34) with true. change (only_at [WParam s_at [] None]) with true.
    rewrite Ha. cbn [andb]. cbv iota. rewrite HL, HP. cbn [fold_left]. rewrite HA. cbn [orb fempty forallb]. reflexivity.
  Qed.

  (** Expand in Quote mode expands a word "as if it is within double-quotes": the word $@ (a run of
      $@ expansions) without positional parameters is no field there either *)
  Theorem at_in_quote_mode_is_no_field e w mode :
    only_at w = true -> (length (args e) <= 1)%nat ->
    mbit mode mQuote = true -> mbit mode mLiteral = false -> mbit mode mPattern = false ->
    expand_top users glob e w mode = Ok (e, []).
  Proof.
    intros Hw Ha HQ HL HP. unfold expand_top, quoted_at_only. apply Nat.leb_le in Ha.
    rewrite HQ, HL, HP, Ha, Hw. reflexivity.
  Qed.
End AtNone.
