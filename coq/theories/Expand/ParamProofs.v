(** The operator switch of expandParam implements the POSIX table (XCU 2.6.2). *)
From GoSh Require Import Base.Bytes Base.Outcome Store.Env Expand.Expand Expand.Spec.
Open Scope N_scope.

Definition pstate_of (e : env) (name : bytes) : pstate :=
  match get e name with
  | Ok (_, v, true) => if beqb v [] then PNull else PVal v
  | _ => PUnset
  end.

Definition table_ops : list bytes := [[58; 45]; [45]; [58; 61]; [61]; [58; 63]; [63]; [58; 43]; [43]].

(** the mode in which the operator word is expanded *)
Definition word_mode (op : bytes) (mode : N) : N :=
  if memb (last op 0) [45; 43] then N.lor (N.land mode (N.lor mAssign mQuote)) mLiteral
  else N.lor (N.land mode mQuote) mLiteral.

Definition msg_cannot_assign : bytes := [99;97;110;110;111;116;32;97;115;115;105;103;110;32;105;110;32;116;104;105;115;32;119;97;121].
Definition msg_unset_or_null : bytes := [112;97;114;97;109;101;116;101;114;32;105;115;32;117;110;115;101;116;32;111;114;32;110;117;108;108].

Definition after_word {T} (users : list (bytes * bytes)) (fuel : nat) (e : env) (w : list wpart) (m : N)
           (k : env -> list field -> xres T) : xres T :=
  match expand users fuel e w m with
  | Ok (e1, wf) => k e1 wf
  | Err x => Err x | Panic p => Panic p | OutOfFuel => OutOfFuel
  end.

(** what the table's action means for the result of the expansion *)
Definition table_result (users : list (bytes * bytes)) (fuel : nat) (e : env) (fs : list field)
           (name op : bytes) (w : list wpart) (mode : N) (act : paction) : xres (env * list field) :=
  let q := mbit mode mQuote in
  match act with
  | AValue v => Ok (e, join_last fs v q)
  | ANull => Ok (e, fs)
  | AWord => after_word users fuel e w (word_mode op mode) (fun e1 wf => Ok (e1, merge_fields fs wf))
  | AAssign =>
    if is_sp_param name || is_pos_param name then Err (e, XParam name msg_cannot_assign)
    else after_word users fuel e w (word_mode op mode)
           (fun e1 wf => Ok (set_var e1 name (funquote (join_all e1 wf)), merge_fields fs wf))
  | AErrorWord =>
    match w with
    | [] => Err (e, XParam name msg_unset_or_null)
    | _ => after_word users fuel e w (word_mode op mode) (fun e1 wf => Err (e1, XParam name (funquote (join_all e1 wf))))
    end
  end.

Theorem param_table users fuel e fs name op w mode act :
  beqb name s_at = false -> beqb name s_star = false ->
  In op table_ops ->
  posix_table op (pstate_of e name) = Some act ->
  expand_param users (S fuel) e fs name op (Some w) mode = table_result users fuel e fs name op w mode act.
Proof.
  intros Hat Hstar Hop Htab.
  unfold table_result, after_word, word_mode.
  cbn [expand_param]. rewrite Hat, Hstar.
  unfold pstate_of in Htab.
  destruct (get e name) as [[[n v] set]|x|p|]; [destruct set; [destruct (beqb v []) eqn:Ev|]|..];
    cbn in Hop; repeat (destruct Hop as [<-|Hop]; [cbn in Htab; inversion Htab; subst; clear Htab; cbn; try rewrite Ev; try reflexivity|]);
    try contradiction.
  all: try (destruct (is_sp_param name || is_pos_param name); reflexivity).
  all: try (destruct w; reflexivity).
Qed.

(** When the table does not use the word, the result does not depend on it. *)
Corollary unused_word_irrelevant users fuel e fs name op w w' mode act :
  beqb name s_at = false -> beqb name s_star = false -> In op table_ops ->
  posix_table op (pstate_of e name) = Some act ->
  match act with AValue _ | ANull => True | _ => False end ->
  expand_param users (S fuel) e fs name op (Some w) mode = expand_param users (S fuel) e fs name op (Some w') mode.
Proof.
  intros Hat Hstar Hop Htab Hact.
  rewrite (param_table users fuel e fs name op w mode act Hat Hstar Hop Htab).
  rewrite (param_table users fuel e fs name op w' mode act Hat Hstar Hop Htab).
  destruct act; try contradiction; reflexivity.
Qed.
