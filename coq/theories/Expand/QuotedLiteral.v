(** Quoted text in a pattern is literal (C15, Pattern mode): the characters that field.pattern()
    escapes (Extracted.pattern_escaped, read from /repo/interp/expand.go) are exactly those that
    make the compiled pattern consist of literal items at top level, and of single-character
    members inside a bracket expression.  Statements about rune lists: compile1 decodes the
    pattern text into runes first (syms_of), citems is the compiler proper. *)
From GoSh Require Import Base.Bytes Pattern.Regex Pattern.PCompile Pattern.GlobExact.
From GoShGen Require Import Extracted.
From Coq Require Import Lia.
Open Scope N_scope.

Definition escaped (r : rune) : bool := memb r Extracted.pattern_escaped.
(** what esc_pattern does, on runes *)
Definition esc_runes (s : list rune) : list rune := flat_map (fun r => if escaped r then [92; r] else [r]) s.

Lemma escaped_spec r : escaped r = false -> r <> 63 /\ r <> 42 /\ r <> 91 /\ r <> 92 /\ r <> 93 /\ r <> 45 /\ r <> 33 /\ r <> 94.
Proof.
  unfold escaped. intros H. repeat split; intros ->; vm_compute in H; discriminate.
Qed.

Lemma citems_esc f g r p :
  citems (S f) g (92 :: r :: p) =
  match citems f g p with
  | COk l => COk ((RLit r, if esc_top r then 92 :: txt [r] else txt [r]) :: l)
  | CErr => CErr
  | CUnmodelled => CUnmodelled
  end.
Proof. reflexivity. Qed.

(** * top level: the compiled items are the literal characters of the text *)
Theorem quoted_is_literal : forall s f g, (length s <= f)%nat ->
  exists l, citems f g (esc_runes s) = COk l /\ map fst l = map RLit s.
Proof.
  induction s as [|r s IH]; intros f g Hf.
  - exists []. destruct f; split; reflexivity.
  - destruct f as [|f]; [cbn in Hf; lia|]. cbn [length] in Hf.
    destruct (IH f g ltac:(lia)) as (l & El & Ml).
    cbn [esc_runes flat_map]. fold (esc_runes s).
    destruct (escaped r) eqn:E.
    + cbn [app]. rewrite citems_esc, El. eexists; split; [reflexivity|]. cbn [map fst]. now rewrite Ml.
    + apply escaped_spec in E as (H1 & H2 & H3 & H4 & _).
      cbn [app]. rewrite (citems_lit f g r _ H1 H2 H3 H4), El. eexists; split; [reflexivity|]. cbn [map fst]. now rewrite Ml.
Qed.

(** * inside a bracket expression: the quoted characters are members, nothing else *)
Definition emit (s : list rune) : list rune := flat_map (fun r => if esc_in_bracket r then [92; r] else [r]) s.

Lemma esc_in_bracket_spec r : esc_in_bracket r = true -> r = 33 \/ r = 45 \/ r = 91 \/ r = 93 \/ r = 94 \/ r = 92.
Proof.
  unfold esc_in_bracket. cbn [memb].
  destruct (N.eqb_spec r 33); [auto|]. destruct (N.eqb_spec r 45); [auto|]. destruct (N.eqb_spec r 91); [auto|].
  destruct (N.eqb_spec r 93); [auto 6|]. destruct (N.eqb_spec r 94); [auto 6|]. destruct (N.eqb_spec r 92); [auto 7|].
  cbn. discriminate.
Qed.

Lemma esc_in_bracket_escaped r : esc_in_bracket r = true -> escaped r = true.
Proof. intros H. apply esc_in_bracket_spec in H as [->|[->|[->|[->|[->| ->]]]]]; reflexivity. Qed.

Lemma bloop_plain f r p : r <> 93 -> r <> 91 -> r <> 92 ->
  bloop (S f) (r :: p) = match bloop f p with Some (t, rest, c) => Some ([r] ++ t, rest, false || c) | None => None end.
Proof. intros H1 H2 H3. cbn [bloop]. destruct r as [|q]; [reflexivity|]. crack q. Qed.

Lemma bloop_quoted : forall s f rest, (length s < f)%nat ->
  bloop f (esc_runes s ++ 93 :: rest) = Some (emit s ++ [93], rest, false).
Proof.
  induction s as [|r s IH]; intros f rest Hf.
  - destruct f; [cbn in Hf; lia|]. reflexivity.
  - destruct f as [|f]; [cbn in Hf; lia|]. cbn [length] in Hf.
    cbn [esc_runes emit flat_map]. fold (esc_runes s) (emit s).
    destruct (escaped r) eqn:E.
    + cbn [app]. cbn [bloop]. rewrite (IH f rest ltac:(lia)). rewrite <- app_assoc. reflexivity.
    + assert (Eb : esc_in_bracket r = false).
      { destruct (esc_in_bracket r) eqn:Eb; [|reflexivity]. apply esc_in_bracket_escaped in Eb. congruence. }
      apply escaped_spec in E as (_ & _ & H91 & H92 & H93 & _).
      rewrite Eb. cbn [app]. rewrite (bloop_plain f r _ H93 H91 H92), (IH f rest ltac:(lia)). reflexivity.
Qed.

(** the emitted class text never shows a bare '-' at the start of a member: no range arises *)
Definition no_dash_head (t : list rune) : Prop := match t with 45 :: _ => False | _ => True end.

Lemma emit_no_dash s : no_dash_head (emit s ++ [93]).
Proof.
  destruct s as [|r s]; [exact I|]. cbn [emit flat_map]. destruct (esc_in_bracket r) eqn:E; cbn [app]; [exact I|].
  unfold no_dash_head. destruct r as [|q]; [exact I|]. crack q; try exact I. vm_compute in E. discriminate.
Qed.

Ltac crackh Hd q := destruct q as [q|q|]; try reflexivity; try (exfalso; exact Hd); try crackh Hd q.

Definition addc (c : citem) (r : option (list citem * list rune)) :=
  match r with Some (cs, rest) => Some (c :: cs, rest) | None => None end.

Lemma go_class_nonclose f first r t : r <> 93 -> go_class (S f) first (r :: t) = go_class_item f (r :: t).
Proof. intros H. cbn [go_class]. destruct r as [|q]; [reflexivity|]. crack q. Qed.

Lemma go_class_item_plain f r t : r <> 91 -> r <> 92 -> no_dash_head t ->
  go_class_item (S f) (r :: t) = addc (CChar r) (go_class f false t).
Proof.
  intros H1 H2 Hd. cbn [go_class_item].
  assert (Ec : class_char (r :: t) = Some (r, t)).
  { unfold class_char. destruct r as [|q]; [reflexivity|]. crack q. }
  rewrite Ec.
  assert (Em : forall (X : rune -> option (list citem * list rune)) (Y : option (list citem * list rune)),
             match t with 45 :: x :: _ => X x | _ => Y end = Y).
  { intros X Y. destruct t as [|a t']; [reflexivity|]. destruct a as [|q]; [reflexivity|]. unfold no_dash_head in Hd. crackh Hd q. }
  destruct r as [|q]; [apply Em|].
  let rec go q := destruct q as [q|q|]; try (apply Em); try congruence; try go q in go q.
Qed.

Lemma go_class_item_esc f r t : esc_in_bracket r = true -> no_dash_head t ->
  go_class_item (S f) (92 :: r :: t) = addc (CChar r) (go_class f false t).
Proof.
  intros H Hd. 
  assert (Em : forall (X : rune -> option (list citem * list rune)) (Y : option (list citem * list rune)),
             match t with 45 :: x :: _ => X x | _ => Y end = Y).
  { intros X Y. destruct t as [|a t']; [reflexivity|]. destruct a as [|q]; [reflexivity|]. unfold no_dash_head in Hd. crackh Hd q. }
  apply esc_in_bracket_spec in H as [->|[->|[->|[->|[->| ->]]]]]; cbn [go_class_item class_char is_punct_ascii]; apply Em.
Qed.

Lemma go_class_quoted : forall s f, (2 * length s < f)%nat ->
  go_class f false (emit s ++ [93]) = Some (map CChar s, []).
Proof.
  induction s as [|r s IH]; intros f Hf.
  - destruct f; [cbn in Hf; lia|]. reflexivity.
  - destruct f as [|[|f]]; [cbn in Hf; lia|cbn in Hf; lia|]. cbn [length] in Hf.
    cbn [emit flat_map]. fold (emit s). pose proof (emit_no_dash s) as Hd.
    destruct (esc_in_bracket r) eqn:E.
    + cbn [app]. rewrite go_class_nonclose by discriminate.
      rewrite (go_class_item_esc f r _ E Hd), (IH f ltac:(lia)). reflexivity.
    + assert (H93 : r <> 93) by (intros ->; vm_compute in E; discriminate).
      assert (H91 : r <> 91) by (intros ->; vm_compute in E; discriminate).
      assert (H92 : r <> 92) by (intros ->; vm_compute in E; discriminate).
      cbn [app]. rewrite (go_class_nonclose _ _ _ _ H93), (go_class_item_plain f r _ H91 H92 Hd), (IH f ltac:(lia)). reflexivity.
Qed.

(** the same with [first = true]: a leading "]" would be a member, but a quoted "]" is emitted escaped *)
Lemma go_class_quoted_first : forall s f, s <> [] -> (2 * length s < f)%nat ->
  go_class f true (emit s ++ [93]) = Some (map CChar s, []).
Proof.
  intros [|r s] f Hs Hf; [congruence|]. destruct f as [|[|f]]; [cbn in Hf; lia|cbn in Hf; lia|]. cbn [length] in Hf.
  cbn [emit flat_map]. fold (emit s). pose proof (emit_no_dash s) as Hd.
  destruct (esc_in_bracket r) eqn:E.
  + cbn [app]. rewrite go_class_nonclose by discriminate.
    rewrite (go_class_item_esc f r _ E Hd), (go_class_quoted s f ltac:(lia)). reflexivity.
  + assert (H93 : r <> 93) by (intros ->; vm_compute in E; discriminate).
    assert (H91 : r <> 91) by (intros ->; vm_compute in E; discriminate).
    assert (H92 : r <> 92) by (intros ->; vm_compute in E; discriminate).
    cbn [app]. rewrite (go_class_nonclose _ _ _ _ H93), (go_class_item_plain f r _ H91 H92 Hd), (go_class_quoted s f ltac:(lia)). reflexivity.
Qed.

Lemma emit_length s : (length s <= length (emit s) <= 2 * length s)%nat.
Proof.
  induction s as [|r s IH]; [cbn; lia|]. cbn [emit flat_map]. fold (emit s). rewrite app_length. cbn [length].
  destruct (esc_in_bracket r); cbn [length]; lia.
Qed.

Lemma esc_runes_length s : (length s <= length (esc_runes s))%nat.
Proof.
  induction s as [|r s IH]; [cbn; lia|]. cbn [esc_runes flat_map]. fold (esc_runes s). rewrite app_length.
  destruct (escaped r); cbn [length]; lia.
Qed.

Lemma esc_runes_head s t : match esc_runes s ++ 93 :: t with 94 :: _ | 33 :: _ => False | 93 :: _ => s = [] | _ => True end.
Proof.
  destruct s as [|r s]; [reflexivity|]. cbn [esc_runes flat_map]. destruct (escaped r) eqn:E; cbn [app]; [exact I|].
  apply escaped_spec in E as (_ & _ & _ & _ & H93 & _ & H33 & H94).
  destruct r as [|q]; [exact I|]. crack q; try exact I; congruence.
Qed.

(** a bracket expression whose whole content is quoted text: one class item whose members are the
    characters of the text -- no range, no negation, no early end, whatever the characters are *)
Theorem quoted_in_bracket : forall s g f rest, s <> [] -> (0 < f)%nat ->
  citems f g (91 :: esc_runes s ++ 93 :: rest) =
  match citems (f - 1) g rest with
  | COk l => COk ((RClass false (map CChar s), 91 :: txt (emit s ++ [93])) :: l)
  | CErr => CErr
  | CUnmodelled => CUnmodelled
  end.
Proof.
  intros s g f rest Hs Hf. destruct f as [|f]; [lia|]. replace (S f - 1)%nat with f by lia.
  cbn [citems].
  pose proof (esc_runes_head s rest) as Hh.
  destruct (esc_runes s ++ 93 :: rest) as [|a p] eqn:Ep.
  { destruct (esc_runes s); discriminate. }
  assert (Eneg : (match a :: p with 94 :: q => (true, q) | 33 :: q => (true, q) | _ => (false, a :: p) end) = (false, a :: p)).
  { destruct a as [|q]; [reflexivity|]. crackh Hh q. }
  rewrite Eneg.
  assert (Elead : (match a :: p with 93 :: q => ([93], q) | _ => ([], a :: p) end) = ([], a :: p)).
  { destruct a as [|q]; [reflexivity|]. crack q; exfalso; apply Hs; exact Hh. }
  rewrite Elead. rewrite <- Ep.
  rewrite (bloop_quoted s _ rest) by (rewrite app_length; cbn [length]; pose proof (esc_runes_length s); lia).
  cbn [orb app]. 
  rewrite (go_class_quoted_first s _ Hs) by (rewrite app_length; cbn [length]; pose proof (emit_length s); lia).
  reflexivity.
Qed.

(** what the class matches: exactly the characters of the text *)
Corollary quoted_class_members : forall s c,
  existsb (fun ci => citem_matches ci c) (map CChar s) = memb c s.
Proof.
  induction s as [|r s IH]; intros c; [reflexivity|]. cbn [map existsb citem_matches memb]. now rewrite IH.
Qed.

(** * the same at the level of bytes, for ASCII text (one byte = one rune); Expand.esc_pattern is
    esc_runes on bytes *)
From GoSh Require Import Store.Env Expand.Expand.

Lemma esc_pattern_runes s : esc_pattern s = esc_runes s.
Proof.
  induction s as [|c s IH]; [reflexivity|]. cbn [esc_pattern esc_runes flat_map]. fold (esc_runes s). unfold escaped.
  destruct (memb c Extracted.pattern_escaped); cbn [app]; now rewrite IH.
Qed.

Definition ascii (s : bytes) : bool := forallb (fun b => b <? 128) s.

Lemma syms_ascii : forall s f, ascii s = true -> (length s <= f)%nat -> syms_fuel f s = map (fun b => (b, [b])) s.
Proof.
  induction s as [|b s IH]; intros f Ha Hf; [destruct f; reflexivity|].
  destruct f as [|f]; [cbn in Hf; lia|]. cbn [length] in Hf. cbn [ascii forallb] in Ha. apply Bool.andb_true_iff in Ha as [Hb Hs].
  cbn [syms_fuel]. rewrite (decode_ascii b s) by (now apply N.ltb_lt). cbn [firstn skipn map].
  now rewrite (IH f Hs ltac:(lia)).
Qed.

Lemma ascii_valid s : ascii s = true -> has_invalid (map (fun b => (b, [b])) s) = false.
Proof.
  induction s as [|b s IH]; intros Ha; [reflexivity|]. cbn [ascii forallb] in Ha. apply Bool.andb_true_iff in Ha as [Hb Hs].
  cbn [map has_invalid existsb fst snd]. fold (has_invalid (map (fun b => (b, [b])) s)). rewrite (IH Hs).
  apply N.ltb_lt in Hb. assert (b <> RuneError) by (unfold RuneError; lia). apply N.eqb_neq in H. now rewrite H.
Qed.

Lemma esc_ascii s : ascii s = true -> ascii (esc_runes s) = true.
Proof.
  induction s as [|b s IH]; intros Ha; [reflexivity|]. cbn [ascii forallb] in Ha. apply Bool.andb_true_iff in Ha as [Hb Hs].
  cbn [esc_runes flat_map]. fold (esc_runes s). unfold ascii. rewrite forallb_app. fold (ascii (esc_runes s)). rewrite (IH Hs).
  destruct (escaped b); cbn [forallb]; rewrite Hb; reflexivity.
Qed.

Lemma map_fst_pair (s : bytes) : map fst (map (fun b : N => (b, [b])) s) = s.
Proof. induction s as [|b s IH]; [reflexivity|]. cbn [map fst]. now rewrite IH. Qed.

Lemma compile1_ascii g p : ascii p = true -> compile1 g p = citems (S (length p)) g p.
Proof.
  intros Ha. unfold compile1, syms_of. rewrite (syms_ascii p (length p) Ha (le_n _)), (ascii_valid p Ha), map_fst_pair, map_length. reflexivity.
Qed.

Theorem quoted_ascii_is_literal : forall s g, ascii s = true ->
  exists l, compile1 g (esc_pattern s) = COk l /\ map fst l = map RLit s.
Proof.
  intros s g Ha. rewrite esc_pattern_runes, (compile1_ascii g _ (esc_ascii s Ha)).
  apply quoted_is_literal. pose proof (esc_runes_length s). lia.
Qed.

Theorem quoted_ascii_in_bracket : forall s g, ascii s = true -> s <> [] ->
  compile1 g (91 :: esc_pattern s ++ [93]) = COk [(RClass false (map CChar s), 91 :: txt (emit s ++ [93]))].
Proof.
  intros s g Ha Hs. rewrite esc_pattern_runes.
  assert (Hb : ascii (91 :: esc_runes s ++ [93]) = true).
  { unfold ascii. cbn [forallb]. rewrite forallb_app. fold (ascii (esc_runes s)). now rewrite (esc_ascii s Ha). }
  rewrite (compile1_ascii g _ Hb).
  rewrite (quoted_in_bracket s g (S (length (91 :: esc_runes s ++ [93]))) [] Hs (Nat.lt_0_succ _)).
  cbn [length Nat.sub]. reflexivity.
Qed.
