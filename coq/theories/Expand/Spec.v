(** Specifications written from the property text, independent of expand.go's control flow:
    field splitting (C14) and the POSIX parameter-expansion table (C13). Executable oracles. *)
From GoSh Require Import Base.Bytes Base.Outcome Store.Env Expand.Expand.
Open Scope N_scope.

(** * Field splitting.  A field is a list of (text, quoted) segments. *)
Inductive ssym :=
| SQ                 (* presence of a quoted part, even an empty one *)
| SC (b : bytes)     (* a character that stays: quoted, or unquoted and not in IFS *)
| SD.                (* an unquoted IFS character: a cut *)

Fixpoint chunks_fuel (fuel : nat) (s : bytes) : list (rune * bytes) :=
  match fuel with
  | O => []
  | S f => match s with
           | [] => []
           | _ => let '(r, w) := decode_rune s in (r, firstn w s) :: chunks_fuel f (skipn w s)
           end
  end.
Definition chunks (s : bytes) := chunks_fuel (length s) s.

Definition seg_syms (ifs : bytes) (sq : bytes * bool) : list ssym :=
  let '(s, q) := sq in
  if q then SQ :: map (fun rb => SC (snd rb)) (chunks s)
  else map (fun rb : rune * bytes => if contains_rune ifs (fst rb) then SD else SC (snd rb)) (chunks s).

(* cut at every SD; a piece is (has something, text) *)
Fixpoint pieces (l : list ssym) (cur : bool * bytes) : list (bool * bytes) :=
  match l with
  | [] => [cur]
  | SD :: l' => cur :: pieces l' (false, [])
  | SQ :: l' => pieces l' (true, snd cur)
  | SC b :: l' => pieces l' (true, snd cur ++ b)
  end.

(** the fields of one expanded word-field: cut at unquoted IFS characters, drop the pieces that
    contain neither a character nor a quoted part *)
Definition split_spec (ifs : bytes) (f : field) : list bytes :=
  match ifs with
  | [] => if fempty f then [] else [funquote f]
  | _ => map snd (filter fst (pieces (flat_map (seg_syms ifs) f) (false, [])))
  end.

(** the model's pipeline for one field in the default mode with pathname expansion disabled *)
Definition split_model (e : env) (f : field) : outcome (list bytes) (env * xerr) :=
  if fempty f then Ok []
  else match split_field e f with
       | Ok parts => Ok (map funquote (filter (fun g => negb (fempty g)) parts))
       | Err x => Err x | Panic p => Panic p | OutOfFuel => OutOfFuel
       end.

(** * The POSIX table (XCU 2.6.2) *)
Inductive pstate := PUnset | PNull | PVal (v : bytes).

Inductive paction :=
| AValue (v : bytes)        (* substitute the parameter's value *)
| AWord                     (* substitute the expansion of word *)
| AAssign                   (* assign the expansion of word, then substitute it *)
| AErrorWord                (* write word (or a default message) and fail *)
| ANull.                    (* substitute nothing *)

Definition posix_table (op : bytes) (s : pstate) : option paction :=
  let colon := match op with 58 :: _ => true | _ => false end in
  let k := last op 0 in
  match s with
  | PVal v => if k =? 43 then Some AWord else if memb k [45; 61; 63] then Some (AValue v) else None
  | PNull =>
    if k =? 45 then Some (if colon then AWord else ANull)
    else if k =? 61 then Some (if colon then AAssign else ANull)
    else if k =? 63 then Some (if colon then AErrorWord else ANull)
    else if k =? 43 then Some (if colon then ANull else AWord)
    else None
  | PUnset =>
    if k =? 45 then Some AWord else if k =? 61 then Some AAssign
    else if k =? 63 then Some AErrorWord else if k =? 43 then Some ANull else None
  end.
