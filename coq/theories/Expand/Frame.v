(** Expand and Eval never touch Args, Opts or the pid oracle: whatever the word, the mode, the
    environment and the recursion budget, the environment that comes back (with the fields or with
    an error) has the same Args and Opts. *)
From GoSh Require Import Base.Bytes Base.Outcome Store.Env Store.EnvSpec Arith.ASyntax Arith.AEval Arith.AProofs Pattern.Match Expand.Expand Expand.Spec Expand.SplitRefine.
From Coq Require Import Lia.
Open Scope N_scope.

Definition keeps (e e' : env) : Prop := args e' = args e /\ opts e' = opts e /\ pid e' = pid e.

Lemma keeps_refl e : keeps e e.
Proof. unfold keeps; auto. Qed.
Lemma keeps_trans a b c : keeps a b -> keeps b c -> keeps a c.
Proof. unfold keeps. intuition congruence. Qed.
Lemma keeps_set e n v : keeps e (set_var e n v).
Proof. apply set_frame. Qed.

Lemma eval_model_keeps e src : keeps e (fst (eval_model e src)).
Proof.
  unfold eval_model. cbv zeta. destruct (aparse _) as [a|]; [|apply keeps_refl].
  destruct (has_bad _); [apply keeps_refl|]. unfold eval_top_i.
  pose proof (eval_i_frame a e) as (A & O & P & _). destruct (eval_i e a) as [e1 [v| | |]]; cbn in *; unfold keeps; auto.
Qed.

Definition P {T} (e : env) (r : xres (env * T)) : Prop :=
  match r with Ok (e', _) => keeps e e' | Err (e', _) => keeps e e' | _ => True end.

Lemma P_trans {T} e e1 (r : xres (env * T)) : keeps e e1 -> P e1 r -> P e r.
Proof. intros K H. destruct r as [[e' t]|[e' x]| |]; cbn in *; auto; eapply keeps_trans; eassumption. Qed.

Lemma fold_err {A B} (stepf : xres A -> B -> xres A) (e1 : env) :
  (forall acc s, (forall e' x, acc = Err (e', x) -> keeps e1 e') -> forall e' x, stepf acc s = Err (e', x) -> keeps e1 e') ->
  forall l acc, (forall e' x, acc = Err (e', x) -> keeps e1 e') -> forall e' x, fold_left stepf l acc = Err (e', x) -> keeps e1 e'.
Proof.
  intros Hs. induction l as [|s l IH]; intros acc Ha e' x H; cbn in H; [eapply Ha; exact H|].
  eapply IH; [|exact H]. intros e'' x' E. eapply Hs; [exact Ha|exact E].
Qed.

Ltac fin :=
  cbn [P] in *;
  first [ exact I | apply keeps_refl | assumption | apply keeps_set
        | (eapply keeps_trans; [eassumption|]; first [apply keeps_refl | assumption | apply keeps_set]) ].

Section F.
  Variable users : list (bytes * bytes).

  Lemma frame fuel :
    (forall e w m, P e (expand users fuel e w m)) /\
    (forall e ws m first fs, P e (expand_parts users fuel e ws m first fs)) /\
    (forall e fs name op word mode, P e (expand_param users fuel e fs name op word mode)).
  Proof.
    induction fuel as [|f (IH1 & IH2 & IH3)]; [repeat split; intros; exact I|].
    split; [|split].
    - intros e w m. cbn [expand]. apply IH2.
    - intros e ws m first fs. cbn [expand_parts]. fold (expand users) (expand_parts users) (expand_param users).
      destruct ws as [|p rest]; [apply keeps_refl|].
      destruct p.
      + (* literal *) cbv zeta.
        repeat match goal with
               | |- context [match ?x with (_, _) => _ end] => destruct x
               end. apply IH2.
      + (* quote *)
        destruct ((tok =? 92) || (tok =? 39)).
        * destruct value as [|[] ?]; try exact I; apply IH2.
        * destruct (tok =? 34); [|apply IH2].
          destruct (only_at value && Nat.leb (length (args e)) 1); [apply IH2|].
          match goal with |- P _ (match expand users f ?e ?w ?m with _ => _ end) => pose proof (IH1 e w m) as H1; destruct (expand users f e w m) as [[e1 w1]|[e1 x1]| |] end;
            cbn [P] in *; try exact I; try assumption.
          eapply P_trans; [exact H1|apply IH2].
      + (* parameter *)
        match goal with |- P _ (match expand_param users f ?e ?a ?b ?c ?d ?m with _ => _ end) => pose proof (IH3 e a b c d m) as H1; destruct (expand_param users f e a b c d m) as [[e1 w1]|[e1 x1]| |] end;
          cbn [P] in *; try exact I; try assumption.
        eapply P_trans; [exact H1|apply IH2].
      + (* arithmetic *)
        match goal with |- P _ (match expand users f ?e ?w ?m with _ => _ end) => pose proof (IH1 e w m) as H1; destruct (expand users f e w m) as [[e1 w1]|[e1 x1]| |] end;
          cbn [P] in *; try exact I; try assumption.
        cbv zeta. pose proof (eval_model_keeps e1 (funquote (join_all e1 w1))) as H2.
        destruct (eval_model e1 (funquote (join_all e1 w1))) as [e2 [n|k| |]]; cbn [fst P] in *; try exact I.
        * eapply P_trans; [eapply keeps_trans; eassumption|apply IH2].
        * eapply keeps_trans; eassumption.
      + apply IH2.
    - (* expandParam *)
      intros e fs name op word mode. cbn [expand_param]. fold (expand users) (expand_parts users) (expand_param users). cbv zeta.
      repeat match goal with
             | |- P _ (match expand users f ?e ?w ?m with _ => _ end) =>
               let H := fresh "HX" in pose proof (IH1 e w m) as H; destruct (expand users f e w m) as [[? ?]|[? ?]| |]; cbn [P] in H
             | |- P _ (match fold_left ?st ?l ?acc with _ => _ end) =>
               let E := fresh "EF" in destruct (fold_left st l acc) as [[? ?]|[? ?]| |] eqn:E
             | |- P _ (match ?x with _ => _ end) => destruct x
             | |- P _ (if ?x then _ else _) => destruct x
             end; try fin.
      all: cbn [P].
      all: match goal with
           | HX : keeps ?e ?e0, EF : fold_left _ _ _ = Err (?e', ?x) |- keeps ?e ?e' =>
             eapply keeps_trans; [exact HX|]; eapply (fold_err _ e0); [| |exact EF]
           end.
      + intros acc s Hacc e' x' Hstep. destruct acc as [[fs1 firstp]|[ea xa]| |]; cbn beta iota in Hstep; try discriminate.
        * destruct (match_model _ _ _); inversion Hstep; subst; apply keeps_refl.
        * inversion Hstep; subst. eapply Hacc. reflexivity.
      + intros e' x' H. discriminate.
  Qed.

  Lemma split_field_ok e f : exists parts, split_field e f = Ok parts.
  Proof.
    unfold split_field. cbv zeta. destruct (ifs_value e) as [|c ifs]; [eauto|].
    rewrite loop_corr. destruct (loop' (c :: ifs) f [[]] true) as [fs ws].
    destruct (rev fs) as [|l r]; [eauto|]. destruct (Nat.eqb (length l) 0 && ws); eauto.
  Qed.

  Variable glob : bytes -> option (list bytes).

  Theorem expand_top_keeps e w m : P e (expand_top users glob e w m).
  Proof.
    unfold expand_top. destruct (quoted_at_only e w m); [cbn [P]; apply keeps_refl|]. pose proof (proj1 (frame (4 * S (word_size w))) e w m) as H.
    destruct (expand users (4 * S (word_size w)) e w m) as [[e1 fields]|[e1 x]| |]; cbn [P] in *; try exact I; try exact H.
    destruct (mbit m mLiteral); [exact H|]. destruct (mbit m mPattern); [exact H|].
    match goal with |- P _ (match fold_left ?st ?l ?acc with _ => _ end) => destruct (fold_left st l acc) as [rv|[e' x]| |] eqn:EF end; cbn [P]; try exact I; [exact H|].
    eapply keeps_trans; [exact H|]. eapply (fold_err _ e1); [| |exact EF].
    - intros acc f Hacc e'' x'' Hstep. destruct acc as [rv'|[ea xa]| |]; cbn beta iota in Hstep; try discriminate.
      + destruct (mbit m mArith || mbit m mQuote); [discriminate|]. destruct (fempty f); [discriminate|].
        destruct (split_field_ok e1 f) as [parts Ep]. rewrite Ep in Hstep. discriminate.
      + inversion Hstep; subst. eapply Hacc. reflexivity.
    - intros e'' x'' E. discriminate.
  Qed.
End F.
