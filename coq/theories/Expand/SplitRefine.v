(** Field splitting: the splitter model (expand.go's split, with its byte offsets, its ws flag and
    its trailing-field rule) computes exactly the specification written from the property text
    (cut at every unquoted IFS character, keep the pieces that contain a character or a quoted
    part), for every IFS value and every field, valid UTF-8 or not. *)
From GoSh Require Import Base.Bytes Base.Outcome Store.Env Expand.Expand Expand.Spec Expand.SplitProofs.
From Coq Require Import Lia.
Open Scope N_scope.

(** * widths *)
Lemma decode_width s : s <> [] -> (1 <= snd (decode_rune s) <= length s)%nat.
Proof.
  destruct s as [|b0 t]; [congruence|]. intros _. unfold decode_rune.
  repeat match goal with
         | |- context [if ?c then _ else _] => destruct c
         | |- context [match ?t with [] => _ | _ :: _ => _ end] => destruct t
         end; cbn [snd length]; lia.
Qed.

Lemma skipn_add {A} (a b : nat) (l : list A) : skipn a (skipn b l) = skipn (b + a) l.
Proof.
  revert l; induction b as [|b IH]; intros l; [reflexivity|].
  destruct l as [|x l]; [now rewrite !skipn_nil|]. cbn [skipn Nat.add]. apply IH.
Qed.

Lemma firstn_add {A} (a w : nat) (u : list A) : firstn (a + w) u = firstn a u ++ firstn w (skipn a u).
Proof.
  revert u; induction a as [|a IH]; intros u; [reflexivity|].
  destruct u as [|x u]; [cbn; now destruct w|]. cbn [Nat.add firstn skipn app]. now rewrite IH.
Qed.

Lemma decode_all_fuel_S f s : s <> [] ->
  decode_all_fuel (S f) s = (fst (decode_rune s), snd (decode_rune s)) :: decode_all_fuel f (skipn (snd (decode_rune s)) s).
Proof. destruct s; [congruence|]. intros _. cbn [decode_all_fuel]. destruct (decode_rune _); reflexivity. Qed.

Lemma chunks_fuel_S f s : s <> [] ->
  chunks_fuel (S f) s = (fst (decode_rune s), firstn (snd (decode_rune s)) s) :: chunks_fuel f (skipn (snd (decode_rune s)) s).
Proof. destruct s; [congruence|]. intros _. cbn [chunks_fuel]. destruct (decode_rune _); reflexivity. Qed.

(** * the inner loop without offsets: the pending text instead of (i, j) *)
Fixpoint seg' (ifs : bytes) (cs : list (rune * bytes)) (fs : list field) (ws : bool) (p : bytes) : list field * bool * bytes :=
  match cs with
  | [] => (fs, ws, p)
  | (r, b) :: cs' =>
    if contains_rune ifs r then
      if is_space r then (if ws then seg' ifs cs' fs ws [] else seg' ifs cs' (join_last fs p false ++ [[]]) true [])
      else (if ws then seg' ifs cs' fs false [] else seg' ifs cs' (join_last fs p false ++ [[]]) ws [])
    else seg' ifs cs' fs false (p ++ b)
  end.

Lemma seg_corr ifs s : forall fuel rest j i fs ws,
  rest = skipn j s -> (i <= j)%nat -> (j <= length s)%nat -> (length rest <= fuel)%nat ->
  exists fs' ws' i',
    split_seg ifs s (decode_all_fuel fuel rest) j fs ws i = Ok (fs', ws', i') /\ (i' <= length s)%nat /\
    seg' ifs (chunks_fuel fuel rest) fs ws (firstn (j - i) (skipn i s)) = (fs', ws', skipn i' s).
Proof.
  assert (Eend : forall rest j i, rest = skipn j s -> (i <= j)%nat -> (j <= length s)%nat -> rest = [] ->
                 firstn (j - i) (skipn i s) = skipn i s).
  { intros rest j i Hr Hij Hj Hn. subst rest. apply (f_equal (@length _)) in Hn. rewrite skipn_length in Hn. cbn in Hn.
    apply firstn_all2. rewrite skipn_length. lia. }
  induction fuel as [|f IH]; intros rest j i fs ws Hr Hij Hj Hf.
  - destruct rest; [|cbn in Hf; lia]. cbn [decode_all_fuel chunks_fuel split_seg seg'].
    exists fs, ws, i. repeat split; [lia|]. now rewrite (Eend [] j i Hr Hij Hj eq_refl).
  - destruct rest as [|c rest'].
    + cbn [decode_all_fuel chunks_fuel split_seg seg'].
      exists fs, ws, i. repeat split; [lia|]. now rewrite (Eend [] j i Hr Hij Hj eq_refl).
    + remember (c :: rest') as rest eqn:Erest. assert (Hne : rest <> []) by (rewrite Erest; discriminate).
      pose proof (decode_width rest Hne) as Hw.
      assert (Elen : length rest = (length s - j)%nat) by (rewrite Hr; apply skipn_length).
      rewrite (decode_all_fuel_S f rest Hne), (chunks_fuel_S f rest Hne).
      destruct (decode_rune rest) as [r w] eqn:Ed. cbn [fst snd] in *.
      cbn [split_seg seg']. cbv zeta.
      assert (Hr' : skipn w rest = skipn (j + w) s) by (rewrite Hr; apply skipn_add).
      assert (Hl' : (length (skipn w rest) <= f)%nat) by (rewrite skipn_length; lia).
      assert (Hj' : (j + w <= length s)%nat) by lia.
      assert (Hsub : sub s i j = Some (firstn (j - i) (skipn i s))).
      { unfold sub. replace (Nat.leb i j && Nat.leb j (length s)) with true; [reflexivity|].
        symmetry. apply andb_true_iff. split; apply Nat.leb_le; lia. }
      assert (E0 : forall k, firstn (k - k) (skipn k s) = []) by (intros k; rewrite Nat.sub_diag; reflexivity).
      destruct (contains_rune ifs r).
      * destruct (is_space r); destruct ws.
        -- destruct (IH _ (j + w)%nat (j + w)%nat fs true Hr' (le_n _) Hj' Hl') as (fs' & ws' & i' & H1 & H2 & H3).
           rewrite E0 in H3. exists fs', ws', i'. auto.
        -- rewrite Hsub.
           destruct (IH _ (j + w)%nat (j + w)%nat (join_last fs (firstn (j - i) (skipn i s)) false ++ [[]]) true Hr' (le_n _) Hj' Hl') as (fs' & ws' & i' & H1 & H2 & H3).
           rewrite E0 in H3. exists fs', ws', i'. auto.
        -- destruct (IH _ (j + w)%nat (j + w)%nat fs false Hr' (le_n _) Hj' Hl') as (fs' & ws' & i' & H1 & H2 & H3).
           rewrite E0 in H3. exists fs', ws', i'. auto.
        -- rewrite Hsub.
           destruct (IH _ (j + w)%nat (j + w)%nat (join_last fs (firstn (j - i) (skipn i s)) false ++ [[]]) false Hr' (le_n _) Hj' Hl') as (fs' & ws' & i' & H1 & H2 & H3).
           rewrite E0 in H3. exists fs', ws', i'. auto.
      * assert (Hi' : (i <= j + w)%nat) by lia.
        destruct (IH _ (j + w)%nat i fs false Hr' Hi' Hj' Hl') as (fs' & ws' & i' & H1 & H2 & H3).
        replace (j + w - i)%nat with ((j - i) + w)%nat in H3 by lia.
        rewrite firstn_add, skipn_add in H3. replace (i + (j - i))%nat with j in H3 by lia. rewrite <- Hr in H3.
        exists fs', ws', i'. auto.
Qed.

(** * the outer loop on top of it *)
Fixpoint loop' (ifs : bytes) (f : field) (fs : list field) (ws : bool) : list field * bool :=
  match f with
  | [] => (fs, ws)
  | (s, true) :: f' => loop' ifs f' (join_last fs s true) false
  | (s, false) :: f' =>
    let '(fs1, ws1, p) := seg' ifs (chunks s) fs ws [] in
    loop' ifs f' (match p with [] => fs1 | _ => join_last fs1 p false end) ws1
  end.

Lemma loop_corr ifs : forall f fs ws, split_loop ifs f fs ws = Ok (loop' ifs f fs ws).
Proof.
  induction f as [|[s q] f IH]; intros fs ws; cbn [split_loop loop']; [reflexivity|].
  destruct q; [apply IH|].
  destruct (seg_corr ifs s (length s) s 0%nat 0%nat fs ws eq_refl (le_n _) (Nat.le_0_l _) (le_n _)) as (fs' & ws' & i' & H1 & H2 & H3).
  unfold decode_all. rewrite H1. unfold chunks. cbn [Nat.sub firstn] in H3. rewrite H3.
  destruct (Nat.ltb i' (length s)) eqn:El.
  - apply Nat.ltb_lt in El. destruct (skipn i' s) eqn:Es.
    + apply (f_equal (@length _)) in Es. rewrite skipn_length in Es. cbn in Es. lia.
    + rewrite <- Es. apply IH.
  - apply Nat.ltb_ge in El. rewrite (skipn_all2 s El). apply IH.
Qed.

(** * the loops compute the specification *)
Definition out (fs : list field) : list bytes := map funquote (filter (fun g => negb (fempty g)) fs).
Definition spec_out (l : list ssym) (cur : bool * bytes) : list bytes := map snd (filter fst (pieces l cur)).
Definition nilb (p : bytes) : bool := match p with [] => true | _ => false end.
(* the piece under construction: the last field and the pending text *)
Definition st (l : field) (p : bytes) : bool * bytes := (negb (fempty l) || negb (nilb p), funquote l ++ p).
Definition inv (ws : bool) (l : field) (p : bytes) : Prop := ws = true -> fempty l = true /\ p = [].

Lemma out_app a b : out (a ++ b) = out a ++ out b.
Proof. unfold out. now rewrite filter_app, map_app. Qed.

Lemma fempty_app a b : fempty (a ++ b) = fempty a && fempty b.
Proof. unfold fempty. apply forallb_app. Qed.

Lemma funquote_app a b : funquote (a ++ b) = funquote a ++ funquote b.
Proof. unfold funquote. now rewrite map_app, concat_app. Qed.

Lemma fempty_funquote l : fempty l = true -> funquote l = [].
Proof.
  induction l as [|[s q] l IH]; [reflexivity|]. unfold fempty, funquote in *. cbn [forallb map concat fst snd].
  intros H. apply andb_true_iff in H as [H1 H2]. apply andb_true_iff in H1 as [_ H1]. apply beqb_eq in H1. subst s. cbn. auto.
Qed.

Lemma join_last_snoc fs l s q : join_last (fs ++ [l]) s q = fs ++ [l ++ [(s, q)]].
Proof. unfold join_last. rewrite upd_last_snoc. reflexivity. Qed.

Lemma nilb_beqb p : beqb p [] = nilb p.
Proof. destruct p; reflexivity. Qed.

Lemma st_flush l p : st (l ++ [(p, false)]) [] = st l p.
Proof.
  unfold st. rewrite fempty_app, funquote_app, app_nil_r. unfold fempty at 2, funquote at 2. cbn [forallb map concat fst snd negb andb].
  rewrite nilb_beqb, app_nil_r, andb_true_r, negb_andb. cbn [nilb negb]. now rewrite orb_false_r.
Qed.

Lemma out_one l : out [l] = if fst (st l []) then [snd (st l [])] else [].
Proof.
  unfold out, st. cbn [filter fst snd nilb negb]. rewrite orb_false_r, app_nil_r. destruct (fempty l); reflexivity.
Qed.

Lemma spec_cut k cur : spec_out (SD :: k) cur = (if fst cur then [snd cur] else []) ++ spec_out k (false, []).
Proof. unfold spec_out. cbn [pieces filter]. destruct (fst cur); reflexivity. Qed.

(* one unquoted segment *)
Definition usym (ifs : bytes) (rb : rune * bytes) : ssym := if contains_rune ifs (fst rb) then SD else SC (snd rb).

Lemma seg_spec ifs : forall cs fs0 l ws p, Forall (fun c : rune * bytes => snd c <> []) cs -> inv ws l p ->
  exists fs0' l' ws' p', seg' ifs cs (fs0 ++ [l]) ws p = (fs0' ++ [l'], ws', p') /\ inv ws' l' p' /\
    forall k, out fs0 ++ spec_out (map (usym ifs) cs ++ k) (st l p) = out fs0' ++ spec_out k (st l' p').
Proof.
  induction cs as [|[r b] cs IH]; intros fs0 l ws p Hne Hinv.
  - exists fs0, l, ws, p. split; [reflexivity|]. split; [exact Hinv|]. intros k. reflexivity.
  - inversion Hne as [|? ? Hb Hne']; subst. cbn [snd] in Hb. cbn [seg' map]. unfold usym at 1. cbn [fst snd].
    assert (Icut : forall w', inv w' [] []) by (intros w' _; split; reflexivity).
    assert (Cut : forall k, out fs0 ++ spec_out (SD :: (map (usym ifs) cs ++ k)) (st l p) =
                            out (fs0 ++ [l ++ [(p, false)]]) ++ spec_out (map (usym ifs) cs ++ k) (st [] [])).
    { intros k. rewrite spec_cut, out_app, out_one, st_flush, <- app_assoc. reflexivity. }
    assert (Skip : ws = true -> forall k, out fs0 ++ spec_out (SD :: (map (usym ifs) cs ++ k)) (st l p) =
                                          out fs0 ++ spec_out (map (usym ifs) cs ++ k) (st l [])).
    { intros Hw k. destruct (Hinv Hw) as [He Hp]. subst p. rewrite spec_cut.
      unfold st. rewrite He, (fempty_funquote l He). reflexivity. }
    destruct (contains_rune ifs r).
    + destruct (is_space r); destruct ws eqn:Ews.
      * destruct (Hinv eq_refl) as [He Hp].
        destruct (IH fs0 l true [] Hne' (fun _ => conj He eq_refl)) as (a & b' & c & d & H1 & H2 & H3).
        exists a, b', c, d. split; [exact H1|]. split; [exact H2|]. intros k. cbn [app]. rewrite (Skip eq_refl). apply H3.
      * rewrite join_last_snoc, <- app_assoc. cbn [app].
        destruct (IH (fs0 ++ [l ++ [(p, false)]]) [] true [] Hne' (Icut _)) as (a & b' & c & d & H1 & H2 & H3).
        rewrite <- app_assoc in H1. cbn [app] in H1.
        exists a, b', c, d. split; [exact H1|]. split; [exact H2|]. intros k. cbn [app]. rewrite Cut. apply H3.
      * destruct (Hinv eq_refl) as [He Hp].
        destruct (IH fs0 l false [] Hne' (fun H => False_ind _ (Bool.diff_false_true H))) as (a & b' & c & d & H1 & H2 & H3).
        exists a, b', c, d. split; [exact H1|]. split; [exact H2|]. intros k. cbn [app]. rewrite (Skip eq_refl). apply H3.
      * rewrite join_last_snoc, <- app_assoc. cbn [app].
        destruct (IH (fs0 ++ [l ++ [(p, false)]]) [] false [] Hne' (Icut _)) as (a & b' & c & d & H1 & H2 & H3).
        rewrite <- app_assoc in H1. cbn [app] in H1.
        exists a, b', c, d. split; [exact H1|]. split; [exact H2|]. intros k. cbn [app]. rewrite Cut. apply H3.
    + destruct (IH fs0 l false (p ++ b) Hne' (fun H => False_ind _ (Bool.diff_false_true H))) as (a & b' & c & d & H1 & H2 & H3).
      exists a, b', c, d. split; [exact H1|]. split; [exact H2|]. intros k. rewrite <- H3. f_equal. cbn [app]. unfold spec_out. cbn [pieces].
      unfold st. cbn [snd]. rewrite <- app_assoc.
      replace (negb (fempty l) || negb (nilb (p ++ b))) with true; [reflexivity|].
      destruct b as [|x b]; [congruence|]. destruct p; cbn; now rewrite orb_true_r.
Qed.

(** the chunks of a string are not empty and make up the string *)
Lemma chunks_fuel_facts : forall fuel s, (length s <= fuel)%nat ->
  Forall (fun c : rune * bytes => snd c <> []) (chunks_fuel fuel s) /\ concat (map snd (chunks_fuel fuel s)) = s.
Proof.
  induction fuel as [|f IH]; intros s Hl.
  - destruct s; [split; [constructor|reflexivity]|cbn in Hl; lia].
  - destruct s as [|c s']; [split; [constructor|reflexivity]|]. remember (c :: s') as s eqn:Es.
    assert (Hne : s <> []) by (rewrite Es; discriminate). pose proof (decode_width s Hne) as Hw.
    rewrite (chunks_fuel_S f s Hne). destruct (decode_rune s) as [r w]. cbn [fst snd] in *.
    destruct (IH (skipn w s)) as [H1 H2]; [rewrite skipn_length; lia|]. split.
    + constructor; [|exact H1]. cbn [snd]. intros H. apply (f_equal (@length _)) in H. rewrite firstn_length in H. cbn in H. lia.
    + cbn [map concat snd]. rewrite H2. apply firstn_skipn.
Qed.

Lemma quoted_syms : forall cs cur k, Forall (fun c : rune * bytes => snd c <> []) cs ->
  pieces (map (fun rb : rune * bytes => SC (snd rb)) cs ++ k) (true, cur) = pieces k (true, cur ++ concat (map snd cs)).
Proof.
  induction cs as [|[r b] cs IH]; intros cur k H; cbn [map app pieces concat snd].
  - now rewrite app_nil_r.
  - inversion H; subst. rewrite IH by assumption. cbn [snd]. now rewrite app_assoc.
Qed.

Lemma spec_quoted ifs s k cur : spec_out (seg_syms ifs (s, true) ++ k) cur = spec_out k (true, snd cur ++ s).
Proof.
  destruct (chunks_fuel_facts (length s) s (le_n _)) as [Hne Hcat]. fold (chunks s) in Hne, Hcat.
  unfold spec_out, seg_syms. cbn [app pieces]. rewrite (quoted_syms _ _ _ Hne), Hcat. reflexivity.
Qed.

Lemma st_quoted l s : (true, snd (st l []) ++ s) = st (l ++ [(s, true)]) [].
Proof.
  assert (E1 : fempty [(s, true)] = false) by reflexivity.
  assert (E2 : funquote [(s, true)] = s) by (unfold funquote; cbn; apply app_nil_r).
  unfold st. cbn [snd nilb negb]. rewrite fempty_app, funquote_app, E1, E2, !app_nil_r, andb_false_r. reflexivity.
Qed.

Lemma loop_spec ifs : forall f fs0 l ws, inv ws l [] ->
  exists fs0' l' ws', loop' ifs f (fs0 ++ [l]) ws = (fs0' ++ [l'], ws') /\ inv ws' l' [] /\
    out fs0 ++ spec_out (flat_map (seg_syms ifs) f) (st l []) = out fs0' ++ spec_out [] (st l' []).
Proof.
  induction f as [|[s q] f IH]; intros fs0 l ws Hinv.
  - exists fs0, l, ws. split; [reflexivity|]. split; [exact Hinv|]. reflexivity.
  - destruct (chunks_fuel_facts (length s) s (le_n _)) as [Hne Hcat]. fold (chunks s) in Hne, Hcat.
    cbn [loop' flat_map]. destruct q.
    + rewrite join_last_snoc.
      destruct (IH fs0 (l ++ [(s, true)]) false (fun H => False_ind _ (Bool.diff_false_true H))) as (a & b & c & H1 & H2 & H3).
      exists a, b, c. split; [exact H1|]. split; [exact H2|]. rewrite <- H3, spec_quoted, st_quoted. reflexivity.
    + destruct (seg_spec ifs (chunks s) fs0 l ws [] Hne Hinv) as (a & b & c & d & H1 & H2 & H3).
      rewrite H1.
      assert (Ef : (match d with [] => a ++ [b] | _ => join_last (a ++ [b]) d false end) = a ++ [match d with [] => b | _ => b ++ [(d, false)] end]).
      { destruct d; [reflexivity|apply join_last_snoc]. }
      rewrite Ef.
      assert (Est : st (match d with [] => b | _ => b ++ [(d, false)] end) [] = st b d).
      { destruct d; [reflexivity|apply st_flush]. }
      assert (Hinv' : inv c (match d with [] => b | _ => b ++ [(d, false)] end) []).
      { intros Hc. destruct (H2 Hc) as [He Hd]. subst d. auto. }
      destruct (IH a _ c Hinv') as (a' & b' & c' & G1 & G2 & G3).
      exists a', b', c'. split; [exact G1|]. split; [exact G2|]. rewrite <- G3, Est.
      unfold seg_syms. fold (usym ifs). apply H3.
Qed.

(** * the theorem *)
Lemma fempty_syms ifs : forall f, fempty f = true -> flat_map (seg_syms ifs) f = [].
Proof.
  induction f as [|[s q] f IH]; [reflexivity|]. unfold fempty in *. cbn [forallb flat_map fst snd]. intros H.
  apply andb_true_iff in H as [H1 H2]. apply andb_true_iff in H1 as [Hq Hs]. apply beqb_eq in Hs. subst s.
  destruct q; [discriminate|]. rewrite (IH H2). reflexivity.
Qed.

Theorem split_refines_spec e f : split_model e f = Ok (split_spec (ifs_value e) f).
Proof.
  unfold split_model, split_spec, split_field. cbv zeta.
  destruct (fempty f) eqn:Ef.
  - destruct (ifs_value e); [reflexivity|]. rewrite (fempty_syms _ f Ef). reflexivity.
  - destruct (ifs_value e) as [|c ifs] eqn:Ei.
    + cbn [filter]. rewrite Ef. reflexivity.
    + rewrite loop_corr.
      destruct (loop_spec (c :: ifs) f [] [] true (fun _ => conj eq_refl eq_refl)) as (a & b & w & H1 & H2 & H3).
      cbn [app] in H1. unfold field in *. rewrite H1.
      assert (H3' : spec_out (flat_map (seg_syms (c :: ifs)) f) (false, []) = out a ++ spec_out [] (st b [])) by exact H3.
      change (map snd (filter fst (pieces (flat_map (seg_syms (c :: ifs)) f) (false, [])))) with (spec_out (flat_map (seg_syms (c :: ifs)) f) (false, [])).
      rewrite H3'. rewrite rev_app_distr. cbn [rev app].
      assert (Eo : forall fs : list field, Ok (E := env * xerr) (map funquote (filter (fun g => negb (fempty g)) fs)) = Ok (out fs)) by reflexivity.
      assert (Elast : out a ++ spec_out [] (st b []) = out (a ++ [b])).
      { rewrite out_app, out_one. unfold spec_out. cbn [pieces filter]. destruct (fst (st b [])); reflexivity. }
      destruct (Nat.eqb (length b) 0 && w) eqn:Et.
      * apply andb_true_iff in Et as [Eb _]. apply Nat.eqb_eq in Eb. destruct b; [|discriminate].
        rewrite rev_involutive. change (spec_out [] (st [] [])) with (@nil bytes). rewrite app_nil_r. reflexivity.
      * rewrite Elast. reflexivity.
Qed.
