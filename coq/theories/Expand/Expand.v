(** Model of interp/expand.go (after the repairs): word expansion, parameter expansion, field
    splitting, quote removal, pattern escaping.  Executable; no proofs. *)
From GoSh Require Import Base.Bytes Base.Outcome Store.Env Arith.ASyntax Arith.AEval
     Pattern.Regex Pattern.PCompile Pattern.Match.
From GoShGen Require Import Extracted.
Open Scope N_scope.

(** the part of the AST that expansion looks at *)
Inductive wpart :=
| WLit (s : bytes)
| WQuote (tok : N) (value : list wpart)          (* tok: 92 backslash, 39 single, 34 double *)
| WParam (name : bytes) (op : bytes) (word : option (list wpart))
| WArith (expr : list wpart)
| WOther.                                        (* command substitution: not expanded by this package *)

Definition field := list (bytes * bool).         (* segments with their quoted flag *)

Inductive xerr :=
| XParam (name msg : bytes)
| XArith (k : akind)
| XPattern
| XUnmodelled.

Definition xres (T : Type) := outcome T (env * xerr).   (* an error carries the store at the point of failure *)

Definition mbit (m b : N) : bool := negb (N.land m b =? 0).
Definition mArith := Extracted.expmode_Arith.
Definition mAssign := Extracted.expmode_Assign.
Definition mLiteral := Extracted.expmode_Literal.
Definition mPattern := Extracted.expmode_Pattern.
Definition mQuote := Extracted.expmode_Quote.
Definition opt_bit (e : env) (i : nat) : bool := N.testbit (opts e) (N.of_nat i).

(** field helpers *)
Definition fjoin (f : field) (s : bytes) (q : bool) : field := f ++ [(s, q)].
Definition fempty (f : field) : bool := forallb (fun sq : bytes * bool => negb (snd sq) && beqb (fst sq) []) f.
Definition funquote (f : field) : bytes := concat (map fst f).

Fixpoint esc_pattern (s : bytes) : bytes :=
  match s with
  | [] => []
  | c :: s' => if memb c Extracted.pattern_escaped then 92 :: c :: esc_pattern s' else c :: esc_pattern s'
  end.
Definition fpattern (f : field) : bytes :=
  concat (map (fun sq : bytes * bool => if snd sq then esc_pattern (fst sq) else fst sq) f).

(** fields: non-empty list, the last one is the current field *)
Definition upd_last (g : field -> field) (fs : list field) : list field :=
  match rev fs with
  | [] => [g []]
  | l :: r => rev (g l :: r)
  end.
Definition join_last (fs : list field) (s : bytes) (q : bool) := upd_last (fun f => fjoin f s q) fs.
(* fields[len-1].merge(word[0]); fields = append(fields, word[1:]...) *)
Definition merge_fields (fs : list field) (w : list field) : list field :=
  match w with
  | [] => fs
  | w0 :: ws => upd_last (fun f => f ++ w0) fs ++ ws
  end.

(** IFS *)
Definition get_value (e : env) (n : bytes) : option bytes :=
  match get e n with Ok (_, v, true) => Some v | _ => None end.

Definition ifs_sep (e : env) : bytes :=
  match get_value e [73; 70; 83] with
  | Some v => firstn (snd (decode_rune v)) v
  | None => [32]
  end.

Definition join_all (e : env) (fs : list field) : field :=
  let sep := ifs_sep e in
  match fs with
  | [] => []
  | f :: rest => fold_left (fun acc g => fjoin acc sep false ++ g) rest f
  end.

(** * Tilde expansion *)
Fixpoint index_any (s : bytes) (seps : bytes) : option nat :=
  match s with
  | [] => None
  | c :: s' => if memb c seps then Some O else option_map S (index_any s' seps)
  end.

Fixpoint lookup_user (n : bytes) (u : list (bytes * bytes)) : option bytes :=
  match u with [] => None | (k, v) :: u' => if beqb n k then Some v else lookup_user n u' end.

Definition home_dir (e : env) (users : list (bytes * bytes)) (name : bytes) : bytes :=
  match name with
  | [] => match get_value e [72; 79; 77; 69] with Some v => v | None => [] end
  | _ => match lookup_user name users with Some d => d | None => [] end
  end.

(* the login-name loop; returns (name, off, col, failed) *)
Fixpoint tilde_name (seps : bytes) (name s : bytes) (col0 : nat) (word : list wpart) (off : nat)
  : bytes * nat * nat * bool :=
  match index_any s seps with
  | Some i => (name ++ firstn i s, off, (col0 + i)%nat, false)
  | None =>
    let name' := name ++ s in
    match word with
    | [] => (name', off, (col0 + length s)%nat, false)
    | WLit v :: word' => tilde_name seps name' v 0 word' (S off)
    | _ :: _ => (name', off, (col0 + length s)%nat, true)
    end
  end.

Definition expand_tilde (e : env) (users : list (bytes * bytes)) (f : field) (s : bytes)
           (word : list wpart) (mode : N) : nat * nat * field :=
  if mbit mode mArith || mbit mode mQuote then (O, O, f)
  else match s with
       | 126 :: s1 =>
         let seps := if mbit mode mAssign then [58; 47] else [47] in
         let '(name, off, col, failed) := tilde_name seps [] s1 1 word O in
         if failed then (off, col, fjoin f (126 :: name) false)
         else let dir := home_dir e users name in
              match dir with
              | [] => (off, col, fjoin f (126 :: name) false)
              | _ => (off, col, fjoin f dir true)
              end
       | _ => (O, O, f)
       end.

Definition lit_value (w : wpart) : bytes := match w with WLit v => v | _ => [] end.

(* after expandTilde returned (off, col): the literal being processed and the remaining parts *)
Definition after_tilde (s : bytes) (rest : list wpart) (off col : nat) : bytes * list wpart :=
  match off with
  | O => (skipn col s, rest)
  | S o' => (skipn col (lit_value (nth o' rest WOther)), skipn off rest)
  end.

Fixpoint index_byte (s : bytes) (c : byte) : option nat :=
  match s with [] => None | x :: s' => if x =? c then Some O else option_map S (index_byte s' c) end.

(* the `for mode&Assign != 0` loop; returns the current field, the remaining text and parts *)
Fixpoint assign_loop (fuel : nat) (e : env) (users : list (bytes * bytes)) (mode : N)
         (f : field) (s : bytes) (rest : list wpart) : field * bytes * list wpart :=
  match fuel with
  | O => (f, s, rest)
  | S fuel' =>
    match index_byte s 58 with
    | None => (f, s, rest)
    | Some j =>
      let f1 := fjoin f (firstn (S j) s) (mbit mode mQuote) in
      let s1 := skipn (S j) s in
      let '(s2, rest2) := match s1, rest with
                          | [], WLit v :: r => (v, r)
                          | _, _ => (s1, rest)
                          end in
      let '(off, col, f2) := expand_tilde e users f1 s2 rest2 mode in
      let '(s3, rest3) := after_tilde s2 rest2 off col in
      assign_loop fuel' e users mode f2 s3 rest3
    end
  end.

(** * Field splitting (split) *)
Definition is_space (r : rune) : bool :=
  in_rng 9 13 r || (r =? 32) || (r =? 133) || (r =? 160) || (r =? 5760) || in_rng 8192 8202 r
  || (r =? 8232) || (r =? 8233) || (r =? 8239) || (r =? 8287) || (r =? 12288).

Definition ifs_value (e : env) : bytes :=
  match get_value e [73; 70; 83] with Some v => v | None => Extracted.IFS end.

(* strings.ContainsRune(ifs, r) *)
Definition contains_rune (ifs : bytes) (r : rune) : bool :=
  existsb (fun x => fst x =? r) (decode_all ifs).

Definition sub (s : bytes) (i j : nat) : option bytes :=
  if Nat.leb i j && Nat.leb j (length s) then Some (firstn (j - i) (skipn i s)) else None.

(* inner loop over one unquoted segment: runes with byte offsets; state (fields, ws, i) *)
Fixpoint split_seg (ifs s : bytes) (rs : list (rune * nat)) (j : nat) (fs : list field) (ws : bool) (i : nat)
  : outcome (list field * bool * nat) (env * xerr) :=
  match rs with
  | [] => Ok (fs, ws, i)
  | (r, w) :: rs' =>
    let j' := (j + w)%nat in
    if contains_rune ifs r then
      let i' := (j + w)%nat in
      if is_space r then
        (if ws then split_seg ifs s rs' j' fs ws i'
         else match sub s i j with
              | Some t => split_seg ifs s rs' j' (join_last fs t false ++ [[]]) true i'
              | None => Panic 482
              end)
      else
        (if ws then split_seg ifs s rs' j' fs false i'
         else match sub s i j with
              | Some t => split_seg ifs s rs' j' (join_last fs t false ++ [[]]) ws i'
              | None => Panic 482
              end)
    else split_seg ifs s rs' j' fs false i
  end.

Fixpoint split_loop (ifs : bytes) (f : field) (fs : list field) (ws : bool) : outcome (list field * bool) (env * xerr) :=
  match f with
  | [] => Ok (fs, ws)
  | (s, true) :: f' => split_loop ifs f' (join_last fs s true) false
  | (s, false) :: f' =>
    match split_seg ifs s (decode_all s) 0 fs ws 0 with
    | Ok (fs1, ws1, i) =>
      if Nat.ltb i (length s) then split_loop ifs f' (join_last fs1 (skipn i s) false) ws1
      else split_loop ifs f' fs1 ws1
    | Err x => Err x
    | Panic p => Panic p
    | OutOfFuel => OutOfFuel
    end
  end.

Definition split_field (e : env) (f : field) : outcome (list field) (env * xerr) :=
  let ifs := ifs_value e in
  match ifs with
  | [] => Ok [f]
  | _ =>
    match split_loop ifs f [[]] true with
    | Ok (fs, ws) =>
      match rev fs with
      | l :: r => if Nat.eqb (length l) 0 && ws then Ok (rev r) else Ok fs
      | [] => Ok fs
      end
    | Err x => Err x
    | Panic p => Panic p
    | OutOfFuel => OutOfFuel
    end
  end.

(** * expand / expandParam *)
Definition s_at := [64].
Definition s_star := [42].

Definition join_with (sep : bytes) (l : list bytes) : bytes :=
  match l with
  | [] => []
  | x :: r => fold_left (fun acc y => acc ++ sep ++ y) r x
  end.

(* Param: one field per element of a *)
Definition param_fields (fs : list field) (a : list bytes) (q : bool) : list field :=
  match a with
  | [] => fs
  | x :: r => fold_left (fun acc y => acc ++ [[(y, q)]]) r (join_last fs x q)
  end.

(* the content of a double-quoted part consists of $@ (${@}) expansions only *)
Definition only_at (v : list wpart) : bool :=
  negb (Nat.eqb (length v) 0) && forallb (fun p => match p with WParam n op _ => beqb n s_at && beqb op [] | _ => false end) v.

Definition st := (env * list field)%type.

Section WithUsers.
  Variable users : list (bytes * bytes).

  Fixpoint expand (fuel : nat) (e : env) (word : list wpart) (mode : N) {struct fuel} : xres (env * list field) :=
    match fuel with
    | O => OutOfFuel
    | S fuel' =>
      let init : list field := if mbit mode mQuote then [[([], true)]] else [[]] in
      expand_parts fuel' e word mode true init
    end
  with expand_parts (fuel : nat) (e : env) (ws : list wpart) (mode : N) (first : bool) (fs : list field)
       {struct fuel} : xres (env * list field) :=
    match fuel with
    | O => OutOfFuel
    | S fuel' =>
      match ws with
      | [] => Ok (e, fs)
      | WLit s :: rest =>
        let q := mbit mode mQuote in
        let cur := last fs [] in
        let '(s1, rest1, cur1) :=
          if first then
            let '(off, col, f1) := expand_tilde e users cur s rest mode in
            let '(s', rest') := after_tilde s rest off col in (s', rest', f1)
          else (s, rest, cur) in
        let '(cur2, s2, rest2) :=
          if mbit mode mAssign then assign_loop (S (length s1) + length rest1 + fold_left (fun n w => (n + length (lit_value w))%nat) rest1 0%nat) e users mode cur1 s1 rest1
          else (cur1, s1, rest1) in
        let fs' := upd_last (fun _ => fjoin cur2 s2 q) fs in
        expand_parts fuel' e rest2 mode false fs'
      | WQuote tok value :: rest =>
        if (tok =? 92) || (tok =? 39) then
          match value with
          | [] => expand_parts fuel' e rest mode false (join_last fs [] true)
          | WLit s :: _ => expand_parts fuel' e rest mode false (join_last fs s true)
          | _ :: _ => Panic 135
          end
        else if tok =? 34 then
          if only_at value && Nat.leb (length (args e)) 1 then expand_parts fuel' e rest mode false fs   (* "$@" without positional parameters: no field *)
          else
          match expand fuel' e value (N.lor (N.land mode mArith) mQuote) with
          | Ok (e1, w) => expand_parts fuel' e1 rest mode false (merge_fields fs w)
          | Err x => Err x | Panic p => Panic p | OutOfFuel => OutOfFuel
          end
        else expand_parts fuel' e rest mode false fs
      | WParam name op word :: rest =>
        match expand_param fuel' e fs name op word mode with
        | Ok (e1, fs1) => expand_parts fuel' e1 rest mode false fs1
        | Err x => Err x | Panic p => Panic p | OutOfFuel => OutOfFuel
        end
      | WArith ex :: rest =>
        match expand fuel' e ex mArith with
        | Ok (e1, w) =>
          let src := funquote (join_all e1 w) in
          match eval_model e1 src with
          | (e2, Ok n) => expand_parts fuel' e2 rest mode false (join_last fs (itoa n) true)
          | (e2, Err k) => Err (e2, XArith k)
          | (_, Panic p) => Panic p
          | (_, OutOfFuel) => OutOfFuel
          end
        | Err x => Err x | Panic p => Panic p | OutOfFuel => OutOfFuel
        end
      | WOther :: rest => expand_parts fuel' e rest mode false fs
      end
    end
  with expand_param (fuel : nat) (e : env) (fs : list field) (name op : bytes) (word : option (list wpart))
       (mode : N) {struct fuel} : xres (env * list field) :=
    match fuel with
    | O => OutOfFuel
    | S fuel' =>
      let q := mbit mode mQuote in
      let pos := tl (args e) in
      (* (a, set, null) *)
      let '(a, set, null) :=
        if beqb name s_at then
          match pos with
          | [] => ([], true, true)
          | [x] => ([x], true, beqb x [])
          | _ => (pos, true, false)
          end
        else if beqb name s_star then
          match pos with
          | [] => ([], true, true)
          | [x] => ([x], true, beqb x [])
          | _ => if negb q && negb (beqb op [35] && match word with None => true | Some _ => false end)
                 then (pos, true, false)
                 else ([join_with (ifs_sep e) pos], true, false)
          end
        else match get e name with
             | Ok (_, v, true) => ([v], true, beqb v [])
             | _ => ([], false, false)
             end in
      let reserved := is_sp_param name || is_pos_param name in
      let nounset := opt_bit e Extracted.opt_NoUnset in
      let unset_err : xres (env * list field) := Err (e, XParam name [112;97;114;97;109;101;116;101;114;32;105;115;32;117;110;115;101;116]) in
      let param := Ok (e, param_fields fs a q) in
      let sub_expand (m : N) (k : env -> list field -> xres (env * list field)) :=
        match word with
        | None => Panic 314
        | Some w =>
          match expand fuel' e w m with
          | Ok (e1, wf) => k e1 wf
          | Err x => Err x | Panic p => Panic p | OutOfFuel => OutOfFuel
          end
        end in
      match op with
      | [] =>
        if mbit mode mArith && negb reserved then
          (if negb set && nounset then unset_err else Ok (e, join_last fs name q))
        else if set && negb null then param
        else if negb set && nounset then unset_err
        else Ok (e, fs)
      | _ =>
        match word with
        | None =>
          if beqb op [35] then
            if negb set && nounset then unset_err
            else
              let n := if beqb name s_at then length a
                       else match a with x :: _ => rune_count x | [] => O end in
              Ok (e, join_last fs (itoa (Z.of_nat n)) q)
          else Ok (e, fs)
        | Some w =>
          let colon := match op with 58 :: _ => true | _ => false end in
          let kind := last op 0 in
          let is2 := Nat.eqb (length op) 2 in
          if (beqb op [58; 45]) || (beqb op [45]) then
            if set && negb null then param
            else if negb set || colon then
              sub_expand (N.lor (N.land mode (N.lor mAssign mQuote)) mLiteral)
                         (fun e1 wf => Ok (e1, merge_fields fs wf))
            else Ok (e, fs)
          else if (beqb op [58; 61]) || (beqb op [61]) then
            if set && negb null then param
            else if negb set || colon then
              if reserved then Err (e, XParam name [99;97;110;110;111;116;32;97;115;115;105;103;110;32;105;110;32;116;104;105;115;32;119;97;121])
              else sub_expand (N.lor (N.land mode mQuote) mLiteral)
                     (fun e1 wf => Ok (set_var e1 name (funquote (join_all e1 wf)), merge_fields fs wf))
            else Ok (e, fs)
          else if (beqb op [58; 63]) || (beqb op [63]) then
            if set && negb null then param
            else if negb set || colon then
              match w with
              | [] => Err (e, XParam name [112;97;114;97;109;101;116;101;114;32;105;115;32;117;110;115;101;116;32;111;114;32;110;117;108;108])
              | _ => sub_expand (N.lor (N.land mode mQuote) mLiteral)
                       (fun e1 wf => Err (e1, XParam name (funquote (join_all e1 wf))))
              end
            else Ok (e, fs)
          else if (beqb op [58; 43]) || (beqb op [43]) then
            if set && (negb null || negb colon) then
              sub_expand (N.lor (N.land mode (N.lor mAssign mQuote)) mLiteral)
                         (fun e1 wf => Ok (e1, merge_fields fs wf))
            else Ok (e, fs)
          else if (beqb op [37]) || (beqb op [37; 37]) || (beqb op [35]) || (beqb op [35; 35]) then
            if set && negb null then
              sub_expand mPattern (fun e1 wf =>
                let pat := fpattern (join_all e1 wf) in
                let suffix := (kind =? 37) in
                let pmode := N.lor (if suffix then Extracted.mode_Suffix else Extracted.mode_Prefix)
                                   (if is2 then Extracted.mode_Largest else Extracted.mode_Smallest) in
                let step (acc : xres (list field * bool)) (s : bytes) : xres (list field * bool) :=
                  match acc with
                  | Ok (fs1, firstp) =>
                    let cont (m : bytes) :=
                      let fs2 := if firstp then fs1 else fs1 ++ [[]] in
                      let piece := if suffix then firstn (length s - length m) s else skipn (length m) s in
                      Ok (join_last fs2 piece q, false) in
                    match match_model [pat] pmode s with
                    | MOk m => cont m
                    | MNoMatch => cont []
                    | MErr => Err (e1, XPattern)
                    | MUnmodelled => Err (e1, XUnmodelled)
                    end
                  | other => other
                  end in
                match fold_left step a (Ok (fs, true)) with
                | Ok (fs1, _) => Ok (e1, fs1)
                | Err x => Err x | Panic p => Panic p | OutOfFuel => OutOfFuel
                end)
            else if negb set && nounset then unset_err
            else Ok (e, fs)
          else Ok (e, fs)
        end
      end
    end.

  (** pathname expansion oracle: the harness runs with NoGlob unless a glob model is supplied *)
  Variable glob : bytes -> option (list bytes).

  Fixpoint part_size (w : wpart) : nat :=
    let list_size := fix go (l : list wpart) : nat :=
                       match l with [] => 1%nat | p :: l' => (part_size p + go l')%nat end in
    match w with
    | WLit s => S (length s)
    | WQuote _ v => S (list_size v)
    | WParam _ _ (Some x) => S (list_size x)
    | WParam _ _ None => 1%nat
    | WArith x => S (list_size x)
    | WOther => 1%nat
    end.
  Definition word_size (ws : list wpart) : nat := fold_right (fun p n => (part_size p + n)%nat) 1%nat ws.

  Definition expand_path (f : field) : list bytes :=
    match glob (fpattern f) with
    | Some (p :: ps) => p :: ps
    | _ => [funquote f]
    end.

  (* Expand in Quote mode ("as if within double-quotes"): a word of $@ only, without positional parameters, is no field *)
  Definition quoted_at_only (e : env) (word : list wpart) (mode : N) : bool :=
    mbit mode mQuote && negb (mbit mode mLiteral || mbit mode mPattern) && Nat.leb (length (args e)) 1 && only_at word.

  Definition expand_top (e : env) (word : list wpart) (mode : N) : xres (env * list bytes) :=
    if quoted_at_only e word mode then Ok (e, []) else
    match expand (4 * S (word_size word)) e word mode with
    | Err x => Err x | Panic p => Panic p | OutOfFuel => OutOfFuel
    | Ok (e1, fields) =>
      if mbit mode mLiteral then Ok (e1, [funquote (join_all e1 fields)])
      else if mbit mode mPattern then Ok (e1, [fpattern (join_all e1 fields)])
      else
        let step (acc : xres (list bytes)) (f : field) : xres (list bytes) :=
          match acc with
          | Ok rv =>
            if mbit mode mArith || mbit mode mQuote then Ok (rv ++ [funquote f])
            else if fempty f then Ok rv
            else match split_field e1 f with
                 | Ok parts =>
                   Ok (rv ++ concat (map (fun g => if fempty g then []
                                                   else if opt_bit e1 Extracted.opt_NoGlob then [funquote g]
                                                        else expand_path g) parts))
                 | Err x => Err x | Panic p => Panic p | OutOfFuel => OutOfFuel
                 end
          | other => other
          end in
        match fold_left step fields (Ok []) with
        | Ok rv => Ok (e1, rv)
        | Err x => Err x | Panic p => Panic p | OutOfFuel => OutOfFuel
        end
    end.
End WithUsers.
