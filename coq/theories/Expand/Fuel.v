(** The recursion budget Expand is given (4 * (size of the word + 1)) always suffices: the model of
    Expand never reports an exhausted budget, for any word, environment and mode. *)
From GoSh Require Import Base.Bytes Base.Outcome Store.Env Store.EnvSpec Arith.ASyntax Arith.AEval Arith.AProofs Arith.ATotal Pattern.Match Expand.Expand Expand.Spec Expand.SplitRefine Expand.Frame Expand.NoPanic.
From Coq Require Import Lia.
Open Scope N_scope.

Definition R {A E} (r : outcome A E) : Prop := match r with OutOfFuel => False | _ => True end.

Section NF.
  Variable users : list (bytes * bytes).
  Variable glob : bytes -> option (list bytes).
  Notation ws := word_size.

  Lemma ws_cons p w : ws (p :: w) = (part_size p + ws w)%nat.
  Proof. reflexivity. Qed.

  Lemma ws_pos w : (1 <= ws w)%nat.
  Proof. induction w as [|p w IH]; [cbn; lia|]. rewrite ws_cons. lia. Qed.

  Lemma ws_skipn n : forall w, (ws (skipn n w) <= ws w)%nat.
  Proof. induction n as [|n IH]; intros w; [cbn [skipn]; lia|]. destruct w as [|p w]; [cbn; lia|]. cbn [skipn]. rewrite ws_cons. specialize (IH w). lia. Qed.

  Lemma list_size_ws w : (fix go (l : list wpart) : nat := match l with [] => 1%nat | p :: l' => (part_size p + go l')%nat end) w = ws w.
  Proof. induction w as [|p w IH]; [reflexivity|]. rewrite ws_cons, <- IH. reflexivity. Qed.

  Lemma after_tilde_ws s rest off col : (ws (snd (after_tilde s rest off col)) <= ws rest)%nat.
  Proof. unfold after_tilde. destruct off; cbn [snd]; [lia|apply ws_skipn]. Qed.

  Lemma assign_loop_ws : forall fuel e mode f s rest, (ws (snd (assign_loop fuel e users mode f s rest)) <= ws rest)%nat.
  Proof.
    induction fuel as [|fuel IH]; intros e mode f s rest; cbn [assign_loop]; [cbn [snd]; lia|].
    destruct (index_byte s 58) as [j|]; [|cbn [snd]; lia]. cbv zeta.
    match goal with |- context [match ?x with (_, _) => _ end] => destruct x as [s2 rest2] eqn:E1 end.
    assert (H2 : (ws rest2 <= ws rest)%nat).
    { destruct (skipn (S j) s) as [|c0 s0].
      - destruct rest as [|p r]; [inversion E1; subst; lia|].
        destruct p; inversion E1; subst; try lia. rewrite ws_cons. lia.
      - inversion E1; subst. lia. }
    match goal with |- context [match ?x with (_, _) => _ end] => destruct x as [[off col] f2] end.
    match goal with |- context [match ?x with (_, _) => _ end] => destruct x as [s3 rest3] eqn:E3 end.
    pose proof (after_tilde_ws s2 rest2 off col) as H3. rewrite E3 in H3. cbn [snd] in H3.
    specialize (IH e mode f2 s3 rest3). lia.
  Qed.

  Lemma part_quote tok v : part_size (WQuote tok v) = S (ws v).
  Proof. cbn [part_size]. now rewrite list_size_ws. Qed.
  Lemma part_arith v : part_size (WArith v) = S (ws v).
  Proof. cbn [part_size]. now rewrite list_size_ws. Qed.
  Lemma part_param n o v : part_size (WParam n o (Some v)) = S (ws v).
  Proof. cbn [part_size]. now rewrite list_size_ws. Qed.

  Lemma eval_model_fuel e src : R (snd (eval_model e src)).
  Proof. pose proof (eval_model_total e src) as H. destruct (snd (eval_model e src)); cbn in *; auto. Qed.

  Lemma fold_fuel {A B} (stepf : xres A -> B -> xres A) :
    (forall acc s, R acc -> R (stepf acc s)) -> forall l acc, R acc -> R (fold_left stepf l acc).
  Proof. intros Hs. induction l as [|s l IH]; intros acc Ha; cbn; [exact Ha|]. apply IH, Hs, Ha. Qed.

  Definition need_param (word : option (list wpart)) : nat := match word with Some w => (2 * ws w + 2)%nat | None => 1%nat end.

  Lemma enough fuel :
    (forall e w m, (2 * ws w + 1 <= fuel)%nat -> R (expand users fuel e w m)) /\
    (forall e wl m first fs, (2 * ws wl <= fuel)%nat -> R (expand_parts users fuel e wl m first fs)) /\
    (forall e fs name op word mode, (need_param word <= fuel)%nat -> R (expand_param users fuel e fs name op word mode)).
  Proof.
    induction fuel as [|f (IH1 & IH2 & IH3)].
    { repeat split; intros; [lia|pose proof (ws_pos wl); lia|destruct word; cbn [need_param] in *; lia]. }
    split; [|split].
    - intros e w m H. cbn [expand]. apply IH2. lia.
    - intros e wl m first fs H. cbn [expand_parts]. fold (expand users) (expand_parts users) (expand_param users).
      destruct wl as [|p rest]; [exact I|]. rewrite ws_cons in H. pose proof (ws_pos rest) as Hr.
      destruct p.
      + (* literal *) cbv zeta. assert (Hp : (1 <= part_size (WLit s))%nat) by (cbn; lia).
        assert (H1 : (ws (snd (fst (if first then let '(off, col, f1) := expand_tilde e users (last fs []) s rest m in
                                                 let '(s', rest') := after_tilde s rest off col in (s', rest', f1)
                                    else (s, rest, last fs [])))) <= ws rest)%nat).
        { destruct first; [|cbn [fst snd]; lia]. destruct (expand_tilde e users (last fs []) s rest m) as [[off col] f1].
          pose proof (after_tilde_ws s rest off col) as Ha. destruct (after_tilde s rest off col); exact Ha. }
        destruct (if first then _ else _) as [[s1 rest1] cur1]. cbn [fst snd] in H1.
        assert (H2 : (ws (snd (if mbit m mAssign
                               then assign_loop (S (length s1) + length rest1 + fold_left (fun n w => (n + length (lit_value w))%nat) rest1 0%nat) e users m cur1 s1 rest1
                               else (cur1, s1, rest1))) <= ws rest1)%nat).
        { destruct (mbit m mAssign); [apply assign_loop_ws|cbn [snd]; lia]. }
        destruct (if mbit m mAssign then _ else _) as [[cur2 s2] rest2]. cbn [snd] in H2. apply IH2. lia.
      + (* quote *) rewrite part_quote in H. pose proof (ws_pos value) as Hv.
        destruct ((tok =? 92) || (tok =? 39)).
        * destruct value as [|[] ?]; try exact I; apply IH2; lia.
        * destruct (tok =? 34); [|apply IH2; lia].
          destruct (only_at value && Nat.leb (length (args e)) 1); [apply IH2; lia|].
          match goal with |- R (match expand users f ?e ?w ?m with _ => _ end) =>
            assert (H1 : R (expand users f e w m)) by (apply IH1; lia); destruct (expand users f e w m) as [[e1 w1]|[e1 x1]| |] end;
            cbn [R] in *; try exact I; try contradiction. apply IH2; lia.
      + (* parameter *)
        match goal with |- R (match expand_param users f ?e ?a ?b ?c ?d ?m with _ => _ end) =>
          assert (H1 : R (expand_param users f e a b c d m));
          [apply IH3; destruct d as [v|]; cbn [need_param]; [rewrite part_param in H; lia|cbn [part_size] in H; lia]|];
          destruct (expand_param users f e a b c d m) as [[e1 w1]|[e1 x1]| |] end;
          cbn [R] in *; try exact I; try contradiction.
        apply IH2. assert (1 <= part_size (WParam name op word))%nat by (destruct word; cbn; lia). lia.
      + (* arithmetic *) rewrite part_arith in H. pose proof (ws_pos expr) as Hv.
        match goal with |- R (match expand users f ?e ?w ?m with _ => _ end) =>
          assert (H1 : R (expand users f e w m)) by (apply IH1; lia); destruct (expand users f e w m) as [[e1 w1]|[e1 x1]| |] end;
          cbn [R] in *; try exact I; try contradiction.
        cbv zeta. pose proof (eval_model_fuel e1 (funquote (join_all e1 w1))) as H2.
        destruct (eval_model e1 (funquote (join_all e1 w1))) as [e2 [n|k| |]]; cbn [snd R] in *; try exact I; try contradiction.
        apply IH2; lia.
      + apply IH2. cbn [part_size] in H. lia.
    - (* expandParam *)
      intros e fs name op word mode Hw. cbn [expand_param]. fold (expand users) (expand_parts users) (expand_param users). cbv zeta.
      destruct word as [w|]; cbn [need_param] in Hw.
      + repeat match goal with
               | |- R (match expand users f ?e ?w ?m with _ => _ end) =>
                 let H := fresh "HX" in assert (H : R (expand users f e w m)) by (apply IH1; lia);
                 destruct (expand users f e w m) as [[? ?]|[? ?]| |]; cbn [R] in H; try contradiction
               | |- R (match fold_left ?st ?l ?acc with _ => _ end) =>
                 let E := fresh "EF" in
                 assert (E : R (fold_left st l acc));
                 [apply fold_fuel; [|exact I]; intros acc0 s0 Ha0; destruct acc0 as [[? ?]|[? ?]| |]; cbn [R] in *; try exact I; try contradiction;
                  destruct (match_model _ _ _); exact I
                 |destruct (fold_left st l acc) as [[? ?]|[? ?]| |]; cbn [R] in E; try contradiction]
               | |- R (match ?x with _ => _ end) => destruct x
               | |- R (if ?x then _ else _) => destruct x
               end; try exact I.
      + repeat match goal with
               | |- R (match ?x with _ => _ end) => destruct x
               | |- R (if ?x then _ else _) => destruct x
               end; try exact I.
  Qed.

  Theorem expand_top_enough e w m : R (expand_top users glob e w m).
  Proof.
    unfold expand_top. destruct (quoted_at_only e w m); [exact I|]. assert (H1 : R (expand users (4 * S (ws w)) e w m)) by (apply (proj1 (enough (4 * S (ws w)))); lia).
    destruct (expand users (4 * S (ws w)) e w m) as [[e1 fields]|[e1 x]| |]; cbn [R] in *; try exact I; try contradiction.
    destruct (mbit m mLiteral); [exact I|]. destruct (mbit m mPattern); [exact I|].
    match goal with |- R (match fold_left ?st ?l ?acc with _ => _ end) => assert (EF : R (fold_left st l acc)) end.
    { apply fold_fuel; [|exact I]. intros acc f Ha. destruct acc as [rv|[ea xa]| |]; cbn [R] in *; try exact I; try contradiction.
      destruct (mbit m mArith || mbit m mQuote); [exact I|]. destruct (fempty f); [exact I|].
      destruct (split_field_ok e1 f) as [parts ->]. exact I. }
    match goal with |- R (match ?x with _ => _ end) => destruct x as [rv|[ea xa]| |] end; cbn [R] in *; try exact I; contradiction.
  Qed.

  Theorem expand_top_total e w m : wfw w = true ->
    match expand_top users glob e w m with Ok _ | Err _ => True | Panic _ | OutOfFuel => False end.
  Proof.
    intros H. pose proof (expand_top_nopanic users glob e w m H) as H1.
    pose proof (expand_top_enough e w m) as H2. destruct (expand_top users glob e w m); auto.
  Qed.
End NF.
