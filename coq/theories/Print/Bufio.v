(** Two mechanisms of the printer (printer/printer.go): the buffered writer whose first error is
    sticky, and the temporary in-place edit of the last separator with its deferred undo. *)
From Coq Require Import List Arith Lia Bool.
Import ListNotations.

(** * bufio.Writer over a writer that accepts at most [limit] bytes
    Writes go to a buffer; at moments that depend on the buffer size (abstracted: any moments, any
    amounts) part of the buffer is handed to the underlying writer; the first failure is sticky;
    the final Flush hands over everything that is left and returns the sticky error. *)
Record bw := mkBw { pending : nat; room : nat (* what the underlying writer still accepts *); failed : bool }.

Inductive bop := BWrite (n : nat) | BFlushSome (a : nat).

Definition hand_over (w : bw) (a : nat) : bw :=
  if failed w then w
  else if a <=? room w then mkBw (pending w - a) (room w - a) false
  else mkBw (pending w) 0 true.

Definition bstep (w : bw) (o : bop) : bw :=
  match o with
  | BWrite n => if failed w then w else mkBw (pending w + n) (room w) false
  | BFlushSome a => hand_over w (Nat.min a (pending w))
  end.

Definition written (ops : list bop) : nat :=
  fold_left (fun t o => match o with BWrite n => t + n | _ => t end) ops 0.

(* Fprint: the operations, then the final Flush of everything pending *)
Definition fprint (ops : list bop) (limit : nat) : bw :=
  let w := fold_left bstep ops (mkBw 0 limit false) in hand_over w (pending w).

Lemma hand_over_failed w a : failed w = true -> failed (hand_over w a) = true.
Proof. intros H. unfold hand_over. rewrite H. exact H. Qed.

Lemma bstep_failed w o : failed w = true -> failed (bstep w o) = true.
Proof. intros H. destruct o; cbn; [rewrite H; exact H|apply hand_over_failed, H]. Qed.

(** conservation while nothing failed: accepted + pending = written *)
Lemma bstep_inv limit w o t :
  failed w = false -> room w <= limit -> (limit - room w) + pending w = t ->
  let w' := bstep w o in
  failed w' = true \/
  (failed w' = false /\ room w' <= limit /\
   (limit - room w') + pending w' = match o with BWrite n => t + n | _ => t end).
Proof.
  intros Hf Hr Ht. destruct o as [n|a]; cbn.
  - rewrite Hf. right. cbn. repeat split; try assumption. lia.
  - unfold hand_over. rewrite Hf. destruct (Nat.min a (pending w) <=? room w) eqn:E.
    + apply Nat.leb_le in E. right. cbn. repeat split; lia.
    + left. reflexivity.
Qed.

(** A writer that fails before the whole output has been accepted is reported: whatever the
    buffering schedule, Fprint returns an error when the text is longer than what the writer takes. *)
Theorem failing_writer_reported ops limit :
  limit < written ops -> failed (fprint ops limit) = true.
Proof.
  unfold fprint, written.
  assert (G : forall os w t, failed w = false -> room w <= limit -> (limit - room w) + pending w = t ->
            limit < fold_left (fun t o => match o with BWrite n => t + n | _ => t end) os t ->
            let w' := fold_left bstep os w in failed (hand_over w' (pending w')) = true).
  { induction os as [|o os IH]; intros w t Hf Hr Ht Hlim; cbn in *.
    - unfold hand_over. rewrite Hf. destruct (pending w <=? room w) eqn:E; [|reflexivity].
      apply Nat.leb_le in E. lia.
    - destruct (bstep_inv limit w o t Hf Hr Ht) as [H|(H1 & H2 & H3)].
      + apply hand_over_failed. clear -H. revert H. generalize (bstep w o).
        induction os as [|m os IHo]; intros w0 H; cbn; [exact H|]. apply IHo, bstep_failed, H.
      + eapply IH; eassumption. }
  intros H. apply (G ops (mkBw 0 limit false) 0); cbn; try reflexivity; try lia; try exact H.
Qed.

(** * The temporary edit of the last separator and its deferred undo *)
(* separators of the nodes the printer may touch: true = ";" *)
Definition trim (seps : list bool) (i : nat) : list bool * option nat :=
  match nth_error seps i with
  | Some true => (firstn i seps ++ false :: skipn (S i) seps, Some i)
  | _ => (seps, None)
  end.

Definition undo (seps : list bool) (u : option nat) : list bool :=
  match u with
  | Some i => firstn i seps ++ true :: skipn (S i) seps
  | None => seps
  end.

Lemma firstn_exact {A} (l1 l2 : list A) : firstn (length l1) (l1 ++ l2) = l1.
Proof. induction l1; cbn; [destruct l2; reflexivity|f_equal; assumption]. Qed.

Lemma skipn_exact {A} (l1 : list A) a l2 : skipn (S (length l1)) (l1 ++ a :: l2) = l2.
Proof. induction l1; cbn; [reflexivity|assumption]. Qed.

Lemma undo_trim seps i : undo (fst (trim seps i)) (snd (trim seps i)) = seps.
Proof.
  unfold trim. destruct (nth_error seps i) as [[|]|] eqn:E; cbn [fst snd undo]; try reflexivity.
  apply nth_error_split in E as (l1 & l2 & -> & <-).
  repeat (rewrite ?firstn_exact, ?skipn_exact). reflexivity.
Qed.

(** nested edits undone in reverse order (defer) restore every separator, also when the same node
    is trimmed twice (the second trim finds nothing to hide and registers no undo) *)
Fixpoint trims (seps : list bool) (is : list nat) : list bool * list (option nat) :=
  match is with
  | [] => (seps, [])
  | i :: is' => let '(s1, u) := trim seps i in
                let '(s2, us) := trims s1 is' in (s2, us ++ [u])
  end.

Theorem trims_then_undos_restore : forall is seps,
  fold_left undo (snd (trims seps is)) (fst (trims seps is)) = seps.
Proof.
  induction is as [|i is IH]; intros seps; cbn; [reflexivity|].
  pose proof (undo_trim seps i) as Hu. destruct (trim seps i) as [s1 u]. cbn in Hu.
  specialize (IH s1). destruct (trims s1 is) as [s2 us]. cbn in *.
  rewrite fold_left_app. cbn. rewrite IH. exact Hu.
Qed.
