(** Where the printer writes here-document bodies (printer/printer.go: push, redir, newline,
    heredoc, suspend) and why the parser finds them again.
    The printer keeps a stack of levels, each with the here-documents announced and not yet
    written; a newline writes everything pending, outermost level first; leaving a level writes
    what is left of it; a multi-line expansion hides the enclosing levels while it is printed (and
    may itself be printed while a body is being written: bodies contain expansions).
    The reader is what the lexer does: announced here-documents are read, in the order of their
    announcement, at the next newline of the same lexer (a substitution has its own lexer). *)
From Coq Require Import List Arith Bool Lia.
Import ListNotations.

Inductive hop :=
| OPush | OPop            (* enter / leave a level; leaving starts writing what is pending below and in it *)
| ORedir (id : nat)       (* a here-document redirection is printed: announced on the top level *)
| ONewline                (* newline(): starts writing everything pending *)
| OBody (id : nat)        (* the next body is written, after a newline *)
| OEndNewline             (* the newline that ends newline() *)
| OSuspend | OResume.     (* a multi-line expansion begins / ends *)
Inductive ev := EAnn (id : nat) | ENL | EBody (id : nat) | ESub | EEndSub.

(** * the printer: levels with the top first, the bodies being written, the suspended contexts *)
Record pst := mkP { levels : list (list nat); writing : list nat; saved : list (list (list nat) * list nat) }.

(* pending here-documents in the order of their announcement: outermost level first *)
Definition pending (ls : list (list nat)) : list nat := concat (rev ls).
Definition cleared (ls : list (list nat)) : list (list nat) := map (fun _ => []) ls.

Definition hstep (s : pst) (o : hop) : option (pst * list ev) :=
  match o with
  | OPush => match writing s with [] => Some (mkP ([] :: levels s) [] (saved s), []) | _ => None end
  | ORedir id =>
    match writing s, levels s with
    | [], top :: rest => Some (mkP ((top ++ [id]) :: rest) [] (saved s), [EAnn id])
    | _, _ => None                                 (* no level: index out of range in the code *)
    end
  | ONewline =>
    match writing s with
    | [] => Some (mkP (cleared (levels s)) (pending (levels s)) (saved s), [])
    | _ => None
    end
  | OPop =>
    match writing s, levels s with
    | [], [] :: rest => Some (mkP rest [] (saved s), [])          (* nothing left in it: the levels below stay as they are *)
    | [], top :: rest => Some (mkP (cleared rest) (pending rest ++ top) (saved s), [])
    | _, _ => None
    end
  | OBody id =>
    match writing s with
    | id0 :: w => if Nat.eqb id id0 then Some (mkP (levels s) w (saved s), [ENL; EBody id]) else None
    | [] => None
    end
  | OEndNewline =>
    match writing s, pending (levels s) with
    | [], [] => Some (s, [ENL])
    | _, _ => None
    end
  | OSuspend => Some (mkP [] [] ((levels s, writing s) :: saved s), [ESub])
  | OResume =>
    match levels s, writing s, saved s with
    | [], [], (ls, w) :: sv => Some (mkP ls w sv, [EEndSub])
    | _, _, _ => None
    end
  end.

Fixpoint hrun (s : pst) (ops : list hop) : option (pst * list ev) :=
  match ops with
  | [] => Some (s, [])
  | o :: ops' =>
    match hstep s o with
    | Some (s1, e1) => match hrun s1 ops' with Some (s2, e2) => Some (s2, e1 ++ e2) | None => None end
    | None => None
    end
  end.

(** * the reader *)
Inductive rmode := RNormal | RBody.

Fixpoint reader (evs : list ev) (m : rmode) (q : list nat) (ctx : list (list nat)) : bool :=
  match evs with
  | [] => match m, q, ctx with RNormal, [], [] => true | _, _, _ => false end
  | e :: r =>
    match m, e with
    | RNormal, EAnn id => reader r RNormal (q ++ [id]) ctx
    | RNormal, ENL => match q with [] => reader r RNormal [] ctx | _ => reader r RBody q ctx end
    | RNormal, ESub => reader r RNormal [] (q :: ctx)
    | RNormal, EEndSub => match q, ctx with [], q0 :: ctx' => reader r RNormal q0 ctx' | _, _ => false end
    | RNormal, EBody _ => false
    | RBody, EBody id =>
      match q with
      | id0 :: q' => if Nat.eqb id id0 then reader r RNormal q' ctx else false
      | [] => false
      end
    | RBody, _ => false
    end
  end.

(** * the proof *)
Lemma pending_cleared ls : pending (cleared ls) = [].
Proof.
  unfold pending, cleared. rewrite <- map_rev. induction (rev ls) as [|l r IH]; cbn; [reflexivity|exact IH].
Qed.

Lemma pending_cons top rest : pending (top :: rest) = pending rest ++ top.
Proof. unfold pending. cbn [rev]. rewrite concat_app. cbn. now rewrite app_nil_r. Qed.

(* the reader's queue that corresponds to a printer state: what is being written, then what is pending *)
Definition q_of (ls : list (list nat)) (w : list nat) : list nat := w ++ pending ls.
Definition ctx_of (sv : list (list (list nat) * list nat)) : list (list nat) := map (fun c => q_of (fst c) (snd c)) sv.

Lemma step_reader s o s1 e1 : hstep s o = Some (s1, e1) -> forall k,
  reader (e1 ++ k) RNormal (q_of (levels s) (writing s)) (ctx_of (saved s)) =
  reader k RNormal (q_of (levels s1) (writing s1)) (ctx_of (saved s1)).
Proof.
  unfold q_of. destruct o; cbn [hstep]; intros H k.
  - (* push *) destruct (writing s) eqn:Ew; [|discriminate]. inversion H; subst. cbn [levels writing saved app].
    rewrite pending_cons, app_nil_r. reflexivity.
  - (* pop *) destruct (writing s) eqn:Ew; [|discriminate]. destruct (levels s) as [|top rest] eqn:E; [discriminate|].
    destruct top as [|x top'].
    + inversion H; subst. cbn [levels writing saved app]. rewrite pending_cons, app_nil_r. reflexivity.
    + inversion H; subst. cbn [levels writing saved app]. rewrite pending_cons, pending_cleared, app_nil_r. reflexivity.
  - (* redir *) destruct (writing s) eqn:Ew; [|discriminate]. destruct (levels s) as [|top rest] eqn:E; [discriminate|].
    inversion H; subst. cbn [levels writing saved app reader]. rewrite !pending_cons, app_assoc. reflexivity.
  - (* newline *) destruct (writing s) eqn:Ew; [|discriminate]. inversion H; subst. cbn [levels writing saved app].
    rewrite pending_cleared, app_nil_r. reflexivity.
  - (* body *) destruct (writing s) as [|id0 w] eqn:Ew; [discriminate|]. destruct (Nat.eqb id id0) eqn:En; [|discriminate].
    inversion H; subst. cbn [levels writing saved app reader]. rewrite En. reflexivity.
  - (* end of newline *) destruct (writing s) eqn:Ew; [|discriminate]. destruct (pending (levels s)) eqn:Ep; [|discriminate].
    inversion H; subst. rewrite Ew, Ep. cbn [app reader]. reflexivity.
  - (* suspend *) inversion H; subst. cbn [levels writing saved app reader ctx_of map fst snd pending rev concat]. reflexivity.
  - (* resume *) destruct (levels s) as [|? ?] eqn:E; [|discriminate]. destruct (writing s) eqn:Ew; [|discriminate].
    destruct (saved s) as [|[ls w] sv] eqn:E2; [discriminate|].
    inversion H; subst. cbn [levels writing saved app reader ctx_of map fst snd pending rev concat]. reflexivity.
Qed.

Lemma run_reader ops : forall s s2 evs, hrun s ops = Some (s2, evs) -> forall k,
  reader (evs ++ k) RNormal (q_of (levels s) (writing s)) (ctx_of (saved s)) =
  reader k RNormal (q_of (levels s2) (writing s2)) (ctx_of (saved s2)).
Proof.
  induction ops as [|o ops IH]; intros s s2 evs H k; cbn [hrun] in H.
  - inversion H; subst. reflexivity.
  - destruct (hstep s o) as [[s1 e1]|] eqn:E1; [|discriminate].
    destruct (hrun s1 ops) as [[s3 e2]|] eqn:E2; [|discriminate]. inversion H; subst.
    rewrite <- app_assoc, (step_reader _ _ _ _ E1). apply (IH _ _ _ E2).
Qed.

(** Whatever sequence of printer operations is performed (any nesting of levels and suspended
    expansions, any placement of newlines, expansions printed in the middle of a body), if it runs
    without fault and ends with every level left and every body written, the text is read back:
    each here-document is read exactly once, by the lexer that saw its announcement, at the first
    newline after it, in the order of the announcements. *)
Theorem printed_heredocs_are_read_back ops s evs :
  hrun (mkP [] [] []) ops = Some (s, evs) -> levels s = [] -> writing s = [] -> saved s = [] ->
  reader evs RNormal [] [] = true.
Proof.
  intros H Hl Hw Hs. pose proof (run_reader ops _ _ _ H []) as R. rewrite app_nil_r in R.
  cbn [levels writing saved q_of pending rev concat ctx_of map app] in R. rewrite R, Hl, Hw, Hs. reflexivity.
Qed.

(** Non-vacuity: cat <<1 | while cat <<2; do NL ... done ; a document whose body holds a multi-line
    expansion that announces another one; a redirection printed when no level exists is a fault. *)
Example heredocs_example :
  hrun (mkP [] [] []) [OPush; ORedir 1; OPush; ORedir 2; ONewline; OBody 1; OBody 2; OEndNewline; OPop; OPop] =
    Some (mkP [] [] [], [EAnn 1; EAnn 2; ENL; EBody 1; ENL; EBody 2; ENL]) /\
  hrun (mkP [] [] []) [OPush; ORedir 1; ONewline; OBody 1; OSuspend; OPush; ORedir 2; ONewline; OBody 2; OEndNewline; OPop; ONewline; OEndNewline; OResume; OEndNewline; OPop] =
    Some (mkP [] [] [], [EAnn 1; ENL; EBody 1; ESub; EAnn 2; ENL; EBody 2; ENL; ENL; EEndSub; ENL]) /\
  hrun (mkP [] [] []) [ORedir 1] = None.
Proof. vm_compute. repeat split. Qed.
