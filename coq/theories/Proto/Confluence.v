(** Generic rewriting lemma: a relation with the strong diamond property has unique final states.
    Used for the two-goroutine protocol: every schedule (every maximal run) ends in the same state. *)
From Coq Require Import Relations.

Section Confluence.
  Variable S : Type.
  Variable step : S -> S -> Prop.

  Inductive steps : S -> S -> Prop :=
  | steps_refl s : steps s s
  | steps_cons s t u : step s t -> steps t u -> steps s u.

  Lemma steps_trans a b c : steps a b -> steps b c -> steps a c.
  Proof. induction 1; intros; [assumption|]. econstructor; eauto. Qed.

  Lemma steps_one a b : step a b -> steps a b.
  Proof. intros. econstructor; [eassumption|constructor]. Qed.

  (** strong diamond on an invariant: two different steps from a state can be joined by one step each *)
  Definition strong_diamond (I : S -> Prop) : Prop :=
    forall s a b, I s -> step s a -> step s b ->
      exists c, (a = c \/ step a c) /\ (b = c \/ step b c).

  Definition invariant (I : S -> Prop) : Prop := forall s t, I s -> step s t -> I t.

  Definition final (s : S) : Prop := forall t, ~ step s t.

  Variable I : S -> Prop.
  Hypothesis Hinv : invariant I.
  Hypothesis Hdia : strong_diamond I.

  Lemma steps_inv s t : I s -> steps s t -> I t.
  Proof. intros Hs H. induction H; [assumption|]. apply IHsteps. eapply Hinv; eassumption. Qed.

  (** strip lemma: one step against many *)
  Lemma strip s a b : I s -> step s a -> steps s b -> exists c, steps a c /\ (b = c \/ step b c).
  Proof.
    intros Hs Ha Hb. revert a Ha. induction Hb as [s|s t u Hst Htu IH]; intros a Ha.
    - exists a. split; [constructor|]. right. exact Ha.
    - destruct (Hdia s a t Hs Ha Hst) as (c & Hac & Htc).
      assert (Hcu : exists d, steps c d /\ (u = d \/ step u d)).
      { destruct Htc as [<-|Htc].
        - exists u. split; [exact Htu|]. left. reflexivity.
        - apply (IH (Hinv _ _ Hs Hst) c Htc). }
      destruct Hcu as (d & Hcd & Hud).
      exists d. split; [|exact Hud].
      destruct Hac as [->|Hac]; [exact Hcd|econstructor; eassumption].
  Qed.

  (** confluence *)
  Lemma confluence s a b : I s -> steps s a -> steps s b -> exists c, steps a c /\ steps b c.
  Proof.
    intros Hs Ha. revert b. induction Ha as [s|s t u Hst Htu IH]; intros b Hb.
    - exists b. split; [exact Hb|constructor].
    - destruct (strip s t b Hs Hst Hb) as (c & Htc & Hbc).
      destruct (IH (Hinv _ _ Hs Hst) c Htc) as (d & Hud & Hcd).
      exists d. split; [exact Hud|].
      destruct Hbc as [->|Hbc]; [exact Hcd|econstructor; eassumption].
  Qed.

  (** every two maximal runs from the same state end in the same state *)
  Theorem unique_final s a b : I s -> steps s a -> steps s b -> final a -> final b -> a = b.
  Proof.
    intros Hs Ha Hb Fa Fb. destruct (confluence s a b Hs Ha Hb) as (c & Hac & Hbc).
    inversion Hac as [|? t ? Hst _]; subst; [|exfalso; eapply Fa; eassumption].
    inversion Hbc as [|? t ? Hst _]; subst; [reflexivity|exfalso; eapply Fb; eassumption].
  Qed.
End Confluence.
