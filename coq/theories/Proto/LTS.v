(** The two-goroutine protocol of ParseCommands / Eval (after the repairs) as a labelled transition
    system, and the proof that every schedule gives the same result.

    Lexer goroutine: a deterministic program that emits tokens over an unbuffered channel, may
    wait for here-document redirections pushed by the parser, may report an error of its own, and
    looks at the cancel flag only when it emits (or waits).  Parser: a deterministic automaton
    fed with the received tokens; it may report an error (which cancels the lexer), pushes
    here-document redirections while it processes a token, and joins the lexer before returning.
    The error slot is updated through an order-independent merge. *)
From Coq Require Import List Arith Lia.
From GoSh Require Import Proto.Confluence.
Import ListNotations.

Section LTS.
  Variable tok : Type.
  Variable hd : Type.                       (* a here-document redirection *)
  Variable res : Type.                      (* what the parser returns on acceptance *)

  (** errors are ranked; the slot keeps the most significant (smallest rank): 0 = read error,
      1 + position for a syntax error (the first in the source wins) *)
  Definition err := nat.
  Definition report (s : option err) (e : err) : option err :=
    match s with None => Some e | Some o => Some (Nat.min o e) end.
  (* "unexpected EOF" after the lexer stopped: recorded only when nothing was recorded *)
  Definition report_eof (s : option err) (e : err) : option err :=
    match s with None => Some e | Some o => Some o end.

  Lemma report_comm s a b : report (report s a) b = report (report s b) a.
  Proof. destruct s; cbn; f_equal; lia. Qed.

  (** the lexer's deterministic program *)
  Inductive lprog :=
  | LEmit (t : tok) (k : lprog)
  | LPop (k : lprog)                         (* heredoc.pop(): wait for a pushed redirection *)
  | LFail (e : err)                          (* error(): record, cancel, stop *)
  | LEnd.                                    (* end of input *)

  (** the parser's deterministic automaton *)
  Variable pstate : Type.
  Record pout := mkPout { p_next : pstate + err; p_push : list hd }.
  Variable pfeed : pstate -> tok -> pout.
  Variable peof : pstate -> res + err.

  Inductive lst := LRun (p : lprog) | LExit.
  Inductive pst :=
  | PWant (s : pstate)                       (* in Lex, waiting for a token *)
  | PBusy (s : pstate) (t : tok)             (* processing the received token *)
  | PJoin (r : option res)                   (* yyParse returned; wait() *)
  | PRet (r : option res).                   (* ParseCommands / Eval returned *)

  Record cfg := Cfg {
    cL : lst; cP : pst; cancel : bool; slot : option err;
    queue : list hd;          (* pushed, not yet popped *)
    popped : list hd;         (* in pop order *)
    pushed : list hd;         (* ghost: every redirection ever pushed, in push order *)
    delivered : nat           (* tokens handed over *)
  }.

  Inductive step : cfg -> cfg -> Prop :=
  | s_recv t k s sl q lg ph n :                (* rendezvous on the token channel *)
      step (Cfg (LRun (LEmit t k)) (PWant s) false sl q lg ph n)
           (Cfg (LRun k) (PBusy s t) false sl q lg ph (S n))
  | s_bail t k p sl q lg ph n :                (* emit observes the cancellation *)
      step (Cfg (LRun (LEmit t k)) p true sl q lg ph n)
           (Cfg LExit p true sl q lg ph n)
  | s_pop k p c sl h q lg ph n :               (* a pushed redirection is taken, oldest first *)
      step (Cfg (LRun (LPop k)) p c sl (h :: q) lg ph n)
           (Cfg (LRun k) p c sl q (lg ++ [h]) ph n)
  | s_pop_cancel k p sl lg ph n :              (* nothing pushed and the parser has given up *)
      step (Cfg (LRun (LPop k)) p true sl [] lg ph n)
           (Cfg (LRun k) p true sl [] lg ph n)
  | s_fail e p c sl q lg ph n :                (* the lexer's own error *)
      step (Cfg (LRun (LFail e)) p c sl q lg ph n)
           (Cfg LExit p true (report sl e) q lg ph n)
  | s_end p c sl q lg ph n :
      step (Cfg (LRun LEnd) p c sl q lg ph n)
           (Cfg LExit p c sl q lg ph n)
  | s_proc_ok l s t s' c sl q lg ph n :        (* the parser digests a token, pushing redirections *)
      p_next (pfeed s t) = inl s' ->
      step (Cfg l (PBusy s t) c sl q lg ph n)
           (Cfg l (PWant s') c sl (q ++ p_push (pfeed s t)) lg (ph ++ p_push (pfeed s t)) n)
  | s_proc_err l s t e c sl q lg ph n :        (* a syntax error: record and cancel *)
      p_next (pfeed s t) = inr e ->
      step (Cfg l (PBusy s t) c sl q lg ph n)
           (Cfg l (PJoin None) true (report sl e) (q ++ p_push (pfeed s t)) lg (ph ++ p_push (pfeed s t)) n)
  | s_eof_ok s r c sl q lg ph n :              (* the channel is closed: end of input *)
      peof s = inl r ->
      step (Cfg LExit (PWant s) c sl q lg ph n)
           (Cfg LExit (PJoin (Some r)) c sl q lg ph n)
  | s_eof_err s e c sl q lg ph n :
      peof s = inr e ->
      step (Cfg LExit (PWant s) c sl q lg ph n)
           (Cfg LExit (PJoin None) true (report_eof sl e) q lg ph n)
  | s_cancel l r sl q lg ph n :                (* wait(): close cancel *)
      step (Cfg l (PJoin r) false sl q lg ph n)
           (Cfg l (PJoin r) true sl q lg ph n)
  | s_ret r sl q lg ph n :                     (* wait(): the lexer has exited *)
      step (Cfg LExit (PJoin r) true sl q lg ph n)
           (Cfg LExit (PRet r) true sl q lg ph n).

  (** what makes emit's select deterministic: once cancelled, the parser never receives again
      unless the lexer is already gone *)
  Definition Inv (c : cfg) : Prop :=
    cancel c = true ->
    cL c = LExit \/ match cP c with PJoin _ | PRet _ => True | _ => False end.

  Lemma Inv_invariant : invariant cfg step Inv.
  Proof.
    intros s t HI Hst. unfold Inv in *. destruct Hst; cbn in *; intros Hc;
      try discriminate;
      try (specialize (HI Hc)); try (specialize (HI eq_refl));
      repeat match goal with H : _ \/ _ |- _ => destruct H end;
      try discriminate; try contradiction; auto.
  Qed.

  Ltac solve_join :=
    first [ left; reflexivity
          | right; eexists; split; econstructor; eassumption
          | right; eexists; split; [econstructor; eassumption|]; econstructor; eassumption ].

  Lemma strong_dia : strong_diamond cfg step Inv.
  Proof.
    intros s a b HI Ha Hb.
    destruct Ha; inversion Hb; subst; cbn in *;
      try solve [eexists; split; left; reflexivity];
      try solve [eexists; split; left; f_equal; congruence];
      try congruence;
      try solve [exfalso; unfold Inv in HI; cbn in HI; specialize (HI eq_refl); destruct HI as [HIa|HIb]; [discriminate HIa|exact HIb]].
    (* genuinely concurrent pairs: both orders reach the same state *)
    all: try solve [eexists; split; right; econstructor; eauto].
    all: try solve [eexists; split; [right; eapply s_pop|right; rewrite <- app_assoc; cbn; eapply s_proc_ok; eauto]].
    all: try solve [eexists; split; [right; eapply s_proc_ok; eauto|right; rewrite <- app_comm_cons; eapply s_pop]].
    all: try solve [eexists; split; [right; eapply s_pop|right; rewrite <- app_assoc; cbn; eapply s_proc_err; eauto]].
    all: try solve [eexists; split; [right; eapply s_proc_err; eauto|right; rewrite <- app_comm_cons; eapply s_pop]].
    all: try solve [eexists; split; [right; eapply s_fail|right; rewrite report_comm; eapply s_proc_err; eauto]].
    all: try solve [eexists; split; [right; eapply s_proc_err; eauto|right; rewrite report_comm; eapply s_fail]].
    (* one side subsumes the other: failing / ending after the cancellation is the same state *)
    all: try solve [eexists; split; [left; reflexivity|right; econstructor; eauto]].
    all: try solve [eexists; split; [right; econstructor; eauto|left; reflexivity]].
    all: try solve [exfalso; congruence].
    all: try solve [repeat match goal with H1 : ?x = _, H2 : ?x = _ |- _ => rewrite H1 in H2; inversion H2; subst; clear H2 end;
                    eexists; split; left; reflexivity].
    Unshelve. all: try exact (Cfg LExit (PRet None) true None [] [] [] 0).
  Qed.

  (** * Every schedule gives the same result *)
  Definition init (p : lprog) (s0 : pstate) : cfg := Cfg (LRun p) (PWant s0) false None [] [] [] 0.

  Lemma Inv_init p s0 : Inv (init p s0).
  Proof. unfold Inv, init; cbn. discriminate. Qed.

  Notation steps := (Confluence.steps cfg step).
  Notation final := (Confluence.final cfg step).

  Theorem schedule_independent p s0 a b :
    steps (init p s0) a -> steps (init p s0) b -> final a -> final b -> a = b.
  Proof.
    intros Ha Hb Fa Fb.
    exact (unique_final cfg step Inv Inv_invariant strong_dia (init p s0) a b (Inv_init p s0) Ha Hb Fa Fb).
  Qed.

  (** * Nothing keeps running after return *)
  Definition Quiet (c : cfg) : Prop := match cP c with PRet _ => cL c = LExit | _ => True end.

  Lemma Quiet_invariant : invariant cfg step Quiet.
  Proof.
    intros s t HQ Hst. unfold Quiet in *.
    destruct Hst; cbn in *; auto;
      try (match goal with p : pst |- _ => destruct p end; cbn in *; auto; try discriminate).
  Qed.

  Lemma reachable_inv (J : cfg -> Prop) : invariant cfg step J -> forall s t, J s -> steps s t -> J t.
  Proof. intros HJ s t Hs H. induction H; [assumption|]. apply IHsteps. eapply HJ; eassumption. Qed.

  Theorem quiescent_at_return p s0 c r :
    steps (init p s0) c -> cP c = PRet r -> cL c = LExit /\ final c.
  Proof.
    intros Hc HP. assert (HQ : Quiet c) by (eapply reachable_inv; [exact Quiet_invariant| |exact Hc]; exact I).
    unfold Quiet in HQ. rewrite HP in HQ. split; [exact HQ|].
    intros t Hst. destruct c as [l pp cc sl q lg ph n]; cbn in *; subst. inversion Hst.
  Qed.

  (** * Here-document redirections are taken in the order they were pushed *)
  Definition Fifo (c : cfg) : Prop := pushed c = popped c ++ queue c.

  Lemma Fifo_invariant : invariant cfg step Fifo.
  Proof.
    intros s t HF Hst. unfold Fifo in *. destruct Hst; cbn in *; auto.
    - rewrite HF, <- app_assoc. reflexivity.
    - rewrite HF, app_assoc. reflexivity.
    - rewrite HF, app_assoc. reflexivity.
  Qed.

  Theorem heredoc_fifo p s0 c :
    steps (init p s0) c -> exists rest, pushed c = popped c ++ rest.
  Proof.
    intros Hc. exists (queue c). change (Fifo c). eapply reachable_inv; [exact Fifo_invariant| |exact Hc]. reflexivity.
  Qed.

  (** * Once cancelled, nothing is delivered any more (what makes emit's select deterministic) *)
  Theorem no_delivery_after_cancel p s0 c c' :
    steps (init p s0) c -> step c c' -> cancel c = true -> delivered c' = delivered c.
  Proof.
    intros Hc Hst Hcan. destruct Hst; cbn in *; try reflexivity. discriminate.
  Qed.

  (** * Progress: the only way to get stuck before returning
      Every reachable configuration can move, has returned, or is the one situation the code
      excludes by construction: the lexer waits for a here-document redirection while the
      parser waits for a token (the parser pushes the redirection while it processes the
      delimiter word, i.e. before the lexer can reach the newline that triggers the wait). *)
  Definition heredoc_standoff (c : cfg) : Prop :=
    exists k s, cL c = LRun (LPop k) /\ cP c = PWant s /\ queue c = [] /\ cancel c = false.

  Theorem progress c :
    Inv c -> (exists c', step c c') \/ (exists r, cP c = PRet r) \/ heredoc_standoff c.
  Proof.
    intros HI. destruct c as [l p cc sl q lg ph n]. unfold Inv in HI; cbn in HI.
    destruct p as [s|s t|r|r].
    - (* parser waits for a token *)
      destruct l as [[t k|k|e|]|].
      + destruct cc; [left; eexists; apply s_bail|left; eexists; apply s_recv].
      + destruct q as [|h q]; [|left; eexists; apply s_pop].
        destruct cc; [left; eexists; apply s_pop_cancel|].
        right. right. exists k, s. cbn. auto.
      + left. eexists. apply s_fail.
      + left. eexists. apply s_end.
      + destruct (peof s) eqn:E; left; eexists; [eapply s_eof_ok|eapply s_eof_err]; eassumption.
    - destruct (p_next (pfeed s t)) eqn:E; left; eexists; [eapply s_proc_ok|eapply s_proc_err]; eassumption.
    - destruct cc.
      + destruct l as [[t k|k|e|]|].
        * left. eexists. apply s_bail.
        * destruct q as [|h q]; left; eexists; [apply s_pop_cancel|apply s_pop].
        * left. eexists. apply s_fail.
        * left. eexists. apply s_end.
        * left. eexists. apply s_ret.
      + left. eexists. apply s_cancel.
    - right. left. exists r. reflexivity.
  Qed.
End LTS.
