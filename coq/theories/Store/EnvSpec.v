(** Specification of the variable store as an abstract map, and the refinement proof. *)
From GoSh Require Import Base.Bytes Base.Outcome Store.Env.
From GoShGen Require Import Extracted.
Open Scope N_scope.

(** * The abstract store: a total function from names to optional values. *)
Definition amap := bytes -> option bytes.

Definition abs (e : env) : amap := fun k => lookup k (vars e).

(** A name is reserved when it is a special or a positional parameter. *)
Definition reserved (n : bytes) : bool := is_sp_param n || is_pos_param n.

Definition spec_set (m : amap) (n v : bytes) : amap :=
  if reserved n then m else fun k => if beqb k n then Some v else m k.
Definition spec_unset (m : amap) (n : bytes) : amap :=
  fun k => if beqb k n then None else m k.

(** Names whose Get is synthesised from Args/Opts (never from the map). *)
Definition synthesised (n : bytes) : bool :=
  (Nat.eqb (length n) 1 && mem_bytes n Extracted.get_specials) || is_pos_param n.

Definition keys_distinct (m : list (bytes * bytes)) : Prop := NoDup (map fst m).
Definition wf (e : env) : Prop := keys_distinct (vars e).

(** * Lemmas on the association list *)
Lemma lookup_remove_same k m : lookup k (remove k m) = None.
Proof.
  induction m as [|[k' v] m IH]; cbn; [reflexivity|].
  destruct (beqb k k') eqn:E; [exact IH|]. cbn. rewrite E. exact IH.
Qed.

Lemma lookup_remove_other k k' m : k <> k' -> lookup k (remove k' m) = lookup k m.
Proof.
  intros Hne. induction m as [|[k2 v] m IH]; cbn; [reflexivity|].
  destruct (beqb k' k2) eqn:E.
  - apply beqb_eq in E; subst k2.
    destruct (beqb k k') eqn:E2; [apply beqb_eq in E2; contradiction|exact IH].
  - cbn. destruct (beqb k k2); [reflexivity|exact IH].
Qed.

Lemma remove_keys_subset k m x : In x (map fst (remove k m)) -> In x (map fst m) /\ x <> k.
Proof.
  induction m as [|[k' v] m IH]; cbn; [tauto|].
  destruct (beqb k k') eqn:E.
  - intros H. destruct (IH H) as [H1 H2]. split; [right; exact H1|exact H2].
  - cbn. intros [<-|H].
    + split; [left; reflexivity|]. apply beqb_neq in E. congruence.
    + destruct (IH H) as [H1 H2]. split; [right; exact H1|exact H2].
Qed.

Lemma remove_keys_distinct k m : keys_distinct m -> keys_distinct (remove k m).
Proof.
  unfold keys_distinct. induction m as [|[k' v] m IH]; cbn; intros H; [constructor|].
  inversion H as [|? ? Hnin Hnd]; subst.
  destruct (beqb k k'); [exact (IH Hnd)|].
  cbn. constructor; [|exact (IH Hnd)].
  intros Hin. apply remove_keys_subset in Hin. tauto.
Qed.

Lemma insert_keys_distinct k v m : keys_distinct m -> keys_distinct (insert k v m).
Proof.
  intros H. unfold keys_distinct, insert. cbn. constructor.
  - intros Hin. apply remove_keys_subset in Hin. tauto.
  - apply remove_keys_distinct, H.
Qed.

Lemma lookup_In k v m : keys_distinct m -> (In (k, v) m <-> lookup k m = Some v).
Proof.
  unfold keys_distinct. induction m as [|[k' v'] m IH]; cbn; intros H.
  - split; [tauto|discriminate].
  - inversion H as [|? ? Hnin Hnd]; subst.
    destruct (beqb k k') eqn:E.
    + apply beqb_eq in E; subst k'. split.
      * intros [Heq|Hin]; [congruence|].
        exfalso. apply Hnin. change k with (fst (k, v)). apply in_map, Hin.
      * intros Heq. left. congruence.
    + apply beqb_neq in E. rewrite <- (IH Hnd). split.
      * intros [Heq|Hin]; [congruence|exact Hin].
      * intros Hin; right; exact Hin.
Qed.

(** * One-step refinement *)
Lemma abs_set e n v k : abs (set_var e n v) k = spec_set (abs e) n v k.
Proof.
  unfold set_var, spec_set, reserved, abs.
  destruct (is_sp_param n || is_pos_param n); [reflexivity|].
  cbn. destruct (beqb k n) eqn:E; [reflexivity|].
  apply beqb_neq in E. apply lookup_remove_other, E.
Qed.

Lemma abs_unset e n k : abs (unset_var e n) k = spec_unset (abs e) n k.
Proof.
  unfold unset_var, spec_unset, abs. cbn.
  destruct (beqb k n) eqn:E.
  - apply beqb_eq in E; subst. apply lookup_remove_same.
  - apply beqb_neq in E. apply lookup_remove_other, E.
Qed.

Lemma set_frame e n v : args (set_var e n v) = args e /\ opts (set_var e n v) = opts e /\ pid (set_var e n v) = pid e.
Proof. unfold set_var. destruct (_ || _); cbn; auto. Qed.

Lemma unset_frame e n : args (unset_var e n) = args e /\ opts (unset_var e n) = opts e /\ pid (unset_var e n) = pid e.
Proof. cbn; auto. Qed.

Lemma set_wf e n v : wf e -> wf (set_var e n v).
Proof.
  unfold wf, set_var. destruct (_ || _); cbn; [tauto|]. apply insert_keys_distinct.
Qed.

Lemma unset_wf e n : wf e -> wf (unset_var e n).
Proof. unfold wf, unset_var; cbn. apply remove_keys_distinct. Qed.

(** Get on an ordinary name reads the abstract map. *)
Lemma get_ordinary e n :
  synthesised n = false ->
  get e n = match abs e n with Some v => Ok (n, v, true) | None => Ok ([], [], false) end.
Proof.
  unfold synthesised, get, abs. intros H. apply orb_false_iff in H as [H1 H2].
  rewrite H1, H2. reflexivity.
Qed.

(** Get on a synthesised name does not look at the map at all. *)
Lemma get_synth_indep e e' n :
  synthesised n = true -> args e = args e' -> opts e = opts e' -> pid e = pid e' ->
  get e n = get e' n.
Proof.
  unfold synthesised, get. intros H Ha Ho Hp.
  destruct (Nat.eqb (length n) 1 && mem_bytes n Extracted.get_specials) eqn:E1.
  - unfold get_special. rewrite Ha, Ho, Hp. reflexivity.
  - cbn in H. rewrite H, Ha. reflexivity.
Qed.

(** Set on a reserved name is the identity on the whole environment. *)
Lemma set_reserved_id e n v : reserved n = true -> set_var e n v = e.
Proof. unfold reserved, set_var. intros ->. reflexivity. Qed.

Lemma synthesised_reserved n : synthesised n = true -> reserved n = true.
Proof.
  unfold synthesised, reserved. intros H.
  apply orb_true_iff in H as [H|H]; [|rewrite H; apply orb_true_r].
  apply andb_true_iff in H as [Hl Hm].
  apply orb_true_iff; left. unfold is_sp_param.
  (* every single-character name of Get's switch is in isSpParam's list *)
  revert Hm. generalize n. clear.
  assert (Hsub : forallb (fun x => mem_bytes x Extracted.sp_params) Extracted.get_specials = true)
    by (vm_compute; reflexivity).
  intros n. induction Extracted.get_specials as [|g gs IH]; cbn in *; [discriminate|].
  apply andb_true_iff in Hsub as [Hg Hgs].
  destruct (beqb n g) eqn:E; cbn.
  - apply beqb_eq in E; subst. intros _. exact Hg.
  - intros H. apply IH; assumption.
Qed.

(** Walk enumerates exactly the live entries, each once. *)
Lemma walk_exact e : wf e ->
  NoDup (map fst (walk e)) /\ forall k v, In (k, v) (walk e) <-> abs e k = Some v.
Proof.
  intros H. split; [exact H|]. intros k v. apply lookup_In, H.
Qed.

(** * Histories: the abstract run *)
Record astate := mkA { a_args : list bytes; a_opts : N; a_pid : Z; a_map : amap }.

Definition absS (e : env) : astate := mkA (args e) (opts e) (pid e) (abs e).

(** observation of the abstract machine; Walk yields a predicate on listings *)
Inductive aobs :=
| ANone
| AGot (r : outcome getres unit)
| AWalked (m : amap).

Definition spec_get (a : astate) (n : bytes) : outcome getres unit :=
  if synthesised n
  then get (mkEnv (a_args a) (a_opts a) (a_pid a) []) n   (* map-independent, see get_synth_indep *)
  else match a_map a n with Some v => Ok (n, v, true) | None => Ok ([], [], false) end.

Definition astep (a : astate) (o : op) : astate * aobs :=
  match o with
  | OSet n v => (mkA (a_args a) (a_opts a) (a_pid a) (spec_set (a_map a) n v), ANone)
  | OUnset n => (mkA (a_args a) (a_opts a) (a_pid a) (spec_unset (a_map a) n), ANone)
  | OGet n => (a, AGot (spec_get a n))
  | OWalk => (a, AWalked (a_map a))
  end.

Fixpoint arun (a : astate) (ops : list op) : astate * list aobs :=
  match ops with
  | [] => (a, [])
  | o :: ops' => let '(a1, ob) := astep a o in
                 let '(a2, obs') := arun a1 ops' in (a2, ob :: obs')
  end.

Definition obs_match (c : obs) (a : aobs) : Prop :=
  match c, a with
  | ONone, ANone => True
  | OGot r, AGot r' => r = r'
  | OWalked l, AWalked m => NoDup (map fst l) /\ forall k v, In (k, v) l <-> m k = Some v
  | _, _ => False
  end.

Definition aeq (a b : astate) : Prop :=
  a_args a = a_args b /\ a_opts a = a_opts b /\ a_pid a = a_pid b /\ forall k, a_map a k = a_map b k.

Lemma step_refines e a o :
  wf e -> aeq (absS e) a ->
  let '(e', c) := step e o in
  let '(a', s) := astep a o in
  wf e' /\ aeq (absS e') a' /\ obs_match c s.
Proof.
  intros Hwf (Ha & Ho & Hp & Hm). destruct o as [n v|n|n|]; cbn -[get].
  - split; [apply set_wf, Hwf|]. split; [|exact I].
    destruct (set_frame e n v) as (F1 & F2 & F3).
    unfold aeq, absS; cbn. rewrite F1, F2, F3. repeat split; try assumption.
    intros k. rewrite abs_set. unfold spec_set. destruct (reserved n); [apply Hm|].
    destruct (beqb k n); [reflexivity|apply Hm].
  - split; [apply unset_wf, Hwf|]. split; [|exact I].
    unfold aeq, absS; cbn. repeat split; try assumption.
    intros k. change (abs (unset_var e n) k = spec_unset (a_map a) n k).
    rewrite abs_unset. unfold spec_unset. destruct (beqb k n); [reflexivity|apply Hm].
  - split; [exact Hwf|]. split; [repeat split; assumption|].
    unfold spec_get. destruct (synthesised n) eqn:E.
    + apply get_synth_indep; cbn; assumption.
    + rewrite (get_ordinary _ _ E). cbn in Hm. rewrite <- Hm. reflexivity.
  - split; [exact Hwf|]. split; [repeat split; assumption|].
    destruct (walk_exact e Hwf) as [H1 H2]. split; [exact H1|].
    intros k v. rewrite H2. cbn in Hm. rewrite Hm. tauto.
Qed.

(** Every history: the implementation model's observations are those of the abstract map. *)
Theorem run_refines ops : forall e a,
  wf e -> aeq (absS e) a ->
  wf (fst (run e ops)) /\ aeq (absS (fst (run e ops))) (fst (arun a ops)) /\
  Forall2 obs_match (snd (run e ops)) (snd (arun a ops)).
Proof.
  induction ops as [|o ops IH]; intros e a Hwf Heq; cbn -[step astep].
  - repeat split; try apply Heq; try assumption. constructor.
  - pose proof (step_refines e a o Hwf Heq) as Hs.
    destruct (step e o) as [e1 c]. destruct (astep a o) as [a1 s].
    destruct Hs as (Hwf1 & Heq1 & Hobs).
    specialize (IH e1 a1 Hwf1 Heq1).
    destruct (run e1 ops) as [e2 cs]. destruct (arun a1 ops) as [a2 ss].
    cbn in *. destruct IH as (H1 & H2 & H3). repeat split; try apply H2; try assumption.
    constructor; assumption.
Qed.

(** Option.String never panics, for every bit combination (needs the repaired loop bound). *)
Lemma option_string_loop_total n : forall i o,
  (i + n <= length Extracted.optionString)%nat ->
  exists s, option_string_loop n i o = Ok s.
Proof.
  induction n as [|n IH]; intros i o Hb; cbn [option_string_loop]; [eexists; reflexivity|].
  destruct (existsb (Nat.eqb i) Extracted.option_skip); [apply IH; lia|].
  destruct (N.testbit o (N.of_nat i)); [|apply IH; lia].
  destruct (nth_error Extracted.optionString i) eqn:E.
  - destruct (IH (S i) o ltac:(lia)) as [s ->]. cbn [obind]. eexists; reflexivity.
  - apply nth_error_None in E. lia.
Qed.
