(** Model of interp/interp.go: ExecEnv store (Get/Set/Unset/Walk), special and positional
    parameters, Option.String.  Executable; no proofs here. *)
From GoSh Require Import Base.Bytes Base.Outcome.
From GoShGen Require Import Extracted.
Open Scope N_scope.

Record env := mkEnv {
  args : list bytes;          (* ExecEnv.Args, element 0 is $0 *)
  opts : N;                   (* ExecEnv.Opts *)
  pid  : Z;                   (* oracle for os.Getpid() *)
  vars : list (bytes * bytes) (* the map: key -> value, keys pairwise distinct *)
}.

Fixpoint lookup (k : bytes) (m : list (bytes * bytes)) : option bytes :=
  match m with
  | [] => None
  | (k', v) :: m' => if beqb k k' then Some v else lookup k m'
  end.

Fixpoint remove (k : bytes) (m : list (bytes * bytes)) : list (bytes * bytes) :=
  match m with
  | [] => []
  | (k', v) :: m' => if beqb k k' then remove k m' else (k', v) :: remove k m'
  end.

Definition insert (k v : bytes) (m : list (bytes * bytes)) := (k, v) :: remove k m.

Fixpoint mem_bytes (k : bytes) (l : list bytes) : bool :=
  match l with [] => false | x :: l' => beqb k x || mem_bytes k l' end.

(** isSpParam / isPosParam *)
Definition is_sp_param (s : bytes) : bool := mem_bytes s Extracted.sp_params.
Definition is_pos_param (s : bytes) : bool :=
  forallb is_digit s && negb (beqb s []) && negb (beqb s [48]).

(** Option.String.  The loop bound is translated from the source
    ([option_loop_inclusive] is [true] iff the code says [i <= len(optionString)]);
    indexing past the end is a panic, as in Go. *)
Definition opt_loop_bound : nat :=
  if Extracted.option_loop_inclusive then S (length Extracted.optionString)
  else length Extracted.optionString.

Fixpoint option_string_loop (n : nat) (i : nat) (o : N) : outcome bytes unit :=
  match n with
  | O => Ok []
  | S n' =>
    if existsb (Nat.eqb i) Extracted.option_skip then option_string_loop n' (S i) o
    else if N.testbit o (N.of_nat i) then
      match nth_error Extracted.optionString i with
      | Some c => rest <- option_string_loop n' (S i) o ;; Ok (c :: rest)
      | None => Panic 21
      end
    else option_string_loop n' (S i) o
  end.
Definition option_string (o : N) : outcome bytes unit := option_string_loop opt_loop_bound 0 o.

(** Get: result is (Var.Name, Var.Value, set). *)
Definition getres := (bytes * bytes * bool)%type.

Definition get_special (e : env) (name : bytes) : outcome getres unit :=
  let mk v := Ok (name, v, negb (beqb v [])) in
  match name with
  | [35] (* # *) => mk (itoa (Z.of_nat (length (args e)) - 1))
  | [63] (* ? *) => mk [48]
  | [45] (* - *) => v <- option_string (opts e) ;; Ok (name, v, true)     (* set even when no option is *)
  | [36] (* $ *) => mk (itoa (pid e))
  | [33] (* ! *) => mk []
  | [48] (* 0 *) => match args e with a0 :: _ => Ok (name, a0, true) | [] => Panic 70 end    (* set even when the name is empty *)
  | _ => Panic 0
  end.

Definition get (e : env) (name : bytes) : outcome getres unit :=
  if (Nat.eqb (length name) 1) && mem_bytes name Extracted.get_specials then get_special e name
  else if is_pos_param name then
    let i := atoi_digits name 0 in
    if (i <? Z.of_nat (length (args e)))%Z then
      match nth_error (args e) (Z.to_nat i) with
      | Some a => Ok (itoa i, a, true)
      | None => Panic 86
      end
    else Ok ([], [], false)
  else match lookup name (vars e) with
       | Some v => Ok (name, v, true)
       | None => Ok ([], [], false)
       end.

Definition set_var (e : env) (name value : bytes) : env :=
  if is_sp_param name || is_pos_param name then e
  else mkEnv (args e) (opts e) (pid e) (insert name value (vars e)).

Definition unset_var (e : env) (name : bytes) : env :=
  mkEnv (args e) (opts e) (pid e) (remove name (vars e)).

(** Walk enumerates the entries (Go: in unspecified order). *)
Definition walk (e : env) : list (bytes * bytes) := vars e.

(** Operation histories *)
Inductive op := OSet (n v : bytes) | OUnset (n : bytes) | OGet (n : bytes) | OWalk.

Inductive obs :=
| ONone
| OGot (r : outcome getres unit)
| OWalked (l : list (bytes * bytes)).

Definition step (e : env) (o : op) : env * obs :=
  match o with
  | OSet n v => (set_var e n v, ONone)
  | OUnset n => (unset_var e n, ONone)
  | OGet n => (e, OGot (get e n))
  | OWalk => (e, OWalked (walk e))
  end.

Fixpoint run (e : env) (ops : list op) : env * list obs :=
  match ops with
  | [] => (e, [])
  | o :: ops' => let '(e1, ob) := step e o in
                 let '(e2, obs') := run e1 ops' in (e2, ob :: obs')
  end.
