(** The grammar of parser/parser.go.y as a derivation relation over token lists (the specification
    the predictive parser of Grammar.v is proved against).  [G_x ts hs sk hs']: the token list [ts]
    derives nonterminal x, building the skeleton text [sk], with the here-document bodies consumed
    from [hs] leaving [hs'].  Written production by production; no look-ahead, no recursion budget. *)
From Coq Require Import String.
From GoSh Require Import Base.Bytes Parse.Skel Parse.Grammar.
Open Scope N_scope.

(** linebreak / newline_list: zero or more NEWLINE tokens *)
Inductive NLs : list token -> Prop :=
| NLs_nil : NLs []
| NLs_cons t ts : tk t = K_NL -> NLs ts -> NLs (t :: ts).

(** io_redir: [IO_NUMBER] operator WORD (io_file and io_here) *)
Inductive G_redir : list token -> list hbody -> bytes -> list hbody -> Prop :=
| G_redir_plain o w op hs body hs' :
    redir_op (tk o) = Some op -> tk w = K_WORD -> take_body (tk o) hs = (body, hs') ->
    G_redir [o; w] hs (sk_redir None op (tw w) body) hs'
| G_redir_num n o w op hs body hs' :
    tk n = K_IONUM -> redir_op (tk o) = Some op -> tk w = K_WORD -> take_body (tk o) hs = (body, hs') ->
    G_redir [n; o; w] hs (sk_redir (Some (first_lit (tw n))) op (tw w) body) hs'.

(** redir_list (possibly empty) *)
Inductive G_redirs : list token -> list hbody -> list bytes -> list hbody -> Prop :=
| G_redirs_nil hs : G_redirs [] hs [] hs
| G_redirs_cons ts1 ts2 hs r hs1 rs hs2 :
    G_redir ts1 hs r hs1 -> G_redirs ts2 hs1 rs hs2 -> G_redirs (ts1 ++ ts2) hs (r :: rs) hs2.

(** cmd_prefix (possibly empty): io_redir and ASSIGNMENT_WORD in any order *)
Inductive G_prefix : list token -> list hbody -> list bytes -> list bytes -> list hbody -> Prop :=
| G_prefix_nil hs : G_prefix [] hs [] [] hs
| G_prefix_assign t ts hs asg rs hs' :
    tk t = K_ASSIGN -> assign_word (tw t) = true -> G_prefix ts hs asg rs hs' ->
    G_prefix (t :: ts) hs (sk_assign (tw t) :: asg) rs hs'
| G_prefix_redir ts1 ts2 hs r hs1 asg rs hs2 :
    G_redir ts1 hs r hs1 -> G_prefix ts2 hs1 asg rs hs2 -> G_prefix (ts1 ++ ts2) hs asg (r :: rs) hs2.

(** cmd_suffix (possibly empty): io_redir and WORD in any order *)
Inductive G_suffix : list token -> list hbody -> list bytes -> list bytes -> list hbody -> Prop :=
| G_suffix_nil hs : G_suffix [] hs [] [] hs
| G_suffix_word t ts hs args rs hs' :
    tk t = K_WORD -> G_suffix ts hs args rs hs' -> G_suffix (t :: ts) hs (sk_word (tw t) :: args) rs hs'
| G_suffix_redir ts1 ts2 hs r hs1 args rs hs2 :
    G_redir ts1 hs r hs1 -> G_suffix ts2 hs1 args rs hs2 -> G_suffix (ts1 ++ ts2) hs args (r :: rs) hs2.

(** simple_cmd: cmd_prefix WORD cmd_suffix | cmd_prefix WORD | cmd_prefix | WORD cmd_suffix | WORD *)
Inductive G_simple : list token -> list hbody -> bytes -> list hbody -> Prop :=
| G_simple_prefix ts hs asg rs hs' :
    G_prefix ts hs asg rs hs' -> ts <> [] -> G_simple ts hs (sk_simple asg [] rs) hs'
| G_simple_word ts1 w ts2 hs asg rs1 hs1 args rs2 hs2 :
    G_prefix ts1 hs asg rs1 hs1 -> tk w = K_WORD -> G_suffix ts2 hs1 args rs2 hs2 ->
    G_simple (ts1 ++ w :: ts2) hs (sk_simple asg (sk_word (tw w) :: args) (rs1 ++ rs2)) hs2.

(** word_list (possibly empty) and the tail of a pattern_list *)
Inductive G_words : list token -> list bytes -> Prop :=
| G_words_nil : G_words [] []
| G_words_cons t ts l : tk t = K_WORD -> G_words ts l -> G_words (t :: ts) (sk_word (tw t) :: l).

Inductive G_pats : list token -> list bytes -> Prop :=
| G_pats_nil : G_pats [] []
| G_pats_cons b w ts l : tk b = K_PIPE -> tk w = K_WORD -> G_pats ts l -> G_pats (b :: w :: ts) (sk_word (tw w) :: l).

Definition sep_kind (k : tkind) : bool := match k with K_AMP | K_SEMI | K_NL => true | _ => false end.

Inductive G_cmd : list token -> list hbody -> bytes -> list hbody -> Prop :=
(* cmd: simple_cmd *)
| G_cmd_simple ts hs sk hs' : G_simple ts hs sk hs' -> G_cmd ts hs sk hs'
(* cmd: compound_cmd | compound_cmd redir_list *)
| G_cmd_compound ts1 ts2 hs e hs1 rs hs2 :
    G_compound ts1 hs e hs1 -> G_redirs ts2 hs1 rs hs2 ->
    G_cmd (ts1 ++ ts2) hs (B "cmd{" ++ e ++ fmt_cmds rs ++ B "}") hs2
(* func_def: NAME '(' ')' linebreak func_body ; func_body: compound_cmd | compound_cmd redir_list *)
| G_cmd_func t lp rp nl ts1 ts2 hs e hs1 rs hs2 :
    tk t = K_NAME -> name_word (tw t) = true -> tk lp = K_LPAREN -> tk rp = K_RPAREN -> NLs nl ->
    G_compound ts1 hs e hs1 -> G_redirs ts2 hs1 rs hs2 ->
    G_cmd (t :: lp :: rp :: nl ++ ts1 ++ ts2) hs
          (B "cmd{func{" ++ hex (first_lit (tw t)) ++ B ":list(ao{pl{cmd{" ++ e ++ fmt_cmds rs ++ B "}}};)}()}") hs2

with G_compound : list token -> list hbody -> bytes -> list hbody -> Prop :=
(* subshell: '(' compound_list ')' *)
| G_subshell lp ts rp hs l hs' :
    tk lp = K_LPAREN -> G_clist ts hs l hs' -> tk rp = K_RPAREN ->
    G_compound (lp :: ts ++ [rp]) hs (B "subshell" ++ fmt_cmds l) hs'
(* group: Lbrace compound_list Rbrace *)
| G_group lb ts rb hs l hs' :
    tk lb = K_LBRACE -> G_clist ts hs l hs' -> tk rb = K_RBRACE ->
    G_compound (lb :: ts ++ [rb]) hs (B "group" ++ fmt_cmds l) hs'
(* arith_eval: LAE WORD RAE *)
| G_arith la w ra hs :
    tk la = K_LAE -> tk w = K_WORD -> tk ra = K_RAE ->
    G_compound [la; w; ra] hs (B "arith" ++ sk_word_arith (tw w)) hs
(* while_clause / until_clause: While compound_list Do compound_list Done *)
| G_while wh ts1 d ts2 dn hs c hs1 l hs2 :
    (tk wh = K_WHILE \/ tk wh = K_UNTIL) -> G_clist ts1 hs c hs1 -> tk d = K_DO -> G_clist ts2 hs1 l hs2 -> tk dn = K_DONE ->
    G_compound (wh :: ts1 ++ d :: ts2 ++ [dn]) hs
               ((if is K_WHILE wh then B "while{" else B "until{") ++ fmt_cmds c ++ fmt_cmds l ++ B "}") hs2
(* if_clause: If compound_list Then compound_list [else_part] Fi *)
| G_if i ts1 th ts2 ts3 fi hs c hs1 l hs2 es hs3 :
    tk i = K_IF -> G_clist ts1 hs c hs1 -> tk th = K_THEN -> G_clist ts2 hs1 l hs2 -> G_elses ts3 hs2 es hs3 -> tk fi = K_FI ->
    G_compound (i :: ts1 ++ th :: ts2 ++ ts3 ++ [fi]) hs (B "if{" ++ fmt_cmds c ++ fmt_cmds l ++ fmt_cmds es ++ B "}") hs3
(* for_clause: For NAME Do compound_list Done *)
| G_for_do f nm d ts dn hs l hs' :
    tk f = K_FOR -> tk nm = K_NAME -> name_word (tw nm) = true -> tk d = K_DO -> G_clist ts hs l hs' -> tk dn = K_DONE ->
    G_compound (f :: nm :: d :: ts ++ [dn]) hs
               (B "for{" ++ hex (first_lit (tw nm)) ++ B ":0" ++ fmt_cmds [] ++ fmt_cmds l ++ B "}") hs'
(* for_clause: For NAME seq_sep Do compound_list Done ; seq_sep: ';' linebreak | newline_list *)
| G_for_sep f nm s nl d ts dn hs l hs' :
    tk f = K_FOR -> tk nm = K_NAME -> name_word (tw nm) = true -> (tk s = K_SEMI \/ tk s = K_NL) -> NLs nl ->
    tk d = K_DO -> G_clist ts hs l hs' -> tk dn = K_DONE ->
    G_compound (f :: nm :: s :: nl ++ d :: ts ++ [dn]) hs
               (B "for{" ++ hex (first_lit (tw nm)) ++ B ":0" ++ fmt_cmds [] ++ fmt_cmds l ++ B "}") hs'
(* for_clause: For NAME linebreak In [word_list] seq_sep Do compound_list Done *)
| G_for_in f nm nl1 i ws s nl2 d ts dn hs items l hs' :
    tk f = K_FOR -> tk nm = K_NAME -> name_word (tw nm) = true -> NLs nl1 -> tk i = K_IN -> G_words ws items ->
    (tk s = K_SEMI \/ tk s = K_NL) -> NLs nl2 -> tk d = K_DO -> G_clist ts hs l hs' -> tk dn = K_DONE ->
    G_compound (f :: nm :: nl1 ++ i :: ws ++ s :: nl2 ++ d :: ts ++ [dn]) hs
               (B "for{" ++ hex (first_lit (tw nm)) ++ B ":1" ++ fmt_cmds items ++ fmt_cmds l ++ B "}") hs'
(* case_clause: Case WORD linebreak In linebreak [case_list | case_list_ns] Esac *)
| G_case c w nl1 i nl2 ts e hs its hs' :
    tk c = K_CASE -> tk w = K_WORD -> NLs nl1 -> tk i = K_IN -> NLs nl2 -> G_items ts hs its hs' -> tk e = K_ESAC ->
    G_compound (c :: w :: nl1 ++ i :: nl2 ++ ts ++ [e]) hs (B "case{" ++ sk_word (tw w) ++ fmt_cmds its ++ B "}") hs'

(* else_part: Elif compound_list Then compound_list [else_part] | Else compound_list *)
with G_elses : list token -> list hbody -> list bytes -> list hbody -> Prop :=
| G_elses_nil hs : G_elses [] hs [] hs
| G_elses_elif e ts1 th ts2 ts3 hs c hs1 l hs2 es hs3 :
    tk e = K_ELIF -> G_clist ts1 hs c hs1 -> tk th = K_THEN -> G_clist ts2 hs1 l hs2 -> G_elses ts3 hs2 es hs3 ->
    G_elses (e :: ts1 ++ th :: ts2 ++ ts3) hs ((B "elif{" ++ fmt_cmds c ++ fmt_cmds l ++ B "}") :: es) hs3
| G_elses_else e ts hs l hs' :
    tk e = K_ELSE -> G_clist ts hs l hs' -> G_elses (e :: ts) hs [B "else" ++ fmt_cmds l] hs'

(* case_list: case_item+ ; case_list_ns: case_list? case_item_ns.
   case_item: ['('] pattern_list ')' (linebreak | compound_list) BREAK linebreak
   case_item_ns: ['('] pattern_list ')' (linebreak | compound_list)               (last item, before Esac) *)
with G_items : list token -> list hbody -> list bytes -> list hbody -> Prop :=
| G_items_nil hs : G_items [] hs [] hs
| G_items_empty_brk lp p ps rp nl1 b nl2 ts hs pats its hs' :
    (lp = [] \/ exists t, lp = [t] /\ tk t = K_LPAREN) -> tk p = K_WORD -> G_pats ps pats -> tk rp = K_RPAREN ->
    NLs nl1 -> tk b = K_BREAK -> NLs nl2 -> G_items ts hs its hs' ->
    G_items (lp ++ p :: ps ++ rp :: nl1 ++ b :: nl2 ++ ts) hs
            ((B "item{" ++ fmt_cmds (sk_word (tw p) :: pats) ++ fmt_cmds [] ++ B "1}") :: its) hs'
| G_items_list_brk lp p ps rp ts1 b nl2 ts hs pats l hs1 its hs' :
    (lp = [] \/ exists t, lp = [t] /\ tk t = K_LPAREN) -> tk p = K_WORD -> G_pats ps pats -> tk rp = K_RPAREN ->
    G_clist ts1 hs l hs1 -> tk b = K_BREAK -> NLs nl2 -> G_items ts hs1 its hs' ->
    G_items (lp ++ p :: ps ++ rp :: ts1 ++ b :: nl2 ++ ts) hs
            ((B "item{" ++ fmt_cmds (sk_word (tw p) :: pats) ++ fmt_cmds l ++ B "1}") :: its) hs'
| G_items_empty_last lp p ps rp nl1 hs pats :
    (lp = [] \/ exists t, lp = [t] /\ tk t = K_LPAREN) -> tk p = K_WORD -> G_pats ps pats -> tk rp = K_RPAREN -> NLs nl1 ->
    G_items (lp ++ p :: ps ++ rp :: nl1) hs [B "item{" ++ fmt_cmds (sk_word (tw p) :: pats) ++ fmt_cmds [] ++ B "0}"] hs
| G_items_list_last lp p ps rp ts1 hs pats l hs1 :
    (lp = [] \/ exists t, lp = [t] /\ tk t = K_LPAREN) -> tk p = K_WORD -> G_pats ps pats -> tk rp = K_RPAREN ->
    G_clist ts1 hs l hs1 ->
    G_items (lp ++ p :: ps ++ rp :: ts1) hs [B "item{" ++ fmt_cmds (sk_word (tw p) :: pats) ++ fmt_cmds l ++ B "0}"] hs1

(* pipe_seq: cmd | pipe_seq '|' linebreak cmd ; the text of the tail *)
with G_pl_rest : list token -> list hbody -> bytes -> list hbody -> Prop :=
| G_pl_rest_nil hs : G_pl_rest [] hs [] hs
| G_pl_rest_cons p nl ts1 ts2 hs c hs1 rest hs2 :
    tk p = K_PIPE -> NLs nl -> G_cmd ts1 hs c hs1 -> G_pl_rest ts2 hs1 rest hs2 ->
    G_pl_rest (p :: nl ++ ts1 ++ ts2) hs (B "," ++ hex (B "|") ++ c ++ rest) hs2

(* pipeline: pipe_seq | Bang pipe_seq *)
with G_pipeline : list token -> list hbody -> bytes -> list hbody -> Prop :=
| G_pipeline_plain ts1 ts2 hs c hs1 rest hs2 :
    G_cmd ts1 hs c hs1 -> G_pl_rest ts2 hs1 rest hs2 ->
    G_pipeline (ts1 ++ ts2) hs (B "pl{" ++ c ++ rest ++ B "}") hs2
| G_pipeline_bang b ts1 ts2 hs c hs1 rest hs2 :
    tk b = K_BANG -> G_cmd ts1 hs c hs1 -> G_pl_rest ts2 hs1 rest hs2 ->
    G_pipeline (b :: ts1 ++ ts2) hs (B "pl{" ++ B "!," ++ c ++ rest ++ B "}") hs2

(* and_or: pipeline | and_or (AND | OR) linebreak pipeline ; the text of the tail *)
with G_ao_rest : list token -> list hbody -> bytes -> list hbody -> Prop :=
| G_ao_rest_nil hs : G_ao_rest [] hs [] hs
| G_ao_rest_cons o nl ts1 ts2 hs p hs1 rest hs2 :
    (tk o = K_AND \/ tk o = K_OR) -> NLs nl -> G_pipeline ts1 hs p hs1 -> G_ao_rest ts2 hs1 rest hs2 ->
    G_ao_rest (o :: nl ++ ts1 ++ ts2) hs (B "," ++ sk_ao_op o ++ p ++ rest) hs2

(* the and-or list; its text is closed by the separator that follows it *)
with G_andor : list token -> list hbody -> bytes -> list hbody -> Prop :=
| G_andor_mk ts1 ts2 hs p hs1 rest hs2 :
    G_pipeline ts1 hs p hs1 -> G_ao_rest ts2 hs1 rest hs2 -> G_andor (ts1 ++ ts2) hs (B "ao{" ++ p ++ rest) hs2

(* term [separator]: and_or (separator and_or)* [separator] ; separator: sep_op linebreak | newline_list *)
with G_term : list token -> list hbody -> list bytes -> list hbody -> Prop :=
| G_term_last ts hs a hs' :
    G_andor ts hs a hs' -> G_term ts hs [a ++ B "};"] hs'
| G_term_sep_end ts s nl hs a hs' :
    G_andor ts hs a hs' -> sep_kind (tk s) = true -> NLs nl ->
    G_term (ts ++ s :: nl) hs [a ++ B "}" ++ sk_sep s] hs'
| G_term_sep_more ts1 s nl ts2 hs a hs1 l hs2 :
    G_andor ts1 hs a hs1 -> sep_kind (tk s) = true -> NLs nl -> G_term ts2 hs1 l hs2 ->
    G_term (ts1 ++ s :: nl ++ ts2) hs ((a ++ B "}" ++ sk_sep s) :: l) hs2

(* compound_list: linebreak term [separator] *)
with G_clist : list token -> list hbody -> list bytes -> list hbody -> Prop :=
| G_clist_mk nl ts hs l hs' : NLs nl -> G_term ts hs l hs' -> G_clist (nl ++ ts) hs l hs'.

(** cmdline: complete_cmds linebreak | (empty).  The top level is a term that does not begin with a newline. *)
Inductive G_program : list token -> list hbody -> bytes -> list hbody -> Prop :=
| G_program_empty hs : G_program [] hs (B "()") hs
| G_program_cmds ts hs l hs' : G_term ts hs l hs' -> G_program ts hs (fmt_cmds l) hs'.

Scheme G_cmd_ind' := Minimality for G_cmd Sort Prop
  with G_compound_ind' := Minimality for G_compound Sort Prop
  with G_elses_ind' := Minimality for G_elses Sort Prop
  with G_items_ind' := Minimality for G_items Sort Prop
  with G_pl_rest_ind' := Minimality for G_pl_rest Sort Prop
  with G_pipeline_ind' := Minimality for G_pipeline Sort Prop
  with G_ao_rest_ind' := Minimality for G_ao_rest Sort Prop
  with G_andor_ind' := Minimality for G_andor Sort Prop
  with G_term_ind' := Minimality for G_term Sort Prop
  with G_clist_ind' := Minimality for G_clist Sort Prop.
Combined Scheme G_mutind from G_cmd_ind', G_compound_ind', G_elses_ind', G_items_ind', G_pl_rest_ind', G_pipeline_ind',
  G_ao_rest_ind', G_andor_ind', G_term_ind', G_clist_ind'.
