(** Error location: a syntax error always designates one of the tokens received, and what is left
    over after a successful parse is a suffix of the input. *)
From Coq Require Import String Lia.
From GoSh Require Import Base.Bytes Parse.Skel Parse.Grammar.
Open Scope N_scope.

Definition suffix (r ts : list token) : Prop := exists pre, ts = pre ++ r.

Lemma suffix_refl ts : suffix ts ts.
Proof. exists []. reflexivity. Qed.
Lemma suffix_trans a b c : suffix a b -> suffix b c -> suffix a c.
Proof. intros (p1 & ->) (p2 & ->). exists (p2 ++ p1). now rewrite app_assoc. Qed.
Lemma suffix_tail t r ts : suffix (t :: r) ts -> suffix r ts.
Proof. intros (p & ->). exists (p ++ [t]). now rewrite <- app_assoc. Qed.
Lemma suffix_skip_nl l : suffix (skip_nl l) l.
Proof.
  induction l as [|t l IH]; cbn [skip_nl]; [apply suffix_refl|].
  destruct (is K_NL t); [|apply suffix_refl]. destruct IH as (p & E). exists (t :: p). cbn. now rewrite <- E.
Qed.
Lemma suffix_skip_nl' l ts : suffix l ts -> suffix (skip_nl l) ts.
Proof. intros H. eapply suffix_trans; [apply suffix_skip_nl|exact H]. Qed.
Lemma suffix_tl l ts : suffix l ts -> suffix (tl l) ts.
Proof. destruct l; cbn; [auto|apply suffix_tail]. Qed.
Lemma suffix_head_in t r ts : suffix (t :: r) ts -> In t ts.
Proof. intros (p & ->). apply in_or_app. right. left. reflexivity. Qed.

Definition Loc {T} (ts : list token) (r : pres T) : Prop :=
  match r with
  | PErr (Some i) => exists t, In t ts /\ tidx t = i
  | POk _ rest _ => suffix rest ts
  | _ => True
  end.

Lemma Loc_weaken {T} a ts (r : pres T) : suffix a ts -> Loc a r -> Loc ts r.
Proof.
  intros (p & ->). destruct r as [x rest h|[i|]|]; cbn; auto.
  - intros (p2 & ->). exists (p ++ p2). now rewrite app_assoc.
  - intros (t & Hin & Ht). exists t. split; [apply in_or_app; auto|assumption].
Qed.

#[local] Hint Resolve suffix_refl suffix_tail suffix_skip_nl' suffix_tl : suf.

Ltac suf := solve [eauto 8 with suf].

Lemma Loc_err_head {T} t r ts : suffix (t :: r) ts -> @Loc T ts (PErr (Some (tidx t))).
Proof. intros H. cbn. exists t. split; [eapply suffix_head_in; eauto|reflexivity]. Qed.

Lemma p_words_suffix : forall ts acc l rest, p_words ts acc = (l, rest) -> suffix rest ts.
Proof.
  induction ts as [|t r IH]; intros acc l rest H; cbn [p_words] in H.
  - inversion H; apply suffix_refl.
  - destruct (is K_WORD t).
    + apply IH in H. destruct H as (p & ->). exists (t :: p). reflexivity.
    + inversion H; apply suffix_refl.
Qed.

Lemma p_pats_suffix : forall n ts acc l rest, (length ts <= n)%nat -> p_pats ts acc = (l, rest) -> suffix rest ts.
Proof.
  induction n as [|n IH]; intros ts acc l rest Hn H.
  - destruct ts; [|cbn in Hn; lia]. cbn in H. inversion H. apply suffix_refl.
  - destruct ts as [|b r]; cbn [p_pats] in H; [inversion H; apply suffix_refl|].
    destruct (is K_PIPE b); [|inversion H; apply suffix_refl].
    destruct r as [|w r2]; [inversion H; apply suffix_refl|].
    destruct (is K_WORD w); [|inversion H; apply suffix_refl].
    apply IH in H; [|cbn in Hn |- *; lia]. destruct H as (p & ->). exists (b :: w :: p). reflexivity.
Qed.

Lemma expect_loc k ts hs : Loc ts (expect k ts hs).
Proof. unfold expect. destruct ts as [|t r]; cbn; auto. destruct (is k t); cbn; [exists [t]; reflexivity|exists t; split; [left|]; reflexivity]. Qed.

Lemma p_redir_loc ts hs : Loc ts (p_redir ts hs).
Proof.
  unfold p_redir. destruct ts as [|t r]; cbn [Loc]; auto.
  assert (S0 : suffix (t :: r) (t :: r)) by apply suffix_refl.
  destruct (is K_IONUM t).
  - destruct r as [|o r1]; cbn [Loc]; auto. destruct (redir_op (tk o)); [|eapply Loc_err_head; suf].
    destruct r1 as [|w r2]; cbn [Loc]; auto. destruct (is K_WORD w); [|eapply Loc_err_head; suf].
    destruct (take_body (tk o) hs). cbn. suf.
  - destruct (redir_op (tk t)); [|eapply Loc_err_head; suf].
    destruct r as [|w r2]; cbn [Loc]; auto. destruct (is K_WORD w); [|eapply Loc_err_head; suf].
    destruct (take_body (tk t) hs). cbn. suf.
Qed.

(* one step of a sequence of sub-parsers: the callee is located within its own input, which is a
   suffix of ours *)
Ltac loc_bind IHs :=
  match goal with
  | |- Loc ?ts (match ?g with POk _ _ _ => _ | PErr _ => _ | PFuel => _ end) =>
    let F := fresh "F" in
    let x := fresh "x" in let r := fresh "r" in let h := fresh "h" in
    eassert (F : Loc _ g) by (IHs);
    destruct g as [x r h| [?|] |];
    [ cbn [Loc] in F;
      let F' := fresh "F" in assert (F' : suffix r ts) by (eapply suffix_trans; [exact F|suf])
    | eapply Loc_weaken; [|exact F]; suf
    | exact I
    | exact I ]
  end.

Ltac loc_leaf :=
  match goal with
  | |- Loc _ (POk _ _ _) => cbn [Loc]; suf
  | |- Loc _ (PErr None) => exact I
  | |- Loc _ PFuel => exact I
  | |- Loc _ (PErr (Some (tidx _))) => eapply Loc_err_head; suf
  | |- Loc _ (err_here ?l) => destruct l; cbn [err_here]; [exact I|eapply Loc_err_head; suf]
  end.

Ltac loc_step IHs :=
  first
    [ loc_leaf
    | loc_bind IHs
    | match goal with
      | |- Loc _ (if ?c then _ else _) => destruct c
      | |- Loc _ (match ?d with _ => _ end) =>
        match type of d with
        | list token => let t := fresh "t" in let l := fresh "l" in let E := fresh "E" in destruct d as [|t l] eqn:E
        | (list bytes * list token)%type => let E := fresh "E" in destruct d eqn:E
        | _ => destruct d
        end
      end ].

Lemma p_redirs_loc n : forall ts hs acc, Loc ts (p_redirs n ts hs acc).
Proof.
  induction n as [|n IH]; intros ts hs acc; [exact I|]. cbn [p_redirs].
  assert (S0 : suffix ts ts) by apply suffix_refl.
  destruct (starts_redir ts); [|cbn; suf].
  loc_bind ltac:(apply p_redir_loc). eapply Loc_weaken; [|apply IH]. suf.
Qed.

Lemma p_simple_loc n : forall ts hs seen A Ar R, Loc ts (p_simple n ts hs seen A Ar R).
Proof.
  induction n as [|n IH]; intros ts hs seen A Ar R; [exact I|]. cbn [p_simple].
  assert (S0 : suffix ts ts) by apply suffix_refl.
  destruct (starts_redir ts).
  - loc_bind ltac:(apply p_redir_loc). eapply Loc_weaken; [|apply IH]. suf.
  - destruct ts as [|t r]; [cbn; suf|].
    destruct (is K_ASSIGN t && negb seen).
    + destruct (assign_word (tw t)); [eapply Loc_weaken; [|apply IH]; suf|eapply Loc_err_head; suf].
    + destruct (is K_WORD t); [eapply Loc_weaken; [|apply IH]; suf|cbn; suf].
Qed.

Ltac ihs := first [ apply expect_loc | apply p_redir_loc
                  | match goal with H : forall _ _, Loc _ _ |- _ => apply H end
                  | match goal with H : forall _ _ _, Loc _ _ |- _ => apply H end
                  | match goal with H : forall _ _ _ _ _, Loc _ _ |- _ => apply H end
                  | match goal with H : forall _ _ _ _ _ _, Loc _ _ |- _ => apply H end ].
Ltac go := repeat first
  [ loc_step ihs
  | match goal with
    | |- Loc ?ts (?f _ _ _) => eapply Loc_weaken; [|solve [ihs]]; suf
    | |- Loc ?ts (?f _ _ _ _) => eapply Loc_weaken; [|solve [ihs]]; suf
    | |- Loc ?ts (?f _ _ _ _ _ _) => eapply Loc_weaken; [|solve [ihs]]; suf
    | |- Loc ?ts (?f _ _ _ _ _ _ _) => eapply Loc_weaken; [|solve [ihs]]; suf
    end ].

Definition L_all n :=
  (forall ts hs, Loc ts (p_andor n ts hs)) /\
  (forall acc ts hs, Loc ts (p_ao_more n acc ts hs)) /\
  (forall ts hs, Loc ts (p_pipeline n ts hs)) /\
  (forall acc ts hs, Loc ts (p_pl_more n acc ts hs)) /\
  (forall ts hs, Loc ts (p_clist n ts hs)) /\
  (forall acc ts hs, Loc ts (p_term n acc ts hs)) /\
  (forall ts hs, Loc ts (p_cmd n ts hs)) /\
  (forall ts hs, Loc ts (p_compound n ts hs)) /\
  (forall name has_in items ts hs, Loc ts (p_for_body n name has_in items ts hs)) /\
  (forall acc ts hs, Loc ts (p_elses n acc ts hs)) /\
  (forall acc ts hs, Loc ts (p_items n acc ts hs)).

Lemma loc_all n : L_all n.
Proof.
  induction n as [|n IH].
  - unfold L_all. repeat split; intros; exact I.
  - destruct IH as (IH1 & IH2 & IH3 & IH4 & IH5 & IH6 & IH7 & IH8 & IH9 & IH10 & IH11).
    pose proof (p_redirs_loc n) as IHr. pose proof (p_simple_loc n) as IHs.
    assert (Tail : forall T (r : pres T) a ts, suffix a ts -> Loc a r -> Loc ts r) by (intros; eapply Loc_weaken; eauto).
    unfold L_all. repeat match goal with |- _ /\ _ => split end; intros.
    + cbn [p_andor]. assert (S0 : suffix ts ts) by apply suffix_refl. go.
    + cbn [p_ao_more]. assert (S0 : suffix ts ts) by apply suffix_refl. go.
    + cbn [p_pipeline]. assert (S0 : suffix ts ts) by apply suffix_refl.
      destruct ts as [|t r]; [go|]. destruct (is K_BANG t); go.
    + cbn [p_pl_more]. assert (S0 : suffix ts ts) by apply suffix_refl. go.
    + cbn [p_clist]. assert (S0 : suffix ts ts) by apply suffix_refl. go.
    + cbn [p_term]. assert (S0 : suffix ts ts) by apply suffix_refl. go.
    + cbn [p_cmd]. assert (S0 : suffix ts ts) by apply suffix_refl. go.
    + cbn [p_compound]. assert (S0 : suffix ts ts) by apply suffix_refl.
      destruct ts as [|t r]; [exact I|]. destruct (tk t); try (eapply Loc_err_head; suf); try solve [go].
      * (* for *)
        destruct r as [|nm r1]; [exact I|]. destruct (is K_NAME nm && name_word (tw nm)); [|eapply Loc_err_head; suf].
        destruct (head_is K_IN (skip_nl r1)).
        -- destruct (p_words (tl (skip_nl r1)) []) as [items r3] eqn:Ew. apply p_words_suffix in Ew.
           assert (S3 : suffix r3 (t :: nm :: r1)) by (eapply suffix_trans; [exact Ew|suf]).
           go.
        -- go.
    + cbn [p_for_body]. assert (S0 : suffix ts ts) by apply suffix_refl. go.
    + cbn [p_elses]. assert (S0 : suffix ts ts) by apply suffix_refl. go.
    + cbn [p_items]. assert (S0 : suffix ts ts) by apply suffix_refl.
      destruct (head_is K_ESAC ts); [go|].
      assert (S1 : suffix (match ts with p :: rp => if is K_LPAREN p then rp else ts | [] => ts end) ts).
      { destruct ts as [|p rp]; [suf|]. destruct (is K_LPAREN p); suf. }
      cbv zeta. destruct (match ts with p :: rp => if is K_LPAREN p then rp else ts | [] => ts end) as [|p1 rp] eqn:E1; [exact I|].
      destruct (is K_WORD p1); [|eapply Loc_err_head; suf].
      destruct (p_pats rp [sk_word (tw p1)]) as [pats ts2] eqn:Ep. apply (p_pats_suffix (length rp)) in Ep; [|lia].
      assert (S2 : suffix ts2 ts) by (eapply suffix_trans; [exact Ep|suf]).
      go.
Qed.

(** A syntax error of [parse_tokens] designates one of the tokens it was given. *)
Theorem parse_tokens_error_located ts hs i :
  parse_tokens ts hs = PErr (Some i) -> exists t, In t ts /\ tidx t = i.
Proof.
  unfold parse_tokens. destruct ts as [|t r]; [discriminate|].
  destruct (head_is K_NL (t :: r)).
  - cbn. intros H; inversion H. exists t. split; [left|]; reflexivity.
  - destruct (loc_all (budget (t :: r))) as (_ & _ & _ & _ & _ & H6 & _).
    specialize (H6 [] (t :: r) hs). destruct (p_term (budget (t :: r)) [] (t :: r) hs) as [l ts1 hs1|e|]; [|intros H; inversion H; subst; exact H6|discriminate].
    destruct ts1 as [|t1 r1]; [discriminate|]. intros H; inversion H. cbn in H6. exists t1. split; [eapply suffix_head_in; eauto|reflexivity].
Qed.
