(** The recursion budget only decides whether an answer is reached: once the parser answers (accepts or
    reports a syntax error), every larger budget gives the same answer. *)
From Coq Require Import String Lia.
From GoSh Require Import Base.Bytes Parse.Skel Parse.Grammar.
Open Scope N_scope.

Definition stable {T} (r1 r2 : pres T) : Prop := r1 = PFuel \/ r1 = r2.

Lemma stable_refl {T} (r : pres T) : stable r r.
Proof. right; reflexivity. Qed.
#[local] Hint Resolve stable_refl : core.

Ltac stab_bind :=
  match goal with
  | |- stable (match ?g with POk _ _ _ => _ | PErr _ => _ | PFuel => _ end) (match ?g' with POk _ _ _ => _ | PErr _ => _ | PFuel => _ end) =>
    let F := fresh "F" in
    assert (F : stable g g') by (solve [auto]);
    destruct g as [? ? ?| ?|];
    [ destruct F as [F|F]; [discriminate F| rewrite <- F]
    | destruct F as [F|F]; [discriminate F| rewrite <- F; right; reflexivity]
    | left; reflexivity ]
  end.

Ltac stab :=
  repeat first
    [ solve [right; reflexivity]
    | solve [auto]
    | stab_bind
    | match goal with
      | |- stable (if ?c then _ else _) (if ?c then _ else _) => destruct c
      | |- stable (match ?d with _ => _ end) (match ?d with _ => _ end) => destruct d
      end ].

Lemma p_redirs_stable n : forall m ts hs acc, (n <= m)%nat -> stable (p_redirs n ts hs acc) (p_redirs m ts hs acc).
Proof.
  induction n as [|n IH]; intros m ts hs acc Hle; [left; reflexivity|].
  destruct m as [|m]; [lia|]. assert (Hle' : (n <= m)%nat) by lia. cbn [p_redirs]. stab.
Qed.

Lemma p_simple_stable n : forall m ts hs seen A Ar R, (n <= m)%nat ->
  stable (p_simple n ts hs seen A Ar R) (p_simple m ts hs seen A Ar R).
Proof.
  induction n as [|n IH]; intros m ts hs seen A Ar R Hle; [left; reflexivity|].
  destruct m as [|m]; [lia|]. assert (Hle' : (n <= m)%nat) by lia. cbn [p_simple]. stab.
Qed.

Definition St_all n :=
  (forall m ts hs, (n <= m)%nat -> stable (p_andor n ts hs) (p_andor m ts hs)) /\
  (forall m acc ts hs, (n <= m)%nat -> stable (p_ao_more n acc ts hs) (p_ao_more m acc ts hs)) /\
  (forall m ts hs, (n <= m)%nat -> stable (p_pipeline n ts hs) (p_pipeline m ts hs)) /\
  (forall m acc ts hs, (n <= m)%nat -> stable (p_pl_more n acc ts hs) (p_pl_more m acc ts hs)) /\
  (forall m ts hs, (n <= m)%nat -> stable (p_clist n ts hs) (p_clist m ts hs)) /\
  (forall m acc ts hs, (n <= m)%nat -> stable (p_term n acc ts hs) (p_term m acc ts hs)) /\
  (forall m ts hs, (n <= m)%nat -> stable (p_cmd n ts hs) (p_cmd m ts hs)) /\
  (forall m ts hs, (n <= m)%nat -> stable (p_compound n ts hs) (p_compound m ts hs)) /\
  (forall m name has_in items ts hs, (n <= m)%nat -> stable (p_for_body n name has_in items ts hs) (p_for_body m name has_in items ts hs)) /\
  (forall m acc ts hs, (n <= m)%nat -> stable (p_elses n acc ts hs) (p_elses m acc ts hs)) /\
  (forall m acc ts hs, (n <= m)%nat -> stable (p_items n acc ts hs) (p_items m acc ts hs)).

Lemma stable_all n : St_all n.
Proof.
  induction n as [|n IH].
  - unfold St_all. repeat split; intros; left; reflexivity.
  - destruct IH as (IH1 & IH2 & IH3 & IH4 & IH5 & IH6 & IH7 & IH8 & IH9 & IH10 & IH11).
    pose proof (p_redirs_stable n) as IHr. pose proof (p_simple_stable n) as IHs.
    unfold St_all. repeat match goal with |- _ /\ _ => split end; intros;
      (match goal with H : (S n <= ?m)%nat |- _ => destruct m as [|m']; [lia|]; assert (Hle' : (n <= m')%nat) by lia end).
    + cbn [p_andor]. stab.
    + cbn [p_ao_more]. stab.
    + cbn [p_pipeline]. stab.
    + cbn [p_pl_more]. stab.
    + cbn [p_clist]. stab.
    + cbn [p_term]. stab.
    + cbn [p_cmd]. stab.
    + cbn [p_compound]. stab.
    + cbn [p_for_body]. stab.
    + cbn [p_elses]. stab.
    + cbn [p_items]. stab.
Qed.

Lemma p_term_stable n m acc ts hs : (n <= m)%nat -> stable (p_term n acc ts hs) (p_term m acc ts hs).
Proof. intros H. destruct (stable_all n) as (_ & _ & _ & _ & _ & H6 & _). apply H6, H. Qed.
