(** Completeness of the predictive parser: every program of the grammar is accepted, with the
    skeleton its derivation builds, once the recursion budget is large enough. *)
From Coq Require Import String Lia.
From GoSh Require Import Base.Bytes Parse.Skel Parse.Grammar Parse.GrammarSpec Parse.GrammarSound Parse.GrammarFuel.
Open Scope N_scope.

(** * follow sets, as predicates on the kind of the next token *)
Definition term_follow (k : tkind) : bool :=
  match k with
  | K_RPAREN | K_RBRACE | K_THEN | K_DO | K_DONE | K_FI | K_ELIF | K_ELSE | K_ESAC | K_BREAK | K_IN | K_RAE => true
  | _ => false
  end.
Definition andor_follow (k : tkind) : bool := term_follow k || sep_kind k.
Definition pipe_follow (k : tkind) : bool := andor_follow k || match k with K_AND | K_OR => true | _ => false end.
Definition cmd_follow (k : tkind) : bool := pipe_follow k || match k with K_PIPE => true | _ => false end.

Definition fo (f : tkind -> bool) (ts : list token) : bool := match ts with t :: _ => f (tk t) | [] => true end.

Definition simple_start (k : tkind) : bool :=
  match k with
  | K_WORD | K_ASSIGN | K_IONUM | K_LT | K_GT | K_CLOBBER | K_APPEND | K_HEREDOC | K_HEREDOCI | K_DUPIN | K_DUPOUT | K_RDWR => true
  | _ => false
  end.
Definition compound_start (k : tkind) : bool :=
  match k with K_LPAREN | K_LBRACE | K_LAE | K_FOR | K_CASE | K_IF | K_WHILE | K_UNTIL => true | _ => false end.
Definition cmd_start (k : tkind) : bool := simple_start k || compound_start k || match k with K_NAME => true | _ => false end.

Ltac kinds := unfold is, tkind_eqb in *; repeat match goal with H : tk _ = _ |- _ => rewrite H in * end; cbn in *; try reflexivity; try discriminate; try congruence.

Lemma is_eq k t : tk t = k -> is k t = true.
Proof. apply is_iff. Qed.
Lemma is_ne k t : tk t <> k -> is k t = false.
Proof. apply is_false. Qed.

Lemma expect_hit k t r hs : tk t = k -> expect k (t :: r) hs = POk tt r hs.
Proof. intros H. unfold expect. rewrite (is_eq _ _ H). reflexivity. Qed.

Lemma skip_nl_app nl rest : NLs nl -> head_is K_NL rest = false -> skip_nl (nl ++ rest) = rest.
Proof.
  induction 1 as [|t ts Ht Hts IH]; intros Hr; cbn [app skip_nl].
  - destruct rest as [|t r]; [reflexivity|]. cbn [skip_nl head_is] in *. rewrite Hr. reflexivity.
  - rewrite (is_eq _ _ Ht). apply IH, Hr.
Qed.

Lemma head_not_nl (f : tkind -> bool) t r : f (tk t) = true -> f K_NL = false -> head_is K_NL (t :: r) = false.
Proof. intros H1 H2. cbn. apply is_ne. intros E. rewrite E in H1. congruence. Qed.

(** * first sets *)
Lemma redir_first pre hs r hs1 : G_redir pre hs r hs1 -> exists t pre', pre = t :: pre' /\ simple_start (tk t) = true /\ starts_redir (t :: pre') = true.
Proof.
  inversion 1; subst.
  - exists o, [w]. repeat split. destruct (tk o); try discriminate; reflexivity.
    cbn. destruct (redir_op (tk o)); [apply orb_true_r|discriminate].
  - exists n, [o; w]. repeat split; [rewrite H0; reflexivity|]. cbn. rewrite (is_eq _ _ H0). reflexivity.
Qed.

Lemma starts_redir_app t pre rest : starts_redir ((t :: pre) ++ rest) = starts_redir (t :: pre).
Proof. reflexivity. Qed.

Lemma prefix_first pre hs asg rs hs1 : G_prefix pre hs asg rs hs1 -> pre = [] \/ exists t pre', pre = t :: pre' /\ simple_start (tk t) = true.
Proof.
  inversion 1; subst; [left; reflexivity| |].
  - right. exists t, ts. split; [reflexivity|rewrite H0; reflexivity].
  - right. apply redir_first in H0 as (t & pre' & -> & Hs & _). exists t, (pre' ++ ts2). split; [reflexivity|assumption].
Qed.

Lemma simple_first pre hs sk hs1 : G_simple pre hs sk hs1 -> exists t pre', pre = t :: pre' /\ simple_start (tk t) = true.
Proof.
  inversion 1; subst.
  - apply prefix_first in H0 as [->|(t & pre' & -> & Hs)]; [congruence|]. exists t, pre'. auto.
  - apply prefix_first in H0 as [->|(t & pre' & -> & Hs)].
    + exists w, ts2. split; [reflexivity|rewrite H1; reflexivity].
    + exists t, (pre' ++ w :: ts2). auto.
Qed.

Lemma compound_first pre hs e hs1 : G_compound pre hs e hs1 -> exists t pre', pre = t :: pre' /\ compound_start (tk t) = true.
Proof.
  inversion 1; subst; eexists _, _; (split; [reflexivity|]);
    repeat match goal with H : tk _ = _ |- _ => rewrite H end; try reflexivity.
  destruct H0 as [H0|H0]; rewrite H0; reflexivity.
Qed.

Lemma cmd_first pre hs c hs1 : G_cmd pre hs c hs1 -> exists t pre', pre = t :: pre' /\ cmd_start (tk t) = true.
Proof.
  inversion 1; subst.
  - apply simple_first in H0 as (t & pre' & -> & Hs). exists t, pre'. split; [reflexivity|]. unfold cmd_start. rewrite Hs. reflexivity.
  - apply compound_first in H0 as (t & pre' & -> & Hs). exists t, (pre' ++ ts2). split; [reflexivity|]. unfold cmd_start. rewrite Hs. apply orb_true_iff. left. apply orb_true_r.
  - exists t, (lp :: rp :: nl ++ ts1 ++ ts2). split; [reflexivity|]. rewrite H0. reflexivity.
Qed.

Lemma cmd_start_starts k : cmd_start k = true -> starts_cmd k = true /\ k <> K_BANG /\ k <> K_NL.
Proof. destruct k; cbn; intros H; try discriminate; repeat split; congruence. Qed.

Lemma pipeline_first pre hs p hs1 : G_pipeline pre hs p hs1 -> exists t pre', pre = t :: pre' /\ starts_cmd (tk t) = true.
Proof.
  inversion 1; subst.
  - apply cmd_first in H0 as (t & pre' & -> & Hs). exists t, (pre' ++ ts2). split; [reflexivity|apply cmd_start_starts, Hs].
  - exists b, (ts1 ++ ts2). split; [reflexivity|rewrite H0; reflexivity].
Qed.

Lemma andor_first pre hs a hs1 : G_andor pre hs a hs1 -> exists t pre', pre = t :: pre' /\ starts_cmd (tk t) = true.
Proof.
  inversion 1; subst. apply pipeline_first in H0 as (t & pre' & -> & Hs). exists t, (pre' ++ ts2). auto.
Qed.

Lemma term_first pre hs l hs1 : G_term pre hs l hs1 -> exists t pre', pre = t :: pre' /\ starts_cmd (tk t) = true.
Proof.
  inversion 1; subst; match goal with H : G_andor _ _ _ _ |- _ => apply andor_first in H as (t & pre' & -> & Hs) end;
    eexists _, _; (split; [reflexivity|exact Hs]).
Qed.

Lemma starts_cmd_not_nl t r : starts_cmd (tk t) = true -> head_is K_NL (t :: r) = false.
Proof. intros H. cbn. apply is_ne. intros E. rewrite E in H. discriminate. Qed.

(** * redirections *)
Lemma p_redir_complete pre hs r hs1 rest : G_redir pre hs r hs1 -> p_redir (pre ++ rest) hs = POk r rest hs1.
Proof.
  inversion 1; subst; cbn [app p_redir].
  - assert (En : is K_IONUM o = false) by (apply is_ne; intros E; rewrite E in H0; discriminate).
    rewrite En, H0, (is_eq _ _ H1), H2. reflexivity.
  - rewrite (is_eq _ _ H0), H1, (is_eq _ _ H2), H3. reflexivity.
Qed.

Lemma p_redirs_complete pre hs rs hs1 : G_redirs pre hs rs hs1 -> forall rest acc, starts_redir rest = false ->
  exists k, forall n, (k <= n)%nat -> p_redirs n (pre ++ rest) hs acc = POk (acc ++ rs) rest hs1.
Proof.
  induction 1 as [hs|ts1 ts2 hs r hs1 rs hs2 G1 G2 IH]; intros rest acc Hr.
  - exists 1%nat. intros [|n] Hn; [lia|]. cbn [app p_redirs]. rewrite Hr, app_nil_r. reflexivity.
  - destruct (IH rest (acc ++ [r]) Hr) as (k & Hk). exists (S k). intros [|n] Hn; [lia|]. cbn [p_redirs].
    destruct (redir_first _ _ _ _ G1) as (t & pre' & -> & _ & Hs). rewrite <- app_assoc.
    change (starts_redir ((t :: pre') ++ ts2 ++ rest)) with (starts_redir (t :: pre')). rewrite Hs.
    rewrite (p_redir_complete _ _ _ _ _ G1). rewrite Hk by lia. rewrite <- app_assoc. reflexivity.
Qed.

(** * simple commands *)
Definition fsimple (rest : list token) : Prop :=
  starts_redir rest = false /\ head_is K_WORD rest = false /\ head_is K_ASSIGN rest = false.

Lemma cmd_follow_fsimple rest : fo cmd_follow rest = true -> fsimple rest.
Proof.
  destruct rest as [|t r]; [repeat split|]. cbn [fo]. intros H. unfold fsimple. cbn [starts_redir head_is]. unfold is, tkind_eqb.
  destruct (tk t); try discriminate H; repeat split.
Qed.

Lemma p_simple_suffix_complete pre hs args rs hs1 : G_suffix pre hs args rs hs1 -> forall rest A Ar R, fsimple rest ->
  exists k, forall n, (k <= n)%nat -> p_simple n (pre ++ rest) hs true A Ar R = POk (sk_simple A (Ar ++ args) (R ++ rs)) rest hs1.
Proof.
  induction 1 as [hs|t ts hs args rs hs' Ht G IH|ts1 ts2 hs r hs1 args rs hs2 G1 G2 IH]; intros rest A Ar R Hf.
  - exists 1%nat. intros [|n] Hn; [lia|]. cbn [app p_simple negb]. destruct Hf as (H1 & H2 & H3). rewrite H1, !app_nil_r.
    destruct rest as [|t r]; [reflexivity|]. cbn [head_is] in H2. rewrite andb_false_r, H2. reflexivity.
  - destruct (IH rest A (Ar ++ [sk_word (tw t)]) R Hf) as (k & Hk). exists (S k). intros [|n] Hn; [lia|]. cbn [app p_simple negb].
    assert (Hs : starts_redir (t :: ts ++ rest) = false) by (cbn; unfold is, tkind_eqb; rewrite Ht; reflexivity).
    rewrite Hs, andb_false_r, (is_eq _ _ Ht), Hk by lia. rewrite <- app_assoc. reflexivity.
  - destruct (IH rest A Ar (R ++ [r]) Hf) as (k & Hk). exists (S k). intros [|n] Hn; [lia|]. cbn [p_simple negb].
    destruct (redir_first _ _ _ _ G1) as (t & pre' & -> & _ & Hs). rewrite <- app_assoc.
    change (starts_redir ((t :: pre') ++ ts2 ++ rest)) with (starts_redir (t :: pre')). rewrite Hs.
    rewrite (p_redir_complete _ _ _ _ _ G1), Hk by lia. rewrite <- app_assoc. reflexivity.
Qed.

Lemma p_simple_prefix_complete pre hs asg rs hs1 : G_prefix pre hs asg rs hs1 -> forall tail A R,
  exists k, forall n m, (k + m <= n)%nat ->
    p_simple n (pre ++ tail) hs false A [] R = p_simple (n - k) tail hs1 false (A ++ asg) [] (R ++ rs).
Proof.
  induction 1 as [hs|t ts hs asg rs hs' Ht Haw G IH|ts1 ts2 hs r hs1 asg rs hs2 G1 G2 IH]; intros tail A R.
  - exists 0%nat. intros n m Hn. rewrite Nat.sub_0_r, !app_nil_r. reflexivity.
  - destruct (IH tail (A ++ [sk_assign (tw t)]) R) as (k & Hk). exists (S k). intros [|n] m Hn; [lia|]. cbn [app p_simple negb].
    assert (Hs : starts_redir (t :: ts ++ tail) = false) by (cbn; unfold is, tkind_eqb; rewrite Ht; reflexivity).
    rewrite Hs, (is_eq _ _ Ht), Haw. cbn [negb andb]. rewrite (Hk n m) by lia. rewrite <- app_assoc. reflexivity.
  - destruct (IH tail A (R ++ [r])) as (k & Hk). exists (S k). intros [|n] m Hn; [lia|]. cbn [p_simple negb].
    destruct (redir_first _ _ _ _ G1) as (t & pre' & -> & _ & Hs). rewrite <- app_assoc.
    change (starts_redir ((t :: pre') ++ ts2 ++ tail)) with (starts_redir (t :: pre')). rewrite Hs.
    rewrite (p_redir_complete _ _ _ _ _ G1), (Hk n m) by lia. rewrite <- app_assoc. reflexivity.
Qed.

Lemma p_simple_complete pre hs sk hs1 : G_simple pre hs sk hs1 -> forall rest, fsimple rest ->
  exists k, forall n, (k <= n)%nat -> p_simple n (pre ++ rest) hs false [] [] [] = POk sk rest hs1.
Proof.
  inversion 1; subst; intros rest Hf.
  - destruct (p_simple_prefix_complete _ _ _ _ _ H0 rest [] []) as (k & Hk). exists (S k). intros n Hn.
    rewrite (Hk n 1%nat) by lia. destruct (n - k)%nat as [|j] eqn:Ej; [lia|]. cbn [app p_simple negb].
    destruct Hf as (H2 & H3 & H4). rewrite H2. destruct rest as [|t r]; [reflexivity|]. cbn [head_is] in H3, H4. rewrite H4, H3. reflexivity.
  - destruct (p_simple_prefix_complete _ _ _ _ _ H0 (w :: ts2 ++ rest) [] []) as (k & Hk).
    destruct (p_simple_suffix_complete _ _ _ _ _ H2 rest asg [sk_word (tw w)] rs1 Hf) as (k2 & Hk2).
    exists (S (k + k2)). intros n Hn. rewrite <- app_assoc. cbn [app]. rewrite (Hk n (S k2)) by lia.
    destruct (n - k)%nat as [|j] eqn:Ej; [lia|]. cbn [app p_simple negb].
    assert (Hs : starts_redir (w :: ts2 ++ rest) = false) by (cbn; unfold is, tkind_eqb; rewrite H1; reflexivity).
    assert (Ha : is K_ASSIGN w = false) by (apply is_ne; congruence).
    rewrite Hs, Ha, (is_eq _ _ H1). cbn [andb]. rewrite Hk2 by lia. reflexivity.
Qed.

Lemma p_words_complete ws items : G_words ws items -> forall rest acc, head_is K_WORD rest = false ->
  p_words (ws ++ rest) acc = (acc ++ items, rest).
Proof.
  induction 1 as [|t ts l Ht G IH]; intros rest acc Hr; cbn [app p_words].
  - rewrite app_nil_r. destruct rest as [|t r]; [reflexivity|]. cbn [head_is p_words] in *. rewrite Hr. reflexivity.
  - rewrite (is_eq _ _ Ht), IH by assumption. rewrite <- app_assoc. reflexivity.
Qed.

Lemma p_pats_complete ps pats : G_pats ps pats -> forall rest acc, head_is K_PIPE rest = false ->
  p_pats (ps ++ rest) acc = (acc ++ pats, rest).
Proof.
  induction 1 as [|b w ts l Hb Hw G IH]; intros rest acc Hr; cbn [app p_pats].
  - rewrite app_nil_r. destruct rest as [|t r]; [reflexivity|]. cbn [head_is p_pats] in *. rewrite Hr. reflexivity.
  - rewrite (is_eq _ _ Hb), (is_eq _ _ Hw), IH by assumption. rewrite <- app_assoc. reflexivity.
Qed.

(** * more first sets *)
Lemma clist_first pre hs l hs1 : G_clist pre hs l hs1 ->
  exists nl t pre', pre = nl ++ t :: pre' /\ NLs nl /\ starts_cmd (tk t) = true.
Proof.
  inversion 1; subst. apply term_first in H1 as (t & pre' & -> & Hs). exists nl, t, pre'. auto.
Qed.

Lemma elses_first pre hs es hs1 : G_elses pre hs es hs1 -> pre = [] \/ exists t pre', pre = t :: pre' /\ (tk t = K_ELIF \/ tk t = K_ELSE).
Proof. inversion 1; subst; [left; reflexivity| |]; right; eexists _, _; (split; [reflexivity|auto]). Qed.

Lemma items_first pre hs its hs1 : G_items pre hs its hs1 -> pre = [] \/ exists t pre', pre = t :: pre' /\ (tk t = K_LPAREN \/ tk t = K_WORD).
Proof.
  inversion 1; subst; [left; reflexivity| | | |]; right;
    match goal with H : _ = [] \/ _ |- _ => destruct H as [->|(t0 & -> & Ht0)] end;
    eexists _, _; (split; [reflexivity|auto]).
Qed.

Lemma pl_rest_first pre hs txt hs1 : G_pl_rest pre hs txt hs1 -> pre = [] \/ exists t pre', pre = t :: pre' /\ tk t = K_PIPE.
Proof. inversion 1; subst; [left; reflexivity|right; eexists _, _; split; [reflexivity|assumption]]. Qed.

Lemma ao_rest_first pre hs txt hs1 : G_ao_rest pre hs txt hs1 -> pre = [] \/ exists t pre', pre = t :: pre' /\ (tk t = K_AND \/ tk t = K_OR).
Proof. inversion 1; subst; [left; reflexivity|right; eexists _, _; split; [reflexivity|assumption]]. Qed.

Lemma fo_weaken (f g : tkind -> bool) rest : (forall k, f k = true -> g k = true) -> fo f rest = true -> fo g rest = true.
Proof. intros H. destruct rest; cbn; auto. Qed.

Lemma term_andor k : term_follow k = true -> andor_follow k = true.
Proof. intros H; unfold andor_follow; rewrite H; reflexivity. Qed.
Lemma andor_pipe k : andor_follow k = true -> pipe_follow k = true.
Proof. intros H; unfold pipe_follow; rewrite H; reflexivity. Qed.
Lemma pipe_cmd k : pipe_follow k = true -> cmd_follow k = true.
Proof. intros H; unfold cmd_follow; rewrite H; reflexivity. Qed.

Lemma fo_term_facts rest : fo term_follow rest = true ->
  head_is K_NL rest = false /\ head_starts_cmd rest = false /\
  match rest with t :: _ => (is K_AMP t || is K_SEMI t = false) /\ is K_NL t = false | [] => True end.
Proof.
  destruct rest as [|t r]; [repeat split|]. cbn [fo head_is head_starts_cmd]. unfold is, tkind_eqb.
  destruct (tk t); intros H; try discriminate H; repeat split.
Qed.

(** * the mutually recursive part *)
Definition P_cmd pre hs sk hs' := forall rest, fo cmd_follow rest = true ->
  exists k, forall n, (k <= n)%nat -> p_cmd n (pre ++ rest) hs = POk sk rest hs'.
Definition P_compound pre hs sk hs' := forall rest,
  exists k, forall n, (k <= n)%nat -> p_compound n (pre ++ rest) hs = POk sk rest hs'.
Definition P_elses pre hs es hs' := forall rest acc, head_is K_FI rest = true ->
  exists k, forall n, (k <= n)%nat -> p_elses n acc (pre ++ rest) hs = POk (acc ++ es) rest hs'.
Definition P_items pre hs its hs' := forall rest acc, head_is K_ESAC rest = true ->
  exists k, forall n, (k <= n)%nat -> p_items n acc (pre ++ rest) hs = POk (acc ++ its) rest hs'.
Definition P_pl_rest pre hs txt hs' := forall rest acc, fo pipe_follow rest = true ->
  exists k, forall n, (k <= n)%nat -> p_pl_more n acc (pre ++ rest) hs = POk (acc ++ txt ++ B "}") rest hs'.
Definition P_pipeline pre hs sk hs' := forall rest, fo pipe_follow rest = true ->
  exists k, forall n, (k <= n)%nat -> p_pipeline n (pre ++ rest) hs = POk sk rest hs'.
Definition P_ao_rest pre hs txt hs' := forall rest acc, fo andor_follow rest = true ->
  exists k, forall n, (k <= n)%nat -> p_ao_more n acc (pre ++ rest) hs = POk (acc ++ txt) rest hs'.
Definition P_andor pre hs sk hs' := forall rest, fo andor_follow rest = true ->
  exists k, forall n, (k <= n)%nat -> p_andor n (pre ++ rest) hs = POk sk rest hs'.
Definition P_term pre hs l hs' := forall rest acc, fo term_follow rest = true ->
  exists k, forall n, (k <= n)%nat -> p_term n acc (pre ++ rest) hs = POk (acc ++ l) rest hs'.
Definition P_clist pre hs l hs' := forall rest, fo term_follow rest = true ->
  exists k, forall n, (k <= n)%nat -> p_clist n (pre ++ rest) hs = POk l rest hs'.

Ltac norm := repeat (rewrite <- ?app_assoc; cbn [app]).
Ltac norm_in H := repeat (rewrite <- ?app_assoc in H; cbn [app] in H).

Lemma for_body_complete ts hs l hs' : P_clist ts hs l hs' -> forall d dn rest name has_in items,
  tk d = K_DO -> tk dn = K_DONE ->
  exists k, forall n, (k <= n)%nat ->
    p_for_body n name has_in items (d :: ts ++ dn :: rest) hs =
    POk (B "for{" ++ hex name ++ B ":" ++ (if has_in then B "1" else B "0") ++ fmt_cmds items ++ fmt_cmds l ++ B "}") rest hs'.
Proof.
  intros IH d dn rest name has_in items Hd Hdn.
  destruct (IH (dn :: rest)) as (k & Hk); [cbn; rewrite Hdn; reflexivity|].
  exists (S k). intros [|n] Hn; [lia|]. cbn [p_for_body]. rewrite (expect_hit _ _ _ _ Hd), Hk by lia.
  rewrite (expect_hit _ _ _ _ Hdn). reflexivity.
Qed.

Lemma complete_all :
  (forall pre hs sk hs', G_cmd pre hs sk hs' -> P_cmd pre hs sk hs') /\
  (forall pre hs sk hs', G_compound pre hs sk hs' -> P_compound pre hs sk hs') /\
  (forall pre hs es hs', G_elses pre hs es hs' -> P_elses pre hs es hs') /\
  (forall pre hs its hs', G_items pre hs its hs' -> P_items pre hs its hs') /\
  (forall pre hs txt hs', G_pl_rest pre hs txt hs' -> P_pl_rest pre hs txt hs') /\
  (forall pre hs sk hs', G_pipeline pre hs sk hs' -> P_pipeline pre hs sk hs') /\
  (forall pre hs txt hs', G_ao_rest pre hs txt hs' -> P_ao_rest pre hs txt hs') /\
  (forall pre hs sk hs', G_andor pre hs sk hs' -> P_andor pre hs sk hs') /\
  (forall pre hs l hs', G_term pre hs l hs' -> P_term pre hs l hs') /\
  (forall pre hs l hs', G_clist pre hs l hs' -> P_clist pre hs l hs').
Proof.
  apply G_mutind.
  - (* cmd: simple *)
    intros ts hs sk hs' G rest Hf.
    destruct (p_simple_complete _ _ _ _ G rest (cmd_follow_fsimple _ Hf)) as (k & Hk).
    destruct (simple_first _ _ _ _ G) as (t & pre' & -> & Hs).
    exists (S k). intros [|n] Hn; [lia|]. cbn [app p_cmd]. specialize (Hk n ltac:(lia)). cbn [app] in Hk.
    unfold is, tkind_eqb. destruct (tk t); try discriminate Hs; cbn; exact Hk.
  - (* cmd: compound *)
    intros ts1 ts2 hs e hs1 rs hs2 G1 IH1 G2 rest Hf.
    destruct (IH1 (ts2 ++ rest)) as (k1 & Hk1).
    destruct (p_redirs_complete _ _ _ _ G2 rest [] (proj1 (cmd_follow_fsimple _ Hf))) as (k2 & Hk2).
    destruct (compound_first _ _ _ _ G1) as (t & pre' & -> & Hs).
    exists (S (k1 + k2)). intros [|n] Hn; [lia|]. norm. cbn [p_cmd].
    specialize (Hk1 n ltac:(lia)). specialize (Hk2 n ltac:(lia)). cbn [app] in Hk1.
    unfold is, tkind_eqb. destruct (tk t) eqn:Ek; try discriminate Hs; cbn; rewrite Hk1, Hk2; reflexivity.
  - (* cmd: function definition *)
    intros t lp rp nl ts1 ts2 hs e hs1 rs hs2 Ht Hn Hlp Hrp Hnl G1 IH1 G2 rest Hf.
    destruct (IH1 (ts2 ++ rest)) as (k1 & Hk1).
    destruct (p_redirs_complete _ _ _ _ G2 rest [] (proj1 (cmd_follow_fsimple _ Hf))) as (k2 & Hk2).
    destruct (compound_first _ _ _ _ G1) as (t1 & pre' & -> & Hs).
    exists (S (k1 + k2)). intros [|n] Hle; [lia|]. norm. cbn [p_cmd].
    rewrite (is_eq _ _ Ht), Hn, (expect_hit _ _ _ _ Hlp), (expect_hit _ _ _ _ Hrp).
    rewrite (skip_nl_app nl _ Hnl) by (cbn; apply is_ne; intros E; rewrite E in Hs; discriminate).
    specialize (Hk1 n ltac:(lia)). norm_in Hk1.
    rewrite Hk1, Hk2 by lia. reflexivity.
  - (* subshell *)
    intros lp ts rp hs l hs' Hlp G IH Hrp rest.
    destruct (IH (rp :: rest)) as (k & Hk); [cbn; rewrite Hrp; reflexivity|].
    exists (S k). intros [|n] Hn; [lia|]. norm. cbn [p_compound]. rewrite Hlp. cbv iota.
    rewrite Hk by lia. rewrite (expect_hit _ _ _ _ Hrp). reflexivity.
  - (* group *)
    intros lb ts rb hs l hs' Hlb G IH Hrb rest.
    destruct (IH (rb :: rest)) as (k & Hk); [cbn; rewrite Hrb; reflexivity|].
    exists (S k). intros [|n] Hn; [lia|]. norm. cbn [p_compound]. rewrite Hlb. cbv iota.
    rewrite Hk by lia. rewrite (expect_hit _ _ _ _ Hrb). reflexivity.
  - (* arith *)
    intros la w ra hs Hla Hw Hra rest. exists 1%nat. intros [|n] Hn; [lia|]. cbn [app p_compound]. rewrite Hla. cbv iota.
    rewrite (is_eq _ _ Hw), (expect_hit _ _ _ _ Hra). reflexivity.
  - (* while / until *)
    intros wh ts1 d ts2 dn hs c hs1 l hs2 Hwh G1 IH1 Hd G2 IH2 Hdn rest.
    destruct (IH1 (d :: ts2 ++ dn :: rest)) as (k1 & Hk1); [cbn; rewrite Hd; reflexivity|].
    destruct (IH2 (dn :: rest)) as (k2 & Hk2); [cbn; rewrite Hdn; reflexivity|].
    exists (S (k1 + k2)). intros [|n] Hn; [lia|]. norm. cbn [p_compound].
    destruct Hwh as [Hwh|Hwh]; rewrite Hwh; cbv iota; rewrite Hk1 by lia; rewrite (expect_hit _ _ _ _ Hd), Hk2 by lia;
      rewrite (expect_hit _ _ _ _ Hdn); reflexivity.
  - (* if *)
    intros i ts1 th ts2 ts3 fi hs c hs1 l hs2 es hs3 Hi G1 IH1 Hth G2 IH2 G3 IH3 Hfi rest.
    destruct (IH1 (th :: ts2 ++ ts3 ++ fi :: rest)) as (k1 & Hk1); [cbn; rewrite Hth; reflexivity|].
    destruct (IH2 (ts3 ++ fi :: rest)) as (k2 & Hk2).
    { destruct (elses_first _ _ _ _ G3) as [->|(t & pre' & -> & [Ht|Ht])]; cbn; [rewrite Hfi|rewrite Ht|rewrite Ht]; reflexivity. }
    destruct (IH3 (fi :: rest) []) as (k3 & Hk3); [cbn; apply is_eq, Hfi|].
    exists (S (k1 + k2 + k3)). intros [|n] Hn; [lia|]. norm. cbn [p_compound]. rewrite Hi. cbv iota.
    rewrite Hk1 by lia. rewrite (expect_hit _ _ _ _ Hth), Hk2 by lia. rewrite Hk3 by lia.
    rewrite (expect_hit _ _ _ _ Hfi). reflexivity.
  - (* for NAME do *)
    intros f nm d ts dn hs l hs' Hf Hnm Hnw Hd G IH Hdn rest.
    destruct (for_body_complete _ _ _ _ IH d dn rest (first_lit (tw nm)) false [] Hd Hdn) as (k & Hk).
    exists (S k). intros [|n] Hn; [lia|]. norm. cbn [p_compound]. rewrite Hf. cbv iota.
    rewrite (is_eq _ _ Hnm), Hnw. cbn [andb skip_nl]. rewrite (is_ne K_NL d) by congruence. cbn [head_is].
    rewrite (is_ne K_IN d) by congruence. rewrite (is_eq _ _ Hd). rewrite Hk by lia. reflexivity.
  - (* for NAME seq_sep do *)
    intros f nm s nl d ts dn hs l hs' Hf Hnm Hnw Hs Hnl Hd G IH Hdn rest.
    destruct (for_body_complete _ _ _ _ IH d dn rest (first_lit (tw nm)) false [] Hd Hdn) as (k & Hk).
    exists (S k). intros [|n] Hn; [lia|]. norm. cbn [p_compound]. rewrite Hf. cbv iota.
    rewrite (is_eq _ _ Hnm), Hnw. cbn [andb].
    assert (Hdnl : head_is K_NL (d :: ts ++ dn :: rest) = false) by (cbn; apply is_ne; congruence).
    destruct Hs as [Hs|Hs].
    + cbn [skip_nl]. rewrite (is_ne K_NL s) by congruence. cbn [head_is].
      rewrite (is_ne K_IN s), (is_ne K_DO s), (is_eq _ _ Hs) by congruence.
      rewrite (skip_nl_app nl _ Hnl Hdnl). rewrite Hk by lia. reflexivity.
    + cbn [skip_nl]. rewrite (is_eq _ _ Hs). rewrite (skip_nl_app nl _ Hnl Hdnl). cbn [head_is].
      rewrite (is_ne K_IN d), (is_ne K_DO s), (is_ne K_SEMI s) by congruence. rewrite Hk by lia. reflexivity.
  - (* for NAME in words *)
    intros f nm nl1 i ws s nl2 d ts dn hs items l hs' Hf Hnm Hnw Hnl1 Hi Gw Hs Hnl2 Hd G IH Hdn rest.
    destruct (for_body_complete _ _ _ _ IH d dn rest (first_lit (tw nm)) true items Hd Hdn) as (k & Hk).
    exists (S k). intros [|n] Hn; [lia|]. norm. cbn [p_compound]. rewrite Hf. cbv iota.
    rewrite (is_eq _ _ Hnm), Hnw. cbn [andb].
    rewrite (skip_nl_app nl1 _ Hnl1) by (cbn; apply is_ne; congruence). cbn [head_is tl]. rewrite (is_eq _ _ Hi).
    rewrite (p_words_complete _ _ Gw) by (cbn; apply is_ne; destruct Hs; congruence). cbn [app].
    assert (Hss : is K_SEMI s || is K_NL s = true) by (destruct Hs as [Hs|Hs]; rewrite (is_eq _ _ Hs); auto using orb_true_r).
    rewrite Hss. rewrite (skip_nl_app nl2 _ Hnl2) by (cbn; apply is_ne; congruence). rewrite Hk by lia. reflexivity.
  - (* case *)
    intros c w nl1 i nl2 ts e hs its hs' Hc Hw Hnl1 Hi Hnl2 G IH He rest.
    destruct (IH (e :: rest) []) as (k & Hk); [cbn; apply is_eq, He|].
    exists (S k). intros [|n] Hn; [lia|]. norm. cbn [p_compound]. rewrite Hc. cbv iota. rewrite (is_eq _ _ Hw).
    rewrite (skip_nl_app nl1 _ Hnl1) by (cbn; apply is_ne; congruence). rewrite (expect_hit _ _ _ _ Hi).
    rewrite (skip_nl_app nl2 _ Hnl2).
    2:{ destruct (items_first _ _ _ _ G) as [->|(t & pre' & -> & [Ht|Ht])]; cbn; apply is_ne; congruence. }
    rewrite Hk by lia. rewrite (expect_hit _ _ _ _ He). reflexivity.
  - (* elses: none *)
    intros hs rest acc Hr. exists 1%nat. intros [|n] Hn; [lia|]. cbn [app p_elses].
    destruct rest as [|e re]; [discriminate|]. cbn [head_is] in Hr. apply is_iff in Hr.
    rewrite (is_ne K_ELIF e), (is_ne K_ELSE e), app_nil_r by congruence. reflexivity.
  - (* elses: elif *)
    intros e ts1 th ts2 ts3 hs c hs1 l hs2 es hs3 He G1 IH1 Hth G2 IH2 G3 IH3 rest acc Hr.
    destruct (IH1 (th :: ts2 ++ ts3 ++ rest)) as (k1 & Hk1); [cbn; rewrite Hth; reflexivity|].
    destruct (IH2 (ts3 ++ rest)) as (k2 & Hk2).
    { destruct (elses_first _ _ _ _ G3) as [->|(t & pre' & -> & [Ht|Ht])]; cbn; [|rewrite Ht; reflexivity|rewrite Ht; reflexivity].
      destruct rest as [|t r]; [discriminate|]. cbn in *. apply is_iff in Hr. rewrite Hr. reflexivity. }
    destruct (IH3 rest (acc ++ [B "elif{" ++ fmt_cmds c ++ fmt_cmds l ++ B "}"]) Hr) as (k3 & Hk3).
    exists (S (k1 + k2 + k3)). intros [|n] Hn; [lia|]. norm. cbn [p_elses]. rewrite (is_eq _ _ He).
    rewrite Hk1 by lia. rewrite (expect_hit _ _ _ _ Hth), Hk2 by lia. rewrite Hk3 by lia. norm. reflexivity.
  - (* elses: else *)
    intros e ts hs l hs' He G IH rest acc Hr.
    destruct (IH rest) as (k & Hk).
    { destruct rest as [|t r]; [discriminate|]. cbn in *. apply is_iff in Hr. rewrite Hr. reflexivity. }
    exists (S k). intros [|n] Hn; [lia|]. norm. cbn [p_elses]. rewrite (is_ne K_ELIF e), (is_eq _ _ He) by congruence.
    rewrite Hk by lia. reflexivity.
  - (* items: none *)
    intros hs rest acc Hr. exists 1%nat. intros [|n] Hn; [lia|]. cbn [app p_items]. rewrite Hr, app_nil_r. reflexivity.
  - (* items: pattern) ;; *)
    intros lp p ps rp nl1 b nl2 ts hs pats its hs' Hlp Hp Gp Hrp Hnl1 Hb Hnl2 G IH rest acc Hr.
    destruct (IH rest (acc ++ [B "item{" ++ fmt_cmds (sk_word (tw p) :: pats) ++ fmt_cmds [] ++ B "1}"]) Hr) as (k & Hk).
    exists (S k). intros [|n] Hn; [lia|]. norm.
    assert (Hnext : head_is K_NL (ts ++ rest) = false).
    { destruct (items_first _ _ _ _ G) as [->|(t & pre' & -> & [Ht|Ht])]; cbn; [|apply is_ne; congruence|apply is_ne; congruence].
      destruct rest as [|t r]; [reflexivity|]. cbn in *. apply is_iff in Hr. apply is_ne. congruence. }
    assert (Hbody : forall tl0, tl0 = p :: ps ++ rp :: nl1 ++ b :: nl2 ++ ts ++ rest ->
              (let '(pats0, ts2) := p_pats (ps ++ rp :: nl1 ++ b :: nl2 ++ ts ++ rest) [sk_word (tw p)] in
               bind (_u, ts3, hs3) <- expect K_RPAREN ts2 hs;
               let ts4 := skip_nl ts3 in
               if head_is K_BREAK ts4 then
                 p_items n (acc ++ [B "item{" ++ fmt_cmds pats0 ++ fmt_cmds [] ++ B "1}"]) (skip_nl (tl ts4)) hs3
               else PErr None : pres (list bytes)) = POk ((acc ++ [B "item{" ++ fmt_cmds (sk_word (tw p) :: pats) ++ fmt_cmds [] ++ B "1}"]) ++ its) rest hs').
    { intros _ _. rewrite (p_pats_complete _ _ Gp) by (cbn; apply is_ne; congruence). cbn [app].
      rewrite (expect_hit _ _ _ _ Hrp). cbv zeta. rewrite (skip_nl_app nl1 _ Hnl1) by (cbn; apply is_ne; congruence).
      cbn [head_is tl]. rewrite (is_eq _ _ Hb). rewrite (skip_nl_app nl2 _ Hnl2 Hnext). apply Hk. lia. }
    specialize (Hbody _ eq_refl).
    cbn [p_items].
    destruct Hlp as [->|(t0 & -> & Ht0)]; cbn [app head_is].
    + rewrite (is_ne K_ESAC p), (is_ne K_LPAREN p), (is_eq _ _ Hp) by congruence.
      revert Hbody. rewrite (p_pats_complete _ _ Gp) by (cbn; apply is_ne; congruence). cbn [app].
      rewrite (expect_hit _ _ _ _ Hrp). cbv zeta. rewrite (skip_nl_app nl1 _ Hnl1) by (cbn; apply is_ne; congruence).
      cbn [head_is tl]. rewrite (is_eq _ _ Hb). intros Hbody. rewrite Hbody. norm. reflexivity.
    + rewrite (is_ne K_ESAC t0), (is_eq _ _ Ht0), (is_eq _ _ Hp) by congruence.
      revert Hbody. rewrite (p_pats_complete _ _ Gp) by (cbn; apply is_ne; congruence). cbn [app].
      rewrite (expect_hit _ _ _ _ Hrp). cbv zeta. rewrite (skip_nl_app nl1 _ Hnl1) by (cbn; apply is_ne; congruence).
      cbn [head_is tl]. rewrite (is_eq _ _ Hb). intros Hbody. rewrite Hbody. norm. reflexivity.
  - (* items: pattern) list ;; *)
    intros lp p ps rp ts1 b nl2 ts hs pats l hs1 its hs' Hlp Hp Gp Hrp G1 IH1 Hb Hnl2 G IH rest acc Hr.
    destruct (IH1 (b :: nl2 ++ ts ++ rest)) as (k1 & Hk1); [cbn; rewrite Hb; reflexivity|].
    destruct (IH rest (acc ++ [B "item{" ++ fmt_cmds (sk_word (tw p) :: pats) ++ fmt_cmds l ++ B "1}"]) Hr) as (k & Hk).
    exists (S (k1 + k)). intros [|n] Hn; [lia|]. norm.
    assert (Hnext : head_is K_NL (ts ++ rest) = false).
    { destruct (items_first _ _ _ _ G) as [->|(t & pre' & -> & [Ht|Ht])]; cbn; [|apply is_ne; congruence|apply is_ne; congruence].
      destruct rest as [|t r]; [reflexivity|]. cbn in *. apply is_iff in Hr. apply is_ne. congruence. }
    destruct (clist_first _ _ _ _ G1) as (nl & t1 & pre1 & E1 & Hnl & Hs1).
    assert (Hsk : skip_nl (ts1 ++ b :: nl2 ++ ts ++ rest) = t1 :: pre1 ++ b :: nl2 ++ ts ++ rest).
    { rewrite E1. norm. apply skip_nl_app; [assumption|]. apply starts_cmd_not_nl, Hs1. }
    assert (Hcore : (bind (_u, ts3, hs3) <- expect K_RPAREN (rp :: ts1 ++ b :: nl2 ++ ts ++ rest) hs;
               let ts4 := skip_nl ts3 in
               if head_is K_BREAK ts4 then
                 p_items n (acc ++ [B "item{" ++ fmt_cmds ([sk_word (tw p)] ++ pats) ++ fmt_cmds [] ++ B "1}"]) (skip_nl (tl ts4)) hs3
               else if head_is K_ESAC ts4 then
                 POk (acc ++ [B "item{" ++ fmt_cmds ([sk_word (tw p)] ++ pats) ++ fmt_cmds [] ++ B "0}"]) ts4 hs3
               else
                 bind (l0, ts5, hs5) <- p_clist n ts3 hs3;
                 match ts5 with
                 | b0 :: rb =>
                   if is K_BREAK b0 then
                     p_items n (acc ++ [B "item{" ++ fmt_cmds ([sk_word (tw p)] ++ pats) ++ fmt_cmds l0 ++ B "1}"]) (skip_nl rb) hs5
                   else if is K_ESAC b0 then
                     POk (acc ++ [B "item{" ++ fmt_cmds ([sk_word (tw p)] ++ pats) ++ fmt_cmds l0 ++ B "0}"]) ts5 hs5
                   else PErr (Some (tidx b0))
                 | [] => PErr None
                 end) = POk (acc ++ (B "item{" ++ fmt_cmds (sk_word (tw p) :: pats) ++ fmt_cmds l ++ B "1}") :: its) rest hs').
    { rewrite (expect_hit _ _ _ _ Hrp). cbv zeta. rewrite Hsk. cbn [head_is].
      rewrite (is_ne K_BREAK t1), (is_ne K_ESAC t1) by (intros E; rewrite E in Hs1; discriminate).
      rewrite Hk1 by lia. rewrite (is_eq _ _ Hb). rewrite (skip_nl_app nl2 _ Hnl2 Hnext). cbn [app].
      rewrite Hk by lia. norm. reflexivity. }
    cbn [p_items].
    destruct Hlp as [->|(t0 & -> & Ht0)]; cbn [app head_is].
    + rewrite (is_ne K_ESAC p), (is_ne K_LPAREN p), (is_eq _ _ Hp) by congruence.
      rewrite (p_pats_complete _ _ Gp) by (cbn; apply is_ne; congruence). exact Hcore.
    + rewrite (is_ne K_ESAC t0), (is_eq _ _ Ht0), (is_eq _ _ Hp) by congruence.
      rewrite (p_pats_complete _ _ Gp) by (cbn; apply is_ne; congruence). exact Hcore.
  - (* items: last, empty *)
    intros lp p ps rp nl1 hs pats Hlp Hp Gp Hrp Hnl1 rest acc Hr.
    exists 1%nat. intros [|n] Hn; [lia|]. norm.
    assert (Hrnl : head_is K_NL rest = false).
    { destruct rest as [|t r]; [reflexivity|]. cbn in *. apply is_iff in Hr. apply is_ne. congruence. }
    assert (Hrb : head_is K_BREAK rest = false).
    { destruct rest as [|t r]; [reflexivity|]. cbn in *. apply is_iff in Hr. apply is_ne. congruence. }
    assert (Hcore : (bind (_u, ts3, hs3) <- expect K_RPAREN (rp :: nl1 ++ rest) hs;
               let ts4 := skip_nl ts3 in
               if head_is K_BREAK ts4 then
                 p_items n (acc ++ [B "item{" ++ fmt_cmds ([sk_word (tw p)] ++ pats) ++ fmt_cmds [] ++ B "1}"]) (skip_nl (tl ts4)) hs3
               else if head_is K_ESAC ts4 then
                 POk (acc ++ [B "item{" ++ fmt_cmds ([sk_word (tw p)] ++ pats) ++ fmt_cmds [] ++ B "0}"]) ts4 hs3
               else PErr None : pres (list bytes)) =
            POk (acc ++ [B "item{" ++ fmt_cmds (sk_word (tw p) :: pats) ++ fmt_cmds [] ++ B "0}"]) rest hs).
    { rewrite (expect_hit _ _ _ _ Hrp). cbv zeta. rewrite (skip_nl_app nl1 _ Hnl1 Hrnl). rewrite Hrb, Hr. reflexivity. }
    revert Hcore. rewrite (expect_hit _ _ _ _ Hrp). cbv zeta. rewrite (skip_nl_app nl1 _ Hnl1 Hrnl). rewrite Hrb, Hr. intros _.
    cbn [p_items].
    destruct Hlp as [->|(t0 & -> & Ht0)]; cbn [app head_is].
    + rewrite (is_ne K_ESAC p), (is_ne K_LPAREN p), (is_eq _ _ Hp) by congruence.
      rewrite (p_pats_complete _ _ Gp) by (cbn; apply is_ne; congruence).
      rewrite (expect_hit _ _ _ _ Hrp). cbv zeta. rewrite (skip_nl_app nl1 _ Hnl1 Hrnl). rewrite Hrb, Hr. reflexivity.
    + rewrite (is_ne K_ESAC t0), (is_eq _ _ Ht0), (is_eq _ _ Hp) by congruence.
      rewrite (p_pats_complete _ _ Gp) by (cbn; apply is_ne; congruence).
      rewrite (expect_hit _ _ _ _ Hrp). cbv zeta. rewrite (skip_nl_app nl1 _ Hnl1 Hrnl). rewrite Hrb, Hr. reflexivity.
  - (* items: last, with a list *)
    intros lp p ps rp ts1 hs pats l hs1 Hlp Hp Gp Hrp G1 IH1 rest acc Hr.
    destruct (IH1 rest) as (k1 & Hk1).
    { destruct rest as [|t r]; [discriminate|]. cbn in *. apply is_iff in Hr. rewrite Hr. reflexivity. }
    exists (S k1). intros [|n] Hn; [lia|]. norm.
    destruct (clist_first _ _ _ _ G1) as (nl & t1 & pre1 & E1 & Hnl & Hs1).
    assert (Hsk : skip_nl (ts1 ++ rest) = t1 :: pre1 ++ rest).
    { rewrite E1. norm. apply skip_nl_app; [assumption|]. apply starts_cmd_not_nl, Hs1. }
    destruct rest as [|e r]; [discriminate|]. cbn [head_is] in Hr.
    assert (Hcore : (bind (_u, ts3, hs3) <- expect K_RPAREN (rp :: ts1 ++ e :: r) hs;
               let ts4 := skip_nl ts3 in
               if head_is K_BREAK ts4 then
                 p_items n (acc ++ [B "item{" ++ fmt_cmds ([sk_word (tw p)] ++ pats) ++ fmt_cmds [] ++ B "1}"]) (skip_nl (tl ts4)) hs3
               else if head_is K_ESAC ts4 then
                 POk (acc ++ [B "item{" ++ fmt_cmds ([sk_word (tw p)] ++ pats) ++ fmt_cmds [] ++ B "0}"]) ts4 hs3
               else
                 bind (l0, ts5, hs5) <- p_clist n ts3 hs3;
                 match ts5 with
                 | b0 :: rb =>
                   if is K_BREAK b0 then
                     p_items n (acc ++ [B "item{" ++ fmt_cmds ([sk_word (tw p)] ++ pats) ++ fmt_cmds l0 ++ B "1}"]) (skip_nl rb) hs5
                   else if is K_ESAC b0 then
                     POk (acc ++ [B "item{" ++ fmt_cmds ([sk_word (tw p)] ++ pats) ++ fmt_cmds l0 ++ B "0}"]) ts5 hs5
                   else PErr (Some (tidx b0))
                 | [] => PErr None
                 end) = POk (acc ++ [B "item{" ++ fmt_cmds (sk_word (tw p) :: pats) ++ fmt_cmds l ++ B "0}"]) (e :: r) hs1).
    { rewrite (expect_hit _ _ _ _ Hrp). cbv zeta. rewrite Hsk. cbn [head_is].
      rewrite (is_ne K_BREAK t1), (is_ne K_ESAC t1) by (intros E; rewrite E in Hs1; discriminate).
      rewrite Hk1 by lia. apply is_iff in Hr. rewrite (is_ne K_BREAK e), (is_eq _ _ Hr) by congruence. reflexivity. }
    cbn [p_items].
    destruct Hlp as [->|(t0 & -> & Ht0)]; cbn [app head_is].
    + rewrite (is_ne K_ESAC p), (is_ne K_LPAREN p), (is_eq _ _ Hp) by congruence.
      rewrite (p_pats_complete _ _ Gp) by (cbn; apply is_ne; congruence). exact Hcore.
    + rewrite (is_ne K_ESAC t0), (is_eq _ _ Ht0), (is_eq _ _ Hp) by congruence.
      rewrite (p_pats_complete _ _ Gp) by (cbn; apply is_ne; congruence). exact Hcore.
  - (* pl_rest: none *)
    intros hs rest acc Hr. exists 1%nat. intros [|n] Hn; [lia|]. cbn [app p_pl_more].
    destruct rest as [|t r]; [reflexivity|]. cbn [fo] in Hr.
    rewrite (is_ne K_PIPE t) by (intros E; rewrite E in Hr; discriminate). reflexivity.
  - (* pl_rest: | cmd *)
    intros p nl ts1 ts2 hs c hs1 rest0 hs2 Hp Hnl G1 IH1 G2 IH2 rest acc Hr.
    destruct (IH1 (ts2 ++ rest)) as (k1 & Hk1).
    { destruct (pl_rest_first _ _ _ _ G2) as [->|(t & pre' & -> & Ht)]; cbn; [|rewrite Ht; reflexivity].
      apply (fo_weaken pipe_follow cmd_follow); [apply pipe_cmd|assumption]. }
    destruct (IH2 rest (acc ++ B "," ++ hex (B "|") ++ c) Hr) as (k2 & Hk2).
    destruct (cmd_first _ _ _ _ G1) as (t1 & pre1 & -> & Hs1).
    exists (S (k1 + k2)). intros [|n] Hn; [lia|]. norm. cbn [p_pl_more]. rewrite (is_eq _ _ Hp).
    rewrite (skip_nl_app nl _ Hnl) by (apply starts_cmd_not_nl, cmd_start_starts, Hs1).
    specialize (Hk1 n ltac:(lia)). norm_in Hk1. rewrite Hk1, Hk2 by lia. norm. reflexivity.
  - (* pipeline *)
    intros ts1 ts2 hs c hs1 rest0 hs2 G1 IH1 G2 IH2 rest Hr.
    destruct (IH1 (ts2 ++ rest)) as (k1 & Hk1).
    { destruct (pl_rest_first _ _ _ _ G2) as [->|(t & pre' & -> & Ht)]; cbn; [|rewrite Ht; reflexivity].
      apply (fo_weaken pipe_follow cmd_follow); [apply pipe_cmd|assumption]. }
    destruct (IH2 rest (B "pl{" ++ c) Hr) as (k2 & Hk2).
    destruct (cmd_first _ _ _ _ G1) as (t1 & pre1 & -> & Hs1).
    exists (S (k1 + k2)). intros [|n] Hn; [lia|]. norm. cbn [p_pipeline].
    rewrite (is_ne K_BANG t1) by (apply cmd_start_starts, Hs1).
    specialize (Hk1 n ltac:(lia)). norm_in Hk1. rewrite Hk1. cbn [app]. rewrite Hk2 by lia. norm. reflexivity.
  - (* pipeline with ! *)
    intros b ts1 ts2 hs c hs1 rest0 hs2 Hb G1 IH1 G2 IH2 rest Hr.
    destruct (IH1 (ts2 ++ rest)) as (k1 & Hk1).
    { destruct (pl_rest_first _ _ _ _ G2) as [->|(t & pre' & -> & Ht)]; cbn; [|rewrite Ht; reflexivity].
      apply (fo_weaken pipe_follow cmd_follow); [apply pipe_cmd|assumption]. }
    destruct (IH2 rest (B "pl{" ++ B "!," ++ c) Hr) as (k2 & Hk2).
    exists (S (k1 + k2)). intros [|n] Hn; [lia|]. norm. cbn [p_pipeline]. rewrite (is_eq _ _ Hb).
    rewrite Hk1 by lia. rewrite Hk2 by lia. norm. reflexivity.
  - (* ao_rest: none *)
    intros hs rest acc Hr. exists 1%nat. intros [|n] Hn; [lia|]. cbn [app p_ao_more]. rewrite app_nil_r.
    destruct rest as [|t r]; [reflexivity|]. cbn [fo] in Hr.
    rewrite (is_ne K_AND t), (is_ne K_OR t) by (intros E; rewrite E in Hr; discriminate). reflexivity.
  - (* ao_rest: && pipeline *)
    intros o nl ts1 ts2 hs p hs1 rest0 hs2 Ho Hnl G1 IH1 G2 IH2 rest acc Hr.
    destruct (IH1 (ts2 ++ rest)) as (k1 & Hk1).
    { destruct (ao_rest_first _ _ _ _ G2) as [->|(t & pre' & -> & [Ht|Ht])]; cbn; [|rewrite Ht; reflexivity|rewrite Ht; reflexivity].
      apply (fo_weaken andor_follow pipe_follow); [apply andor_pipe|assumption]. }
    destruct (IH2 rest (acc ++ B "," ++ sk_ao_op o ++ p) Hr) as (k2 & Hk2).
    destruct (pipeline_first _ _ _ _ G1) as (t1 & pre1 & -> & Hs1).
    exists (S (k1 + k2)). intros [|n] Hn; [lia|]. norm. cbn [p_ao_more].
    assert (Hoo : is K_AND o || is K_OR o = true) by (destruct Ho as [Ho|Ho]; rewrite (is_eq _ _ Ho); auto using orb_true_r).
    rewrite Hoo. rewrite (skip_nl_app nl _ Hnl) by (apply starts_cmd_not_nl, Hs1).
    specialize (Hk1 n ltac:(lia)). norm_in Hk1. rewrite Hk1, Hk2 by lia. norm. reflexivity.
  - (* andor *)
    intros ts1 ts2 hs p hs1 rest0 hs2 G1 IH1 G2 IH2 rest Hr.
    destruct (IH1 (ts2 ++ rest)) as (k1 & Hk1).
    { destruct (ao_rest_first _ _ _ _ G2) as [->|(t & pre' & -> & [Ht|Ht])]; cbn; [|rewrite Ht; reflexivity|rewrite Ht; reflexivity].
      apply (fo_weaken andor_follow pipe_follow); [apply andor_pipe|assumption]. }
    destruct (IH2 rest (B "ao{" ++ p) Hr) as (k2 & Hk2).
    exists (S (k1 + k2)). intros [|n] Hn; [lia|]. norm. cbn [p_andor]. rewrite Hk1 by lia. rewrite Hk2 by lia. norm. reflexivity.
  - (* term: last and-or, no separator *)
    intros ts hs a hs' G IH rest acc Hr.
    destruct (IH rest) as (k & Hk); [apply (fo_weaken term_follow andor_follow); [apply term_andor|assumption]|].
    exists (S k). intros [|n] Hn; [lia|]. cbn [p_term]. rewrite Hk by lia.
    destruct (fo_term_facts _ Hr) as (_ & _ & H3). destruct rest as [|t r]; [reflexivity|]. destruct H3 as (H3 & H4).
    rewrite H3, H4. reflexivity.
  - (* term: and-or separator, end *)
    intros ts s nl hs a hs' G IH Hs Hnl rest acc Hr.
    destruct (IH (s :: nl ++ rest)) as (k & Hk); [cbn; unfold andor_follow; rewrite Hs; apply orb_true_r|].
    exists (S k). intros [|n] Hn; [lia|]. norm. cbn [p_term]. rewrite Hk by lia. cbv zeta.
    destruct (fo_term_facts _ Hr) as (H1 & H2 & _). rewrite (skip_nl_app nl _ Hnl H1), H2.
    unfold sk_sep, is, tkind_eqb. destruct (tk s); try discriminate Hs; cbn; reflexivity.
  - (* term: and-or separator term *)
    intros ts1 s nl ts2 hs a hs1 l hs2 G1 IH1 Hs Hnl G2 IH2 rest acc Hr.
    destruct (IH1 (s :: nl ++ ts2 ++ rest)) as (k1 & Hk1); [cbn; unfold andor_follow; rewrite Hs; apply orb_true_r|].
    destruct (IH2 rest (acc ++ [a ++ B "}" ++ sk_sep s]) Hr) as (k2 & Hk2).
    destruct (term_first _ _ _ _ G2) as (t2 & pre2 & -> & Hs2).
    exists (S (k1 + k2)). intros [|n] Hn; [lia|]. norm. cbn [p_term]. rewrite Hk1 by lia. cbv zeta. norm.
    rewrite (skip_nl_app nl _ Hnl) by (apply starts_cmd_not_nl, Hs2). cbn [head_starts_cmd]. rewrite Hs2.
    specialize (Hk2 n ltac:(lia)). norm_in Hk2.
    unfold sk_sep, is, tkind_eqb in *. destruct (tk s); try discriminate Hs; cbn in *; rewrite Hk2; norm; reflexivity.
  - (* clist *)
    intros nl ts hs l hs' Hnl G IH rest Hr.
    destruct (IH rest [] Hr) as (k & Hk). destruct (term_first _ _ _ _ G) as (t & pre' & -> & Hs).
    exists (S k). intros [|n] Hn; [lia|]. norm. cbn [p_clist].
    rewrite (skip_nl_app nl _ Hnl) by (apply starts_cmd_not_nl, Hs). specialize (Hk n ltac:(lia)). norm_in Hk. exact Hk.
Qed.


(** Every program of the grammar is accepted with the skeleton its derivation builds; the only other
    possible answer is an exhausted recursion budget (which the correspondence check watches for). *)
Theorem parse_tokens_complete ts hs sk hs' :
  G_program ts hs sk hs' -> parse_tokens ts hs = POk sk [] hs' \/ parse_tokens ts hs = PFuel.
Proof.
  inversion 1; subst; [left; reflexivity|].
  destruct (term_first _ _ _ _ H0) as (t & pre' & -> & Hs).
  destruct complete_all as (_ & _ & _ & _ & _ & _ & _ & _ & Hterm & _).
  destruct (Hterm _ _ _ _ H0 [] [] eq_refl) as (k & Hk). rewrite app_nil_r in Hk. cbn [app] in Hk.
  unfold parse_tokens. rewrite (starts_cmd_not_nl t pre' Hs).
  pose proof (p_term_stable (budget (t :: pre')) (Nat.max (budget (t :: pre')) k) [] (t :: pre') hs (Nat.le_max_l _ _)) as St.
  rewrite (Hk (Nat.max (budget (t :: pre')) k) (Nat.le_max_r _ _)) in St.
  destruct St as [St|St]; rewrite St; [right|left]; reflexivity.
Qed.

(** A token sequence the parser rejects is not a program of the grammar. *)
Corollary parse_tokens_rejects ts hs e :
  parse_tokens ts hs = PErr e -> forall sk hs', ~ G_program ts hs sk hs'.
Proof.
  intros H sk hs' G. destruct (parse_tokens_complete _ _ _ _ G) as [E|E]; rewrite E in H; discriminate.
Qed.

(** The grammar is unambiguous as far as the skeleton is concerned. *)
Corollary skeleton_unique ts hs sk1 hs1 sk2 hs2 :
  G_program ts hs sk1 hs1 -> G_program ts hs sk2 hs2 -> parse_tokens ts hs <> PFuel -> sk1 = sk2 /\ hs1 = hs2.
Proof.
  intros G1 G2 Hf. destruct (parse_tokens_complete _ _ _ _ G1) as [E1|E1]; [|contradiction].
  destruct (parse_tokens_complete _ _ _ _ G2) as [E2|E2]; [|contradiction]. rewrite E1 in E2. inversion E2. auto.
Qed.
