(** Non-vacuity: concrete token sequences that the grammar derives and that the parser accepts / rejects. *)
From Coq Require Import String.
From GoSh Require Import Base.Bytes Parse.Skel Parse.Grammar Parse.GrammarSpec Parse.GrammarSound Parse.GrammarComplete.
Open Scope N_scope.

Definition W (s : string) := [MLit (B s)].
Definition toks (l : list (tkind * mword)) : list token :=
  (fix go (l : list (tkind * mword)) (i : nat) : list token :=
     match l with [] => [] | (k, w) :: r => mkTok k w i :: go r (S i) end) l 0%nat.

(* if a && b | c; then f() { d <<E; } ; else for x in 1 2; do case $x in (1|2) e ;; esac; done; fi > out *)
Definition ex1 : list token := toks
  [(K_IF, []); (K_WORD, W "a"); (K_AND, []); (K_WORD, W "b"); (K_PIPE, []); (K_WORD, W "c"); (K_SEMI, []); (K_THEN, []);
   (K_NAME, W "f"); (K_LPAREN, []); (K_RPAREN, []); (K_LBRACE, []); (K_WORD, W "d"); (K_HEREDOC, []); (K_WORD, W "E"); (K_SEMI, []); (K_RBRACE, []); (K_SEMI, []);
   (K_ELSE, []); (K_FOR, []); (K_NAME, W "x"); (K_IN, []); (K_WORD, W "1"); (K_WORD, W "2"); (K_SEMI, []); (K_DO, []);
   (K_CASE, []); (K_WORD, [MParam false (B "x") [] None]); (K_IN, []); (K_LPAREN, []); (K_WORD, W "1"); (K_PIPE, []); (K_WORD, W "2"); (K_RPAREN, []);
   (K_WORD, W "e"); (K_BREAK, []); (K_ESAC, []); (K_SEMI, []); (K_DONE, []); (K_SEMI, []); (K_FI, []); (K_GT, []); (K_WORD, W "out")].
Definition ex1_hs : list hbody := [(Some (W "body"), Some (W "E"))].

Example ex1_accepted : exists sk, parse_tokens ex1 ex1_hs = POk sk [] [].
Proof. eexists. vm_compute. reflexivity. Qed.

Example ex1_derivable : exists sk, G_program ex1 ex1_hs sk [].
Proof. destruct ex1_accepted as (sk & H). exists sk. apply (parse_tokens_sound _ _ _ _ _ H). Qed.

(* "if a; fi" : the parser stops at the token fi (index 3), and no derivation exists *)
Definition ex2 : list token := toks [(K_IF, []); (K_WORD, W "a"); (K_SEMI, []); (K_FI, [])].
Example ex2_rejected : parse_tokens ex2 [] = PErr (Some 3%nat).
Proof. vm_compute. reflexivity. Qed.
Example ex2_not_derivable : forall sk hs', ~ G_program ex2 [] sk hs'.
Proof. apply (parse_tokens_rejects _ _ _ ex2_rejected). Qed.
