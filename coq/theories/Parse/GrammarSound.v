(** Soundness of the predictive parser: whatever it accepts is a sentence of the grammar, and the
    skeleton it builds is the one the derivation builds. *)
From Coq Require Import String Lia.
From GoSh Require Import Base.Bytes Parse.Skel Parse.Grammar Parse.GrammarSpec.
Open Scope N_scope.

Lemma is_iff k t : is k t = true <-> tk t = k.
Proof. unfold is, tkind_eqb. destruct (tkind_eq_dec (tk t) k); split; congruence. Qed.
Lemma is_false k t : is k t = false <-> tk t <> k.
Proof. unfold is, tkind_eqb. destruct (tkind_eq_dec (tk t) k); split; congruence. Qed.

Lemma skip_nl_spec ts : exists nl, NLs nl /\ ts = nl ++ skip_nl ts /\ head_is K_NL (skip_nl ts) = false.
Proof.
  induction ts as [|t ts IH]; cbn [skip_nl].
  - exists []. repeat split; constructor.
  - destruct (is K_NL t) eqn:E.
    + destruct IH as (nl & H1 & H2 & H3). exists (t :: nl). repeat split; try assumption.
      * constructor; [apply is_iff, E|assumption].
      * cbn. congruence.
    + exists []. repeat split; [constructor|]. cbn. exact E.
Qed.

Lemma expect_ok k ts hs u r h : expect k ts hs = POk u r h -> exists t, ts = t :: r /\ tk t = k /\ h = hs.
Proof.
  unfold expect. destruct ts as [|t ts]; [discriminate|]. destruct (is k t) eqn:E; [|discriminate].
  intros H; inversion H; subst. exists t. repeat split. apply is_iff, E.
Qed.

Ltac bind_inv H :=
  match type of H with
  | (match ?m with POk _ _ _ => _ | PErr _ => _ | PFuel => _ end) = POk _ _ _ =>
    let E := fresh "E" in destruct m as [? ? ?| ?|] eqn:E; [| discriminate H | discriminate H]
  end.

Tactic Notation "bind_inv_as" hyp(H) "as" ident(x) ident(r) ident(h) ident(E) :=
  match type of H with
  | (match ?m with POk _ _ _ => _ | PErr _ => _ | PFuel => _ end) = POk _ _ _ =>
    destruct m as [x r h| ?|] eqn:E; [| discriminate H | discriminate H]
  end.

Ltac list_eq := subst; repeat (rewrite <- ?app_assoc; cbn [app]); try reflexivity.

(** * redirections *)
Lemma p_redir_sound ts hs sk rest hs' :
  p_redir ts hs = POk sk rest hs' -> exists pre, ts = pre ++ rest /\ G_redir pre hs sk hs'.
Proof.
  unfold p_redir. destruct ts as [|t r]; [discriminate|].
  destruct (is K_IONUM t) eqn:En.
  - destruct r as [|o r1]; [discriminate|]. destruct (redir_op (tk o)) as [op|] eqn:Eo; [|discriminate].
    destruct r1 as [|w r2]; [discriminate|]. destruct (is K_WORD w) eqn:Ew; [|discriminate].
    destruct (take_body (tk o) hs) as [body hs1] eqn:Eb. intros H; inversion H; subst.
    exists [t; o; w]. split; [reflexivity|]. apply is_iff in En, Ew. econstructor; eassumption.
  - destruct (redir_op (tk t)) as [op|] eqn:Eo; [|discriminate].
    destruct r as [|w r2]; [discriminate|]. destruct (is K_WORD w) eqn:Ew; [|discriminate].
    destruct (take_body (tk t) hs) as [body hs1] eqn:Eb. intros H; inversion H; subst.
    exists [t; w]. split; [reflexivity|]. apply is_iff in Ew. econstructor; eassumption.
Qed.

Lemma p_redirs_sound n : forall ts hs acc l rest hs',
  p_redirs n ts hs acc = POk l rest hs' ->
  exists pre rs, ts = pre ++ rest /\ G_redirs pre hs rs hs' /\ l = acc ++ rs.
Proof.
  induction n as [|n IH]; intros ts hs acc l rest hs' H; cbn [p_redirs] in H; [discriminate|].
  destruct (starts_redir ts).
  - bind_inv H. apply p_redir_sound in E as (pre1 & -> & G1).
    apply IH in H as (pre2 & rs & -> & G2 & ->).
    exists (pre1 ++ pre2), (x :: rs). repeat split; [list_eq|econstructor; eassumption|list_eq].
  - inversion H; subst. exists [], []. repeat split; [constructor|now rewrite app_nil_r].
Qed.

(** * simple commands *)
Lemma p_simple_suffix_sound n : forall ts hs A Ar R sk rest hs',
  p_simple n ts hs true A Ar R = POk sk rest hs' ->
  exists pre args rs, ts = pre ++ rest /\ G_suffix pre hs args rs hs' /\ sk = sk_simple A (Ar ++ args) (R ++ rs).
Proof.
  induction n as [|n IH]; intros ts hs A Ar R sk rest hs' H; cbn [p_simple] in H; [discriminate|].
  destruct (starts_redir ts).
  - bind_inv H. apply p_redir_sound in E as (pre1 & -> & G1).
    apply IH in H as (pre2 & args & rs & -> & G2 & ->).
    exists (pre1 ++ pre2), args, (x :: rs). repeat split; [list_eq|econstructor; eassumption|list_eq].
  - destruct ts as [|t r].
    + inversion H; subst. exists [], [], []. repeat split; [constructor|now rewrite !app_nil_r].
    + rewrite andb_false_r in H. destruct (is K_WORD t) eqn:Ew.
      * apply IH in H as (pre2 & args & rs & -> & G2 & ->). apply is_iff in Ew.
        exists (t :: pre2), (sk_word (tw t) :: args), rs. repeat split; [constructor; assumption|list_eq].
      * inversion H; subst. exists [], [], []. repeat split; [constructor|now rewrite !app_nil_r].
Qed.

Lemma p_simple_prefix_sound n : forall ts hs A R sk rest hs',
  p_simple n ts hs false A [] R = POk sk rest hs' ->
  (exists pre asg rs, ts = pre ++ rest /\ G_prefix pre hs asg rs hs' /\ sk = sk_simple (A ++ asg) [] (R ++ rs)) \/
  (exists pre1 w pre2 asg rs1 hs1 args rs2,
      ts = pre1 ++ w :: pre2 ++ rest /\ G_prefix pre1 hs asg rs1 hs1 /\ tk w = K_WORD /\ G_suffix pre2 hs1 args rs2 hs' /\
      sk = sk_simple (A ++ asg) (sk_word (tw w) :: args) (R ++ rs1 ++ rs2)).
Proof.
  induction n as [|n IH]; intros ts hs A R sk rest hs' H; cbn [p_simple] in H; [discriminate|].
  destruct (starts_redir ts).
  - bind_inv H. apply p_redir_sound in E as (pre1 & -> & G1).
    apply IH in H as [(pre2 & asg & rs & -> & G2 & ->)|(pre2 & w & pre3 & asg & rs1 & hs1 & args & rs2 & -> & G2 & Hw & G3 & ->)].
    + left. exists (pre1 ++ pre2), asg, (x :: rs). repeat split; [list_eq|econstructor; eassumption|list_eq].
    + right. exists (pre1 ++ pre2), w, pre3, asg, (x :: rs1), hs1, args, rs2.
      repeat split; try assumption; [list_eq|econstructor; eassumption|list_eq].
  - destruct ts as [|t r].
    + inversion H; subst. left. exists [], [], []. repeat split; [constructor|now rewrite !app_nil_r].
    + rewrite andb_true_r in H. destruct (is K_ASSIGN t) eqn:Ea.
      * destruct (assign_word (tw t)) eqn:Eaw; [|discriminate]. apply is_iff in Ea.
        apply IH in H as [(pre2 & asg & rs & -> & G2 & ->)|(pre2 & w & pre3 & asg & rs1 & hs1 & args & rs2 & -> & G2 & Hw & G3 & ->)].
        -- left. exists (t :: pre2), (sk_assign (tw t) :: asg), rs. repeat split; [constructor; assumption|list_eq].
        -- right. exists (t :: pre2), w, pre3, (sk_assign (tw t) :: asg), rs1, hs1, args, rs2.
           repeat split; try assumption; [constructor; assumption|list_eq].
      * destruct (is K_WORD t) eqn:Ew.
        -- apply p_simple_suffix_sound in H as (pre2 & args & rs & -> & G2 & ->). apply is_iff in Ew.
           right. exists [], t, pre2, [], [], hs, args, rs. repeat split; try assumption; [constructor|now rewrite !app_nil_r].
        -- inversion H; subst. left. exists [], [], []. repeat split; [constructor|now rewrite !app_nil_r].
Qed.

(* a simple command that starts with a word, an assignment or a redirection is not empty *)
Lemma p_simple_sound n ts hs sk rest hs' :
  (starts_redir ts = true \/ head_is K_WORD ts = true \/ head_is K_ASSIGN ts = true) ->
  p_simple n ts hs false [] [] [] = POk sk rest hs' ->
  exists pre, ts = pre ++ rest /\ G_simple pre hs sk hs'.
Proof.
  intros Hst H. destruct n as [|n]; [discriminate|]. cbn [p_simple] in H.
  destruct (starts_redir ts) eqn:Esr.
  - bind_inv H. apply p_redir_sound in E as (pre1 & -> & G1).
    assert (Hne : pre1 <> []) by (inversion G1; discriminate).
    apply p_simple_prefix_sound in H as [(pre2 & asg & rs & -> & G2 & ->)|(pre2 & w & pre3 & asg & rs1 & hs1 & args & rs2 & -> & G2 & Hw & G3 & ->)].
    + exists (pre1 ++ pre2). split; [list_eq|]. cbn [app].
      apply (G_simple_prefix (pre1 ++ pre2) hs asg (x :: rs) hs').
      * econstructor; eassumption.
      * destruct pre1; [congruence|discriminate].
    + exists ((pre1 ++ pre2) ++ w :: pre3). split; [list_eq|]. cbn [app].
      apply (G_simple_word (pre1 ++ pre2) w pre3 hs asg (x :: rs1) hs1 args rs2 hs'); try assumption.
      econstructor; eassumption.
  - destruct Hst as [Hst|Hst]; [congruence|]. destruct ts as [|t r]; [destruct Hst; discriminate|].
    cbn [head_is] in Hst. rewrite andb_true_r in H. destruct (is K_ASSIGN t) eqn:Ea.
    + destruct (assign_word (tw t)) eqn:Eaw; [|discriminate]. apply is_iff in Ea.
      apply p_simple_prefix_sound in H as [(pre2 & asg & rs & -> & G2 & ->)|(pre2 & w & pre3 & asg & rs1 & hs1 & args & rs2 & -> & G2 & Hw & G3 & ->)].
      * exists (t :: pre2). split; [list_eq|]. cbn [app].
        apply (G_simple_prefix (t :: pre2) hs (sk_assign (tw t) :: asg) rs hs'); [constructor; assumption|discriminate].
      * exists ((t :: pre2) ++ w :: pre3). split; [list_eq|]. cbn [app].
        apply (G_simple_word (t :: pre2) w pre3 hs (sk_assign (tw t) :: asg) rs1 hs1 args rs2 hs'); try assumption.
        constructor; assumption.
    + destruct (is K_WORD t) eqn:Ew; [|destruct Hst; congruence]. apply is_iff in Ew.
      apply p_simple_suffix_sound in H as (pre2 & args & rs & -> & G2 & ->).
      exists ([] ++ t :: pre2). split; [reflexivity|].
      apply (G_simple_word [] t pre2 hs [] [] hs args rs hs'); try assumption. constructor.
Qed.

Lemma p_words_sound : forall ts acc l rest,
  p_words ts acc = (l, rest) -> exists pre ws, ts = pre ++ rest /\ G_words pre ws /\ l = acc ++ ws.
Proof.
  induction ts as [|t r IH]; intros acc l rest H; cbn [p_words] in H.
  - inversion H; subst. exists [], []. repeat split; [constructor|now rewrite app_nil_r].
  - destruct (is K_WORD t) eqn:Ew.
    + apply IH in H as (pre & ws & -> & G & ->). apply is_iff in Ew.
      exists (t :: pre), (sk_word (tw t) :: ws). repeat split; [constructor; assumption|list_eq].
    + inversion H; subst. exists [], []. repeat split; [constructor|now rewrite app_nil_r].
Qed.

Lemma p_pats_sound : forall n ts acc l rest, (length ts <= n)%nat ->
  p_pats ts acc = (l, rest) -> exists pre ps, ts = pre ++ rest /\ G_pats pre ps /\ l = acc ++ ps.
Proof.
  induction n as [|n IH]; intros ts acc l rest Hn H.
  - destruct ts; [|cbn in Hn; lia]. cbn in H. inversion H; subst. exists [], []. repeat split; [constructor|now rewrite app_nil_r].
  - destruct ts as [|b r]; cbn [p_pats] in H.
    + inversion H; subst. exists [], []. repeat split; [constructor|now rewrite app_nil_r].
    + destruct (is K_PIPE b) eqn:Eb.
      * destruct r as [|w r2].
        -- inversion H; subst. exists [], []. repeat split; [constructor|now rewrite app_nil_r].
        -- destruct (is K_WORD w) eqn:Ew.
           ++ apply IH in H as (pre & ps & -> & G & ->); [|cbn in Hn |- *; lia]. apply is_iff in Eb, Ew.
              exists (b :: w :: pre), (sk_word (tw w) :: ps). repeat split; [constructor; assumption|list_eq].
           ++ inversion H; subst. exists [], []. repeat split; [constructor|now rewrite app_nil_r].
      * inversion H; subst. exists [], []. repeat split; [constructor|now rewrite app_nil_r].
Qed.

(** * the mutually recursive part *)
Definition S_andor n := forall ts hs sk rest hs',
  p_andor n ts hs = POk sk rest hs' -> exists pre, ts = pre ++ rest /\ G_andor pre hs sk hs'.
Definition S_ao_more n := forall acc ts hs sk rest hs',
  p_ao_more n acc ts hs = POk sk rest hs' -> exists pre txt, ts = pre ++ rest /\ G_ao_rest pre hs txt hs' /\ sk = acc ++ txt.
Definition S_pipeline n := forall ts hs sk rest hs',
  p_pipeline n ts hs = POk sk rest hs' -> exists pre, ts = pre ++ rest /\ G_pipeline pre hs sk hs'.
Definition S_pl_more n := forall acc ts hs sk rest hs',
  p_pl_more n acc ts hs = POk sk rest hs' -> exists pre txt, ts = pre ++ rest /\ G_pl_rest pre hs txt hs' /\ sk = acc ++ txt ++ B "}".
Definition S_clist n := forall ts hs l rest hs',
  p_clist n ts hs = POk l rest hs' -> exists pre, ts = pre ++ rest /\ G_clist pre hs l hs'.
Definition S_term n := forall acc ts hs l rest hs',
  p_term n acc ts hs = POk l rest hs' -> exists pre l0, ts = pre ++ rest /\ G_term pre hs l0 hs' /\ l = acc ++ l0.
Definition S_cmd n := forall ts hs sk rest hs',
  p_cmd n ts hs = POk sk rest hs' -> exists pre, ts = pre ++ rest /\ G_cmd pre hs sk hs'.
Definition S_compound n := forall ts hs sk rest hs',
  p_compound n ts hs = POk sk rest hs' -> exists pre, ts = pre ++ rest /\ G_compound pre hs sk hs'.
Definition S_for_body n := forall name has_in items ts hs sk rest hs',
  p_for_body n name has_in items ts hs = POk sk rest hs' ->
  exists d pre dn l, ts = d :: pre ++ dn :: rest /\ tk d = K_DO /\ G_clist pre hs l hs' /\ tk dn = K_DONE /\
    sk = B "for{" ++ hex name ++ B ":" ++ (if has_in then B "1" else B "0") ++ fmt_cmds items ++ fmt_cmds l ++ B "}".
Definition S_elses n := forall acc ts hs l rest hs',
  p_elses n acc ts hs = POk l rest hs' -> exists pre es, ts = pre ++ rest /\ G_elses pre hs es hs' /\ l = acc ++ es.
Definition S_items n := forall acc ts hs l rest hs',
  p_items n acc ts hs = POk l rest hs' -> exists pre its, ts = pre ++ rest /\ G_items pre hs its hs' /\ l = acc ++ its.

Definition S_all n := S_andor n /\ S_ao_more n /\ S_pipeline n /\ S_pl_more n /\ S_clist n /\ S_term n /\ S_cmd n /\
                      S_compound n /\ S_for_body n /\ S_elses n /\ S_items n.

Lemma sk_sep_nl t : is K_AMP t = false -> B "};" = B "}" ++ sk_sep t.
Proof. intros H. unfold sk_sep. rewrite H. reflexivity. Qed.

Lemma sep_kind_of t : is K_AMP t || is K_SEMI t = true \/ is K_NL t = true -> sep_kind (tk t) = true.
Proof.
  intros [H|H].
  - apply orb_true_iff in H as [H|H]; apply is_iff in H; rewrite H; reflexivity.
  - apply is_iff in H; rewrite H; reflexivity.
Qed.

Lemma sound_step n : S_all n -> S_all (S n).
Proof.
  intros (IHandor & IHao & IHpl & IHplm & IHclist & IHterm & IHcmd & IHcomp & IHfor & IHelses & IHitems).
  unfold S_all. repeat match goal with |- _ /\ _ => split end.
  - (* andor *)
    intros ts hs sk rest hs' H. cbn [p_andor] in H. bind_inv_as H as p1 ts1 hs1 E.
    apply IHpl in E as (pre1 & -> & G1). apply IHao in H as (pre2 & txt & -> & G2 & ->).
    exists (pre1 ++ pre2). split; [list_eq|]. rewrite <- app_assoc. econstructor; eassumption.
  - (* ao_more *)
    intros acc ts hs sk rest hs' H. cbn [p_ao_more] in H. destruct ts as [|t r].
    + inversion H; subst. exists [], []. repeat split; [constructor|now rewrite app_nil_r].
    + destruct (is K_AND t || is K_OR t) eqn:Eo.
      * bind_inv_as H as p2 ts2 hs2 E. destruct (skip_nl_spec r) as (nl & Hnl & Hr & _).
        apply IHpl in E as (pre1 & E1 & G1). apply IHao in H as (pre2 & txt & -> & G2 & ->).
        exists (t :: nl ++ pre1 ++ pre2), (B "," ++ sk_ao_op t ++ p2 ++ txt). repeat split.
        -- rewrite Hr, E1. list_eq.
        -- econstructor; try eassumption. apply orb_true_iff in Eo as [Eo|Eo]; apply is_iff in Eo; auto.
        -- list_eq.
      * inversion H; subst. exists [], []. repeat split; [constructor|now rewrite app_nil_r].
  - (* pipeline *)
    intros ts hs sk rest hs' H. cbn [p_pipeline] in H.
    destruct ts as [|t r].
    + bind_inv_as H as c1 ts1 hs1 E. apply IHcmd in E as (pre1 & E1 & G1). apply IHplm in H as (pre2 & txt & -> & G2 & ->).
      exists (pre1 ++ pre2). split; [rewrite E1; list_eq|]. cbn [app]. rewrite <- !app_assoc.
      apply (G_pipeline_plain pre1 pre2 hs c1 hs1 txt hs'); assumption.
    + destruct (is K_BANG t) eqn:Eb.
      * bind_inv_as H as c1 ts1 hs1 E. apply IHcmd in E as (pre1 & -> & G1). apply IHplm in H as (pre2 & txt & -> & G2 & ->).
        exists (t :: pre1 ++ pre2). split; [list_eq|]. apply is_iff in Eb. rewrite <- !app_assoc.
        apply (G_pipeline_bang t pre1 pre2 hs c1 hs1 txt hs'); assumption.
      * bind_inv_as H as c1 ts1 hs1 E. apply IHcmd in E as (pre1 & E1 & G1). apply IHplm in H as (pre2 & txt & -> & G2 & ->).
        exists (pre1 ++ pre2). split; [rewrite E1; list_eq|]. cbn [app]. rewrite <- !app_assoc.
        apply (G_pipeline_plain pre1 pre2 hs c1 hs1 txt hs'); assumption.
  - (* pl_more *)
    intros acc ts hs sk rest hs' H. cbn [p_pl_more] in H. destruct ts as [|t r].
    + inversion H; subst. exists [], []. repeat split; constructor.
    + destruct (is K_PIPE t) eqn:Ep.
      * bind_inv_as H as c2 ts2 hs2 E. destruct (skip_nl_spec r) as (nl & Hnl & Hr & _).
        apply IHcmd in E as (pre1 & E1 & G1). apply IHplm in H as (pre2 & txt & -> & G2 & ->).
        exists (t :: nl ++ pre1 ++ pre2), (B "," ++ hex (B "|") ++ c2 ++ txt). repeat split.
        -- rewrite Hr, E1. list_eq.
        -- apply is_iff in Ep. econstructor; eassumption.
        -- list_eq.
      * inversion H; subst. exists [], []. repeat split; constructor.
  - (* clist *)
    intros ts hs l rest hs' H. cbn [p_clist] in H. destruct (skip_nl_spec ts) as (nl & Hnl & Hr & _).
    apply IHterm in H as (pre & l0 & E1 & G & ->). exists (nl ++ pre). split; [rewrite Hr, E1; list_eq|].
    cbn [app]. constructor; assumption.
  - (* term *)
    intros acc ts hs l rest hs' H. cbn [p_term] in H. bind_inv_as H as a ts1 hs1 E.
    apply IHandor in E as (pre1 & -> & G1). destruct ts1 as [|t r].
    + inversion H; subst. exists pre1, [a ++ B "};"]. repeat split; [constructor; assumption].
    + destruct (is K_AMP t || is K_SEMI t) eqn:Es.
      * destruct (skip_nl_spec r) as (nl & Hnl & Hr & _). destruct (head_starts_cmd (skip_nl r)).
        -- apply IHterm in H as (pre2 & l0 & E2 & G2 & ->).
           exists (pre1 ++ t :: nl ++ pre2), ((a ++ B "}" ++ sk_sep t) :: l0). repeat split.
           ++ rewrite Hr, E2. list_eq.
           ++ econstructor; try eassumption. apply sep_kind_of; auto.
           ++ list_eq.
        -- inversion H; subst. exists (pre1 ++ t :: nl), [a ++ B "}" ++ sk_sep t]. repeat split.
           ++ rewrite Hr at 1. list_eq.
           ++ econstructor; try eassumption. apply sep_kind_of; auto.
      * destruct (is K_NL t) eqn:En.
        -- apply orb_false_iff in Es as [Ea _].
           destruct (skip_nl_spec r) as (nl & Hnl & Hr & _). destruct (head_starts_cmd (skip_nl r)).
           ++ apply IHterm in H as (pre2 & l0 & E2 & G2 & ->).
              exists (pre1 ++ t :: nl ++ pre2), ((a ++ B "}" ++ sk_sep t) :: l0). repeat split.
              ** rewrite Hr, E2. list_eq.
              ** econstructor; try eassumption. apply sep_kind_of; auto.
              ** rewrite (sk_sep_nl t Ea). list_eq.
           ++ inversion H; subst. exists (pre1 ++ t :: nl), [a ++ B "}" ++ sk_sep t]. repeat split.
              ** rewrite Hr at 1. list_eq.
              ** econstructor; try eassumption. apply sep_kind_of; auto.
              ** unfold sk_sep. rewrite Ea. reflexivity.
        -- inversion H; subst. exists pre1, [a ++ B "};"]. repeat split; [constructor; assumption].
  - (* cmd *)
    intros ts hs sk rest hs' H. cbn [p_cmd] in H. destruct ts as [|t r]; [discriminate|].
    destruct (is K_NAME t) eqn:En.
    + destruct (name_word (tw t)) eqn:Enw; [|discriminate].
      bind_inv_as H as u1 ts1 hs1 E. apply expect_ok in E as (lp & -> & Hlp & ->).
      bind_inv_as H as u2 ts2 hs2 E. apply expect_ok in E as (rp & -> & Hrp & ->).
      bind_inv_as H as e ts3 hs3 E. destruct (skip_nl_spec ts2) as (nl & Hnl & Hr & _).
      apply IHcomp in E as (pre1 & E1 & G1).
      bind_inv_as H as rs ts4 hs4 E. apply p_redirs_sound in E as (pre2 & rs0 & -> & G2 & ->). inversion H; subst.
      exists (t :: lp :: rp :: nl ++ pre1 ++ pre2). split; [rewrite Hr, E1; list_eq|].
      apply is_iff in En. cbn [app]. econstructor; eassumption.
    + assert (Hc : (bind (e, ts1, hs1) <- p_compound n (t :: r) hs;
                    bind (rs, ts2, hs2) <- p_redirs n ts1 hs1 []; POk (B "cmd{" ++ e ++ fmt_cmds rs ++ B "}") ts2 hs2) = POk sk rest hs' ->
                   exists pre, t :: r = pre ++ rest /\ G_cmd pre hs sk hs').
      { intros H1. bind_inv_as H1 as e ts1 hs1 E. apply IHcomp in E as (pre1 & E1 & G1).
        bind_inv_as H1 as rs ts2 hs2 E. apply p_redirs_sound in E as (pre2 & rs0 & -> & G2 & ->). inversion H1; subst.
        exists (pre1 ++ pre2). split; [rewrite E1; list_eq|]. cbn [app]. econstructor; eassumption. }
      assert (Hs : (starts_redir (t :: r) = true \/ head_is K_WORD (t :: r) = true \/ head_is K_ASSIGN (t :: r) = true) ->
                   p_simple n (t :: r) hs false [] [] [] = POk sk rest hs' -> exists pre, t :: r = pre ++ rest /\ G_cmd pre hs sk hs').
      { intros Hst H1. apply p_simple_sound in H1 as (pre & E1 & G1); [|assumption]. exists pre. split; [assumption|constructor; assumption]. }
      cbn [starts_redir head_is] in Hs. unfold is, tkind_eqb in Hs.
      destruct (tk t) eqn:Ek; try discriminate H;
        first [apply Hc; exact H | apply Hs; [cbn; auto|exact H]].
  - (* compound *)
    intros ts hs sk rest hs' H. cbn [p_compound] in H. destruct ts as [|t r]; [discriminate|].
    destruct (tk t) eqn:Ek; try discriminate H.
    + (* LPAREN *)
      bind_inv_as H as l ts1 hs1 E. apply IHclist in E as (pre1 & -> & G1).
      bind_inv_as H as u ts2 hs2 E. apply expect_ok in E as (rp & -> & Hrp & ->).
      inversion H; subst. exists (t :: pre1 ++ [rp]). split; [list_eq|]. econstructor; eassumption.
    + (* LAE *)
      destruct r as [|w r1]; [discriminate|]. destruct (is K_WORD w) eqn:Ew; [|discriminate].
      bind_inv_as H as u ts2 hs2 E. apply expect_ok in E as (ra & -> & Hra & ->). inversion H; subst.
      exists [t; w; ra]. split; [reflexivity|]. apply is_iff in Ew. econstructor; eassumption.
    + (* LBRACE *)
      bind_inv_as H as l ts1 hs1 E. apply IHclist in E as (pre1 & -> & G1).
      bind_inv_as H as u ts2 hs2 E. apply expect_ok in E as (rp & -> & Hrp & ->).
      inversion H; subst. exists (t :: pre1 ++ [rp]). split; [list_eq|]. econstructor; eassumption.
    + (* FOR *)
      destruct r as [|nm r1]; [discriminate|]. destruct (is K_NAME nm && name_word (tw nm)) eqn:Enm; [|discriminate].
      apply andb_true_iff in Enm as [Enm Enw]. apply is_iff in Enm.
      destruct (skip_nl_spec r1) as (nl1 & Hnl1 & Hr1 & _).
      destruct (head_is K_IN (skip_nl r1)) eqn:Ein.
      * destruct (skip_nl r1) as [|i r2] eqn:Er2; [discriminate|]. cbn [head_is] in Ein. apply is_iff in Ein. cbn [tl] in H.
        destruct (p_words r2 []) as [items r3] eqn:Ew. apply p_words_sound in Ew as (ws & wl & -> & Gw & ->).
        destruct r3 as [|s r4]; [discriminate|]. destruct (is K_SEMI s || is K_NL s) eqn:Es; [|discriminate].
        destruct (skip_nl_spec r4) as (nl2 & Hnl2 & Hr4 & _).
        apply IHfor in H as (d & pre & dn & l & E1 & Hd & G & Hdn & ->).
        exists (t :: nm :: nl1 ++ i :: ws ++ s :: nl2 ++ d :: pre ++ [dn]). split.
        -- rewrite Hr1, Hr4, E1. list_eq.
        -- cbn [app]. econstructor; try eassumption.
           apply orb_true_iff in Es as [Es|Es]; apply is_iff in Es; auto.
      * destruct r1 as [|s r4]; [discriminate|]. destruct (is K_DO s) eqn:Edo.
        -- apply IHfor in H as (d & pre & dn & l & E1 & Hd & G & Hdn & ->). inversion E1; subst.
           exists (t :: nm :: d :: pre ++ [dn]). split; [list_eq|]. econstructor; eassumption.
        -- destruct (is K_SEMI s) eqn:Esemi.
           ++ destruct (skip_nl_spec r4) as (nl2 & Hnl2 & Hr4 & _).
              apply IHfor in H as (d & pre & dn & l & E1 & Hd & G & Hdn & ->). apply is_iff in Esemi.
              exists (t :: nm :: s :: nl2 ++ d :: pre ++ [dn]). split; [rewrite Hr4, E1; list_eq|].
              cbn [app]. econstructor; try eassumption. auto.
           ++ destruct (is K_NL s) eqn:Enl; [|discriminate].
              apply IHfor in H as (d & pre & dn & l & E1 & Hd & G & Hdn & ->).
              cbn [skip_nl] in E1. rewrite Enl in E1.
              destruct (skip_nl_spec r4) as (nl2 & Hnl2 & Hr4 & _). apply is_iff in Enl.
              exists (t :: nm :: s :: nl2 ++ d :: pre ++ [dn]). split; [rewrite Hr4, E1; list_eq|].
              cbn [app]. econstructor; try eassumption. auto.
    + (* CASE *)
      destruct r as [|w r1]; [discriminate|]. destruct (is K_WORD w) eqn:Ew; [|discriminate]. apply is_iff in Ew.
      destruct (skip_nl_spec r1) as (nl1 & Hnl1 & Hr1 & _).
      bind_inv_as H as u1 ts2 hs2 E. apply expect_ok in E as (i & Ei & Hi & ->).
      destruct (skip_nl_spec ts2) as (nl2 & Hnl2 & Hr2 & _).
      bind_inv_as H as its ts3 hs3 E. apply IHitems in E as (pre & its0 & E1 & G & ->).
      bind_inv_as H as u2 ts4 hs4 E. apply expect_ok in E as (e & -> & He & ->). inversion H; subst.
      exists (t :: w :: nl1 ++ i :: nl2 ++ pre ++ [e]). split; [rewrite Hr1, Ei, Hr2, E1; list_eq|].
      cbn [app]. econstructor; eassumption.
    + (* IF *)
      bind_inv_as H as c ts1 hs1 E. apply IHclist in E as (pre1 & -> & G1).
      bind_inv_as H as u1 ts2 hs2 E. apply expect_ok in E as (th & -> & Hth & ->).
      bind_inv_as H as l ts3 hs3 E. apply IHclist in E as (pre2 & -> & G2).
      bind_inv_as H as es ts4 hs4 E. apply IHelses in E as (pre3 & es0 & -> & G3 & ->).
      bind_inv_as H as u2 ts5 hs5 E. apply expect_ok in E as (fi & -> & Hfi & ->). inversion H; subst.
      exists (t :: pre1 ++ th :: pre2 ++ pre3 ++ [fi]). split; [list_eq|]. cbn [app]. econstructor; eassumption.
    + (* WHILE *)
      bind_inv_as H as c ts1 hs1 E. apply IHclist in E as (pre1 & -> & G1).
      bind_inv_as H as u1 ts2 hs2 E. apply expect_ok in E as (d & -> & Hd & ->).
      bind_inv_as H as l ts3 hs3 E. apply IHclist in E as (pre2 & -> & G2).
      bind_inv_as H as u2 ts4 hs4 E. apply expect_ok in E as (dn & -> & Hdn & ->).
      inversion H; subst. exists (t :: pre1 ++ d :: pre2 ++ [dn]). split; [list_eq|]. econstructor; try eassumption. auto.
    + (* UNTIL *)
      bind_inv_as H as c ts1 hs1 E. apply IHclist in E as (pre1 & -> & G1).
      bind_inv_as H as u1 ts2 hs2 E. apply expect_ok in E as (d & -> & Hd & ->).
      bind_inv_as H as l ts3 hs3 E. apply IHclist in E as (pre2 & -> & G2).
      bind_inv_as H as u2 ts4 hs4 E. apply expect_ok in E as (dn & -> & Hdn & ->).
      inversion H; subst. exists (t :: pre1 ++ d :: pre2 ++ [dn]). split; [list_eq|]. econstructor; try eassumption. auto.
  - (* for_body *)
    intros name has_in items ts hs sk rest hs' H. cbn [p_for_body] in H.
    bind_inv_as H as u1 ts2 hs2 E. apply expect_ok in E as (d & -> & Hd & ->).
    bind_inv_as H as l ts3 hs3 E. apply IHclist in E as (pre & -> & G).
    bind_inv_as H as u2 ts4 hs4 E. apply expect_ok in E as (dn & -> & Hdn & ->). inversion H; subst.
    exists d, pre, dn, l. repeat split; try assumption.
  - (* elses *)
    intros acc ts hs l rest hs' H. cbn [p_elses] in H. destruct ts as [|e re].
    + inversion H; subst. exists [], []. repeat split; [constructor|now rewrite app_nil_r].
    + destruct (is K_ELIF e) eqn:Eelif.
      * bind_inv_as H as c2 tsa hsa E. apply IHclist in E as (pre1 & -> & G1).
        bind_inv_as H as u tsb hsb E. apply expect_ok in E as (th & -> & Hth & ->).
        bind_inv_as H as l2 tsc hsc E. apply IHclist in E as (pre2 & -> & G2). apply IHelses in H as (pre3 & es & -> & G3 & ->).
        apply is_iff in Eelif.
        exists (e :: pre1 ++ th :: pre2 ++ pre3), ((B "elif{" ++ fmt_cmds c2 ++ fmt_cmds l2 ++ B "}") :: es).
        repeat split; [list_eq|econstructor; eassumption|list_eq].
      * destruct (is K_ELSE e) eqn:Eelse.
        -- bind_inv_as H as l2 tsa hsa E. apply IHclist in E as (pre1 & -> & G1). inversion H; subst. apply is_iff in Eelse.
           exists (e :: pre1), [B "else" ++ fmt_cmds l2]. repeat split; [econstructor; eassumption].
        -- inversion H; subst. exists [], []. repeat split; [constructor|now rewrite app_nil_r].
  - (* items *)
    intros acc ts hs l rest hs' H. cbn [p_items] in H.
    destruct (head_is K_ESAC ts) eqn:Eesac.
    + inversion H; subst. exists [], []. repeat split; [constructor|now rewrite app_nil_r].
    + assert (Hlp : exists lp ts1, ts = lp ++ ts1 /\ (lp = [] \/ exists t, lp = [t] /\ tk t = K_LPAREN) /\
                                   ts1 = match ts with p :: rp => if is K_LPAREN p then rp else ts | [] => ts end).
      { destruct ts as [|p rp]; [exists [], []; repeat split; auto|].
        destruct (is K_LPAREN p) eqn:Elp.
        - exists [p], rp. repeat split; auto. right. exists p. split; [reflexivity|apply is_iff, Elp].
        - exists [], (p :: rp). repeat split; auto. }
      destruct Hlp as (lp & ts1 & Ets & Hlp & Ets1). rewrite <- Ets1 in H. clear Ets1.
      destruct ts1 as [|p1 rp]; [discriminate|]. destruct (is K_WORD p1) eqn:Ep1; [|discriminate]. apply is_iff in Ep1.
      destruct (p_pats rp [sk_word (tw p1)]) as [pats ts2] eqn:Epats.
      apply (p_pats_sound (length rp)) in Epats as (ps & pl & -> & Gp & ->); [|lia].
      bind_inv_as H as u ts3 hs3 E. apply expect_ok in E as (rpar & -> & Hrpar & ->).
      destruct (skip_nl_spec ts3) as (nl1 & Hnl1 & Hr1 & _).
      destruct (head_is K_BREAK (skip_nl ts3)) eqn:Ebrk.
      * destruct (skip_nl ts3) as [|b rb] eqn:Erb; [discriminate|]. cbn [head_is] in Ebrk. apply is_iff in Ebrk. cbn [tl] in H.
        destruct (skip_nl_spec rb) as (nl2 & Hnl2 & Hr2 & _).
        apply IHitems in H as (pre & its & E1 & G & ->).
        exists (lp ++ p1 :: ps ++ rpar :: nl1 ++ b :: nl2 ++ pre), ((B "item{" ++ fmt_cmds (sk_word (tw p1) :: pl) ++ fmt_cmds [] ++ B "1}") :: its).
        repeat split; [rewrite Ets, Hr1, Hr2, E1; list_eq|econstructor; eassumption|list_eq].
      * destruct (head_is K_ESAC (skip_nl ts3)) eqn:Ees.
        -- inversion H; subst.
           exists (lp ++ p1 :: ps ++ rpar :: nl1), [B "item{" ++ fmt_cmds (sk_word (tw p1) :: pl) ++ fmt_cmds [] ++ B "0}"].
           repeat split; [rewrite Hr1 at 1; list_eq|econstructor; eassumption].
        -- bind_inv_as H as l0 ts5 hs5 E. apply IHclist in E as (pre1 & -> & G1). destruct ts5 as [|b rb]; [discriminate|].
           destruct (is K_BREAK b) eqn:Eb.
           ++ destruct (skip_nl_spec rb) as (nl2 & Hnl2 & Hr2 & _). apply is_iff in Eb.
              apply IHitems in H as (pre & its & E1 & G & ->).
              exists (lp ++ p1 :: ps ++ rpar :: pre1 ++ b :: nl2 ++ pre), ((B "item{" ++ fmt_cmds (sk_word (tw p1) :: pl) ++ fmt_cmds l0 ++ B "1}") :: its).
              repeat split; [rewrite Ets, Hr2, E1; list_eq|econstructor; eassumption|list_eq].
           ++ destruct (is K_ESAC b) eqn:Ee; [|discriminate]. inversion H; subst.
              exists (lp ++ p1 :: ps ++ rpar :: pre1), [B "item{" ++ fmt_cmds (sk_word (tw p1) :: pl) ++ fmt_cmds l0 ++ B "0}"].
              repeat split; [list_eq|econstructor; eassumption].
Qed.

Lemma sound_all n : S_all n.
Proof.
  induction n as [|n IH]; [|apply sound_step, IH].
  unfold S_all, S_andor, S_ao_more, S_pipeline, S_pl_more, S_clist, S_term, S_cmd, S_compound, S_for_body, S_elses, S_items.
  repeat split; intros; discriminate.
Qed.

(** What [parse_tokens] accepts is a program of the grammar, all tokens are used, and the skeleton is
    the one the derivation builds. *)
Theorem parse_tokens_sound ts hs sk rest hs' :
  parse_tokens ts hs = POk sk rest hs' -> rest = [] /\ G_program ts hs sk hs'.
Proof.
  unfold parse_tokens. destruct ts as [|t r].
  - intros H; inversion H; subst. split; [reflexivity|constructor].
  - destruct (head_is K_NL (t :: r)); [discriminate|]. intros H. bind_inv_as H as l ts1 hs1 E.
    destruct (sound_all (budget (t :: r))) as (_ & _ & _ & _ & _ & Hterm & _).
    apply Hterm in E as (pre & l0 & E1 & G & ->). destruct ts1; [|discriminate]. inversion H; subst.
    split; [reflexivity|]. rewrite E1, app_nil_r. cbn [app]. constructor. exact G.
Qed.
