(** Words of the parser model and the canonical position-free skeleton text (the same format as
    the harness' dumper harness/skel.go), built as byte strings. *)
From Coq Require Import String Ascii.
From GoSh Require Import Base.Bytes Expand.Expand.
Open Scope N_scope.

(** Coq string literal -> bytes *)
Fixpoint B (s : string) : bytes :=
  match s with
  | EmptyString => []
  | String a s' => N_of_ascii a :: B s'
  end.

Definition hexdigit (n : N) : N := if n <? 10 then 48 + n else 87 + n.
Definition hex (b : bytes) : bytes := flat_map (fun x => [hexdigit (x / 16); hexdigit (x mod 16)]) b.

Fixpoint join (sep : bytes) (l : list bytes) : bytes :=
  match l with
  | [] => []
  | [x] => x
  | x :: l' => x ++ sep ++ join sep l'
  end.

(** * Words.  A command substitution keeps the skeleton of its commands (already text). *)
Inductive mpart :=
| MLit (s : bytes)
| MQuote (tok : N) (v : list mpart)
| MParam (braces : bool) (name : bytes) (op : bytes) (w : option (list mpart))
| MSubst (dollar : bool) (cmds : bytes)
| MArith (e : list mpart).
Definition mword := list mpart.

(** the word as the expansion package sees it *)
Fixpoint to_wpart (p : mpart) : wpart :=
  let conv := fix go (l : list mpart) : list wpart :=
                match l with [] => [] | q :: l' => to_wpart q :: go l' end in
  match p with
  | MLit s => WLit s
  | MQuote t v => WQuote t (conv v)
  | MParam _ n o w => WParam n o (match w with Some x => Some (conv x) | None => None end)
  | MSubst _ _ => WOther
  | MArith e => WArith (conv e)
  end.

(** skeleton of a word; adjacent literals are merged; [nil_is_N]: a nil word prints as N *)
Fixpoint sk_part (p : mpart) : bytes :=
  let sk_list := fix go (l : list mpart) (pending : option bytes) : list bytes :=
                   match l with
                   | [] => match pending with Some t => [B "L" ++ hex t] | None => [] end
                   | MLit s :: l' => go l' (Some (match pending with Some t => t ++ s | None => s end))
                   | q :: l' => (match pending with Some t => [B "L" ++ hex t] | None => [] end) ++ sk_part q :: go l' None
                   end in
  let sk_w := fun (w : list mpart) => B "[" ++ join (B ",") (sk_list w None) ++ B "]" in
  (* in an arithmetic expression the literals stay apart: the lexer starts a new one after every blank *)
  let sk_nm := fix go (l : list mpart) : list bytes :=
                 match l with [] => [] | q :: l' => sk_part q :: go l' end in
  match p with
  | MLit s => B "L" ++ hex s
  | MQuote t v => B "Q" ++ hex [t] ++ (match v with [] => B "N" | _ => sk_w v end)
  | MParam br n o w =>
    B "P" ++ (if br then B "1" else B "0") ++ B "{" ++ hex n ++ B ":" ++ hex o ++ B ":"
      ++ (match w with None => B "N" | Some x => sk_w x end) ++ B "}"
  | MSubst d c => B "C" ++ (if d then B "d" else B "b") ++ c
  | MArith e => B "A" ++ B "[" ++ join (B ",") (sk_nm e) ++ B "]"
  end.

Fixpoint sk_parts (l : list mpart) (pending : option bytes) : list bytes :=
  match l with
  | [] => match pending with Some t => [B "L" ++ hex t] | None => [] end
  | MLit s :: l' => sk_parts l' (Some (match pending with Some t => t ++ s | None => s end))
  | q :: l' => (match pending with Some t => [B "L" ++ hex t] | None => [] end) ++ sk_part q :: sk_parts l' None
  end.

Definition sk_word (w : mword) : bytes := B "[" ++ join (B ",") (sk_parts w None) ++ B "]".
(* a possibly-nil word *)
Definition sk_oword (w : option mword) : bytes := match w with None => B "N" | Some x => sk_word x end.

(* the expression word of an arithmetic command: literals are not merged *)
Definition sk_word_arith (w : mword) : bytes := B "[" ++ join (B ",") (map sk_part w) ++ B "]".
