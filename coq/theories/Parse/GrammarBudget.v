(** The recursion budget of the grammar model always suffices: with [budget ts] = 10 * (length ts + 2)
    no function of the parser runs out of budget.  Every function is given a threshold
    10 * (number of tokens it is given) + an offset that reflects its place in the call chain
    p_clist > p_term > p_andor > p_pipeline > p_cmd > p_compound; a call that starts the chain again
    has consumed a token first. *)
From Coq Require Import String Lia.
From GoSh Require Import Base.Bytes Parse.Skel Parse.Grammar Parse.GrammarLoc Parse.GrammarSound.
Open Scope N_scope.

(* the answer is not "out of budget", and what is left is shorter (strictly, for the functions that
   consume at least one token when they succeed) *)
Definition W {T} (strict : bool) (ts : list token) (r : pres T) : Prop :=
  match r with
  | PFuel => False
  | POk _ rest _ => if strict then (length rest < length ts)%nat else (length rest <= length ts)%nat
  | PErr _ => True
  end.

Lemma W_weak {T} ts (r : pres T) : W true ts r -> W false ts r.
Proof. destruct r; cbn; auto. lia. Qed.

Lemma skip_nl_len l : (length (skip_nl l) <= length l)%nat.
Proof. induction l as [|t l IH]; cbn; [lia|]. destruct (is K_NL t); cbn; lia. Qed.

Lemma suffix_len (a b : list token) : suffix a b -> (length a <= length b)%nat.
Proof. intros (p & ->). rewrite app_length. lia. Qed.

Lemma expect_W k ts hs : W true ts (expect k ts hs).
Proof. unfold expect. destruct ts as [|t r]; cbn; [exact I|]. destruct (is k t); cbn; [lia|exact I]. Qed.

Lemma p_redir_W ts hs : W true ts (p_redir ts hs).
Proof.
  unfold p_redir. destruct ts as [|t r]; [exact I|].
  destruct (is K_IONUM t).
  - destruct r as [|o r1]; [exact I|]. destruct (redir_op (tk o)); [|exact I]. destruct r1 as [|w r2]; [exact I|].
    destruct (is K_WORD w); [|exact I]. destruct (take_body (tk o) hs). cbn. lia.
  - destruct (redir_op (tk t)); [|exact I]. destruct r as [|w r2]; [exact I|].
    destruct (is K_WORD w); [|exact I]. destruct (take_body (tk t) hs). cbn. lia.
Qed.

Lemma p_redirs_W n : forall ts hs acc, (length ts + 1 <= n)%nat -> W false ts (p_redirs n ts hs acc).
Proof.
  induction n as [|n IH]; intros ts hs acc H; [lia|]. cbn [p_redirs].
  destruct (starts_redir ts); [|cbn; lia].
  pose proof (p_redir_W ts hs) as F. destruct (p_redir ts hs) as [x r h|?|]; cbn [W] in *; try exact I; try contradiction.
  assert (F2 : W false r (p_redirs n r h (acc ++ [x]))) by (apply IH; lia).
  destruct (p_redirs n r h (acc ++ [x])); cbn [W] in *; auto; try lia.
Qed.

Lemma p_simple_W n : forall ts hs seen A Ar R, (length ts + 1 <= n)%nat -> W false ts (p_simple n ts hs seen A Ar R).
Proof.
  induction n as [|n IH]; intros ts hs seen A Ar R H; [lia|]. cbn [p_simple].
  destruct (starts_redir ts).
  - pose proof (p_redir_W ts hs) as F. destruct (p_redir ts hs) as [x r h|?|]; cbn [W] in *; try exact I; try contradiction.
    assert (F2 : W false r (p_simple n r h seen A Ar (R ++ [x]))) by (apply IH; lia).
    destruct (p_simple n r h seen A Ar (R ++ [x])); cbn [W] in *; auto; try lia.
  - destruct ts as [|t r]; [cbn; lia|]. cbn [length] in H.
    destruct (is K_ASSIGN t && negb seen).
    + destruct (assign_word (tw t)); [|exact I].
      assert (F2 : W false r (p_simple n r hs false (A ++ [sk_assign (tw t)]) Ar R)) by (apply IH; lia).
      destruct (p_simple n r hs false (A ++ [sk_assign (tw t)]) Ar R); cbn [W length] in *; auto; try lia.
    + destruct (is K_WORD t); [|cbn; lia].
      assert (F2 : W false r (p_simple n r hs true A (Ar ++ [sk_word (tw t)]) R)) by (apply IH; lia).
      destruct (p_simple n r hs true A (Ar ++ [sk_word (tw t)]) R); cbn [W length] in *; auto; try lia.
Qed.

(* from p_cmd the first token is a word, an assignment word or begins a redirection: it is consumed *)
Lemma p_simple_strict n t r hs : (length (t :: r) + 1 <= n)%nat ->
  match tk t with
  | K_WORD | K_ASSIGN | K_IONUM | K_LT | K_GT | K_CLOBBER | K_APPEND | K_HEREDOC | K_HEREDOCI | K_DUPIN | K_DUPOUT | K_RDWR => True
  | _ => False
  end ->
  W true (t :: r) (p_simple n (t :: r) hs false [] [] []).
Proof.
  intros H Hk. destruct n as [|n]; [lia|]. cbn [p_simple]. cbn [length] in H.
  destruct (starts_redir (t :: r)) eqn:Es.
  - pose proof (p_redir_W (t :: r) hs) as F. destruct (p_redir (t :: r) hs) as [x r' h|?|]; cbn [W] in *; try exact I; try contradiction.
    assert (F2 : W false r' (p_simple n r' h false [] [] ([] ++ [x]))) by (apply p_simple_W; cbn [length] in F; lia).
    destruct (p_simple n r' h false [] [] ([] ++ [x])); cbn [W length] in *; auto; try lia.
  - unfold starts_redir in Es. cbn [negb andb].
    unfold is at 1. unfold tkind_eqb. destruct (tkind_eq_dec (tk t) K_ASSIGN) as [Ea|Ea].
    + cbn [andb]. destruct (assign_word (tw t)); [|exact I].
      assert (F2 : W false r (p_simple n r hs false ([] ++ [sk_assign (tw t)]) [] [])) by (apply p_simple_W; lia).
      destruct (p_simple n r hs false ([] ++ [sk_assign (tw t)]) [] []); cbn [W length] in *; auto; try lia.
    + cbn [andb]. unfold is. unfold tkind_eqb. destruct (tkind_eq_dec (tk t) K_WORD) as [Ew|Ew].
      * assert (F2 : W false r (p_simple n r hs true [] ([] ++ [sk_word (tw t)]) [])) by (apply p_simple_W; lia).
        destruct (p_simple n r hs true [] ([] ++ [sk_word (tw t)]) []); cbn [W length] in *; auto; try lia.
      * exfalso. unfold is, tkind_eqb in Es. destruct (tk t) eqn:Ek; try contradiction; try congruence; cbn in Es; discriminate.
Qed.

Lemma W_tail {T} (s s' : bool) (a ts : list token) (r : pres T) :
  W s' a r -> (if s then (if s' then (length a <= length ts)%nat else (length a < length ts)%nat) else (length a <= length ts)%nat) -> W s ts r.
Proof. destruct r; cbn; auto. destruct s, s'; lia. Qed.

Lemma tl_len (l : list token) : (length (tl l) <= length l)%nat.
Proof. destruct l; cbn; lia. Qed.

Definition B_all n :=
  (forall ts hs, (10 * length ts + 4 <= n)%nat -> W true ts (p_andor n ts hs)) /\
  (forall acc ts hs, (10 * length ts + 1 <= n)%nat -> W false ts (p_ao_more n acc ts hs)) /\
  (forall ts hs, (10 * length ts + 3 <= n)%nat -> W true ts (p_pipeline n ts hs)) /\
  (forall acc ts hs, (10 * length ts + 1 <= n)%nat -> W false ts (p_pl_more n acc ts hs)) /\
  (forall ts hs, (10 * length ts + 6 <= n)%nat -> W true ts (p_clist n ts hs)) /\
  (forall acc ts hs, (10 * length ts + 5 <= n)%nat -> W true ts (p_term n acc ts hs)) /\
  (forall ts hs, (10 * length ts + 2 <= n)%nat -> W true ts (p_cmd n ts hs)) /\
  (forall ts hs, (10 * length ts + 1 <= n)%nat -> W true ts (p_compound n ts hs)) /\
  (forall name has_in items ts hs, (10 * length ts + 1 <= n)%nat -> W true ts (p_for_body n name has_in items ts hs)) /\
  (forall acc ts hs, (10 * length ts + 1 <= n)%nat -> W false ts (p_elses n acc ts hs)) /\
  (forall acc ts hs, (10 * length ts + 1 <= n)%nat -> W false ts (p_items n acc ts hs)).

Ltac facts :=
  repeat match goal with
         | |- context [skip_nl ?l] =>
           lazymatch goal with H : (length (skip_nl l) <= length l)%nat |- _ => fail | _ => pose proof (skip_nl_len l) end
         | |- context [tl ?l] =>
           lazymatch goal with H : (length (tl l) <= length l)%nat |- _ => fail | _ => pose proof (tl_len l) end
         end.

Ltac side := cbn [length] in *; lia.

Ltac w_call :=
  first [ apply expect_W | apply p_redir_W
        | (apply p_redirs_W; side)
        | (match goal with H : forall _ _, _ -> W _ _ (?f _ _ _) |- W _ _ (?f _ _ _) => apply H end; side)
        | (match goal with H : forall _ _ _, _ -> W _ _ (?f _ _ _ _) |- W _ _ (?f _ _ _ _) => apply H end; side)
        | (match goal with H : forall _ _ _ _ _, _ -> W _ _ (?f _ _ _ _ _ _) |- W _ _ (?f _ _ _ _ _ _) => apply H end; side) ].

Ltac w_bind :=
  match goal with
  | |- W ?s ?ts (match ?g with POk _ _ _ => _ | PErr _ => _ | PFuel => _ end) =>
    let F := fresh "F" in
    facts; eassert (F : W _ _ g) by w_call;
    destruct g as [? ? ?|?|]; cbn [W] in F; [ | exact I | contradiction ]
  end.

Ltac w_leaf :=
  match goal with
  | |- W _ _ (POk _ _ _) => cbn [W]; facts; side
  | |- W _ _ (PErr _) => exact I
  | |- W _ _ (err_here ?l) => destruct l; exact I
  end.

Ltac w_step :=
  first
    [ w_leaf
    | w_bind
    | match goal with
      | |- W _ _ (if ?c then _ else _) => destruct c
      | |- W _ _ (match ?d with _ => _ end) =>
        match type of d with
        | list token => let E := fresh "E" in facts; destruct d eqn:E; try rewrite E in *
        | _ => destruct d
        end
      end
    | (facts; eapply W_tail; [w_call|cbn beta iota; side]) ].

Ltac wgo := cbv zeta; repeat w_step.

Lemma budget_all n : B_all n.
Proof.
  induction n as [|n IH].
  - unfold B_all. repeat split; intros; lia.
  - destruct IH as (IH1 & IH2 & IH3 & IH4 & IH5 & IH6 & IH7 & IH8 & IH9 & IH10 & IH11).
    unfold B_all. repeat match goal with |- _ /\ _ => split end; intros.
    + cbn [p_andor]. wgo.
    + cbn [p_ao_more]. wgo.
    + cbn [p_pipeline]. destruct ts as [|t r]; [wgo|]. destruct (is K_BANG t); wgo.
    + cbn [p_pl_more]. wgo.
    + cbn [p_clist]. wgo.
    + cbn [p_term]. wgo.
    + (* p_cmd *) cbn [p_cmd]. destruct ts as [|t r]; [exact I|].
      destruct (is K_NAME t).
      * destruct (name_word (tw t)); [|exact I]. wgo.
      * destruct (tk t) eqn:Ek; try exact I; try solve [wgo];
          (apply p_simple_strict; [side|rewrite Ek; exact I]).
    + (* p_compound *) cbn [p_compound]. destruct ts as [|t r]; [exact I|].
      destruct (tk t); try exact I; try solve [wgo].
      * (* for *)
        destruct r as [|nm r1]; [exact I|]. destruct (is K_NAME nm && name_word (tw nm)); [|exact I].
        cbv zeta. destruct (head_is K_IN (skip_nl r1)).
        -- destruct (p_words (tl (skip_nl r1)) []) as [items r3] eqn:Ew. apply p_words_suffix in Ew. apply suffix_len in Ew.
           pose proof (skip_nl_len r1). pose proof (tl_len (skip_nl r1)). wgo.
        -- wgo.
    + cbn [p_for_body]. wgo.
    + cbn [p_elses]. wgo.
    + (* p_items *) cbn [p_items]. destruct (head_is K_ESAC ts); [wgo|]. cbv zeta.
      assert (S1 : (length (match ts with p :: rp => if is K_LPAREN p then rp else ts | [] => ts end) <= length ts)%nat).
      { destruct ts as [|p rp]; [lia|]. destruct (is K_LPAREN p); cbn; lia. }
      destruct (match ts with p :: rp => if is K_LPAREN p then rp else ts | [] => ts end) as [|p1 rp] eqn:E1; [exact I|].
      destruct (is K_WORD p1); [|exact I].
      destruct (p_pats rp [sk_word (tw p1)]) as [pats ts2] eqn:Ep. apply (p_pats_suffix (length rp)) in Ep; [|lia]. apply suffix_len in Ep.
      wgo.
Qed.

(** The parser of a command line never runs out of budget. *)
Theorem parse_tokens_budget ts hs : parse_tokens ts hs <> PFuel.
Proof.
  unfold parse_tokens. destruct ts as [|t r] eqn:Et; [discriminate|]. rewrite <- Et.
  destruct (head_is K_NL ts); [destruct ts; cbn; discriminate|].
  destruct (budget_all (budget ts)) as (_ & _ & _ & _ & _ & H6 & _).
  assert (F : W true ts (p_term (budget ts) [] ts hs)) by (apply H6; unfold budget; lia).
  destruct (p_term (budget ts) [] ts hs) as [l ts1 hs1|?|]; cbn [W] in F; [|discriminate|contradiction].
  destruct ts1; discriminate.
Qed.

Theorem p_clist_budget ts hs : p_clist (budget ts) ts hs <> PFuel.
Proof.
  destruct (budget_all (budget ts)) as (_ & _ & _ & _ & H5 & _).
  assert (F : W true ts (p_clist (budget ts) ts hs)) by (apply H5; unfold budget; lia).
  destruct (p_clist (budget ts) ts hs); cbn [W] in F; [discriminate|discriminate|contradiction].
Qed.

From GoSh Require Import Parse.GrammarSpec Parse.GrammarComplete.

(** Every program of the grammar is accepted, with the skeleton its derivation builds. *)
Theorem parse_tokens_accepts ts hs sk hs' : G_program ts hs sk hs' -> parse_tokens ts hs = POk sk [] hs'.
Proof.
  intros G. destruct (parse_tokens_complete _ _ _ _ G) as [E|E]; [exact E|]. exfalso. exact (parse_tokens_budget ts hs E).
Qed.

(** Three-way answer: a token sequence is accepted exactly when it is a program of the grammar, and rejected otherwise. *)
Theorem parse_tokens_decides ts hs :
  (exists sk hs', parse_tokens ts hs = POk sk [] hs' /\ G_program ts hs sk hs') \/
  (exists e, parse_tokens ts hs = PErr e /\ forall sk hs', ~ G_program ts hs sk hs').
Proof.
  destruct (parse_tokens ts hs) as [sk rest hs'|e|] eqn:E.
  - left. destruct (GrammarSound.parse_tokens_sound _ _ _ _ _ E) as [-> G]. eauto.
  - right. exists e. split; [reflexivity|]. eapply parse_tokens_rejects. exact E.
  - exfalso. exact (parse_tokens_budget ts hs E).
Qed.

Theorem skeleton_unique' ts hs sk1 hs1 sk2 hs2 :
  G_program ts hs sk1 hs1 -> G_program ts hs sk2 hs2 -> sk1 = sk2 /\ hs1 = hs2.
Proof. intros G1 G2. eapply skeleton_unique; eauto. apply parse_tokens_budget. Qed.

(** Every token sequence that is not a program of the grammar is rejected with a syntax error. *)
Theorem ill_formed_rejected ts hs : (forall sk hs', ~ G_program ts hs sk hs') -> exists e, parse_tokens ts hs = PErr e.
Proof.
  intros H. destruct (parse_tokens_decides ts hs) as [(sk & hs' & _ & G)|(e & E & _)]; [exfalso; exact (H _ _ G)|eauto].
Qed.
