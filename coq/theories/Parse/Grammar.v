(** Token-level model of the grammar of parser/parser.go.y: a predictive parser for the same
    productions that builds the canonical skeleton text of the commands (what the rule actions
    build, up to positions and list grouping), and reports the index of the first token that
    cannot continue a sentence.  Executable; the proofs are in GrammarProofs.v. *)
From Coq Require Import String.
From GoSh Require Import Base.Bytes Parse.Skel.
Open Scope N_scope.

Inductive tkind :=
| K_AND | K_OR | K_PIPE | K_LPAREN | K_RPAREN | K_LAE | K_RAE | K_BREAK | K_AMP | K_SEMI
| K_LT | K_GT | K_CLOBBER | K_APPEND | K_HEREDOC | K_HEREDOCI | K_DUPIN | K_DUPOUT | K_RDWR
| K_IONUM | K_WORD | K_NAME | K_ASSIGN
| K_BANG | K_LBRACE | K_RBRACE | K_FOR | K_CASE | K_ESAC | K_IN | K_IF | K_ELIF | K_THEN | K_ELSE | K_FI
| K_WHILE | K_UNTIL | K_DO | K_DONE | K_NL.

Definition tkind_eq_dec (a b : tkind) : {a = b} + {a <> b}.
Proof. decide equality. Defined.
Definition tkind_eqb (a b : tkind) : bool := if tkind_eq_dec a b then true else false.

Record token := mkTok { tk : tkind; tw : mword; tidx : nat }.   (* tidx: index in the delivered stream *)
Definition is (k : tkind) (t : token) : bool := tkind_eqb (tk t) k.

(** here-document bodies as read by the lexer, in announcement order: (Heredoc, Delim) *)
Definition hbody := (option mword * option mword)%type.

(** result of a sub-parser: the text built, the remaining tokens, the remaining here-documents *)
Inductive pres (T : Type) :=
| POk (x : T) (rest : list token) (hs : list hbody)
| PErr (at_token : option nat)           (* syntax error at that token; None: at end of input *)
| PFuel.                                 (* recursion budget exhausted (never for the budget of [parse_tokens]) *)
Arguments POk {T} x rest hs.
Arguments PErr {T} at_token.
Arguments PFuel {T}.

Definition err_here {T} (ts : list token) : pres T :=
  match ts with t :: _ => PErr (Some (tidx t)) | [] => PErr None end.

Notation "'bind' ( x , r , h ) <- m ; k" :=
  (match m with POk x r h => k | PErr e => PErr e | PFuel => PFuel end)
    (at level 200, x name, r name, h name, m at level 100, k at level 200).

Definition head_is (k : tkind) (ts : list token) : bool := match ts with t :: _ => is k t | [] => false end.

Definition expect (k : tkind) (ts : list token) (hs : list hbody) : pres unit :=
  match ts with
  | t :: r => if is k t then POk tt r hs else PErr (Some (tidx t))
  | [] => PErr None
  end.

Fixpoint skip_nl (ts : list token) : list token :=
  match ts with t :: r => if is K_NL t then skip_nl r else ts | [] => [] end.

Definition redir_op (k : tkind) : option bytes :=
  match k with
  | K_LT => Some (B "<") | K_GT => Some (B ">") | K_CLOBBER => Some (B ">|") | K_APPEND => Some (B ">>")
  | K_DUPIN => Some (B "<&") | K_DUPOUT => Some (B ">&") | K_RDWR => Some (B "<>")
  | K_HEREDOC => Some (B "<<") | K_HEREDOCI => Some (B "<<-")
  | _ => None
  end.
Definition is_here (k : tkind) : bool := match k with K_HEREDOC | K_HEREDOCI => true | _ => false end.
Definition starts_redir (ts : list token) : bool :=
  match ts with t :: _ => is K_IONUM t || (match redir_op (tk t) with Some _ => true | None => false end) | [] => false end.

(* the first literal of a NAME / IO_NUMBER / ASSIGNMENT_WORD token *)
Definition first_lit (w : mword) : bytes := match w with MLit s :: _ => s | _ => [] end.

(** token-level side conditions the lexer guarantees (grammar rules 5, 7, 8) *)
Definition is_name_start (c : N) : bool := ((65 <=? c) && (c <=? 90)) || ((97 <=? c) && (c <=? 122)) || (c =? 95) || (128 <=? c).
Definition is_name_char (c : N) : bool := is_name_start c || ((48 <=? c) && (c <=? 57)).
Definition is_name (s : bytes) : bool :=
  match s with c :: r => is_name_start c && forallb is_name_char r | [] => false end.
Definition name_word (w : mword) : bool := match w with [MLit s] => is_name s | _ => false end.

(** a here-document redirection takes the next body *)
Definition take_body (k : tkind) (hs : list hbody) : hbody * list hbody :=
  if is_here k then match hs with h :: hs' => (h, hs') | [] => ((None, None), []) end
  else ((None, None), hs).

Definition sk_redir (n : option bytes) (op : bytes) (target : mword) (body : hbody) : bytes :=
  B "r{" ++ (match n with Some x => hex x | None => B "N" end) ++ B ":" ++ hex op ++ B ":"
    ++ sk_word target ++ B ":" ++ sk_oword (fst body) ++ B ":" ++ sk_oword (snd body) ++ B "}".

(** io_redir: [IO_NUMBER] op WORD *)
Definition p_redir (ts : list token) (hs : list hbody) : pres bytes :=
  match ts with
  | [] => PErr None
  | t :: r =>
    let '(n, ops) := if is K_IONUM t then (Some (first_lit (tw t)), r) else (None, ts) in
    match ops with
    | [] => PErr None
    | o :: r1 =>
      match redir_op (tk o) with
      | None => PErr (Some (tidx o))
      | Some op =>
        match r1 with
        | [] => PErr None
        | w :: r2 =>
          if is K_WORD w then
            let '(body, hs') := take_body (tk o) hs in
            POk (sk_redir n op (tw w) body) r2 hs'
          else PErr (Some (tidx w))
        end
      end
    end
  end.

(* redir_list: zero or more *)
Fixpoint p_redirs (n : nat) (ts : list token) (hs : list hbody) (acc : list bytes) : pres (list bytes) :=
  match n with
  | O => PFuel
  | S n' =>
    if starts_redir ts then
      bind (r, ts', hs') <- p_redir ts hs; p_redirs n' ts' hs' (acc ++ [r])
    else POk acc ts hs
  end.

(* assignment: the rule action assign() splits the first literal at '=' *)
Fixpoint split_eq (s : bytes) : option (bytes * bytes) :=
  match s with
  | [] => None
  | c :: r => if c =? 61 then Some ([], r)
              else match split_eq r with Some (a, b) => Some (c :: a, b) | None => None end
  end.

Definition sk_assign (w : mword) : bytes :=
  match w with
  | MLit s :: rest =>
    match split_eq s with
    | Some (name, v) =>
      let value := match v with [] => rest | _ => MLit v :: rest end in
      hex name ++ hex (B "=") ++ sk_word value
    | None => hex s ++ hex (B "=") ++ sk_word rest
    end
  | _ => B "N" ++ hex (B "=") ++ sk_word w
  end.

Definition assign_word (w : mword) : bool :=
  match w with
  | MLit s :: _ => match split_eq s with Some (name, _) => is_name name | None => false end
  | _ => false
  end.

Definition starts_cmd (k : tkind) : bool :=
  match k with
  | K_WORD | K_NAME | K_ASSIGN | K_IONUM | K_LT | K_GT | K_CLOBBER | K_APPEND | K_HEREDOC | K_HEREDOCI | K_DUPIN | K_DUPOUT | K_RDWR
  | K_LPAREN | K_LBRACE | K_LAE | K_FOR | K_CASE | K_IF | K_WHILE | K_UNTIL | K_BANG => true
  | _ => false
  end.
Definition head_starts_cmd (ts : list token) : bool := match ts with t :: _ => starts_cmd (tk t) | [] => false end.

Definition fmt_cmds (l : list bytes) : bytes := B "(" ++ join (B ";") l ++ B ")".

Definition sk_simple (assigns args redirs : list bytes) : bytes :=
  B "cmd{simple{(" ++ join (B ";") assigns ++ B ")(" ++ join (B ";") args ++ B ")}" ++ fmt_cmds redirs ++ B "}".

(** simple command: cmd_prefix (redirections, assignments) [WORD cmd_suffix (redirections, words)] *)
Fixpoint p_simple (n : nat) (ts : list token) (hs : list hbody) (seen_word : bool)
         (assigns args redirs : list bytes) : pres bytes :=
  match n with
  | O => PFuel
  | S n' =>
    if starts_redir ts then
      bind (r, ts', hs') <- p_redir ts hs; p_simple n' ts' hs' seen_word assigns args (redirs ++ [r])
    else
      match ts with
      | t :: r =>
        if is K_ASSIGN t && negb seen_word then
          if assign_word (tw t) then p_simple n' r hs false (assigns ++ [sk_assign (tw t)]) args redirs
          else PErr (Some (tidx t))
        else if is K_WORD t then p_simple n' r hs true assigns (args ++ [sk_word (tw t)]) redirs
        else POk (sk_simple assigns args redirs) ts hs
      | [] => POk (sk_simple assigns args redirs) ts hs
      end
  end.

Fixpoint p_words (ts : list token) (acc : list bytes) : list bytes * list token :=
  match ts with
  | t :: r => if is K_WORD t then p_words r (acc ++ [sk_word (tw t)]) else (acc, ts)
  | [] => (acc, [])
  end.

(* the rest of a pattern_list: ('|' WORD)* *)
Fixpoint p_pats (ts : list token) (acc : list bytes) : list bytes * list token :=
  match ts with
  | b :: r => if is K_PIPE b then
                match r with
                | w :: r2 => if is K_WORD w then p_pats r2 (acc ++ [sk_word (tw w)]) else (acc, ts)
                | [] => (acc, ts)
                end
              else (acc, ts)
  | [] => (acc, [])
  end.

Definition sk_ao_op (t : token) : bytes := hex (if is K_AND t then B "&&" else B "||").
Definition sk_sep (t : token) : bytes := if is K_AMP t then B "&" else B ";".

Fixpoint p_andor (n : nat) (ts : list token) (hs : list hbody) {struct n} : pres bytes :=
  match n with
  | O => PFuel
  | S n' =>
    bind (p1, ts1, hs1) <- p_pipeline n' ts hs;
    p_ao_more n' (B "ao{" ++ p1) ts1 hs1
  end
(* (AND | OR) linebreak pipeline ... ; the text stays open: the separator closes it *)
with p_ao_more (n : nat) (acc : bytes) (ts : list token) (hs : list hbody) {struct n} : pres bytes :=
  match n with
  | O => PFuel
  | S n' =>
    match ts with
    | t :: r =>
      if is K_AND t || is K_OR t then
        bind (p2, ts2, hs2) <- p_pipeline n' (skip_nl r) hs;
        p_ao_more n' (acc ++ B "," ++ sk_ao_op t ++ p2) ts2 hs2
      else POk acc ts hs
    | [] => POk acc ts hs
    end
  end
with p_pipeline (n : nat) (ts : list token) (hs : list hbody) {struct n} : pres bytes :=
  match n with
  | O => PFuel
  | S n' =>
    let '(bang, ts0) := match ts with t :: r => if is K_BANG t then (true, r) else (false, ts) | [] => (false, ts) end in
    bind (c1, ts1, hs1) <- p_cmd n' ts0 hs;
    p_pl_more n' (B "pl{" ++ (if bang then B "!," else []) ++ c1) ts1 hs1
  end
with p_pl_more (n : nat) (acc : bytes) (ts : list token) (hs : list hbody) {struct n} : pres bytes :=
  match n with
  | O => PFuel
  | S n' =>
    match ts with
    | t :: r =>
      if is K_PIPE t then
        bind (c2, ts2, hs2) <- p_cmd n' (skip_nl r) hs;
        p_pl_more n' (acc ++ B "," ++ hex (B "|") ++ c2) ts2 hs2
      else POk (acc ++ B "}") ts hs
    | [] => POk (acc ++ B "}") ts hs
    end
  end
(** compound_list: linebreak term [separator]; returns the and-or texts *)
with p_clist (n : nat) (ts : list token) (hs : list hbody) {struct n} : pres (list bytes) :=
  match n with
  | O => PFuel
  | S n' => p_term n' [] (skip_nl ts) hs
  end
with p_term (n : nat) (acc : list bytes) (ts : list token) (hs : list hbody) {struct n} : pres (list bytes) :=
  match n with
  | O => PFuel
  | S n' =>
    bind (a, ts1, hs1) <- p_andor n' ts hs;
    match ts1 with
    | t :: r =>
      if is K_AMP t || is K_SEMI t then
        let acc' := acc ++ [a ++ B "}" ++ sk_sep t] in
        let r' := skip_nl r in
        if head_starts_cmd r' then p_term n' acc' r' hs1 else POk acc' r' hs1
      else if is K_NL t then
        let acc' := acc ++ [a ++ B "};"] in
        let r' := skip_nl r in
        if head_starts_cmd r' then p_term n' acc' r' hs1 else POk acc' r' hs1
      else POk (acc ++ [a ++ B "};"]) ts1 hs1
    | [] => POk (acc ++ [a ++ B "};"]) ts1 hs1
    end
  end
with p_cmd (n : nat) (ts : list token) (hs : list hbody) {struct n} : pres bytes :=
  match n with
  | O => PFuel
  | S n' =>
    match ts with
    | [] => PErr None
    | t :: r =>
      if is K_NAME t then
        (* func_def: NAME '(' ')' linebreak compound_cmd [redir_list] *)
        if name_word (tw t) then
          bind (_u1, ts1, hs1) <- expect K_LPAREN r hs;
          bind (_u2, ts2, hs2) <- expect K_RPAREN ts1 hs1;
          bind (e, ts3, hs3) <- p_compound n' (skip_nl ts2) hs2;
          bind (rs, ts4, hs4) <- p_redirs n' ts3 hs3 [];
          POk (B "cmd{func{" ++ hex (first_lit (tw t)) ++ B ":list(ao{pl{cmd{" ++ e ++ fmt_cmds rs ++ B "}}};)}()}") ts4 hs4
        else PErr (Some (tidx t))
      else
        match tk t with
        | K_LPAREN | K_LBRACE | K_LAE | K_FOR | K_CASE | K_IF | K_WHILE | K_UNTIL =>
          bind (e, ts1, hs1) <- p_compound n' ts hs;
          bind (rs, ts2, hs2) <- p_redirs n' ts1 hs1 [];
          POk (B "cmd{" ++ e ++ fmt_cmds rs ++ B "}") ts2 hs2
        | K_WORD | K_ASSIGN | K_IONUM | K_LT | K_GT | K_CLOBBER | K_APPEND | K_HEREDOC | K_HEREDOCI | K_DUPIN | K_DUPOUT | K_RDWR =>
          p_simple n' ts hs false [] [] []
        | _ => PErr (Some (tidx t))
        end
    end
  end
with p_compound (n : nat) (ts : list token) (hs : list hbody) {struct n} : pres bytes :=
  match n with
  | O => PFuel
  | S n' =>
    match ts with
    | [] => PErr None
    | t :: r =>
      match tk t with
      | K_LPAREN =>
        bind (l, ts1, hs1) <- p_clist n' r hs;
        bind (_u, ts2, hs2) <- expect K_RPAREN ts1 hs1;
        POk (B "subshell" ++ fmt_cmds l) ts2 hs2
      | K_LBRACE =>
        bind (l, ts1, hs1) <- p_clist n' r hs;
        bind (_u, ts2, hs2) <- expect K_RBRACE ts1 hs1;
        POk (B "group" ++ fmt_cmds l) ts2 hs2
      | K_LAE =>
        match r with
        | w :: r1 =>
          if is K_WORD w then
            bind (_u, ts2, hs2) <- expect K_RAE r1 hs;
            POk (B "arith" ++ sk_word_arith (tw w)) ts2 hs2
          else PErr (Some (tidx w))
        | [] => PErr None
        end
      | K_WHILE | K_UNTIL =>
        bind (c, ts1, hs1) <- p_clist n' r hs;
        bind (_u1, ts2, hs2) <- expect K_DO ts1 hs1;
        bind (l, ts3, hs3) <- p_clist n' ts2 hs2;
        bind (_u2, ts4, hs4) <- expect K_DONE ts3 hs3;
        POk ((if is K_WHILE t then B "while{" else B "until{") ++ fmt_cmds c ++ fmt_cmds l ++ B "}") ts4 hs4
      | K_IF =>
        bind (c, ts1, hs1) <- p_clist n' r hs;
        bind (_u1, ts2, hs2) <- expect K_THEN ts1 hs1;
        bind (l, ts3, hs3) <- p_clist n' ts2 hs2;
        bind (es, ts4, hs4) <- p_elses n' [] ts3 hs3;
        bind (_u2, ts5, hs5) <- expect K_FI ts4 hs4;
        POk (B "if{" ++ fmt_cmds c ++ fmt_cmds l ++ fmt_cmds es ++ B "}") ts5 hs5
      | K_FOR =>
        match r with
        | nm :: r1 =>
          if is K_NAME nm && name_word (tw nm) then
            (* For NAME Do | For NAME seq_sep Do | For NAME linebreak In [word_list] seq_sep Do *)
            let r2 := skip_nl r1 in
            if head_is K_IN r2 then
              let '(items, r3) := p_words (tl r2) [] in
              match r3 with
              | s :: r4 =>
                if is K_SEMI s || is K_NL s then p_for_body n' (first_lit (tw nm)) true items (skip_nl r4) hs
                else PErr (Some (tidx s))
              | [] => PErr None
              end
            else
              match r1 with
              | s :: r4 =>
                if is K_DO s then p_for_body n' (first_lit (tw nm)) false [] r1 hs
                else if is K_SEMI s then p_for_body n' (first_lit (tw nm)) false [] (skip_nl r4) hs
                else if is K_NL s then p_for_body n' (first_lit (tw nm)) false [] r2 hs
                else PErr (Some (tidx s))
              | [] => PErr None
              end
          else PErr (Some (tidx nm))
        | [] => PErr None
        end
      | K_CASE =>
        match r with
        | w :: r1 =>
          if is K_WORD w then
            bind (_u1, ts2, hs2) <- expect K_IN (skip_nl r1) hs;
            bind (its, ts3, hs3) <- p_items n' [] (skip_nl ts2) hs2;
            bind (_u2, ts4, hs4) <- expect K_ESAC ts3 hs3;
            POk (B "case{" ++ sk_word (tw w) ++ fmt_cmds its ++ B "}") ts4 hs4
          else PErr (Some (tidx w))
        | [] => PErr None
        end
      | _ => PErr (Some (tidx t))
      end
    end
  end
(* Do compound_list Done *)
with p_for_body (n : nat) (name : bytes) (has_in : bool) (items : list bytes) (ts : list token) (hs : list hbody) {struct n} : pres bytes :=
  match n with
  | O => PFuel
  | S n' =>
    bind (_u1, ts2, hs2) <- expect K_DO ts hs;
    bind (l, ts3, hs3) <- p_clist n' ts2 hs2;
    bind (_u2, ts4, hs4) <- expect K_DONE ts3 hs3;
    POk (B "for{" ++ hex name ++ B ":" ++ (if has_in then B "1" else B "0") ++ fmt_cmds items ++ fmt_cmds l ++ B "}") ts4 hs4
  end
(* else_part: (Elif compound_list Then compound_list)* [Else compound_list] *)
with p_elses (n : nat) (acc : list bytes) (ts : list token) (hs : list hbody) {struct n} : pres (list bytes) :=
  match n with
  | O => PFuel
  | S n' =>
    match ts with
    | e :: re =>
      if is K_ELIF e then
        bind (c2, tsa, hsa) <- p_clist n' re hs;
        bind (_u, tsb, hsb) <- expect K_THEN tsa hsa;
        bind (l2, tsc, hsc) <- p_clist n' tsb hsb;
        p_elses n' (acc ++ [B "elif{" ++ fmt_cmds c2 ++ fmt_cmds l2 ++ B "}"]) tsc hsc
      else if is K_ELSE e then
        bind (l2, tsa, hsa) <- p_clist n' re hs;
        POk (acc ++ [B "else" ++ fmt_cmds l2]) tsa hsa
      else POk acc ts hs
    | [] => POk acc ts hs
    end
  end
(* case_list / case_list_ns; called after linebreak *)
with p_items (n : nat) (acc : list bytes) (ts : list token) (hs : list hbody) {struct n} : pres (list bytes) :=
  match n with
  | O => PFuel
  | S n' =>
    if head_is K_ESAC ts then POk acc ts hs
    else
      let ts1 := match ts with p :: rp => if is K_LPAREN p then rp else ts | [] => ts end in
      match ts1 with
      | p1 :: rp =>
        if is K_WORD p1 then
          let '(pats, ts2) := p_pats rp [sk_word (tw p1)] in
          bind (_u, ts3, hs3) <- expect K_RPAREN ts2 hs;
          let ts4 := skip_nl ts3 in
          if head_is K_BREAK ts4 then
            p_items n' (acc ++ [B "item{" ++ fmt_cmds pats ++ fmt_cmds [] ++ B "1}"]) (skip_nl (tl ts4)) hs3
          else if head_is K_ESAC ts4 then
            POk (acc ++ [B "item{" ++ fmt_cmds pats ++ fmt_cmds [] ++ B "0}"]) ts4 hs3
          else
            bind (l, ts5, hs5) <- p_clist n' ts3 hs3;
            match ts5 with
            | b :: rb =>
              if is K_BREAK b then
                p_items n' (acc ++ [B "item{" ++ fmt_cmds pats ++ fmt_cmds l ++ B "1}"]) (skip_nl rb) hs5
              else if is K_ESAC b then
                POk (acc ++ [B "item{" ++ fmt_cmds pats ++ fmt_cmds l ++ B "0}"]) ts5 hs5
              else PErr (Some (tidx b))
            | [] => PErr None
            end
        else PErr (Some (tidx p1))
      | [] => PErr None
      end
  end.

(** cmdline: complete_cmds linebreak | empty *)
Definition budget (ts : list token) : nat := (10 * (length ts + 2))%nat.

Definition parse_tokens (ts : list token) (hs : list hbody) : pres bytes :=
  match ts with
  | [] => POk (B "()") [] hs
  | _ =>
    if head_is K_NL ts then err_here ts
    else
      bind (l, ts1, hs1) <- p_term (budget ts) [] ts hs;
      match ts1 with
      | [] => POk (fmt_cmds l) [] hs1
      | t :: _ => PErr (Some (tidx t))
      end
  end.

(** the commands of a command substitution (parsed by a nested parser as the list of a subshell) *)
Definition parse_subst (ts : list token) (hs : list hbody) : option bytes :=
  match p_clist (budget ts) ts hs with
  | POk l [] _ => Some (fmt_cmds l)
  | _ => None
  end.
