(** Token-level model of the grammar of parser/parser.go.y: a predictive parser for the same
    productions that builds the canonical skeleton text of the commands (what the rule actions
    build, up to positions and list grouping), and reports the index of the first token that
    cannot continue a sentence.  Executable; no proofs. *)
From Coq Require Import String.
From GoSh Require Import Base.Bytes Parse.Skel.
Open Scope N_scope.

Inductive tkind :=
| K_AND | K_OR | K_PIPE | K_LPAREN | K_RPAREN | K_LAE | K_RAE | K_BREAK | K_AMP | K_SEMI
| K_LT | K_GT | K_CLOBBER | K_APPEND | K_HEREDOC | K_HEREDOCI | K_DUPIN | K_DUPOUT | K_RDWR
| K_IONUM | K_WORD | K_NAME | K_ASSIGN
| K_BANG | K_LBRACE | K_RBRACE | K_FOR | K_CASE | K_ESAC | K_IN | K_IF | K_ELIF | K_THEN | K_ELSE | K_FI
| K_WHILE | K_UNTIL | K_DO | K_DONE | K_NL.

Definition tkind_eqb (a b : tkind) : bool :=
  match a, b with
  | K_AND, K_AND | K_OR, K_OR | K_PIPE, K_PIPE | K_LPAREN, K_LPAREN | K_RPAREN, K_RPAREN | K_LAE, K_LAE
  | K_RAE, K_RAE | K_BREAK, K_BREAK | K_AMP, K_AMP | K_SEMI, K_SEMI | K_LT, K_LT | K_GT, K_GT
  | K_CLOBBER, K_CLOBBER | K_APPEND, K_APPEND | K_HEREDOC, K_HEREDOC | K_HEREDOCI, K_HEREDOCI
  | K_DUPIN, K_DUPIN | K_DUPOUT, K_DUPOUT | K_RDWR, K_RDWR | K_IONUM, K_IONUM | K_WORD, K_WORD
  | K_NAME, K_NAME | K_ASSIGN, K_ASSIGN | K_BANG, K_BANG | K_LBRACE, K_LBRACE | K_RBRACE, K_RBRACE
  | K_FOR, K_FOR | K_CASE, K_CASE | K_ESAC, K_ESAC | K_IN, K_IN | K_IF, K_IF | K_ELIF, K_ELIF
  | K_THEN, K_THEN | K_ELSE, K_ELSE | K_FI, K_FI | K_WHILE, K_WHILE | K_UNTIL, K_UNTIL | K_DO, K_DO
  | K_DONE, K_DONE | K_NL, K_NL => true
  | _, _ => false
  end.

Record token := mkTok { tk : tkind; tw : mword; tidx : nat }.   (* tidx: index in the delivered stream *)

(** here-document bodies as read by the lexer, in announcement order: (Heredoc, Delim) *)
Definition hbody := (option mword * option mword)%type.

(** result of a sub-parser: the text built, the remaining tokens, the remaining here-documents *)
Inductive pres (T : Type) :=
| POk (x : T) (rest : list token) (hs : list hbody)
| PErr (at_token : option nat).          (* None: at end of input *)
Arguments POk {T} x rest hs.
Arguments PErr {T} at_token.

Definition err_here {T} (ts : list token) : pres T :=
  match ts with t :: _ => PErr (Some (tidx t)) | [] => PErr None end.

Definition pbind {T U} (m : pres T) (f : T -> list token -> list hbody -> pres U) : pres U :=
  match m with POk x r h => f x r h | PErr e => PErr e end.

Definition peek (ts : list token) : option tkind := match ts with t :: _ => Some (tk t) | [] => None end.
Definition is (k : tkind) (ts : list token) : bool := match ts with t :: _ => tkind_eqb (tk t) k | [] => false end.

Definition expect (k : tkind) (ts : list token) (hs : list hbody) : pres unit :=
  match ts with
  | t :: r => if tkind_eqb (tk t) k then POk tt r hs else PErr (Some (tidx t))
  | [] => PErr None
  end.

Definition skip_nl := fix go (ts : list token) : list token :=
  match ts with t :: r => if tkind_eqb (tk t) K_NL then go r else ts | [] => [] end.

Definition redir_op (k : tkind) : option bytes :=
  match k with
  | K_LT => Some (B "<") | K_GT => Some (B ">") | K_CLOBBER => Some (B ">|") | K_APPEND => Some (B ">>")
  | K_DUPIN => Some (B "<&") | K_DUPOUT => Some (B ">&") | K_RDWR => Some (B "<>")
  | K_HEREDOC => Some (B "<<") | K_HEREDOCI => Some (B "<<-")
  | _ => None
  end.
Definition is_here (k : tkind) : bool := match k with K_HEREDOC | K_HEREDOCI => true | _ => false end.

(* the first literal of a NAME / IO_NUMBER / ASSIGNMENT_WORD token *)
Definition first_lit (w : mword) : bytes := match w with MLit s :: _ => s | _ => [] end.

(** io_redir: [IO_NUMBER] op WORD ; a here-document takes the next body *)
Definition p_redir (ts : list token) (hs : list hbody) : option (pres bytes) :=
  let '(n, ts1) := match ts with
                   | t :: r => if tkind_eqb (tk t) K_IONUM then (Some (first_lit (tw t)), r) else (None, ts)
                   | [] => (None, ts)
                   end in
  match ts1 with
  | t :: r =>
    match redir_op (tk t) with
    | Some op =>
      Some (match r with
            | w :: r' =>
              if tkind_eqb (tk w) K_WORD then
                let '(body, hs') := if is_here (tk t) then
                                      match hs with h :: hs' => (h, hs') | [] => ((None, None), []) end
                                    else ((None, None), hs) in
                POk (B "r{" ++ (match n with Some x => hex x | None => B "N" end) ++ B ":" ++ hex op ++ B ":"
                       ++ sk_word (tw w) ++ B ":" ++ sk_oword (fst body) ++ B ":" ++ sk_oword (snd body) ++ B "}") r' hs'
              else PErr (Some (tidx w))
            | [] => PErr None
            end)
    | None => match n with Some _ => Some (PErr (Some (tidx t))) | None => None end
    end
  | [] => match n with Some _ => Some (PErr None) | None => None end
  end.

(* redir_list: zero or more *)
Fixpoint p_redirs (fuel : nat) (ts : list token) (hs : list hbody) (acc : list bytes) : pres (list bytes) :=
  match fuel with
  | O => PErr None
  | S f =>
    match p_redir ts hs with
    | Some (POk r ts' hs') => p_redirs f ts' hs' (acc ++ [r])
    | Some (PErr e) => PErr e
    | None => POk acc ts hs
    end
  end.

(* assignment: the rule action assign() splits the first literal at '=' *)
Fixpoint split_eq (s : bytes) : option (bytes * bytes) :=
  match s with
  | [] => None
  | 61 :: r => Some ([], r)
  | c :: r => match split_eq r with Some (a, b) => Some (c :: a, b) | None => None end
  end.

Definition sk_assign (w : mword) : bytes :=
  match w with
  | MLit s :: rest =>
    match split_eq s with
    | Some (name, v) =>
      let value := match v with [] => rest | _ => MLit v :: rest end in
      hex name ++ hex (B "=") ++ sk_word value
    | None => hex s ++ hex (B "=") ++ sk_word rest
    end
  | _ => B "N" ++ hex (B "=") ++ sk_word w
  end.

Definition starts_cmd (k : tkind) : bool :=
  match k with
  | K_WORD | K_NAME | K_ASSIGN | K_IONUM | K_LT | K_GT | K_CLOBBER | K_APPEND | K_HEREDOC | K_HEREDOCI | K_DUPIN | K_DUPOUT | K_RDWR
  | K_LPAREN | K_LBRACE | K_LAE | K_FOR | K_CASE | K_IF | K_WHILE | K_UNTIL | K_BANG => true
  | _ => false
  end.

Definition fmt_cmds (l : list bytes) : bytes := B "(" ++ join (B ";") l ++ B ")".

Section Rec.
  (* simple command: prefix (redirs, assigns) [WORD suffix (redirs, words)] *)
  Fixpoint p_simple (fuel : nat) (ts : list token) (hs : list hbody) (seen_word : bool)
           (assigns args redirs : list bytes) : pres bytes :=
    match fuel with
    | O => PErr None
    | S f =>
      let finish := POk (B "simple{(" ++ join (B ";") assigns ++ B ")(" ++ join (B ";") args ++ B ")}" ++ fmt_cmds redirs) ts hs in
      match p_redir ts hs with
      | Some (POk r ts' hs') => p_simple f ts' hs' seen_word assigns args (redirs ++ [r])
      | Some (PErr e) => PErr e
      | None =>
        match ts with
        | t :: r =>
          if tkind_eqb (tk t) K_ASSIGN && negb seen_word then p_simple f r hs false (assigns ++ [sk_assign (tw t)]) args redirs
          else if tkind_eqb (tk t) K_WORD then p_simple f r hs true assigns (args ++ [sk_word (tw t)]) redirs
          else finish
        | [] => finish
        end
      end
    end.

  Fixpoint p_words (fuel : nat) (ts : list token) (acc : list bytes) : list bytes * list token :=
    match fuel with
    | O => (acc, ts)
    | S f => match ts with
             | t :: r => if tkind_eqb (tk t) K_WORD then p_words f r (acc ++ [sk_word (tw t)]) else (acc, ts)
             | [] => (acc, ts)
             end
    end.

  (** the mutually recursive part, on one fuel *)
  Fixpoint p_andor (fuel : nat) (ts : list token) (hs : list hbody) {struct fuel} : pres bytes :=
    match fuel with
    | O => PErr None
    | S f =>
      pbind (p_pipeline f ts hs) (fun p1 ts1 hs1 =>
        (fix more (n : nat) (acc : bytes) (ts : list token) (hs : list hbody) : pres bytes :=
           match n with
           | O => PErr None
           | S n' =>
             match ts with
             | t :: r =>
               if tkind_eqb (tk t) K_AND || tkind_eqb (tk t) K_OR then
                 pbind (p_pipeline f r hs) (fun p2 ts2 hs2 =>
                   more n' (acc ++ B "," ++ hex (if tkind_eqb (tk t) K_AND then B "&&" else B "||") ++ p2) ts2 hs2)
               else POk acc ts hs
             | [] => POk acc ts hs
             end
           end) f (B "ao{" ++ p1) ts1 hs1)
    end
  with p_pipeline (fuel : nat) (ts : list token) (hs : list hbody) {struct fuel} : pres bytes :=
    match fuel with
    | O => PErr None
    | S f =>
      let '(bang, ts0) := match ts with t :: r => if tkind_eqb (tk t) K_BANG then (true, r) else (false, ts) | [] => (false, ts) end in
      pbind (p_cmd f ts0 hs) (fun c1 ts1 hs1 =>
        (fix more (n : nat) (acc : bytes) (ts : list token) (hs : list hbody) : pres bytes :=
           match n with
           | O => PErr None
           | S n' =>
             match ts with
             | t :: r =>
               if tkind_eqb (tk t) K_PIPE then
                 pbind (p_cmd f r hs) (fun c2 ts2 hs2 => more n' (acc ++ B "," ++ hex (B "|") ++ c2) ts2 hs2)
               else POk (acc ++ B "}") ts hs
             | [] => POk (acc ++ B "}") ts hs
             end
           end) f (B "pl{" ++ (if bang then B "!," else []) ++ c1) ts1 hs1)
    end
  (* a compound_list: linebreak term [sep]; returns the and-or texts *)
  with p_clist (fuel : nat) (ts : list token) (hs : list hbody) {struct fuel} : pres (list bytes) :=
    match fuel with
    | O => PErr None
    | S f =>
      let ts0 := skip_nl ts in
      (fix more (n : nat) (acc : list bytes) (ts : list token) (hs : list hbody) : pres (list bytes) :=
         match n with
         | O => PErr None
         | S n' =>
           pbind (p_andor f ts hs) (fun a ts1 hs1 =>
             (* separator: sep_op linebreak | newline_list | none *)
             match ts1 with
             | t :: r =>
               if tkind_eqb (tk t) K_AMP || tkind_eqb (tk t) K_SEMI then
                 let a' := a ++ B "}" ++ (if tkind_eqb (tk t) K_AMP then B "&" else B ";") in
                 let r' := skip_nl r in
                 if match peek r' with Some k => starts_cmd k | None => false end
                 then more n' (acc ++ [a']) r' hs1 else POk (acc ++ [a']) r' hs1
               else if tkind_eqb (tk t) K_NL then
                 let r' := skip_nl r in
                 if match peek r' with Some k => starts_cmd k | None => false end
                 then more n' (acc ++ [a ++ B "};"]) r' hs1 else POk (acc ++ [a ++ B "};"]) r' hs1
               else POk (acc ++ [a ++ B "};"]) ts1 hs1
             | [] => POk (acc ++ [a ++ B "};"]) ts1 hs1
             end)
         end) f [] ts0 hs
    end
  with p_cmd (fuel : nat) (ts : list token) (hs : list hbody) {struct fuel} : pres bytes :=
    match fuel with
    | O => PErr None
    | S f =>
      let with_redirs (e : bytes) (ts : list token) (hs : list hbody) : pres bytes :=
        pbind (p_redirs (S (length ts)) ts hs []) (fun rs ts' hs' => POk (B "cmd{" ++ e ++ fmt_cmds rs ++ B "}") ts' hs') in
      let compound (ts : list token) (hs : list hbody) : option (pres bytes) :=
        match ts with
        | t :: r =>
          match tk t with
          | K_LPAREN =>
            Some (pbind (p_clist f r hs) (fun l ts1 hs1 =>
                  pbind (expect K_RPAREN ts1 hs1) (fun _ ts2 hs2 => POk (B "subshell" ++ fmt_cmds l) ts2 hs2)))
          | K_LBRACE =>
            Some (pbind (p_clist f r hs) (fun l ts1 hs1 =>
                  pbind (expect K_RBRACE ts1 hs1) (fun _ ts2 hs2 => POk (B "group" ++ fmt_cmds l) ts2 hs2)))
          | K_LAE =>
            Some (match r with
                  | w :: r1 => if tkind_eqb (tk w) K_WORD then
                                 pbind (expect K_RAE r1 hs) (fun _ ts2 hs2 => POk (B "arith" ++ sk_word (tw w)) ts2 hs2)
                               else PErr (Some (tidx w))
                  | [] => PErr None
                  end)
          | K_WHILE | K_UNTIL =>
            Some (pbind (p_clist f r hs) (fun c ts1 hs1 =>
                  pbind (expect K_DO ts1 hs1) (fun _ ts2 hs2 =>
                  pbind (p_clist f ts2 hs2) (fun l ts3 hs3 =>
                  pbind (expect K_DONE ts3 hs3) (fun _ ts4 hs4 =>
                    POk ((if tkind_eqb (tk t) K_WHILE then B "while{" else B "until{") ++ fmt_cmds c ++ fmt_cmds l ++ B "}") ts4 hs4)))))
          | K_IF =>
            Some (pbind (p_clist f r hs) (fun c ts1 hs1 =>
                  pbind (expect K_THEN ts1 hs1) (fun _ ts2 hs2 =>
                  pbind (p_clist f ts2 hs2) (fun l ts3 hs3 =>
                  pbind ((fix elses (n : nat) (acc : list bytes) (ts : list token) (hs : list hbody) : pres (list bytes) :=
                            match n with
                            | O => PErr None
                            | S n' =>
                              match ts with
                              | e :: re =>
                                if tkind_eqb (tk e) K_ELIF then
                                  pbind (p_clist f re hs) (fun c2 tsa hsa =>
                                  pbind (expect K_THEN tsa hsa) (fun _ tsb hsb =>
                                  pbind (p_clist f tsb hsb) (fun l2 tsc hsc =>
                                    elses n' (acc ++ [B "elif{" ++ fmt_cmds c2 ++ fmt_cmds l2 ++ B "}"]) tsc hsc)))
                                else if tkind_eqb (tk e) K_ELSE then
                                  pbind (p_clist f re hs) (fun l2 tsa hsa => POk (acc ++ [B "else" ++ fmt_cmds l2]) tsa hsa)
                                else POk acc ts hs
                              | [] => POk acc ts hs
                              end
                            end) f [] ts3 hs3) (fun es ts4 hs4 =>
                  pbind (expect K_FI ts4 hs4) (fun _ ts5 hs5 =>
                    POk (B "if{" ++ fmt_cmds c ++ fmt_cmds l ++ fmt_cmds es ++ B "}") ts5 hs5))))))
          | K_FOR =>
            Some (match r with
                  | nm :: r1 =>
                    if tkind_eqb (tk nm) K_NAME then
                      let name := hex (first_lit (tw nm)) in
                      let body (inflag : bytes) (items : list bytes) (ts : list token) (hs : list hbody) : pres bytes :=
                        pbind (expect K_DO ts hs) (fun _ ts2 hs2 =>
                        pbind (p_clist f ts2 hs2) (fun l ts3 hs3 =>
                        pbind (expect K_DONE ts3 hs3) (fun _ ts4 hs4 =>
                          POk (B "for{" ++ name ++ B ":" ++ inflag ++ fmt_cmds items ++ fmt_cmds l ++ B "}") ts4 hs4))) in
                      (* For NAME Do | For NAME seq_sep Do | For NAME linebreak In [word_list] seq_sep Do *)
                      if is K_DO r1 then body (B "0") [] r1 hs
                      else
                        let r2 := skip_nl r1 in
                        if is K_IN r2 then
                          let '(items, r3) := p_words (S (length r2)) (tl r2) [] in
                          (* seq_sep: ';' linebreak | newline_list *)
                          match r3 with
                          | s :: r4 =>
                            if tkind_eqb (tk s) K_SEMI || tkind_eqb (tk s) K_NL then body (B "1") items (skip_nl r4) hs
                            else PErr (Some (tidx s))
                          | [] => PErr None
                          end
                        else
                          match r1 with
                          | s :: r4 =>
                            if tkind_eqb (tk s) K_SEMI then body (B "0") [] (skip_nl r4) hs
                            else if tkind_eqb (tk s) K_NL then
                              (* newline_list then Do (seq_sep) ; "In" was excluded above *)
                              if is K_DO r2 then body (B "0") [] r2 hs else err_here r2
                            else PErr (Some (tidx s))
                          | [] => PErr None
                          end
                    else PErr (Some (tidx nm))
                  | [] => PErr None
                  end)
          | K_CASE =>
            Some (match r with
                  | w :: r1 =>
                    if tkind_eqb (tk w) K_WORD then
                      pbind (expect K_IN (skip_nl r1) hs) (fun _ ts2 hs2 =>
                      pbind ((fix items (n : nat) (acc : list bytes) (ts : list token) (hs : list hbody) : pres (list bytes) :=
                                match n with
                                | O => PErr None
                                | S n' =>
                                  let ts := skip_nl ts in
                                  if is K_ESAC ts then POk acc ts hs
                                  else
                                    let ts1 := match ts with p :: rp => if tkind_eqb (tk p) K_LPAREN then rp else ts | [] => ts end in
                                    (* pattern_list: WORD ('|' WORD)* *)
                                    match ts1 with
                                    | p1 :: rp =>
                                      if tkind_eqb (tk p1) K_WORD then
                                        let '(pats, ts2) :=
                                          (fix pl (m : nat) (acc : list bytes) (ts : list token) : list bytes * list token :=
                                             match m with
                                             | O => (acc, ts)
                                             | S m' =>
                                               match ts with
                                               | b :: w2 :: r2 =>
                                                 if tkind_eqb (tk b) K_PIPE && tkind_eqb (tk w2) K_WORD then pl m' (acc ++ [sk_word (tw w2)]) r2
                                                 else (acc, ts)
                                               | _ => (acc, ts)
                                               end
                                             end) (S (length rp)) [sk_word (tw p1)] rp in
                                        pbind (expect K_RPAREN ts2 hs) (fun _ ts3 hs3 =>
                                          let ts4 := skip_nl ts3 in
                                          let after (l : list bytes) (ts : list token) (hs : list hbody) : pres (list bytes) :=
                                            match ts with
                                            | b :: rb =>
                                              if tkind_eqb (tk b) K_BREAK then
                                                items n' (acc ++ [B "item{" ++ fmt_cmds pats ++ fmt_cmds l ++ B "1}"]) rb hs
                                              else if tkind_eqb (tk b) K_ESAC then
                                                POk (acc ++ [B "item{" ++ fmt_cmds pats ++ fmt_cmds l ++ B "0}"]) ts hs
                                              else PErr (Some (tidx b))
                                            | [] => PErr None
                                            end in
                                          if is K_BREAK ts4 || is K_ESAC ts4 then after [] ts4 hs3
                                          else pbind (p_clist f ts3 hs3) (fun l ts5 hs5 => after l ts5 hs5))
                                      else PErr (Some (tidx p1))
                                    | [] => PErr None
                                    end
                                end) f [] ts2 hs2) (fun its ts3 hs3 =>
                      pbind (expect K_ESAC ts3 hs3) (fun _ ts4 hs4 =>
                        POk (B "case{" ++ sk_word (tw w) ++ fmt_cmds its ++ B "}") ts4 hs4)))
                    else PErr (Some (tidx w))
                  | [] => PErr None
                  end)
          | _ => None
          end
        | [] => None
        end in
      match ts with
      | t :: r =>
        if tkind_eqb (tk t) K_NAME then
          (* func_def: NAME '(' ')' linebreak func_body *)
          pbind (expect K_LPAREN r hs) (fun _ ts1 hs1 =>
          pbind (expect K_RPAREN ts1 hs1) (fun _ ts2 hs2 =>
            let ts3 := skip_nl ts2 in
            match compound ts3 hs2 with
            | Some m =>
              pbind m (fun e ts4 hs4 =>
              pbind (with_redirs e ts4 hs4) (fun body ts5 hs5 =>
                POk (B "cmd{func{" ++ hex (first_lit (tw t)) ++ B ":list(ao{pl{" ++ body ++ B "}};)}()}") ts5 hs5))
            | None => err_here ts3
            end))
        else
          match compound ts hs with
          | Some m => pbind m (fun e ts1 hs1 => with_redirs e ts1 hs1)
          | None =>
            if starts_cmd (tk t) && negb (tkind_eqb (tk t) K_BANG) then
              pbind (p_simple (S (length ts)) ts hs false [] [] [])
                    (fun s ts1 hs1 => POk (B "cmd{" ++ s ++ B "}") ts1 hs1)
            else PErr (Some (tidx t))
          end
      | [] => PErr None
      end
    end.
End Rec.

(** cmdline: complete_cmds linebreak | empty ; complete_cmds: complete_cmd (newline_list complete_cmd)* *)
Definition parse_tokens (ts : list token) (hs : list hbody) : pres bytes :=
  let fuel := (8 * S (length ts))%nat in
  match ts with
  | [] => POk (B "()") [] hs
  | _ =>
    pbind (p_clist fuel ts hs) (fun l ts1 hs1 =>
      match ts1 with
      | [] => POk (fmt_cmds l) [] hs1
      | t :: _ => PErr (Some (tidx t))
      end)
  end.
