(** The arithmetic evaluator model never panics and never runs out of fuel: every evaluation ends
    with a number or with one of the documented errors (C19 for Eval). *)
From GoSh Require Import Base.Bytes Base.Outcome Store.Env Arith.ASyntax Arith.AEval.
From GoShGen Require Import Extracted.
From Coq Require Import Lia ZifyBool ZifyN.
Local Open Scope N_scope.

(* a variable name as the arithmetic grammar produces them: it starts with a letter or '_' *)
Definition ident_start (c : N) : bool :=
  ((65 <=? c) && (c <=? 90)) || ((97 <=? c) && (c <=? 122)) || (c =? 95) || (128 <=? c).
Definition ident (x : bytes) : bool := match x with c :: _ => ident_start c | [] => false end.

Fixpoint names (a : aexpr) : list bytes :=
  match a with
  | ENum _ => []
  | EVar x => [x]
  | EParen a' | EUn _ a' | EPostInc a' | EPostDec a' | EPreInc a' | EPreDec a' => names a'
  | EBin _ l r | ELAnd l r | ELOr l r | EAssign _ l r => names l ++ names r
  | ECond c a1 a2 => names c ++ names a1 ++ names a2
  end.

Definition fine {T} (o : outcome T akind) : Prop := match o with Ok _ | Err _ => True | _ => False end.

Lemma ident_not_special x : ident x = true -> (Nat.eqb (length x) 1 && mem_bytes x Extracted.get_specials) = false.
Proof.
  destruct x as [|c [|d t]]; cbn [ident length Nat.eqb andb]; try reflexivity; try discriminate.
  intros H. cbn [mem_bytes Extracted.get_specials beqb]. unfold ident_start in H.
  repeat match goal with |- context [c =? ?k] => destruct (N.eqb_spec c k) as [->|_]; [vm_compute in H; discriminate|] end.
  reflexivity.
Qed.

Lemma ident_not_pos x : ident x = true -> is_pos_param x = false.
Proof.
  destruct x as [|c t]; [discriminate|]. cbn [ident]. intros H. unfold is_pos_param. cbn [forallb].
  assert (Hd : is_digit c = false).
  { unfold is_digit. unfold ident_start in H. destruct (48 <=? c) eqn:E1; [|reflexivity]. destruct (c <=? 57) eqn:E2; [|reflexivity].
    apply N.leb_le in E1, E2. exfalso.
    repeat match type of H with
           | (_ || _) = true => apply orb_true_iff in H as [H|H]
           | (_ && _) = true => apply andb_true_iff in H as [? ?]
           end; repeat match goal with H0 : (_ <=? _) = true |- _ => apply N.leb_le in H0 | H0 : (_ =? _) = true |- _ => apply N.eqb_eq in H0 end; lia. }
  rewrite Hd. reflexivity.
Qed.

Lemma get_ident e x : ident x = true -> exists r, get e x = Ok r.
Proof.
  intros H. unfold get. rewrite (ident_not_special x H), (ident_not_pos x H).
  destruct (lookup x (vars e)); eexists; reflexivity.
Qed.

Lemma read_var_fine e x : ident x = true -> fine (read_var e x).
Proof.
  intros H. unfold read_var. destruct (get_ident e x H) as ([[k v] set] & ->).
  destruct (negb set || beqb v []); cbn; [exact I|]. destruct (parse_int0 v); exact I.
Qed.

Lemma force_fine e v : (forall x, v = VName x -> ident x = true) -> fine (force e v).
Proof. destruct v as [n|x]; cbn; intros H; [exact I|]. apply read_var_fine, H, eq_refl. Qed.

Lemma calc_fine o l r : fine (calc o l r).
Proof. destruct o; cbn; repeat match goal with |- context [if ?c then _ else _] => destruct c end; exact I. Qed.

Lemma all_app (l1 l2 : list bytes) : forallb ident (l1 ++ l2) = true -> forallb ident l1 = true /\ forallb ident l2 = true.
Proof. rewrite forallb_app. apply andb_true_iff. Qed.

(* a pending name of the result is one of the expression's names *)
Definition names_ok (v : aval) : Prop := forall x, v = VName x -> ident x = true.

Lemma incdec_fine e v d post : names_ok v -> fine (snd (incdec e v d post)) /\ (forall w, snd (incdec e v d post) = Ok w -> names_ok w).
Proof.
  intros Hv. destruct v as [n|x]; cbn; [split; [exact I|discriminate]|].
  pose proof (read_var_fine e x (Hv x eq_refl)) as F. destruct (read_var e x); cbn in *; try contradiction; split; try exact I; try discriminate.
  intros w H. inversion H; subst. intros y Hy. discriminate.
Qed.

Theorem eval_i_fine a : forall e, forallb ident (names a) = true ->
  fine (snd (eval_i e a)) /\ (forall v, snd (eval_i e a) = Ok v -> names_ok v).
Proof.
  induction a; intros e Hn; cbn [names] in Hn; cbn [eval_i].
  - destruct (parse_int0 s); cbn; split; try exact I; try discriminate. intros v H; inversion H; subst. intros y Hy; discriminate.
  - cbn. split; [exact I|]. intros v H; inversion H; subst. intros y Hy; inversion Hy; subst.
    cbn in Hn. apply andb_true_iff in Hn as [Hn _]. exact Hn.
  - apply IHa, Hn.
  - destruct (IHa e Hn) as (F & N). destruct (eval_i e a) as [e1 [v| | |]]; cbn in *; try contradiction; try (split; [exact I|discriminate]).
    apply incdec_fine, N, eq_refl.
  - destruct (IHa e Hn) as (F & N). destruct (eval_i e a) as [e1 [v| | |]]; cbn in *; try contradiction; try (split; [exact I|discriminate]).
    apply incdec_fine, N, eq_refl.
  - destruct (IHa e Hn) as (F & N). destruct (eval_i e a) as [e1 [v| | |]]; cbn in *; try contradiction; try (split; [exact I|discriminate]).
    apply incdec_fine, N, eq_refl.
  - destruct (IHa e Hn) as (F & N). destruct (eval_i e a) as [e1 [v| | |]]; cbn in *; try contradiction; try (split; [exact I|discriminate]).
    apply incdec_fine, N, eq_refl.
  - destruct (IHa e Hn) as (F & N). destruct (eval_i e a) as [e1 [v| | |]]; cbn in *; try contradiction; try (split; [exact I|discriminate]).
    pose proof (force_fine e1 v (N v eq_refl)) as Ff. destruct (force e1 v); cbn in *; try contradiction; split; try exact I; try discriminate.
    intros w H; inversion H; subst. intros y Hy; discriminate.
  - apply all_app in Hn as [H1 H2]. destruct (IHa1 e H1) as (F1 & N1).
    destruct (eval_i e a1) as [e1 [v1| | |]]; cbn in *; try contradiction; try (split; [exact I|discriminate]).
    destruct (IHa2 e1 H2) as (F2 & N2).
    destruct (eval_i e1 a2) as [e2 [v2| | |]]; cbn in *; try contradiction; try (split; [exact I|discriminate]).
    pose proof (force_fine e2 v1 (N1 v1 eq_refl)) as Ff1. destruct (force e2 v1); cbn in *; try contradiction; try (split; [exact I|discriminate]).
    pose proof (force_fine e2 v2 (N2 v2 eq_refl)) as Ff2. destruct (force e2 v2); cbn in *; try contradiction; try (split; [exact I|discriminate]).
    match goal with |- context [calc ?oo ?x ?y] => pose proof (calc_fine oo x y) as Fc; destruct (calc oo x y) end; cbn in *; try contradiction; split; try exact I; try discriminate.
    intros w H; inversion H; subst. intros y Hy; discriminate.
  - apply all_app in Hn as [H1 H2]. destruct (IHa1 e H1) as (F1 & N1).
    destruct (eval_i e a1) as [e1 [v1| | |]]; cbn in *; try contradiction; try (split; [exact I|discriminate]).
    destruct (IHa2 e1 H2) as (F2 & N2).
    destruct (eval_i e1 a2) as [e2 [v2| | |]]; cbn in *; try contradiction; try (split; [exact I|discriminate]).
    pose proof (force_fine e2 v1 (N1 v1 eq_refl)) as Ff1. destruct (force e2 v1); cbn in *; try contradiction; try (split; [exact I|discriminate]).
    match goal with |- context [(?x =? 0)%Z] => destruct (x =? 0)%Z end; cbn.
    + split; [exact I|]. intros w H; inversion H; subst. intros y Hy; discriminate.
    + pose proof (force_fine e2 v2 (N2 v2 eq_refl)) as Ff2. destruct (force e2 v2); cbn in *; try contradiction; split; try exact I; try discriminate.
      intros w H; inversion H; subst. intros y Hy; discriminate.
  - apply all_app in Hn as [H1 H2]. destruct (IHa1 e H1) as (F1 & N1).
    destruct (eval_i e a1) as [e1 [v1| | |]]; cbn in *; try contradiction; try (split; [exact I|discriminate]).
    destruct (IHa2 e1 H2) as (F2 & N2).
    destruct (eval_i e1 a2) as [e2 [v2| | |]]; cbn in *; try contradiction; try (split; [exact I|discriminate]).
    pose proof (force_fine e2 v1 (N1 v1 eq_refl)) as Ff1. destruct (force e2 v1); cbn in *; try contradiction; try (split; [exact I|discriminate]).
    match goal with |- context [(?x =? 0)%Z] => destruct (x =? 0)%Z end; cbn.
    + pose proof (force_fine e2 v2 (N2 v2 eq_refl)) as Ff2. destruct (force e2 v2); cbn in *; try contradiction; split; try exact I; try discriminate.
      intros w H; inversion H; subst. intros y Hy; discriminate.
    + split; [exact I|]. intros w H; inversion H; subst. intros y Hy; discriminate.
  - apply all_app in Hn as [H1 H23]. apply all_app in H23 as [H2 H3]. destruct (IHa1 e H1) as (F1 & N1).
    destruct (eval_i e a1) as [e1 [v1| | |]]; cbn in *; try contradiction; try (split; [exact I|discriminate]).
    destruct (IHa2 e1 H2) as (F2 & N2).
    destruct (eval_i e1 a2) as [e2 [v2| | |]]; cbn in *; try contradiction; try (split; [exact I|discriminate]).
    destruct (IHa3 e2 H3) as (F3 & N3).
    destruct (eval_i e2 a3) as [e3 [v3| | |]]; cbn in *; try contradiction; try (split; [exact I|discriminate]).
    pose proof (force_fine e3 v1 (N1 v1 eq_refl)) as Ff1. destruct (force e3 v1); cbn in *; try contradiction; try (split; [exact I|discriminate]).
    match goal with |- context [(?x =? 0)%Z] => destruct (x =? 0)%Z end; cbn.
    + pose proof (force_fine e3 v3 (N3 v3 eq_refl)) as Ff. destruct (force e3 v3); cbn in *; try contradiction; split; try exact I; try discriminate.
      intros w H; inversion H; subst. intros y Hy; discriminate.
    + pose proof (force_fine e3 v2 (N2 v2 eq_refl)) as Ff. destruct (force e3 v2); cbn in *; try contradiction; split; try exact I; try discriminate.
      intros w H; inversion H; subst. intros y Hy; discriminate.
  - apply all_app in Hn as [H1 H2]. destruct (IHa1 e H1) as (F1 & N1).
    destruct (eval_i e a1) as [e1 [v1| | |]]; cbn in *; try contradiction; try (split; [exact I|discriminate]).
    destruct (IHa2 e1 H2) as (F2 & N2).
    destruct (eval_i e1 a2) as [e2 [v2| | |]]; cbn in *; try contradiction; try (split; [exact I|discriminate]).
    destruct v1 as [n1|x]; cbn; [split; [exact I|discriminate]|].
    destruct o as [op|].
    + pose proof (read_var_fine e2 x (N1 (VName x) eq_refl x eq_refl)) as Fr. destruct (read_var e2 x); cbn in *; try contradiction; try (split; [exact I|discriminate]).
      pose proof (force_fine e2 v2 (N2 v2 eq_refl)) as Ff2. destruct (force e2 v2); cbn in *; try contradiction; try (split; [exact I|discriminate]).
      match goal with |- context [calc ?oo ?x ?y] => pose proof (calc_fine oo x y) as Fc; destruct (calc oo x y) end; cbn in *; try contradiction; split; try exact I; try discriminate.
      intros w H; inversion H; subst. intros y Hy; discriminate.
    + pose proof (force_fine e2 v2 (N2 v2 eq_refl)) as Ff2. destruct (force e2 v2); cbn in *; try contradiction; split; try exact I; try discriminate.
      intros w H; inversion H; subst. intros y Hy; discriminate.
Qed.

(** Every evaluation of an expression whose variables are identifiers ends with a number or with
    one of the documented errors: no panic, no exhausted fuel. *)
Theorem eval_top_total a e : forallb ident (names a) = true -> fine (snd (eval_top_i e a)).
Proof.
  intros Hn. unfold eval_top_i. destruct (eval_i_fine a e Hn) as (F & N).
  destruct (eval_i e a) as [e1 [v| | |]]; cbn in *; try contradiction; try exact I.
  apply force_fine, N, eq_refl.
Qed.

(** * From source text: the identifiers the tokenizer produces are identifiers, the parser only
    moves them into the tree, so the hypothesis above holds of everything Eval parses. *)
Definition tok_ok (t : atok) : bool := match t with TId s => ident s | _ => true end.

Lemma ident_start_hi b : 128 <= b -> ident_start b = true.
Proof. intros H. unfold ident_start. apply N.leb_le in H. rewrite H. now rewrite !orb_true_r. Qed.

Lemma encode_first c a : (c =? 95) || is_letter c = true -> ident (encode_all (c :: a)) = true.
Proof.
  intros H. unfold encode_all. cbn [flat_map]. unfold encode_rune.
  destruct (c <? 128) eqn:E1.
  - cbn [app ident]. apply N.ltb_lt in E1. unfold ident_start. unfold is_letter, in_r in H. lia.
  - destruct (c <? 2048); [cbn [app ident]; apply ident_start_hi; lia|].
    destruct (((55296 <=? c) && (c <=? 57343)) || (1114111 <? c)); [reflexivity|].
    destruct (c <? 65536); cbn [app ident]; apply ident_start_hi; lia.
Qed.

Lemma lex_op_ok s t b : lex_op s = Some (t, b) -> tok_ok t = true.
Proof.
  intros H. destruct t; try reflexivity. exfalso. unfold lex_op in H.
  repeat match type of H with
         | context [match ?x with _ => _ end] => destruct x; try discriminate
         end.
Qed.

Lemma span_cons p c s : p c = true -> exists a b, span p (c :: s) = (c :: a, b).
Proof. intros H. cbn [span]. rewrite H. destruct (span p s) as [a b]. eauto. Qed.

Lemma alex_ok fuel : forall s, forallb tok_ok (alex fuel s) = true.
Proof.
  induction fuel as [|f IH]; intros s; cbn [alex]; [reflexivity|].
  destruct s as [|c s']; [reflexivity|].
  destruct ((c =? 32) || (c =? 9) || (c =? 10)); [apply IH|].
  destruct (is_dec c).
  - destruct (lex_number (c :: s')) as [a b]. cbn [forallb tok_ok]. apply IH.
  - destruct ((c =? 95) || is_letter c) eqn:El.
    + destruct (span_cons (fun r => (r =? 95) || is_letter r || is_udigit r) c s') as (a & b & ->).
      { rewrite El. reflexivity. }
      cbn [forallb tok_ok]. rewrite (encode_first c a El). apply IH.
    + destruct (lex_op (c :: s')) as [[t b]|] eqn:Eo; [|reflexivity].
      cbn [forallb]. rewrite (lex_op_ok _ _ _ Eo). apply IH.
Qed.

Definition nm (a : aexpr) : Prop := forallb ident (names a) = true.
Definition tk (ts : list atok) : Prop := forallb tok_ok ts = true.
Definition res_ok (r : pres) : Prop := match r with Some (a, ts) => nm a /\ tk ts | None => True end.

Lemma nm_app2 l r : forallb ident (names l) = true -> forallb ident (names r) = true -> forallb ident (names l ++ names r) = true.
Proof. intros H1 H2. rewrite forallb_app, H1, H2. reflexivity. Qed.

Lemma tk_tail t ts : tk (t :: ts) -> tk ts.
Proof. unfold tk. cbn [forallb]. intros H. apply andb_true_iff in H. apply H. Qed.

Lemma p_postfix_ok ts : forall a, nm a -> tk ts -> res_ok (Some (p_postfix a ts)).
Proof.
  induction ts as [|t ts IH]; intros a Ha Ht; cbn [p_postfix]; [split; assumption|].
  destruct t; try (split; assumption); apply IH; try exact Ha; eapply tk_tail; exact Ht.
Qed.

Lemma infix_names t p mk l r : infix t = Some (p, mk) -> names (mk l r) = names l ++ names r.
Proof. destruct t; cbn; intros H; inversion H; reflexivity. Qed.

Lemma p_all_ok fuel :
  (forall ts, tk ts -> res_ok (p_expr fuel ts)) /\
  (forall ts, tk ts -> res_ok (p_cond fuel ts)) /\
  (forall u ts, nm u -> tk ts -> res_ok (p_cond_rest fuel u ts)) /\
  (forall lhs minp ts, nm lhs -> tk ts -> res_ok (p_binary fuel lhs minp ts)) /\
  (forall ts, tk ts -> res_ok (p_unary fuel ts)).
Proof.
  induction fuel as [|f (IHe & IHc & IHr & IHb & IHu)]; [repeat split; intros; exact I|].
  assert (Hcr : forall u ts1, nm u -> tk ts1 -> res_ok (p_cond_rest (S f) u ts1)).
  { intros u ts1 Hu Ht. cbn [p_cond_rest].
    pose proof (IHb u 1%nat ts1 Hu Ht) as Rb. destruct (p_binary f u 1 ts1) as [[c r]|]; [|exact I].
    destruct Rb as [Hc Hr].
    assert (D : res_ok (Some (c, r))) by (split; assumption).
    destruct r as [|t r1]; [exact D|]. destruct t; try exact D.
    pose proof (IHe r1 (tk_tail _ _ Hr)) as Re. destruct (p_expr f r1) as [[a r2]|]; [|exact I].
    destruct Re as [Ha Hr2]. destruct r2 as [|t2 r3]; [exact I|]. destruct t2; try exact I.
    pose proof (IHc r3 (tk_tail _ _ Hr2)) as Rc. destruct (p_cond f r3) as [[b r4]|]; [|exact I].
    destruct Rc as [Hb Hr4]. split; [|exact Hr4]. unfold nm in *. cbn [names].
    rewrite !forallb_app, Hc, Ha, Hb. reflexivity. }
  repeat split.
  - (* p_expr *) intros ts Ht. cbn [p_expr].
    pose proof (IHu ts Ht) as Ru. destruct (p_unary f ts) as [[u r]|]; [|exact I]. destruct Ru as [Hu Hr].
    destruct r as [|t r1]; [apply IHr; assumption|].
    destruct t; try (apply IHr; assumption).
    pose proof (IHe r1 (tk_tail _ _ Hr)) as Re. destruct (p_expr f r1) as [[a r2]|]; [|exact I].
    destruct Re as [Ha Hr2]. split; [|exact Hr2]. unfold nm in *. cbn [names]. apply nm_app2; assumption.
  - (* p_cond *) intros ts Ht. cbn [p_cond].
    pose proof (IHu ts Ht) as Ru. destruct (p_unary f ts) as [[u r]|]; [|exact I]. destruct Ru as [Hu Hr].
    apply IHr; assumption.
  - exact Hcr.
  - (* p_binary *) intros lhs minp ts Hl Ht. cbn [p_binary].
    destruct ts as [|t ts1]; [split; assumption|].
    destruct (infix t) as [[p mk]|] eqn:Ei; [|split; assumption].
    destruct (Nat.leb minp p); [|split; assumption].
    pose proof (IHu ts1 (tk_tail _ _ Ht)) as Ru. destruct (p_unary f ts1) as [[r ts2]|]; [|exact I]. destruct Ru as [Hr Ht2].
    pose proof (IHb r (S p) ts2 Hr Ht2) as Rb. destruct (p_binary f r (S p) ts2) as [[r' ts3]|]; [|exact I]. destruct Rb as [Hr' Ht3].
    apply IHb; [|exact Ht3]. unfold nm in *. rewrite (infix_names _ _ _ lhs r' Ei). apply nm_app2; assumption.
  - (* p_unary *) intros ts Ht. cbn [p_unary].
    destruct ts as [|t ts1]; [exact I|]. pose proof (tk_tail _ _ Ht) as Ht1.
    destruct t; try exact I.
    + apply p_postfix_ok; [reflexivity|exact Ht1].
    + apply p_postfix_ok; [|exact Ht1]. unfold nm, tk in *. cbn [names forallb tok_ok] in *.
      apply andb_true_iff in Ht as [Hs _]. rewrite Hs. reflexivity.
    + pose proof (IHe ts1 Ht1) as Re. destruct (p_expr f ts1) as [[a r]|]; [|exact I]. destruct Re as [Ha Hr].
      destruct r as [|t r1]; [exact I|]. destruct t; try exact I.
      apply p_postfix_ok; [exact Ha|exact (tk_tail _ _ Hr)].
    + pose proof (IHu ts1 Ht1) as Ru. destruct (p_unary f ts1) as [[a r]|]; [|exact I]. exact Ru.
    + pose proof (IHu ts1 Ht1) as Ru. destruct (p_unary f ts1) as [[a r]|]; [|exact I]. exact Ru.
    + pose proof (IHu ts1 Ht1) as Ru. destruct (p_unary f ts1) as [[a r]|]; [|exact I]. exact Ru.
    + destruct o; try exact I; pose proof (IHu ts1 Ht1) as Ru; destruct (p_unary f ts1) as [[a r]|]; try exact I; exact Ru.
Qed.

Lemma filter_ok ts : tk ts -> tk (filter (fun t => match t with TBad _ => false | _ => true end) ts).
Proof.
  unfold tk. induction ts as [|t ts IH]; cbn [filter forallb]; [reflexivity|]. intros H.
  apply andb_true_iff in H as [H1 H2]. destruct t; cbn [forallb]; rewrite ?H1; auto.
Qed.

(** Eval, on every source text and every environment, ends with a number or with one of the
    documented errors: the model has no panic and no exhausted fuel on this path. *)
Theorem eval_model_total e src : fine (snd (eval_model e src)).
Proof.
  unfold eval_model. set (ts := alex _ _).
  pose proof (filter_ok ts (alex_ok _ _)) as Hf. unfold aparse.
  destruct (p_all_ok (5 * S (length (filter (fun t => match t with TBad _ => false | _ => true end) ts)) + 5)) as (He & _).
  specialize (He _ Hf).
  destruct (p_expr _ _) as [[a r]|]; [|exact I]. destruct He as [Ha _].
  destruct r; [|exact I]. destruct (has_bad ts); [exact I|]. apply eval_top_total, Ha.
Qed.
