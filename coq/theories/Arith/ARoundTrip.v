(** What the evaluator writes it can read back: strconv.Itoa followed by strconv.ParseInt(s, 0, 0)
    is the identity on the int64 range (models [itoa], [parse_int0]). *)
From GoSh Require Import Base.Bytes Base.Outcome Store.Env Arith.ASyntax Arith.AEval.
From Coq Require Import Lia ZifyBool ZifyN.
Local Open Scope Z_scope.

Definition in_range (n : Z) : Prop := - two63 <= n < two63.

Lemma dv_digit (d : N) acc a u : (d < 10)%N -> 0 <= a -> a * 10 + Z.of_N d <= two64 * 16 ->
  digits_val 10 true ((48 + d)%N :: acc) a u = digits_val 10 true acc (a * 10 + Z.of_N d) u.
Proof.
  intros Hd Ha Hb. cbn [digits_val].
  replace ((48 + d =? 95)%N && true) with false by lia.
  unfold digit_val. replace ((48 <=? 48 + d)%N && (48 + d <=? 57)%N) with true by lia.
  replace (Z.of_N (48 + d) - 48 <? 10) with true by lia.
  replace (Z.of_N (48 + d) - 48) with (Z.of_N d) by lia.
  rewrite Z.min_l by lia. reflexivity.
Qed.

Lemma digits_fuel_val : forall f (n : N) acc u, (n < 2 ^ N.of_nat f)%N -> (n < 2 ^ 64)%N ->
  digits_val 10 true (digits_fuel f n acc) 0 u = digits_val 10 true acc (Z.of_N n) u.
Proof.
  induction f as [|f IH]; intros n acc u Hf Hn.
  - cbn in Hf. assert (n = 0%N) by lia. subst. reflexivity.
  - cbn [digits_fuel]. cbv zeta.
    assert (Hm : (n mod 10 < 10)%N) by (apply N.mod_lt; lia).
    destruct (N.ltb_spec n 10) as [Hlt|Hge].
    + rewrite N.mod_small by lia. rewrite dv_digit; try lia; [reflexivity|]. unfold two64. lia.
    + rewrite IH.
      * rewrite dv_digit; try lia.
        -- f_equal. pose proof (N.div_mod n 10). lia.
        -- unfold two64. pose proof (N.div_mod n 10). lia.
      * rewrite Nat2N.inj_succ, N.pow_succ_r' in Hf. pose proof (N.div_mod n 10). assert (n / 10 <= n / 2)%N; [|].
        { apply N.div_le_compat_l. lia. }
        assert (n / 2 < 2 ^ N.of_nat f)%N by (apply N.div_lt_upper_bound; lia). lia.
      * pose proof (N.div_mod n 10). lia.
Qed.

Lemma digits_fuel_head : forall f (n : N) acc, (0 < n)%N -> (n < 2 ^ N.of_nat f)%N ->
  exists d rest, digits_fuel f n acc = d :: rest /\ (49 <= d <= 57)%N.
Proof.
  induction f as [|f IH]; intros n acc Hp Hf.
  - cbn in Hf. lia.
  - cbn [digits_fuel]. cbv zeta. assert (Hm : (n mod 10 < 10)%N) by (apply N.mod_lt; lia).
    destruct (N.ltb_spec n 10) as [Hlt|Hge].
    + exists (48 + n mod 10)%N, acc. split; [reflexivity|]. rewrite N.mod_small by lia. lia.
    + apply IH.
      * pose proof (N.div_mod n 10). lia.
      * rewrite Nat2N.inj_succ, N.pow_succ_r' in Hf. assert (n / 10 <= n / 2)%N by (apply N.div_le_compat_l; lia).
        assert (n / 2 < 2 ^ N.of_nat f)%N by (apply N.div_lt_upper_bound; lia). lia.
Qed.

Lemma itoa_N_fuel (p : positive) : (N.pos p < 2 ^ N.of_nat (S (N.to_nat (N.log2 (N.pos p)))))%N.
Proof.
  rewrite Nat2N.inj_succ, N2Nat.id. apply N.log2_spec. lia.
Qed.

Ltac crack q := destruct q as [q|q|]; try reflexivity; try congruence; try lia; try crack q.

Lemma parse_uint0_itoa (p : positive) : (N.pos p < 2 ^ 64)%N -> parse_uint0 (itoa_N (N.pos p)) = Some (Z.pos p).
Proof.
  intros Hr. unfold itoa_N.
  destruct (digits_fuel_head _ (N.pos p) [] ltac:(lia) (itoa_N_fuel p)) as (d & rest & E & Hd).
  pose proof (digits_fuel_val _ (N.pos p) [] false (itoa_N_fuel p) Hr) as V. rewrite E in V |- *.
  unfold parse_uint0.
  assert (Hb : (let '(base, body) :=
                  match d :: rest with
                  | 48%N :: c :: t => match t with
                                      | _ :: _ => let l := lower c in
                                                  if (l =? 98)%N then (2, t) else if (l =? 111)%N then (8, t) else if (l =? 120)%N then (16, t) else (8, c :: t)
                                      | [] => (8, c :: t)
                                      end
                  | 48%N :: t => (8, t)
                  | _ => (10, d :: rest)
                  end in
                match digits_val base true body 0 false with
                | Some (v, und) => if und && negb (underscore_ok (d :: rest)) then None else if v <? two64 then Some v else None
                | None => None
                end) = Some (Z.pos p)).
  { assert (E48 : match d :: rest with
                  | 48%N :: c :: t => match t with
                                      | _ :: _ => let l := lower c in
                                                  if (l =? 98)%N then (2, t) else if (l =? 111)%N then (8, t) else if (l =? 120)%N then (16, t) else (8, c :: t)
                                      | [] => (8, c :: t)
                                      end
                  | 48%N :: t => (8, t)
                  | _ => (10, d :: rest)
                  end = (10, d :: rest)).
    { destruct d as [|q]; [lia|]. crack q. }
    rewrite E48, V. cbn [digits_val andb]. replace (Z.of_N (N.pos p) <? two64) with true; [reflexivity|].
    unfold two64. lia. }
  exact Hb.
Qed.

(** the round trip *)
Theorem parse_itoa n : in_range n -> parse_int0 (itoa n) = Some n.
Proof.
  unfold in_range, two63. intros Hr. destruct n as [|p|p]; [reflexivity| |].
  - cbn [itoa]. assert (Hp : (N.pos p < 2 ^ 64)%N) by lia.
    pose proof (parse_uint0_itoa p Hp) as U. unfold itoa_N in *.
    destruct (digits_fuel_head _ (N.pos p) [] ltac:(lia) (itoa_N_fuel p)) as (d & rest & E & Hd). rewrite E in *.
    unfold parse_int0. replace (d =? 43)%N with false by lia. replace (d =? 45)%N with false by lia.
    rewrite U. replace (Z.pos p <? two63) with true; [reflexivity|]. unfold two63. lia.
  - cbn [itoa]. assert (Hp : (N.pos p < 2 ^ 64)%N) by lia.
    pose proof (parse_uint0_itoa p Hp) as U.
    unfold parse_int0. cbn [N.eqb Pos.eqb]. rewrite U. replace (Z.pos p <=? two63) with true; [reflexivity|]. unfold two63. lia.
Qed.

Lemma itoa_nonempty n : itoa n <> [].
Proof.
  destruct n as [|p|p]; cbn [itoa]; try discriminate.
  unfold itoa_N. destruct (digits_fuel_head _ (N.pos p) [] ltac:(lia) (itoa_N_fuel p)) as (d & rest & -> & _). discriminate.
Qed.
