(** Refinement of C's semantics by the rule-action evaluator on expressions without assignments:
    the evaluator delays the reading of variables and evaluates both operands of && || ?: ; on a
    store that is not modified this is unobservable (when the skipped operands cannot fail). *)
From GoSh Require Import Base.Bytes Base.Outcome Store.Env Store.EnvSpec Arith.ASyntax Arith.AEval.
From Coq Require Import Lia.
Local Open Scope Z_scope.

(** no assignment, increment or decrement *)
Fixpoint pure (a : aexpr) : bool :=
  match a with
  | ENum _ | EVar _ => true
  | EParen a' | EUn _ a' => pure a'
  | EPostInc _ | EPostDec _ | EPreInc _ | EPreDec _ | EAssign _ _ _ => false
  | EBin _ l r | ELAnd l r | ELOr l r => pure l && pure r
  | ECond c a1 a2 => pure c && pure a1 && pure a2
  end.

(* the value the evaluator computes once the pending name is read *)
Definition val_i (e : env) (a : aexpr) : outcome Z akind :=
  match eval_i e a with
  | (e', Ok v) => force e' v
  | (_, Err k) => Err k
  | (_, Panic p) => Panic p
  | (_, OutOfFuel) => OutOfFuel
  end.

Definition same_answer (r1 r2 : outcome Z akind) : Prop :=
  match r1, r2 with
  | Ok n, Ok m => n = m
  | Ok _, _ | _, Ok _ => False
  | _, _ => True        (* both fail *)
  end.

Lemma numeric_app e l1 l2 :
  forallb (fun x => match read_var e x with Ok _ => true | _ => false end) (l1 ++ l2) = true ->
  forallb (fun x => match read_var e x with Ok _ => true | _ => false end) l1 = true /\
  forallb (fun x => match read_var e x with Ok _ => true | _ => false end) l2 = true.
Proof. rewrite forallb_app. apply andb_true_iff. Qed.

Definition num (e : env) (l : list bytes) : Prop :=
  forallb (fun x => match read_var e x with Ok _ => true | _ => false end) l = true.

(** the store is left alone, and the answers agree *)
Definition agrees (e : env) (a : aexpr) : Prop :=
  fst (eval_i e a) = e /\ fst (eval_c e a) = e /\ same_answer (val_i e a) (snd (eval_c e a)).

(* an inert operand evaluates to a number in both semantics *)
Lemma inert_ok a : forall e, inert a = true -> num e (reads a) ->
  exists v n, eval_i e a = (e, Ok v) /\ force e v = Ok n /\ eval_c e a = (e, Ok n).
Proof.
  induction a; intros e Hi Hn; cbn [inert] in Hi; try discriminate; cbn [eval_i eval_c reads] in *.
  - destruct (parse_int0 s) as [n|]; [|discriminate]. exists (VNum n), n. auto.
  - unfold num in Hn. cbn in Hn. destruct (read_var e x) as [n| | |] eqn:E; try discriminate.
    exists (VName x), n. cbn. rewrite E. auto.
  - apply IHa; assumption.
  - destruct (IHa e Hi Hn) as (v & n & E1 & E2 & E3). rewrite E1, E3. cbn. rewrite E2. cbn.
    exists (VNum (un o n)), (un o n). auto.
  - destruct o; try discriminate; apply andb_true_iff in Hi as [H1 H2]; apply numeric_app in Hn as [N1 N2];
      destruct (IHa1 e H1 N1) as (v1 & n1 & A1 & A2 & A3); destruct (IHa2 e H2 N2) as (v2 & n2 & B1 & B2 & B3);
      rewrite A1, A3; cbn; rewrite B1, B3; cbn; rewrite A2; cbn; rewrite B2; cbn; eexists _, _; repeat split.
  - apply andb_true_iff in Hi as [H1 H2]. apply numeric_app in Hn as [N1 N2].
    destruct (IHa1 e H1 N1) as (v1 & n1 & A1 & A2 & A3). destruct (IHa2 e H2 N2) as (v2 & n2 & B1 & B2 & B3).
    rewrite A1, A3. cbn. rewrite B1. cbn. rewrite A2. cbn. destruct (n1 =? 0).
    + eexists _, _. repeat split.
    + rewrite B3. cbn. rewrite B2. cbn. eexists _, _. repeat split.
  - apply andb_true_iff in Hi as [H1 H2]. apply numeric_app in Hn as [N1 N2].
    destruct (IHa1 e H1 N1) as (v1 & n1 & A1 & A2 & A3). destruct (IHa2 e H2 N2) as (v2 & n2 & B1 & B2 & B3).
    rewrite A1, A3. cbn. rewrite B1. cbn. rewrite A2. cbn. destruct (n1 =? 0).
    + rewrite B3. cbn. rewrite B2. cbn. eexists _, _. repeat split.
    + eexists _, _. repeat split.
  - apply andb_true_iff in Hi as [H12 H3]. apply andb_true_iff in H12 as [H1 H2].
    apply numeric_app in Hn as [N1 N23]. apply numeric_app in N23 as [N2 N3].
    destruct (IHa1 e H1 N1) as (v1 & n1 & A1 & A2 & A3). destruct (IHa2 e H2 N2) as (v2 & n2 & B1 & B2 & B3).
    destruct (IHa3 e H3 N3) as (v3 & n3 & C1 & C2 & C3).
    rewrite A1, A3. cbn. rewrite B1. cbn. rewrite C1. cbn. rewrite A2. cbn. destruct (n1 =? 0).
    + rewrite C2, C3. cbn. eexists _, _. repeat split.
    + rewrite B2, B3. cbn. eexists _, _. repeat split.
Qed.

Ltac res_cases H :=
  match type of H with
  | same_answer ?a ?b => destruct a, b; cbn in H; try contradiction
  end.

(** On expressions without assignments, on a store whose variables hold numbers, the evaluator
    leaves the store alone and answers as C does (the same value, or both fail), provided the
    operands C may skip are inert ([eager_safe]: the complement of known finding F11). *)
Theorem pure_refines_C a : forall e, pure a = true -> eager_safe a = true -> num e (reads a) -> agrees e a.
Proof.
  unfold agrees, val_i.
  induction a; intros e Hp Hs Hn; cbn [pure eager_safe] in Hp, Hs; try discriminate; cbn [eval_i eval_c reads] in *.
  - destruct (parse_int0 s); cbn; auto.
  - unfold num in Hn. cbn in Hn. cbn. destruct (read_var e x); try discriminate; cbn; auto.
  - apply IHa; assumption.
  - destruct (IHa e Hp Hs Hn) as (E1 & E2 & E3).
    destruct (eval_i e a) as [ei ri]. destruct (eval_c e a) as [ec rc]. cbn in E1, E2. subst ei ec.
    destruct ri as [v| | |]; cbn in *.
    + destruct (force e v) as [n| | |]; cbn in *; destruct rc; cbn in *; try contradiction; subst; auto.
    + destruct rc; cbn in *; try contradiction; auto.
    + destruct rc; cbn in *; try contradiction; auto.
    + destruct rc; cbn in *; try contradiction; auto.
  - apply andb_true_iff in Hp as [P1 P2]. apply andb_true_iff in Hs as [S1 S2]. apply numeric_app in Hn as [N1 N2].
    destruct (IHa1 e P1 S1 N1) as (A1 & A2 & A3). destruct (IHa2 e P2 S2 N2) as (B1 & B2 & B3).
    destruct (eval_i e a1) as [ei1 ri1]. destruct (eval_c e a1) as [ec1 rc1]. cbn in A1, A2. subst ei1 ec1.
    destruct ri1 as [v1| | |], rc1 as [m1| | |]; cbn in *; try contradiction; auto;
      set (X2 := eval_i e a2) in *; set (Y2 := eval_c e a2) in *; destruct X2 as [ei2 ri2]; destruct Y2 as [ec2 rc2]; cbn in B1, B2; subst ei2 ec2;
      destruct ri2 as [v2| | |], rc2 as [m2| | |]; cbn in *; try contradiction; auto;
      repeat match goal with
             | |- context [force e ?v] => destruct (force e v) eqn:?; cbn in *; try contradiction; subst; auto
             | |- context [calc o ?x ?y] => destruct (calc o x y); cbn; auto
             end.
  - (* && : the right operand is inert *)
    apply andb_true_iff in Hp as [P1 P2]. apply andb_true_iff in Hs as [S1 S2]. apply numeric_app in Hn as [N1 N2].
    destruct (IHa1 e P1 S1 N1) as (A1 & A2 & A3). destruct (inert_ok a2 e S2 N2) as (v2 & n2 & B1 & B2 & B3).
    destruct (eval_i e a1) as [ei1 ri1]. destruct (eval_c e a1) as [ec1 rc1]. cbn in A1, A2. subst ei1 ec1.
    destruct ri1 as [v1| | |], rc1 as [m1| | |]; cbn in *; try contradiction; auto;
      rewrite ?B1, ?B3; cbn;
      repeat match goal with
             | |- context [force e v2] => rewrite B2; cbn
             | |- context [force e ?v] => destruct (force e v) eqn:?; cbn in *; try contradiction; subst; auto
             | |- context [?x =? 0] => destruct (x =? 0); cbn; auto
             end.
  - (* || *)
    apply andb_true_iff in Hp as [P1 P2]. apply andb_true_iff in Hs as [S1 S2]. apply numeric_app in Hn as [N1 N2].
    destruct (IHa1 e P1 S1 N1) as (A1 & A2 & A3). destruct (inert_ok a2 e S2 N2) as (v2 & n2 & B1 & B2 & B3).
    destruct (eval_i e a1) as [ei1 ri1]. destruct (eval_c e a1) as [ec1 rc1]. cbn in A1, A2. subst ei1 ec1.
    destruct ri1 as [v1| | |], rc1 as [m1| | |]; cbn in *; try contradiction; auto;
      rewrite ?B1, ?B3; cbn;
      repeat match goal with
             | |- context [force e v2] => rewrite B2; cbn
             | |- context [force e ?v] => destruct (force e v) eqn:?; cbn in *; try contradiction; subst; auto
             | |- context [?x =? 0] => destruct (x =? 0); cbn; auto
             end.
  - (* ?: *)
    apply andb_true_iff in Hp as [P12 P3]. apply andb_true_iff in P12 as [P1 P2].
    apply andb_true_iff in Hs as [S12 S3]. apply andb_true_iff in S12 as [S1 S2].
    apply numeric_app in Hn as [N1 N23]. apply numeric_app in N23 as [N2 N3].
    destruct (IHa1 e P1 S1 N1) as (A1 & A2 & A3).
    destruct (inert_ok a2 e S2 N2) as (v2 & n2 & B1 & B2 & B3). destruct (inert_ok a3 e S3 N3) as (v3 & n3 & C1 & C2 & C3).
    destruct (eval_i e a1) as [ei1 ri1]. destruct (eval_c e a1) as [ec1 rc1]. cbn in A1, A2. subst ei1 ec1.
    destruct ri1 as [v1| | |], rc1 as [m1| | |]; cbn in *; try contradiction; auto;
      rewrite ?B1; cbn; rewrite ?C1; cbn;
      repeat match goal with
             | |- context [force e v1] => destruct (force e v1) eqn:?; cbn in *; try contradiction; subst; auto
             | |- context [?x =? 0] => destruct (x =? 0); cbn; rewrite ?B2, ?B3, ?C2, ?C3; cbn; auto
             end.
Qed.

(** the same for the start rule (the pending name of the whole expression is read at the end) *)
Corollary pure_refines_C_top a e :
  pure a = true -> eager_safe a = true -> numeric_store e a = true ->
  fst (eval_top_i e a) = e /\ fst (eval_c e a) = e /\ same_answer (snd (eval_top_i e a)) (snd (eval_c e a)).
Proof.
  intros Hp Hs Hn. destruct (pure_refines_C a e Hp Hs Hn) as (H1 & H2 & H3).
  unfold eval_top_i, val_i in *. destruct (eval_i e a) as [e' [v| | |]]; cbn in *; subst; auto.
Qed.
