(** Frame properties of arithmetic evaluation: only the variables under assignment, increment
    and decrement operators can change; Args and Opts never change. *)
From GoSh Require Import Base.Bytes Base.Outcome Store.Env Store.EnvSpec Arith.ASyntax Arith.AEval.
From Coq Require Import Lia.
Local Open Scope Z_scope.

(** [same_except xs e e']: e' differs from e at most at the names in xs *)
Definition same_except (xs : list bytes) (e e' : env) : Prop :=
  args e' = args e /\ opts e' = opts e /\ pid e' = pid e /\
  forall k, ~ In k xs -> abs e' k = abs e k.

Lemma same_except_refl xs e : same_except xs e e.
Proof. unfold same_except; auto. Qed.

Lemma same_except_trans xs ys e1 e2 e3 :
  same_except xs e1 e2 -> same_except ys e2 e3 -> same_except (xs ++ ys) e1 e3.
Proof.
  intros (A1 & O1 & P1 & H1) (A2 & O2 & P2 & H2). unfold same_except.
  repeat split; try congruence. intros k Hk. rewrite H2, H1; auto; intros H; apply Hk, in_or_app; auto.
Qed.

Lemma same_except_weaken xs ys e e' :
  (forall k, In k xs -> In k ys) -> same_except xs e e' -> same_except ys e e'.
Proof. intros Hs (A & O & P & H). unfold same_except. repeat split; auto. Qed.

Lemma write_var_frame e x n : same_except [x] e (write_var e x n).
Proof.
  unfold write_var. destruct (set_frame e x (itoa n)) as (A & O & P).
  unfold same_except. repeat split; auto.
  intros k Hk. rewrite abs_set. unfold spec_set. destruct (reserved x); [reflexivity|].
  destruct (beqb k x) eqn:E; [|reflexivity]. apply beqb_eq in E. subst. exfalso. apply Hk. left. reflexivity.
Qed.

(** what eval_i returns for an lvalue operand *)
Lemma eval_i_name e a e' x : eval_i e a = (e', Ok (VName x)) -> lval a = Some x /\ e' = e.
Proof.
  revert e e' x. induction a; intros e e' x0 H; cbn in H; try discriminate.
  - destruct (parse_int0 s); inversion H.
  - inversion H; subst. auto.
  - cbn. apply IHa. exact H.
  - destruct (eval_i e a) as [e1 [v| | |]]; cbn in H; try discriminate. destruct v; cbn in H; try discriminate.
    destruct (read_var e1 x); cbn in H; inversion H.
  - destruct (eval_i e a) as [e1 [v| | |]]; cbn in H; try discriminate. destruct v; cbn in H; try discriminate.
    destruct (read_var e1 x); cbn in H; inversion H.
  - destruct (eval_i e a) as [e1 [v| | |]]; cbn in H; try discriminate. destruct v; cbn in H; try discriminate.
    destruct (read_var e1 x); cbn in H; inversion H.
  - destruct (eval_i e a) as [e1 [v| | |]]; cbn in H; try discriminate. destruct v; cbn in H; try discriminate.
    destruct (read_var e1 x); cbn in H; inversion H.
  - destruct (eval_i e a) as [e1 [v| | |]]; cbn in H; try discriminate.
    destruct (force e1 v); cbn in H; inversion H.
  - destruct (eval_i e a1) as [e1 [v1| | |]]; cbn in H; try discriminate.
    destruct (eval_i e1 a2) as [e2 [v2| | |]]; cbn in H; try discriminate.
    destruct (force e2 v1); cbn in H; try discriminate. destruct (force e2 v2); cbn in H; try discriminate.
    destruct (calc o a a0); cbn in H; inversion H.
  - destruct (eval_i e a1) as [e1 [v1| | |]]; cbn in H; try discriminate.
    destruct (eval_i e1 a2) as [e2 [v2| | |]]; cbn in H; try discriminate.
    destruct (force e2 v1); cbn in H; try discriminate. destruct (a =? 0); [inversion H|].
    destruct (force e2 v2); cbn in H; inversion H.
  - destruct (eval_i e a1) as [e1 [v1| | |]]; cbn in H; try discriminate.
    destruct (eval_i e1 a2) as [e2 [v2| | |]]; cbn in H; try discriminate.
    destruct (force e2 v1); cbn in H; try discriminate. destruct (a =? 0); [|inversion H].
    destruct (force e2 v2); cbn in H; inversion H.
  - destruct (eval_i e a1) as [e1 [v1| | |]]; cbn in H; try discriminate.
    destruct (eval_i e1 a2) as [e2 [v2| | |]]; cbn in H; try discriminate.
    destruct (eval_i e2 a3) as [e3 [v3| | |]]; cbn in H; try discriminate.
    destruct (force e3 v1); cbn in H; try discriminate.
    destruct (force e3 (if a =? 0 then v3 else v2)); cbn in H; inversion H.
  - destruct (eval_i e a1) as [e1 [v1| | |]]; cbn in H; try discriminate.
    destruct (eval_i e1 a2) as [e2 [v2| | |]]; cbn in H; try discriminate.
    destruct v1; try discriminate. destruct o.
    + destruct (force e2 (VName x)); cbn in H; try discriminate. destruct (force e2 v2); cbn in H; try discriminate.
      destruct (calc b a a0); cbn in H; inversion H.
    + destruct (force e2 v2); cbn in H; inversion H.
Qed.

Ltac frame_step H :=
  match type of H with
  | context [eval_i ?e ?a] => fail
  | _ => idtac
  end.

Lemma incdec_frame e v d post x : (forall y, v = VName y -> y = x) ->
  same_except [x] e (fst (incdec e v d post)).
Proof.
  intros Hv. destruct v as [n|y]; cbn; [apply same_except_refl|].
  rewrite (Hv y eq_refl). destruct (read_var e x); cbn; try apply same_except_refl. apply write_var_frame.
Qed.

(** Evaluation changes the store only at the names under assignment / increment / decrement
    operators ([mods]); Args, Opts and the pid oracle are untouched. *)
Theorem eval_i_frame a : forall e, same_except (mods a) e (fst (eval_i e a)).
Proof.
  induction a; intros e; cbn [eval_i mods].
  - destruct (parse_int0 s); apply same_except_refl.
  - apply same_except_refl.
  - apply IHa.
  - pose proof (IHa e) as H. destruct (eval_i e a) as [e1 [v| | |]] eqn:E; cbn [abind fst] in *;
      try (eapply same_except_weaken; [|exact H]; intros k Hk; apply in_or_app; auto).
    destruct v as [n|y].
    + cbn. eapply same_except_weaken; [|exact H]. intros k Hk; apply in_or_app; auto.
    + apply eval_i_name in E as [El ->]. rewrite El. cbn [app].
      eapply same_except_weaken; [|eapply same_except_trans; [exact H|apply (incdec_frame e (VName y) 1 true y); intros ? [= ->]; reflexivity]].
      intros k Hk. apply in_app_or in Hk as [Hk|Hk]; [right; exact Hk|]. destruct Hk as [<-|[]]. left. reflexivity.
  - pose proof (IHa e) as H. destruct (eval_i e a) as [e1 [v| | |]] eqn:E; cbn [abind fst] in *;
      try (eapply same_except_weaken; [|exact H]; intros k Hk; apply in_or_app; auto).
    destruct v as [n|y].
    + cbn. eapply same_except_weaken; [|exact H]. intros k Hk; apply in_or_app; auto.
    + apply eval_i_name in E as [El ->]. rewrite El. cbn [app].
      eapply same_except_weaken; [|eapply same_except_trans; [exact H|apply (incdec_frame e (VName y) (-1) true y); intros ? [= ->]; reflexivity]].
      intros k Hk. apply in_app_or in Hk as [Hk|Hk]; [right; exact Hk|]. destruct Hk as [<-|[]]. left. reflexivity.
  - pose proof (IHa e) as H. destruct (eval_i e a) as [e1 [v| | |]] eqn:E; cbn [abind fst] in *;
      try (eapply same_except_weaken; [|exact H]; intros k Hk; apply in_or_app; auto).
    destruct v as [n|y].
    + cbn. eapply same_except_weaken; [|exact H]. intros k Hk; apply in_or_app; auto.
    + apply eval_i_name in E as [El ->]. rewrite El. cbn [app].
      eapply same_except_weaken; [|eapply same_except_trans; [exact H|apply (incdec_frame e (VName y) 1 false y); intros ? [= ->]; reflexivity]].
      intros k Hk. apply in_app_or in Hk as [Hk|Hk]; [right; exact Hk|]. destruct Hk as [<-|[]]. left. reflexivity.
  - pose proof (IHa e) as H. destruct (eval_i e a) as [e1 [v| | |]] eqn:E; cbn [abind fst] in *;
      try (eapply same_except_weaken; [|exact H]; intros k Hk; apply in_or_app; auto).
    destruct v as [n|y].
    + cbn. eapply same_except_weaken; [|exact H]. intros k Hk; apply in_or_app; auto.
    + apply eval_i_name in E as [El ->]. rewrite El. cbn [app].
      eapply same_except_weaken; [|eapply same_except_trans; [exact H|apply (incdec_frame e (VName y) (-1) false y); intros ? [= ->]; reflexivity]].
      intros k Hk. apply in_app_or in Hk as [Hk|Hk]; [right; exact Hk|]. destruct Hk as [<-|[]]. left. reflexivity.
  - pose proof (IHa e) as H. destruct (eval_i e a) as [e1 [v| | |]]; cbn [abind fst] in *; try exact H.
    destruct (force e1 v); cbn; exact H.
  - pose proof (IHa1 e) as H1. destruct (eval_i e a1) as [e1 [v1| | |]]; cbn [abind fst] in *;
      try (eapply same_except_weaken; [|exact H1]; intros k Hk; apply in_or_app; auto).
    pose proof (IHa2 e1) as H2. pose proof (same_except_trans _ _ _ _ _ H1 H2) as H.
    destruct (eval_i e1 a2) as [e2 [v2| | |]]; cbn [abind fst] in *; try exact H.
    destruct (force e2 v1); cbn; try exact H. destruct (force e2 v2); cbn; try exact H.
    destruct (calc o a a0); cbn; exact H.
  - pose proof (IHa1 e) as H1. destruct (eval_i e a1) as [e1 [v1| | |]]; cbn [abind fst] in *;
      try (eapply same_except_weaken; [|exact H1]; intros k Hk; apply in_or_app; auto).
    pose proof (IHa2 e1) as H2. pose proof (same_except_trans _ _ _ _ _ H1 H2) as H.
    destruct (eval_i e1 a2) as [e2 [v2| | |]]; cbn [abind fst] in *; try exact H.
    destruct (force e2 v1); cbn; try exact H. destruct (a =? 0); cbn; try exact H.
    destruct (force e2 v2); cbn; exact H.
  - pose proof (IHa1 e) as H1. destruct (eval_i e a1) as [e1 [v1| | |]]; cbn [abind fst] in *;
      try (eapply same_except_weaken; [|exact H1]; intros k Hk; apply in_or_app; auto).
    pose proof (IHa2 e1) as H2. pose proof (same_except_trans _ _ _ _ _ H1 H2) as H.
    destruct (eval_i e1 a2) as [e2 [v2| | |]]; cbn [abind fst] in *; try exact H.
    destruct (force e2 v1); cbn; try exact H. destruct (a =? 0); cbn; try exact H.
    destruct (force e2 v2); cbn; exact H.
  - pose proof (IHa1 e) as H1. destruct (eval_i e a1) as [e1 [v1| | |]]; cbn [abind fst] in *;
      try (eapply same_except_weaken; [|exact H1]; intros k Hk; apply in_or_app; auto).
    pose proof (IHa2 e1) as H2. pose proof (same_except_trans _ _ _ _ _ H1 H2) as H12.
    destruct (eval_i e1 a2) as [e2 [v2| | |]]; cbn [abind fst] in *;
      try (eapply same_except_weaken; [|exact H12]; intros k Hk; rewrite app_assoc; apply in_or_app; auto).
    pose proof (IHa3 e2) as H3. pose proof (same_except_trans _ _ _ _ _ H12 H3) as H. rewrite <- app_assoc in H.
    destruct (eval_i e2 a3) as [e3 [v3| | |]]; cbn [abind fst] in *; try exact H.
    destruct (force e3 v1); cbn; try exact H.
    destruct (force e3 (if a =? 0 then v3 else v2)); cbn; exact H.
  - pose proof (IHa1 e) as H1. destruct (eval_i e a1) as [e1 [v1| | |]] eqn:E1; cbn [abind fst] in *;
      try (eapply same_except_weaken; [|exact H1]; intros k Hk; apply in_or_app; right; apply in_or_app; auto).
    pose proof (IHa2 e1) as H2. pose proof (same_except_trans _ _ _ _ _ H1 H2) as H.
    assert (Hw : same_except ((match lval a1 with Some x => [x] | None => [] end) ++ mods a1 ++ mods a2) e (fst (eval_i e1 a2)))
      by (eapply same_except_weaken; [|exact H]; intros k Hk; apply in_or_app; auto).
    destruct (eval_i e1 a2) as [e2 [v2| | |]]; cbn [abind fst] in *; try exact Hw.
    destruct v1 as [n|x]; [exact Hw|].
    apply eval_i_name in E1 as [El ->]. rewrite El in *. cbn [app] in *.
    assert (Hfin : forall n, same_except (x :: mods a1 ++ mods a2) e (write_var e2 x n)).
    { intros n. eapply same_except_weaken; [|eapply same_except_trans; [exact H|apply write_var_frame]].
      intros k Hk. apply in_app_or in Hk as [Hk|Hk]; [right; exact Hk|]. destruct Hk as [<-|[]]. left. reflexivity. }
    destruct o.
    + destruct (force e2 (VName x)); cbn; try exact Hw. destruct (force e2 v2); cbn; try exact Hw.
      destruct (calc b a a0); cbn; try exact Hw. apply Hfin.
    + destruct (force e2 v2); cbn; try exact Hw. apply Hfin.
Qed.
