(** Evaluation of arithmetic expressions.
    [eval_i]: model of the rule actions of interp/arith.go.y (values computed bottom-up while
    parsing, operands of && || ?: all evaluated, lazy variable lookup through expr{n,s}),
    after the repairs (nothing is evaluated after the first fault).
    [eval_c]: C semantics (short-circuit, immediate reads).  Executable; no proofs. *)
From GoSh Require Import Base.Bytes Base.Outcome Store.Env Arith.ASyntax.
Open Scope Z_scope.

Inductive akind := KInvalidNumber | KLValue | KDivZero | KNegShift | KSyntax.

(** * 64-bit signed arithmetic of Go's int *)
Definition two63 : Z := 9223372036854775808.
Definition two64 : Z := 18446744073709551616.
Definition wrap64 (z : Z) : Z := ((z + two63) mod two64) - two63.

(** * strconv.ParseInt(s, 0, 0) *)
Definition lower (b : N) : N := if ((65 <=? b) && (b <=? 90))%N then (b + 32)%N else b.

Definition digit_val (b : N) : option Z :=
  if ((48 <=? b) && (b <=? 57))%N then Some (Z.of_N b - 48)
  else let l := lower b in
       if ((97 <=? l) && (l <=? 122))%N then Some (Z.of_N l - 97 + 10) else None.

(* underscoreOK of strconv, on the string without sign *)
Inductive saw := SawStart | SawDigit | SawUnderscore | SawOther.
Fixpoint underscore_loop (hex : bool) (s : bytes) (st : saw) : bool :=
  match s with
  | [] => match st with SawUnderscore => false | _ => true end
  | c :: s' =>
    let isdig := (((48 <=? c) && (c <=? 57)) || (hex && (97 <=? lower c) && (lower c <=? 102)))%N in
    if isdig then underscore_loop hex s' SawDigit
    else if (c =? 95)%N then
      match st with SawDigit => underscore_loop hex s' SawUnderscore | _ => false end
    else match st with
         | SawUnderscore => false
         | _ => underscore_loop hex s' SawOther
         end
  end.
Definition underscore_ok (s : bytes) : bool :=
  let s := match s with c :: t => if ((c =? 45) || (c =? 43))%N then t else s | [] => s end in
  match s with
  | 48%N :: c :: t =>
    let l := lower c in
    if ((l =? 98) || (l =? 111) || (l =? 120))%N then underscore_loop (l =? 120)%N t SawDigit
    else underscore_loop false s SawStart
  | _ => underscore_loop false s SawStart
  end.

(* digits in [base]; base0 allows underscores; None = syntax error; value may exceed 2^64 (range checked later) *)
Fixpoint digits_val (base : Z) (base0 : bool) (s : bytes) (acc : Z) (und : bool) : option (Z * bool) :=
  match s with
  | [] => Some (acc, und)
  | c :: s' =>
    if ((c =? 95)%N && base0) then digits_val base base0 s' acc true
    else match digit_val c with
         | Some d => if d <? base then digits_val base base0 s' (Z.min (acc * base + d) (two64 * 16)) und else None
         | None => None
         end
  end.

Definition parse_uint0 (s : bytes) : option Z :=   (* None: syntax or range error *)
  match s with
  | [] => None
  | _ =>
    let '(base, body) :=
      match s with
      | 48%N :: c :: t =>
        match t with
        | _ :: _ =>
          let l := lower c in
          if (l =? 98)%N then (2, t) else if (l =? 111)%N then (8, t) else if (l =? 120)%N then (16, t) else (8, c :: t)
        | [] => (8, c :: t)
        end
      | 48%N :: t => (8, t)
      | _ => (10, s)
      end in
    match digits_val base true body 0 false with
    | Some (v, und) =>
      if und && negb (underscore_ok s) then None
      else if v <? two64 then Some v else None
    | None => None
    end
  end.

Definition parse_int0 (s : bytes) : option Z :=
  match s with
  | [] => None
  | c :: t =>
    let '(neg, body) := if (c =? 43)%N then (false, t) else if (c =? 45)%N then (true, t) else (false, s) in
    match parse_uint0 body with
    | Some u =>
      if neg then (if u <=? two63 then Some (- u) else None)
      else (if u <? two63 then Some u else None)
    | None => None
    end
  end.

(** * Operators on int *)
Definition go_quot (a b : Z) : Z := wrap64 (Z.quot a b).
Definition go_rem (a b : Z) : Z := Z.rem a b.

Definition calc (o : binop) (l r : Z) : outcome Z akind :=
  match o with
  | Mul => Ok (wrap64 (l * r))
  | Div => if r =? 0 then Err KDivZero else Ok (go_quot l r)
  | Mod => if r =? 0 then Err KDivZero else Ok (go_rem l r)
  | Add => Ok (wrap64 (l + r))
  | Sub => Ok (wrap64 (l - r))
  | Shl => if r <? 0 then Err KNegShift else if 64 <=? r then Ok 0 else Ok (wrap64 (Z.shiftl l r))
  | Shr => if r <? 0 then Err KNegShift else if 64 <=? r then Ok (if l <? 0 then -1 else 0) else Ok (Z.shiftr l r)
  | BAnd => Ok (Z.land l r)
  | BXor => Ok (Z.lxor l r)
  | BOr => Ok (Z.lor l r)
  | Lt => Ok (if l <? r then 1 else 0)
  | Gt => Ok (if r <? l then 1 else 0)
  | Le => Ok (if l <=? r then 1 else 0)
  | Ge => Ok (if r <=? l then 1 else 0)
  | Eq => Ok (if l =? r then 1 else 0)
  | Ne => Ok (if l =? r then 0 else 1)
  end.

Definition un (o : unop) (n : Z) : Z :=
  match o with
  | UPlus => n
  | UMinus => wrap64 (- n)
  | UCompl => Z.lnot n
  | UNot => if n =? 0 then 1 else 0
  end.

(** * Variable access through the store model (Env.get / Env.set_var) *)
Definition read_var (e : env) (x : bytes) : outcome Z akind :=
  match get e x with
  | Ok (_, v, set) =>
    if negb set || beqb v [] then Ok 0
    else match parse_int0 v with Some n => Ok n | None => Err KInvalidNumber end
  | _ => Panic 375
  end.

Definition write_var (e : env) (x : bytes) (n : Z) : env := set_var e x (itoa n).

(** * The implementation's evaluation: pending names *)
Inductive aval := VNum (n : Z) | VName (x : bytes).

Definition force (e : env) (v : aval) : outcome Z akind :=
  match v with VNum n => Ok n | VName x => read_var e x end.

Definition ares (T : Type) := (env * outcome T akind)%type.
Definition abind {T U} (m : ares T) (f : env -> T -> ares U) : ares U :=
  match m with
  | (e, Ok t) => f e t
  | (e, Err k) => (e, Err k)
  | (e, Panic s) => (e, Panic s)
  | (e, OutOfFuel) => (e, OutOfFuel)
  end.
Definition alift {T} (e : env) (o : outcome T akind) : ares T := (e, o).

Definition incdec (e : env) (v : aval) (d : Z) (post : bool) : ares aval :=
  match v with
  | VNum _ => (e, Err KLValue)
  | VName x =>
    abind (alift e (read_var e x)) (fun e n =>
      let n' := wrap64 (n + d) in
      (write_var e x n', Ok (VNum (if post then n else n'))))
  end.

Fixpoint eval_i (e : env) (a : aexpr) : ares aval :=
  match a with
  | ENum s => match parse_int0 s with Some n => (e, Ok (VNum n)) | None => (e, Err KInvalidNumber) end
  | EVar x => (e, Ok (VName x))
  | EParen a' => eval_i e a'
  | EPostInc a' => abind (eval_i e a') (fun e v => incdec e v 1 true)
  | EPostDec a' => abind (eval_i e a') (fun e v => incdec e v (-1) true)
  | EPreInc a' => abind (eval_i e a') (fun e v => incdec e v 1 false)
  | EPreDec a' => abind (eval_i e a') (fun e v => incdec e v (-1) false)
  | EUn o a' => abind (eval_i e a') (fun e v => abind (alift e (force e v)) (fun e n => (e, Ok (VNum (un o n)))))
  | EBin o l r =>
    abind (eval_i e l) (fun e vl => abind (eval_i e r) (fun e vr =>
    abind (alift e (force e vl)) (fun e nl => abind (alift e (force e vr)) (fun e nr =>
    abind (alift e (calc o nl nr)) (fun e n => (e, Ok (VNum n)))))))
  | ELAnd l r =>
    abind (eval_i e l) (fun e vl => abind (eval_i e r) (fun e vr =>
    abind (alift e (force e vl)) (fun e nl =>
      if nl =? 0 then (e, Ok (VNum 0))
      else abind (alift e (force e vr)) (fun e nr => (e, Ok (VNum (if nr =? 0 then 0 else 1)))))))
  | ELOr l r =>
    abind (eval_i e l) (fun e vl => abind (eval_i e r) (fun e vr =>
    abind (alift e (force e vl)) (fun e nl =>
      if nl =? 0 then abind (alift e (force e vr)) (fun e nr => (e, Ok (VNum (if nr =? 0 then 0 else 1))))
      else (e, Ok (VNum 1)))))
  | ECond c a1 a2 =>
    abind (eval_i e c) (fun e vc => abind (eval_i e a1) (fun e v1 => abind (eval_i e a2) (fun e v2 =>
    abind (alift e (force e vc)) (fun e nc =>
      abind (alift e (force e (if nc =? 0 then v2 else v1))) (fun e n => (e, Ok (VNum n)))))))
  | EAssign o l r =>
    abind (eval_i e l) (fun e vl => abind (eval_i e r) (fun e vr =>
      match vl with
      | VNum _ => (e, Err KLValue)
      | VName x =>
        match o with
        | None => abind (alift e (force e vr)) (fun e n => (write_var e x n, Ok (VNum n)))
        | Some op =>
          abind (alift e (force e vl)) (fun e nl => abind (alift e (force e vr)) (fun e nr =>
          abind (alift e (calc op nl nr)) (fun e n => (write_var e x n, Ok (VNum n)))))
        end
      end))
  end.

(** the start rule: arith: expr { expand } *)
Definition eval_top_i (e : env) (a : aexpr) : ares Z :=
  abind (eval_i e a) (fun e v => alift e (force e v)).

(** Eval on source text *)
Definition runes_of (s : bytes) : list rune := map fst (decode_all s).
Definition eval_model (e : env) (src : bytes) : ares Z :=
  let rs := runes_of src in
  let ts := alex (S (length rs)) rs in
  match aparse (filter (fun t => match t with TBad _ => false | _ => true end) ts) with
  | Some a => if has_bad ts then (e, Err KSyntax) else eval_top_i e a
  | None => (e, Err KSyntax)
  end.

(** * C semantics *)
Fixpoint lval (a : aexpr) : option bytes :=
  match a with
  | EVar x => Some x
  | EParen a' => lval a'
  | _ => None
  end.

Definition c_incdec (e : env) (a : aexpr) (d : Z) (post : bool) : ares Z :=
  match lval a with
  | None => (e, Err KLValue)
  | Some x =>
    abind (alift e (read_var e x)) (fun e n =>
      let n' := wrap64 (n + d) in (write_var e x n', Ok (if post then n else n')))
  end.

Fixpoint eval_c (e : env) (a : aexpr) : ares Z :=
  match a with
  | ENum s => match parse_int0 s with Some n => (e, Ok n) | None => (e, Err KInvalidNumber) end
  | EVar x => alift e (read_var e x)
  | EParen a' => eval_c e a'
  | EPostInc a' => c_incdec e a' 1 true
  | EPostDec a' => c_incdec e a' (-1) true
  | EPreInc a' => c_incdec e a' 1 false
  | EPreDec a' => c_incdec e a' (-1) false
  | EUn o a' => abind (eval_c e a') (fun e n => (e, Ok (un o n)))
  | EBin o l r =>
    abind (eval_c e l) (fun e nl => abind (eval_c e r) (fun e nr => alift e (calc o nl nr)))
  | ELAnd l r =>
    abind (eval_c e l) (fun e nl =>
      if nl =? 0 then (e, Ok 0) else abind (eval_c e r) (fun e nr => (e, Ok (if nr =? 0 then 0 else 1))))
  | ELOr l r =>
    abind (eval_c e l) (fun e nl =>
      if nl =? 0 then abind (eval_c e r) (fun e nr => (e, Ok (if nr =? 0 then 0 else 1))) else (e, Ok 1))
  | ECond c a1 a2 =>
    abind (eval_c e c) (fun e nc => if nc =? 0 then eval_c e a2 else eval_c e a1)
  | EAssign o l r =>
    match lval l with
    | None => (e, Err KLValue)
    | Some x =>
      abind (eval_c e r) (fun e nr =>
        match o with
        | None => (write_var e x nr, Ok nr)
        | Some op =>
          abind (alift e (read_var e x)) (fun e nl =>
          abind (alift e (calc op nl nr)) (fun e n => (write_var e x n, Ok n)))
        end)
    end
  end.

(** * Syntactic classes used by the guards and by the finding classifier *)
Fixpoint mods (a : aexpr) : list bytes :=
  match a with
  | ENum _ | EVar _ => []
  | EParen a' | EUn _ a' => mods a'
  | EPostInc a' | EPostDec a' | EPreInc a' | EPreDec a' =>
    (match lval a' with Some x => [x] | None => [] end) ++ mods a'
  | EBin _ l r | ELAnd l r | ELOr l r => mods l ++ mods r
  | ECond c a1 a2 => mods c ++ mods a1 ++ mods a2
  | EAssign _ l r => (match lval l with Some x => [x] | None => [] end) ++ mods l ++ mods r
  end.

Fixpoint reads (a : aexpr) : list bytes :=
  match a with
  | ENum _ => []
  | EVar x => [x]
  | EParen a' | EUn _ a' | EPostInc a' | EPostDec a' | EPreInc a' | EPreDec a' => reads a'
  | EBin _ l r | ELAnd l r | ELOr l r | EAssign _ l r => reads l ++ reads r
  | ECond c a1 a2 => reads c ++ reads a1 ++ reads a2
  end.

Definition disjoint (a b : list bytes) : bool := forallb (fun x => negb (mem_bytes x b)) a.

(** no variable both modified and otherwise accessed between sequence points *)
Definition indep (l r : aexpr) : bool :=
  disjoint (mods l) (reads r ++ mods r) && disjoint (mods r) (reads l ++ mods l).

(** an operand whose evaluation can neither change the store nor fail (given a numeric store) *)
Fixpoint inert (a : aexpr) : bool :=
  match a with
  | ENum s => match parse_int0 s with Some _ => true | None => false end
  | EVar _ => true
  | EParen a' | EUn _ a' => inert a'
  | EBin o l r =>
    match o with Div | Mod | Shl | Shr => false | _ => inert l && inert r end
  | ELAnd l r | ELOr l r => inert l && inert r
  | ECond c a1 a2 => inert c && inert a1 && inert a2
  | _ => false
  end.

Fixpoint c_defined (a : aexpr) : bool :=
  match a with
  | ENum _ | EVar _ => true
  | EParen a' | EUn _ a' | EPostInc a' | EPostDec a' | EPreInc a' | EPreDec a' => c_defined a'
  | EBin _ l r => c_defined l && c_defined r && indep l r
  | ELAnd l r | ELOr l r => c_defined l && c_defined r
  | ECond c a1 a2 => c_defined c && c_defined a1 && c_defined a2
  | EAssign _ l r =>
    c_defined l && c_defined r && indep l r
    && match lval l with Some x => negb (mem_bytes x (mods r)) | None => true end
  end.

(** the operands C may skip are inert: the class on which eager evaluation is unobservable *)
Fixpoint eager_safe (a : aexpr) : bool :=
  match a with
  | ENum _ | EVar _ => true
  | EParen a' | EUn _ a' | EPostInc a' | EPostDec a' | EPreInc a' | EPreDec a' => eager_safe a'
  | EBin _ l r | EAssign _ l r => eager_safe l && eager_safe r
  | ELAnd l r | ELOr l r => eager_safe l && inert r
  | ECond c a1 a2 => eager_safe c && inert a1 && inert a2
  end.

(** every variable of the expression holds a number (or is unset/empty) *)
Definition numeric_store (e : env) (a : aexpr) : bool :=
  forallb (fun x => match read_var e x with Ok _ => true | _ => false end) (reads a).
