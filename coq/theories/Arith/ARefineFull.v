(** Refinement of C's semantics by the rule-action evaluator on every C-defined expression whose
    skipped operands are inert (the complement of known finding F11), assignments, compound
    assignments, increments and decrements included: same value, same store, and an error exactly
    when C's evaluation fails.  The evaluator delays the reading of variables ([VName]) and
    evaluates both operands of && || ?: ; independence of the operands ([c_defined]) makes the delay
    unobservable, and what is written can be read back ([parse_itoa]). *)
From GoSh Require Import Base.Bytes Base.Outcome Store.Env Store.EnvSpec Arith.ASyntax Arith.AEval Arith.AProofs Arith.ARefine Arith.ARoundTrip.
From Coq Require Import Lia ZifyBool.
Local Open Scope Z_scope.

(** * every value stays in the int64 range *)
Lemma wrap64_range n : in_range (wrap64 n).
Proof.
  unfold in_range, wrap64, two63, two64.
  pose proof (Z.mod_pos_bound (n + 9223372036854775808) 18446744073709551616 ltac:(lia)). lia.
Qed.

Lemma range_shiftr63 n : in_range n <-> (Z.shiftr n 63 = 0 \/ Z.shiftr n 63 = -1).
Proof.
  unfold in_range, two63. rewrite Z.shiftr_div_pow2 by lia. change (2 ^ 63) with 9223372036854775808.
  pose proof (Z.div_mod n 9223372036854775808 ltac:(lia)).
  pose proof (Z.mod_pos_bound n 9223372036854775808 ltac:(lia)). lia.
Qed.

Lemma bitop_range (f : Z -> Z -> Z) :
  (forall a b, Z.shiftr (f a b) 63 = f (Z.shiftr a 63) (Z.shiftr b 63)) ->
  f 0 0 = 0 \/ f 0 0 = -1 -> f 0 (-1) = 0 \/ f 0 (-1) = -1 -> f (-1) 0 = 0 \/ f (-1) 0 = -1 -> f (-1) (-1) = 0 \/ f (-1) (-1) = -1 ->
  forall a b, in_range a -> in_range b -> in_range (f a b).
Proof.
  intros Hs H00 H01 H10 H11 a b Ha Hb. apply range_shiftr63 in Ha, Hb. apply range_shiftr63. rewrite Hs.
  destruct Ha as [->| ->], Hb as [->| ->]; assumption.
Qed.

Lemma calc_range o l r n : in_range l -> in_range r -> calc o l r = Ok n -> in_range n.
Proof.
  intros Hl Hr H. destruct o; cbn [calc] in H;
    repeat match type of H with context [if ?c then _ else _] => destruct c eqn:? end;
    inversion H; subst; clear H;
    try apply wrap64_range; try (unfold in_range, two63; lia).
  - (* rem *) unfold go_rem, in_range, two63 in *. assert (r <> 0) by lia. pose proof (Z.rem_bound_abs l r ltac:(assumption)). lia.
  - (* shr *) unfold in_range, two63 in *. rewrite Z.shiftr_div_pow2 by lia.
    assert (0 < 2 ^ r) by (apply Z.pow_pos_nonneg; lia).
    pose proof (Z.div_mod l (2 ^ r) ltac:(lia)). pose proof (Z.mod_pos_bound l (2 ^ r) ltac:(lia)). nia.
  - apply (bitop_range Z.land); auto. intros; apply Z.shiftr_land.
  - apply (bitop_range Z.lxor); auto. intros; apply Z.shiftr_lxor.
  - apply (bitop_range Z.lor); auto. intros; apply Z.shiftr_lor.
Qed.

Lemma un_range o n : in_range n -> in_range (un o n).
Proof.
  intros H. destruct o; cbn [un]; [exact H|apply wrap64_range| |destruct (n =? 0); unfold in_range, two63; lia].
  unfold in_range, two63 in *. unfold Z.lnot. lia.
Qed.

Lemma digits_val_nonneg base b0 : 0 < base -> forall s acc u v u', 0 <= acc -> digits_val base b0 s acc u = Some (v, u') -> 0 <= v.
Proof.
  intros Hb. induction s as [|c s IH]; intros acc u v u' Ha H; cbn [digits_val] in H; [inversion H; subst; exact Ha|].
  destruct ((c =? 95)%N && b0); [eapply IH; eassumption|].
  destruct (digit_val c) as [d|] eqn:Ed; [|discriminate]. destruct (d <? base); [|discriminate].
  eapply IH; [|exact H].
  assert (0 <= d).
  { unfold digit_val in Ed. destruct ((48 <=? c)%N && (c <=? 57)%N) eqn:E1; [inversion Ed; lia|].
    destruct ((97 <=? lower c)%N && (lower c <=? 122)%N) eqn:E2; [inversion Ed; lia|discriminate]. }
  unfold two64. apply Z.min_glb; nia.
Qed.

Lemma parse_uint0_nonneg s v : parse_uint0 s = Some v -> 0 <= v < two64.
Proof.
  unfold parse_uint0. destruct s as [|c0 s0]; [discriminate|].
  match goal with |- context [let '(base, body) := ?e in _] => destruct e as [base body] eqn:Eb end.
  assert (Hb : 0 < base).
  { revert Eb. repeat match goal with |- context [match ?x with _ => _ end] => destruct x end; intros Eb; inversion Eb; lia. }
  destruct (digits_val base true body 0 false) as [[v' und]|] eqn:Ed; [|discriminate].
  destruct (und && negb (underscore_ok (c0 :: s0))); [discriminate|].
  destruct (v' <? two64) eqn:El; [|discriminate]. intros H; inversion H; subst.
  split; [eapply digits_val_nonneg; [exact Hb| |exact Ed]; lia|lia].
Qed.

Lemma parse_int0_range s n : parse_int0 s = Some n -> in_range n.
Proof.
  unfold parse_int0. destruct s as [|c t]; [discriminate|].
  match goal with |- context [let '(neg, body) := ?e in _] => destruct e as [neg body] end.
  destruct (parse_uint0 body) as [u|] eqn:Eu; [|discriminate]. apply parse_uint0_nonneg in Eu.
  unfold in_range. destruct neg.
  - destruct (u <=? two63) eqn:E; [|discriminate]. intros H; inversion H; subst. unfold two63 in *. lia.
  - destruct (u <? two63) eqn:E; [|discriminate]. intros H; inversion H; subst. unfold two63 in *. lia.
Qed.

Lemma read_var_range e x n : read_var e x = Ok n -> in_range n.
Proof.
  unfold read_var. destruct (get e x) as [[[k v] set]| | |]; try discriminate.
  destruct (negb set || beqb v []); [intros H; inversion H; unfold in_range, two63; lia|].
  destruct (parse_int0 v) eqn:E; [|discriminate]. intros H; inversion H; subst. eapply parse_int0_range; eassumption.
Qed.

(** * the store: what is written is read back, everything else is left alone *)
Lemma get_same xs e e' x : same_except xs e e' -> ~ In x xs -> get e' x = get e x.
Proof.
  intros (A & O & P & H) Hx. destruct (synthesised x) eqn:Es.
  - apply get_synth_indep; auto.
  - rewrite !get_ordinary by exact Es. rewrite (H x Hx). reflexivity.
Qed.

Lemma read_same xs e e' x : same_except xs e e' -> ~ In x xs -> read_var e' x = read_var e x.
Proof. intros H Hx. unfold read_var. rewrite (get_same xs e e' x H Hx). reflexivity. Qed.

Lemma read_write_same e x n : in_range n -> reserved x = false -> read_var (write_var e x n) x = Ok n.
Proof.
  intros Hr Hx. unfold read_var, write_var.
  assert (Es : synthesised x = false).
  { destruct (synthesised x) eqn:E; [|reflexivity]. apply synthesised_reserved in E. congruence. }
  rewrite get_ordinary by exact Es. rewrite abs_set. unfold spec_set. rewrite Hx, beqb_refl.
  cbn [negb orb]. pose proof (itoa_nonempty n) as Hne. destruct (beqb (itoa n) []) eqn:Eb; [apply beqb_eq in Eb; congruence|].
  rewrite (parse_itoa n Hr). reflexivity.
Qed.

Lemma read_write_other e x y n : y <> x -> read_var (write_var e x n) y = read_var e y.
Proof.
  intros Hy. apply (read_same [x]); [apply write_var_frame|]. intros [H|[]]. congruence.
Qed.

Definition readable (e : env) (x : bytes) : Prop := exists n, read_var e x = Ok n.

(* a store in which the variables of a list can be read stays so after a write of a number *)
Lemma readable_write e x n y : in_range n -> readable e y -> readable (write_var e x n) y.
Proof.
  intros Hr [m Hm]. destruct (list_eq_dec N.eq_dec y x) as [->|Hne].
  - destruct (reserved x) eqn:Er.
    + unfold write_var. rewrite set_reserved_id by exact Er. exists m. exact Hm.
    + exists n. apply read_write_same; assumption.
  - exists m. rewrite read_write_other by exact Hne. exact Hm.
Qed.

Lemma num_iff e l : num e l <-> forall x, In x l -> readable e x.
Proof.
  unfold num, readable. rewrite forallb_forall. split; intros H x Hx; specialize (H x Hx).
  - destruct (read_var e x) as [n| | |]; try discriminate. eauto.
  - destruct H as [n ->]. reflexivity.
Qed.

(** * lvalues *)
Lemma eval_i_lval a : forall e x, lval a = Some x -> eval_i e a = (e, Ok (VName x)).
Proof. induction a; intros e x0 H; cbn in H; try discriminate; [inversion H; reflexivity|apply IHa, H]. Qed.

Lemma eval_c_lval a : forall e x, lval a = Some x -> eval_c e a = (e, read_var e x).
Proof. induction a; intros e x0 H; cbn in H; try discriminate; [inversion H; reflexivity|apply IHa, H]. Qed.

Lemma lval_reads a : forall x, lval a = Some x -> In x (reads a).
Proof. induction a; intros x0 H; cbn in H; try discriminate; [inversion H; left; reflexivity|apply IHa, H]. Qed.

(** * C's values are in range *)
Lemma c_incdec_range e a d post e' n : c_incdec e a d post = (e', Ok n) -> in_range n.
Proof.
  unfold c_incdec. destruct (lval a) as [x|]; [|discriminate]. cbn.
  destruct (read_var e x) as [m| | |] eqn:E; cbn; try discriminate. intros H; inversion H; subst.
  destruct post; [eapply read_var_range; eassumption|apply wrap64_range].
Qed.

Lemma eval_c_range a : forall e e' n, eval_c e a = (e', Ok n) -> in_range n.
Proof.
  induction a; intros e e' n H; cbn [eval_c] in H.
  - destruct (parse_int0 s) eqn:E; inversion H; subst. eapply parse_int0_range; eassumption.
  - unfold alift in H. inversion H. eapply read_var_range; eassumption.
  - eapply IHa; eassumption.
  - eapply c_incdec_range; eassumption.
  - eapply c_incdec_range; eassumption.
  - eapply c_incdec_range; eassumption.
  - eapply c_incdec_range; eassumption.
  - destruct (eval_c e a) as [e1 [m| | |]] eqn:E; cbn in H; try discriminate. inversion H; subst. apply un_range. eapply IHa; eassumption.
  - destruct (eval_c e a1) as [e1 [m1| | |]] eqn:E1; cbn in H; try discriminate.
    destruct (eval_c e1 a2) as [e2 [m2| | |]] eqn:E2; cbn in H; try discriminate.
    unfold alift in H. inversion H. eapply calc_range; [eapply IHa1; eassumption|eapply IHa2; eassumption|eassumption].
  - destruct (eval_c e a1) as [e1 [m1| | |]] eqn:E1; cbn in H; try discriminate.
    destruct (m1 =? 0); [inversion H; unfold in_range, two63; lia|].
    destruct (eval_c e1 a2) as [e2 [m2| | |]] eqn:E2; cbn in H; try discriminate.
    inversion H. destruct (m2 =? 0); unfold in_range, two63; lia.
  - destruct (eval_c e a1) as [e1 [m1| | |]] eqn:E1; cbn in H; try discriminate.
    destruct (m1 =? 0); [|inversion H; unfold in_range, two63; lia].
    destruct (eval_c e1 a2) as [e2 [m2| | |]] eqn:E2; cbn in H; try discriminate.
    inversion H. destruct (m2 =? 0); unfold in_range, two63; lia.
  - destruct (eval_c e a1) as [e1 [m1| | |]] eqn:E1; cbn in H; try discriminate.
    destruct (m1 =? 0); [eapply IHa3|eapply IHa2]; eassumption.
  - destruct (lval a1) as [x|]; [|discriminate].
    destruct (eval_c e a2) as [e2 [m2| | |]] eqn:E2; cbn in H; try discriminate.
    destruct o as [op|].
    + destruct (read_var e2 x) as [ml| | |] eqn:Er; cbn in H; try discriminate.
      destruct (calc op ml m2) as [m| | |] eqn:Ec; cbn in H; try discriminate. inversion H; subst.
      eapply calc_range; [eapply read_var_range; eassumption|eapply IHa2; eassumption|eassumption].
    + inversion H; subst. eapply IHa2; eassumption.
Qed.

(** * the refinement *)
(* what the evaluator returns for an expression whose C value is n in the store ec *)
Definition agree (e : env) (a : aexpr) (ec : env) (n : Z) : Prop :=
  eval_i e a = (ec, Ok (VNum n)) \/
  exists x, eval_i e a = (ec, Ok (VName x)) /\ lval a = Some x /\ ec = e /\ read_var e x = Ok n.

Definition keeps_readable (e ec : env) : Prop := forall y, readable e y -> readable ec y.

Definition refines (e : env) (a : aexpr) : Prop :=
  match eval_c e a with
  | (ec, Ok n) => agree e a ec n /\ keeps_readable e ec
  | (_, Err _) => exists ei k, eval_i e a = (ei, Err k)
  | _ => False
  end.

Lemma agree_force e a ec n : agree e a ec n -> exists v, eval_i e a = (ec, Ok v) /\ force ec v = Ok n.
Proof.
  intros [H|(x & H & _ & -> & Hr)]; [exists (VNum n)|exists (VName x)]; split; auto.
Qed.

Lemma mem_bytes_In x l : mem_bytes x l = true <-> In x l.
Proof.
  induction l as [|y l IH]; cbn; [split; [discriminate|tauto]|].
  rewrite orb_true_iff, IH, beqb_eq. split; intros [H|H]; auto.
Qed.

Lemma disjoint_spec a b : disjoint a b = true -> forall x, In x a -> ~ In x b.
Proof.
  unfold disjoint. rewrite forallb_forall. intros H x Hx Hb. specialize (H x Hx).
  apply Bool.negb_true_iff in H. apply mem_bytes_In in Hb. congruence.
Qed.

(* a pending name of the left operand is still read the same after the right operand *)
Lemma agree_force_after e a ec n b e2 :
  agree e a ec n -> disjoint (mods b) (reads a ++ mods a) = true -> same_except (mods b) ec e2 ->
  exists v, eval_i e a = (ec, Ok v) /\ force e2 v = Ok n.
Proof.
  intros [H|(x & H & Hl & -> & Hr)] Hd Hs; [exists (VNum n); auto|].
  exists (VName x). split; [exact H|]. cbn [force]. rewrite (read_same (mods b) e e2 x Hs); [exact Hr|].
  intros Hin. apply (disjoint_spec _ _ Hd x Hin). apply in_or_app. left. apply lval_reads, Hl.
Qed.

Lemma refines_cases e a : refines e a ->
  (exists ec n v, eval_c e a = (ec, Ok n) /\ agree e a ec n /\ keeps_readable e ec /\ eval_i e a = (ec, Ok v) /\ force ec v = Ok n
                  /\ same_except (mods a) e ec) \/
  (exists ec k ei k', eval_c e a = (ec, Err k) /\ eval_i e a = (ei, Err k')).
Proof.
  unfold refines. destruct (eval_c e a) as [ec [n|k| |]] eqn:Ec; intros H; try contradiction.
  - left. destruct H as [Ha Hk]. destruct (agree_force _ _ _ _ Ha) as (v & Ev & Fv).
    exists ec, n, v. split; [reflexivity|]. split; [exact Ha|]. split; [exact Hk|]. split; [exact Ev|]. split; [exact Fv|].
    pose proof (eval_i_frame a e) as F. rewrite Ev in F. exact F.
  - right. destruct H as (ei & k' & Ei). exists ec, k, ei, k'. auto.
Qed.

Lemma keeps_trans a b c : keeps_readable a b -> keeps_readable b c -> keeps_readable a c.
Proof. unfold keeps_readable. auto. Qed.

Lemma keeps_refl a : keeps_readable a a.
Proof. unfold keeps_readable. auto. Qed.

Lemma keeps_write e x n : in_range n -> keeps_readable e (write_var e x n).
Proof. intros H y Hy. apply readable_write; assumption. Qed.

Lemma num_keeps e e' l : keeps_readable e e' -> num e l -> num e' l.
Proof. intros K H. apply num_iff. intros x Hx. apply K. apply (proj1 (num_iff e l) H x Hx). Qed.

Lemma num_app e l1 l2 : num e (l1 ++ l2) -> num e l1 /\ num e l2.
Proof. apply numeric_app. Qed.

Lemma num_read e l x : num e l -> In x l -> exists n, read_var e x = Ok n.
Proof. intros H Hx. apply (proj1 (num_iff e l) H x Hx). Qed.

Lemma calc_total o l r : (exists n, calc o l r = Ok n) \/ (exists k, calc o l r = Err k).
Proof. destruct o; cbn; repeat match goal with |- context [if ?c then _ else _] => destruct c end; eauto. Qed.

Lemma incdec_refines e a d post (Hd : d = 1 \/ d = -1) :
  (forall e, c_defined a = true -> eager_safe a = true -> num e (reads a) -> refines e a) ->
  c_defined a = true -> eager_safe a = true -> num e (reads a) ->
  match c_incdec e a d post with
  | (ec, Ok n) => (abind (eval_i e a) (fun e v => incdec e v d post) = (ec, Ok (VNum n))) /\ keeps_readable e ec
  | (_, Err _) => exists ei k, abind (eval_i e a) (fun e v => incdec e v d post) = (ei, Err k)
  | _ => False
  end.
Proof.
  intros IH Hc Hs Hn. unfold c_incdec. destruct (lval a) as [x|] eqn:El.
  - destruct (num_read e _ x Hn (lval_reads a x El)) as [n Hr].
    rewrite (eval_i_lval a e x El). cbn [abind incdec alift]. rewrite Hr. cbn [abind]. split; [reflexivity|].
    apply keeps_write, wrap64_range.
  - destruct (refines_cases e a (IH e Hc Hs Hn)) as [(ec & n & v & Ec & Ha & Hk & Ei & Fv & Fr)|(ec & k & ei & k' & Ec & Ei)].
    + destruct Ha as [Ha|(x & _ & Hl & _)]; [|congruence]. rewrite Ha. cbn. eauto.
    + rewrite Ei. cbn. eauto.
Qed.

Lemma split3 (a b c : bool) : a && b && c = true -> a = true /\ b = true /\ c = true.
Proof. intros H. apply andb_true_iff in H as [H H3]. apply andb_true_iff in H as [H1 H2]. auto. Qed.

Ltac err_i E := eexists; eexists; cbn [eval_i]; rewrite ?E; cbn [abind]; reflexivity.

Theorem refines_all a : forall e, c_defined a = true -> eager_safe a = true -> num e (reads a) -> refines e a.
Proof.
  induction a; intros e Hc Hs Hn; cbn [c_defined eager_safe reads] in Hc, Hs, Hn.
  - (* number *) unfold refines. cbn [eval_c]. destruct (parse_int0 s) as [n|] eqn:E.
    + split; [left; cbn [eval_i]; rewrite E; reflexivity|apply keeps_refl].
    + exists e, KInvalidNumber. cbn [eval_i]. rewrite E. reflexivity.
  - (* variable *) unfold refines. cbn [eval_c alift]. destruct (num_read e _ x Hn (or_introl eq_refl)) as [n Hr]. rewrite Hr.
    split; [right; exists x; cbn; auto|apply keeps_refl].
  - (* parentheses *) exact (IHa e Hc Hs Hn).
  - (* x++ *) pose proof (incdec_refines e a 1 true (or_introl eq_refl) IHa Hc Hs Hn) as H. unfold refines. cbn [eval_c].
    destruct (c_incdec e a 1 true) as [ec [n|k| |]]; try contradiction; [destruct H as [H1 H2]; split; [left; exact H1|exact H2]|exact H].
  - pose proof (incdec_refines e a (-1) true (or_intror eq_refl) IHa Hc Hs Hn) as H. unfold refines. cbn [eval_c].
    destruct (c_incdec e a (-1) true) as [ec [n|k| |]]; try contradiction; [destruct H as [H1 H2]; split; [left; exact H1|exact H2]|exact H].
  - pose proof (incdec_refines e a 1 false (or_introl eq_refl) IHa Hc Hs Hn) as H. unfold refines. cbn [eval_c].
    destruct (c_incdec e a 1 false) as [ec [n|k| |]]; try contradiction; [destruct H as [H1 H2]; split; [left; exact H1|exact H2]|exact H].
  - pose proof (incdec_refines e a (-1) false (or_intror eq_refl) IHa Hc Hs Hn) as H. unfold refines. cbn [eval_c].
    destruct (c_incdec e a (-1) false) as [ec [n|k| |]]; try contradiction; [destruct H as [H1 H2]; split; [left; exact H1|exact H2]|exact H].
  - (* unary *) unfold refines. cbn [eval_c].
    destruct (refines_cases e a (IHa e Hc Hs Hn)) as [(ec & n & v & Ec & Ha & Hk & Ei & Fv & Fr)|(ec & k & ei & k' & Ec & Ei)].
    + rewrite Ec. cbn [abind]. split; [|exact Hk]. left. cbn [eval_i]. rewrite Ei. cbn [abind alift]. rewrite Fv. reflexivity.
    + rewrite Ec. cbn [abind]. err_i Ei.
  - (* binary *) apply split3 in Hc as (Hc1 & Hc2 & Hi). apply andb_true_iff in Hs as [Hs1 Hs2]. apply num_app in Hn as [Hn1 Hn2].
    unfold indep in Hi. apply andb_true_iff in Hi as [_ Hd].
    unfold refines. cbn [eval_c].
    destruct (refines_cases e a1 (IHa1 e Hc1 Hs1 Hn1)) as [(e1 & nl & vl & Ec1 & Ha1 & Hk1 & Ei1 & Fv1 & Fr1)|(ec & k & ei & k' & Ec & Ei)];
      [|rewrite Ec; cbn [abind]; err_i Ei].
    rewrite Ec1. cbn [abind].
    destruct (refines_cases e1 a2 (IHa2 e1 Hc2 Hs2 (num_keeps _ _ _ Hk1 Hn2))) as [(e2 & nr & vr & Ec2 & Ha2 & Hk2 & Ei2 & Fv2 & Fr2)|(ec & k & ei & k' & Ec & Ei)];
      [|rewrite Ec; cbn [abind]; eexists; eexists; cbn [eval_i]; rewrite Ei1; cbn [abind]; rewrite Ei; reflexivity].
    rewrite Ec2. cbn [abind alift].
    destruct (agree_force_after e a1 e1 nl a2 e2 Ha1 Hd Fr2) as (vl' & Ei1' & Fl). rewrite Ei1 in Ei1'. inversion Ei1'; subst vl'.
    assert (Ei : eval_i e (EBin o a1 a2) = (e2, match calc o nl nr with Ok n => Ok (VNum n) | Err k => Err k | Panic p => Panic p | OutOfFuel => OutOfFuel end)).
    { cbn [eval_i]. rewrite Ei1. cbn [abind]. rewrite Ei2. cbn [abind alift]. rewrite Fl. cbn [abind]. rewrite Fv2. cbn [abind].
      destruct (calc o nl nr); reflexivity. }
    destruct (calc_total o nl nr) as [[n Hcalc]|[k Hcalc]]; rewrite Hcalc in Ei |- *.
    + split; [left; exact Ei|eapply keeps_trans; eassumption].
    + eauto.
  - (* && *) apply andb_true_iff in Hc as [Hc1 Hc2]. apply andb_true_iff in Hs as [Hs1 Hs2]. apply num_app in Hn as [Hn1 Hn2].
    unfold refines. cbn [eval_c].
    destruct (refines_cases e a1 (IHa1 e Hc1 Hs1 Hn1)) as [(e1 & nl & vl & Ec1 & Ha1 & Hk1 & Ei1 & Fv1 & Fr1)|(ec & k & ei & k' & Ec & Ei)];
      [|rewrite Ec; cbn [abind]; err_i Ei].
    rewrite Ec1. cbn [abind].
    destruct (inert_ok a2 e1 Hs2 (num_keeps _ _ _ Hk1 Hn2)) as (v2 & n2 & B1 & B2 & B3).
    destruct (nl =? 0) eqn:E0.
    + split; [|exact Hk1]. left. cbn [eval_i]. rewrite Ei1. cbn [abind]. rewrite B1. cbn [abind alift]. rewrite Fv1. cbn [abind]. rewrite E0. reflexivity.
    + rewrite B3. cbn [abind]. split; [|exact Hk1]. left. cbn [eval_i]. rewrite Ei1. cbn [abind]. rewrite B1. cbn [abind alift]. rewrite Fv1. cbn [abind]. rewrite E0, B2. reflexivity.
  - (* || *) apply andb_true_iff in Hc as [Hc1 Hc2]. apply andb_true_iff in Hs as [Hs1 Hs2]. apply num_app in Hn as [Hn1 Hn2].
    unfold refines. cbn [eval_c].
    destruct (refines_cases e a1 (IHa1 e Hc1 Hs1 Hn1)) as [(e1 & nl & vl & Ec1 & Ha1 & Hk1 & Ei1 & Fv1 & Fr1)|(ec & k & ei & k' & Ec & Ei)];
      [|rewrite Ec; cbn [abind]; err_i Ei].
    rewrite Ec1. cbn [abind].
    destruct (inert_ok a2 e1 Hs2 (num_keeps _ _ _ Hk1 Hn2)) as (v2 & n2 & B1 & B2 & B3).
    destruct (nl =? 0) eqn:E0.
    + rewrite B3. cbn [abind]. split; [|exact Hk1]. left. cbn [eval_i]. rewrite Ei1. cbn [abind]. rewrite B1. cbn [abind alift]. rewrite Fv1. cbn [abind]. rewrite E0, B2. reflexivity.
    + split; [|exact Hk1]. left. cbn [eval_i]. rewrite Ei1. cbn [abind]. rewrite B1. cbn [abind alift]. rewrite Fv1. cbn [abind]. rewrite E0. reflexivity.
  - (* ?: *) apply split3 in Hc as (Hc1 & Hc2 & Hc3). apply split3 in Hs as (Hs1 & Hs2 & Hs3).
    apply num_app in Hn as [Hn1 Hn23]. apply num_app in Hn23 as [Hn2 Hn3].
    unfold refines. cbn [eval_c].
    destruct (refines_cases e a1 (IHa1 e Hc1 Hs1 Hn1)) as [(e1 & nc & vc & Ec1 & Ha1 & Hk1 & Ei1 & Fv1 & Fr1)|(ec & k & ei & k' & Ec & Ei)];
      [|rewrite Ec; cbn [abind]; err_i Ei].
    rewrite Ec1. cbn [abind].
    destruct (inert_ok a2 e1 Hs2 (num_keeps _ _ _ Hk1 Hn2)) as (v2 & n2 & B1 & B2 & B3).
    destruct (inert_ok a3 e1 Hs3 (num_keeps _ _ _ Hk1 Hn3)) as (v3 & n3 & C1 & C2 & C3).
    destruct (nc =? 0) eqn:E0.
    + rewrite C3. split; [|exact Hk1]. left. cbn [eval_i]. rewrite Ei1. cbn [abind]. rewrite B1. cbn [abind]. rewrite C1. cbn [abind alift]. rewrite Fv1. cbn [abind]. rewrite E0, C2. reflexivity.
    + rewrite B3. split; [|exact Hk1]. left. cbn [eval_i]. rewrite Ei1. cbn [abind]. rewrite B1. cbn [abind]. rewrite C1. cbn [abind alift]. rewrite Fv1. cbn [abind]. rewrite E0, B2. reflexivity.
  - (* assignment *)
    apply andb_true_iff in Hc as [Hc Hx]. apply split3 in Hc as (Hc1 & Hc2 & Hi). apply andb_true_iff in Hs as [Hs1 Hs2]. apply num_app in Hn as [Hn1 Hn2].
    unfold refines. cbn [eval_c]. destruct (lval a1) as [x|] eqn:El.
    + destruct (refines_cases e a2 (IHa2 e Hc2 Hs2 Hn2)) as [(e2 & nr & vr & Ec2 & Ha2 & Hk2 & Ei2 & Fv2 & Fr2)|(ec & k & ei & k' & Ec & Ei)];
        [|rewrite Ec; cbn [abind]; eexists; eexists; cbn [eval_i]; rewrite (eval_i_lval a1 e x El); cbn [abind]; rewrite Ei; reflexivity].
      rewrite Ec2. cbn [abind]. pose proof (eval_c_range a2 e e2 nr Ec2) as Rr.
      destruct o as [op|].
      * destruct (num_read e _ x Hn1 (lval_reads a1 x El)) as [m0 Hr0].
        destruct (Hk2 x (ex_intro _ m0 Hr0)) as [ml Hrl].
        cbn [alift]. rewrite Hrl. cbn [abind alift].
        assert (Ei : eval_i e (EAssign (Some op) a1 a2) =
                     match calc op ml nr with Ok n => (write_var e2 x n, Ok (VNum n)) | Err k => (e2, Err k) | Panic p => (e2, Panic p) | OutOfFuel => (e2, OutOfFuel) end).
        { cbn [eval_i]. rewrite (eval_i_lval a1 e x El). cbn [abind]. rewrite Ei2. cbn [abind alift force]. rewrite Hrl. cbn [abind]. rewrite Fv2. cbn [abind].
          destruct (calc op ml nr); reflexivity. }
        destruct (calc_total op ml nr) as [[n Hcalc]|[k Hcalc]]; rewrite Hcalc in Ei |- *; cbn [abind alift]; [|eauto].
        split; [left; exact Ei|]. eapply keeps_trans; [exact Hk2|]. apply keeps_write.
        eapply calc_range; [eapply read_var_range; eassumption|exact Rr|exact Hcalc].
      * split.
        -- left. cbn [eval_i]. rewrite (eval_i_lval a1 e x El). cbn [abind]. rewrite Ei2. cbn [abind alift]. rewrite Fv2. reflexivity.
        -- eapply keeps_trans; [exact Hk2|]. apply keeps_write, Rr.
    + destruct (refines_cases e a1 (IHa1 e Hc1 Hs1 Hn1)) as [(e1 & nl & vl & Ec1 & Ha1 & Hk1 & Ei1 & Fv1 & Fr1)|(ec & k & ei & k' & Ec & Ei)];
        [|err_i Ei].
      destruct Ha1 as [Ha1|(x & _ & Hl & _)]; [|congruence].
      destruct (refines_cases e1 a2 (IHa2 e1 Hc2 Hs2 (num_keeps _ _ _ Hk1 Hn2))) as [(e2 & nr & vr & Ec2 & Ha2 & Hk2 & Ei2 & Fv2 & Fr2)|(ec & k & ei & k' & Ec & Ei)];
        eexists; eexists; cbn [eval_i]; rewrite Ha1; cbn [abind]; rewrite ?Ei2, ?Ei; cbn [abind]; reflexivity.
Qed.

(** the statement of the property on the model *)
Theorem refines_C a e : c_defined a = true -> eager_safe a = true -> numeric_store e a = true ->
  match eval_top_i e a, eval_c e a with
  | (e1, Ok n1), (e2, Ok n2) => n1 = n2 /\ forall k, abs e1 k = abs e2 k
  | (_, Err _), (_, Err _) => True
  | _, _ => False
  end.
Proof.
  intros Hc Hs Hn. unfold eval_top_i.
  destruct (refines_cases e a (refines_all a e Hc Hs Hn)) as [(ec & n & v & Ec & Ha & Hk & Ei & Fv & Fr)|(ec & k & ei & k' & Ec & Ei)].
  - rewrite Ec, Ei. cbn [abind alift]. rewrite Fv. split; reflexivity.
  - rewrite Ec, Ei. cbn [abind]. exact I.
Qed.
