(** Arithmetic expressions: tokens (interp/lexer.go), AST, tokenizer and parser for the
    productions of interp/arith.go.y.  Executable; no proofs. *)
From GoSh Require Import Base.Bytes.
Open Scope N_scope.

Inductive binop := Mul | Div | Mod | Add | Sub | Shl | Shr | Lt | Gt | Le | Ge | Eq | Ne | BAnd | BXor | BOr.
Inductive unop := UPlus | UMinus | UCompl | UNot.

Inductive atok :=
| TNum (s : bytes) | TId (s : bytes)
| TLParen | TRParen | TInc | TDec
| TUn (o : unop)                 (* ~ ! ; + and - are TBin Add / TBin Sub *)
| TBin (o : binop)
| TLAnd | TLOr | TQuest | TColon
| TAssign (o : option binop)
| TBad (r : rune).               (* lexError: a character that cannot start a token *)

Inductive aexpr :=
| ENum (s : bytes)
| EVar (x : bytes)
| EParen (e : aexpr)
| EPostInc (e : aexpr) | EPostDec (e : aexpr) | EPreInc (e : aexpr) | EPreDec (e : aexpr)
| EUn (o : unop) (e : aexpr)
| EBin (o : binop) (l r : aexpr)
| ELAnd (l r : aexpr) | ELOr (l r : aexpr)
| ECond (c a b : aexpr)
| EAssign (o : option binop) (l r : aexpr).

(** * Unicode classes used by the lexer: oracle on a declared universe, validated against Go's
    unicode tables by the harness (sub-command "unicode"). *)
Definition in_r (lo hi r : rune) : bool := (lo <=? r) && (r <=? hi).
Definition uni_universe (r : rune) : bool :=
  (r <? 256) || in_r 880 1023 r || in_r 1632 1641 r || in_r 19968 40959 r || (r =? 65533).
Definition is_letter (r : rune) : bool :=
  in_r 65 90 r || in_r 97 122 r
  || (r =? 170) || (r =? 181) || (r =? 186) || in_r 192 214 r || in_r 216 246 r || in_r 248 255 r
  || in_r 880 884 r || in_r 886 887 r || in_r 890 893 r || (r =? 895) || (r =? 902) || in_r 904 906 r || (r =? 908)
  || in_r 910 929 r || in_r 931 1013 r || in_r 1015 1023 r
  || in_r 19968 40959 r.
Definition is_udigit (r : rune) : bool := in_r 48 57 r || in_r 1632 1641 r.

(** * Tokenizer (lexToken / lexNumber / lexIdent / lexOp), on the runes ReadRune delivers *)
Definition is_dec (r : rune) : bool := in_r 48 57 r.
Definition is_alpha_ascii (r : rune) : bool := in_r 65 90 r || in_r 97 122 r.

Fixpoint span (p : rune -> bool) (s : list rune) : list rune * list rune :=
  match s with
  | c :: s' => if p c then let '(a, b) := span p s' in (c :: a, b) else ([], s)
  | [] => ([], [])
  end.

Definition lex_number (s : list rune) : list rune * list rune :=
  match s with
  | 48 :: c :: s' =>
    if (c =? 88) || (c =? 120) then
      let '(a, b) := span (fun r => is_dec r || is_alpha_ascii r) s' in (48 :: c :: a, b)
    else if is_dec c then let '(a, b) := span is_dec s' in (48 :: c :: a, b)
    else ([48], c :: s')
  | c :: s' => let '(a, b) := span is_dec s' in (c :: a, b)
  | [] => ([], [])
  end.

Definition lex_op (s : list rune) : option (atok * list rune) :=
  match s with
  | 40 :: t => Some (TLParen, t)
  | 41 :: t => Some (TRParen, t)
  | 126 :: t => Some (TUn UCompl, t)
  | 63 :: t => Some (TQuest, t)
  | 58 :: t => Some (TColon, t)
  | 43 :: 43 :: t => Some (TInc, t)
  | 43 :: 61 :: t => Some (TAssign (Some Add), t)
  | 43 :: t => Some (TBin Add, t)
  | 45 :: 45 :: t => Some (TDec, t)
  | 45 :: 61 :: t => Some (TAssign (Some Sub), t)
  | 45 :: t => Some (TBin Sub, t)
  | 33 :: 61 :: t => Some (TBin Ne, t)
  | 33 :: t => Some (TUn UNot, t)
  | 42 :: 61 :: t => Some (TAssign (Some Mul), t)
  | 42 :: t => Some (TBin Mul, t)
  | 47 :: 61 :: t => Some (TAssign (Some Div), t)
  | 47 :: t => Some (TBin Div, t)
  | 37 :: 61 :: t => Some (TAssign (Some Mod), t)
  | 37 :: t => Some (TBin Mod, t)
  | 60 :: 60 :: 61 :: t => Some (TAssign (Some Shl), t)
  | 60 :: 60 :: t => Some (TBin Shl, t)
  | 60 :: 61 :: t => Some (TBin Le, t)
  | 60 :: t => Some (TBin Lt, t)
  | 62 :: 62 :: 61 :: t => Some (TAssign (Some Shr), t)
  | 62 :: 62 :: t => Some (TBin Shr, t)
  | 62 :: 61 :: t => Some (TBin Ge, t)
  | 62 :: t => Some (TBin Gt, t)
  | 61 :: 61 :: t => Some (TBin Eq, t)
  | 61 :: t => Some (TAssign None, t)
  | 38 :: 38 :: t => Some (TLAnd, t)
  | 38 :: 61 :: t => Some (TAssign (Some BAnd), t)
  | 38 :: t => Some (TBin BAnd, t)
  | 94 :: 61 :: t => Some (TAssign (Some BXor), t)
  | 94 :: t => Some (TBin BXor, t)
  | 124 :: 124 :: t => Some (TLOr, t)
  | 124 :: 61 :: t => Some (TAssign (Some BOr), t)
  | 124 :: t => Some (TBin BOr, t)
  | _ => None
  end.

Fixpoint alex (fuel : nat) (s : list rune) : list atok :=
  match fuel with
  | O => []
  | S f =>
    match s with
    | [] => []
    | c :: s' =>
      if (c =? 32) || (c =? 9) || (c =? 10) then alex f s'
      else if is_dec c then let '(a, b) := lex_number s in TNum (encode_all a) :: alex f b
      else if (c =? 95) || is_letter c then
        let '(a, b) := span (fun r => (r =? 95) || is_letter r || is_udigit r) s in TId (encode_all a) :: alex f b
      else match lex_op s with
           | Some (t, b) => t :: alex f b
           | None => [TBad c]
           end
    end
  end.

(** * Parser: the language of arith.go.y's productions, by precedence climbing *)
Definition prec (o : binop) : nat :=
  match o with
  | BOr => 3 | BXor => 4 | BAnd => 5 | Eq | Ne => 6 | Lt | Gt | Le | Ge => 7
  | Shl | Shr => 8 | Add | Sub => 9 | Mul | Div | Mod => 10
  end%nat.

(* infix operator token -> (precedence, constructor) ; LOR = 1, LAND = 2 *)
Definition infix (t : atok) : option (nat * (aexpr -> aexpr -> aexpr)) :=
  match t with
  | TLOr => Some (1%nat, ELOr)
  | TLAnd => Some (2%nat, ELAnd)
  | TBin o => Some (prec o, EBin o)
  | _ => None
  end.

Definition pres := option (aexpr * list atok).

Fixpoint p_postfix (e : aexpr) (ts : list atok) : aexpr * list atok :=
  match ts with
  | TInc :: ts' => p_postfix (EPostInc e) ts'
  | TDec :: ts' => p_postfix (EPostDec e) ts'
  | _ => (e, ts)
  end.

Fixpoint p_expr (fuel : nat) (ts : list atok) {struct fuel} : pres :=
  match fuel with
  | O => None
  | S f =>
    match p_unary f ts with
    | None => None
    | Some (u, TAssign o :: ts1) =>
      match p_expr f ts1 with
      | Some (r, ts2) => Some (EAssign o u r, ts2)
      | None => None
      end
    | Some (u, ts1) => p_cond_rest f u ts1
    end
  end
with p_cond (fuel : nat) (ts : list atok) {struct fuel} : pres :=
  match fuel with
  | O => None
  | S f =>
    match p_unary f ts with
    | None => None
    | Some (u, ts1) => p_cond_rest f u ts1
    end
  end
with p_cond_rest (fuel : nat) (u : aexpr) (ts : list atok) {struct fuel} : pres :=
  match fuel with
  | O => None
  | S f =>
    match p_binary f u 1%nat ts with
    | None => None
    | Some (c, TQuest :: ts1) =>
      match p_expr f ts1 with
      | Some (a, TColon :: ts2) =>
        match p_cond f ts2 with
        | Some (b, ts3) => Some (ECond c a b, ts3)
        | None => None
        end
      | _ => None
      end
    | Some (c, ts1) => Some (c, ts1)
    end
  end
with p_binary (fuel : nat) (lhs : aexpr) (minp : nat) (ts : list atok) {struct fuel} : pres :=
  match fuel with
  | O => None
  | S f =>
    match ts with
    | t :: ts1 =>
      match infix t with
      | Some (p, mk) =>
        if Nat.leb minp p then
          match p_unary f ts1 with
          | None => None
          | Some (r, ts2) =>
            match p_binary f r (S p) ts2 with
            | None => None
            | Some (r', ts3) => p_binary f (mk lhs r') minp ts3
            end
          end
        else Some (lhs, ts)
      | None => Some (lhs, ts)
      end
    | [] => Some (lhs, ts)
    end
  end
with p_unary (fuel : nat) (ts : list atok) {struct fuel} : pres :=
  match fuel with
  | O => None
  | S f =>
    match ts with
    | TInc :: ts1 => match p_unary f ts1 with Some (e, r) => Some (EPreInc e, r) | None => None end
    | TDec :: ts1 => match p_unary f ts1 with Some (e, r) => Some (EPreDec e, r) | None => None end
    | TBin Add :: ts1 => match p_unary f ts1 with Some (e, r) => Some (EUn UPlus e, r) | None => None end
    | TBin Sub :: ts1 => match p_unary f ts1 with Some (e, r) => Some (EUn UMinus e, r) | None => None end
    | TUn o :: ts1 => match p_unary f ts1 with Some (e, r) => Some (EUn o e, r) | None => None end
    | TNum s :: ts1 => Some (p_postfix (ENum s) ts1)
    | TId s :: ts1 => Some (p_postfix (EVar s) ts1)
    | TLParen :: ts1 =>
      match p_expr f ts1 with
      | Some (e, TRParen :: ts2) => Some (p_postfix (EParen e) ts2)
      | _ => None
      end
    | _ => None
    end
  end.

Definition has_bad (ts : list atok) : bool := existsb (fun t => match t with TBad _ => true | _ => false end) ts.

(** whole input: Some e iff the token list is a sentence of the grammar *)
Definition aparse (ts : list atok) : option aexpr :=
  match p_expr (5 * S (length ts) + 5) ts with
  | Some (e, []) => Some e
  | _ => None
  end.
