(** The End() methods of the word parts (ast/ast.go: Lit, Quote, ParamExp, CmdSubst, ArithExp, Word),
    transcribed, and what they mean: when the positions stored in a part are those of a contiguous
    piece of text (no line continuation inside), End() is the position that follows that text. *)
From GoSh Require Import Base.Bytes Base.Utf8 Lex.Cursor.
From Coq Require Import Lia.
Local Open Scope nat_scope.

Definition P := (nat * nat)%type.              (* line, column; (0, 0) is the zero Pos *)
Definition zero : P := (0, 0).
Definition is_zero (p : P) : bool := Nat.eqb (fst p) 0 && Nat.eqb (snd p) 0.
Definition shift (p : P) (n : nat) : P := (fst p, snd p + n).
Definition before (p q : P) : bool := Nat.ltb (fst p) (fst q) || (Nat.eqb (fst p) (fst q) && Nat.ltb (snd p) (snd q)).
Definition pleb (p q : P) : bool := Nat.ltb (fst p) (fst q) || (Nat.eqb (fst p) (fst q) && Nat.leb (snd p) (snd q)).
Definition peq (p q : P) : bool := Nat.eqb (fst p) (fst q) && Nat.eqb (snd p) (snd q).

Inductive part :=
| Lit (pos : P) (value : bytes)
| Quote (tokpos : P) (tok : N) (value : list part)                 (* tok: 39, 34 or 92: the quoting character *)
| Param (dollar : P) (braces : bool) (npos : P) (name : bytes) (oppos : P) (op : bytes) (word : list part)
| Cmd (dollar : bool) (lft rgt : P)
| Arith (lft rgt : P).

(** Lit.End: one column per character, a newline starts a line *)
Definition lit_end (p : P) (value : bytes) : P :=
  fold_left (fun (q : P) (rw : rune * nat) => if N.eqb (fst rw) 10 then (S (fst q), 1) else (fst q, S (snd q)))
            (decode_all value) p.

Fixpoint end_part (p : part) : P :=
  let word_end := fix word_end (l : list part) : P :=
    match l with
    | [] => zero
    | x :: r => match r with [] => end_part x | _ :: _ => word_end r end
    end in
  match p with
  | Lit pos v => lit_end pos v
  | Quote tp tok v =>
    let e := word_end v in
    if is_zero e then
      if is_zero tp then e
      else if N.eqb tok 92 then shift tp 1 else shift tp 2      (* nothing between the quoting characters *)
    else if N.eqb tok 92 then e
    else shift e 1
  | Param d braces npos name oppos op w =>
    let e :=
      if is_zero oppos then lit_end npos name
      else if before oppos (lit_end npos name) then lit_end npos name
      else match w with [] => shift oppos (length op) | _ :: _ => word_end w end in
    if braces then shift e 1 else e
  | Cmd _ _ rgt => if is_zero rgt then rgt else shift rgt 1
  | Arith _ rgt => if is_zero rgt then rgt else shift rgt 2
  end.

Fixpoint word_end (l : list part) : P :=
  match l with
  | [] => zero
  | x :: r => match r with [] => end_part x | _ :: _ => word_end r end
  end.

(** * Specification: the positions a part has when it is written contiguously from [s] on, and the
    position that follows it *)
Definition after (s : P) (rs : list rune) : P := pos_of rs (fst s) (snd s).
Definition runes (v : bytes) : list rune := map fst (decode_all v).

Fixpoint layout (fuel : nat) (s : P) (p : part) : option P :=
  match fuel with
  | O => None
  | S f =>
    let fix layout_list (s : P) (l : list part) : option P :=
      match l with
      | [] => Some s
      | x :: r => match layout f s x with Some e => layout_list e r | None => None end
      end in
    match p with
    | Lit pos v => if peq pos s then Some (after s (runes v)) else None
    | Quote tp tok v =>
      if peq tp s then
        match layout_list (shift s 1) v with
        | Some e => Some (if N.eqb tok 92 then e else shift e 1)
        | None => None
        end
      else None
    | Param d braces npos name oppos op w =>
      if negb (peq d s) then None
      else if negb braces then
        (* $name *)
        if is_zero oppos && Nat.eqb (length op) 0 && Nat.eqb (length w) 0 && peq npos (shift s 1)
        then Some (after npos (runes name)) else None
      else if is_zero oppos then
        (* ${name} *)
        if Nat.eqb (length op) 0 && Nat.eqb (length w) 0 && peq npos (shift s 2)
        then Some (shift (after npos (runes name)) 1) else None
      else if peq oppos (shift s 2) && peq npos (shift s 3) && Nat.eqb (length op) 1 && Nat.eqb (length w) 0 then
        (* ${#name} *)
        Some (shift (after npos (runes name)) 1)
      else if peq npos (shift s 2) && peq oppos (after npos (runes name)) && negb (Nat.eqb (length op) 0) then
        (* ${name op word} *)
        match layout_list (shift oppos (length op)) w with
        | Some e => Some (shift e 1)
        | None => None
        end
      else None
    | Cmd dollar lft rgt =>
      if peq lft (if dollar then shift s 1 else s) && Nat.leb 1 (fst rgt) && pleb lft rgt then Some (shift rgt 1) else None
    | Arith lft rgt =>
      if peq lft s && Nat.leb 1 (fst rgt) && pleb lft rgt then Some (shift rgt 2) else None
    end
  end.

Definition layout_list (fuel : nat) : P -> list part -> option P :=
  fix layout_list (s : P) (l : list part) : option P :=
    match l with
    | [] => Some s
    | x :: r => match layout fuel s x with Some e => layout_list e r | None => None end
    end.

Lemma layout_list_nil fuel s : layout_list fuel s [] = Some s.
Proof. reflexivity. Qed.
Lemma layout_list_cons fuel s x r :
  layout_list fuel s (x :: r) = match layout fuel s x with Some e => layout_list fuel e r | None => None end.
Proof. reflexivity. Qed.

(** * End() of a part written contiguously is the position that follows it *)
Lemma lit_end_after p v : lit_end p v = after p (runes v).
Proof.
  unfold lit_end, after, runes. destruct p as [l c]. cbn [fst snd]. revert l c.
  induction (decode_all v) as [|[r w] d IH]; intros l c; cbn [fold_left map pos_of fst snd]; [reflexivity|].
  destruct (N.eqb r 10); apply IH.
Qed.

Lemma pos_of_mono rs : forall l c, let e := pos_of rs l c in l < fst e \/ (fst e = l /\ c <= snd e).
Proof.
  induction rs as [|r rs IH]; intros l c; cbn [pos_of]; [right; cbn; lia|].
  destruct (N.eqb r 10).
  - specialize (IH (S l) 1). cbv zeta in *. lia.
  - specialize (IH l (S c)). cbv zeta in *. lia.
Qed.

Lemma after_mono s rs : fst s < fst (after s rs) \/ (fst (after s rs) = fst s /\ snd s <= snd (after s rs)).
Proof. unfold after. apply (pos_of_mono rs (fst s) (snd s)). Qed.

Lemma peq_eq p q : peq p q = true -> p = q.
Proof.
  unfold peq. intros H. apply Bool.andb_true_iff in H as [H1 H2]. apply Nat.eqb_eq in H1, H2.
  destruct p, q; cbn in *; congruence.
Qed.

Lemma is_zero_line p : 1 <= fst p -> is_zero p = false.
Proof. unfold is_zero. intros H. destruct (fst p); [lia|reflexivity]. Qed.

Lemma shift_shift p a b : shift (shift p a) b = shift p (a + b).
Proof. unfold shift. cbn. f_equal. lia. Qed.

Lemma end_quote tp tok v : end_part (Quote tp tok v) =
  let e := word_end v in
  if is_zero e then (if is_zero tp then e else if N.eqb tok 92 then shift tp 1 else shift tp 2)
  else if N.eqb tok 92 then e else shift e 1.
Proof. reflexivity. Qed.

Lemma end_param d braces npos name oppos op w : end_part (Param d braces npos name oppos op w) =
  let e := if is_zero oppos then lit_end npos name
           else if before oppos (lit_end npos name) then lit_end npos name
           else match w with [] => shift oppos (length op) | _ :: _ => word_end w end in
  if braces then shift e 1 else e.
Proof. reflexivity. Qed.

Lemma layout_S f s p : layout (S f) s p =
  match p with
  | Lit pos v => if peq pos s then Some (after s (runes v)) else None
  | Quote tp tok v =>
    if peq tp s then
      match layout_list f (shift s 1) v with
      | Some e => Some (if N.eqb tok 92 then e else shift e 1)
      | None => None
      end
    else None
  | Param d braces npos name oppos op w =>
    if negb (peq d s) then None
    else if negb braces then
      if is_zero oppos && Nat.eqb (length op) 0 && Nat.eqb (length w) 0 && peq npos (shift s 1)
      then Some (after npos (runes name)) else None
    else if is_zero oppos then
      if Nat.eqb (length op) 0 && Nat.eqb (length w) 0 && peq npos (shift s 2)
      then Some (shift (after npos (runes name)) 1) else None
    else if peq oppos (shift s 2) && peq npos (shift s 3) && Nat.eqb (length op) 1 && Nat.eqb (length w) 0 then
      Some (shift (after npos (runes name)) 1)
    else if peq npos (shift s 2) && peq oppos (after npos (runes name)) && negb (Nat.eqb (length op) 0) then
      match layout_list f (shift oppos (length op)) w with
      | Some e => Some (shift e 1)
      | None => None
      end
    else None
  | Cmd dollar lft rgt =>
    if peq lft (if dollar then shift s 1 else s) && Nat.leb 1 (fst rgt) && pleb lft rgt then Some (shift rgt 1) else None
  | Arith lft rgt =>
    if peq lft s && Nat.leb 1 (fst rgt) && pleb lft rgt then Some (shift rgt 2) else None
  end.
Proof. destruct p; reflexivity. Qed.

Section Spec.
  Variable f : nat.
  Hypothesis IH : forall p s e, 1 <= fst s -> layout f s p = Some e -> end_part p = e /\ 1 <= fst e.

  Lemma list_spec : forall l s e, 1 <= fst s -> layout_list f s l = Some e ->
    1 <= fst e /\ (l <> [] -> word_end l = e) /\ (l = [] -> e = s).
  Proof.
    induction l as [|x r IHl]; intros s e Hs H; [rewrite layout_list_nil in H|rewrite layout_list_cons in H].
    - inversion H; subst. repeat split; [exact Hs|congruence].
    - destruct (layout f s x) as [e1|] eqn:E1; [|discriminate].
      destruct (IH x s e1 Hs E1) as [Hx H1].
      destruct (IHl e1 e H1 H) as (He & Hne & Hnil).
      repeat split; [exact He| |discriminate].
      intros _. cbn [word_end]. destruct r as [|y r'].
      + rewrite (Hnil eq_refl). exact Hx.
      + apply Hne. discriminate.
  Qed.
End Spec.

Theorem end_of_placed : forall fuel p s e, 1 <= fst s -> layout fuel s p = Some e -> end_part p = e /\ 1 <= fst e.
Proof.
  induction fuel as [|f IH]; intros p s e Hs H; [discriminate|].
  rewrite layout_S in H. destruct p as [pos v|tp tok v|d braces npos name oppos op w|dollar lft rgt|lft rgt].
  - destruct (peq pos s) eqn:Ep; [|discriminate]. apply peq_eq in Ep. subst pos. inversion H; subst e.
    cbn [end_part]. split; [apply lit_end_after|]. pose proof (after_mono s (runes v)). lia.
  - destruct (peq tp s) eqn:Ep; [|discriminate]. apply peq_eq in Ep. subst tp.
    destruct (layout_list f (shift s 1) v) as [e1|] eqn:El; [|discriminate]. inversion H; subst e. clear H.
    destruct (list_spec f IH v (shift s 1) e1 Hs El) as (He1 & Hne & Hnil).
    rewrite end_quote. cbv zeta. rewrite (is_zero_line s Hs).
    destruct v as [|x v'].
    + rewrite (Hnil eq_refl). cbn [word_end]. change (is_zero zero) with true. cbv iota.
      destruct (N.eqb tok 92); [split; [reflexivity|exact Hs]|]. rewrite shift_shift. split; [reflexivity|exact Hs].
    + rewrite (Hne ltac:(discriminate)). rewrite (is_zero_line e1 He1).
      destruct (N.eqb tok 92); split; auto.
  - destruct (peq d s) eqn:Ed; cbn [negb] in H; [|discriminate]. rewrite end_param. cbv zeta.
    rewrite (lit_end_after npos name).
    destruct braces; cbn [negb] in H.
    + destruct (is_zero oppos) eqn:Ez.
      * destruct (Nat.eqb (length op) 0 && Nat.eqb (length w) 0 && peq npos (shift s 2)) eqn:Ec; [|discriminate].
        inversion H; subst e. apply Bool.andb_true_iff in Ec as [_ Ec]. apply peq_eq in Ec. subst npos.
        split; [reflexivity|]. pose proof (after_mono (shift s 2) (runes name)). cbn [shift fst snd] in *. lia.
      * destruct (peq oppos (shift s 2) && peq npos (shift s 3) && Nat.eqb (length op) 1 && Nat.eqb (length w) 0) eqn:Ec.
        { inversion H; subst e. apply Bool.andb_true_iff in Ec as [Ec _]. apply Bool.andb_true_iff in Ec as [Ec _].
          apply Bool.andb_true_iff in Ec as [Eo En]. apply peq_eq in Eo, En. subst oppos npos.
          pose proof (after_mono (shift s 3) (runes name)) as Hm. cbn [shift fst snd] in Hm.
          assert (Hb : before (shift s 2) (after (shift s 3) (runes name)) = true).
          { unfold before. cbn [shift fst snd]. apply Bool.orb_true_iff. destruct Hm as [Hm|[Hm1 Hm2]].
            - left. apply Nat.ltb_lt. exact Hm.
            - right. apply Bool.andb_true_iff. split; [apply Nat.eqb_eq; lia|apply Nat.ltb_lt; lia]. }
          rewrite Hb. split; [reflexivity|]. cbn [shift fst snd]. lia. }
        destruct (peq npos (shift s 2) && peq oppos (after npos (runes name)) && negb (Nat.eqb (length op) 0)) eqn:Ec2; [|discriminate].
        apply Bool.andb_true_iff in Ec2 as [Ec2 _]. apply Bool.andb_true_iff in Ec2 as [En Eo]. apply peq_eq in En, Eo. subst npos.
        assert (Hl : 1 <= fst oppos).
        { rewrite Eo. pose proof (after_mono (shift s 2) (runes name)) as Hm. cbn [shift fst snd] in Hm. lia. }
        assert (Hb : before oppos (after (shift s 2) (runes name)) = false).
        { rewrite <- Eo. unfold before. rewrite Nat.ltb_irrefl, Nat.ltb_irrefl, Bool.andb_false_r. reflexivity. }
        rewrite Hb.
        destruct (layout_list f (shift oppos (length op)) w) as [e1|] eqn:El; [|discriminate]. inversion H; subst e.
        destruct (list_spec f IH w (shift oppos (length op)) e1 Hl El) as (He1 & Hne & Hnil).
        destruct w as [|x w'].
        -- rewrite (Hnil eq_refl). split; [reflexivity|exact Hl].
        -- rewrite (Hne ltac:(discriminate)). split; [reflexivity|exact He1].
    + destruct (is_zero oppos && Nat.eqb (length op) 0 && Nat.eqb (length w) 0 && peq npos (shift s 1)) eqn:Ec; [|discriminate].
      inversion H; subst e. apply Bool.andb_true_iff in Ec as [Ec En]. apply Bool.andb_true_iff in Ec as [Ec _].
      apply Bool.andb_true_iff in Ec as [Ez _]. rewrite Ez. apply peq_eq in En. subst npos.
      split; [reflexivity|]. pose proof (after_mono (shift s 1) (runes name)). cbn [shift fst snd] in *. lia.
  - destruct (peq lft (if dollar then shift s 1 else s) && Nat.leb 1 (fst rgt) && pleb lft rgt) eqn:Ec; [|discriminate].
    inversion H; subst e. apply Bool.andb_true_iff in Ec as [Ec _]. apply Bool.andb_true_iff in Ec as [_ Er]. apply Nat.leb_le in Er.
    cbn [end_part]. rewrite (is_zero_line rgt Er). split; [reflexivity|exact Er].
  - destruct (peq lft s && Nat.leb 1 (fst rgt) && pleb lft rgt) eqn:Ec; [|discriminate].
    inversion H; subst e. apply Bool.andb_true_iff in Ec as [Ec _]. apply Bool.andb_true_iff in Ec as [_ Er]. apply Nat.leb_le in Er.
    cbn [end_part]. rewrite (is_zero_line rgt Er). split; [reflexivity|exact Er].
Qed.

(** a word (a non-empty list of parts) written contiguously ends where its text ends *)
Theorem word_end_of_placed fuel l s e : 1 <= fst s -> l <> [] -> layout_list fuel s l = Some e -> word_end l = e.
Proof.
  intros Hs Hl H. destruct (list_spec fuel (end_of_placed fuel) l s e Hs H) as (_ & Hne & _). exact (Hne Hl).
Qed.

(** a literal of valid text ends where the reading cursor stands after its characters *)
Theorem lit_end_is_cursor c rs : forallb scalar rs = true ->
  let c' := fold_left rd rs c in lit_end (line c, col c) (encode_all rs) = (line c', col c').
Proof.
  intros H. cbv zeta. rewrite lit_end_after. unfold after, runes. rewrite (runes_of_encoded rs H).
  cbn [fst snd]. symmetry. apply cursor_correct.
Qed.

(** non-vacuity: "${x:-'a b'}" at 1:1, a double-quoted braced expansion holding a quoted word *)
Example placed_example :
  let p := Quote (1, 1) 34%N [Param (1, 2) true (1, 4) [120%N] (1, 5) [58%N; 45%N] [Quote (1, 7) 39%N [Lit (1, 8) [97%N; 32%N; 98%N]]]] in
  layout 5 (1, 1) p = Some (1, 14) /\ end_part p = (1, 14).
Proof. vm_compute. split; reflexivity. Qed.

(** * Pos() of the word parts, and Pos <= End *)
Definition pos_part (p : part) : P :=
  match p with
  | Lit pos _ => pos
  | Quote tp _ _ => tp
  | Param d _ _ _ _ _ _ => d
  | Cmd dollar lft _ => if dollar && negb (is_zero lft) then (fst lft, pred (snd lft)) else lft
  | Arith lft _ => lft
  end.

Definition ple (p q : P) : Prop := fst p < fst q \/ (fst p = fst q /\ snd p <= snd q).

Lemma ple_refl p : ple p p.
Proof. right. split; lia. Qed.
Lemma ple_trans a b c : ple a b -> ple b c -> ple a c.
Proof. unfold ple. lia. Qed.
Lemma ple_shift p n : ple p (shift p n).
Proof. unfold ple, shift. cbn. lia. Qed.
Lemma ple_after s rs : ple s (after s rs).
Proof. unfold ple. pose proof (after_mono s rs). lia. Qed.

Theorem pos_of_placed fuel p s e : 1 <= fst s -> layout fuel s p = Some e -> pos_part p = s.
Proof.
  destruct fuel as [|f]; [discriminate|]. intros Hs H. rewrite layout_S in H.
  destruct p as [pos v|tp tok v|d braces npos name oppos op w|dollar lft rgt|lft rgt]; cbn [pos_part].
  - destruct (peq pos s) eqn:E; [apply peq_eq in E; exact E|discriminate].
  - destruct (peq tp s) eqn:E; [apply peq_eq in E; exact E|discriminate].
  - destruct (peq d s) eqn:E; [apply peq_eq in E; exact E|discriminate].
  - destruct (peq lft (if dollar then shift s 1 else s) && Nat.leb 1 (fst rgt) && pleb lft rgt) eqn:E; [|discriminate].
    apply Bool.andb_true_iff in E as [E _]. apply Bool.andb_true_iff in E as [E _]. apply peq_eq in E. subst lft. destruct dollar; cbn [andb negb].
    + rewrite (is_zero_line (shift s 1) Hs). cbn [negb shift fst snd]. destruct s as [l c]. cbn. f_equal. lia.
    + reflexivity.
  - destruct (peq lft s && Nat.leb 1 (fst rgt) && pleb lft rgt) eqn:E; [|discriminate].
    apply Bool.andb_true_iff in E as [E _]. apply Bool.andb_true_iff in E as [E _]. apply peq_eq in E. exact E.
Qed.

Lemma pleb_ple p q : pleb p q = true -> ple p q.
Proof.
  unfold pleb, ple. intros H. apply Bool.orb_true_iff in H as [H|H].
  - left. apply Nat.ltb_lt. exact H.
  - apply Bool.andb_true_iff in H as [H1 H2]. apply Nat.eqb_eq in H1. apply Nat.leb_le in H2. right. split; assumption.
Qed.

(** Pos() <= End(): a contiguously written part ends at or after the place where it begins *)
Section Order.
  Variable f : nat.
  Hypothesis IH : forall p s e, layout f s p = Some e -> ple s e.
  Lemma list_order : forall l s e, layout_list f s l = Some e -> ple s e.
  Proof.
    induction l as [|x r IHl]; intros s e H; [rewrite layout_list_nil in H|rewrite layout_list_cons in H].
    - inversion H; subst. apply ple_refl.
    - destruct (layout f s x) as [e1|] eqn:E1; [|discriminate].
      eapply ple_trans; [exact (IH x s e1 E1)|exact (IHl e1 e H)].
  Qed.
End Order.

Theorem placed_pos_le_end : forall fuel p s e, layout fuel s p = Some e -> ple s e.
Proof.
  induction fuel as [|f IH]; intros p s e H; [discriminate|].
  rewrite layout_S in H. destruct p as [pos v|tp tok v|d braces npos name oppos op w|dollar lft rgt|lft rgt].
  - destruct (peq pos s); [|discriminate]. inversion H; subst. apply ple_after.
  - destruct (peq tp s); [|discriminate].
    destruct (layout_list f (shift s 1) v) as [e1|] eqn:El; [|discriminate]. inversion H; subst e.
    pose proof (list_order f IH v (shift s 1) e1 El) as H1.
    eapply ple_trans; [apply (ple_shift s 1)|]. eapply ple_trans; [exact H1|].
    destruct (N.eqb tok 92); [apply ple_refl|apply ple_shift].
  - destruct (peq d s); cbn [negb] in H; [|discriminate].
    destruct braces; cbn [negb] in H.
    + destruct (is_zero oppos).
      * destruct (Nat.eqb (length op) 0 && Nat.eqb (length w) 0 && peq npos (shift s 2)) eqn:Ec; [|discriminate].
        inversion H; subst e. apply Bool.andb_true_iff in Ec as [_ Ec]. apply peq_eq in Ec. subst npos.
        eapply ple_trans; [apply (ple_shift s 2)|]. eapply ple_trans; [apply ple_after|apply ple_shift].
      * destruct (peq oppos (shift s 2) && peq npos (shift s 3) && Nat.eqb (length op) 1 && Nat.eqb (length w) 0) eqn:Ec.
        { inversion H; subst e. apply Bool.andb_true_iff in Ec as [Ec _]. apply Bool.andb_true_iff in Ec as [Ec _].
          apply Bool.andb_true_iff in Ec as [_ En]. apply peq_eq in En. subst npos.
          eapply ple_trans; [apply (ple_shift s 3)|]. eapply ple_trans; [apply ple_after|apply ple_shift]. }
        destruct (peq npos (shift s 2) && peq oppos (after npos (runes name)) && negb (Nat.eqb (length op) 0)) eqn:Ec2; [|discriminate].
        apply Bool.andb_true_iff in Ec2 as [Ec2 _]. apply Bool.andb_true_iff in Ec2 as [En Eo]. apply peq_eq in En, Eo. subst npos.
        destruct (layout_list f (shift oppos (length op)) w) as [e1|] eqn:El; [|discriminate]. inversion H; subst e.
        pose proof (list_order f IH w _ e1 El) as H1.
        eapply ple_trans; [apply (ple_shift s 2)|]. eapply ple_trans; [apply (ple_after (shift s 2) (runes name))|].
        rewrite <- Eo. eapply ple_trans; [apply (ple_shift oppos (length op))|]. eapply ple_trans; [exact H1|apply ple_shift].
    + destruct (is_zero oppos && Nat.eqb (length op) 0 && Nat.eqb (length w) 0 && peq npos (shift s 1)) eqn:Ec; [|discriminate].
      inversion H; subst e. apply Bool.andb_true_iff in Ec as [_ En]. apply peq_eq in En. subst npos.
      eapply ple_trans; [apply (ple_shift s 1)|apply ple_after].
  - destruct (peq lft (if dollar then shift s 1 else s) && Nat.leb 1 (fst rgt) && pleb lft rgt) eqn:Ec; [|discriminate].
    inversion H; subst e. apply Bool.andb_true_iff in Ec as [Ec Ep]. apply Bool.andb_true_iff in Ec as [El _].
    apply peq_eq in El. apply pleb_ple in Ep. subst lft.
    eapply ple_trans; [|apply ple_shift]. eapply ple_trans; [|exact Ep]. destruct dollar; [apply ple_shift|apply ple_refl].
  - destruct (peq lft s && Nat.leb 1 (fst rgt) && pleb lft rgt) eqn:Ec; [|discriminate].
    inversion H; subst e. apply Bool.andb_true_iff in Ec as [Ec Ep]. apply Bool.andb_true_iff in Ec as [El _].
    apply peq_eq in El. apply pleb_ple in Ep. subst lft. eapply ple_trans; [exact Ep|apply ple_shift].
Qed.
