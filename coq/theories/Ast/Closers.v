(** End() of the nodes that end with a closing token (subshell, group, arithmetic evaluation, for,
    case, if, while, until, command substitution, arithmetic expansion): ast.go computes it as the
    stored position of the closing token shifted by a constant.  The constants are read from the
    source on every run ([Extracted.end_shifts]); each equals the length of the token's spelling, so
    End() is the position that follows the closing token. *)
From GoSh Require Import Base.Bytes Lex.Cursor Ast.Ends.
From GoShGen Require Import Extracted.
Local Open Scope N_scope.

(* the spelling of the closing token of each node (written from the grammar; the closing character of
   a command substitution is a closing parenthesis or a backquote, one character either way) *)
Definition closers : list (bytes * bytes * list rune) :=
  [ ([83; 117; 98; 115; 104; 101; 108; 108], [82; 112; 97; 114; 101; 110], [41]);                  (* Subshell Rparen ) *)
    ([71; 114; 111; 117; 112], [82; 98; 114; 97; 99; 101], [125]);                                  (* Group Rbrace } *)
    ([65; 114; 105; 116; 104; 69; 118; 97; 108], [82; 105; 103; 104; 116], [41; 41]);               (* ArithEval Right )) *)
    ([70; 111; 114; 67; 108; 97; 117; 115; 101], [68; 111; 110; 101], [100; 111; 110; 101]);        (* ForClause Done done *)
    ([67; 97; 115; 101; 67; 108; 97; 117; 115; 101], [69; 115; 97; 99], [101; 115; 97; 99]);        (* CaseClause Esac esac *)
    ([73; 102; 67; 108; 97; 117; 115; 101], [70; 105], [102; 105]);                                 (* IfClause Fi fi *)
    ([87; 104; 105; 108; 101; 67; 108; 97; 117; 115; 101], [68; 111; 110; 101], [100; 111; 110; 101]);   (* WhileClause Done *)
    ([85; 110; 116; 105; 108; 67; 108; 97; 117; 115; 101], [68; 111; 110; 101], [100; 111; 110; 101]);   (* UntilClause Done *)
    ([67; 109; 100; 83; 117; 98; 115; 116], [82; 105; 103; 104; 116], [41]);                        (* CmdSubst Right ) *)
    ([65; 114; 105; 116; 104; 69; 120; 112], [82; 105; 103; 104; 116], [41; 41]) ].                 (* ArithExp Right )) *)

Fixpoint closer_of (ty fld : bytes) (t : list (bytes * bytes * list rune)) : option (list rune) :=
  match t with
  | [] => None
  | (a, b, c) :: r => if beqb ty a && beqb fld b then Some c else closer_of ty fld r
  end.

(* every End() of this shape found in the source shifts by the length of its closing token, and
   every node of the list above has such a method *)
Definition shifts_ok : bool :=
  forallb (fun x => match x with (ty, fld, n) =>
             match closer_of ty fld closers with Some c => Nat.eqb n (length c) | None => false end end)
          Extracted.end_shifts
  && forallb (fun y => match y with (ty, fld, _) =>
             existsb (fun x => match x with (a, b, _) => beqb ty a && beqb fld b end) Extracted.end_shifts end)
          closers.

Theorem closing_token_shifts : shifts_ok = true.
Proof. vm_compute. reflexivity. Qed.

(** hence End() = the position following the closing token, for a token stored at a real position *)
Theorem end_after_closing_token ty fld n (pos : P) c :
  In (ty, fld, n) Extracted.end_shifts -> closer_of ty fld closers = Some c ->
  forallb (fun r => negb (N.eqb r 10)) c = true ->
  shift pos n = after pos c.
Proof.
  intros Hin Hc Hnl.
  assert (Hn : n = length c).
  { pose proof closing_token_shifts as H. unfold shifts_ok in H. apply Bool.andb_true_iff in H as [H _].
    rewrite forallb_forall in H. specialize (H _ Hin). cbv beta iota in H. rewrite Hc in H. apply Nat.eqb_eq in H. exact H. }
  subst n. unfold after, shift. rewrite (pos_of_line c (fst pos) (snd pos) Hnl). reflexivity.
Qed.
