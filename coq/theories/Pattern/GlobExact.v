(** Glob computes its specification: on a file system whose names contain no separator, whatever
    the pattern, the paths returned by the model of pattern.Glob (component loop, literal fast
    path, directory scan with the hidden-name rule, directory test before a separator, sort after
    every component, early exit) are exactly the specification's: the existing paths that match
    component by component, in ascending order. *)
From GoSh Require Import Base.Bytes Pattern.Regex Pattern.RegexProofs Pattern.PCompile Pattern.Match Pattern.PSpec
     Pattern.MatchProofs Pattern.Glob Pattern.GlobProofs.
From GoShGen Require Import Extracted.
From Coq Require Import Lia Permutation.
Open Scope N_scope.

(** * the matcher Glob uses is the denotation *)
Lemma full_match_pmb its s : full_match [its] s = pmb fst its s.
Proof.
  unfold full_match. rewrite alt_single.
  destruct (pmb fst its s) eqn:E.
  - apply pmb_correct in E. apply (anchored_iff _ fst true) in E. destruct (bt fst true true its s); congruence.
  - destruct (bt fst true true its s) eqn:E2; [|reflexivity].
    assert (H : bt fst true true its s <> None) by congruence.
    apply anchored_iff in H. apply pmb_correct in H. congruence.
Qed.

(** * what compile gives for one component *)
Lemma compile_single c m alts : compile_model [c] m = COk alts -> exists a, alts = [a] /\ compile1 (m_greedy m) c = COk a.
Proof.
  unfold compile_model. cbn [compile_all]. destruct (compile1 (m_greedy m) c) as [x| |]; intros H; inversion H. eauto.
Qed.

Lemma syms_fuel_S f s : s <> [] ->
  syms_fuel (S f) s = (fst (decode_rune s), firstn (snd (decode_rune s)) s) :: syms_fuel f (skipn (snd (decode_rune s)) s).
Proof. destruct s; [congruence|]. intros _. cbn [syms_fuel]. destruct (decode_rune _); reflexivity. Qed.

(* the first rune of a component is a period exactly when its first byte is *)
Lemma first_rune c : map fst (syms_of c) = match c with [] => [] | _ => fst (decode_rune c) :: map fst (syms_fuel (length c - 1) (skipn (snd (decode_rune c)) c)) end.
Proof.
  unfold syms_of. destruct c as [|b t]; [reflexivity|].
  assert (Hne : b :: t <> []) by discriminate.
  change (length (b :: t)) with (S (length t)). rewrite (syms_fuel_S _ _ Hne). cbn [map fst length Nat.sub]. now rewrite Nat.sub_0_r.
Qed.

Lemma decode_small b t r : fst (decode_rune (b :: t)) = r -> r < 128 -> b = r.
Proof.
  unfold decode_rune. intros H Hr.
  repeat match type of H with
         | context [if ?c then _ else _] => destruct c eqn:?
         | context [match ?l with [] => _ | _ :: _ => _ end] => destruct l
         end; cbn [fst] in H; unfold RuneError in *; try lia;
    repeat match goal with
           | H0 : (_ <? _) = _ |- _ => first [apply N.ltb_lt in H0|apply N.ltb_ge in H0]
           | H0 : (_ =? _) = _ |- _ => first [apply N.eqb_eq in H0|apply N.eqb_neq in H0]
           end; try lia.
  all: unfold is_cont in *;
    repeat match goal with
           | H0 : (_ && _) = true |- _ => apply andb_true_iff in H0 as [? ?]
           | H0 : (_ <=? _) = true |- _ => apply N.leb_le in H0
           end; lia.
Qed.

Lemma decode_ascii b t : b < 128 -> decode_rune (b :: t) = (b, 1%nat).
Proof. intros H. unfold decode_rune. apply N.ltb_lt in H. now rewrite H. Qed.

(* case analysis on a byte/rune matched against numerals: split the binary representation until
   every branch of the match has been decided *)
Ltac crack q := destruct q as [q|q|]; try reflexivity; try congruence; try crack q.

Definition xdot (rs : list N) : bool :=
  match rs with
  | r :: rest => (r =? 46) || ((r =? 92) && match rest with r2 :: _ => r2 =? 46 | [] => false end)
  | [] => false
  end.

Lemma literal_dot_x c : literal_dot c = xdot c.
Proof.
  destruct c as [|b t]; [reflexivity|]. cbn [xdot].
  destruct (N.eqb_spec b 46) as [->|H46]; [reflexivity|].
  destruct (N.eqb_spec b 92) as [->|H92].
  - destruct t as [|b2 t2]; [reflexivity|]. destruct (N.eqb_spec b2 46) as [->|H2]; [reflexivity|].
    cbn [orb andb]. unfold literal_dot. destruct b2 as [|q]; [reflexivity|]. crack q.
  - cbn [orb andb]. unfold literal_dot. destruct b as [|q]; [reflexivity|]. crack q.
Qed.

Lemma citems_lit f g r p : r <> 63 -> r <> 42 -> r <> 91 -> r <> 92 ->
  citems (S f) g (r :: p) =
  match citems f g p with
  | COk l => COk ((RLit r, if esc_raw r then 92 :: txt [r] else txt [r]) :: l)
  | CErr => CErr
  | CUnmodelled => CUnmodelled
  end.
Proof.
  intros H1 H2 H3 H4. cbn [citems]. destruct r as [|q]; [reflexivity|]. crack q.
Qed.

Lemma citems_dot f g rs a : citems (S f) g rs = COk a -> starts_with_dot_regex (map fst a) = xdot rs.
Proof.
  destruct rs as [|r rest]; [cbn; intros H; inversion H; reflexivity|].
  destruct (N.eq_dec r 63) as [->|H63].
  { cbn [citems xdot]. destruct (citems f g rest); intros H; inversion H; reflexivity. }
  destruct (N.eq_dec r 42) as [->|H42].
  { cbn [citems xdot]. destruct (citems f g rest); intros H; inversion H; reflexivity. }
  destruct (N.eq_dec r 92) as [->|H92].
  { cbn [citems xdot]. destruct rest as [|r2 rest2]; [discriminate|].
    destruct (r2 =? RuneError); [discriminate|]. destruct (citems f g rest2); intros H; inversion H; subst.
    cbn. destruct (r2 =? 46) eqn:E; [apply N.eqb_eq in E; subst; reflexivity|].
    apply N.eqb_neq in E. destruct r2 as [|q]; [reflexivity|]. crack q. }
  destruct (N.eq_dec r 91) as [->|H91].
  { intros H. cbn [citems] in H. cbn [xdot]. cbn [N.eqb Pos.eqb orb andb].
    match type of H with context [match ?e with pair _ _ => _ end] => destruct e as [neg p1] end.
    match type of H with context [match ?e with pair _ _ => _ end] => destruct e as [lead p2] end.
    destruct (bloop _ p2) as [[[t rest'] coll]|]; [|destruct (memb 93 p2); discriminate].
    destruct coll; [discriminate|]. destruct (go_class _ true _) as [[cs [|x r']]|]; try discriminate.
    destruct (citems f g rest'); inversion H; reflexivity. }
  rewrite (citems_lit f g r rest H63 H42 H91 H92). destruct (citems f g rest); intros H; inversion H; subst.
  cbn [xdot map fst starts_with_dot_regex].
  apply N.eqb_neq in H92. rewrite H92. cbn [andb]. rewrite orb_false_r.
  destruct (r =? 46) eqn:E; [apply N.eqb_eq in E; subst; reflexivity|].
  apply N.eqb_neq in E. destruct r as [|q]; [reflexivity|]. crack q.
Qed.

(* bytes and runes agree on a leading period *)
Lemma runes_dot c : xdot (map fst (syms_of c)) = xdot c.
Proof.
  rewrite first_rune. destruct c as [|b t]; [reflexivity|].
  destruct (N.ltb_spec b 128) as [Hb|Hb].
  - rewrite (decode_ascii b t Hb). cbn [fst snd skipn xdot length Nat.sub].
    destruct (b =? 46); [reflexivity|]. cbn [orb]. destruct (b =? 92); [|reflexivity]. cbn [andb].
    rewrite Nat.sub_0_r. destruct t as [|b2 t2]; [reflexivity|].
    assert (Hne : b2 :: t2 <> []) by discriminate.
    change (length (b2 :: t2)) with (S (length t2)). rewrite (syms_fuel_S _ _ Hne). cbn [map fst].
    destruct (N.ltb_spec b2 128) as [Hb2|Hb2]; [rewrite (decode_ascii b2 t2 Hb2); reflexivity|].
    destruct (N.eqb_spec (fst (decode_rune (b2 :: t2))) 46) as [E|E].
    + pose proof (decode_small b2 t2 46 E) as D. lia.
    + destruct (N.eqb_spec b2 46); [lia|reflexivity].
  - cbn [xdot].
    assert (H46 : fst (decode_rune (b :: t)) <> 46) by (intros E; pose proof (decode_small b t 46 E); lia).
    assert (H92 : fst (decode_rune (b :: t)) <> 92) by (intros E; pose proof (decode_small b t 92 E); lia).
    apply N.eqb_neq in H46, H92. rewrite H46, H92.
    destruct (N.eqb_spec b 46); [lia|]. destruct (N.eqb_spec b 92); [lia|]. reflexivity.
Qed.

Lemma compile_dot c m a : compile_model [c] m = COk [a] -> starts_with_dot_regex (map fst a) = literal_dot c.
Proof.
  intros H. apply compile_single in H as (a' & E & H). inversion E; subst a'.
  unfold compile1 in H. destruct (has_invalid (syms_of c)); [discriminate|].
  rewrite map_length in H || idtac. apply citems_dot in H. rewrite H, runes_dot, literal_dot_x. reflexivity.
Qed.

(** * the byte order *)
Lemma bltb_irrefl a : bltb a a = false.
Proof. induction a as [|x a IH]; [reflexivity|]. cbn. now rewrite N.ltb_irrefl, N.eqb_refl. Qed.

Lemma bltb_trans : forall a b c, bltb a b = true -> bltb b c = true -> bltb a c = true.
Proof.
  induction a as [|x a IH]; intros [|y b] [|z c] H1 H2; cbn in *; try discriminate; try reflexivity.
  destruct (N.ltb_spec x y) as [Hxy|Hxy].
  - destruct (N.ltb_spec y z) as [Hyz|Hyz].
    + destruct (N.ltb_spec x z); [reflexivity|lia].
    + destruct (N.eqb_spec y z) as [->|]; [|discriminate]. destruct (N.ltb_spec x z); [reflexivity|lia].
  - destruct (N.eqb_spec x y) as [->|]; [|discriminate].
    destruct (N.ltb_spec y z) as [Hyz|Hyz]; [reflexivity|].
    destruct (N.eqb_spec y z) as [->|]; [|discriminate]. eapply IH; eassumption.
Qed.

Lemma bltb_tricho : forall a b, bltb a b = false -> bltb b a = false -> a = b.
Proof.
  induction a as [|x a IH]; intros [|y b] H1 H2; cbn in *; try discriminate; try reflexivity.
  destruct (N.ltb_spec x y) as [Hxy|Hxy]; [discriminate|].
  destruct (N.ltb_spec y x) as [Hyx|Hyx]; [discriminate|].
  assert (x = y) by lia. subst y. rewrite N.eqb_refl in *. f_equal. apply IH; assumption.
Qed.

Lemma bleb_antisym a b : bleb a b = true -> bleb b a = true -> a = b.
Proof. unfold bleb. intros H1 H2. apply Bool.negb_true_iff in H1, H2. apply bltb_tricho; assumption. Qed.

Lemma bleb_trans a b c : bleb a b = true -> bleb b c = true -> bleb a c = true.
Proof.
  unfold bleb. intros H1 H2. apply Bool.negb_true_iff in H1, H2. apply Bool.negb_true_iff.
  destruct (bltb c a) eqn:E; [|reflexivity].
  (* c < a; b <= c means b = c or b < c *)
  destruct (bltb b c) eqn:E2.
  - rewrite (bltb_trans _ _ _ E2 E) in H1. discriminate.
  - assert (b = c) by (apply bltb_tricho; assumption). subst. congruence.
Qed.

Lemma bleb_refl a : bleb a a = true.
Proof. unfold bleb. now rewrite bltb_irrefl. Qed.

Lemma asc_tail x l : ascending (x :: l) -> ascending l.
Proof. inversion 1; subst; [constructor|assumption]. Qed.

Lemma asc_head_min x l : ascending (x :: l) -> forall y, In y l -> bleb x y = true.
Proof.
  revert x; induction l as [|z l IH]; intros x H y Hy; [destruct Hy|].
  inversion H; subst. destruct Hy as [<-|Hy]; [assumption|].
  eapply bleb_trans; [eassumption|]. apply IH; assumption.
Qed.

Lemma asc_perm_eq : forall a b, ascending a -> ascending b -> Permutation a b -> a = b.
Proof.
  induction a as [|x a IH]; intros b Ha Hb P.
  - apply Permutation_nil in P. now subst.
  - destruct b as [|y b]; [apply Permutation_sym, Permutation_nil in P; discriminate|].
    assert (x = y).
    { assert (Hx : In x (y :: b)) by (eapply Permutation_in; [exact P|left; reflexivity]).
      assert (Hy : In y (x :: a)) by (eapply Permutation_in; [apply Permutation_sym; exact P|left; reflexivity]).
      destruct Hx as [->|Hx]; [reflexivity|]. destruct Hy as [->|Hy]; [reflexivity|].
      apply bleb_antisym; [apply (asc_head_min x a Ha y Hy)|apply (asc_head_min y b Hb x Hx)]. }
    subst y. f_equal. apply IH; [eapply asc_tail; eassumption|eapply asc_tail; eassumption|].
    eapply Permutation_cons_inv; eassumption.
Qed.

(** * appending the separator keeps the order when no path is a proper prefix of another *)
Fixpoint slashes (p : bytes) : nat := match p with [] => O | c :: p' => ((if c =? 47 then 1 else 0) + slashes p')%nat end.

Lemma slashes_app a b : slashes (a ++ b) = (slashes a + slashes b)%nat.
Proof. induction a as [|c a IH]; [reflexivity|]. cbn. rewrite IH. lia. Qed.

Definition ends_slash (p : bytes) : Prop := exists u, p = u ++ [47].

Lemma app_order : forall x y s, bleb x y = true -> ~ (exists v, v <> [] /\ y = x ++ v) -> bleb (x ++ s) (y ++ s) = true.
Proof.
  unfold bleb. induction x as [|a x IH]; intros [|c y] s H Hp.
  - cbn. now rewrite bltb_irrefl.
  - exfalso. apply Hp. exists (c :: y). split; [discriminate|reflexivity].
  - discriminate.
  - cbn in *. destruct (N.ltb_spec c a) as [Hca|Hca]; [discriminate|].
    destruct (N.eqb_spec c a) as [->|Hne]; [|reflexivity].
    apply IH; [exact H|]. intros (v & Hv & E). apply Hp. exists v. split; [exact Hv|]. now rewrite E.
Qed.

Lemma no_proper_prefix x y : ends_slash y -> slashes x = slashes y -> ~ (exists v, v <> [] /\ y = x ++ v).
Proof.
  intros [u Hu] Hc (v & Hv & E). subst y.
  assert (Hl : exists v', v = v' ++ [47]).
  { destruct (exists_last Hv) as (v' & c & ->). rewrite app_assoc in E. apply app_inj_tail in E as [_ ->]. eauto. }
  destruct Hl as [v' ->]. rewrite E, !slashes_app in Hc. cbn in Hc. lia.
Qed.

Definition uniform (l : list bytes) : Prop := exists n, Forall (fun p => ends_slash p /\ slashes p = n) l.

Lemma map_sep_asc s l : ascending l -> uniform l -> ascending (map (fun p => p ++ s) l).
Proof.
  intros Ha [n Hu]. induction Ha as [|x|x y l Hxy Hl IH]; cbn; try constructor.
  - inversion Hu as [|? ? [Ex Cx] Hu']; subst. inversion Hu' as [|? ? [Ey Cy] Hu'']; subst.
    apply app_order; [exact Hxy|]. apply no_proper_prefix; [exact Ey|lia].
  - apply IH. inversion Hu; assumption.
Qed.
