(** Glob computes its specification: on a file system whose names contain no separator, whatever
    the pattern, the paths returned by the model of pattern.Glob (component loop, literal fast
    path, directory scan with the hidden-name rule, directory test before a separator, sort after
    every component, early exit) are exactly the specification's: the existing paths that match
    component by component, in ascending order. *)
From GoSh Require Import Base.Bytes Pattern.Regex Pattern.RegexProofs Pattern.PCompile Pattern.Match Pattern.PSpec
     Pattern.MatchProofs Pattern.Glob Pattern.GlobProofs.
From GoShGen Require Import Extracted.
From Coq Require Import Lia Permutation.
Open Scope N_scope.

(** * the matcher Glob uses is the denotation *)
Lemma full_match_pmb its s : full_match [its] s = pmb fst its s.
Proof.
  unfold full_match. rewrite alt_single.
  destruct (pmb fst its s) eqn:E.
  - apply pmb_correct in E. apply (anchored_iff _ fst true) in E. destruct (bt fst true true its s); congruence.
  - destruct (bt fst true true its s) eqn:E2; [|reflexivity].
    assert (H : bt fst true true its s <> None) by congruence.
    apply anchored_iff in H. apply pmb_correct in H. congruence.
Qed.

(** * what compile gives for one component *)
Lemma compile_single c m alts : compile_model [c] m = COk alts -> exists a, alts = [a] /\ compile1 (m_greedy m) c = COk a.
Proof.
  unfold compile_model. cbn [compile_all]. destruct (compile1 (m_greedy m) c) as [x| |]; intros H; inversion H. eauto.
Qed.

Lemma syms_fuel_S f s : s <> [] ->
  syms_fuel (S f) s = (fst (decode_rune s), firstn (snd (decode_rune s)) s) :: syms_fuel f (skipn (snd (decode_rune s)) s).
Proof. destruct s; [congruence|]. intros _. cbn [syms_fuel]. destruct (decode_rune _); reflexivity. Qed.

(* the first rune of a component is a period exactly when its first byte is *)
Lemma first_rune c : map fst (syms_of c) = match c with [] => [] | _ => fst (decode_rune c) :: map fst (syms_fuel (length c - 1) (skipn (snd (decode_rune c)) c)) end.
Proof.
  unfold syms_of. destruct c as [|b t]; [reflexivity|].
  assert (Hne : b :: t <> []) by discriminate.
  change (length (b :: t)) with (S (length t)). rewrite (syms_fuel_S _ _ Hne). cbn [map fst length Nat.sub]. now rewrite Nat.sub_0_r.
Qed.

Lemma decode_small b t r : fst (decode_rune (b :: t)) = r -> r < 128 -> b = r.
Proof.
  unfold decode_rune. intros H Hr.
  repeat match type of H with
         | context [if ?c then _ else _] => destruct c eqn:?
         | context [match ?l with [] => _ | _ :: _ => _ end] => destruct l
         end; cbn [fst] in H; unfold RuneError in *; try lia;
    repeat match goal with
           | H0 : (_ <? _) = _ |- _ => first [apply N.ltb_lt in H0|apply N.ltb_ge in H0]
           | H0 : (_ =? _) = _ |- _ => first [apply N.eqb_eq in H0|apply N.eqb_neq in H0]
           end; try lia.
  all: unfold is_cont in *;
    repeat match goal with
           | H0 : (_ && _) = true |- _ => apply andb_true_iff in H0 as [? ?]
           | H0 : (_ <=? _) = true |- _ => apply N.leb_le in H0
           end; lia.
Qed.

Lemma decode_ascii b t : b < 128 -> decode_rune (b :: t) = (b, 1%nat).
Proof. intros H. unfold decode_rune. apply N.ltb_lt in H. now rewrite H. Qed.

(* case analysis on a byte/rune matched against numerals: split the binary representation until
   every branch of the match has been decided *)
Ltac crack q := destruct q as [q|q|]; try reflexivity; try congruence; try crack q.

Definition xdot (rs : list N) : bool :=
  match rs with
  | r :: rest => (r =? 46) || ((r =? 92) && match rest with r2 :: _ => r2 =? 46 | [] => false end)
  | [] => false
  end.

Lemma literal_dot_x c : literal_dot c = xdot c.
Proof.
  destruct c as [|b t]; [reflexivity|]. cbn [xdot].
  destruct (N.eqb_spec b 46) as [->|H46]; [reflexivity|].
  destruct (N.eqb_spec b 92) as [->|H92].
  - destruct t as [|b2 t2]; [reflexivity|]. destruct (N.eqb_spec b2 46) as [->|H2]; [reflexivity|].
    cbn [orb andb]. unfold literal_dot. destruct b2 as [|q]; [reflexivity|]. crack q.
  - cbn [orb andb]. unfold literal_dot. destruct b as [|q]; [reflexivity|]. crack q.
Qed.

Lemma citems_lit f g r p : r <> 63 -> r <> 42 -> r <> 91 -> r <> 92 ->
  citems (S f) g (r :: p) =
  match citems f g p with
  | COk l => COk ((RLit r, if esc_raw r then 92 :: txt [r] else txt [r]) :: l)
  | CErr => CErr
  | CUnmodelled => CUnmodelled
  end.
Proof.
  intros H1 H2 H3 H4. cbn [citems]. destruct r as [|q]; [reflexivity|]. crack q.
Qed.

Lemma citems_dot f g rs a : citems (S f) g rs = COk a -> starts_with_dot_regex (map fst a) = xdot rs.
Proof.
  destruct rs as [|r rest]; [cbn; intros H; inversion H; reflexivity|].
  destruct (N.eq_dec r 63) as [->|H63].
  { cbn [citems xdot]. destruct (citems f g rest); intros H; inversion H; reflexivity. }
  destruct (N.eq_dec r 42) as [->|H42].
  { cbn [citems xdot]. destruct (citems f g rest); intros H; inversion H; reflexivity. }
  destruct (N.eq_dec r 92) as [->|H92].
  { cbn [citems xdot]. destruct rest as [|r2 rest2]; [discriminate|].
    destruct (citems f g rest2); intros H; inversion H; subst.
    cbn. destruct (r2 =? 46) eqn:E; [apply N.eqb_eq in E; subst; reflexivity|].
    apply N.eqb_neq in E. destruct r2 as [|q]; [reflexivity|]. crack q. }
  destruct (N.eq_dec r 91) as [->|H91].
  { intros H. cbn [citems] in H. cbn [xdot]. cbn [N.eqb Pos.eqb orb andb].
    match type of H with context [match ?e with pair _ _ => _ end] => destruct e as [neg p1] end.
    match type of H with context [match ?e with pair _ _ => _ end] => destruct e as [lead p2] end.
    destruct (bloop _ p2) as [[[t rest'] coll]|]; [|destruct (memb 93 p2); discriminate].
    destruct coll; [discriminate|]. destruct (go_class _ true _) as [[cs [|x r']]|]; try discriminate.
    destruct (citems f g rest'); inversion H; reflexivity. }
  rewrite (citems_lit f g r rest H63 H42 H91 H92). destruct (citems f g rest); intros H; inversion H; subst.
  cbn [xdot map fst starts_with_dot_regex].
  apply N.eqb_neq in H92. rewrite H92. cbn [andb]. rewrite orb_false_r.
  destruct (r =? 46) eqn:E; [apply N.eqb_eq in E; subst; reflexivity|].
  apply N.eqb_neq in E. destruct r as [|q]; [reflexivity|]. crack q.
Qed.

(* bytes and runes agree on a leading period *)
Lemma runes_dot c : xdot (map fst (syms_of c)) = xdot c.
Proof.
  rewrite first_rune. destruct c as [|b t]; [reflexivity|].
  destruct (N.ltb_spec b 128) as [Hb|Hb].
  - rewrite (decode_ascii b t Hb). cbn [fst snd skipn xdot length Nat.sub].
    destruct (b =? 46); [reflexivity|]. cbn [orb]. destruct (b =? 92); [|reflexivity]. cbn [andb].
    rewrite Nat.sub_0_r. destruct t as [|b2 t2]; [reflexivity|].
    assert (Hne : b2 :: t2 <> []) by discriminate.
    change (length (b2 :: t2)) with (S (length t2)). rewrite (syms_fuel_S _ _ Hne). cbn [map fst].
    destruct (N.ltb_spec b2 128) as [Hb2|Hb2]; [rewrite (decode_ascii b2 t2 Hb2); reflexivity|].
    destruct (N.eqb_spec (fst (decode_rune (b2 :: t2))) 46) as [E|E].
    + pose proof (decode_small b2 t2 46 E) as D. lia.
    + destruct (N.eqb_spec b2 46); [lia|reflexivity].
  - cbn [xdot].
    assert (H46 : fst (decode_rune (b :: t)) <> 46) by (intros E; pose proof (decode_small b t 46 E); lia).
    assert (H92 : fst (decode_rune (b :: t)) <> 92) by (intros E; pose proof (decode_small b t 92 E); lia).
    apply N.eqb_neq in H46, H92. rewrite H46, H92.
    destruct (N.eqb_spec b 46); [lia|]. destruct (N.eqb_spec b 92); [lia|]. reflexivity.
Qed.

Lemma compile_dot c m a : compile_model [c] m = COk [a] -> starts_with_dot_regex (map fst a) = literal_dot c.
Proof.
  intros H. apply compile_single in H as (a' & E & H). inversion E; subst a'.
  unfold compile1 in H. destruct (has_invalid (syms_of c)); [discriminate|].
  rewrite map_length in H || idtac. apply citems_dot in H. rewrite H, runes_dot, literal_dot_x. reflexivity.
Qed.

(** * the byte order *)
Lemma bltb_irrefl a : bltb a a = false.
Proof. induction a as [|x a IH]; [reflexivity|]. cbn. now rewrite N.ltb_irrefl, N.eqb_refl. Qed.

Lemma bltb_trans : forall a b c, bltb a b = true -> bltb b c = true -> bltb a c = true.
Proof.
  induction a as [|x a IH]; intros [|y b] [|z c] H1 H2; cbn in *; try discriminate; try reflexivity.
  destruct (N.ltb_spec x y) as [Hxy|Hxy].
  - destruct (N.ltb_spec y z) as [Hyz|Hyz].
    + destruct (N.ltb_spec x z); [reflexivity|lia].
    + destruct (N.eqb_spec y z) as [->|]; [|discriminate]. destruct (N.ltb_spec x z); [reflexivity|lia].
  - destruct (N.eqb_spec x y) as [->|]; [|discriminate].
    destruct (N.ltb_spec y z) as [Hyz|Hyz]; [reflexivity|].
    destruct (N.eqb_spec y z) as [->|]; [|discriminate]. eapply IH; eassumption.
Qed.

Lemma bltb_tricho : forall a b, bltb a b = false -> bltb b a = false -> a = b.
Proof.
  induction a as [|x a IH]; intros [|y b] H1 H2; cbn in *; try discriminate; try reflexivity.
  destruct (N.ltb_spec x y) as [Hxy|Hxy]; [discriminate|].
  destruct (N.ltb_spec y x) as [Hyx|Hyx]; [discriminate|].
  assert (x = y) by lia. subst y. rewrite N.eqb_refl in *. f_equal. apply IH; assumption.
Qed.

Lemma bleb_antisym a b : bleb a b = true -> bleb b a = true -> a = b.
Proof. unfold bleb. intros H1 H2. apply Bool.negb_true_iff in H1, H2. apply bltb_tricho; assumption. Qed.

Lemma bleb_trans a b c : bleb a b = true -> bleb b c = true -> bleb a c = true.
Proof.
  unfold bleb. intros H1 H2. apply Bool.negb_true_iff in H1, H2. apply Bool.negb_true_iff.
  destruct (bltb c a) eqn:E; [|reflexivity].
  (* c < a; b <= c means b = c or b < c *)
  destruct (bltb b c) eqn:E2.
  - rewrite (bltb_trans _ _ _ E2 E) in H1. discriminate.
  - assert (b = c) by (apply bltb_tricho; assumption). subst. congruence.
Qed.

Lemma bleb_refl a : bleb a a = true.
Proof. unfold bleb. now rewrite bltb_irrefl. Qed.

Lemma asc_tail x l : ascending (x :: l) -> ascending l.
Proof. inversion 1; subst; [constructor|assumption]. Qed.

Lemma asc_head_min x l : ascending (x :: l) -> forall y, In y l -> bleb x y = true.
Proof.
  revert x; induction l as [|z l IH]; intros x H y Hy; [destruct Hy|].
  inversion H; subst. destruct Hy as [<-|Hy]; [assumption|].
  eapply bleb_trans; [eassumption|]. apply IH; assumption.
Qed.

Lemma asc_perm_eq : forall a b, ascending a -> ascending b -> Permutation a b -> a = b.
Proof.
  induction a as [|x a IH]; intros b Ha Hb P.
  - apply Permutation_nil in P. now subst.
  - destruct b as [|y b]; [apply Permutation_sym, Permutation_nil in P; discriminate|].
    assert (x = y).
    { assert (Hx : In x (y :: b)) by (eapply Permutation_in; [exact P|left; reflexivity]).
      assert (Hy : In y (x :: a)) by (eapply Permutation_in; [apply Permutation_sym; exact P|left; reflexivity]).
      destruct Hx as [->|Hx]; [reflexivity|]. destruct Hy as [->|Hy]; [reflexivity|].
      apply bleb_antisym; [apply (asc_head_min x a Ha y Hy)|apply (asc_head_min y b Hb x Hx)]. }
    subst y. f_equal. apply IH; [eapply asc_tail; eassumption|eapply asc_tail; eassumption|].
    eapply Permutation_cons_inv; eassumption.
Qed.

(** * appending the separator keeps the order when no path is a proper prefix of another *)
Fixpoint slashes (p : bytes) : nat := match p with [] => O | c :: p' => ((if N.eqb c 47%N then 1 else 0) + slashes p')%nat end.

Lemma slashes_app a b : slashes (a ++ b) = (slashes a + slashes b)%nat.
Proof. induction a as [|c a IH]; [reflexivity|]. cbn. rewrite IH. lia. Qed.

Definition ends_slash (p : bytes) : Prop := exists u, p = u ++ [47].

Lemma app_order : forall x y s, bleb x y = true -> ~ (exists v, v <> [] /\ y = x ++ v) -> bleb (x ++ s) (y ++ s) = true.
Proof.
  unfold bleb. induction x as [|a x IH]; intros [|c y] s H Hp.
  - cbn. now rewrite bltb_irrefl.
  - exfalso. apply Hp. exists (c :: y). split; [discriminate|reflexivity].
  - discriminate.
  - cbn in *. destruct (N.ltb_spec c a) as [Hca|Hca]; [discriminate|].
    destruct (N.eqb_spec c a) as [->|Hne]; [|reflexivity].
    apply IH; [exact H|]. intros (v & Hv & E). apply Hp. exists v. split; [exact Hv|]. now rewrite E.
Qed.

Lemma no_proper_prefix x y : ends_slash y -> slashes x = slashes y -> ~ (exists v, v <> [] /\ y = x ++ v).
Proof.
  intros [u Hu] Hc (v & Hv & E). subst y.
  assert (Hl : exists v', v = v' ++ [47]).
  { destruct (exists_last Hv) as (v' & c & ->). rewrite app_assoc in E. apply app_inj_tail in E as [_ ->]. eauto. }
  destruct Hl as [v' ->]. rewrite E, !slashes_app in Hc. cbn in Hc. lia.
Qed.

Definition uniform (l : list bytes) : Prop := exists n, Forall (fun p => ends_slash p /\ slashes p = n) l.

Lemma map_sep_asc s l : ascending l -> uniform l -> ascending (map (fun p => p ++ s) l).
Proof.
  intros Ha [n Hu]. induction Ha as [|x|x y l Hxy Hl IH]; cbn; try constructor.
  - inversion Hu as [|? ? [Ex Cx] Hu']; subst. inversion Hu' as [|? ? [Ey Cy] Hu'']; subst.
    apply app_order; [exact Hxy|]. apply no_proper_prefix; [exact Ey|lia].
  - apply IH. inversion Hu; assumption.
Qed.

(** * file systems whose names contain no separator *)
Fixpoint wf_node (n : node) : Prop :=
  match n with
  | Dir es => (fix wf_es (es : list (bytes * node)) : Prop :=
                 match es with [] => True | (k, v) :: r => slashes k = 0%nat /\ wf_node v /\ wf_es r end) es
  | _ => True
  end.
Definition wf_dir (es : list (bytes * node)) : Prop := wf_node (Dir es).

Lemma wf_dir_cons k v r : wf_dir ((k, v) :: r) <-> slashes k = 0%nat /\ wf_node v /\ wf_dir r.
Proof. reflexivity. Qed.

Lemma lookup_wf c : forall d n, wf_dir d -> lookup_entry c d = Some n -> wf_node n.
Proof.
  induction d as [|[k v] d IH]; intros n Hd H; cbn in H; [discriminate|].
  apply wf_dir_cons in Hd as (_ & Hv & Hr). destruct (beqb c k); [inversion H; subst; exact Hv|eauto].
Qed.

Lemma names_wf : forall es, wf_dir es -> Forall (fun n => slashes n = 0%nat) (map fst es).
Proof.
  induction es as [|[k v] es IH]; intros H; cbn; constructor.
  - apply wf_dir_cons in H. apply H.
  - apply IH. apply wf_dir_cons in H. apply H.
Qed.

Lemma walk_wf : forall comps stack n, Forall wf_dir stack -> walk stack comps = Some n -> wf_node n.
Proof.
  induction comps as [|c rest IH]; intros stack n Hs H; cbn [walk] in H.
  - destruct stack as [|d up]; [discriminate|]. inversion H; subst. inversion Hs; assumption.
  - destruct stack as [|d up]; [discriminate|].
    destruct (beqb c [] || beqb c [46]); [eapply IH; eassumption|].
    destruct (beqb c [46; 46]).
    + eapply IH; [|exact H]. destruct up; [exact Hs|inversion Hs; assumption].
    + destruct (lookup_entry c d) as [[| |d']|] eqn:El; try discriminate.
      * destruct rest; [inversion H; exact I|discriminate].
      * destruct rest; [inversion H; exact I|discriminate].
      * eapply IH; [|exact H]. constructor; [|exact Hs]. inversion Hs; subst. eapply (lookup_wf c); eassumption.
Qed.

Lemma enter_wf : forall comps stack st, Forall wf_dir stack -> enter stack comps = Some st -> Forall wf_dir st.
Proof.
  induction comps as [|c rest IH]; intros stack st Hs H; cbn [enter] in H; [inversion H; subst; exact Hs|].
  destruct stack as [|d up]; [discriminate|].
  destruct (lookup_entry c d) as [[| |d']|] eqn:El; try discriminate.
  eapply IH; [|exact H]. constructor; [|exact Hs]. inversion Hs; subst. eapply (lookup_wf c); eassumption.
Qed.

Lemma resolve_wf root cwd path n : wf_dir root -> resolve root cwd path = Some n -> wf_node n.
Proof.
  intros Hr H. unfold resolve in H.
  assert (H0 : Forall wf_dir [root]) by (constructor; [exact Hr|constructor]).
  assert (Hrel : match enter [root] cwd with Some st => walk st (split_slash path []) | None => None end = Some n -> wf_node n).
  { destruct (enter [root] cwd) as [st|] eqn:Ee; [|discriminate]. intros Hw. eapply walk_wf; [|exact Hw]. eapply enter_wf; eassumption. }
  destruct path as [|b t]; [apply Hrel, H|].
  destruct (N.eq_dec b 47) as [->|Hne]; [eapply walk_wf; eassumption|].
  apply Hrel. rewrite <- H. destruct b as [|q]; [reflexivity|]. crack q.
Qed.

(** * the separator search *)
Lemma index_sep_unfold f c rest off :
  index_sep (S f) (c :: rest) off =
  if c =? 47 then Some (off, 1%nat, [47])
  else if c =? 92 then
         match rest with
         | [] => None
         | c2 :: rest' => if c2 =? 47 then Some (off, 2%nat, [47]) else index_sep f rest' (S (S off))
         end
       else index_sep f rest (S off).
Proof.
  destruct (N.eqb_spec c 47) as [->|H47]; [reflexivity|].
  destruct (N.eqb_spec c 92) as [->|H92].
  - cbn [index_sep]. destruct rest as [|c2 rest']; [reflexivity|].
    destruct (N.eqb_spec c2 47) as [->|H2]; [reflexivity|]. destruct c2 as [|q]; [reflexivity|]. crack q.
  - cbn [index_sep]. destruct c as [|q]; [reflexivity|]. crack q.
Qed.

Lemma index_sep_spec : forall f pat off i w sp, index_sep f pat off = Some (i, w, sp) ->
  sp = [47] /\ exists k, i = (off + k)%nat /\ (k + w <= length pat)%nat /\ slashes (firstn k pat) = 0%nat /\ (1 <= w)%nat.
Proof.
  induction f as [|f IH]; intros pat off i w sp H; [discriminate|].
  destruct pat as [|c rest]; [discriminate|]. rewrite index_sep_unfold in H.
  destruct (N.eqb_spec c 47) as [->|H47].
  - inversion H; subst. split; [reflexivity|]. exists 0%nat. cbn. repeat split; lia.
  - destruct (N.eqb_spec c 92) as [->|H92].
    + destruct rest as [|c2 rest']; [discriminate|]. destruct (N.eqb_spec c2 47) as [->|H2].
      * inversion H; subst. split; [reflexivity|]. exists 0%nat. cbn. repeat split; lia.
      * apply IH in H as (-> & k & -> & Hk & Hs & Hw). split; [reflexivity|]. exists (S (S k)). cbn [length firstn slashes].
        apply N.eqb_neq in H2. rewrite H2. cbn. repeat split; try lia.
    + apply IH in H as (-> & k & -> & Hk & Hs & Hw). split; [reflexivity|]. exists (S k). cbn [length firstn slashes].
      apply N.eqb_neq in H47. rewrite H47. cbn. repeat split; try lia.
Qed.

(** * literal components contain no separator *)
Lemma decode_width' s : s <> [] -> (1 <= snd (decode_rune s) <= length s)%nat.
Proof.
  destruct s as [|b0 t]; [congruence|]. intros _. unfold decode_rune.
  repeat match goal with
         | |- context [if ?c then _ else _] => destruct c
         | |- context [match ?t with [] => _ | _ :: _ => _ end] => destruct t
         end; cbn [snd length]; lia.
Qed.

Lemma syms_concat : forall fuel s, (length s <= fuel)%nat -> concat (map snd (syms_fuel fuel s)) = s.
Proof.
  induction fuel as [|f IH]; intros s Hl.
  - destruct s; [reflexivity|cbn in Hl; lia].
  - destruct s as [|c s']; [reflexivity|]. remember (c :: s') as s eqn:Es.
    assert (Hne : s <> []) by (rewrite Es; discriminate). pose proof (decode_width' s Hne) as Hw.
    rewrite (syms_fuel_S f s Hne). cbn [map concat snd]. rewrite IH by (rewrite skipn_length; lia). apply firstn_skipn.
Qed.

Lemma unquote_slashes : forall rs esc name, unquote_lit rs esc = Some name -> (slashes name <= slashes (concat (map snd rs)))%nat.
Proof.
  induction rs as [|[r b] rs IH]; intros esc name H; cbn [unquote_lit] in H; [destruct esc; [discriminate|]; inversion H; cbn; lia|].
  cbn [map concat snd]. rewrite slashes_app.
  destruct (r =? RuneError); [discriminate|].
  destruct ((r =? 92) && negb esc); [apply IH in H; lia|].
  destruct (((r =? 63) || (r =? 42) || (r =? 91)) && negb esc); [discriminate|].
  destruct (unquote_lit rs false) as [t|] eqn:E; [|discriminate]. cbn in H. inversion H; subst.
  rewrite slashes_app. apply IH in E. lia.
Qed.

Lemma literal_no_slash comp name : slashes comp = 0%nat -> unquote_lit (syms_of comp) false = Some name -> slashes name = 0%nat.
Proof.
  intros Hc H. apply unquote_slashes in H. unfold syms_of in H. rewrite syms_concat in H by lia. lia.
Qed.

(** * list lemmas *)
Lemma fold_one (one : bytes -> option (list bytes)) (g : bytes -> list bytes) :
  (forall pre, one pre = Some (g pre)) -> forall l acc,
  fold_left (fun a pre => match a, one pre with Some l, Some m => Some (l ++ m) | _, _ => None end) l (Some acc) = Some (acc ++ flat_map g l).
Proof.
  intros Hg. induction l as [|x l IH]; intros acc; cbn [fold_left flat_map]; [now rewrite app_nil_r|].
  rewrite Hg, IH, <- app_assoc. reflexivity.
Qed.

Lemma flat_map_if {A B} (c : A -> bool) (f : A -> B) X : flat_map (fun n => if c n then [f n] else []) X = map f (filter c X).
Proof. induction X as [|x X IH]; [reflexivity|]. cbn. destruct (c x); cbn; now rewrite IH. Qed.

Lemma filter_filter {A} (p q : A -> bool) X : filter q (filter p X) = filter (fun n => p n && q n) X.
Proof.
  induction X as [|x X IH]; [reflexivity|]. cbn [filter]. destruct (p x); cbn [filter andb]; [|exact IH].
  destruct (q x); now rewrite IH.
Qed.

Lemma filter_filter_ext {A} (p q r : A -> bool) X : (forall n, p n && q n = r n) -> filter q (filter p X) = filter r X.
Proof. intros H. rewrite filter_filter. apply filter_ext. exact H. Qed.

Lemma flat_map_ext_in {A B} (f g : A -> list B) l : (forall x, In x l -> f x = g x) -> flat_map f l = flat_map g l.
Proof.
  induction l as [|x l IH]; intros H; [reflexivity|]. cbn. rewrite (H x (or_introl eq_refl)), IH; [reflexivity|].
  intros y Hy. apply H. right. exact Hy.
Qed.

Lemma ends_slash_not_dot p : ends_slash p -> beqb p [46] = false.
Proof.
  intros [u ->]. apply beqb_neq. destruct u as [|c [|d u]]; cbn; discriminate.
Qed.

Lemma ends_slash_nonempty p : ends_slash p -> p <> [].
Proof. intros [u ->]. destruct u; discriminate. Qed.

Definition norm (p : bytes) : bytes := if beqb p [46] then [] else p.

Definition shape (paths : list bytes) : Prop := paths = [[46]] \/ uniform paths.

Lemma shape_norm paths : shape paths -> exists c, Forall (fun pre => slashes pre = c) (map norm paths) /\
  Forall (fun p => p <> [] /\ (match norm p with [] => [46] | _ => norm p end) = p) paths.
Proof.
  intros [->|[c Hu]].
  - exists 0%nat. split; repeat constructor. discriminate.
  - exists c. split.
    + induction Hu as [|p l [He Hc] Hu IH]; cbn; constructor; [|exact IH]. unfold norm. now rewrite (ends_slash_not_dot p He).
    + induction Hu as [|p l [He Hc] Hu IH]; constructor; [|exact IH]. unfold norm. rewrite (ends_slash_not_dot p He).
      split; [apply ends_slash_nonempty, He|]. destruct p; [exfalso; eapply ends_slash_nonempty; eauto|reflexivity].
Qed.

(* what a step produces from prefixes with the same number of separators *)
Lemma flat_uniform (G : bytes -> list bytes) L c :
  (forall pre, Forall (fun q => exists n, q = pre ++ n ++ [47] /\ slashes n = 0%nat) (G pre)) ->
  Forall (fun pre => slashes pre = c) L ->
  Forall (fun q => ends_slash q /\ slashes q = S c) (flat_map G L).
Proof.
  intros HG HL. induction HL as [|pre L Hc HL IH]; cbn; [constructor|].
  apply Forall_app. split; [|exact IH].
  eapply Forall_impl; [|apply HG]. cbn. intros q (n & -> & Hn). split.
  - exists (pre ++ n). now rewrite app_assoc.
  - rewrite !slashes_app, Hn, Hc. cbn. lia.
Qed.

Lemma flat_map_map {A B C} (f : B -> list C) (g : A -> B) l : flat_map f (map g l) = flat_map (fun x => f (g x)) l.
Proof. induction l as [|x l IH]; [reflexivity|]. cbn. now rewrite IH. Qed.

Section Exact.
  Variable root : list (bytes * node).
  Variable cwd : list bytes.
  Hypothesis Hwf : wf_dir root.

  (** ** a literal component *)
  Definition lit_G (name sep pre : bytes) : list bytes :=
    if exists_path root cwd (pre ++ name) (negb (beqb sep [])) then [pre ++ name ++ sep] else [].

  Lemma lit_model name sep paths :
    flat_map (fun p => let p' := if beqb p [46] then name else p ++ name in
                       if exists_path root cwd p' (negb (beqb sep [])) then [p' ++ sep] else []) paths
    = flat_map (lit_G name sep) (map norm paths).
  Proof.
    rewrite flat_map_map. apply flat_map_ext_in. intros p _. unfold lit_G, norm. cbv zeta.
    destruct (beqb p [46]); cbn [app]; [reflexivity|]. now rewrite <- app_assoc.
  Qed.

  Lemma lit_spec comp sep name l : unquote_lit (syms_of comp) false = Some name ->
    spec_step root cwd (Some l) comp sep = Some (flat_map (lit_G name sep) l).
  Proof.
    intros H. unfold spec_step.
    match goal with |- fold_left ?F _ _ = _ => set (FF := F) end.
    assert (G : forall l acc, fold_left FF l (Some acc) = Some (acc ++ flat_map (lit_G name sep) l)).
    { clear l. induction l as [|x l IH]; intros acc; cbn [fold_left flat_map]; [now rewrite app_nil_r|].
      unfold FF at 2. cbv beta zeta. rewrite H. fold FF. unfold lit_G at 1.
      rewrite IH, <- app_assoc. reflexivity. }
    apply (G l []).
  Qed.

  Lemma lit_G_names name sep pre : slashes name = 0%nat ->
    Forall (fun q => exists n, q = pre ++ n ++ sep /\ slashes n = 0%nat) (lit_G name sep pre).
  Proof. intros Hn. unfold lit_G. destruct (exists_path _ _ _ _); repeat constructor. eauto. Qed.

  (** ** a component with pattern characters *)
  Definition gmode : N := N.lor Extracted.mode_Prefix Extracted.mode_Suffix.

  Definition mstep (its : list ritem) (sep : bytes) (acc : option (list bytes)) (p : bytes) : option (list bytes) :=
    match acc with
    | None => None
    | Some ms =>
      match glob_dir root cwd p its with
      | inr _ => None
      | inl None => None
      | inl (Some names) =>
        Some (ms ++ flat_map (fun n => let n' := if beqb p [46] then n else p ++ n in
                                       if negb (negb (beqb sep [])) || exists_path root cwd n' true then [n' ++ sep] else []) names)
      end
    end.

  Definition pat_h (its : list ritem) (sep p : bytes) : list bytes :=
    match glob_dir root cwd p its with
    | inl (Some names) =>
      flat_map (fun n => let n' := if beqb p [46] then n else p ++ n in
                         if negb (negb (beqb sep [])) || exists_path root cwd n' true then [n' ++ sep] else []) names
    | _ => []
    end.

  Lemma model_fold its sep : forall paths acc ms, fold_left (mstep its sep) paths (Some acc) = Some ms ->
    ms = acc ++ flat_map (pat_h its sep) paths /\
    Forall (fun p => exists names, glob_dir root cwd p its = inl (Some names)) paths.
  Proof.
    induction paths as [|p paths IH]; intros acc ms H; cbn [fold_left flat_map] in *.
    - inversion H. split; [now rewrite app_nil_r|constructor].
    - unfold mstep at 2 in H. unfold pat_h at 1.
      destruct (glob_dir root cwd p its) as [[names|]|] eqn:Eg.
      + apply IH in H as [-> HF]. split; [now rewrite <- app_assoc|]. constructor; eauto.
      + exfalso. clear -H. induction paths; cbn in H; [discriminate|auto].
      + exfalso. clear -H. induction paths; cbn in H; [discriminate|auto].
  Qed.

  Definition pat_ok (comp sep pre n : bytes) : bool :=
    match comp_matches comp n with
    | Some true => (literal_dot comp || negb (has_prefix [46] n))
                   && (negb (negb (beqb sep [])) || stat_isdir root cwd (pre ++ n))
    | _ => false
    end.

  Definition pat_G (comp sep pre : bytes) : list bytes :=
    match resolve root cwd (match pre with [] => [46] | _ => pre end) with
    | Some (Dir es) =>
      map (fun n => pre ++ n ++ sep)
          (filter (pat_ok comp sep pre) ((if literal_dot comp then [[46]; [46; 46]] else []) ++ map fst es))
    | _ => []
    end.

  Lemma pat_spec comp sep a l :
    unquote_lit (syms_of comp) false = None -> compile_model [comp] gmode = COk [a] ->
    spec_step root cwd (Some l) comp sep = Some (flat_map (pat_G comp sep) l).
  Proof.
    intros Hu Hc. unfold spec_step.
    match goal with |- fold_left ?F _ _ = _ => set (FF := F) end.
    assert (G : forall l acc, fold_left FF l (Some acc) = Some (acc ++ flat_map (pat_G comp sep) l)).
    { clear l. induction l as [|x l IH]; intros acc; cbn [fold_left flat_map]; [now rewrite app_nil_r|].
      unfold FF at 2. cbv beta zeta. rewrite Hu. fold FF. unfold pat_G at 1.
      destruct (resolve root cwd match x with [] => [46] | _ :: _ => x end) as [[| |es]|].
      - rewrite IH, <- app_assoc. reflexivity.
      - rewrite IH, <- app_assoc. reflexivity.
      - unfold comp_matches at 1. rewrite Hu. fold gmode. rewrite Hc.
        rewrite IH, <- app_assoc. reflexivity.
      - rewrite IH, <- app_assoc. reflexivity. }
    apply (G l []).
  Qed.

  Lemma norm_join p n : (if beqb p [46] then n else p ++ n) = norm p ++ n.
  Proof. unfold norm. destruct (beqb p [46]); reflexivity. Qed.

  Lemma pat_pointwise comp sep a p names :
    unquote_lit (syms_of comp) false = None -> compile_model [comp] gmode = COk [a] ->
    (match norm p with [] => [46] | _ => norm p end) = p ->
    glob_dir root cwd p (map fst a) = inl (Some names) ->
    pat_h (map fst a) sep p = pat_G comp sep (norm p).
  Proof.
    intros Hu Hc Hp Hg. unfold pat_h, pat_G. rewrite Hg, Hp. unfold glob_dir, readdir in Hg.
    destruct (resolve root cwd p) as [[| |es]|]; try (inversion Hg; subst; reflexivity); try discriminate.
    injection Hg as <-.
    rewrite (compile_dot comp gmode a Hc).
    assert (Hm : forall n, comp_matches comp n = Some (full_match [map fst a] (syms_of n))).
    { intros n. unfold comp_matches. rewrite Hu. fold gmode. rewrite Hc, full_match_pmb. reflexivity. }
    set (c := fun n : bytes => negb (negb (beqb sep [])) || exists_path root cwd (norm p ++ n) true).
    rewrite (flat_map_ext_in _ (fun n => if c n then [(fun n => norm p ++ n ++ sep) n] else [])).
    2:{ intros n _. cbv zeta. rewrite norm_join. unfold c. destruct (_ || _); [now rewrite <- app_assoc|reflexivity]. }
    rewrite flat_map_if, !filter_app. f_equal. f_equal.
    - destruct (literal_dot comp) eqn:Ed; [|reflexivity].
      change (filter c (filter (fun n => full_match [map fst a] (syms_of n)) [[46]; [46; 46]]) = filter (pat_ok comp sep (norm p)) [[46]; [46; 46]]).
      apply filter_filter_ext. intros n.
      unfold pat_ok. rewrite Hm, Ed. unfold c, exists_path. destruct (full_match _ _); reflexivity.
    - apply filter_filter_ext. intros n. unfold pat_ok. rewrite Hm. unfold c, exists_path.
      destruct (full_match _ _); cbn [andb]; reflexivity.
  Qed.

  Lemma pat_G_names comp sep pre :
    Forall (fun q => exists n, q = pre ++ n ++ sep /\ slashes n = 0%nat) (pat_G comp sep pre).
  Proof.
    unfold pat_G. destruct (resolve root cwd _) as [[| |es]|] eqn:Er; try constructor.
    apply Forall_forall. intros q Hq. apply in_map_iff in Hq as (n & <- & Hn). exists n. split; [reflexivity|].
    apply filter_In in Hn as [Hn _]. apply in_app_or in Hn as [Hn|Hn].
    - destruct (literal_dot comp); [|destruct Hn]. destruct Hn as [<-|[<-|[]]]; reflexivity.
    - pose proof (resolve_wf _ _ _ _ Hwf Er) as Hd. pose proof (names_wf es Hd) as Hf.
      rewrite Forall_forall in Hf. apply Hf, Hn.
  Qed.

  (** ** one iteration of the component loop *)
  Definition model_comp (f : nat) (paths : list bytes) (comp sep rest : bytes) : gres :=
    let needdir := negb (beqb sep []) in
    match unquote_lit (syms_of comp) false with
    | Some name =>
      let ms := flat_map (fun p => let p' := if beqb p [46] then name else p ++ name in
                                   if exists_path root cwd p' needdir then [p' ++ sep] else []) paths in
      match ms with
      | [] => GOk []
      | _ => glob_loop root cwd f (sort_bytes ms) rest
      end
    | None =>
      match compile_model [comp] (N.lor Extracted.mode_Prefix Extracted.mode_Suffix) with
      | CErr => GErr
      | CUnmodelled => GUnmodelled
      | COk alts =>
        let its := match alts with [a] => map fst a | _ => [] end in
        let step (acc : option (list bytes)) (p : bytes) : option (list bytes) :=
          match acc with
          | None => None
          | Some ms =>
            match glob_dir root cwd p its with
            | inr _ => None
            | inl None => None
            | inl (Some names) =>
              Some (ms ++ flat_map (fun n => let n' := if beqb p [46] then n else p ++ n in
                                             if negb needdir || exists_path root cwd n' true then [n' ++ sep] else []) names)
            end
          end in
        match fold_left step paths (Some []) with
        | None => GErr
        | Some [] => GOk []
        | Some ms => glob_loop root cwd f (sort_bytes ms) rest
        end
      end
    end.

  Lemma glob_loop_unfold f paths pattern : pattern <> [] ->
    glob_loop root cwd (S f) paths pattern =
    let '(i, w, sep) := match index_sep (S (length pattern)) pattern 0 with
                        | Some (i, w, sp) => (i, w, sp)
                        | None => (length pattern, 0%nat, [])
                        end in
    let rest := skipn (i + w) pattern in
    match i with
    | O => glob_loop root cwd f (if Nat.ltb 0 w then map (fun p => p ++ sep) paths else paths) rest
    | _ => model_comp f paths (firstn i pattern) sep rest
    end.
  Proof. destruct pattern; [congruence|]. intros _. reflexivity. Qed.

  Lemma spec_loop_unfold f acc pattern : pattern <> [] ->
    spec_loop root cwd (S f) acc pattern =
    let '(i, w, sep) := match index_sep (S (length pattern)) pattern 0 with
                        | Some (i, w, sp) => (i, w, sp)
                        | None => (length pattern, 0%nat, [])
                        end in
    let rest := skipn (i + w) pattern in
    match i with
    | O => spec_loop root cwd f (option_map (map (fun p => p ++ sep)) acc) rest
    | _ => spec_loop root cwd f (spec_step root cwd acc (firstn i pattern) sep) rest
    end.
  Proof. destruct pattern; [congruence|]. intros _. reflexivity. Qed.

  Lemma spec_loop_nil : forall f pat, spec_loop root cwd f (Some []) pat = Some [].
  Proof.
    induction f as [|f IH]; intros pat; [reflexivity|].
    destruct pat as [|c pt]; [reflexivity|]. rewrite spec_loop_unfold by discriminate.
    destruct (index_sep _ _ _) as [[[i w] sp]|]; cbv beta iota zeta.
    - destruct i; apply IH.
    - cbn [length]. apply IH.
  Qed.

  Definition conclusion (f : nat) (acc : option (list bytes)) (rest : bytes) (res : list bytes) : Prop :=
    exists l', spec_loop root cwd f acc rest = Some l' /\ Permutation res l' /\ ascending res.

  Definition continuation (f : nat) (rest : bytes) (res : list bytes) : Prop :=
    forall ms l', Permutation ms l' -> (rest <> [] -> uniform ms) ->
      glob_loop root cwd f (sort_bytes ms) rest = GOk res -> conclusion f (Some l') rest res.

  Lemma finish (G : bytes -> list bytes) f paths l sep rest res :
    (sep = [47] /\ (forall pre, Forall (fun q => exists n, q = pre ++ n ++ [47] /\ slashes n = 0%nat) (G pre))) \/ rest = [] ->
    shape paths -> Permutation (map norm paths) l ->
    match flat_map G (map norm paths) with
    | [] => GOk []
    | _ => glob_loop root cwd f (sort_bytes (flat_map G (map norm paths))) rest
    end = GOk res ->
    continuation f rest res ->
    conclusion f (Some (flat_map G l)) rest res.
  Proof.
    intros Hsep Hsh HP H K.
    assert (HP' : Permutation (flat_map G (map norm paths)) (flat_map G l)) by (apply Permutation_flat_map, HP).
    destruct (flat_map G (map norm paths)) as [|m ms] eqn:Em.
    - inversion H; subst. apply Permutation_nil in HP'. rewrite HP'. exists []. split; [apply spec_loop_nil|]. split; constructor.
    - rewrite <- Em in *. apply (K _ _ HP'); [|exact H].
      intros Hr. destruct Hsep as [[-> HG]|Hn]; [|congruence].
      destruct (shape_norm paths Hsh) as (c & Hc & _). exists (S c). apply flat_uniform; assumption.
  Qed.

  Lemma comp_exact f paths comp sep rest l res :
    (sep = [47] /\ slashes comp = 0%nat) \/ (sep = [] /\ rest = []) ->
    shape paths -> Permutation (map norm paths) l ->
    model_comp f paths comp sep rest = GOk res ->
    continuation f rest res ->
    conclusion f (spec_step root cwd (Some l) comp sep) rest res.
  Proof.
    intros Hsep Hsh HP H K. unfold model_comp in H. cbv zeta in H.
    destruct (unquote_lit (syms_of comp) false) as [name|] eqn:Eu.
    - rewrite lit_model in H. rewrite (lit_spec comp sep name l Eu).
      apply (finish (lit_G name sep) f paths l sep rest res); try assumption.
      destruct Hsep as [[-> Hc]|[_ ->]]; [left|right; reflexivity]. split; [reflexivity|].
      intros pre. apply lit_G_names. eapply literal_no_slash; eassumption.
    - destruct (compile_model [comp] (N.lor Extracted.mode_Prefix Extracted.mode_Suffix)) as [alts| |] eqn:Ec; try discriminate.
      destruct (compile_single _ _ _ Ec) as (a & -> & _).
      change (fold_left _ paths (Some [])) with (fold_left (mstep (map fst a) sep) paths (Some [])) in H.
      destruct (fold_left (mstep (map fst a) sep) paths (Some [])) as [ms|] eqn:Ef; [|discriminate].
      apply model_fold in Ef as [Ems HF]. cbn [app] in Ems.
      destruct (shape_norm paths Hsh) as (c & _ & Hnp).
      assert (E : ms = flat_map (pat_G comp sep) (map norm paths)).
      { rewrite Ems, flat_map_map. apply flat_map_ext_in. intros p Hp.
        rewrite Forall_forall in HF, Hnp. destruct (HF p Hp) as [names Hg]. destruct (Hnp p Hp) as [_ Hpp].
        eapply pat_pointwise; eassumption. }
      rewrite (pat_spec comp sep a l Eu Ec).
      apply (finish (pat_G comp sep) f paths l sep rest res); try assumption.
      + destruct Hsep as [[-> Hc]|[_ ->]]; [left|right; reflexivity]. split; [reflexivity|].
        intros pre. apply pat_G_names.
      + rewrite <- E. destruct ms; exact H.
  Qed.

  (** ** the loop *)
  Definition inv (pattern : bytes) (paths l : list bytes) : Prop :=
    (paths = [[46]] /\ l = [[]] /\ pattern <> [] /\
     forall w sp, index_sep (S (length pattern)) pattern 0 <> Some (0%nat, w, sp))
    \/ (Permutation paths l /\ (pattern <> [] -> uniform paths)).

  Lemma inv_shape pattern paths l : inv pattern paths l -> pattern <> [] -> shape paths /\ Permutation (map norm paths) l.
  Proof.
    intros [(-> & -> & _ & _)|[HP Hu]] Hne.
    - split; [left; reflexivity|reflexivity].
    - specialize (Hu Hne). split; [right; exact Hu|].
      destruct Hu as [c Hc]. assert (E : map norm paths = paths).
      { clear HP. induction Hc as [|p ps [He _] Hc IH]; [reflexivity|]. cbn. rewrite IH. unfold norm. now rewrite (ends_slash_not_dot p He). }
      rewrite E. exact HP.
  Qed.

  Lemma uniform_perm a b : Permutation a b -> uniform a -> uniform b.
  Proof. intros P [c H]. exists c. eapply Permutation_Forall; eassumption. Qed.

  Lemma uniform_sep l : uniform l -> uniform (map (fun p => p ++ [47]) l).
  Proof.
    intros [c H]. exists (S c). induction H as [|p ps [He Hc] H IH]; cbn; constructor; [|exact IH]. split.
    - exists p. reflexivity.
    - rewrite slashes_app, Hc. cbn. lia.
  Qed.

  Lemma loop_exact : forall f pattern paths l res,
    (length pattern < f)%nat -> inv pattern paths l -> ascending paths ->
    glob_loop root cwd f paths pattern = GOk res -> conclusion f (Some l) pattern res.
  Proof.
    induction f as [|f IH]; intros pattern paths l res Hf HI Ha H; [lia|].
    destruct pattern as [|c0 pt] eqn:Ep.
    - cbn in H. inversion H; subst. destruct HI as [(_ & _ & Hne & _)|[HP _]]; [congruence|]. exists l. cbn. auto.
    - rewrite <- Ep in *. assert (Hne : pattern <> []) by (rewrite Ep; discriminate). clear Ep c0 pt.
      rewrite (glob_loop_unfold f paths pattern Hne) in H. unfold conclusion. rewrite (spec_loop_unfold f (Some l) pattern Hne).
      assert (Cont : forall rest, (length rest < f)%nat -> continuation f rest res).
      { intros rest Hr ms l' HP Hu Hg. apply (IH rest (sort_bytes ms) l' res Hr); [|apply sort_bytes_ascending|exact Hg].
        right. split.
        - eapply Permutation_trans; [apply Permutation_sym, sort_bytes_permutation|exact HP].
        - intros Hn. eapply uniform_perm; [apply sort_bytes_permutation|]. apply Hu, Hn. }
      destruct (inv_shape _ _ _ HI Hne) as [Hsh HP].
      destruct (index_sep (S (length pattern)) pattern 0) as [[[i w] sp]|] eqn:Ei; cbv beta iota zeta in *.
      + pose proof (index_sep_spec _ _ _ _ _ _ Ei) as (-> & k & -> & Hk & Hs & Hw). cbn [Nat.add] in *.
        assert (Hrest : (length (skipn (k + w) pattern) < f)%nat) by (rewrite skipn_length; lia).
        destruct k as [|k].
        * (* the pattern starts with a separator *)
          replace (Nat.ltb 0 w) with true in H by (symmetry; apply Nat.ltb_lt; lia).
          destruct HI as [(_ & _ & _ & Hno)|[HPm Hu]]; [exfalso; eapply Hno; exact Ei|]. specialize (Hu Hne).
          apply (IH (skipn (0 + w) pattern) (map (fun p => p ++ [47]) paths) (map (fun p => p ++ [47]) l) res Hrest); [|apply map_sep_asc; assumption|exact H].
          right. split; [apply Permutation_map, HPm|]. intros _. apply uniform_sep, Hu.
        * apply (comp_exact f paths (firstn (S k) pattern) [47] _ l res); try assumption; [left; auto|].
          apply Cont, Hrest.
      + (* no separator: the last component *)
        assert (El : length pattern = S (length pattern - 1)) by (destruct pattern; [congruence|cbn; lia]).
        rewrite El in H |- *. rewrite <- El in H |- *.
        rewrite Nat.add_0_r, skipn_all in H |- *.
        apply (comp_exact f paths _ [] [] l res); try assumption; [right; auto|].
        apply Cont. cbn. lia.
  Qed.

  (** ** the theorem *)
  Theorem glob_exact pattern paths :
    glob_model root cwd pattern = GOk paths -> glob_spec root cwd pattern = Some paths.
  Proof.
    unfold glob_model, glob_spec. destruct pattern as [|c0 pt] eqn:Ep; [intros H; inversion H; reflexivity|].
    rewrite <- Ep. assert (Hne : pattern <> []) by (rewrite Ep; discriminate). clear Ep c0 pt.
    assert (Fin : forall pat paths0 l0, (pat = pattern \/ True) -> inv pat paths0 l0 -> ascending paths0 ->
              glob_loop root cwd (S (length pat)) paths0 pat = GOk paths ->
              option_map sort_bytes (spec_loop root cwd (S (length pat)) (Some l0) pat) = Some paths).
    { intros pat paths0 l0 _ HI Ha H. destruct (loop_exact (S (length pat)) pat paths0 l0 paths (Nat.lt_succ_diag_r _) HI Ha H) as (l' & -> & HP & Hasc).
      cbn [option_map]. f_equal. apply asc_perm_eq; [apply sort_bytes_ascending|exact Hasc|].
      eapply Permutation_trans; [apply Permutation_sym, sort_bytes_permutation|apply Permutation_sym, HP]. }
    destruct (index_sep (S (length pattern)) pattern 0) as [[[i w] sp]|] eqn:Ei.
    - destruct i as [|i].
      + apply Fin; [right; exact I| |constructor].
        right. split; [reflexivity|]. intros _. exists 1%nat. repeat constructor. exists []. reflexivity.
      + apply Fin; [left; reflexivity| |constructor].
        left. repeat split; try assumption. intros w' sp' E. rewrite Ei in E. discriminate.
    - apply Fin; [left; reflexivity| |constructor].
      left. repeat split; try assumption. intros w' sp' E. rewrite Ei in E. discriminate.
  Qed.
End Exact.
