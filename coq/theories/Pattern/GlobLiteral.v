(** Pathname expansion of quoted text (C15, the default mode with pathname expansion enabled):
    the pattern that Expand hands to Glob for quoted ASCII text is made of literal components only,
    and Glob returns nothing, or exactly the text -- so the field is the text either way. *)
From GoSh Require Import Base.Bytes Pattern.Regex Pattern.PCompile Pattern.Match Pattern.PSpec Pattern.Glob Pattern.GlobExact.
From GoSh Require Import Store.Env Expand.Expand Expand.QuotedLiteral.
From GoShGen Require Import Extracted.
From Coq Require Import Lia.
Open Scope N_scope.

Inductive latom := LPlain (c : N) | LEsc (c : N).
Definition latom_ok (a : latom) : bool :=
  match a with
  | LPlain c => (c <? 128) && negb (c =? 63) && negb (c =? 42) && negb (c =? 91) && negb (c =? 92)
  | LEsc c => (c <? 128) && negb (c =? 47)
  end.
Definition latom_pat (a : latom) : bytes := match a with LPlain c => [c] | LEsc c => [92; c] end.
Definition latom_char (a : latom) : N := match a with LPlain c => c | LEsc c => c end.
Definition pat_of (l : list latom) : bytes := flat_map latom_pat l.
Definition text_of (l : list latom) : bytes := map latom_char l.
Definition is_sep (a : latom) : bool := match a with LPlain 47 => true | _ => false end.

(** esc_pattern, as atoms *)
Definition atoms_of (s : bytes) : list latom := map (fun c => if escaped c then LEsc c else LPlain c) s.

Lemma atoms_pat s : pat_of (atoms_of s) = esc_pattern s.
Proof.
  rewrite esc_pattern_runes. induction s as [|c s IH]; [reflexivity|]. cbn [atoms_of map pat_of flat_map esc_runes]. fold (atoms_of s) (pat_of (atoms_of s)) (esc_runes s).
  rewrite IH. destruct (escaped c); reflexivity.
Qed.
Lemma atoms_text s : text_of (atoms_of s) = s.
Proof. induction s as [|c s IH]; [reflexivity|]. cbn [atoms_of map text_of]. fold (atoms_of s) (text_of (atoms_of s)). rewrite IH. destruct (escaped c); reflexivity. Qed.
Lemma atoms_ok s : ascii s = true -> forallb latom_ok (atoms_of s) = true.
Proof.
  induction s as [|c s IH]; intros Ha; [reflexivity|]. cbn [ascii forallb] in Ha. apply Bool.andb_true_iff in Ha as [Hc Hs].
  cbn [atoms_of map forallb]. fold (atoms_of s). rewrite (IH Hs), Bool.andb_true_r.
  destruct (escaped c) eqn:E; cbn [latom_ok]; rewrite Hc; cbn [andb].
  - destruct (N.eqb_spec c 47) as [->|]; [vm_compute in E; discriminate|reflexivity].
  - apply escaped_spec in E as (H1 & H2 & H3 & H4 & _). apply N.eqb_neq in H1, H2, H3, H4. now rewrite H1, H2, H3, H4.
Qed.

Ltac crk q := destruct q as [q|q|]; try reflexivity; try congruence; try crk q.

Lemma pat_of_app a b : pat_of (a ++ b) = pat_of a ++ pat_of b.
Proof. unfold pat_of. now rewrite flat_map_app. Qed.
Lemma text_of_app a b : text_of (a ++ b) = text_of a ++ text_of b.
Proof. unfold text_of. now rewrite map_app. Qed.
Lemma pat_of_length a : (length a <= length (pat_of a))%nat.
Proof. induction a as [|x a IH]; [cbn; lia|]. cbn [pat_of flat_map]. fold (pat_of a). rewrite app_length. destruct x; cbn [latom_pat length]; lia. Qed.

(** indexSep finds the first separator atom; escaped characters are skipped in pairs *)
Lemma index_sep_atoms : forall pre f tail off, forallb latom_ok pre = true -> forallb (fun a => negb (is_sep a)) pre = true ->
  (length pre < f)%nat ->
  index_sep f (pat_of pre ++ 47 :: tail) off = Some ((off + length (pat_of pre))%nat, 1%nat, [47]).
Proof.
  induction pre as [|a pre IH]; intros f tail off Hok Hns Hf.
  - destruct f; [cbn in Hf; lia|]. cbn. now rewrite Nat.add_0_r.
  - destruct f; [cbn in Hf; lia|]. cbn [length] in Hf. cbn [forallb] in Hok, Hns.
    apply Bool.andb_true_iff in Hok as [Ha Hok]. apply Bool.andb_true_iff in Hns as [Hna Hns].
    cbn [pat_of flat_map]. fold (pat_of pre). rewrite <- app_assoc, app_length.
    destruct a as [c|c]; cbn [latom_pat app length latom_ok is_sep] in *.
    + repeat (apply Bool.andb_true_iff in Ha as [Ha ?]).
      repeat match goal with H : negb _ = true |- _ => apply Bool.negb_true_iff in H end.
      assert (H47 : c <> 47) by (intros ->; cbn in Hna; discriminate).
      assert (H92 : c <> 92) by (intros ->; match goal with H : (92 =? 92) = false |- _ => cbn in H; discriminate end).
      rewrite <- Nat.add_succ_comm. rewrite <- (IH f tail (S off) Hok Hns ltac:(lia)).
      cbn [index_sep]. destruct c as [|q]; [reflexivity|]. crk q.
    + apply Bool.andb_true_iff in Ha as [_ H47]. apply Bool.negb_true_iff, N.eqb_neq in H47.
      replace (off + (2 + length (pat_of pre)))%nat with (S (S off) + length (pat_of pre))%nat by lia.
      rewrite <- (IH f tail (S (S off)) Hok Hns ltac:(lia)).
      cbn [index_sep]. destruct c as [|q]; [reflexivity|]. crk q.
Qed.

Lemma index_sep_none : forall pre f off, forallb latom_ok pre = true -> forallb (fun a => negb (is_sep a)) pre = true ->
  index_sep f (pat_of pre) off = None.
Proof.
  induction pre as [|a pre IH]; intros f off Hok Hns.
  - destruct f; reflexivity.
  - destruct f; [reflexivity|]. cbn [forallb] in Hok, Hns.
    apply Bool.andb_true_iff in Hok as [Ha Hok]. apply Bool.andb_true_iff in Hns as [Hna Hns].
    cbn [pat_of flat_map]. fold (pat_of pre).
    destruct a as [c|c]; cbn [latom_pat app latom_ok is_sep] in *.
    + repeat (apply Bool.andb_true_iff in Ha as [Ha ?]).
      repeat match goal with H : negb _ = true |- _ => apply Bool.negb_true_iff in H end.
      assert (H47 : c <> 47) by (intros ->; cbn in Hna; discriminate).
      assert (H92 : c <> 92) by (intros ->; match goal with H : (92 =? 92) = false |- _ => cbn in H; discriminate end).
      rewrite <- (IH f (S off) Hok Hns).
      cbn [index_sep]. destruct c as [|q]; [reflexivity|]. crk q.
    + apply Bool.andb_true_iff in Ha as [_ H47]. apply Bool.negb_true_iff, N.eqb_neq in H47.
      rewrite <- (IH f (S (S off)) Hok Hns).
      cbn [index_sep]. destruct c as [|q]; [reflexivity|]. crk q.
Qed.

Lemma pat_ascii l : forallb latom_ok l = true -> ascii (pat_of l) = true.
Proof.
  induction l as [|a l IH]; intros H; [reflexivity|]. cbn [forallb] in H. apply Bool.andb_true_iff in H as [Ha Hl].
  cbn [pat_of flat_map]. fold (pat_of l). unfold ascii. rewrite forallb_app. fold (ascii (pat_of l)). rewrite (IH Hl), Bool.andb_true_r.
  destruct a as [c|c]; cbn [latom_pat forallb latom_ok] in *.
  - repeat (apply Bool.andb_true_iff in Ha as [Ha ?]). now rewrite Ha.
  - apply Bool.andb_true_iff in Ha as [Ha _]. now rewrite Ha.
Qed.

(** a component made of such atoms is a literal: unquote gives its text *)
Lemma unquote_atoms : forall l, forallb latom_ok l = true ->
  unquote_lit (map (fun b => (b, [b])) (pat_of l)) false = Some (text_of l).
Proof.
  induction l as [|a l IH]; intros H; [reflexivity|]. cbn [forallb] in H. apply Bool.andb_true_iff in H as [Ha Hl].
  cbn [pat_of flat_map text_of map]. fold (pat_of l) (text_of l). rewrite map_app.
  destruct a as [c|c]; cbn [latom_pat map app latom_ok latom_char] in *.
  - repeat (apply Bool.andb_true_iff in Ha as [Ha ?]).
    repeat match goal with H : negb _ = true |- _ => apply Bool.negb_true_iff in H end.
    apply N.ltb_lt in Ha. assert (HR : (c =? RuneError) = false) by (apply N.eqb_neq; unfold RuneError; lia).
    cbn [unquote_lit]. rewrite HR. 
    repeat match goal with H : (c =? _) = false |- _ => rewrite H end. cbn [andb orb negb].
    rewrite (IH Hl). reflexivity.
  - apply Bool.andb_true_iff in Ha as [Ha _]. apply N.ltb_lt in Ha.
    assert (HR : (c =? RuneError) = false) by (apply N.eqb_neq; unfold RuneError; lia).
    cbn [unquote_lit]. change (92 =? RuneError) with false. change (92 =? 92) with true. cbn [andb negb].
    rewrite HR. rewrite !Bool.andb_false_r. rewrite (IH Hl). reflexivity.
Qed.

Lemma unquote_comp l : forallb latom_ok l = true -> unquote_lit (syms_of (pat_of l)) false = Some (text_of l).
Proof.
  intros H. unfold syms_of. rewrite (syms_ascii _ _ (pat_ascii l H) (le_n _)). apply unquote_atoms. exact H.
Qed.

(** the path Glob builds from the start path [p] when every component exists *)
Fixpoint F (p : bytes) (incomp : bool) (l : list latom) : bytes :=
  match l with
  | [] => p
  | a :: l' => if is_sep a then F (p ++ [47]) false l'
               else F ((if negb incomp && beqb p [46] then [] else p) ++ [latom_char a]) true l'
  end.

Fixpoint span (l : list latom) : list latom * list latom :=
  match l with
  | [] => ([], [])
  | a :: l' => if is_sep a then ([], l) else let '(pre, r) := span l' in (a :: pre, r)
  end.

Lemma span_spec l : let '(pre, r) := span l in
  l = pre ++ r /\ forallb (fun a => negb (is_sep a)) pre = true /\ (r = [] \/ exists post, r = LPlain 47 :: post).
Proof.
  induction l as [|a l IH]; [cbn; auto|]. cbn [span]. destruct (is_sep a) eqn:E.
  - split; [reflexivity|]. split; [reflexivity|]. right. destruct a as [c|c]; [|discriminate]. cbn in E.
    destruct c as [|q]; [discriminate|]. exists l. f_equal. f_equal. 
    repeat (destruct q as [q|q|]; try discriminate). reflexivity.
  - destruct (span l) as [pre r]. destruct IH as (-> & Hns & Hr). split; [reflexivity|]. split; [cbn [forallb]; now rewrite E, Hns|exact Hr].
Qed.

Lemma F_comp : forall pre p r, pre <> [] -> forallb (fun a => negb (is_sep a)) pre = true ->
  F p false (pre ++ r) = F ((if beqb p [46] then [] else p) ++ text_of pre) true r.
Proof.
  intros pre p r Hne Hns. destruct pre as [|a pre]; [congruence|]. clear Hne.
  cbn [forallb] in Hns. apply Bool.andb_true_iff in Hns as [Ha Hns]. apply Bool.negb_true_iff in Ha.
  cbn [app F text_of map]. rewrite Ha. cbn [negb andb]. fold (text_of pre).
  change (latom_char a :: text_of pre) with ([latom_char a] ++ text_of pre). rewrite app_assoc.
  generalize ((if beqb p [46] then [] else p) ++ [latom_char a]) as q. clear Ha a p.
  induction pre as [|b pre IH]; intros q.
  - cbn [app text_of map]. now rewrite app_nil_r.
  - cbn [forallb] in Hns. apply Bool.andb_true_iff in Hns as [Hb Hns]. apply Bool.negb_true_iff in Hb.
    cbn [app F text_of map]. rewrite Hb. cbn [negb andb]. fold (text_of pre). rewrite (IH Hns).
    rewrite <- !app_assoc. reflexivity.
Qed.

Lemma sort_single x : sort_bytes [x] = [x].
Proof. reflexivity. Qed.

Section Lit.
  Variable root : list (bytes * node).
  Variable cwd : list bytes.

  Lemma loop_literal : forall f l p, forallb latom_ok l = true -> (length (pat_of l) < f)%nat ->
    glob_loop root cwd f [p] (pat_of l) = GOk [] \/ glob_loop root cwd f [p] (pat_of l) = GOk [F p false l].
  Proof.
    induction f as [|f IH]; intros l p Hok Hf; [lia|].
    destruct l as [|a0 l0] eqn:El; [right; reflexivity|]. rewrite <- El in *.
    assert (Hpne : pat_of l <> []).
    { rewrite El. cbn [pat_of flat_map]. destruct a0; discriminate. }
    pose proof (span_spec l) as Hs. destruct (span l) as [pre r]. destruct Hs as (Hl & Hns & Hr).
    assert (Hokp : forallb latom_ok pre = true /\ forallb latom_ok r = true).
    { rewrite Hl, forallb_app in Hok. apply Bool.andb_true_iff in Hok. exact Hok. }
    destruct Hokp as [Hokpre Hokr].
    cbn [glob_loop]. destruct (pat_of l) as [|b0 pt] eqn:Ep; [congruence|]. rewrite <- Ep in *. clear b0 pt Ep.
    destruct Hr as [-> | [post ->]].
    - (* no separator left: the last component *)
      rewrite app_nil_r in Hl. subst pre.
      rewrite (index_sep_none l _ 0 Hok Hns). rewrite skipn_all2 by lia.
      destruct (length (pat_of l)) as [|n] eqn:En; [destruct (pat_of l); [congruence|discriminate]|]. rewrite <- En.
      rewrite firstn_all. rewrite (unquote_comp l Hok). cbn [flat_map app beqb].
      assert (HF : F p false l = (if beqb p [46] then text_of l else p ++ text_of l)).
      { rewrite <- (app_nil_r l) at 1. rewrite (F_comp l p []); [|rewrite El; discriminate|exact Hns]. cbn [F]. destruct (beqb p [46]); reflexivity. }
      rewrite <- HF. cbn [negb]. rewrite app_nil_r.
      destruct (exists_path root cwd (F p false l) false); [|left; reflexivity].
      right. rewrite app_nil_r, sort_single. destruct f; reflexivity.
    - (* a separator follows *)
      rewrite Hl, pat_of_app. cbn [pat_of flat_map latom_pat app]. fold (pat_of post).
      rewrite (index_sep_atoms pre _ (pat_of post) 0 Hokpre Hns) by (rewrite app_length; pose proof (pat_of_length pre); cbn [length]; lia).
      cbn [plus]. 
      assert (Hsk : skipn (length (pat_of pre) + 1) (pat_of pre ++ 47 :: pat_of post) = pat_of post).
      { replace (length (pat_of pre) + 1)%nat with (length (pat_of pre ++ [47])) by (rewrite app_length; reflexivity).
        change (47 :: pat_of post) with ([47] ++ pat_of post). rewrite app_assoc, skipn_app, Nat.sub_diag, skipn_all. reflexivity. }
      rewrite Hsk.
      assert (Hokpost : forallb latom_ok post = true) by (cbn [forallb] in Hokr; apply Bool.andb_true_iff in Hokr as [_ H]; exact H).
      assert (Hlen : (length (pat_of post) < f)%nat).
      { rewrite Hl, pat_of_app, app_length in Hf. cbn [pat_of flat_map latom_pat app length] in Hf. fold (pat_of post) in Hf. lia. }
      destruct pre as [|a pre'] eqn:Epre.
      + (* the separator comes first *)
        cbn [pat_of flat_map length app]. cbn [Nat.ltb Nat.leb map].
        destruct (IH post (p ++ [47]) Hokpost Hlen) as [H|H]; [left|right]; rewrite H; reflexivity.
      + rewrite <- Epre in *.
        assert (Hi : exists n, length (pat_of pre) = S n).
        { pose proof (pat_of_length pre). rewrite Epre in *. cbn [length] in H. destruct (length (pat_of (a :: pre'))); [lia|eauto]. }
        destruct Hi as [n Hn]. rewrite Hn. rewrite <- Hn.
        rewrite firstn_app, Nat.sub_diag, firstn_all. cbn [firstn]. rewrite app_nil_r.
        rewrite (unquote_comp pre Hokpre). cbn [flat_map app].
        change (negb (beqb [47] [])) with true.
        set (p' := if beqb p [46] then text_of pre else p ++ text_of pre).
        assert (HF : F p false (pre ++ LPlain 47 :: post) = F (p' ++ [47]) false post).
        { rewrite (F_comp pre p _); [|rewrite Epre; discriminate|exact Hns]. cbn [F is_sep]. unfold p'. destruct (beqb p [46]); reflexivity. }
        rewrite HF.
        destruct (exists_path root cwd p' true); [|left; reflexivity].
        rewrite app_nil_r, sort_single.
        destruct (IH post (p' ++ [47]) Hokpost Hlen) as [H|H]; [left|right]; rewrite H; reflexivity.
  Qed.
End Lit.

Lemma F_started : forall l p incomp, (incomp = true \/ exists q, p = q ++ [47]) -> F p incomp l = p ++ text_of l.
Proof.
  induction l as [|a l IH]; intros p incomp H; [cbn; now rewrite app_nil_r|].
  cbn [F text_of map]. fold (text_of l). destruct (is_sep a) eqn:E.
  - rewrite (IH (p ++ [47]) false) by (right; eauto). rewrite <- app_assoc. cbn [app].
    destruct a as [c|c]; [|discriminate]. cbn in E. destruct c as [|q]; [discriminate|].
    repeat (destruct q as [q|q|]; try discriminate). reflexivity.
  - assert (Hp : (if negb incomp && beqb p [46] then [] else p) = p).
    { destruct H as [->|[q ->]]; [reflexivity|]. destruct incomp; [reflexivity|]. cbn [negb andb].
      destruct (beqb (q ++ [47]) [46]) eqn:Eb; [|reflexivity]. apply beqb_eq in Eb.
      destruct q as [|x [|y q]]; cbn in Eb; discriminate. }
    rewrite Hp, (IH (p ++ [latom_char a]) true) by (left; reflexivity). now rewrite <- app_assoc.
Qed.

Section Quoted.
  Variable root : list (bytes * node).
  Variable cwd : list bytes.

  (** Glob on the pattern of quoted ASCII text: nothing, or the text itself *)
  Theorem glob_quoted s : ascii s = true ->
    glob_model root cwd (esc_pattern s) = GOk [] \/ glob_model root cwd (esc_pattern s) = GOk [s].
  Proof.
    intros Ha. rewrite <- (atoms_pat s). pose proof (atoms_ok s Ha) as Hok. pose proof (atoms_text s) as Ht.
    destruct s as [|c s]; [left; reflexivity|].
    unfold glob_model. destruct (pat_of (atoms_of (c :: s))) as [|b0 pt] eqn:Ep.
    { cbn [atoms_of map pat_of flat_map] in Ep. destruct (escaped c); discriminate. }
    rewrite <- Ep. clear b0 pt Ep.
    set (l := atoms_of (c :: s)) in *.
    pose proof (span_spec l) as Hs. destruct (span l) as [pre r] eqn:Esp. destruct Hs as (Hl & Hns & Hr).
    assert (Hokp : forallb latom_ok pre = true /\ forallb latom_ok r = true).
    { rewrite Hl, forallb_app in Hok. apply Bool.andb_true_iff in Hok. exact Hok. }
    destruct Hokp as [Hokpre Hokr].
    destruct pre as [|a pre'] eqn:Epre.
    - (* the text begins with a slash *)
      destruct Hr as [-> | [post ->]]; [cbn in Hl; unfold l in Hl; discriminate|].
      cbn [app] in Hl. rewrite Hl. cbn [pat_of flat_map latom_pat app]. fold (pat_of post).
      change (47 :: pat_of post) with (pat_of [] ++ 47 :: pat_of post).
      rewrite (index_sep_atoms [] _ (pat_of post) 0 eq_refl eq_refl) by (cbn [length]; lia).
      cbn [pat_of flat_map app length plus skipn].
      assert (Hokpost : forallb latom_ok post = true) by (cbn [forallb] in Hokr; apply Bool.andb_true_iff in Hokr as [_ H]; exact H).
      destruct (loop_literal root cwd (S (length (pat_of post))) post [47] Hokpost (Nat.lt_succ_diag_r _)) as [H|H]; [left; exact H|right].
      rewrite H. f_equal. f_equal. rewrite (F_started post [47] false) by (right; exists []; reflexivity).
      rewrite <- Ht, Hl. reflexivity.
    - (* a relative path *)
      rewrite <- Epre in *.
      assert (Hrel : match index_sep (S (length (pat_of l))) (pat_of l) 0 with Some (O, _, _) => False | _ => True end).
      { destruct Hr as [-> | [post ->]].
        - rewrite app_nil_r in Hl. rewrite Hl, (index_sep_none pre _ 0 Hokpre Hns). exact I.
        - rewrite Hl, pat_of_app. cbn [pat_of flat_map latom_pat app]. fold (pat_of post).
          rewrite (index_sep_atoms pre _ (pat_of post) 0 Hokpre Hns) by (rewrite app_length; pose proof (pat_of_length pre); cbn [length]; lia).
          cbn [plus]. pose proof (pat_of_length pre) as Hpl. rewrite Epre in Hpl at 1. cbn [length] in Hpl.
          destruct (length (pat_of pre)); [lia|exact I]. }
      assert (Hsel : (match index_sep (S (length (pat_of l))) (pat_of l) 0 with
                      | Some (O, w, _) => ([47], skipn w (pat_of l))
                      | _ => ([46], pat_of l)
                      end) = ([46], pat_of l)).
      { destruct (index_sep (S (length (pat_of l))) (pat_of l) 0) as [[[i w] sp]|]; [|reflexivity]. destruct i; [contradiction|reflexivity]. }
      rewrite Hsel.
      destruct (loop_literal root cwd (S (length (pat_of l))) l [46] Hok (Nat.lt_succ_diag_r _)) as [H|H]; [left; exact H|right].
      rewrite H. f_equal. f_equal.
      rewrite Hl, (F_comp pre [46] r); [|rewrite Epre; discriminate|exact Hns].
      change (beqb [46] [46]) with true. cbn [app]. rewrite (F_started r (text_of pre) true) by (left; reflexivity).
      rewrite <- text_of_app, <- Hl. exact Ht.
  Qed.

  Definition glob_oracle (p : bytes) : option (list bytes) :=
    match glob_model root cwd p with GOk l => Some l | _ => None end.
End Quoted.

(** * Quoted text in the default mode, pathname expansion enabled *)
From GoSh Require Import Base.Outcome Expand.SplitProofs Lex.Quote Lex.QuoteProofs.

Lemma expand_path_quoted root cwd f : all_quoted f = true -> ascii (funquote f) = true ->
  expand_path (glob_oracle root cwd) f = [funquote f].
Proof.
  intros Hq Ha. unfold expand_path. rewrite (fpattern_quoted f Hq).
  unfold glob_oracle. destruct (glob_quoted root cwd _ Ha) as [H|H]; rewrite H; reflexivity.
Qed.

(** every word made of literal quotings of ASCII text, every environment, every mode, every file
    system and working directory: one field, the text (escaped in Pattern mode), store unchanged *)
Theorem quoted_word_any_mode users root cwd w text e mode :
  word_text w = Some text -> w <> [] -> ascii text = true ->
  expand_top users (glob_oracle root cwd) e w mode = Ok (e, [expected mode text]).
Proof.
  intros Ht Hne Ha. apply expand_literal_word_glob; [exact Ht|exact Hne|].
  intros f Hq Hf _. rewrite <- Hf. apply expand_path_quoted; [exact Hq|now rewrite Hf].
Qed.

Theorem roundtrip_single_fs users root cwd s tail f e mode :
  forallb (fun c => negb (c =? 39)) s = true -> word_end tail -> ascii (encode_all s) = true ->
  exists w, scan_word (S (S f)) (quote_single s ++ tail) [] = Some (w, tail) /\
            expand_top users (glob_oracle root cwd) e w mode = Ok (e, [expected mode (encode_all s)]).
Proof.
  intros Hs Ht Ha. eexists. split; [apply scan_word_single; assumption|].
  apply quoted_word_any_mode; [|discriminate|exact Ha].
  unfold word_text. cbn. rewrite app_nil_r. reflexivity.
Qed.

Theorem roundtrip_double_fs users root cwd s tail f e mode :
  word_end tail -> ascii (encode_all s) = true ->
  exists w, scan_word (S (S f)) (quote_double s ++ tail) [] = Some (w, tail) /\
            expand_top users (glob_oracle root cwd) e w mode = Ok (e, [expected mode (encode_all s)]).
Proof.
  intros Ht Ha. destruct (scan_word_double s tail f Ht) as (v & Hv & Htx).
  eexists. split; [exact Hv|].
  apply quoted_word_any_mode; [|discriminate|exact Ha].
  unfold word_text. cbn [map part_text all_some]. change (34 =? 34) with true. cbv iota.
  rewrite Htx, app_nil_r. reflexivity.
Qed.

Theorem roundtrip_backslash_fs users root cwd s tail f e mode :
  forallb (fun c => negb (c =? 10)) s = true -> s <> [] -> word_end tail -> ascii (encode_all s) = true -> (length s < f)%nat ->
  exists w, scan_word f (quote_backslash s ++ tail) [] = Some (w, tail) /\
            expand_top users (glob_oracle root cwd) e w mode = Ok (e, [expected mode (encode_all s)]).
Proof.
  intros Hs Hne Ht Ha Hf. destruct (scan_word_backslash s tail f Hs Ht Hf) as (w & Hw & Htx & Hnn).
  exists w. split; [exact Hw|]. apply quoted_word_any_mode; [exact Htx|exact (Hnn Hne)|exact Ha].
Qed.
