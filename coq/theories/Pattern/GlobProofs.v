(** Glob: the order of the result.  sort_bytes (the model of sort.Strings) returns an ascending
    permutation of its input. *)
From GoSh Require Import Base.Bytes Pattern.Glob.
From Coq Require Import Lia Permutation.
Open Scope N_scope.

Lemma bltb_asym : forall a b, bltb a b = true -> bltb b a = false.
Proof.
  induction a as [|x a IH]; intros [|y b] H; cbn in *; try discriminate; try reflexivity.
  destruct (N.ltb_spec x y) as [Hxy|Hxy].
  - destruct (N.ltb_spec y x) as [Hyx|Hyx]; [lia|]. destruct (N.eqb_spec y x); [lia|reflexivity].
  - destruct (N.eqb_spec x y) as [->|Hne]; [|discriminate].
    rewrite N.ltb_irrefl, N.eqb_refl. apply IH, H.
Qed.

Lemma bleb_total a b : bleb a b = false -> bleb b a = true.
Proof.
  unfold bleb. intros H. apply Bool.negb_false_iff in H. rewrite (bltb_asym _ _ H). reflexivity.
Qed.

Inductive ascending : list bytes -> Prop :=
| asc_nil : ascending []
| asc_one x : ascending [x]
| asc_cons x y l : bleb x y = true -> ascending (y :: l) -> ascending (x :: y :: l).

Lemma insert_sorted_asc x l : ascending l -> ascending (insert_sorted x l).
Proof.
  induction 1 as [|y|y z l Hyz Hl IH]; cbn.
  - constructor.
  - destruct (bleb x y) eqn:E; constructor; auto using asc_one, bleb_total.
  - destruct (bleb x y) eqn:E.
    + constructor; [exact E|]. constructor; assumption.
    + cbn in IH. destruct (bleb x z) eqn:E2.
      * constructor; [apply bleb_total, E|]. constructor; assumption.
      * constructor; [exact Hyz|exact IH].
Qed.

Lemma insert_sorted_perm x l : Permutation (x :: l) (insert_sorted x l).
Proof.
  induction l as [|y l IH]; cbn; [reflexivity|].
  destruct (bleb x y); [reflexivity|]. rewrite perm_swap. constructor. exact IH.
Qed.

Theorem sort_bytes_ascending l : ascending (sort_bytes l).
Proof. induction l; cbn; [constructor|apply insert_sorted_asc; assumption]. Qed.

Theorem sort_bytes_permutation l : Permutation l (sort_bytes l).
Proof.
  induction l as [|x l IH]; cbn; [reflexivity|].
  rewrite <- insert_sorted_perm. constructor. exact IH.
Qed.

(** nothing matching yields an empty result, not an error: the empty pattern *)
Lemma glob_empty_pattern root cwd : glob_model root cwd [] = GOk [].
Proof. reflexivity. Qed.
