(** The subset of Go regular expressions that pattern.compile emits, as an AST, with the
    leftmost-first (backtracking-priority) matching discipline of Go's regexp package
    (modelled library, validated differentially; see DESIGN section 6 C12). Executable, no proofs. *)
From GoSh Require Import Base.Bytes.
Open Scope N_scope.

Inductive citem :=
| CChar (r : rune)
| CRange (lo hi : rune)
| CNamed (name : bytes)           (* [:name:] , ASCII tables of regexp/syntax *)
| CNamedNeg (name : bytes).       (* [:^name:], a regexp/syntax extension *)

Inductive ritem :=
| RLit (r : rune)
| RAny                             (* any character, newline included *)
| RStar                            (* any string; greedy or lazy depending on the mode *)
| RClass (neg : bool) (cs : list citem).

Definition in_rng (lo hi r : rune) : bool := (lo <=? r) && (r <=? hi).

Definition s_alnum := [97; 108; 110; 117; 109].
Definition s_alpha := [97; 108; 112; 104; 97].
Definition s_ascii := [97; 115; 99; 105; 105].
Definition s_blank := [98; 108; 97; 110; 107].
Definition s_cntrl := [99; 110; 116; 114; 108].
Definition s_digit := [100; 105; 103; 105; 116].
Definition s_graph := [103; 114; 97; 112; 104].
Definition s_lower := [108; 111; 119; 101; 114].
Definition s_print := [112; 114; 105; 110; 116].
Definition s_punct := [112; 117; 110; 99; 116].
Definition s_space := [115; 112; 97; 99; 101].
Definition s_upper := [117; 112; 112; 101; 114].
Definition s_word := [119; 111; 114; 100].
Definition s_xdigit := [120; 100; 105; 103; 105; 116].

(** posixGroup of regexp/syntax (positive forms) *)
Definition named_table : list (bytes * list (rune * rune)) :=
  [ (s_alnum, [(48, 57); (65, 90); (97, 122)]);
    (s_alpha, [(65, 90); (97, 122)]);
    (s_ascii, [(0, 127)]);
    (s_blank, [(9, 9); (32, 32)]);
    (s_cntrl, [(0, 31); (127, 127)]);
    (s_digit, [(48, 57)]);
    (s_graph, [(33, 126)]);
    (s_lower, [(97, 122)]);
    (s_print, [(32, 126)]);
    (s_punct, [(33, 47); (58, 64); (91, 96); (123, 126)]);
    (s_space, [(9, 13); (32, 32)]);
    (s_upper, [(65, 90)]);
    (s_word, [(48, 57); (65, 90); (97, 122); (95, 95)]);
    (s_xdigit, [(48, 57); (65, 70); (97, 102)]) ].

Fixpoint named_lookup (n : bytes) (t : list (bytes * list (rune * rune))) : option (list (rune * rune)) :=
  match t with
  | [] => None
  | (k, v) :: t' => if beqb n k then Some v else named_lookup n t'
  end.

Definition named_matches (name : bytes) (r : rune) : bool :=
  match named_lookup name named_table with
  | Some rs => existsb (fun lh => in_rng (fst lh) (snd lh) r) rs
  | None => false
  end.

Definition citem_matches (c : citem) (r : rune) : bool :=
  match c with
  | CChar x => r =? x
  | CRange lo hi => in_rng lo hi r
  | CNamed n => named_matches n r
  | CNamedNeg n => negb (named_matches n r)
  end.

Section Matcher.
  (** symbols carry their rune and whatever else the caller needs (the raw bytes) *)
  Variable A : Type.
  Variable rune_of : A -> rune.

  Definition item1 (it : ritem) (a : A) : bool :=
    match it with
    | RLit r => rune_of a =? r
    | RAny => true
    | RStar => false
    | RClass neg cs => xorb neg (existsb (fun c => citem_matches c (rune_of a)) cs)
    end.

  (** star with priorities: lazy tries the shortest consumption first, greedy the longest *)
  Fixpoint star_lazy (f : list A -> option (list A)) (s : list A) : option (list A) :=
    match f s with
    | Some u => Some u
    | None => match s with [] => None | _ :: s' => star_lazy f s' end
    end.

  Fixpoint star_greedy (f : list A -> option (list A)) (s : list A) : option (list A) :=
    match s with
    | [] => f []
    | _ :: s' => match star_greedy f s' with Some u => Some u | None => f s end
    end.

  (** [bt greedy ae items s]: first match in priority order of [items] against a prefix of [s];
      result = the unconsumed remainder.  [ae]: anchored at the end ($). *)
  Fixpoint bt (greedy ae : bool) (items : list ritem) (s : list A) {struct items} : option (list A) :=
    match items with
    | [] => if ae then match s with [] => Some [] | _ => None end else Some s
    | RStar :: rest =>
      if greedy then star_greedy (bt greedy ae rest) s else star_lazy (bt greedy ae rest) s
    | it :: rest =>
      match s with
      | c :: s' => if item1 it c then bt greedy ae rest s' else None
      | [] => None
      end
    end.

  (** alternation [(p1|p2|...)]: first alternative that matches *)
  Fixpoint alt (greedy ae : bool) (alts : list (list ritem)) (s : list A) : option (list A) :=
    match alts with
    | [] => None
    | p :: ps => match bt greedy ae p s with Some u => Some u | None => alt greedy ae ps s end
    end.

  (** unanchored search: leftmost start; returns (the text from the match start, remainder) *)
  Fixpoint search (f : list A -> option (list A)) (s : list A) : option (list A * list A) :=
    match f s with
    | Some u => Some (s, u)
    | None => match s with [] => None | _ :: s' => search f s' end
    end.

  (** the shrinking loop of Match for Smallest|Suffix: [m] is the current matched suffix *)
  Fixpoint shrink (fuel : nat) (f : list A -> option (list A)) (m : list A) : list A :=
    match fuel with
    | O => m
    | S fuel' =>
      match m with
      | [] => m
      | _ :: m' => match search f m' with
                   | Some (m2, _) => shrink fuel' f m2
                   | None => m
                   end
      end
    end.
End Matcher.
Arguments item1 {A} rune_of it a.
Arguments star_lazy {A} f s.
Arguments star_greedy {A} f s.
Arguments bt {A} rune_of greedy ae items s.
Arguments alt {A} rune_of greedy ae alts s.
Arguments search {A} f s.
Arguments shrink {A} fuel f m.
