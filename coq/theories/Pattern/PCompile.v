(** Model of pattern.compile (pattern/pattern.go, after the repairs recorded in
    KNOWN_FINDINGS.jsonl): shell pattern -> regular-expression items, each with the text that
    compile writes for it, and the model of how regexp/syntax parses an emitted bracket
    expression.  Executable; no proofs. *)
From GoSh Require Import Base.Bytes Pattern.Regex.
From GoShGen Require Import Extracted.
Open Scope N_scope.

Inductive cres (T : Type) :=
| COk (x : T)
| CErr           (* regexp.Compile rejects the emitted expression *)
| CUnmodelled.   (* outside the modelled subset: collating symbols / equivalence classes *)
Arguments COk {T} x.
Arguments CErr {T}.
Arguments CUnmodelled {T}.

(** decode a Go string into symbols (rune, raw bytes); invalid bytes become (RuneError, [b]) *)
Fixpoint syms_fuel (fuel : nat) (s : bytes) : list (rune * bytes) :=
  match fuel with
  | O => []
  | S f => match s with
           | [] => []
           | _ => let '(r, w) := decode_rune s in (r, firstn w s) :: syms_fuel f (skipn w s)
           end
  end.
Definition syms_of (s : bytes) : list (rune * bytes) := syms_fuel (length s) s.

Definition has_invalid (l : list (rune * bytes)) : bool :=
  existsb (fun x => (fst x =? RuneError) && Nat.eqb (length (snd x)) 1) l.

(** * How Go parses the text of a bracket expression (regexp/syntax parseClass, Perl flags).
    Input: the runes after "[" and the optional "^", up to and including the closing "]". *)
Definition is_punct_ascii (r : rune) : bool :=
  (r <? 128) && negb (in_rng 48 57 r || in_rng 65 90 r || in_rng 97 122 r || (r =? 95)).

(** find the first occurrence of [: ]] i.e. runes 58,93; returns (before, after) *)
Fixpoint find_colon_close (t : list rune) : option (list rune * list rune) :=
  match t with
  | 58 :: 93 :: t' => Some ([], t')
  | x :: t' => match find_colon_close t' with
               | Some (b, a) => Some (x :: b, a)
               | None => None
               end
  | [] => None
  end.

Definition class_char (t : list rune) : option (rune * list rune) :=
  match t with
  | [] => None
  | 92 :: c :: t' => if is_punct_ascii c then Some (c, t') else None
  | 92 :: [] => None
  | c :: t' => Some (c, t')
  end.

Fixpoint go_class (fuel : nat) (first : bool) (t : list rune) : option (list citem * list rune) :=
  match fuel with
  | O => None
  | S fuel' =>
    match t with
    | [] => None                                           (* missing closing ] *)
    | 93 :: t' => if first then go_class_item fuel' t else Some ([], t')
    | _ => go_class_item fuel' t
    end
  end
with go_class_item (fuel : nat) (t : list rune) : option (list citem * list rune) :=
  match fuel with
  | O => None
  | S fuel' =>
    let add (c : citem) (r : option (list citem * list rune)) :=
      match r with Some (cs, rest) => Some (c :: cs, rest) | None => None end in
    let single :=
      match class_char t with
      | None => None
      | Some (lo, t1) =>
        match t1 with
        | 45 :: x :: _ =>
          if x =? 93 then add (CChar lo) (go_class fuel' false t1)
          else match class_char (tl t1) with
               | None => None
               | Some (hi, t2) => if hi <? lo then None
                                  else add (CRange lo hi) (go_class fuel' false t2)
               end
        | _ => add (CChar lo) (go_class fuel' false t1)
        end
      end in
    match t with
    | 91 :: 58 :: t' =>
      match t' with
      | [] => single                                        (* len(t) > 2 required *)
      | _ =>
        match find_colon_close t' with
        | Some (name, rest) =>
          let '(ng, nm) := match name with 94 :: n' => (true, n') | _ => (false, name) end in
          match named_lookup nm named_table with
          | Some _ => add (if ng then CNamedNeg nm else CNamed nm) (go_class fuel' false rest)
          | None => None                                    (* invalid character class range *)
          end
        | None => single
        end
      end
    | _ => single
    end
  end.

(** * compile's bracket scanner (after "[" and the "^"/"!" and leading "]" handling).
    Returns the emitted class text and the unread rest of the pattern. *)
Definition esc_in_bracket (r : rune) : bool := memb r [33; 45; 91; 93; 94; 92].

Fixpoint find_close (d : rune) (p : list rune) : option (list rune * list rune) :=
  match p with
  | x :: ((y :: p2) as p1) =>
    if (x =? d) && (y =? 93) then Some ([], p2)
    else match find_close d p1 with
         | Some (b, a) => Some (x :: b, a)
         | None => None
         end
  | _ => None
  end.

(* result: (text, rest, rejected: a collating symbol / equivalence class that is not a single character) *)
Fixpoint bloop (fuel : nat) (p : list rune) : option (list rune * list rune * bool) :=
  match fuel with
  | O => None
  | S fuel' =>
    let cont (txt : list rune) (p' : list rune) (coll : bool) :=
      match bloop fuel' p' with
      | Some (t, rest, c) => Some (txt ++ t, rest, coll || c)
      | None => None
      end in
    match p with
    | [] => None
    | 93 :: p' => Some ([93], p', false)
    | 91 :: p' =>
      match p' with
      | d :: p'' =>
        if memb d [46; 61; 58] then
          match find_close d p'' with
          | Some (inside, rest) =>
            if d =? 58 then
              (* [:^name:], the negated class of package regexp, is no class name: rejected *)
              match inside with
              | 94 :: _ => cont [] rest true
              | _ => cont ([91; d] ++ inside ++ [d; 93]) rest false
              end
            else
              (* a collating symbol or an equivalence class: a single character stands for itself, anything else is rejected *)
              match inside with
              | [x] => cont (if esc_in_bracket x then [92; x] else [x]) rest false     (* (an invalid byte is rejected by compile1) *)
              | _ => cont [] rest true
              end
          | None => cont [92; 91] p' false
          end
        else cont [92; 91] p' false
      | [] => None
      end
    | 92 :: p' =>
      match p' with
      | [] => None
      | r :: p'' => cont (if esc_in_bracket r then [92; r] else [r]) p'' false
      end
    | r :: p' => cont [r] p' false
    end
  end.

Definition esc_top (r : rune) : bool :=
  memb r [92; 46; 43; 42; 63; 40; 41; 124; 91; 93; 123; 125; 94; 36].
Definition esc_raw (r : rune) : bool :=
  memb r [46; 43; 40; 41; 124; 123; 125; 94; 36].

Definition txt (s : list rune) : bytes := encode_all s.

Definition star_text (greedy : bool) : bytes :=
  if greedy then [40; 63; 115; 58; 46; 42; 41] else [40; 63; 115; 58; 46; 42; 63; 41].
Definition any_text : bytes := [40; 63; 115; 58; 46; 41].

Fixpoint citems (fuel : nat) (greedy : bool) (p : list rune) : cres (list (ritem * bytes)) :=
  match fuel with
  | O => COk []
  | S fuel' =>
    let cont (it : ritem * bytes) (p' : list rune) :=
      match citems fuel' greedy p' with
      | COk l => COk (it :: l)
      | CErr => CErr
      | CUnmodelled => CUnmodelled
      end in
    match p with
    | [] => COk []
    | 63 :: p' => cont (RAny, any_text) p'
    | 42 :: p' => cont (RStar, star_text greedy) p'
    | 91 :: p' =>
      let '(neg, p1) := match p' with
                        | 94 :: q => (true, q)
                        | 33 :: q => (true, q)
                        | _ => (false, p')
                        end in
      let '(lead, p2) := match p1 with 93 :: q => ([93], q) | _ => ([], p1) end in
      match bloop (S (length p2)) p2 with
      | None => if memb 93 p2 then CUnmodelled   (* Go may close the class where compile did not *)
                else CErr
      | Some (t, rest, coll) =>
        if coll then CErr else
        let body := lead ++ t in
        match go_class (2 * S (length body)) true body with
        | None => CErr
        | Some (cs, []) => cont (RClass neg cs, 91 :: (if neg then [94] else []) ++ txt body) rest
        | Some (_, _ :: _) => CUnmodelled            (* Go closes the class earlier than compile *)
        end
      end
    | 92 :: p' =>
      match p' with
      | [] => CErr
      | r :: p'' => cont (RLit r, if esc_top r then 92 :: txt [r] else txt [r]) p''
      end
    | r :: p' => cont (RLit r, if esc_raw r then 92 :: txt [r] else txt [r]) p'
    end
  end.

(** compile for one pattern (bytes) *)
Definition compile1 (greedy : bool) (pat : bytes) : cres (list (ritem * bytes)) :=
  let sy := syms_of pat in
  if has_invalid sy then CErr
  else citems (S (length sy)) greedy (map fst sy).

Definition bit (m b : N) : bool := negb (N.land m b =? 0).
Definition m_smallest m := bit m Extracted.mode_Smallest.
Definition m_largest m := bit m Extracted.mode_Largest.
Definition m_suffix m := bit m Extracted.mode_Suffix.
Definition m_prefix m := bit m Extracted.mode_Prefix.
Definition m_greedy m := negb (m_smallest m) || m_largest m.

Fixpoint compile_all (greedy : bool) (pats : list bytes) : cres (list (list (ritem * bytes))) :=
  match pats with
  | [] => COk []
  | p :: ps =>
    match compile1 greedy p, compile_all greedy ps with
    | COk x, COk xs => COk (x :: xs)
    | CUnmodelled, _ | _, CUnmodelled => CUnmodelled
    | _, _ => CErr
    end
  end.

(** several patterns: a malformed member makes the whole call fail (compile reports a pattern that
    ends inside an escape or a bracket expression at once; every other malformed member stays
    malformed in the joined text) *)
Definition compile_model (pats : list bytes) (mode : N) : cres (list (list (ritem * bytes))) :=
  compile_all (m_greedy mode) pats.

Fixpoint join_bar (l : list bytes) : bytes :=
  match l with
  | [] => []
  | [x] => x
  | x :: l' => x ++ 124 :: join_bar l'
  end.

(** the regular-expression source text (rx.String()) *)
Definition regex_text (mode : N) (alts : list (list (ritem * bytes))) : bytes :=
  (if m_prefix mode then [94] else []) ++ [40]
  ++ join_bar (map (fun a => concat (map snd a)) alts)
  ++ [41] ++ (if m_suffix mode then [36] else []).
