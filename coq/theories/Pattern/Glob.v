(** Model of pattern.Glob (pattern/pattern.go, pattern_unix.go after the repairs) over an
    abstract file-system tree, and the specification of pathname expansion. Executable. *)
From GoSh Require Import Base.Bytes Pattern.Regex Pattern.PCompile Pattern.Match Pattern.PSpec.
From GoShGen Require Import Extracted.
Open Scope N_scope.

(** * Abstract file system *)
Inductive node :=
| File
| Dangling                          (* a symbolic link whose target does not exist *)
| Dir (entries : list (bytes * node)).

Fixpoint split_slash (p : bytes) (cur : bytes) : list bytes :=
  match p with
  | [] => [cur]
  | 47 :: p' => cur :: split_slash p' []
  | c :: p' => split_slash p' (cur ++ [c])
  end.

Fixpoint lookup_entry (n : bytes) (es : list (bytes * node)) : option node :=
  match es with
  | [] => None
  | (k, v) :: es' => if beqb n k then Some v else lookup_entry n es'
  end.

(** walk components from a stack of directories (innermost first); lstat semantics for the last *)
Fixpoint walk (stack : list (list (bytes * node))) (comps : list bytes) : option node :=
  match comps with
  | [] => match stack with d :: _ => Some (Dir d) | [] => None end
  | c :: rest =>
    match stack with
    | [] => None
    | d :: up =>
      if beqb c [] || beqb c [46] then walk stack rest
      else if beqb c [46; 46] then walk (match up with [] => stack | _ => up end) rest
      else match lookup_entry c d with
           | Some (Dir d') => walk (d' :: stack) rest
           | Some n => match rest with [] => Some n | _ => None end
           | None => None
           end
    end
  end.

Section FS.
  Variable root : list (bytes * node).          (* the file-system root directory *)
  Variable cwd : list bytes.                    (* components of the working directory *)

  Fixpoint enter (stack : list (list (bytes * node))) (comps : list bytes) : option (list (list (bytes * node))) :=
    match comps with
    | [] => Some stack
    | c :: rest =>
      match stack with
      | d :: _ => match lookup_entry c d with
                  | Some (Dir d') => enter (d' :: stack) rest
                  | _ => None
                  end
      | [] => None
      end
    end.

  Definition resolve (path : bytes) : option node :=
    match path with
    | 47 :: _ => walk [root] (split_slash path [])
    | _ => match enter [root] cwd with
           | Some st => walk st (split_slash path [])
           | None => None
           end
    end.

  Definition lstat_ok (path : bytes) : bool := match resolve path with Some _ => true | None => false end.
  Definition stat_isdir (path : bytes) : bool := match resolve path with Some (Dir _) => true | _ => false end.
  (* os.Open + Readdirnames: None = cannot be opened (skipped); Some (inl names) ; Some (inr tt) = read error *)
  Definition readdir (path : bytes) : option (list bytes + unit) :=
    match resolve path with
    | Some (Dir es) => Some (inl (map fst es))
    | Some File => Some (inr tt)
    | _ => None
    end.

  Definition exists_path (path : bytes) (dir : bool) : bool := if dir then stat_isdir path else lstat_ok path.

  (** * indexSep / split / unquote *)
  (* returns (index, width, separator text) *)
  Fixpoint index_sep (fuel : nat) (pat : bytes) (off : nat) : option (nat * nat * bytes) :=
    match fuel with
    | O => None
    | S f =>
      match pat with
      | [] => None
      | 47 :: _ => Some (off, 1%nat, [47])
      | 92 :: rest =>
        match rest with
        | 47 :: _ => Some (off, 2%nat, [47])
        | _ :: rest' => index_sep f rest' (S (S off))
        | [] => None
        end
      | _ :: rest => index_sep f rest (S off)
      end
    end.

  (* unquote on runes: Some name if the component is a literal *)
  Fixpoint unquote_lit (rs : list (rune * bytes)) (esc : bool) : option bytes :=
    match rs with
    | [] => if esc then None else Some []          (* a trailing backslash escapes nothing: not a literal *)
    | (r, b) :: rs' =>
      if (r =? RuneError) then None
      else if (r =? 92) && negb esc then unquote_lit rs' true
      else if ((r =? 63) || (r =? 42) || (r =? 91)) && negb esc then None
      else option_map (app b) (unquote_lit rs' false)
    end.

  (** insertion sort on byte strings (sort.Strings) *)
  Fixpoint insert_sorted (x : bytes) (l : list bytes) : list bytes :=
    match l with
    | [] => [x]
    | y :: l' => if bleb x y then x :: l else y :: insert_sorted x l'
    end.
  Definition sort_bytes (l : list bytes) : list bytes := fold_right insert_sorted [] l.

  Inductive gres := GOk (paths : list bytes) | GErr | GUnmodelled.

  Definition starts_with_dot_regex (its : list ritem) : bool :=
    match its with RLit 46 :: _ => true | _ => false end.

  (* candidates of glob(path, rx): names offered, in directory order *)
  Definition glob_dir (p : bytes) (its : list ritem) : option (list bytes) + unit :=
    match readdir p with
    | None => inl (Some [])
    | Some (inr _) => inr tt
    | Some (inl names) =>
      let dot := starts_with_dot_regex its in
      let m (n : bytes) := full_match [its] (syms_of n) in
      inl (Some ((if dot then filter m [[46]; [46; 46]] else [])
                 ++ filter (fun n => m n && (dot || negb (has_prefix [46] n))) names))
    end.

  Fixpoint glob_loop (fuel : nat) (paths : list bytes) (pattern : bytes) : gres :=
    match fuel with
    | O => GOk paths
    | S fuel' =>
      match pattern with
      | [] => GOk paths
      | _ =>
        let '(i, w, sep) := match index_sep (S (length pattern)) pattern 0 with
                            | Some (i, w, sp) => (i, w, sp)
                            | None => (length pattern, 0%nat, [])
                            end in
        let rest := skipn (i + w) pattern in
        match i with
        | O => glob_loop fuel' (if Nat.ltb 0 w then map (fun p => p ++ sep) paths else paths) rest
        | _ =>
          let comp := firstn i pattern in
          let needdir := negb (beqb sep []) in
          match unquote_lit (syms_of comp) false with
          | Some name =>
            let ms := flat_map (fun p => let p' := if beqb p [46] then name else p ++ name in
                                         if exists_path p' needdir then [p' ++ sep] else []) paths in
            match ms with
            | [] => GOk []
            | _ => glob_loop fuel' (sort_bytes ms) rest
            end
          | None =>
            match compile_model [comp] (N.lor Extracted.mode_Prefix Extracted.mode_Suffix) with
            | CErr => GErr
            | CUnmodelled => GUnmodelled
            | COk alts =>
              let its := match alts with [a] => map fst a | _ => [] end in
              let step (acc : option (list bytes)) (p : bytes) : option (list bytes) :=
                match acc with
                | None => None
                | Some ms =>
                  match glob_dir p its with
                  | inr _ => None
                  | inl None => None
                  | inl (Some names) =>
                    Some (ms ++ flat_map (fun n => let n' := if beqb p [46] then n else p ++ n in
                                                   if negb needdir || exists_path n' true then [n' ++ sep] else []) names)
                  end
                end in
              match fold_left step paths (Some []) with
              | None => GErr
              | Some [] => GOk []
              | Some ms => glob_loop fuel' (sort_bytes ms) rest
              end
            end
          end
        end
      end
    end.

  Definition glob_model (pattern : bytes) : gres :=
    match pattern with
    | [] => GOk []
    | _ =>
      let '(base, pat) := match index_sep (S (length pattern)) pattern 0 with
                          | Some (O, w, _) => ([47], skipn w pattern)
                          | _ => ([46], pattern)
                          end in
      glob_loop (S (length pat)) [base] pat
    end.

  (** * Specification (C16): the existing paths that match component by component, sorted.
      The pattern is cut into components and separator runs; a component matches a name as a whole
      ([pmb], the denotation of C12), hidden names need a literal leading period, a component
      followed by a separator selects directories only. *)
  Definition comp_matches (comp : bytes) (name : bytes) : option bool :=
    match unquote_lit (syms_of comp) false with
    | Some lit => Some (beqb lit name)
    | None =>
      match compile_model [comp] (N.lor Extracted.mode_Prefix Extracted.mode_Suffix) with
      | COk [a] => Some (pmb fst (map fst a) (syms_of name))
      | _ => None
      end
    end.

  Definition literal_dot (comp : bytes) : bool :=
    match comp with 46 :: _ => true | 92 :: 46 :: _ => true | _ => false end.

  (* one step: from the paths so far (text as returned; "" for the relative start) *)
  Definition spec_step (acc : option (list bytes)) (comp sep : bytes) : option (list bytes) :=
    match acc with
    | None => None
    | Some prefixes =>
      let needdir := negb (beqb sep []) in
      let one (pre : bytes) : option (list bytes) :=
        let dirpath := match pre with [] => [46] | _ => pre end in
        match unquote_lit (syms_of comp) false with
        | Some lit => Some (if exists_path (pre ++ lit) needdir then [pre ++ lit ++ sep] else [])
        | None =>
          match resolve dirpath with
          | Some (Dir es) =>
            let names := (if literal_dot comp then [[46]; [46; 46]] else []) ++ map fst es in
            let ok (n : bytes) :=
              match comp_matches comp n with
              | Some true => (literal_dot comp || negb (has_prefix [46] n))
                             && (negb needdir || stat_isdir (pre ++ n))
              | _ => false
              end in
            match comp_matches comp [] with
            | None => None
            | Some _ => Some (map (fun n => pre ++ n ++ sep) (filter ok names))
            end
          | _ => Some []
          end
        end in
      fold_left (fun a pre => match a, one pre with Some l, Some m => Some (l ++ m) | _, _ => None end) prefixes (Some [])
    end.

  (* cut the pattern into (component, separator) pairs, separators as Glob reads them *)
  Fixpoint spec_loop (fuel : nat) (acc : option (list bytes)) (pattern : bytes) : option (list bytes) :=
    match fuel with
    | O => acc
    | S fuel' =>
      match pattern with
      | [] => acc
      | _ =>
        let '(i, w, sep) := match index_sep (S (length pattern)) pattern 0 with
                            | Some (i, w, sp) => (i, w, sp)
                            | None => (length pattern, 0%nat, [])
                            end in
        let rest := skipn (i + w) pattern in
        match i with
        | O => spec_loop fuel' (option_map (map (fun p => p ++ sep)) acc) rest
        | _ => spec_loop fuel' (spec_step acc (firstn i pattern) sep) rest
        end
      end
    end.

  Definition glob_spec (pattern : bytes) : option (list bytes) :=
    match pattern with
    | [] => Some []
    | _ =>
      let '(start, pat) := match index_sep (S (length pattern)) pattern 0 with
                           | Some (O, w, _) => ([47], skipn w pattern)
                           | _ => ([], pattern)
                           end in
      option_map sort_bytes (spec_loop (S (length pat)) (Some [start]) pat)
    end.
End FS.
