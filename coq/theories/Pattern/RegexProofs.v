(** Proofs about the priority matcher: the first match in priority order is the extreme one.
    greedy stars -> longest prefix; lazy stars -> shortest prefix; leftmost search with an
    end anchor -> longest suffix; Match's shrinking loop -> shortest suffix. *)
From GoSh Require Import Base.Bytes Pattern.Regex Pattern.PSpec.
From Coq Require Import Lia Arith.
Local Open Scope nat_scope.

Section P.
  Variable A : Type.
  Variable rune_of : A -> rune.
  Notation Mp := (Mp rune_of).
  Notation bt := (bt rune_of).
  Notation item1 := (item1 rune_of).

  Inductive suffix : list A -> list A -> Prop :=
  | suf_refl s : suffix s s
  | suf_cons c s t : suffix t s -> suffix t (c :: s).

  Lemma suffix_length t s : suffix t s -> length t <= length s.
  Proof. induction 1; cbn; lia. Qed.

  Lemma suffix_trans a b c : suffix a b -> suffix b c -> suffix a c.
  Proof. intros Hab Hbc. induction Hbc; [exact Hab|]. constructor. auto. Qed.

  Lemma suffix_nil s : suffix [] s.
  Proof. induction s; constructor; auto. Qed.

  Lemma suffix_tail c t s : suffix (c :: t) s -> suffix t s.
  Proof. intros H. eapply suffix_trans; [|exact H]. constructor. constructor. Qed.

  Lemma suffix_same_length t s : suffix t s -> length s <= length t -> t = s.
  Proof.
    intros H. destruct H as [|c s t H]; [reflexivity|].
    intros Hl. apply suffix_length in H. cbn in Hl. lia.
  Qed.

  Lemma suffix_total a b s : suffix a s -> suffix b s -> suffix a b \/ suffix b a.
  Proof.
    intros Ha. revert b. induction Ha as [s|c s a Ha IH]; intros b Hb.
    - right. exact Hb.
    - inversion Hb as [|c' s' b' Hb']; subst.
      + left. constructor. exact Ha.
      + apply IH. exact Hb'.
  Qed.

  Lemma suffix_cons_inv t c s : suffix t (c :: s) -> t = c :: s \/ suffix t s.
  Proof. intros H. inversion H; subst; auto. Qed.

  Lemma suffix_app p s : suffix s (p ++ s).
  Proof. induction p; cbn; constructor; auto. Qed.

  Lemma suffix_split t s : suffix t s -> exists p, s = p ++ t.
  Proof.
    induction 1 as [s|c s t H [p ->]]; [exists []; reflexivity|]. exists (c :: p). reflexivity.
  Qed.

  (** ** Inversions of the matching relation *)
  Lemma Mp_suffix ae items s u : Mp ae items s u -> suffix u s.
  Proof. induction 1; try constructor; auto. Qed.

  Lemma Mp_one_inv ae it rest s u :
    it <> RStar -> Mp ae (it :: rest) s u ->
    exists c s', s = c :: s' /\ item1 it c = true /\ Mp ae rest s' u.
  Proof.
    intros Hn H. inversion H; subst; try congruence. eauto.
  Qed.

  Lemma Mp_star_inv ae rest s u :
    Mp ae (RStar :: rest) s u <-> exists s1, suffix s1 s /\ Mp ae rest s1 u.
  Proof.
    split.
    - intros H. remember (RStar :: rest) as items eqn:E. revert rest E.
      induction H as [s Hs|it rest0 c s u Hn Hi H IH|rest0 s u H IH|rest0 c s u H IH]; intros rest E;
        try discriminate; inversion E; subst.
      + congruence.
      + exists s. split; [constructor|exact H].
      + destruct (IH rest eq_refl) as (s1 & Hs1 & Hm). exists s1. split; [constructor; exact Hs1|exact Hm].
    - intros (s1 & Hs & Hm). induction Hs as [s|c s t Hs IH].
      + apply Mp_star0. exact Hm.
      + apply Mp_starS. apply IH. exact Hm.
  Qed.

  Lemma Mp_nil_inv ae s u : Mp ae [] s u -> u = s /\ (ae = true -> s = []).
  Proof. intros H. inversion H; subst. auto. Qed.

  (** ** Monotonicity of the extreme remainders in the start position *)
  Lemma mono_max ae items : forall s s2 u' u,
    Mp ae items s u' -> Mp ae items s2 u -> suffix s2 s ->
    exists u2, Mp ae items s2 u2 /\ length u2 <= length u'.
  Proof.
    induction items as [|it rest IH]; intros s s2 u' u H1 H2 Hs.
    - apply Mp_nil_inv in H1 as [-> H1]. apply Mp_nil_inv in H2 as [-> H2].
      exists s2. split; [constructor; exact H2|apply suffix_length, Hs].
    - destruct it as [r| | |neg cs].
      1,2,4: (apply Mp_one_inv in H1 as (c & s' & -> & Hc & H1); [|discriminate];
              apply Mp_one_inv in H2 as (c2 & s2' & -> & Hc2 & H2); [|discriminate];
              assert (Hs' : suffix s2' s')
                by (apply suffix_cons_inv in Hs as [E|Hs]; [inversion E; subst; constructor|eapply suffix_tail; exact Hs]);
              destruct (IH s' s2' u' u H1 H2 Hs') as (u2 & Hu2 & Hl);
              exists u2; split; [constructor; [discriminate|exact Hc2|exact Hu2]|exact Hl]).
      apply Mp_star_inv in H1 as (s1 & Hs1 & H1). apply Mp_star_inv in H2 as (s3 & Hs3 & H2).
      assert (Hs3' : suffix s3 s) by (eapply suffix_trans; eassumption).
      destruct (suffix_total _ _ _ Hs1 Hs3') as [H13|H31].
      + (* s1 starts inside/after s3: is s1 a suffix of s2 ? compare s1 with s2 *)
        destruct (suffix_total _ _ _ Hs1 Hs) as [H12|H21].
        * exists u'. split; [apply Mp_star_inv; exists s1; split; assumption|lia].
        * (* s2 is a suffix of s1, s3 of s2: use the induction hypothesis from s1 to s3 *)
          destruct (IH s1 s3 u' u H1 H2 (suffix_trans _ _ _ Hs3 H21)) as (u2 & Hu2 & Hl).
          exists u2. split; [apply Mp_star_inv; exists s3; split; assumption|exact Hl].
      + destruct (IH s1 s3 u' u H1 H2 H31) as (u2 & Hu2 & Hl).
        exists u2. split; [apply Mp_star_inv; exists s3; split; assumption|exact Hl].
  Qed.

  Lemma mono_min ae items : forall s s2 u' u,
    Mp ae items s u' -> Mp ae items s2 u -> suffix s2 s ->
    exists u1, Mp ae items s u1 /\ length u <= length u1.
  Proof.
    induction items as [|it rest IH]; intros s s2 u' u H1 H2 Hs.
    - apply Mp_nil_inv in H1 as [-> H1]. apply Mp_nil_inv in H2 as [-> H2].
      exists s. split; [constructor; exact H1|apply suffix_length, Hs].
    - destruct it as [r| | |neg cs].
      1,2,4: (apply Mp_one_inv in H1 as (c & s' & -> & Hc & H1); [|discriminate];
              apply Mp_one_inv in H2 as (c2 & s2' & -> & Hc2 & H2); [|discriminate];
              assert (Hs' : suffix s2' s')
                by (apply suffix_cons_inv in Hs as [E|Hs]; [inversion E; subst; constructor|eapply suffix_tail; exact Hs]);
              destruct (IH s' s2' u' u H1 H2 Hs') as (u1 & Hu1 & Hl);
              exists u1; split; [constructor; [discriminate|exact Hc|exact Hu1]|exact Hl]).
      apply Mp_star_inv in H2 as (s3 & Hs3 & H2).
      exists u. split; [|lia]. apply Mp_star_inv. exists s3. split; [eapply suffix_trans; eassumption|exact H2].
  Qed.

  (** ** The star combinators pick the extreme feasible start *)
  Lemma star_greedy_spec (f : list A -> option (list A)) s :
    match star_greedy f s with
    | Some u => exists s1, suffix s1 s /\ f s1 = Some u /\
                           forall s0, suffix s0 s -> length s0 < length s1 -> f s0 = None
    | None => forall s1, suffix s1 s -> f s1 = None
    end.
  Proof.
    induction s as [|c s IH]; cbn.
    - destruct (f []) eqn:E.
      + exists []. split; [constructor|]. split; [exact E|]. intros s0 _ Hl. cbn in Hl. lia.
      + intros s1 Hs. inversion Hs; subst. exact E.
    - destruct (star_greedy f s) as [u|].
      + destruct IH as (s1 & Hs1 & Hf & Hmin). exists s1. split; [constructor; exact Hs1|]. split; [exact Hf|].
        intros s0 Hs0 Hl. apply suffix_cons_inv in Hs0 as [->|Hs0]; [|apply Hmin; assumption].
        apply suffix_length in Hs1. cbn in Hl. lia.
      + destruct (f (c :: s)) eqn:E.
        * exists (c :: s). split; [constructor|]. split; [exact E|].
          intros s0 Hs0 Hl. apply suffix_cons_inv in Hs0 as [->|Hs0]; [lia|]. apply IH, Hs0.
        * intros s1 Hs. apply suffix_cons_inv in Hs as [->|Hs]; [exact E|apply IH, Hs].
  Qed.

  Lemma star_lazy_spec (f : list A -> option (list A)) s :
    match star_lazy f s with
    | Some u => exists s1, suffix s1 s /\ f s1 = Some u /\
                           forall s0, suffix s0 s -> length s1 < length s0 -> f s0 = None
    | None => forall s1, suffix s1 s -> f s1 = None
    end.
  Proof.
    induction s as [|c s IH]; cbn.
    - destruct (f []) eqn:E.
      + exists []. split; [constructor|]. split; [exact E|]. intros s0 Hs Hl. apply suffix_length in Hs. cbn in *. lia.
      + intros s1 Hs. inversion Hs; subst. exact E.
    - destruct (f (c :: s)) eqn:E.
      + exists (c :: s). split; [constructor|]. split; [exact E|].
        intros s0 Hs Hl. apply suffix_length in Hs. lia.
      + destruct (star_lazy f s) as [u|].
        * destruct IH as (s1 & Hs1 & Hf & Hmax). exists s1. split; [constructor; exact Hs1|]. split; [exact Hf|].
          intros s0 Hs0 Hl. apply suffix_cons_inv in Hs0 as [->|Hs0]; [exact E|apply Hmax; assumption].
        * intros s1 Hs. apply suffix_cons_inv in Hs as [->|Hs]; [exact E|apply IH, Hs].
  Qed.

  Lemma bt_one g ae it rest s :
    it <> RStar ->
    bt g ae (it :: rest) s =
    match s with c :: s' => if item1 it c then bt g ae rest s' else None | [] => None end.
  Proof. intros H. destruct it; try congruence; reflexivity. Qed.

  (** ** Greedy: the first match in priority order leaves the shortest remainder *)
  Theorem bt_greedy_spec ae items : forall s,
    match bt true ae items s with
    | Some u => Mp ae items s u /\ forall u', Mp ae items s u' -> length u <= length u'
    | None => forall u', ~ Mp ae items s u'
    end.
  Proof.
    induction items as [|it rest IH]; intros s.
    - cbn. destruct ae.
      + destruct s as [|c s].
        * split; [constructor; auto|]. intros u' H. apply Mp_nil_inv in H as [-> _]. lia.
        * intros u' H. apply Mp_nil_inv in H as [_ H]. specialize (H eq_refl). discriminate.
      + split; [constructor; discriminate|]. intros u' H. apply Mp_nil_inv in H as [-> _]. lia.
    - assert (Hdec : it = RStar \/ it <> RStar) by (destruct it; auto; right; discriminate).
      destruct Hdec as [->|Hn].
      + cbn [Regex.bt]. pose proof (star_greedy_spec (bt true ae rest) s) as Hsp.
        destruct (star_greedy (bt true ae rest) s) as [u|].
        * destruct Hsp as (s1 & Hs1 & Hf & Hmin). pose proof (IH s1) as IH1. rewrite Hf in IH1.
          destruct IH1 as [Hm Hbest]. split; [apply Mp_star_inv; exists s1; auto|].
          intros u' H'. apply Mp_star_inv in H' as (s1' & Hs1' & Hm').
          destruct (suffix_total _ _ _ Hs1 Hs1') as [H|H].
          -- destruct (mono_max ae rest s1' s1 u' u Hm' Hm H) as (u2 & Hu2 & Hl).
             specialize (Hbest u2 Hu2). lia.
          -- destruct (Nat.eq_dec (length s1') (length s1)) as [El|Nl].
             ++ assert (s1' = s1) by (apply suffix_same_length; [exact H|lia]). subst. apply Hbest, Hm'.
             ++ assert (Hlt : length s1' < length s1) by (apply suffix_length in H; lia).
                pose proof (IH s1') as IH2. rewrite (Hmin s1' Hs1' Hlt) in IH2. exfalso. eapply IH2, Hm'.
        * intros u' H'. apply Mp_star_inv in H' as (s1' & Hs1' & Hm').
          pose proof (IH s1') as IH2. rewrite (Hsp s1' Hs1') in IH2. eapply IH2, Hm'.
      + rewrite (bt_one _ _ _ _ _ Hn). destruct s as [|c s].
        * intros u' H. apply Mp_one_inv in H as (c & s' & E & _); [discriminate|exact Hn].
        * destruct (item1 it c) eqn:Ec.
          -- pose proof (IH s) as IH1. destruct (bt true ae rest s) as [u|].
             ++ destruct IH1 as [Hm Hbest]. split; [constructor; assumption|].
                intros u' H. apply Mp_one_inv in H as (c' & s' & E & _ & Hm'); [|exact Hn].
                inversion E; subst. apply Hbest, Hm'.
             ++ intros u' H. apply Mp_one_inv in H as (c' & s' & E & _ & Hm'); [|exact Hn].
                inversion E; subst. eapply IH1, Hm'.
          -- intros u' H. apply Mp_one_inv in H as (c' & s' & E & Hc & _); [|exact Hn].
             inversion E; subst. congruence.
  Qed.

  (** ** Lazy: the first match in priority order leaves the longest remainder *)
  Theorem bt_lazy_spec ae items : forall s,
    match bt false ae items s with
    | Some u => Mp ae items s u /\ forall u', Mp ae items s u' -> length u' <= length u
    | None => forall u', ~ Mp ae items s u'
    end.
  Proof.
    induction items as [|it rest IH]; intros s.
    - cbn. destruct ae.
      + destruct s as [|c s].
        * split; [constructor; auto|]. intros u' H. apply Mp_nil_inv in H as [-> _]. lia.
        * intros u' H. apply Mp_nil_inv in H as [_ H]. specialize (H eq_refl). discriminate.
      + split; [constructor; discriminate|]. intros u' H. apply Mp_nil_inv in H as [-> _]. lia.
    - assert (Hdec : it = RStar \/ it <> RStar) by (destruct it; auto; right; discriminate).
      destruct Hdec as [->|Hn].
      + cbn [Regex.bt]. pose proof (star_lazy_spec (bt false ae rest) s) as Hsp.
        destruct (star_lazy (bt false ae rest) s) as [u|].
        * destruct Hsp as (s1 & Hs1 & Hf & Hmax). pose proof (IH s1) as IH1. rewrite Hf in IH1.
          destruct IH1 as [Hm Hbest]. split; [apply Mp_star_inv; exists s1; auto|].
          intros u' H'. apply Mp_star_inv in H' as (s1' & Hs1' & Hm').
          destruct (suffix_total _ _ _ Hs1 Hs1') as [H|H].
          -- destruct (Nat.eq_dec (length s1') (length s1)) as [El|Nl].
             ++ assert (s1 = s1') by (apply suffix_same_length; [exact H|lia]). subst. apply Hbest, Hm'.
             ++ assert (Hlt : length s1 < length s1') by (apply suffix_length in H; lia).
                pose proof (IH s1') as IH2. rewrite (Hmax s1' Hs1' Hlt) in IH2. exfalso. eapply IH2, Hm'.
          -- destruct (mono_min ae rest s1 s1' u u' Hm Hm' H) as (u1 & Hu1 & Hl).
             specialize (Hbest u1 Hu1). lia.
        * intros u' H'. apply Mp_star_inv in H' as (s1' & Hs1' & Hm').
          pose proof (IH s1') as IH2. rewrite (Hsp s1' Hs1') in IH2. eapply IH2, Hm'.
      + rewrite (bt_one _ _ _ _ _ Hn). destruct s as [|c s].
        * intros u' H. apply Mp_one_inv in H as (c & s' & E & _); [discriminate|exact Hn].
        * destruct (item1 it c) eqn:Ec.
          -- pose proof (IH s) as IH1. destruct (bt false ae rest s) as [u|].
             ++ destruct IH1 as [Hm Hbest]. split; [constructor; assumption|].
                intros u' H. apply Mp_one_inv in H as (c' & s' & E & _ & Hm'); [|exact Hn].
                inversion E; subst. apply Hbest, Hm'.
             ++ intros u' H. apply Mp_one_inv in H as (c' & s' & E & _ & Hm'); [|exact Hn].
                inversion E; subst. eapply IH1, Hm'.
          -- intros u' H. apply Mp_one_inv in H as (c' & s' & E & Hc & _); [|exact Hn].
             inversion E; subst. congruence.
  Qed.

  (** feasibility does not depend on the priority discipline *)
  Lemma bt_some_iff g ae items s : (exists u, bt g ae items s = Some u) <-> (exists u, Mp ae items s u).
  Proof.
    destruct g.
    - pose proof (bt_greedy_spec ae items s) as H. destruct (bt true ae items s) as [u|].
      + split; intros _; exists u; [apply H|reflexivity].
      + split; intros [u Hu]; [discriminate|exfalso; eapply H, Hu].
    - pose proof (bt_lazy_spec ae items s) as H. destruct (bt false ae items s) as [u|].
      + split; intros _; exists u; [apply H|reflexivity].
      + split; intros [u Hu]; [discriminate|exfalso; eapply H, Hu].
  Qed.

  Lemma Mp_anchored_nil items s u : Mp true items s u -> u = [].
  Proof. induction 1; auto. Qed.

  (** ** Leftmost search and the shrinking loop *)
  Lemma search_spec (f : list A -> option (list A)) s :
    match search f s with
    | Some (m, u) => suffix m s /\ f m = Some u /\ forall s0, suffix s0 s -> length m < length s0 -> f s0 = None
    | None => forall s1, suffix s1 s -> f s1 = None
    end.
  Proof.
    induction s as [|c s IH]; cbn.
    - destruct (f []) eqn:E.
      + split; [constructor|]. split; [exact E|]. intros s0 Hs Hl. apply suffix_length in Hs. cbn in *. lia.
      + intros s1 Hs. inversion Hs; subst. exact E.
    - destruct (f (c :: s)) eqn:E.
      + split; [constructor|]. split; [exact E|]. intros s0 Hs Hl. apply suffix_length in Hs. lia.
      + destruct (search f s) as [[m u]|].
        * destruct IH as (Hs1 & Hf & Hmax). split; [constructor; exact Hs1|]. split; [exact Hf|].
          intros s0 Hs0 Hl. apply suffix_cons_inv in Hs0 as [->|Hs0]; [exact E|apply Hmax; assumption].
        * intros s1 Hs. apply suffix_cons_inv in Hs as [->|Hs]; [exact E|apply IH, Hs].
  Qed.

  Lemma shrink_spec (f : list A -> option (list A)) : forall fuel m,
    length m <= fuel -> f m <> None ->
    let r := shrink fuel f m in
    suffix r m /\ f r <> None /\ forall s0, suffix s0 m -> length s0 < length r -> f s0 = None.
  Proof.
    induction fuel as [|fuel IH]; intros m Hl Hf; cbn.
    - destruct m; [|cbn in Hl; lia]. split; [constructor|]. split; [exact Hf|]. intros s0 _ H. cbn in H. lia.
    - destruct m as [|c m'].
      + split; [constructor|]. split; [exact Hf|]. intros s0 _ H. cbn in H. lia.
      + pose proof (search_spec f m') as Hs. destruct (search f m') as [[m2 u2]|].
        * destruct Hs as (Hs2 & Hf2 & Hmax).
          assert (Hl2 : length m2 <= fuel) by (apply suffix_length in Hs2; cbn in Hl; lia).
          assert (Hn2 : f m2 <> None) by congruence.
          destruct (IH m2 Hl2 Hn2) as (Hr & Hfr & Hmin).
          split; [constructor; eapply suffix_trans; eassumption|]. split; [exact Hfr|].
          intros s0 Hs0 Hlt. apply suffix_cons_inv in Hs0 as [->|Hs0].
          -- apply suffix_length in Hr. apply suffix_length in Hs2. cbn in Hlt. lia.
          -- destruct (suffix_total _ _ _ Hs0 Hs2) as [H|H]; [apply Hmin; assumption|].
             apply suffix_length in H. apply suffix_length in Hr. lia.
        * split; [constructor|]. split; [exact Hf|].
          intros s0 Hs0 Hlt. apply suffix_cons_inv in Hs0 as [->|Hs0]; [lia|apply Hs, Hs0].
  Qed.
End P.
