From GoSh Require Import Base.Bytes Pattern.Regex Pattern.PCompile Pattern.Match Pattern.GlobExact Expand.QuotedLiteral.
From GoShGen Require Import Extracted.
From Coq Require Import Lia.
Open Scope N_scope.

(** no pattern, no match *)
Lemma search_none {A} (s : list A) : search (fun _ : list A => None) s = None.
Proof. induction s as [|a s IH]; cbn; [reflexivity|exact IH]. Qed.

Theorem no_pattern_no_match mode s : match_model [] mode s = MNoMatch.
Proof.
  unfold match_model. destruct (m_prefix mode && m_suffix mode); [reflexivity|].
  unfold compile_model. cbn [compile_all map]. unfold match_items. cbn [alt].
  destruct (m_prefix mode); [destruct (m_suffix mode); reflexivity|].
  destruct (m_suffix mode); rewrite (search_none (syms_of s)); reflexivity.
Qed.

(** a collating symbol or equivalence class of one character is that character, a member of the
    bracket expression like any other; its text does not reach the regular expression as written *)
Lemma find_close_single d x rest : (d = 46 \/ d = 61) ->
  find_close d (x :: d :: 93 :: rest) = Some ([x], rest).
Proof.
  intros Hd. cbn [find_close].
  assert (Hd93 : (d =? 93) = false) by (destruct Hd as [->| ->]; reflexivity).
  rewrite Hd93, Bool.andb_false_r, N.eqb_refl. reflexivity.
Qed.

Lemma bloop_open f d p2 : bloop (S f) (91 :: d :: p2) =
  let cont (txt : list rune) (p' : list rune) (coll : bool) :=
      match bloop f p' with
      | Some (t, rest, c) => Some (txt ++ t, rest, coll || c)
      | None => None
      end in
  if memb d [46; 61; 58] then
    match find_close d p2 with
    | Some (inside, rest) =>
      if d =? 58 then match inside with
                      | 94 :: _ => cont [] rest true
                      | _ => cont ([91; d] ++ inside ++ [d; 93]) rest false
                      end
      else match inside with
           | [x] => cont (if esc_in_bracket x then [92; x] else [x]) rest false
           | _ => cont [] rest true
           end
    | None => cont [92; 91] (d :: p2) false
    end
  else cont [92; 91] (d :: p2) false.
Proof. reflexivity. Qed.

Lemma bloop_close f p : bloop (S f) (93 :: p) = Some ([93], p, false).
Proof. reflexivity. Qed.

Theorem collating_single g d x f rest :
  (d = 46 \/ d = 61) -> (0 < f)%nat ->
  citems f g (91 :: 91 :: d :: x :: d :: 93 :: 93 :: rest) =
  match citems (f - 1) g rest with
  | COk l => COk ((RClass false [CChar x], 91 :: txt (emit [x] ++ [93])) :: l)
  | CErr => CErr
  | CUnmodelled => CUnmodelled
  end.
Proof.
  intros Hd Hf. destruct f as [|f]; [lia|]. replace (S f - 1)%nat with f by lia.
  assert (Hm : memb d [46; 61; 58] = true) by (destruct Hd as [->| ->]; reflexivity).
  assert (H58 : (d =? 58) = false) by (destruct Hd as [->| ->]; reflexivity).
  assert (He : (if esc_in_bracket x then [92; x] else [x]) ++ [93] = emit [x] ++ [93]).
  { unfold emit. cbn [flat_map]. now rewrite app_nil_r. }
  assert (Hb : bloop (S (length (91 :: d :: x :: d :: 93 :: 93 :: rest))) (91 :: d :: x :: d :: 93 :: 93 :: rest) = Some (emit [x] ++ [93], rest, false)).
  { rewrite bloop_open. cbv zeta. rewrite Hm, (find_close_single d x (93 :: rest) Hd), H58.
    cbn [length]. rewrite bloop_close, He. reflexivity. }
  change (citems (S f) g (91 :: 91 :: d :: x :: d :: 93 :: 93 :: rest)) with
    (match bloop (S (length (91 :: d :: x :: d :: 93 :: 93 :: rest))) (91 :: d :: x :: d :: 93 :: 93 :: rest) with
     | None => if memb 93 (91 :: d :: x :: d :: 93 :: 93 :: rest) then CUnmodelled else CErr
     | Some (t, rest0, coll) =>
       if coll then CErr else
       match go_class (2 * S (length ([] ++ t))) true ([] ++ t) with
       | None => CErr
       | Some (cs, []) => match citems f g rest0 with
                          | COk l => COk ((RClass false cs, 91 :: (if false then [94] else []) ++ txt ([] ++ t)) :: l)
                          | CErr => CErr
                          | CUnmodelled => CUnmodelled
                          end
       | Some (_, _ :: _) => CUnmodelled
       end
     end).
  rewrite Hb. cbn [app].
  rewrite (go_class_quoted_first [x]); [reflexivity|discriminate|].
  unfold emit. cbn [flat_map length]. destruct (esc_in_bracket x); cbn [app length]; lia.
Qed.

(** [:^name:], the negated class of package regexp, is no class name: a bracket expression that holds
    one is rejected, whatever the name *)
Lemma find_close_name name r :
  forallb (fun c => negb (c =? 58)) name = true ->
  find_close 58 (name ++ 58 :: 93 :: r) = Some (name, r).
Proof.
  induction name as [|x name IH]; intros H.
  - reflexivity.
  - cbn [forallb] in H. apply Bool.andb_true_iff in H. destruct H as [Hx H].
    specialize (IH H). apply Bool.negb_true_iff in Hx.
    change ((x :: name) ++ 58 :: 93 :: r) with (x :: (name ++ 58 :: 93 :: r)).
    destruct name as [|y name]; cbn [app] in *.
    + cbn [find_close]. rewrite Hx. cbn [andb]. cbn [find_close] in IH. rewrite IH. reflexivity.
    + cbn [find_close]. rewrite Hx. cbn [andb]. cbn [find_close] in IH. rewrite IH. reflexivity.
Qed.

Theorem negated_class_rejected g f name rest :
  forallb (fun c => negb (c =? 58)) name = true -> (0 < f)%nat ->
  citems f g (91 :: 91 :: 58 :: 94 :: name ++ 58 :: 93 :: 93 :: rest) = CErr.
Proof.
  intros Hn Hf. destruct f as [|f]; [lia|].
  set (p := 91 :: 58 :: 94 :: name ++ 58 :: 93 :: 93 :: rest).
  assert (Hb : bloop (S (length p)) p = Some ([93], rest, true)).
  { unfold p. rewrite bloop_open. cbv zeta.
    change (94 :: name ++ 58 :: 93 :: 93 :: rest) with ((94 :: name) ++ 58 :: 93 :: 93 :: rest).
    rewrite (find_close_name (94 :: name) (93 :: rest)); [|cbn [forallb]; rewrite Hn; reflexivity].
    change (memb 58 [46; 61; 58]) with true. change (58 =? 58) with true. cbv iota.
    cbn [length]. rewrite bloop_close. reflexivity. }
  change (citems (S f) g (91 :: p)) with
    (match bloop (S (length p)) p with
     | None => if memb 93 p then CUnmodelled else CErr
     | Some (t, rest0, coll) =>
       if coll then CErr else
       match go_class (2 * S (length ([] ++ t))) true ([] ++ t) with
       | None => CErr
       | Some (cs, []) => match citems f g rest0 with
                          | COk l => COk ((RClass false cs, 91 :: (if false then [94] else []) ++ txt ([] ++ t)) :: l)
                          | CErr => CErr
                          | CUnmodelled => CUnmodelled
                          end
       | Some (_, _ :: _) => CUnmodelled
       end
     end).
  rewrite Hb. reflexivity.
Qed.

Example negated_class_witness : compile1 true [91; 91; 58; 94; 97; 108; 112; 104; 97; 58; 93; 93] = CErr.
Proof. vm_compute. reflexivity. Qed.
