(** Specification of shell pattern matching (XCU 2.13) on the pattern AST: denotation,
    and the four extreme-affix selections of the property. Executable oracle + relation. *)
From GoSh Require Import Base.Bytes Pattern.Regex.
Open Scope N_scope.

Section Spec.
  Variable A : Type.
  Variable rune_of : A -> rune.

  (** [Mp ae items s u]: [items] matches a prefix of [s] leaving the remainder [u]
      ([ae]: the match must reach the end, i.e. u = []). *)
  Inductive Mp (ae : bool) : list ritem -> list A -> list A -> Prop :=
  | Mp_nil s : (ae = true -> s = []) -> Mp ae [] s s
  | Mp_one it rest c s u : it <> RStar -> item1 rune_of it c = true -> Mp ae rest s u -> Mp ae (it :: rest) (c :: s) u
  | Mp_star0 rest s u : Mp ae rest s u -> Mp ae (RStar :: rest) s u
  | Mp_starS rest c s u : Mp ae (RStar :: rest) s u -> Mp ae (RStar :: rest) (c :: s) u.

  (** whole-string match *)
  Definition Mt (items : list ritem) (t : list A) : Prop := Mp true items t [].

  (** executable whole-string matcher, written without priorities (plain disjunction) *)
  Fixpoint pmb (items : list ritem) (t : list A) {struct items} : bool :=
    match items with
    | [] => match t with [] => true | _ => false end
    | RStar :: rest =>
      (fix go (t : list A) : bool :=
         pmb rest t || match t with [] => false | _ :: t' => go t' end) t
    | it :: rest =>
      match t with
      | c :: t' => item1 rune_of it c && pmb rest t'
      | [] => false
      end
    end.

  Definition pmb_any (alts : list (list ritem)) (t : list A) : bool := existsb (fun p => pmb p t) alts.

  (** all split points 0..length, as (prefix, suffix) *)
  Fixpoint splits (s : list A) : list (list A * list A) :=
    ([], s) :: match s with
               | [] => []
               | c :: s' => map (fun ps => (c :: fst ps, snd ps)) (splits s')
               end.

  Definition first_some {B} (f : B -> bool) (l : list B) : option B := find f l.
  Definition last_some {B} (f : B -> bool) (l : list B) : option B := find f (rev l).

  (** the affix selected by each of the four modes; None = NoMatch *)
  Definition spec_prefix (largest : bool) (alts : list (list ritem)) (s : list A) : option (list A) :=
    option_map fst ((if largest then last_some else first_some) (fun ps => pmb_any alts (fst ps)) (splits s)).
  Definition spec_suffix (largest : bool) (alts : list (list ritem)) (s : list A) : option (list A) :=
    option_map snd ((if largest then first_some else last_some) (fun ps => pmb_any alts (snd ps)) (splits s)).
End Spec.
Arguments Mp {A} rune_of ae items s u.
Arguments Mt {A} rune_of items t.
Arguments pmb {A} rune_of items t.
Arguments pmb_any {A} rune_of alts t.
Arguments splits {A} s.
Arguments spec_prefix {A} rune_of largest alts s.
Arguments spec_suffix {A} rune_of largest alts s.
