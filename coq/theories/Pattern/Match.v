(** Model of pattern.Match (pattern/pattern.go:42-71 after the repairs). Executable; no proofs. *)
From GoSh Require Import Base.Bytes Pattern.Regex Pattern.PCompile.
Open Scope N_scope.

Inductive mres :=
| MOk (m : bytes)
| MNoMatch
| MErr
| MUnmodelled.

Notation sym := (rune * bytes)%type (only parsing).
Definition raw (l : list sym) : bytes := concat (map snd l).

(** consumed part: the symbols of [s] that are not in the remainder [u] *)
Definition consumed {A} (s u : list A) : list A := firstn (length s - length u) s.

Definition match_items (alts : list (list ritem)) (mode : N) (s : list sym) : option (list sym) :=
  let g := m_greedy mode in
  if m_prefix mode then
    if m_suffix mode then None
    else match alt fst g false alts s with
         | Some u => Some (consumed s u)
         | None => None
         end
  else if m_suffix mode then
    match search (alt fst g true alts) s with
    | Some (m, _) => Some (if m_smallest mode then shrink (length m) (alt fst g true alts) m else m)
    | None => None
    end
  else
    match search (alt fst g false alts) s with
    | Some (m, u) => Some (consumed m u)
    | None => None
    end.

Definition match_model (pats : list bytes) (mode : N) (s : bytes) : mres :=
  if m_prefix mode && m_suffix mode then MNoMatch
  else match compile_model pats mode with
       | CErr => MErr
       | CUnmodelled => MUnmodelled
       | COk alts =>
         match match_items (map (map fst) alts) mode (syms_of s) with
         | Some m => MOk (raw m)
         | None => MNoMatch
         end
       end.

(** Glob's use: compile with Prefix|Suffix and MatchString *)
Definition full_match (alts : list (list ritem)) (s : list sym) : bool :=
  match alt fst true true alts s with Some _ => true | None => false end.
