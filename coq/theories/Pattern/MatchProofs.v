(** The four modes of pattern.Match select the extreme matching affix (for every pattern item
    list, every subject): the model's answer is characterised by the denotation [Mt]. *)
From GoSh Require Import Base.Bytes Pattern.Regex Pattern.PCompile Pattern.Match Pattern.PSpec Pattern.RegexProofs.
From GoShGen Require Import Extracted.
From Coq Require Import Lia Arith.
Local Open Scope nat_scope.

Section M.
  Variable A : Type.
  Variable rune_of : A -> rune.
  Notation Mp := (Mp rune_of).
  Notation Mt := (Mt rune_of).
  Notation bt := (bt rune_of).
  Notation suffix := (suffix A).

  Lemma Mp_split_l items s u : Mp false items s u -> exists m, s = m ++ u /\ Mt items m.
  Proof.
    unfold PSpec.Mt. induction 1 as [s Hs|it rest c s u Hn Hi H IH|rest s u H IH|rest c s u H IH].
    - exists []. split; [reflexivity|]. constructor. reflexivity.
    - destruct IH as (m & -> & Hm). exists (c :: m). split; [reflexivity|]. constructor; assumption.
    - destruct IH as (m & -> & Hm). exists m. split; [reflexivity|]. apply Mp_star0. exact Hm.
    - destruct IH as (m & -> & Hm). exists (c :: m). split; [reflexivity|]. apply Mp_starS. exact Hm.
  Qed.

  Lemma Mp_split_r items m u0 : Mp true items m u0 -> forall u, Mp false items (m ++ u) u.
  Proof.
    induction 1 as [s Hs|it rest c s u1 Hn Hi H IH|rest s u1 H IH|rest c s u1 H IH]; intros u.
    - rewrite (Hs eq_refl). cbn. constructor. discriminate.
    - cbn. constructor; auto.
    - apply Mp_star0. apply IH.
    - cbn. apply Mp_starS. apply IH.
  Qed.

  Lemma consumed_app (m u : list A) : consumed (m ++ u) u = m.
  Proof.
    unfold consumed. rewrite app_length. replace (length m + length u - length u) with (length m) by lia.
    rewrite firstn_app. replace (length m - length m) with 0 by lia. cbn. rewrite firstn_all. apply app_nil_r.
  Qed.

  Lemma alt_single g ae items s : alt rune_of g ae [items] s = bt g ae items s.
  Proof. cbn. destruct (bt g ae items s); reflexivity. Qed.

  Lemma alt_some_iff g ae alts s :
    (exists u, alt rune_of g ae alts s = Some u) <-> (exists p, In p alts /\ exists u, Mp ae p s u).
  Proof.
    induction alts as [|p ps IH]; cbn.
    - split; [intros [u H]; discriminate|intros (p & [] & _)].
    - destruct (bt g ae p s) as [u|] eqn:E.
      + split; [intros _|intros _; eauto]. exists p. split; [left; reflexivity|].
        apply (bt_some_iff A rune_of g). eauto.
      + rewrite IH. split.
        * intros (q & Hq & Hu). exists q. split; [right; exact Hq|exact Hu].
        * intros (q & [<-|Hq] & Hu); [|eauto].
          apply (bt_some_iff A rune_of g) in Hu as [u Hu]. congruence.
  Qed.

  (** *** Prefix modes *)
  Theorem prefix_largest items s :
    match bt true false items s with
    | Some u => exists m, s = m ++ u /\ consumed s u = m /\ Mt items m /\
                          forall m' u', s = m' ++ u' -> Mt items m' -> length m' <= length m
    | None => forall m' u', s = m' ++ u' -> ~ Mt items m'
    end.
  Proof.
    pose proof (bt_greedy_spec A rune_of false items s) as H.
    destruct (bt true false items s) as [u|].
    - destruct H as [Hm Hbest]. destruct (Mp_split_l _ _ _ Hm) as (m & -> & Hmt).
      exists m. split; [reflexivity|]. split; [apply consumed_app|]. split; [exact Hmt|].
      intros m' u' E Hm'. pose proof (Mp_split_r _ _ _ Hm' u') as H2. rewrite <- E in H2.
      specialize (Hbest _ H2). apply (f_equal (@length A)) in E. rewrite !app_length in E. lia.
    - intros m' u' -> Hm'. eapply H. eapply Mp_split_r. exact Hm'.
  Qed.

  Theorem prefix_smallest items s :
    match bt false false items s with
    | Some u => exists m, s = m ++ u /\ consumed s u = m /\ Mt items m /\
                          forall m' u', s = m' ++ u' -> Mt items m' -> length m <= length m'
    | None => forall m' u', s = m' ++ u' -> ~ Mt items m'
    end.
  Proof.
    pose proof (bt_lazy_spec A rune_of false items s) as H.
    destruct (bt false false items s) as [u|].
    - destruct H as [Hm Hbest]. destruct (Mp_split_l _ _ _ Hm) as (m & -> & Hmt).
      exists m. split; [reflexivity|]. split; [apply consumed_app|]. split; [exact Hmt|].
      intros m' u' E Hm'. pose proof (Mp_split_r _ _ _ Hm' u') as H2. rewrite <- E in H2.
      specialize (Hbest _ H2). apply (f_equal (@length A)) in E. rewrite !app_length in E. lia.
    - intros m' u' -> Hm'. eapply H. eapply Mp_split_r. exact Hm'.
  Qed.

  (** *** Suffix modes *)
  Lemma anchored_iff g items t : bt g true items t <> None <-> Mt items t.
  Proof.
    unfold PSpec.Mt. split.
    - intros H. destruct (bt g true items t) as [u|] eqn:E; [|congruence].
      assert (Hex : exists u, bt g true items t = Some u) by eauto.
      apply (bt_some_iff A rune_of) in Hex as [u' Hu']. rewrite (Mp_anchored_nil A rune_of _ _ _ Hu') in Hu'. exact Hu'.
    - intros H. assert (Hex : exists u, Mp true items t u) by eauto.
      apply (bt_some_iff A rune_of g) in Hex as [u Hu]. congruence.
  Qed.

  Theorem suffix_largest g items s :
    match search (bt g true items) s with
    | Some (m, _) => suffix m s /\ Mt items m /\ forall s0, suffix s0 s -> Mt items s0 -> length s0 <= length m
    | None => forall s0, suffix s0 s -> ~ Mt items s0
    end.
  Proof.
    pose proof (search_spec A (bt g true items) s) as H.
    destruct (search (bt g true items) s) as [[m u]|].
    - destruct H as (Hs & Hf & Hmax). split; [exact Hs|]. split; [apply (anchored_iff g); congruence|].
      intros s0 Hs0 Hm0. destruct (le_lt_dec (length s0) (length m)) as [Hle|Hlt]; [exact Hle|].
      apply (anchored_iff g) in Hm0. rewrite (Hmax s0 Hs0 Hlt) in Hm0. congruence.
    - intros s0 Hs0 Hm0. apply (anchored_iff g) in Hm0. rewrite (H s0 Hs0) in Hm0. congruence.
  Qed.

  Theorem suffix_smallest g items s :
    match search (bt g true items) s with
    | Some (m, _) =>
      let r := shrink (length m) (bt g true items) m in
      suffix r s /\ Mt items r /\ forall s0, suffix s0 s -> Mt items s0 -> length r <= length s0
    | None => forall s0, suffix s0 s -> ~ Mt items s0
    end.
  Proof.
    pose proof (suffix_largest g items s) as HL.
    pose proof (search_spec A (bt g true items) s) as H.
    destruct (search (bt g true items) s) as [[m u]|]; [|exact HL].
    destruct H as (Hs & Hf & _). destruct HL as (_ & Hmm & Hlong).
    assert (Hn : bt g true items m <> None) by congruence.
    destruct (shrink_spec A (bt g true items) (length m) m (le_n _) Hn) as (Hr & Hfr & Hmin).
    cbn zeta. split; [eapply suffix_trans; eassumption|]. split; [apply (anchored_iff g), Hfr|].
    intros s0 Hs0 Hm0. destruct (suffix_total A _ _ _ Hs0 Hs) as [H0|H0].
    - destruct (le_lt_dec (length (shrink (length m) (bt g true items) m)) (length s0)) as [Hle|Hlt]; [exact Hle|].
      apply (anchored_iff g) in Hm0. rewrite (Hmin s0 H0 Hlt) in Hm0. congruence.
    - apply suffix_length in H0. apply suffix_length in Hr. lia.
  Qed.

  (** the executable whole-string matcher used by the judge decides the denotation *)
  Lemma pmb_correct items : forall t, pmb rune_of items t = true <-> Mt items t.
  Proof.
    unfold PSpec.Mt. induction items as [|it rest IH]; intros t.
    - cbn. destruct t; split; intros H; try discriminate.
      + constructor. reflexivity.
      + reflexivity.
      + apply Mp_nil_inv in H as [_ H]. specialize (H eq_refl). discriminate.
    - assert (Hdec : it = RStar \/ it <> RStar) by (destruct it; auto; right; discriminate).
      destruct Hdec as [->|Hn].
      + cbn [pmb]. rewrite Mp_star_inv.
        induction t as [|c t IHt].
        * rewrite orb_false_r. rewrite IH. split.
          -- intros H. exists []. split; [constructor|exact H].
          -- intros (s1 & Hs & Hm). inversion Hs; subst. exact Hm.
        * rewrite orb_true_iff, IH, IHt. split.
          -- intros [H|(s1 & Hs & Hm)]; [exists (c :: t); split; [constructor|exact H]|].
             exists s1. split; [constructor; exact Hs|exact Hm].
          -- intros (s1 & Hs & Hm). apply suffix_cons_inv in Hs as [->|Hs]; [left; exact Hm|right; eauto].
      + assert (E : pmb rune_of (it :: rest) t =
                    match t with c :: t' => item1 rune_of it c && pmb rune_of rest t' | [] => false end)
          by (destruct it; try congruence; reflexivity).
        rewrite E. destruct t as [|c t].
        * split; [discriminate|]. intros H. apply Mp_one_inv in H as (c & s' & E' & _); [discriminate|exact Hn].
        * rewrite andb_true_iff, IH. split.
          -- intros [Hc Hm]. constructor; assumption.
          -- intros H. apply Mp_one_inv in H as (c' & s' & E' & Hc & Hm); [|exact Hn]. inversion E'; subst. auto.
  Qed.
End M.

(** * The four modes of [match_items] (symbols = (rune, raw bytes)) *)
Definition mPS : N := (Extracted.mode_Prefix + Extracted.mode_Smallest)%N.
Definition mPL : N := (Extracted.mode_Prefix + Extracted.mode_Largest)%N.
Definition mSS : N := (Extracted.mode_Suffix + Extracted.mode_Smallest)%N.
Definition mSL : N := (Extracted.mode_Suffix + Extracted.mode_Largest)%N.

Definition is_prefix (m s : list sym) : Prop := exists u, s = m ++ u.
Definition is_suffix (m s : list sym) : Prop := exists p, s = p ++ m.

(** [extreme sel items s r]: [r] is the answer prescribed by the property: the matching affix of
    extreme length, or None when no affix matches. *)
Definition extreme (affix : list sym -> list sym -> Prop) (longest : bool) (items : list ritem)
           (s : list sym) (r : option (list sym)) : Prop :=
  match r with
  | Some m => affix m s /\ Mt fst items m /\
              forall m', affix m' s -> Mt fst items m' ->
                         if longest then length m' <= length m else length m <= length m'
  | None => forall m', affix m' s -> ~ Mt fst items m'
  end.

Lemma suffix_is_suffix m s : suffix sym m s <-> is_suffix m s.
Proof.
  split; [apply suffix_split|]. intros [p ->]. apply suffix_app.
Qed.

Lemma match_prefix_largest items s : extreme is_prefix true items s (match_items [items] mPL s).
Proof.
  unfold match_items. change (m_prefix mPL) with true. change (m_suffix mPL) with false.
  change (m_greedy mPL) with true. rewrite alt_single.
  pose proof (prefix_largest sym fst items s) as H. revert H. destruct (bt fst true false items s) as [u|]; intros H; cbn.
  - destruct H as (m & E & -> & Hm & Hbest). split; [exists u; exact E|]. split; [exact Hm|].
    intros m' [u' E'] Hm'. eapply Hbest; eassumption.
  - intros m' [u' E']. eapply H. exact E'.
Qed.

Lemma match_prefix_smallest items s : extreme is_prefix false items s (match_items [items] mPS s).
Proof.
  unfold match_items. change (m_prefix mPS) with true. change (m_suffix mPS) with false.
  change (m_greedy mPS) with false. rewrite alt_single.
  pose proof (prefix_smallest sym fst items s) as H. revert H. destruct (bt fst false false items s) as [u|]; intros H; cbn.
  - destruct H as (m & E & -> & Hm & Hbest). split; [exists u; exact E|]. split; [exact Hm|].
    intros m' [u' E'] Hm'. eapply Hbest; eassumption.
  - intros m' [u' E']. eapply H. exact E'.
Qed.

Lemma search_ext {A} (f g : list A -> option (list A)) s : (forall x, f x = g x) -> search f s = search g s.
Proof. intros E. induction s as [|c s IH]; cbn; rewrite E; [reflexivity|]. destruct (g (c :: s)); [reflexivity|exact IH]. Qed.

Lemma shrink_ext {A} (f g : list A -> option (list A)) fuel : forall m, (forall x, f x = g x) -> shrink fuel f m = shrink fuel g m.
Proof.
  induction fuel as [|fuel IH]; intros m E; cbn; [reflexivity|]. destruct m as [|c m]; [reflexivity|].
  rewrite (search_ext f g m E). destruct (search g m) as [[m2 u]|]; [apply IH, E|reflexivity].
Qed.

Lemma match_suffix_largest items s : extreme is_suffix true items s (match_items [items] mSL s).
Proof.
  unfold match_items. change (m_prefix mSL) with false. change (m_suffix mSL) with true.
  change (m_greedy mSL) with true. change (m_smallest mSL) with false.
  rewrite (search_ext _ _ s (alt_single (rune * bytes)%type fst true true items)).
  pose proof (suffix_largest sym fst true items s) as H. revert H.
  destruct (search (bt fst true true items) s) as [[m u]|]; intros H; cbn.
  - destruct H as (Hs & Hm & Hbest). split; [apply suffix_is_suffix, Hs|]. split; [exact Hm|].
    intros m' Hs' Hm'. apply Hbest; [apply suffix_is_suffix, Hs'|exact Hm'].
  - intros m' Hs'. apply H. apply suffix_is_suffix, Hs'.
Qed.

Lemma match_suffix_smallest items s : extreme is_suffix false items s (match_items [items] mSS s).
Proof.
  unfold match_items. change (m_prefix mSS) with false. change (m_suffix mSS) with true.
  change (m_greedy mSS) with false. change (m_smallest mSS) with true.
  rewrite (search_ext _ _ s (alt_single (rune * bytes)%type fst false true items)).
  pose proof (suffix_smallest sym fst false items s) as H. revert H.
  destruct (search (bt fst false true items) s) as [[m u]|]; intros H; unfold extreme; cbv beta iota.
  - rewrite (shrink_ext _ _ (length m) m (alt_single (rune * bytes)%type fst false true items)).
    cbn zeta in H. destruct H as (Hs & Hm & Hbest). split; [apply suffix_is_suffix, Hs|]. split; [exact Hm|].
    intros m' Hs' Hm'. apply Hbest; [apply suffix_is_suffix, Hs'|exact Hm'].
  - intros m' Hs'. apply H. apply suffix_is_suffix, Hs'.
Qed.

(** several patterns match exactly when one of them does *)
Lemma match_alt_prefix alts s mode : m_prefix mode = true -> m_suffix mode = false ->
  (match_items alts mode s <> None <-> exists p m, In p alts /\ is_prefix m s /\ Mt fst p m).
Proof.
  intros Hp Hs. unfold match_items. rewrite Hp, Hs. split.
  - destruct (alt fst (m_greedy mode) false alts s) as [u|] eqn:E; [intros _|intros H; exfalso; apply H; reflexivity].
    assert (Hex : exists u, alt fst (m_greedy mode) false alts s = Some u) by eauto.
    apply alt_some_iff in Hex as (p & Hin & u' & Hu'). destruct (Mp_split_l (rune * bytes)%type fst _ _ _ Hu') as (m & E' & Hm).
    exists p, m. split; [exact Hin|]. split; [exists u'; exact E'|exact Hm].
  - intros (p & m & Hin & [u ->] & Hm).
    assert (Hex : exists p, In p alts /\ exists u0, Mp fst false p (m ++ u) u0)
      by (exists p; split; [exact Hin|exists u; eapply Mp_split_r; exact Hm]).
    apply (alt_some_iff (rune * bytes)%type fst (m_greedy mode)) in Hex as [u0 Hu0].
    intros Hc. rewrite Hu0 in Hc. discriminate.
Qed.

Lemma match_alt_suffix alts s mode : m_prefix mode = false -> m_suffix mode = true ->
  (match_items alts mode s <> None <-> exists p m, In p alts /\ is_suffix m s /\ Mt fst p m).
Proof.
  intros Hp Hs. unfold match_items. rewrite Hp, Hs.
  pose proof (search_spec (rune * bytes)%type (alt fst (m_greedy mode) true alts) s) as H. revert H.
  destruct (search (alt fst (m_greedy mode) true alts) s) as [[m u]|]; intros H.
  - split; [intros _|intros _; discriminate]. destruct H as (Hsm & Hf & _).
    assert (Hex : exists u, alt fst (m_greedy mode) true alts m = Some u) by eauto.
    apply alt_some_iff in Hex as (p & Hin & u' & Hu').
    exists p, m. split; [exact Hin|]. split; [apply suffix_is_suffix, Hsm|].
    unfold PSpec.Mt. rewrite (Mp_anchored_nil (rune * bytes)%type fst _ _ _ Hu') in Hu'. exact Hu'.
  - split; [congruence|]. intros (p & m & Hin & Hsm & Hm). exfalso.
    assert (Hex : exists p, In p alts /\ exists u0, Mp fst true p m u0) by (exists p; split; [exact Hin|exists []; exact Hm]).
    apply (alt_some_iff (rune * bytes)%type fst (m_greedy mode)) in Hex as [u0 Hu0].
    rewrite (H m) in Hu0; [discriminate|apply suffix_is_suffix, Hsm].
Qed.
