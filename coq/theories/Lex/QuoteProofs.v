(** C15: literal quotings survive scanning and expansion unchanged. *)
From GoSh Require Import Base.Bytes Base.Outcome Store.Env Expand.Expand Expand.SplitProofs Lex.Quote.
From GoShGen Require Import Extracted.
From Coq Require Import Lia.
Open Scope N_scope.

Section Q.
  Variable users : list (bytes * bytes).
  Variable glob : bytes -> option (list bytes).
  Notation expand := (expand users).
  Notation expand_parts := (expand_parts users).

  (** ** equations of expand_parts on the shapes of the fragment *)
  Lemma eq_expand f e w mode :
    expand (S f) e w mode =
    expand_parts f e w mode true (if mbit mode mQuote then [[([], true)]] else [[]]).
  Proof. reflexivity. Qed.

  Lemma eq_nil f e mode first fs : expand_parts (S f) e [] mode first fs = Ok (e, fs).
  Proof. reflexivity. Qed.

  Lemma eq_q1 f e t rest mode first fs tok : tok = 39 \/ tok = 92 ->
    expand_parts (S f) e (WQuote tok [WLit t] :: rest) mode first fs =
    expand_parts f e rest mode false (join_last fs t true).
  Proof. intros [->| ->]; reflexivity. Qed.

  Lemma eq_q0 f e rest mode first fs tok : tok = 39 \/ tok = 92 ->
    expand_parts (S f) e (WQuote tok [] :: rest) mode first fs =
    expand_parts f e rest mode false (join_last fs [] true).
  Proof. intros [->| ->]; reflexivity. Qed.

  (* the content of a double-quoted part of literal quotings is never a run of $@ *)
  Lemma dq_not_at v t : all_some (map dq_inner_text v) = Some t -> only_at v = false.
  Proof.
    unfold only_at. destruct v as [|p v]; [reflexivity|]. cbn [map all_some length Nat.eqb negb forallb andb].
    destruct p as [s|tok w| | |]; cbn [dq_inner_text]; try discriminate; reflexivity.
  Qed.

  (* nor is a word made of literal quotings *)
  Lemma word_text_not_at w t : word_text w = Some t -> only_at w = false.
  Proof.
    unfold only_at, word_text. destruct w as [|p w]; [reflexivity|]. cbn [map all_some length Nat.eqb negb forallb andb].
    destruct p as [s|tok v| | |]; cbn [part_text]; try discriminate; reflexivity.
  Qed.

  Lemma quoted_at_only_literal e w t mode : word_text w = Some t -> quoted_at_only e w mode = false.
  Proof. intros H. unfold quoted_at_only. rewrite (word_text_not_at w t H). apply Bool.andb_false_r. Qed.

  Lemma eq_dq f e v rest mode first fs : only_at v = false ->
    expand_parts (S f) e (WQuote 34 v :: rest) mode first fs =
    match expand f e v (N.lor (N.land mode mArith) mQuote) with
    | Ok (e1, w) => expand_parts f e1 rest mode false (merge_fields fs w)
    | Err x => Err x | Panic p => Panic p | OutOfFuel => OutOfFuel
    end.
  Proof. intros H. cbn [Expand.expand_parts]. change (34 =? 92) with false. change (34 =? 39) with false. change (34 =? 34) with true. cbv iota. cbn [orb]. rewrite H. reflexivity. Qed.

  Lemma eq_lit_q f e s rest mode first fs :
    mbit mode mQuote = true -> mbit mode mAssign = false ->
    expand_parts (S f) e (WLit s :: rest) mode first fs =
    expand_parts f e rest mode false (upd_last (fun _ => fjoin (last fs []) s true) fs).
  Proof.
    intros HQ HA. cbn [Expand.expand_parts]. unfold expand_tilde. rewrite HQ, HA.
    rewrite Bool.orb_true_r. destruct first; cbn [after_tilde skipn]; reflexivity.
  Qed.

  (** ** fields: appending quoted segments to the current field *)
  Definition add_segs (fs : list field) (segs : field) : list field := upd_last (fun f => f ++ segs) fs.

  Lemma upd_last_snoc' (g : field -> field) (fs : list field) (l : field) : upd_last g (fs ++ [l]) = fs ++ [g l].
  Proof. apply upd_last_snoc. Qed.

  Lemma last_snoc (fs : list field) (l : field) : last (fs ++ [l]) [] = l.
  Proof. induction fs as [|x fs IH]; cbn; [reflexivity|]. destruct (fs ++ [l]) eqn:E; [destruct fs; discriminate|exact IH]. Qed.

  Lemma add_segs_snoc fs l segs : add_segs (fs ++ [l]) segs = fs ++ [l ++ segs].
  Proof. unfold add_segs. rewrite upd_last_snoc. reflexivity. Qed.

  (** ** inside double quotes *)
  Lemma expand_dq_inner mode : mbit mode mQuote = true -> mbit mode mAssign = false ->
    forall v text, all_some (map dq_inner_text v) = Some text ->
    forall fuel e first fs l, (length v < fuel)%nat ->
    exists segs, all_quoted segs = true /\ funquote segs = text /\
      expand_parts fuel e v mode first (fs ++ [l]) = Ok (e, fs ++ [l ++ segs]).
  Proof.
    intros HQ HA. induction v as [|p v IH]; intros text Ht fuel e first fs l Hf.
    - cbn in Ht. inversion Ht; subst. destruct fuel; [cbn in Hf; lia|]. rewrite eq_nil.
      exists []. rewrite app_nil_r. auto.
    - cbn [map all_some] in Ht. destruct (dq_inner_text p) as [t|] eqn:Ep; [|discriminate].
      destruct (all_some (map dq_inner_text v)) as [r|] eqn:Er; [|discriminate]. inversion Ht; subst text.
      destruct fuel; [cbn in Hf; lia|]. cbn in Hf.
      destruct p as [s|tok val| | |]; cbn in Ep; try discriminate.
      + inversion Ep; subst. rewrite (eq_lit_q _ _ _ _ _ _ _ HQ HA).
        rewrite last_snoc, upd_last_snoc.
        destruct (IH r eq_refl fuel e false fs (fjoin l t true) ltac:(lia)) as (segs & Hq & Hfu & Hex).
        exists ((t, true) :: segs). split; [cbn; exact Hq|]. split; [cbn; unfold funquote in Hfu; cbn; rewrite <- Hfu; reflexivity|].
        rewrite Hex. unfold fjoin. rewrite <- app_assoc. reflexivity.
      + destruct val as [|[t'| | | |] [|]]; try discriminate.
        destruct (N.eqb_spec tok 92) as [->|]; [|discriminate]. inversion Ep; subst.
        rewrite (eq_q1 _ _ _ _ _ _ _ 92 (or_intror eq_refl)).
        unfold join_last. rewrite upd_last_snoc.
        destruct (IH r eq_refl fuel e false fs (fjoin l t true) ltac:(lia)) as (segs & Hq & Hfu & Hex).
        exists ((t, true) :: segs). split; [cbn; exact Hq|]. split; [cbn; unfold funquote in Hfu; cbn; rewrite <- Hfu; reflexivity|].
        rewrite Hex. unfold fjoin. rewrite <- app_assoc. reflexivity.
  Qed.

  (** ** a whole word of literal quotings *)
  Definition psize (p : wpart) : nat := match p with WQuote _ v => length v + 3 | _ => 1 end.
  Definition wsize (w : list wpart) : nat := fold_right (fun p n => psize p + n)%nat 0%nat w.

  Lemma mode_dq_quote mode : mbit (N.lor (N.land mode mArith) mQuote) mQuote = true.
  Proof.
    unfold mbit. rewrite N.land_lor_distr_l.
    change (N.land mQuote mQuote) with mQuote.
    destruct (N.land (N.land mode mArith) mQuote); reflexivity.
  Qed.

  Lemma mode_dq_assign mode : mbit (N.lor (N.land mode mArith) mQuote) mAssign = false.
  Proof.
    unfold mbit. rewrite N.land_lor_distr_l, <- N.land_assoc.
    change (N.land mArith mAssign) with 0. change (N.land mQuote mAssign) with 0.
    rewrite N.land_0_r. reflexivity.
  Qed.

  Lemma expand_lq_word : forall w text, word_text w = Some text ->
    forall fuel e mode first fs l, (wsize w < fuel)%nat ->
    exists segs, all_quoted segs = true /\ funquote segs = text /\ (w <> [] -> segs <> []) /\
      expand_parts fuel e w mode first (fs ++ [l]) = Ok (e, fs ++ [l ++ segs]).
  Proof.
    unfold word_text. induction w as [|p w IH]; intros text Ht fuel e mode first fs l Hf.
    - cbn in Ht. inversion Ht; subst. destruct fuel; [cbn in Hf; lia|]. rewrite eq_nil.
      exists []. rewrite app_nil_r. repeat split; auto.
    - cbn [map all_some] in Ht. destruct (part_text p) as [t|] eqn:Ep; [|discriminate].
      destruct (all_some (map part_text w)) as [r|] eqn:Er; [|discriminate]. inversion Ht; subst text.
      destruct fuel; [cbn in Hf; lia|]. cbn [wsize fold_right] in Hf. fold (wsize w) in Hf.
      destruct p as [s|tok v| | |]; cbn in Ep; try discriminate.
      destruct (N.eqb_spec tok 34) as [->|N34].
      + (* double quotes *)
        cbn [psize] in Hf.
        destruct fuel; [lia|].
        destruct (expand_dq_inner _ (mode_dq_quote mode) (mode_dq_assign mode) v t Ep fuel e true [] [([], true)] ltac:(lia))
          as (segs & Hq & Hfu & Hex).
        cbn [app] in Hex.
        destruct (IH r eq_refl (S fuel) e mode false fs (l ++ ([([], true)] ++ segs)) ltac:(lia)) as (segs2 & Hq2 & Hfu2 & _ & Hex2).
        exists ((([], true) :: segs) ++ segs2). split; [|split; [|split]].
        * unfold all_quoted in *. rewrite forallb_app. cbn [forallb snd andb]. apply andb_true_intro; split; assumption.
        * unfold funquote in *. rewrite map_app, concat_app. cbn [map concat fst app]. f_equal; assumption.
        * intros _. discriminate.
        * rewrite (eq_dq _ _ _ _ _ _ _ (dq_not_at v t Ep)), eq_expand, mode_dq_quote. cbv iota.
          match goal with |- match ?X with _ => _ end = _ =>
            replace X with (@Ok (env * list field) (env * xerr) (e, [([], true) :: segs])) by (symmetry; exact Hex) end.
          unfold merge_fields. rewrite upd_last_snoc, app_nil_r.
          cbn [app] in Hex2. cbn [app]. rewrite Hex2. rewrite <- !app_assoc. reflexivity.
      + destruct ((tok =? 39) || (tok =? 92)) eqn:Etok; [|discriminate].
        assert (Htok : tok = 39 \/ tok = 92).
        { apply Bool.orb_true_iff in Etok as [E|E]; apply N.eqb_eq in E; auto. }
        cbn [psize] in Hf.
        destruct v as [|[t'| | | |] [|]]; try discriminate; inversion Ep; subst t.
        * destruct (IH r eq_refl fuel e mode false fs (fjoin l [] true) ltac:(lia)) as (segs2 & Hq2 & Hfu2 & _ & Hex2).
          exists (([], true) :: segs2). split; [cbn; exact Hq2|]. split; [unfold funquote in *; cbn; exact Hfu2|]. split; [intros _; discriminate|].
          rewrite (eq_q0 _ _ _ _ _ _ _ Htok). unfold join_last. rewrite upd_last_snoc.
          rewrite Hex2. unfold fjoin. rewrite <- app_assoc. reflexivity.
        * destruct (IH r eq_refl fuel e mode false fs (fjoin l t' true) ltac:(lia)) as (segs2 & Hq2 & Hfu2 & _ & Hex2).
          exists ((t', true) :: segs2). split; [cbn; exact Hq2|]. split; [unfold funquote in *; cbn; rewrite Hfu2; reflexivity|]. split; [intros _; discriminate|].
          rewrite (eq_q1 _ _ _ _ _ _ _ _ Htok). unfold join_last. rewrite upd_last_snoc.
          rewrite Hex2. unfold fjoin. rewrite <- app_assoc. reflexivity.
  Qed.
End Q.

(** * The scanner on the three literal quotings *)
Lemma encode_all_app a b : encode_all (a ++ b) = encode_all a ++ encode_all b.
Proof. unfold encode_all. apply flat_map_app. Qed.

Lemma scan_sq_ok s rest : forallb (fun c => negb (c =? 39)) s = true -> scan_sq (s ++ 39 :: rest) = Some (s, rest).
Proof.
  induction s as [|c s IH]; cbn; intros H; [reflexivity|].
  apply Bool.andb_true_iff in H as [Hc Hs]. apply Bool.negb_true_iff in Hc. rewrite Hc, (IH Hs). reflexivity.
Qed.

Lemma all_some_lit_of acc rest :
  all_some (map dq_inner_text (lit_of acc ++ rest)) =
  option_map (app (encode_all (rev acc))) (all_some (map dq_inner_text rest)).
Proof.
  destruct acc as [|c acc]; cbn [lit_of app rev encode_all flat_map].
  - destruct (all_some (map dq_inner_text rest)); reflexivity.
  - cbn [map dq_inner_text all_some]. fold (encode_all (rev acc ++ [c])).
    destruct (all_some (map dq_inner_text rest)); reflexivity.
Qed.

Lemma dq_special_false c : dq_special c = false ->
  (c =? 34) = false /\ (c =? 92) = false /\ (c =? 36) = false /\ (c =? 96) = false.
Proof.
  unfold dq_special. cbn [memb]. intros H.
  repeat (apply Bool.orb_false_iff in H as [? H]). auto.
Qed.

Lemma scan_dq_ok : forall s acc rest,
  exists ps, scan_dq (dq_body s ++ 34 :: rest) acc = Some (ps, rest) /\
             all_some (map dq_inner_text ps) = Some (encode_all (rev acc ++ s)).
Proof.
  induction s as [|c s IH]; intros acc rest.
  - cbn. exists (lit_of acc). split; [reflexivity|].
    rewrite <- (app_nil_r (lit_of acc)), all_some_lit_of. cbn. rewrite !app_nil_r. reflexivity.
  - cbn [dq_body]. destruct (dq_special c) eqn:Ec.
    + cbn [app scan_dq]. change (92 =? 34) with false. change (92 =? 92) with true. cbv iota.
      rewrite Ec. destruct (IH [] rest) as (ps & Hs & Ht). rewrite Hs.
      eexists. split; [reflexivity|]. rewrite all_some_lit_of.
      cbn [map dq_inner_text all_some]. change (92 =? 92) with true. cbv iota. rewrite Ht. cbn [option_map rev app].
      rewrite <- encode_all_app, <- encode_all_app. reflexivity.
    + destruct (dq_special_false c Ec) as (E34 & E92 & E36 & E96).
      cbn [app scan_dq]. rewrite E34, E92, E36, E96. cbn [orb].
      destruct (IH (c :: acc) rest) as (ps & Hs & Ht). exists ps. split; [exact Hs|].
      rewrite Ht. cbn [rev]. rewrite <- app_assoc. reflexivity.
Qed.

(** the word ends at the end of the input or at a blank / operator *)
Definition word_end (tail : list rune) : Prop :=
  tail = [] \/ exists b t, tail = b :: t /\ is_blank_or_op b = true.

Lemma blank_not_quote b : is_blank_or_op b = true -> (b =? 39) = false /\ (b =? 34) = false /\ (b =? 92) = false.
Proof.
  unfold is_blank_or_op. intros H. apply memb_In in H. cbn in H.
  repeat (destruct H as [<-|H]; [repeat split; reflexivity|]). contradiction.
Qed.

Lemma scan_word_end f tail : word_end tail -> scan_word (S f) tail [] = Some ([], tail).
Proof.
  intros [->|(b & t & -> & Hb)]; [reflexivity|].
  destruct (blank_not_quote b Hb) as (E1 & E2 & E3). cbn [scan_word]. rewrite E1, E2, E3, Hb. reflexivity.
Qed.

Lemma scan_word_single s tail f : forallb (fun c => negb (c =? 39)) s = true -> word_end tail ->
  scan_word (S (S f)) (quote_single s ++ tail) [] = Some ([WQuote 39 [WLit (encode_all s)]], tail).
Proof.
  intros Hs Ht. unfold quote_single. remember (S f) as f1 eqn:Ef. cbn [app scan_word]. change (39 =? 39) with true. cbv iota.
  rewrite <- app_assoc. cbn [app]. rewrite (scan_sq_ok s tail Hs). subst f1. rewrite (scan_word_end f tail Ht). reflexivity.
Qed.

Lemma scan_word_double s tail f : word_end tail ->
  exists v, scan_word (S (S f)) (quote_double s ++ tail) [] = Some ([WQuote 34 v], tail) /\
            all_some (map dq_inner_text v) = Some (encode_all s).
Proof.
  intros Ht. unfold quote_double. remember (S f) as f1 eqn:Ef. cbn [app scan_word]. change (34 =? 39) with false. change (34 =? 34) with true. cbv iota.
  rewrite <- app_assoc. cbn [app]. destruct (scan_dq_ok s [] tail) as (v & Hv & Htx). rewrite Hv. subst f1. rewrite (scan_word_end f tail Ht).
  exists v. split; [reflexivity|exact Htx].
Qed.

Lemma scan_word_backslash : forall s tail f, forallb (fun c => negb (c =? 10)) s = true -> word_end tail ->
  (length s < f)%nat ->
  exists w, scan_word f (quote_backslash s ++ tail) [] = Some (w, tail) /\
            word_text w = Some (encode_all s) /\ (s <> [] -> w <> []).
Proof.
  induction s as [|c s IH]; intros tail f Hs Ht Hf.
  - destruct f; [cbn in Hf; lia|]. cbn [quote_backslash flat_map app]. rewrite (scan_word_end f tail Ht).
    exists []. repeat split; auto.
  - apply Bool.andb_true_iff in Hs as [Hc Hs]. apply Bool.negb_true_iff in Hc.
    destruct f; [cbn in Hf; lia|]. cbn in Hf.
    cbn [quote_backslash flat_map app]. fold (quote_backslash s).
    cbn [scan_word]. change (92 =? 39) with false. change (92 =? 34) with false. change (92 =? 92) with true. cbv iota.
    rewrite Hc. destruct (IH tail f Hs Ht ltac:(lia)) as (w & Hw & Htx & _). rewrite Hw.
    exists (WQuote 92 [WLit (encode_all [c])] :: w). split; [reflexivity|]. split; [|intros _; discriminate].
    unfold word_text in *. cbn [map part_text all_some]. change (92 =? 34) with false. change ((92 =? 39) || (92 =? 92)) with true. cbv iota.
    rewrite Htx. change (c :: s) with ([c] ++ s). rewrite encode_all_app. reflexivity.
Qed.

(** * Fuel bookkeeping: expand_top gives enough fuel to a word of literal quotings *)
Lemma part_size_pos p : (1 <= part_size p)%nat.
Proof. destruct p as [s|t v|n o [w|]|x|]; cbn; lia. Qed.

Lemma part_size_quote t v : part_size (WQuote t v) = S (fold_right (fun p n => part_size p + n)%nat 1%nat v).
Proof.
  cbn [part_size]. f_equal.
Qed.

Lemma fold_size_ge v : (length v + 1 <= fold_right (fun p n => part_size p + n) 1 v)%nat.
Proof. induction v as [|p v IH]; cbn; [lia|]. pose proof (part_size_pos p). lia. Qed.

Lemma wsize_le w : (wsize w <= 2 * word_size w)%nat.
Proof.
  unfold wsize, word_size. induction w as [|p w IH]; cbn [fold_right]; [lia|].
  assert (psize p <= 2 * part_size p)%nat.
  { destruct p as [s|t v|n o [x|]|x|]; cbn [psize]; try (pose proof (part_size_pos (WLit s)); cbn; lia); try (cbn; lia).
    rewrite part_size_quote. pose proof (fold_size_ge v). lia. }
  lia.
Qed.

(** * C15: the round trip *)
Section RoundTrip.
  Variable users : list (bytes * bytes).
  Variable glob : bytes -> option (list bytes).

  Lemma esc_pattern_app a b : esc_pattern (a ++ b) = esc_pattern a ++ esc_pattern b.
  Proof.
    induction a as [|c a IH]; [reflexivity|]. cbn [app esc_pattern]. rewrite IH.
    destruct (memb c _); reflexivity.
  Qed.

  Lemma fpattern_quoted f : all_quoted f = true -> fpattern f = esc_pattern (funquote f).
  Proof.
    unfold fpattern, funquote. induction f as [|[s q] f IH]; cbn; intros H; [reflexivity|].
    apply Bool.andb_true_iff in H as [Hq Hf]. cbn in Hq. subst q. rewrite esc_pattern_app, (IH Hf). reflexivity.
  Qed.

  (** the modes in which no expansion oracle (glob) is consulted *)
  Definition mode_ok (e : env) (mode : N) : Prop :=
    mbit mode mLiteral = true \/ mbit mode mPattern = true \/ mbit mode mArith = true \/ mbit mode mQuote = true
    \/ opt_bit e Extracted.opt_NoGlob = true.

  Definition expected (mode : N) (text : bytes) : bytes :=
    if mbit mode mLiteral then text else if mbit mode mPattern then esc_pattern text else text.

  Theorem expand_literal_word w text e mode :
    word_text w = Some text -> w <> [] -> mode_ok e mode ->
    expand_top users glob e w mode = Ok (e, [expected mode text]).
  Proof.
    intros Ht Hne Hm. unfold expand_top. rewrite (quoted_at_only_literal e w text mode Ht).
    pose proof (wsize_le w) as Hsz.
    remember (4 * S (word_size w))%nat as fuel eqn:Ef.
    destruct fuel as [|fuel]; [lia|]. rewrite eq_expand.
    set (init := if mbit mode mQuote then [([], true)] else [] : field).
    destruct (expand_lq_word users w text Ht fuel e mode true [] init ltac:(lia)) as (segs & Hq & Hfu & Hnn & Hex).
    cbn [app] in Hex.
    match goal with |- context [Expand.expand_parts users fuel e w mode true ?I] =>
      assert (HX : Expand.expand_parts users fuel e w mode true I = Ok (e, [init ++ segs]))
        by (etransitivity; [|exact Hex]; unfold init; destruct (mbit mode mQuote); reflexivity);
      rewrite HX end.
    assert (Hqi : all_quoted (init ++ segs) = true).
    { unfold all_quoted in *. rewrite forallb_app. unfold init. destruct (mbit mode mQuote); cbn; exact Hq. }
    assert (Hfi : funquote (init ++ segs) = text).
    { unfold funquote in *. rewrite map_app, concat_app. unfold init. destruct (mbit mode mQuote); cbn; exact Hfu. }
    assert (Hj : join_all e [init ++ segs] = init ++ segs) by reflexivity.
    unfold expected.
    destruct (mbit mode mLiteral) eqn:EL; [rewrite Hj, Hfi; reflexivity|].
    destruct (mbit mode mPattern) eqn:EP; [rewrite Hj, (fpattern_quoted _ Hqi), Hfi; reflexivity|].
    cbn [fold_left].
    destruct (mbit mode mArith || mbit mode mQuote) eqn:EAQ; [rewrite Hfi; reflexivity|].
    apply Bool.orb_false_iff in EAQ as [EA EQ].
    destruct Hm as [H|[H|[H|[H|H]]]]; try congruence.
    assert (Hne2 : init ++ segs <> []).
    { specialize (Hnn Hne). destruct init; cbn; [exact Hnn|discriminate]. }
    assert (Hfe : fempty (init ++ segs) = false).
    { destruct (init ++ segs) as [|[s q] r] eqn:E; [congruence|]. unfold all_quoted in Hqi. cbn in Hqi.
      apply Bool.andb_true_iff in Hqi as [Hq1 _]. cbn in Hq1. subst q. reflexivity. }
    rewrite Hfe, (quoted_never_split e _ Hqi Hne2). cbn [map concat app]. rewrite Hfe, H, Hfi. reflexivity.
  Qed.

  (** the same in every mode, pathname expansion enabled, when the pathname oracle gives back
      quoted text (for the model of Glob this is Pattern/GlobLiteral.v) *)
  Theorem expand_literal_word_glob w text e mode :
    word_text w = Some text -> w <> [] ->
    (forall f, all_quoted f = true -> funquote f = text -> f <> [] -> expand_path glob f = [text]) ->
    expand_top users glob e w mode = Ok (e, [expected mode text]).
  Proof.
    intros Ht Hne Hg.
    destruct (mbit mode mLiteral) eqn:EL0; [apply expand_literal_word; [exact Ht|exact Hne|left; exact EL0]|].
    destruct (mbit mode mPattern) eqn:EP0; [apply expand_literal_word; [exact Ht|exact Hne|right; left; exact EP0]|].
    destruct (mbit mode mArith) eqn:EA0; [apply expand_literal_word; [exact Ht|exact Hne|right; right; left; exact EA0]|].
    destruct (mbit mode mQuote) eqn:EQ0; [apply expand_literal_word; [exact Ht|exact Hne|right; right; right; left; exact EQ0]|].
    destruct (opt_bit e Extracted.opt_NoGlob) eqn:EN; [apply expand_literal_word; [exact Ht|exact Hne|right; right; right; right; exact EN]|].
    unfold expand_top. rewrite (quoted_at_only_literal e w text mode Ht).
    pose proof (wsize_le w) as Hsz.
    remember (4 * S (word_size w))%nat as fuel eqn:Ef.
    destruct fuel as [|fuel]; [lia|]. rewrite eq_expand.
    set (init := if mbit mode mQuote then [([], true)] else [] : field).
    destruct (expand_lq_word users w text Ht fuel e mode true [] init ltac:(lia)) as (segs & Hq & Hfu & Hnn & Hex).
    cbn [app] in Hex.
    match goal with |- context [Expand.expand_parts users fuel e w mode true ?I] =>
      assert (HX : Expand.expand_parts users fuel e w mode true I = Ok (e, [init ++ segs]))
        by (etransitivity; [|exact Hex]; unfold init; destruct (mbit mode mQuote); reflexivity);
      rewrite HX end.
    assert (Hqi : all_quoted (init ++ segs) = true).
    { unfold all_quoted in *. rewrite forallb_app. unfold init. destruct (mbit mode mQuote); cbn; exact Hq. }
    assert (Hfi : funquote (init ++ segs) = text).
    { unfold funquote in *. rewrite map_app, concat_app. unfold init. destruct (mbit mode mQuote); cbn; exact Hfu. }
    unfold expected. rewrite EL0, EP0. cbn [fold_left]. rewrite EA0, EQ0. cbn [orb].
    assert (Hne2 : init ++ segs <> []).
    { specialize (Hnn Hne). destruct init; cbn; [exact Hnn|discriminate]. }
    assert (Hfe : fempty (init ++ segs) = false).
    { destruct (init ++ segs) as [|[s q] r] eqn:E; [congruence|]. unfold all_quoted in Hqi. cbn in Hqi.
      apply Bool.andb_true_iff in Hqi as [Hq1 _]. cbn in Hq1. subst q. reflexivity. }
    rewrite Hfe, (quoted_never_split e _ Hqi Hne2). cbn [map concat app]. rewrite Hfe, EN, (Hg _ Hqi Hfi Hne2). reflexivity.
  Qed.
End RoundTrip.

(** * The three styles, end to end: scan the quoted text, expand the word, get the text back *)
Section Styles.
  Variable users : list (bytes * bytes).
  Variable glob : bytes -> option (list bytes).

  Theorem roundtrip_single s tail f e mode :
    forallb (fun c => negb (c =? 39)) s = true -> word_end tail -> mode_ok e mode ->
    exists w, scan_word (S (S f)) (quote_single s ++ tail) [] = Some (w, tail) /\
              expand_top users glob e w mode = Ok (e, [expected mode (encode_all s)]).
  Proof.
    intros Hs Ht Hm. eexists. split; [apply scan_word_single; assumption|].
    apply expand_literal_word; [|discriminate|exact Hm].
    unfold word_text. cbn. rewrite app_nil_r. reflexivity.
  Qed.

  Theorem roundtrip_double s tail f e mode :
    word_end tail -> mode_ok e mode ->
    exists w, scan_word (S (S f)) (quote_double s ++ tail) [] = Some (w, tail) /\
              expand_top users glob e w mode = Ok (e, [expected mode (encode_all s)]).
  Proof.
    intros Ht Hm. destruct (scan_word_double s tail f Ht) as (v & Hv & Htx).
    eexists. split; [exact Hv|].
    apply expand_literal_word; [|discriminate|exact Hm].
    unfold word_text. cbn [map part_text all_some]. change (34 =? 34) with true. cbv iota.
    rewrite Htx, app_nil_r. reflexivity.
  Qed.

  Theorem roundtrip_backslash s tail f e mode :
    forallb (fun c => negb (c =? 10)) s = true -> s <> [] -> word_end tail -> mode_ok e mode -> (length s < f)%nat ->
    exists w, scan_word f (quote_backslash s ++ tail) [] = Some (w, tail) /\
              expand_top users glob e w mode = Ok (e, [expected mode (encode_all s)]).
  Proof.
    intros Hs Hne Ht Hm Hf. destruct (scan_word_backslash s tail f Hs Ht Hf) as (w & Hw & Htx & Hnn).
    exists w. split; [exact Hw|]. apply expand_literal_word; [exact Htx|exact (Hnn Hne)|exact Hm].
  Qed.
End Styles.
