(** Line / column bookkeeping of the lexer's read() and unread() (parser/lexer.go): the cursor is
    the character position of the consumed prefix; one unread undoes one read. *)
From GoSh Require Import Base.Bytes.
From Coq Require Import Lia.
Local Open Scope nat_scope.

Record cur := mkCur { line : nat; col : nat; prev_col : nat }.
Definition cur0 : cur := mkCur 1 1 0.

Definition rd (c : cur) (r : rune) : cur :=
  if N.eqb r 10 then mkCur (S (line c)) 1 (col c) else mkCur (line c) (S (col c)) (prev_col c).

Definition unrd (c : cur) : cur :=
  if Nat.eqb (col c) 1 then mkCur (pred (line c)) (prev_col c) (prev_col c)
  else mkCur (line c) (pred (col c)) (prev_col c).

(** the position that designates the character following the text [p]: lines and columns count
    characters (runes), both starting at 1 *)
Fixpoint pos_of (p : list rune) (l c : nat) : nat * nat :=
  match p with
  | [] => (l, c)
  | r :: p' => if N.eqb r 10 then pos_of p' (S l) 1 else pos_of p' l (S c)
  end.

Theorem cursor_correct : forall p c, let c' := fold_left rd p c in (line c', col c') = pos_of p (line c) (col c).
Proof.
  induction p as [|r p IH]; intros c; cbn; [reflexivity|].
  rewrite IH. unfold rd. destruct (N.eqb r 10); reflexivity.
Qed.

Corollary cursor_from_start p : let c := fold_left rd p cur0 in (line c, col c) = pos_of p 1 1.
Proof. apply cursor_correct. Qed.

(** one unread undoes one read (columns are at least 1) *)
Theorem unread_undoes_read c r : 1 <= col c -> let c' := unrd (rd c r) in line c' = line c /\ col c' = col c.
Proof.
  intros H. unfold rd, unrd. destruct (N.eqb r 10); cbn.
  - split; reflexivity.
  - destruct (col c) as [|k] eqn:E; [lia|]. cbn. split; reflexivity.
Qed.

(** the column of a position is the number of characters before it on its line plus one: a
    multi-byte character advances the column by one *)
Lemma pos_of_app p q l c : pos_of (p ++ q) l c = let '(l', c') := pos_of p l c in pos_of q l' c'.
Proof.
  revert l c. induction p as [|r p IH]; intros l c; cbn; [reflexivity|].
  destruct (N.eqb r 10); apply IH.
Qed.

Lemma pos_of_line q l c : forallb (fun r => negb (N.eqb r 10)) q = true -> pos_of q l c = (l, c + length q).
Proof.
  revert c. induction q as [|r q IH]; intros c H; cbn in *; [f_equal; lia|].
  apply Bool.andb_true_iff in H as [Hr Hq]. apply Bool.negb_true_iff in Hr. rewrite Hr, (IH (S c) Hq). f_equal. lia.
Qed.
