(** The character stream of the lexer under alias substitution (parser/lexer.go read, unread,
    subst): the lexer reads from the innermost alias value that is not exhausted, dropping the
    exhausted ones above it, and from the source when all are exhausted; subst pushes the value
    with its trailing blanks replaced by one blank.  Specification: the characters still to come are
    the remaining alias texts, innermost first, followed by the remaining source -- so that a
    substitution is the textual replacement of the word just read by the value. *)
From GoSh Require Import Base.Bytes Lex.Alias.
From Coq Require Import Lia.
Open Scope N_scope.

Record entry := mkEntry { ename : bytes; erest : bytes; eblank : bool }.
(** stack: head = innermost (the last element of l.aliases) *)
Definition astate := (list entry * bytes)%type.

Definition set_rest (e : entry) (r : bytes) : entry := mkEntry (ename e) r (eblank e).

(** the loop of read(): the first entry from the top that has text left; the entries above it are dropped *)
Fixpoint read_stack (st : list entry) : option (N * list entry) :=
  match st with
  | [] => None
  | e :: below =>
    match erest e with
    | c :: r => Some (c, set_rest e r :: below)
    | [] => read_stack below
    end
  end.

Definition read (s : astate) : option N * astate :=
  match read_stack (fst s) with
  | Some (c, st') => (Some c, (st', snd s))
  | None => match snd s with
            | c :: src' => (Some c, ([], src'))
            | [] => (None, ([], []))
            end
  end.

(** unread(): back into the top entry when there is one, else into the source *)
Definition unread (s : astate) (c : N) : astate :=
  match fst s with
  | e :: below => (set_rest e (c :: erest e) :: below, snd s)
  | [] => ([], c :: snd s)
  end.

(** strings.TrimRight(v, "\t ") + " " *)
Definition is_blank (c : N) : bool := (c =? 32) || (c =? 9).
Fixpoint drop_blanks (v : bytes) : bytes := match v with c :: v' => if is_blank c then drop_blanks v' else v | [] => [] end.
Definition trim_right (v : bytes) : bytes := rev (drop_blanks (rev v)).
(* a blank quoted by a backslash belongs to the value: after the trimming, an odd number of backslashes
   at the end keeps the first of the trimmed blanks *)
Fixpoint leading_bs (l : bytes) : nat := match l with c :: r => if c =? 92 then S (leading_bs r) else O | [] => O end.
Definition trim_value (v : bytes) : bytes :=
  let t := trim_right v in
  if Nat.odd (leading_bs (rev t)) && Nat.ltb (length t) (length v) then firstn (S (length t)) v else t.
Definition names (st : list entry) : list bytes := map ename st.

Definition asubst (t : table) (s : astate) (name : bytes) : option astate :=
  match subst t (names (fst s)) name with
  | Some (_, v) =>
    let tv := trim_value v in
    Some (mkEntry name (tv ++ [32]) (Nat.ltb (length tv) (length v)) :: fst s, snd s)
  | None => None
  end.

(** * specification: the text still to be read *)
Definition flatten (s : astate) : bytes := concat (map erest (fst s)) ++ snd s.

Lemma read_stack_spec : forall st c st', read_stack st = Some (c, st') ->
  concat (map erest st) = c :: concat (map erest st') /\ (exists e below, st' = e :: below) /\
  (forall n, In n (names st') -> In n (names st)).
Proof.
  induction st as [|e below IH]; intros c st' H; [discriminate|]. cbn [read_stack] in H.
  destruct (erest e) as [|c0 r] eqn:Er.
  - destruct (IH _ _ H) as (Hf & Hne & Hin). cbn [map concat]. rewrite Er. cbn [app]. split; [exact Hf|]. split; [exact Hne|].
    intros n Hn. right. apply Hin. exact Hn.
  - inversion H; subst. cbn [map concat erest set_rest]. rewrite Er. split; [reflexivity|]. split; [eauto|].
    intros n Hn. exact Hn.
Qed.

Lemma read_stack_none : forall st, read_stack st = None -> concat (map erest st) = [].
Proof.
  induction st as [|e below IH]; intros H; [reflexivity|]. cbn [read_stack] in H.
  destruct (erest e) as [|c0 r] eqn:Er; [|discriminate]. cbn [map concat]. rewrite Er. exact (IH H).
Qed.

(** one read returns the first character of the text to come and leaves the rest *)
Theorem read_flatten : forall s,
  match read s with
  | (Some c, s') => flatten s = c :: flatten s'
  | (None, s') => flatten s = [] /\ s' = ([], [])
  end.
Proof.
  intros [st src]. unfold read, flatten. cbn [fst snd].
  destruct (read_stack st) as [[c st']|] eqn:E.
  - apply read_stack_spec in E as (Hf & _). cbn [fst snd]. rewrite Hf. reflexivity.
  - apply read_stack_none in E. destruct src as [|c src']; cbn [fst snd map concat app]; rewrite E; [split; reflexivity|reflexivity].
Qed.

(** reading to the end yields exactly the flattened text, in order *)
Fixpoint drain (fuel : nat) (s : astate) : bytes :=
  match fuel with
  | O => []
  | S f => match read s with
           | (Some c, s') => c :: drain f s'
           | (None, _) => []
           end
  end.

Theorem drain_flatten : forall fuel s, (length (flatten s) <= fuel)%nat -> drain fuel s = flatten s.
Proof.
  induction fuel as [|f IH]; intros s Hf.
  - destruct (flatten s); [reflexivity|cbn in Hf; lia].
  - cbn [drain]. pose proof (read_flatten s) as Hr. destruct (read s) as [[c|] s'].
    + rewrite Hr in *. cbn [length] in Hf. rewrite (IH s') by lia. reflexivity.
    + destruct Hr as [Hr _]. now rewrite Hr.
Qed.

(** putting the character back restores the text (the entry read from is on top after the read) *)
Theorem unread_read : forall s c s', read s = (Some c, s') -> flatten (unread s' c) = flatten s.
Proof.
  intros [st src] c s'. unfold read. cbn [fst snd].
  destruct (read_stack st) as [[c0 st']|] eqn:E.
  - intros H. inversion H; subst. apply read_stack_spec in E as (Hf & (e & below & ->) & _).
    unfold unread, flatten. cbn [fst snd map concat erest set_rest] in *. rewrite Hf. reflexivity.
  - apply read_stack_none in E. destruct src as [|c1 src']; intros H; inversion H; subst.
    unfold unread, flatten. cbn [fst snd map concat app]. now rewrite E.
Qed.

(** substitution = textual replacement: once the word [name] has been read, the text to come is
    the alias value (trailing blanks replaced by one blank) followed by what followed the word *)
Theorem subst_is_textual_replacement : forall t s name s',
  asubst t s name = Some s' ->
  exists v, alias_lookup name t = Some v /\ flatten s' = trim_value v ++ [32] ++ flatten s.
Proof.
  intros t [st src] name s'. unfold asubst, subst. cbn [fst snd].
  destruct (alias_lookup name t) as [v|] eqn:El; [|discriminate].
  destruct (on_stack name (names st)); [discriminate|]. intros H. inversion H; subst.
  exists v. split; [reflexivity|]. unfold flatten. cbn [fst snd map concat erest]. now rewrite <- !app_assoc.
Qed.

(** a name whose value is still being read (or has just been exhausted and not yet dropped) is
    not substituted again *)
Theorem subst_guard : forall t s name, In name (names (fst s)) -> asubst t s name = None.
Proof.
  intros t s name Hin. unfold asubst. rewrite (no_self_expansion t (names (fst s)) name); [reflexivity|].
  apply on_stack_In. exact Hin.
Qed.

(** reading never adds a name to the stack: the guard can only be released, never tightened, by reads *)
Theorem read_names_shrink : forall s o s', read s = (o, s') -> forall n, In n (names (fst s')) -> In n (names (fst s)).
Proof.
  intros [st src] o s'. unfold read. cbn [fst snd].
  destruct (read_stack st) as [[c st']|] eqn:E.
  - intros H. inversion H; subst. cbn [fst]. apply read_stack_spec in E as (_ & _ & Hin). exact Hin.
  - destruct src; intros H; inversion H; subst; cbn [fst names map]; intros m [].
Qed.

(** the names on the stack stay pairwise distinct under read / unread / subst: every table terminates *)
Definition wf (t : table) (s : astate) : Prop := good t (names (fst s)).

Lemma wf_read t s o s' : wf t s -> read s = (o, s') -> wf t s'.
Proof.
  intros [Hnd Hin] Hr. pose proof (read_names_shrink s o s' Hr) as Hsub.
  revert Hr. destruct s as [st src]. unfold read. cbn [fst snd] in *.
  destruct (read_stack st) as [[c st']|] eqn:E.
  - intros H. inversion H; subst. unfold wf. cbn [fst] in *.
    (* the names after the read are a suffix of the names before *)
    assert (Hsuf : exists pre, names st = pre ++ names st').
    { clear -E. revert c st' E. induction st as [|e below IH]; intros c st' E; [discriminate|]. cbn [read_stack] in E.
      destruct (erest e) as [|c0 r] eqn:Er.
      - destruct (IH _ _ E) as [pre Hp]. exists (ename e :: pre). unfold names in *. cbn [map app]. now rewrite Hp.
      - inversion E; subst. exists []. reflexivity. }
    destruct Hsuf as [pre Hp]. split.
    + rewrite Hp in Hnd. clear -Hnd. induction pre as [|x pre IH]; [exact Hnd|]. inversion Hnd; subst. auto.
    + intros n Hn. apply Hin. apply Hsub. exact Hn.
  - destruct src; intros H; inversion H; subst; (split; [constructor|intros m []]).
Qed.

Lemma wf_unread t s c : wf t s -> wf t (unread s c).
Proof.
  destruct s as [[|e below] src]; intros H; exact H.
Qed.

Lemma wf_subst t s name s' : wf t s -> asubst t s name = Some s' -> wf t s'.
Proof.
  intros H Hs. unfold asubst in Hs. destruct (subst t (names (fst s)) name) as [[st' v]|] eqn:E; [|discriminate].
  inversion Hs; subst. unfold wf. cbn [fst].
  assert (Hst : st' = name :: names (fst s)).
  { unfold subst in E. destruct (alias_lookup name t); [|discriminate]. destruct (on_stack name (names (fst s))); [discriminate|]. now inversion E. }
  change (good t (name :: names (fst s))). rewrite <- Hst. eapply sstep_good; [exact H|]. econstructor. exact E.
Qed.

(** every run of the lexer's three operations keeps the stack duplicate-free, hence no deeper than
    the table: cyclic and self-referential tables cannot nest forever *)
Inductive aop := ARead | AUnread (c : N) | ASubst (name : bytes).
Definition astep (t : table) (s : astate) (o : aop) : astate :=
  match o with
  | ARead => snd (read s)
  | AUnread c => unread s c
  | ASubst name => match asubst t s name with Some s' => s' | None => s end
  end.

Theorem stream_depth_bounded : forall t ops src,
  let s := fold_left (astep t) ops ([], src) in
  NoDup (names (fst s)) /\ (length (fst s) <= length t)%nat.
Proof.
  intros t ops src.
  assert (H : forall s, wf t s -> wf t (fold_left (astep t) ops s)).
  { induction ops as [|o ops IH]; intros s Hs; [exact Hs|]. cbn [fold_left]. apply IH.
    destruct o as [|c|name]; cbn [astep].
    - destruct (read s) as [o' s'] eqn:Er. cbn [snd]. eapply wf_read; eassumption.
    - apply wf_unread. exact Hs.
    - destruct (asubst t s name) eqn:Ea; [eapply wf_subst; eassumption|exact Hs]. }
  specialize (H ([], src)). cbn zeta. destruct H as [Hnd Hin]; [split; [constructor|intros n []]|].
  split; [exact Hnd|]. rewrite <- (map_length ename), <- (map_length fst t). apply nodup_incl_length; assumption.
Qed.

(** * the blank rule: when a value ends in a blank the following word is examined too *)
Fixpoint blank_pending (st : list entry) : bool :=
  match st with
  | e :: below => match erest e with [] => eblank e || blank_pending below | _ => false end
  | [] => false
  end.

Lemma drop_blanks_length v : (length (drop_blanks v) <= length v)%nat.
Proof. induction v as [|c v IH]; [cbn; lia|]. cbn [drop_blanks]. destruct (is_blank c); cbn [length]; lia. Qed.

Lemma trim_right_blank v : (length (trim_right v) < length v)%nat <-> exists v0 c, v = v0 ++ [c] /\ is_blank c = true.
Proof.
  unfold trim_right. rewrite rev_length. rewrite <- (rev_length v) at 1.
  destruct (rev v) as [|c r] eqn:Er.
  - cbn. split; [lia|]. intros (v0 & c & Hv & _). apply (f_equal (@rev _)) in Hv. rewrite rev_app_distr in Hv. cbn in Hv. congruence.
  - assert (Hv : v = rev r ++ [c]) by (rewrite <- (rev_involutive v), Er; reflexivity).
    cbn [drop_blanks]. destruct (is_blank c) eqn:Eb.
    + split; [intros _; exists (rev r), c; split; [exact Hv|exact Eb]|]. intros _. pose proof (drop_blanks_length r). cbn [length]. lia.
    + split; [cbn [length]; lia|]. intros (v0 & c' & Hv' & Hb). rewrite Hv in Hv'. apply app_inj_tail in Hv' as [_ <-]. congruence.
Qed.

Lemma drop_blanks_split l : exists pre, l = pre ++ drop_blanks l /\ forallb is_blank pre = true.
Proof.
  induction l as [|c l IH]; [exists []; split; reflexivity|]. cbn [drop_blanks].
  destruct (is_blank c) eqn:Eb; [|exists []; split; reflexivity].
  destruct IH as (pre & Hl & Hp). exists (c :: pre). split; [cbn [app]; f_equal; exact Hl|cbn [forallb]; rewrite Eb; exact Hp].
Qed.

Lemma forallb_rev {A} (f : A -> bool) l : forallb f l = true -> forallb f (rev l) = true.
Proof. intros H. apply forallb_forall. intros x Hx. apply in_rev in Hx. exact (proj1 (forallb_forall _ _) H x Hx). Qed.

Lemma trim_right_split v : exists tail, v = trim_right v ++ tail /\ forallb is_blank tail = true.
Proof.
  destruct (drop_blanks_split (rev v)) as (pre & Hv & Hp). exists (rev pre). split; [|apply forallb_rev; exact Hp].
  unfold trim_right. rewrite <- rev_app_distr, <- Hv, rev_involutive. reflexivity.
Qed.

Lemma firstn_snoc {A} (a : list A) c r : firstn (S (length a)) (a ++ c :: r) = a ++ [c].
Proof. induction a as [|x a IH]; [reflexivity|]. cbn [length app firstn]. f_equal. exact IH. Qed.

(** the text of the value and the blanks cut from its end *)
Lemma trim_value_split v : exists tail, v = trim_value v ++ tail /\ forallb is_blank tail = true.
Proof.
  destruct (trim_right_split v) as (tail & Hv & Hb). unfold trim_value.
  remember (trim_right v) as t eqn:Et. clear Et.
  destruct (Nat.odd (leading_bs (rev t)) && Nat.ltb (length t) (length v)) eqn:E.
  - apply Bool.andb_true_iff in E as [_ E]. apply Nat.ltb_lt in E.
    destruct tail as [|c tail'].
    + rewrite app_nil_r in Hv. subst v. lia.
    + exists tail'. cbn [forallb] in Hb. apply Bool.andb_true_iff in Hb as [_ Hb]. split; [|exact Hb].
      subst v. rewrite firstn_snoc, <- app_assoc. reflexivity.
  - exists tail. split; assumption.
Qed.

(** the flag recorded by subst says exactly whether blanks were cut from the end of the value (a
    blank quoted by a backslash is part of the value's text and is not cut); once the text of
    such a value has been read to its end the next word is examined for substitution *)
Theorem blank_rule : forall t s name s' e below,
  asubst t s name = Some s' -> fst s' = e :: below ->
  (eblank e = true <-> exists v tail, alias_lookup name t = Some v /\ v = trim_value v ++ tail /\ tail <> [] /\ forallb is_blank tail = true) /\
  blank_pending (set_rest e [] :: below) = eblank e || blank_pending below.
Proof.
  intros t [st src] name s' e below Hs Hf. unfold asubst, subst in Hs. cbn [fst snd] in Hs.
  destruct (alias_lookup name t) as [v|] eqn:El; [|discriminate].
  destruct (on_stack name (names st)); [discriminate|]. inversion Hs; subst. cbn [fst] in Hf. inversion Hf; subst. cbn [eblank].
  split; [|reflexivity]. rewrite Nat.ltb_lt. split.
  - intros Hlt. destruct (trim_value_split v) as (tail & Hv & Hb). exists v, tail. repeat split; try assumption.
    intros ->. rewrite app_nil_r in Hv. rewrite <- Hv in Hlt. lia.
  - intros (v' & tail & Hv' & Hv & Hne & _). inversion Hv'; subst v'.
    rewrite Hv at 2. rewrite app_length. destruct tail; [congruence|cbn [length]; lia].
Qed.
