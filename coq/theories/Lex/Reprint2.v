(** Words of literal quotings and simple parameter expansions ($name, $1, $@ and the other special
    parameters, outside and inside double quotes): a rune-level model of the word scanner
    (scanRawToken's word loop, scanQuote, scanParamExp without braces) and of the printer's notation,
    and the theorem that the printed word is scanned back to the same word.  Outside the fragment
    (the scanner model answers None): ${...}, $(...), backquotes, comments, a dollar that stays a
    literal character, a line continuation directly after $name, characters outside ASCII directly
    after a dollar or a name (unicode.IsLetter is not modelled). *)
From GoSh Require Import Base.Bytes.
From Coq Require Import Lia.
Open Scope N_scope.

Inductive rp :=
| RL (t : list rune)                 (* literal *)
| RQ (tok : N) (v : list rp)         (* quotation: 39, 34 or 92 *)
| RP (name : list rune).             (* $name *)

Definition is_blank_or_op2 (r : rune) : bool := memb r [32; 9; 10; 38; 40; 41; 59; 124; 60; 62].
Definition is_digit2 (c : rune) : bool := (48 <=? c) && (c <=? 57).
Definition is_name_start (c : rune) : bool := (c =? 95) || ((65 <=? c) && (c <=? 90)) || ((97 <=? c) && (c <=? 122)).
Definition is_name_char (c : rune) : bool := is_name_start c || is_digit2 c.
Definition is_special (c : rune) : bool := memb c [64; 42; 35; 63; 45; 36; 33; 48].
Definition ascii2 (c : rune) : bool := c <? 128.

Fixpoint name_run (s : list rune) : list rune * list rune :=
  match s with
  | c :: s' => if is_name_char c then let '(n, r) := name_run s' in (c :: n, r) else ([], s)
  | [] => ([], [])
  end.

(* what may follow a name: not a name character, an ASCII character, not a line continuation *)
Definition ok_after_name (l : list rune) : bool :=
  match l with
  | [] => true
  | c :: l' => negb (is_name_char c) && ascii2 c && negb ((c =? 92) && match l' with d :: _ => d =? 10 | [] => false end)
  end.

(* what follows a dollar: Some (name, rest) for a parameter, None when outside the fragment *)
Definition scan_dollar (s : list rune) : option (list rune * list rune) :=
  match s with
  | [] => None
  | d :: s' =>
    if is_special d then Some ([d], s')
    else if is_digit2 d then Some ([d], s')
    else if is_name_start d then
      let '(n, r) := name_run s in
      if ok_after_name r then Some (n, r) else None
    else None
  end.

Definition lit_of2 (acc : list rune) : list rp := match acc with [] => [] | _ => [RL (rev acc)] end.
Definition dq_special2 (c : rune) : bool := memb c [36; 96; 34; 92].

Fixpoint scan_sq2 (s : list rune) : option (list rune * list rune) :=
  match s with
  | [] => None
  | c :: s' => if c =? 39 then Some ([], s') else match scan_sq2 s' with Some (t, r) => Some (c :: t, r) | None => None end
  end.

Fixpoint scan_dq2 (fuel : nat) (s : list rune) (acc : list rune) : option (list rp * list rune) :=
  match fuel with
  | O => None
  | S f =>
    match s with
    | [] => None
    | c :: s' =>
      if c =? 34 then Some (lit_of2 acc, s')
      else if c =? 92 then
        match s' with
        | [] => None
        | d :: s'' =>
          if dq_special2 d then
            match scan_dq2 f s'' [] with
            | Some (ps, rest) => Some (lit_of2 acc ++ RQ 92 [RL [d]] :: ps, rest)
            | None => None
            end
          else if d =? 10 then scan_dq2 f s'' acc
          else scan_dq2 f s'' (d :: 92 :: acc)
        end
      else if c =? 36 then
        match scan_dollar s' with
        | Some (n, r) =>
          match scan_dq2 f r [] with
          | Some (ps, rest) => Some (lit_of2 acc ++ RP n :: ps, rest)
          | None => None
          end
        | None => None
        end
      else if c =? 96 then None
      else scan_dq2 f s' (c :: acc)
    end
  end.

Fixpoint scan_word2 (fuel : nat) (s : list rune) (acc : list rune) : option (list rp * list rune) :=
  match fuel with
  | O => None
  | S f =>
    match s with
    | [] => Some (lit_of2 acc, [])
    | c :: s' =>
      if c =? 39 then
        match scan_sq2 s' with
        | Some (t, rest) =>
          match scan_word2 f rest [] with
          | Some (ps, r) => Some (lit_of2 acc ++ RQ 39 [RL t] :: ps, r)
          | None => None
          end
        | None => None
        end
      else if c =? 34 then
        match scan_dq2 f s' [] with
        | Some (v, rest) =>
          match scan_word2 f rest [] with
          | Some (ps, r) => Some (lit_of2 acc ++ RQ 34 v :: ps, r)
          | None => None
          end
        | None => None
        end
      else if c =? 92 then
        match s' with
        | [] => Some (lit_of2 acc ++ [RQ 92 []], [])
        | d :: s'' =>
          if d =? 10 then scan_word2 f s'' acc
          else match scan_word2 f s'' [] with
               | Some (ps, r) => Some (lit_of2 acc ++ RQ 92 [RL [d]] :: ps, r)
               | None => None
               end
        end
      else if c =? 36 then
        match scan_dollar s' with
        | Some (n, r0) =>
          match scan_word2 f r0 [] with
          | Some (ps, r) => Some (lit_of2 acc ++ RP n :: ps, r)
          | None => None
          end
        | None => None
        end
      else if is_blank_or_op2 c then Some (lit_of2 acc, s)
      else if memb c [96; 35] then None
      else scan_word2 f s' (c :: acc)
    end
  end.

(** the printer's notation *)
Fixpoint print_part2 (p : rp) : list rune :=
  let pp := fix pp (l : list rp) : list rune := match l with [] => [] | x :: r => print_part2 x ++ pp r end in
  match p with
  | RL t => t
  | RQ tok v =>
    if tok =? 39 then 39 :: pp v ++ [39]
    else if tok =? 34 then 34 :: pp v ++ [34]
    else if tok =? 92 then 92 :: pp v
    else []
  | RP n => 36 :: n
  end.
Fixpoint print_parts2 (l : list rp) : list rune :=
  match l with [] => [] | x :: r => print_part2 x ++ print_parts2 r end.

(** * Lemmas *)
Lemma print_quote tok v : print_part2 (RQ tok v) =
  if tok =? 39 then 39 :: print_parts2 v ++ [39]
  else if tok =? 34 then 34 :: print_parts2 v ++ [34]
  else if tok =? 92 then 92 :: print_parts2 v
  else [].
Proof. reflexivity. Qed.

Lemma print_app a b : print_parts2 (a ++ b) = print_parts2 a ++ print_parts2 b.
Proof. induction a as [|x a IH]; cbn [app print_parts2]; [reflexivity|]. rewrite IH, app_assoc. reflexivity. Qed.

Lemma print_lit_of acc : print_parts2 (lit_of2 acc) = rev acc.
Proof. unfold lit_of2. destruct acc as [|c acc]; [reflexivity|]. cbn [print_parts2 print_part2]. apply app_nil_r. Qed.

(** plain characters of a word *)
Definition plain (c : rune) : bool :=
  negb ((c =? 39) || (c =? 34) || (c =? 92) || (c =? 36) || is_blank_or_op2 c || memb c [96; 35]).

Lemma plain_inv c : plain c = true ->
  (c =? 39) = false /\ (c =? 34) = false /\ (c =? 92) = false /\ (c =? 36) = false /\ is_blank_or_op2 c = false /\ memb c [96; 35] = false.
Proof.
  unfold plain. intros H. apply Bool.negb_true_iff in H.
  apply Bool.orb_false_iff in H as [H H6]. apply Bool.orb_false_iff in H as [H H5]. apply Bool.orb_false_iff in H as [H H4].
  apply Bool.orb_false_iff in H as [H H3]. apply Bool.orb_false_iff in H as [H1 H2]. auto 6.
Qed.

Lemma plain_step f c s acc : plain c = true -> scan_word2 (S f) (c :: s) acc = scan_word2 f s (c :: acc).
Proof.
  intros H. destruct (plain_inv c H) as (H1 & H2 & H3 & H4 & H5 & H6).
  cbn [scan_word2]. rewrite H1, H2, H3, H4, H5, H6. reflexivity.
Qed.

Lemma scan_plain pre : forall f X acc, forallb plain pre = true ->
  scan_word2 (length pre + f) (pre ++ X) acc = scan_word2 f X (rev pre ++ acc).
Proof.
  induction pre as [|c pre IH]; intros f X acc H; [reflexivity|].
  cbn [forallb] in H. apply Bool.andb_true_iff in H as [Hc H].
  cbn [length plus app]. rewrite (plain_step _ c _ _ Hc), (IH f X (c :: acc) H).
  cbn [rev]. rewrite <- app_assoc. reflexivity.
Qed.

Lemma forallb_rev {A} (g : A -> bool) a : forallb g a = true -> forallb g (rev a) = true.
Proof. intros H. apply forallb_forall. intros x Hx. apply in_rev in Hx. exact (proj1 (forallb_forall _ _) H x Hx). Qed.

Lemma rescan_acc acc f X : forallb plain acc = true ->
  scan_word2 (length (rev acc) + f) (rev acc ++ X) [] = scan_word2 f X acc.
Proof.
  intros H. rewrite (scan_plain (rev acc) f X [] (forallb_rev _ acc H)), rev_involutive, app_nil_r. reflexivity.
Qed.

(** single quotes *)
Lemma scan_sq_inv : forall s t r, scan_sq2 s = Some (t, r) -> s = t ++ 39 :: r /\ forallb (fun c => negb (c =? 39)) t = true.
Proof.
  induction s as [|c s IH]; intros t r H; cbn [scan_sq2] in H; [discriminate|].
  destruct (c =? 39) eqn:E.
  - inversion H; subst. apply N.eqb_eq in E. subst c. split; reflexivity.
  - destruct (scan_sq2 s) as [[t' r']|] eqn:Es; [|discriminate]. inversion H; subst.
    destruct (IH t' r eq_refl) as [-> Hn]. split; [reflexivity|]. cbn [forallb]. rewrite E. exact Hn.
Qed.

Lemma scan_sq_ok s rest : forallb (fun c => negb (c =? 39)) s = true -> scan_sq2 (s ++ 39 :: rest) = Some (s, rest).
Proof.
  induction s as [|c s IH]; intros H; cbn [app scan_sq2]; [reflexivity|].
  cbn [forallb] in H. apply Bool.andb_true_iff in H as [Hc H]. apply Bool.negb_true_iff in Hc. rewrite Hc, (IH H). reflexivity.
Qed.

(** names *)
Lemma name_run_spec : forall s n r, name_run s = (n, r) ->
  s = n ++ r /\ forallb is_name_char n = true /\ match r with c :: _ => is_name_char c = false | [] => True end.
Proof.
  induction s as [|c s IH]; intros n r H; cbn [name_run] in H.
  - inversion H; subst. repeat split.
  - destruct (is_name_char c) eqn:E.
    + destruct (name_run s) as [n' r'] eqn:En. inversion H; subst. destruct (IH n' r eq_refl) as (-> & Hn & Hr).
      repeat split; [cbn [forallb]; rewrite E; exact Hn|exact Hr].
    + inversion H; subst. repeat split. exact E.
Qed.

Lemma name_run_app n X : forallb is_name_char n = true ->
  match X with c :: _ => is_name_char c = false | [] => True end -> name_run (n ++ X) = (n, X).
Proof.
  induction n as [|c n IH]; intros Hn HX.
  - cbn [app]. destruct X as [|c X]; [reflexivity|]. cbn [name_run]. rewrite HX. reflexivity.
  - cbn [forallb] in Hn. apply Bool.andb_true_iff in Hn as [Hc Hn]. cbn [app name_run]. rewrite Hc, (IH Hn HX). reflexivity.
Qed.

Lemma scan_dollar_inv s n r : scan_dollar s = Some (n, r) ->
  (exists d, n = [d] /\ s = d :: r /\ (is_special d = true \/ is_digit2 d = true)) \/
  (exists d n', n = d :: n' /\ is_special d = false /\ is_digit2 d = false /\ is_name_start d = true /\
     s = n ++ r /\ forallb is_name_char n = true /\ ok_after_name r = true).
Proof.
  unfold scan_dollar. destruct s as [|d s']; [discriminate|].
  destruct (is_special d) eqn:Es; [intros H; inversion H; subst; left; exists d; auto|].
  destruct (is_digit2 d) eqn:Ed; [intros H; inversion H; subst; left; exists d; auto|].
  destruct (is_name_start d) eqn:En; [|discriminate].
  destruct (name_run (d :: s')) as [n0 r0] eqn:Er. intros H.
  destruct (name_run_spec _ _ _ Er) as (Hs & Hn & Hr).
  assert (Hd : exists n', n0 = d :: n').
  { cbn [name_run] in Er. unfold is_name_char in Er at 1. rewrite En in Er. cbn [orb] in Er.
    destruct (name_run s') as [n1 r1]. inversion Er; subst. eauto. }
  destruct Hd as [n' ->]. destruct (ok_after_name r0) eqn:Eo; [|discriminate]. inversion H; subst.
  right. exists d, n'. repeat split; auto.
Qed.

Lemma ok_after_name_head X : ok_after_name X = true -> match X with c :: _ => is_name_char c = false | [] => True end.
Proof.
  destruct X as [|c X]; [trivial|]. unfold ok_after_name. intros H.
  apply Bool.andb_true_iff in H as [H _]. apply Bool.andb_true_iff in H as [H _]. apply Bool.negb_true_iff in H. exact H.
Qed.

Lemma scan_dollar_ok s n r X : scan_dollar s = Some (n, r) ->
  (ok_after_name r = true -> ok_after_name X = true) -> scan_dollar (n ++ X) = Some (n, X).
Proof.
  intros H HX. destruct (scan_dollar_inv s n r H) as [(d & -> & _ & Hd)|(d & n' & -> & Hs & Hdg & Hn & _ & Hall & Hok)].
  - cbn [app scan_dollar]. destruct (is_special d); [reflexivity|]. destruct Hd as [Hd|Hd]; [discriminate|]. rewrite Hd. reflexivity.
  - specialize (HX Hok). cbn [app]. unfold scan_dollar. rewrite Hs, Hdg, Hn.
    change (d :: n' ++ X) with ((d :: n') ++ X). rewrite (name_run_app (d :: n') X Hall (ok_after_name_head X HX)), HX. reflexivity.
Qed.

(** * more fuel does no harm *)
Lemma dq_mono f : forall s acc r, scan_dq2 f s acc = Some r -> forall k, scan_dq2 (f + k) s acc = Some r.
Proof.
  induction f as [|f IH]; intros s acc r H k; [discriminate|]. cbn [plus scan_dq2] in *.
  destruct s as [|c s']; [discriminate|].
  destruct (c =? 34); [exact H|].
  destruct (c =? 92).
  { destruct s' as [|d s'']; [discriminate|]. destruct (dq_special2 d).
    - destruct (scan_dq2 f s'' []) as [[ps rest]|] eqn:E; [|discriminate]. rewrite (IH _ _ _ E k). exact H.
    - destruct (d =? 10); apply IH; exact H. }
  destruct (c =? 36).
  { destruct (scan_dollar s') as [[n r0]|]; [|discriminate].
    destruct (scan_dq2 f r0 []) as [[ps rest]|] eqn:E; [|discriminate]. rewrite (IH _ _ _ E k). exact H. }
  destruct (c =? 96); [discriminate|]. apply IH. exact H.
Qed.

Lemma word_mono f : forall s acc r, scan_word2 f s acc = Some r -> forall k, scan_word2 (f + k) s acc = Some r.
Proof.
  induction f as [|f IH]; intros s acc r H k; [discriminate|]. cbn [plus scan_word2] in *.
  destruct s as [|c s']; [exact H|].
  destruct (c =? 39).
  { destruct (scan_sq2 s') as [[t rest]|]; [|discriminate].
    destruct (scan_word2 f rest []) as [[ps r1]|] eqn:E; [|discriminate]. rewrite (IH _ _ _ E k). exact H. }
  destruct (c =? 34).
  { destruct (scan_dq2 f s' []) as [[v rest]|] eqn:Ed; [|discriminate]. rewrite (dq_mono _ _ _ _ Ed k).
    destruct (scan_word2 f rest []) as [[ps r1]|] eqn:E; [|discriminate]. rewrite (IH _ _ _ E k). exact H. }
  destruct (c =? 92).
  { destruct s' as [|d s'']; [exact H|]. destruct (d =? 10); [apply IH; exact H|].
    destruct (scan_word2 f s'' []) as [[ps r1]|] eqn:E; [|discriminate]. rewrite (IH _ _ _ E k). exact H. }
  destruct (c =? 36).
  { destruct (scan_dollar s') as [[n r0]|]; [|discriminate].
    destruct (scan_word2 f r0 []) as [[ps r1]|] eqn:E; [|discriminate]. rewrite (IH _ _ _ E k). exact H. }
  destruct (is_blank_or_op2 c); [exact H|]. destruct (memb c [96; 35]); [discriminate|]. apply IH. exact H.
Qed.

(** * the printed form begins with the pending literal *)
Lemma dq_prefix f : forall s acc v r1, scan_dq2 f s acc = Some (v, r1) -> exists tl, print_parts2 v = rev acc ++ tl.
Proof.
  induction f as [|f IH]; intros s acc v r1 H; [discriminate|]. cbn [scan_dq2] in H.
  destruct s as [|c s']; [discriminate|].
  destruct (c =? 34); [inversion H; subst; exists []; rewrite print_lit_of, app_nil_r; reflexivity|].
  destruct (c =? 92).
  { destruct s' as [|d s'']; [discriminate|]. destruct (dq_special2 d).
    - destruct (scan_dq2 f s'' []) as [[ps rest]|]; [|discriminate]. inversion H; subst.
      rewrite print_app, print_lit_of. eauto.
    - destruct (d =? 10); [exact (IH _ _ _ _ H)|].
      destruct (IH _ _ _ _ H) as [tl Ht]. exists (92 :: d :: tl). rewrite Ht. cbn [rev]. rewrite <- !app_assoc. reflexivity. }
  destruct (c =? 36).
  { destruct (scan_dollar s') as [[n r0]|]; [|discriminate].
    destruct (scan_dq2 f r0 []) as [[ps rest]|]; [|discriminate]. inversion H; subst.
    rewrite print_app, print_lit_of. eauto. }
  destruct (c =? 96); [discriminate|].
  destruct (IH _ _ _ _ H) as [tl Ht]. exists (c :: tl). rewrite Ht. cbn [rev]. rewrite <- app_assoc. reflexivity.
Qed.

Lemma word_prefix f : forall s acc w r, scan_word2 f s acc = Some (w, r) -> exists tl, print_parts2 w ++ r = rev acc ++ tl.
Proof.
  induction f as [|f IH]; intros s acc w r H; [discriminate|]. cbn [scan_word2] in H.
  destruct s as [|c s']; [inversion H; subst; exists []; rewrite print_lit_of; reflexivity|].
  destruct (c =? 39).
  { destruct (scan_sq2 s') as [[t rest]|]; [|discriminate].
    destruct (scan_word2 f rest []) as [[ps r1]|]; [|discriminate]. inversion H; subst.
    rewrite print_app, print_lit_of, <- app_assoc. eauto. }
  destruct (c =? 34).
  { destruct (scan_dq2 f s' []) as [[v rest]|]; [|discriminate].
    destruct (scan_word2 f rest []) as [[ps r1]|]; [|discriminate]. inversion H; subst.
    rewrite print_app, print_lit_of, <- app_assoc. eauto. }
  destruct (c =? 92).
  { destruct s' as [|d s''].
    - inversion H; subst. rewrite print_app, print_lit_of, <- app_assoc. eauto.
    - destruct (d =? 10); [exact (IH _ _ _ _ H)|].
      destruct (scan_word2 f s'' []) as [[ps r1]|]; [|discriminate]. inversion H; subst.
      rewrite print_app, print_lit_of, <- app_assoc. eauto. }
  destruct (c =? 36).
  { destruct (scan_dollar s') as [[n r0]|]; [|discriminate].
    destruct (scan_word2 f r0 []) as [[ps r1]|]; [|discriminate]. inversion H; subst.
    rewrite print_app, print_lit_of, <- app_assoc. eauto. }
  destruct (is_blank_or_op2 c); [inversion H; subst; rewrite print_lit_of; eauto|].
  destruct (memb c [96; 35]); [discriminate|].
  destruct (IH _ _ _ _ H) as [tl Ht]. exists (c :: tl). rewrite Ht. cbn [rev]. rewrite <- app_assoc. reflexivity.
Qed.

(** * what follows a name in the source is what follows it in the printed text *)
Lemma ok_cons c l : (c =? 92) = false -> ok_after_name (c :: l) = negb (is_name_char c) && ascii2 c.
Proof. intros H. unfold ok_after_name. rewrite H. cbn [andb negb]. apply Bool.andb_true_r. Qed.

Lemma ok_inv c l : ok_after_name (c :: l) = true ->
  is_name_char c = false /\ ascii2 c = true /\ ((c =? 92) = true -> match l with d :: _ => (d =? 10) = false | [] => True end).
Proof.
  unfold ok_after_name. intros H. apply Bool.andb_true_iff in H as [H H3]. apply Bool.andb_true_iff in H as [H1 H2].
  apply Bool.negb_true_iff in H1. apply Bool.negb_true_iff in H3. repeat split; auto.
  intros E. rewrite E in H3. cbn [andb] in H3. destruct l as [|d l']; [trivial|exact H3].
Qed.

Lemma ok_bs d l : (d =? 10) = false -> ok_after_name (92 :: d :: l) = true.
Proof. intros H. unfold ok_after_name. rewrite H. reflexivity. Qed.

Lemma word_ok f s ps r : scan_word2 f s [] = Some (ps, r) -> ok_after_name s = true -> ok_after_name (print_parts2 ps ++ r) = true.
Proof.
  destruct f as [|f]; [discriminate|]. intros H Hok. cbn [scan_word2] in H.
  destruct s as [|c s']; [inversion H; subst; reflexivity|].
  destruct (ok_inv c s' Hok) as (Hn & Ha & Hbs).
  destruct (c =? 39) eqn:E39.
  { destruct (scan_sq2 s') as [[t rest]|]; [|discriminate].
    destruct (scan_word2 f rest []) as [[ps' r1]|]; [|discriminate]. inversion H; subst. reflexivity. }
  destruct (c =? 34) eqn:E34.
  { destruct (scan_dq2 f s' []) as [[v rest]|]; [|discriminate].
    destruct (scan_word2 f rest []) as [[ps' r1]|]; [|discriminate]. inversion H; subst. reflexivity. }
  destruct (c =? 92) eqn:E92.
  { destruct s' as [|d s'']; [inversion H; subst; reflexivity|].
    specialize (Hbs eq_refl). rewrite Hbs in H.
    destruct (scan_word2 f s'' []) as [[ps' r1]|]; [|discriminate]. inversion H; subst.
    cbn [lit_of2 app print_parts2]. rewrite print_quote. cbn [print_parts2 print_part2 app]. apply ok_bs. exact Hbs. }
  destruct (c =? 36) eqn:E36.
  { destruct (scan_dollar s') as [[n r0]|]; [|discriminate].
    destruct (scan_word2 f r0 []) as [[ps' r1]|]; [|discriminate]. inversion H; subst. reflexivity. }
  destruct (is_blank_or_op2 c); [inversion H; subst; exact Hok|].
  destruct (memb c [96; 35]); [discriminate|].
  destruct (word_prefix _ _ _ _ _ H) as [tl Ht]. rewrite Ht. cbn [rev app]. rewrite (ok_cons c tl E92), Hn, Ha. reflexivity.
Qed.

Lemma dq_ok f s v r1 Y : scan_dq2 f s [] = Some (v, r1) -> ok_after_name s = true -> ok_after_name (print_parts2 v ++ 34 :: Y) = true.
Proof.
  destruct f as [|f]; [discriminate|]. intros H Hok. cbn [scan_dq2] in H.
  destruct s as [|c s']; [discriminate|].
  destruct (ok_inv c s' Hok) as (Hn & Ha & Hbs).
  destruct (c =? 34) eqn:E34; [inversion H; subst; reflexivity|].
  destruct (c =? 92) eqn:E92.
  { destruct s' as [|d s'']; [discriminate|]. specialize (Hbs eq_refl).
    destruct (dq_special2 d).
    - destruct (scan_dq2 f s'' []) as [[ps rest]|]; [|discriminate]. inversion H; subst.
      cbn [lit_of2 app print_parts2]. rewrite print_quote. cbn [print_parts2 print_part2 app]. apply ok_bs. exact Hbs.
    - rewrite Hbs in H. destruct (dq_prefix _ _ _ _ _ H) as [tl Ht]. rewrite Ht. cbn [rev app]. apply ok_bs. exact Hbs. }
  destruct (c =? 36) eqn:E36.
  { destruct (scan_dollar s') as [[n r0]|]; [|discriminate].
    destruct (scan_dq2 f r0 []) as [[ps rest]|]; [|discriminate]. inversion H; subst. reflexivity. }
  destruct (c =? 96); [discriminate|].
  destruct (dq_prefix _ _ _ _ _ H) as [tl Ht]. rewrite Ht. cbn [rev app]. rewrite (ok_cons c _ E92), Hn, Ha. reflexivity.
Qed.

(** * double quotes *)
Definition dqplain (c : rune) : bool := negb ((c =? 34) || (c =? 92) || (c =? 36) || (c =? 96)).

Inductive dqlit : list rune -> Prop :=
| dql_nil : dqlit []
| dql_plain c r : dqplain c = true -> dqlit r -> dqlit (c :: r)
| dql_esc d r : dq_special2 d = false -> (d =? 10) = false -> dqlit r -> dqlit (92 :: d :: r).

Lemma dqlit_app a b : dqlit a -> dqlit b -> dqlit (a ++ b).
Proof. intros Ha Hb. induction Ha; cbn [app]; [exact Hb|apply dql_plain; assumption|apply dql_esc; assumption]. Qed.

Lemma dqplain_inv c : dqplain c = true -> (c =? 34) = false /\ (c =? 92) = false /\ (c =? 36) = false /\ (c =? 96) = false.
Proof.
  unfold dqplain. intros H. apply Bool.negb_true_iff in H.
  apply Bool.orb_false_iff in H as [H H4]. apply Bool.orb_false_iff in H as [H H3]. apply Bool.orb_false_iff in H as [H1 H2]. auto.
Qed.

Lemma dq_step_plain f c s acc : dqplain c = true -> scan_dq2 (S f) (c :: s) acc = scan_dq2 f s (c :: acc).
Proof. intros Hc. destruct (dqplain_inv c Hc) as (H1 & H2 & H3 & H4). cbn [scan_dq2]. rewrite H1, H2, H3, H4. reflexivity. Qed.

Lemma dq_step_esc f d s acc : dq_special2 d = false -> (d =? 10) = false ->
  scan_dq2 (S f) (92 :: d :: s) acc = scan_dq2 f s (d :: 92 :: acc).
Proof. intros Hd Hn. cbn [scan_dq2]. change (92 =? 34) with false. change (92 =? 92) with true. cbv iota. rewrite Hd, Hn. reflexivity. Qed.

Lemma scan_dq_lit L : dqlit L -> forall X acc f r, scan_dq2 f X (rev L ++ acc) = Some r -> scan_dq2 (length L + f) (L ++ X) acc = Some r.
Proof.
  induction 1 as [|c r0 Hc Hr IH|d r0 Hd Hn Hr IH]; intros X acc f r H.
  - exact H.
  - cbn [length plus app]. rewrite (dq_step_plain _ c _ _ Hc). apply IH. cbn [rev] in H. rewrite <- app_assoc in H. exact H.
  - cbn [length app]. replace (S (S (length r0)) + f)%nat with (S ((length r0 + f) + 1)) by lia.
    rewrite (dq_step_esc _ d _ _ Hd Hn). apply dq_mono. apply IH.
    cbn [rev] in H. rewrite <- !app_assoc in H. exact H.
Qed.

Lemma rescan_dq_acc acc X f r : dqlit (rev acc) -> scan_dq2 f X acc = Some r -> scan_dq2 (length (rev acc) + f) (rev acc ++ X) [] = Some r.
Proof. intros Hd H. apply (scan_dq_lit (rev acc) Hd). rewrite rev_involutive, app_nil_r. exact H. Qed.

Lemma rescan_dq f : forall s acc v r1, dqlit (rev acc) -> scan_dq2 f s acc = Some (v, r1) ->
  forall Y, exists F, scan_dq2 F (print_parts2 v ++ 34 :: Y) [] = Some (v, Y).
Proof.
  induction f as [|f IH]; intros s acc v r1 Hd H Y; [discriminate|]. cbn [scan_dq2] in H.
  destruct s as [|c s']; [discriminate|].
  destruct (c =? 34) eqn:E34.
  { inversion H; subst. rewrite print_lit_of. exists (length (rev acc) + 1)%nat. apply (rescan_dq_acc acc _ 1 _ Hd).
    cbn [scan_dq2]. change (34 =? 34) with true. reflexivity. }
  destruct (c =? 92) eqn:E92.
  { destruct s' as [|d s'']; [discriminate|]. destruct (dq_special2 d) eqn:Esp.
    - destruct (scan_dq2 f s'' []) as [[ps rest]|] eqn:E2; [|discriminate]. inversion H; subst.
      destruct (IH s'' [] ps r1 dql_nil E2 Y) as [F1 HF].
      exists (length (rev acc) + S F1)%nat.
      rewrite print_app, print_lit_of. cbn [print_parts2]. rewrite print_quote.
      change (92 =? 39) with false. change (92 =? 34) with false. change (92 =? 92) with true. cbv iota.
      cbn [print_parts2 print_part2]. rewrite app_nil_r, <- !app_assoc.
      apply (rescan_dq_acc acc _ (S F1) _ Hd).
      cbn [app scan_dq2]. change (92 =? 34) with false. change (92 =? 92) with true. cbv iota. rewrite Esp, HF. reflexivity.
    - destruct (d =? 10) eqn:E10; [exact (IH s'' acc v r1 Hd H Y)|].
      refine (IH s'' (d :: 92 :: acc) v r1 _ H Y).
      cbn [rev]. rewrite <- app_assoc. apply dqlit_app; [exact Hd|]. cbn [app]. apply dql_esc; [exact Esp|exact E10|apply dql_nil]. }
  destruct (c =? 36) eqn:E36.
  { destruct (scan_dollar s') as [[n r0]|] eqn:Esd; [|discriminate].
    destruct (scan_dq2 f r0 []) as [[ps rest]|] eqn:E2; [|discriminate]. inversion H; subst.
    destruct (IH r0 [] ps r1 dql_nil E2 Y) as [F1 HF].
    exists (length (rev acc) + S F1)%nat.
    rewrite print_app, print_lit_of. cbn [print_parts2 print_part2]. rewrite <- !app_assoc.
    apply (rescan_dq_acc acc _ (S F1) _ Hd).
    cbn [app scan_dq2]. change (36 =? 34) with false. change (36 =? 92) with false. change (36 =? 36) with true. cbv iota.
    rewrite ?app_assoc_reverse.
    rewrite (scan_dollar_ok s' n r0 _ Esd (dq_ok f r0 ps r1 Y E2)), HF. reflexivity. }
  destruct (c =? 96) eqn:E96; [discriminate|].
  refine (IH s' (c :: acc) v r1 _ H Y).
  cbn [rev]. apply dqlit_app; [exact Hd|]. apply dql_plain; [|apply dql_nil].
  unfold dqplain. rewrite E34, E92, E36, E96. reflexivity.
Qed.

(** * the word *)
Theorem rescan_word2 f : forall s acc w rest,
  forallb plain acc = true -> scan_word2 f s acc = Some (w, rest) ->
  exists F, scan_word2 F (print_parts2 w ++ rest) [] = Some (w, rest).
Proof.
  induction f as [|f IH]; intros s acc w rest Hp H; [discriminate|].
  cbn [scan_word2] in H. destruct s as [|c s'].
  { inversion H; subst. exists (length (rev acc) + 1)%nat. rewrite print_lit_of, (rescan_acc acc 1 [] Hp). reflexivity. }
  destruct (c =? 39) eqn:E39.
  { destruct (scan_sq2 s') as [[t r1]|] eqn:Esq; [|discriminate].
    destruct (scan_word2 f r1 []) as [[ps r]|] eqn:E2; [|discriminate]. inversion H; subst. clear H.
    destruct (scan_sq_inv s' t r1 Esq) as [-> Hn].
    destruct (IH r1 [] ps rest eq_refl E2) as [F1 HF].
    exists (length (rev acc) + S F1)%nat.
    rewrite print_app, print_lit_of. cbn [print_parts2]. rewrite print_quote.
    change (39 =? 39) with true. cbv iota. cbn [print_parts2 print_part2]. rewrite app_nil_r.
    rewrite <- !app_assoc. rewrite (rescan_acc acc (S F1) _ Hp).
    cbn [app scan_word2]. change (39 =? 39) with true. cbv iota.
    rewrite <- app_assoc. cbn [app]. rewrite (scan_sq_ok t _ Hn), HF. reflexivity. }
  destruct (c =? 34) eqn:E34.
  { destruct (scan_dq2 f s' []) as [[v r1]|] eqn:Edq; [|discriminate].
    destruct (scan_word2 f r1 []) as [[ps r]|] eqn:E2; [|discriminate]. inversion H; subst. clear H.
    destruct (IH r1 [] ps rest eq_refl E2) as [F1 HF].
    destruct (rescan_dq f s' [] v r1 dql_nil Edq (print_parts2 ps ++ rest)) as [F2 HF2].
    exists (length (rev acc) + S (F1 + F2))%nat.
    rewrite print_app, print_lit_of. cbn [print_parts2]. rewrite print_quote.
    change (34 =? 39) with false. change (34 =? 34) with true. cbv iota.
    rewrite <- !app_assoc. rewrite (rescan_acc acc (S (F1 + F2)) _ Hp).
    cbn [app scan_word2]. change (34 =? 39) with false. change (34 =? 34) with true. cbv iota.
    rewrite <- app_assoc. cbn [app].
    replace (F1 + F2)%nat with (F2 + F1)%nat at 1 by lia. rewrite (dq_mono F2 _ _ _ HF2 F1).
    rewrite (word_mono F1 _ _ _ HF F2). reflexivity. }
  destruct (c =? 92) eqn:E92.
  { destruct s' as [|d s''].
    - inversion H; subst. exists (length (rev acc) + 1)%nat.
      rewrite print_app, print_lit_of. cbn [print_parts2]. rewrite print_quote.
      change (92 =? 39) with false. change (92 =? 34) with false. change (92 =? 92) with true. cbv iota.
      cbn [print_parts2 app]. rewrite <- !app_assoc. rewrite (rescan_acc acc 1 _ Hp). reflexivity.
    - destruct (d =? 10) eqn:E10; [exact (IH s'' acc w rest Hp H)|].
      destruct (scan_word2 f s'' []) as [[ps r]|] eqn:E2; [|discriminate]. inversion H; subst. clear H.
      destruct (IH s'' [] ps rest eq_refl E2) as [F1 HF].
      exists (length (rev acc) + S F1)%nat.
      rewrite print_app, print_lit_of. cbn [print_parts2]. rewrite print_quote.
      change (92 =? 39) with false. change (92 =? 34) with false. change (92 =? 92) with true. cbv iota.
      cbn [print_parts2 print_part2]. rewrite app_nil_r.
      rewrite <- !app_assoc. rewrite (rescan_acc acc (S F1) _ Hp).
      cbn [app scan_word2]. change (92 =? 39) with false. change (92 =? 34) with false. change (92 =? 92) with true. cbv iota.
      rewrite E10, HF. reflexivity. }
  destruct (c =? 36) eqn:E36.
  { destruct (scan_dollar s') as [[n r0]|] eqn:Esd; [|discriminate].
    destruct (scan_word2 f r0 []) as [[ps r]|] eqn:E2; [|discriminate]. inversion H; subst. clear H.
    destruct (IH r0 [] ps rest eq_refl E2) as [F1 HF].
    exists (length (rev acc) + S F1)%nat.
    rewrite print_app, print_lit_of. cbn [print_parts2 print_part2].
    rewrite <- !app_assoc. rewrite (rescan_acc acc (S F1) _ Hp).
    cbn [app scan_word2]. change (36 =? 39) with false. change (36 =? 34) with false. change (36 =? 92) with false.
    change (36 =? 36) with true. cbv iota. rewrite ?app_assoc_reverse.
    rewrite (scan_dollar_ok s' n r0 _ Esd (word_ok f r0 ps rest E2)), HF. reflexivity. }
  destruct (is_blank_or_op2 c) eqn:Eb.
  { inversion H; subst. exists (length (rev acc) + 1)%nat.
    rewrite print_lit_of, (rescan_acc acc 1 _ Hp).
    cbn [scan_word2]. rewrite E39, E34, E92, E36, Eb. reflexivity. }
  destruct (memb c [96; 35]) eqn:Em; [discriminate|].
  refine (IH s' (c :: acc) w rest _ H).
  cbn [forallb]. unfold plain at 1. rewrite E39, E34, E92, E36, Eb, Em, Hp. reflexivity.
Qed.

(** from the source text: scanning, printing and scanning again gives the same word and rest *)
Corollary scan_print_scan2 f s w rest :
  scan_word2 f s [] = Some (w, rest) -> exists F, scan_word2 F (print_parts2 w ++ rest) [] = Some (w, rest).
Proof. exact (rescan_word2 f s [] w rest eq_refl). Qed.

Example reprint2_witness :
  exists w, scan_word2 40 [97; 36; 120; 45; 34; 36; 49; 98; 92; 36; 34; 36; 64; 39; 99; 39; 32; 122] [] = Some (w, [32; 122]) /\
            print_parts2 w = [97; 36; 120; 45; 34; 36; 49; 98; 92; 36; 34; 36; 64; 39; 99; 39] /\ length w = 6%nat.
Proof. eexists. split; [vm_compute; reflexivity|split; vm_compute; reflexivity]. Qed.
