(** The text between two tokens (parser/lexer.go: the blank, newline and comment cases of
    scanRawToken, the line continuation of scanQuote, and linebreak()).  Model of what the scanner
    makes of it, the language of layouts, and the proof that every layout is inert: it separates the
    tokens, yields exactly its comments, and nothing else. *)
From GoSh Require Import Base.Bytes.
From Coq Require Import Lia.
Open Scope N_scope.

Definition is_blank (c : rune) : bool := (c =? 32) || (c =? 9).

(** * the scanner *)
(* blanks and line continuations before a token; [sep]: at least one blank was seen *)
Fixpoint skip_inline (s : list rune) (sep : bool) : bool * list rune :=
  match s with
  | c :: r =>
    if is_blank c then skip_inline r true
    else if c =? 92 then
      match r with
      | d :: r' => if d =? 10 then skip_inline r' sep else (sep, s)
      | [] => (sep, s)
      end
    else (sep, s)
  | [] => (sep, [])
  end.

(* the text of a comment: up to, not including, the newline *)
Fixpoint span_line (s : list rune) : list rune * list rune :=
  match s with
  | c :: r => if c =? 10 then ([], s) else let '(a, b) := span_line r in (c :: a, b)
  | [] => ([], [])
  end.

(* linebreak(): newlines, blanks and comment lines (no line continuation here) *)
Fixpoint linebreak (fuel : nat) (s : list rune) (acc : list (list rune)) : list (list rune) * list rune :=
  match fuel with
  | O => (acc, s)
  | S f =>
    match s with
    | c :: r =>
      if is_blank c || (c =? 10) then linebreak f r acc
      else if c =? 35 then let '(t, rest) := span_line r in linebreak f rest (acc ++ [t])
      else (acc, s)
    | [] => (acc, [])
    end
  end.

(** what lies between a token and the next one, in argument position (newline ends the line) *)
Inductive gap :=
| GJoin                               (* nothing separates: the text continues the same word *)
| GBlank                              (* blanks: the next word of the same command *)
| GLine (comments : list (list rune)) (* the line ends here (comments seen), the rest is the next line *)
| GEof (comments : list (list rune)).

Definition scan_gap (s : list rune) : gap * list rune :=
  let '(sep, s1) := skip_inline s false in
  match s1 with
  | [] => (GEof [], [])
  | c :: r =>
    if c =? 35 then
      let '(t, rest) := span_line r in
      match rest with
      | [] => (GEof [t], [])
      | _ :: rest' => let '(cs, rest2) := linebreak (S (length rest')) rest' [t] in (GLine cs, rest2)
      end
    else if c =? 10 then let '(cs, rest2) := linebreak (S (length r)) r [] in (GLine cs, rest2)
    else ((if sep then GBlank else GJoin), s1)
  end.

(* linebreak() itself: newlines, blanks, comment lines and line continuations *)
Fixpoint linebreak_c (fuel : nat) (s : list rune) (acc : list (list rune)) : list (list rune) * list rune :=
  match fuel with
  | O => (acc, s)
  | S f =>
    match s with
    | c :: r =>
      if is_blank c || (c =? 10) then linebreak_c f r acc
      else if c =? 35 then let '(t, rest) := span_line r in linebreak_c f rest (acc ++ [t])
      else if c =? 92 then
        match r with
        | d :: r' => if d =? 10 then linebreak_c f r' acc else (acc, s)
        | [] => (acc, s)
        end
      else (acc, s)
    | [] => (acc, [])
    end
  end.

(** after an operator that allows a line break (&& || |): linebreak(), then the token scanner;
    [LEnded]: the input ends where a command must begin *)
Inductive lbres := LOk (comments : list (list rune)) (rest : list rune) | LEnded (comments : list (list rune)).

Definition scan_linebreak (s : list rune) : lbres :=
  let '(cs, s1) := linebreak_c (S (length s)) s [] in
  match s1 with
  | _ :: _ => LOk cs s1
  | [] => LEnded cs
  end.

(** * the language of layouts *)
Inductive inl := IBlank (c : rune) | ICont.
Definition inl_ok (i : inl) : bool := match i with IBlank c => is_blank c | ICont => true end.
Definition inl_text (i : inl) : list rune := match i with IBlank c => [c] | ICont => [92; 10] end.
Definition inls_text (l : list inl) : list rune := flat_map inl_text l.
Definition has_blank (l : list inl) : bool := existsb (fun i => match i with IBlank _ => true | ICont => false end) l.

(* a line of layout: blanks, an optional comment, the newline *)
Record lline := mkLine { ll_blanks : list rune; ll_comment : option (list rune) }.
Definition lline_ok (l : lline) : bool :=
  forallb is_blank (ll_blanks l) && match ll_comment l with Some t => forallb (fun c => negb (c =? 10)) t | None => true end.
Definition lline_text (l : lline) : list rune :=
  ll_blanks l ++ (match ll_comment l with Some t => 35 :: t | None => [] end) ++ [10].
Definition llines_text (ls : list lline) : list rune := flat_map lline_text ls.
Definition llines_comments (ls : list lline) : list (list rune) :=
  flat_map (fun l => match ll_comment l with Some t => [t] | None => [] end) ls.

(* the next token does not begin with layout *)
Definition token_start (s : list rune) : bool :=
  match s with
  | c :: r => negb (is_blank c) && negb (c =? 10) && negb (c =? 35)
              && negb ((c =? 92) && match r with d :: _ => d =? 10 | [] => false end)
  | [] => false
  end.

(** * every layout is inert *)
Definition not_inline (s : list rune) : bool :=
  match s with
  | c :: r => negb (is_blank c) && negb ((c =? 92) && match r with d :: _ => d =? 10 | [] => false end)
  | [] => true
  end.

Lemma skip_inline_stop s sep : not_inline s = true -> skip_inline s sep = (sep, s).
Proof.
  destruct s as [|c r]; [reflexivity|]. cbn [not_inline skip_inline]. intros H.
  apply andb_true_iff in H as [H1 H2]. apply negb_true_iff in H1. rewrite H1.
  destruct (c =? 92) eqn:E; [|reflexivity]. cbn in H2. destruct r as [|d r']; [reflexivity|].
  apply negb_true_iff in H2. rewrite H2. reflexivity.
Qed.

Lemma skip_inline_layout l : forall sep rest, forallb inl_ok l = true -> not_inline rest = true ->
  skip_inline (inls_text l ++ rest) sep = (sep || has_blank l, rest).
Proof.
  induction l as [|i l IH]; intros sep rest Hok Hr; cbn [inls_text flat_map has_blank existsb app].
  - rewrite orb_false_r. apply skip_inline_stop, Hr.
  - cbn [forallb] in Hok. apply andb_true_iff in Hok as [Hi Hl]. destruct i as [c|]; cbn [inl_text app inl_ok] in *.
    + cbn [skip_inline]. rewrite Hi. fold (inls_text l). rewrite (IH true rest Hl Hr). cbn. rewrite orb_true_r. reflexivity.
    + cbn [skip_inline]. change (is_blank 92) with false. cbn [N.eqb Pos.eqb]. change (92 =? 92) with true. change (10 =? 10) with true.
      cbv iota. fold (inls_text l). rewrite (IH sep rest Hl Hr). reflexivity.
Qed.

Lemma span_line_comment t : forall rest, forallb (fun c => negb (c =? 10)) t = true ->
  span_line (t ++ 10 :: rest) = (t, 10 :: rest).
Proof.
  induction t as [|c t IH]; intros rest H; cbn [app span_line].
  - reflexivity.
  - cbn [forallb] in H. apply andb_true_iff in H as [Hc Ht]. apply negb_true_iff in Hc. rewrite Hc, (IH rest Ht). reflexivity.
Qed.

Lemma span_line_eof t : forallb (fun c => negb (c =? 10)) t = true -> span_line t = (t, []).
Proof.
  induction t as [|c t IH]; intros H; cbn [span_line]; [reflexivity|].
  cbn [forallb] in H. apply andb_true_iff in H as [Hc Ht]. apply negb_true_iff in Hc. rewrite Hc, (IH Ht). reflexivity.
Qed.

(* the next token begins here: neither blank, newline nor '#' *)
Definition line_start (s : list rune) : bool :=
  match s with c :: _ => negb (is_blank c) && negb (c =? 10) && negb (c =? 35) | [] => true end.

Lemma linebreak_stop fuel s acc : line_start s = true -> linebreak (S fuel) s acc = (acc, s).
Proof.
  destruct s as [|c r]; [reflexivity|]. cbn [line_start linebreak]. intros H.
  apply andb_true_iff in H as [H12 H3]. apply andb_true_iff in H12 as [H1 H2].
  apply negb_true_iff in H1, H2, H3. rewrite H1, H2, H3. reflexivity.
Qed.

Lemma linebreak_blanks bs : forall fuel rest acc, forallb is_blank bs = true -> (length bs <= fuel)%nat ->
  linebreak (fuel + 1) (bs ++ rest) acc = linebreak (fuel + 1 - length bs) rest acc.
Proof.
  induction bs as [|b bs IH]; intros fuel rest acc Hb Hf; cbn [app length].
  - rewrite Nat.sub_0_r. reflexivity.
  - cbn [forallb] in Hb. apply andb_true_iff in Hb as [H1 H2]. cbn [length] in Hf.
    destruct fuel as [|fuel]; [lia|]. cbn [Nat.add linebreak]. rewrite H1. cbn [orb].
    rewrite (IH fuel rest acc H2) by lia. reflexivity || (f_equal; lia).
Qed.

Lemma linebreak_lines ls : forall fuel bs rest acc,
  forallb lline_ok ls = true -> forallb is_blank bs = true -> line_start rest = true ->
  (length (llines_text ls) + length bs < fuel)%nat ->
  linebreak fuel (llines_text ls ++ bs ++ rest) acc = (acc ++ llines_comments ls, rest).
Proof.
  induction ls as [|l ls IH]; intros fuel bs rest acc Hok Hbs Hr Hf; cbn [llines_text llines_comments flat_map app].
  - rewrite app_nil_r. cbn [length Nat.add] in Hf. destruct fuel as [|fuel]; [lia|]. replace (S fuel) with (fuel + 1)%nat by lia.
    rewrite (linebreak_blanks bs) by (try assumption; lia).
    remember (fuel + 1 - length bs)%nat as f1. destruct f1 as [|f1]; [lia|]. apply linebreak_stop, Hr.
  - cbn [forallb] in Hok. apply andb_true_iff in Hok as [Hl Hls]. unfold lline_ok in Hl. apply andb_true_iff in Hl as [Hb Hc].
    change (flat_map lline_text ls) with (llines_text ls).
    change (flat_map (fun l0 : lline => match ll_comment l0 with Some t => [t] | None => [] end) ls) with (llines_comments ls).
    change (llines_text (l :: ls)) with (lline_text l ++ llines_text ls) in Hf.
    unfold lline_text in *. rewrite !app_length in Hf. rewrite <- !app_assoc.
    destruct fuel as [|fuel]; [lia|]. replace (S fuel) with (fuel + 1)%nat by lia.
    rewrite (linebreak_blanks (ll_blanks l)) by (try assumption; lia).
    destruct (ll_comment l) as [t|] eqn:Et; cbn [app length] in *.
    + remember (fuel + 1 - length (ll_blanks l))%nat as f1. destruct f1 as [|f1]; [lia|]. cbn [linebreak].
      change (is_blank 35) with false. change (35 =? 10) with false. change (35 =? 35) with true. cbn [orb].
      rewrite (span_line_comment t _ Hc).
      destruct f1 as [|f2]; [lia|]. cbn [linebreak].
      change (is_blank 10) with false. change (10 =? 10) with true. cbn [orb].
      rewrite (IH f2 bs rest (acc ++ [t]) Hls Hbs Hr) by lia.
      rewrite <- app_assoc. reflexivity.
    + remember (fuel + 1 - length (ll_blanks l))%nat as f1. destruct f1 as [|f1]; [lia|]. cbn [linebreak].
      change (is_blank 10) with false. change (10 =? 10) with true. cbn [orb].
      rewrite (IH f1 bs rest acc Hls Hbs Hr) by lia. reflexivity.
Qed.

(** Blanks, tabs and line continuations between two tokens of a line only separate them. *)
Theorem inline_layout_inert l rest :
  forallb inl_ok l = true -> token_start rest = true ->
  scan_gap (inls_text l ++ rest) = ((if has_blank l then GBlank else GJoin), rest).
Proof.
  intros Hok Hr. unfold scan_gap.
  assert (Hni : not_inline rest = true).
  { destruct rest as [|c r]; [reflexivity|]. cbn [token_start not_inline] in *.
    apply andb_true_iff in Hr as [H123 H4]. apply andb_true_iff in H123 as [H12 H3]. apply andb_true_iff in H12 as [H1 H2].
    rewrite H1, H4. reflexivity. }
  rewrite (skip_inline_layout l false rest Hok Hni). cbn [orb].
  destruct rest as [|c r]; [discriminate|]. cbn [token_start] in Hr.
  apply andb_true_iff in Hr as [H123 H4]. apply andb_true_iff in H123 as [H12 H3]. apply andb_true_iff in H12 as [H1 H2].
  apply negb_true_iff in H2, H3. rewrite H3, H2. reflexivity.
Qed.

(** A comment before the newline, and any number of blank or comment lines after it (and the
    indentation of the next line), end the line and are returned, each once and in order, with their
    text; the next line starts at its first token. *)
Theorem line_layout_inert l c ls bs rest :
  forallb inl_ok l = true -> forallb (fun x => negb (x =? 10)) c = true ->
  forallb lline_ok ls = true -> forallb is_blank bs = true -> line_start rest = true ->
  scan_gap (inls_text l ++ 35 :: c ++ 10 :: llines_text ls ++ bs ++ rest) = (GLine (c :: llines_comments ls), rest).
Proof.
  intros Hok Hc Hls Hbs Hr. unfold scan_gap.
  rewrite (skip_inline_layout l false _ Hok) by reflexivity.
  change (35 =? 35) with true. cbv iota. rewrite (span_line_comment c _ Hc).
  rewrite (linebreak_lines ls _ bs rest [c] Hls Hbs Hr) by (rewrite !app_length; lia). reflexivity.
Qed.

(** The same without a comment on the first line. *)
Theorem newline_layout_inert l ls bs rest :
  forallb inl_ok l = true -> forallb lline_ok ls = true -> forallb is_blank bs = true -> line_start rest = true ->
  scan_gap (inls_text l ++ 10 :: llines_text ls ++ bs ++ rest) = (GLine (llines_comments ls), rest).
Proof.
  intros Hok Hls Hbs Hr. unfold scan_gap.
  rewrite (skip_inline_layout l false _ Hok) by reflexivity.
  change (10 =? 35) with false. change (10 =? 10) with true. cbv iota.
  rewrite (linebreak_lines ls _ bs rest [] Hls Hbs Hr) by (rewrite !app_length; lia). reflexivity.
Qed.

(** Where the grammar has a line break (after && || | and the other places that skip it): blanks,
    blank lines, comment lines and line continuations, in any order and number, are skipped; the
    comments are returned, each once and in order; the command continues at the next token. *)
Inductive lbitem := LBl (c : rune) | LNl | LCom (t : list rune) | LCo.
Definition lbitem_ok (i : lbitem) : bool :=
  match i with
  | LBl c => is_blank c
  | LNl => true
  | LCom t => forallb (fun c => negb (c =? 10)) t
  | LCo => true
  end.
Definition lbitem_text (i : lbitem) : list rune :=
  match i with LBl c => [c] | LNl => [10] | LCom t => 35 :: t ++ [10] | LCo => [92; 10] end.
Definition lbitems_text (l : list lbitem) : list rune := flat_map lbitem_text l.
Definition lbitems_comments (l : list lbitem) : list (list rune) :=
  flat_map (fun i => match i with LCom t => [t] | _ => [] end) l.

Lemma linebreak_c_stop fuel s acc : token_start s = true -> linebreak_c (S fuel) s acc = (acc, s).
Proof.
  destruct s as [|c r]; [discriminate|]. cbn [token_start linebreak_c]. intros H.
  apply andb_true_iff in H as [H123 H4]. apply andb_true_iff in H123 as [H12 H3]. apply andb_true_iff in H12 as [H1 H2].
  apply negb_true_iff in H1, H2, H3. rewrite H1, H2, H3. cbn [orb].
  destruct (c =? 92) eqn:E; [|reflexivity]. cbn [andb] in H4. destruct r as [|d r']; [reflexivity|].
  apply negb_true_iff in H4. rewrite H4. reflexivity.
Qed.

Lemma linebreak_c_items l : forall fuel rest acc, forallb lbitem_ok l = true -> token_start rest = true ->
  (length (lbitems_text l) < fuel)%nat ->
  linebreak_c fuel (lbitems_text l ++ rest) acc = (acc ++ lbitems_comments l, rest).
Proof.
  induction l as [|i l IH]; intros fuel rest acc Hok Hr Hf; cbn [lbitems_text lbitems_comments flat_map app].
  - rewrite app_nil_r. destruct fuel as [|fuel]; [cbn in Hf; lia|]. apply linebreak_c_stop, Hr.
  - cbn [forallb] in Hok. apply andb_true_iff in Hok as [Hi Hl].
    change (flat_map lbitem_text l) with (lbitems_text l).
    change (flat_map (fun i0 : lbitem => match i0 with LCom t => [t] | _ => [] end) l) with (lbitems_comments l).
    change (lbitems_text (i :: l)) with (lbitem_text i ++ lbitems_text l) in Hf. rewrite app_length in Hf.
    destruct i as [c| |t|]; cbn [lbitem_text lbitem_ok app length] in *.
    + destruct fuel as [|fuel]; [lia|]. cbn [linebreak_c]. rewrite Hi. cbn [orb]. apply IH; [assumption|assumption|lia].
    + destruct fuel as [|fuel]; [lia|]. cbn [linebreak_c]. change (is_blank 10) with false. change (10 =? 10) with true. cbn [orb].
      apply IH; [assumption|assumption|lia].
    + destruct fuel as [|fuel]; [lia|].
      replace (((t ++ [10]) ++ lbitems_text l) ++ rest) with (t ++ 10 :: lbitems_text l ++ rest) by (rewrite <- !app_assoc; reflexivity).
      cbn [linebreak_c].
      change (is_blank 35) with false. change (35 =? 10) with false. change (35 =? 35) with true. cbn [orb].
      rewrite (span_line_comment t _ Hi).
      rewrite app_length in Hf. cbn [length] in Hf.
      destruct fuel as [|fuel]; [lia|]. cbn [linebreak_c]. change (is_blank 10) with false. change (10 =? 10) with true. cbn [orb].
      rewrite (IH fuel rest (acc ++ [t]) Hl Hr) by lia. rewrite <- app_assoc. reflexivity.
    + destruct fuel as [|fuel]; [lia|]. cbn [linebreak_c].
      change (is_blank 92) with false. change (92 =? 10) with false. change (92 =? 35) with false. change (92 =? 92) with true.
      change (10 =? 10) with true. cbn [orb]. cbv iota. apply IH; [assumption|assumption|lia].
Qed.

Theorem linebreak_layout_inert l rest :
  forallb lbitem_ok l = true -> token_start rest = true ->
  scan_linebreak (lbitems_text l ++ rest) = LOk (lbitems_comments l) rest.
Proof.
  intros Hok Hr. unfold scan_linebreak.
  rewrite (linebreak_c_items l _ rest [] Hok Hr) by (rewrite app_length; lia). cbn [app].
  destruct rest as [|c r]; [discriminate|reflexivity].
Qed.

(** Non-vacuity: "a \<nl>\t b", "a # c<nl><nl>  # d<nl> b", and the line break after an operator
    (a continuation followed by an empty line included). *)
Example layout_examples :
  scan_gap [32; 92; 10; 9; 32; 98] = (GBlank, [98]) /\
  scan_gap [32; 35; 32; 99; 10; 10; 32; 32; 35; 100; 10; 32; 98] = (GLine [[32; 99]; [100]], [98]) /\
  scan_linebreak [32; 35; 99; 10; 10; 9; 92; 10; 32; 98] = LOk [[99]] [98] /\
  scan_linebreak [32; 92; 10; 10; 98] = LOk [] [98].
Proof. vm_compute. repeat split. Qed.
