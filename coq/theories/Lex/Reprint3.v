(** Words with braced parameter expansions: the rune-level scanner model of Reprint2 extended by
    scanParamExpInBraces (${name}, ${#name}, ${name op word} with the fourteen operators, the word
    scanned up to the closing brace with quotations, parameters and nested braced expansions), the
    printer's notation, and the theorem that the printed word is scanned back to the same word.
    Outside the fragment (None): what Reprint2 excludes, and a line continuation anywhere inside
    braces. *)
From GoSh Require Import Base.Bytes.
From Coq Require Import Lia.
Open Scope N_scope.

Inductive rq :=
| QL (t : list rune)
| QQ (tok : N) (v : list rq)
| QP (name : list rune)                                        (* $name *)
| QB (name : list rune) (op : list rune) (word : option (list rq)).   (* ${name op word}; op 35 with no word: ${#name} *)

Definition is_blank_or_op3 (r : rune) : bool := memb r [32; 9; 10; 38; 40; 41; 59; 124; 60; 62].
Definition is_digit3 (c : rune) : bool := (48 <=? c) && (c <=? 57).
Definition is_name_start3 (c : rune) : bool := (c =? 95) || ((65 <=? c) && (c <=? 90)) || ((97 <=? c) && (c <=? 122)).
Definition is_name_char3 (c : rune) : bool := is_name_start3 c || is_digit3 c.
Definition is_special3 (c : rune) : bool := memb c [64; 42; 35; 63; 45; 36; 33; 48].
Definition is_bspecial3 (c : rune) : bool := memb c [64; 42; 63; 45; 36; 33; 48].   (* inside braces: without # *)
Definition ascii3 (c : rune) : bool := c <? 128.

Fixpoint name_run3 (s : list rune) : list rune * list rune :=
  match s with
  | c :: s' => if is_name_char3 c then let '(n, r) := name_run3 s' in (c :: n, r) else ([], s)
  | [] => ([], [])
  end.

Definition ok_after_name3 (l : list rune) : bool :=
  match l with
  | [] => true
  | c :: l' => negb (is_name_char3 c) && ascii3 c && negb ((c =? 92) && match l' with d :: _ => d =? 10 | [] => false end)
  end.

Definition scan_dollar3 (s : list rune) : option (list rune * list rune) :=
  match s with
  | [] => None
  | d :: s' =>
    if is_special3 d then Some ([d], s')
    else if is_digit3 d then Some ([d], s')
    else if is_name_start3 d then
      let '(n, r) := name_run3 s in
      if ok_after_name3 r then Some (n, r) else None
    else None
  end.

(* the name inside braces: a special parameter or a run of name characters (digits may come first) *)
Definition brace_name3 (s : list rune) : option (list rune * list rune) :=
  match s with
  | [] => None
  | d :: s' =>
    if is_bspecial3 d then Some ([d], s')
    else let '(n, r) := name_run3 s in
         match n, r with
         | [], _ => None
         | _, c :: _ => if ascii3 c then Some (n, r) else None
         | _, [] => None
         end
  end.

(* the operator after the name: Some (op, rest); op [] when the closing brace follows (not consumed) *)
Definition is_op1 (c : rune) : bool := memb c [45; 61; 63; 43].
Definition is_pct (c : rune) : bool := (c =? 37) || (c =? 35).
Definition brace_op3 (s : list rune) : option (list rune * list rune) :=
  match s with
  | [] => None
  | c :: r =>
    if c =? 125 then Some ([], s)
    else if c =? 58 then
      match r with
      | c2 :: r' => if is_op1 c2 then Some ([58; c2], r') else None
      | [] => None
      end
    else if is_op1 c then Some ([c], r)
    else if is_pct c then
      match r with
      | d :: r' => if d =? c then Some ([c; c], r')
                   else if is_pct d then None
                   else Some ([c], r)
      | [] => None
      end
    else None
  end.

Definition lit_of3 (acc : list rune) : list rq := match acc with [] => [] | _ => [QL (rev acc)] end.
Definition dq_special3 (c : rune) : bool := memb c [36; 96; 34; 92].

Fixpoint scan_sq3 (s : list rune) : option (list rune * list rune) :=
  match s with
  | [] => None
  | c :: s' => if c =? 39 then Some ([], s') else match scan_sq3 s' with Some (t, r) => Some (c :: t, r) | None => None end
  end.

Section Scan.
  (* one level of fuel below: the four scanners of the level below *)
  Variable dq : list rune -> list rune -> option (list rq * list rune).
  Variable bw : list rune -> list rune -> option (list rq * list rune).
  Variable wd : list rune -> list rune -> option (list rq * list rune).

  (* the text after the dollar and the opening brace *)
  Definition with_name (name : list rune) (u : list rune) : option (rq * list rune) :=
    match brace_op3 u with
    | Some (op, u') =>
      match op with
      | [] => match u' with
              | c :: rest => if c =? 125 then Some (QB name [] None, rest) else None
              | [] => None
              end
      | _ :: _ =>
        match bw u' [] with
        | Some (w, c :: rest) => if c =? 125 then Some (QB name op (Some w), rest) else None
        | _ => None
        end
      end
    | None => None
    end.

  Definition plain_name (s : list rune) : option (rq * list rune) :=
    match brace_name3 s with
    | Some (name, u) => with_name name u
    | None => None
    end.

  Definition length_form (t : list rune) : option (rq * list rune) :=
    match brace_name3 t with
    | Some (name, c :: rest) => if c =? 125 then Some (QB name [35] None, rest) else None
    | _ => None
    end.

  Definition brace_body (s : list rune) : option (rq * list rune) :=
    match s with
    | c :: t =>
      if c =? 35 then
        match t with
        | r :: t' =>
          if memb r [58; 61; 43; 37; 125] then with_name [35] t
          else if memb r [35; 63; 45] then
            match t' with
            | x :: rest => if x =? 125 then Some (QB [r] [35] None, rest) else with_name [35] t
            | [] => None
            end
          else length_form t
        | [] => None
        end
      else plain_name s
    | [] => None
    end.

  Definition dollar (s : list rune) : option (rq * list rune) :=
    match s with
    | c :: s' =>
      if c =? 123 then brace_body s'
      else match scan_dollar3 s with Some (n, r) => Some (QP n, r) | None => None end
    | [] => None
    end.

  Definition step_dq (s acc : list rune) : option (list rq * list rune) :=
    match s with
    | [] => None
    | c :: s' =>
      if c =? 34 then Some (lit_of3 acc, s')
      else if c =? 92 then
        match s' with
        | [] => None
        | d :: s'' =>
          if dq_special3 d then
            match dq s'' [] with
            | Some (ps, rest) => Some (lit_of3 acc ++ QQ 92 [QL [d]] :: ps, rest)
            | None => None
            end
          else if d =? 10 then dq s'' acc
          else dq s'' (d :: 92 :: acc)
        end
      else if c =? 36 then
        match dollar s' with
        | Some (p, r) => match dq r [] with Some (ps, rest) => Some (lit_of3 acc ++ p :: ps, rest) | None => None end
        | None => None
        end
      else if c =? 96 then None
      else dq s' (c :: acc)
    end.

  Definition step_bw (s acc : list rune) : option (list rq * list rune) :=
    match s with
    | [] => None
    | c :: s' =>
      if c =? 125 then Some (lit_of3 acc, s)
      else if c =? 92 then
        match s' with
        | [] => None
        | d :: s'' =>
          if d =? 10 then None
          else match bw s'' [] with
               | Some (ps, r) => Some (lit_of3 acc ++ QQ 92 [QL [d]] :: ps, r)
               | None => None
               end
        end
      else if c =? 39 then
        match scan_sq3 s' with
        | Some (t, rest) => match bw rest [] with Some (ps, r) => Some (lit_of3 acc ++ QQ 39 [QL t] :: ps, r) | None => None end
        | None => None
        end
      else if c =? 34 then
        match dq s' [] with
        | Some (v, rest) => match bw rest [] with Some (ps, r) => Some (lit_of3 acc ++ QQ 34 v :: ps, r) | None => None end
        | None => None
        end
      else if c =? 36 then
        match dollar s' with
        | Some (p, r0) => match bw r0 [] with Some (ps, r) => Some (lit_of3 acc ++ p :: ps, r) | None => None end
        | None => None
        end
      else if c =? 96 then None
      else bw s' (c :: acc)
    end.

  Definition step_wd (s acc : list rune) : option (list rq * list rune) :=
    match s with
    | [] => Some (lit_of3 acc, [])
    | c :: s' =>
      if c =? 39 then
        match scan_sq3 s' with
        | Some (t, rest) => match wd rest [] with Some (ps, r) => Some (lit_of3 acc ++ QQ 39 [QL t] :: ps, r) | None => None end
        | None => None
        end
      else if c =? 34 then
        match dq s' [] with
        | Some (v, rest) => match wd rest [] with Some (ps, r) => Some (lit_of3 acc ++ QQ 34 v :: ps, r) | None => None end
        | None => None
        end
      else if c =? 92 then
        match s' with
        | [] => Some (lit_of3 acc ++ [QQ 92 []], [])
        | d :: s'' =>
          if d =? 10 then wd s'' acc
          else match wd s'' [] with
               | Some (ps, r) => Some (lit_of3 acc ++ QQ 92 [QL [d]] :: ps, r)
               | None => None
               end
        end
      else if c =? 36 then
        match dollar s' with
        | Some (p, r0) => match wd r0 [] with Some (ps, r) => Some (lit_of3 acc ++ p :: ps, r) | None => None end
        | None => None
        end
      else if is_blank_or_op3 c then Some (lit_of3 acc, s)
      else if memb c [96; 35] then None
      else wd s' (c :: acc)
    end.
End Scan.

(* the three scanners at a given fuel *)
Fixpoint scanners (fuel : nat) : (list rune -> list rune -> option (list rq * list rune)) *
                                 (list rune -> list rune -> option (list rq * list rune)) *
                                 (list rune -> list rune -> option (list rq * list rune)) :=
  match fuel with
  | O => (fun _ _ => None, fun _ _ => None, fun _ _ => None)
  | S f => let '(dq, bw, wd) := scanners f in (step_dq dq bw, step_bw dq bw, step_wd dq bw wd)
  end.
Definition scan_dq3 (f : nat) := fst (fst (scanners f)).
Definition scan_bw3 (f : nat) := snd (fst (scanners f)).
Definition scan_word3 (f : nat) := snd (scanners f).

(** the printer's notation *)
Definition is_len_form {A} (op : list rune) (w : option A) : bool :=
  match op, w with [o], None => o =? 35 | _, _ => false end.

Fixpoint print_part3 (p : rq) : list rune :=
  let pp := fix pp (l : list rq) : list rune := match l with [] => [] | x :: r => print_part3 x ++ pp r end in
  match p with
  | QL t => t
  | QQ tok v =>
    if tok =? 39 then 39 :: pp v ++ [39]
    else if tok =? 34 then 34 :: pp v ++ [34]
    else if tok =? 92 then 92 :: pp v
    else []
  | QP n => 36 :: n
  | QB n op w =>
    match op with
    | [] => [36; 123] ++ n ++ [125]
    | _ :: _ =>
      if is_len_form op w then [36; 123; 35] ++ n ++ [125]
      else [36; 123] ++ n ++ op ++ match w with Some l => pp l | None => [] end ++ [125]
    end
  end.
Fixpoint print_parts3 (l : list rq) : list rune :=
  match l with [] => [] | x :: r => print_part3 x ++ print_parts3 r end.


(** * Unfolding *)
Lemma scanners_S f :
  scan_dq3 (S f) = step_dq (scan_dq3 f) (scan_bw3 f) /\
  scan_bw3 (S f) = step_bw (scan_dq3 f) (scan_bw3 f) /\
  scan_word3 (S f) = step_wd (scan_dq3 f) (scan_bw3 f) (scan_word3 f).
Proof. unfold scan_dq3, scan_bw3, scan_word3. cbn [scanners]. destruct (scanners f) as [[a b] c]. repeat split. Qed.

Lemma dq_S f : scan_dq3 (S f) = step_dq (scan_dq3 f) (scan_bw3 f). Proof. apply scanners_S. Qed.
Lemma bw_S f : scan_bw3 (S f) = step_bw (scan_dq3 f) (scan_bw3 f). Proof. apply scanners_S. Qed.
Lemma wd_S f : scan_word3 (S f) = step_wd (scan_dq3 f) (scan_bw3 f) (scan_word3 f). Proof. apply scanners_S. Qed.

Lemma print_quote3 tok v : print_part3 (QQ tok v) =
  if tok =? 39 then 39 :: print_parts3 v ++ [39]
  else if tok =? 34 then 34 :: print_parts3 v ++ [34]
  else if tok =? 92 then 92 :: print_parts3 v
  else [].
Proof. reflexivity. Qed.

Lemma print_brace3 n op w : print_part3 (QB n op w) =
  match op with
  | [] => [36; 123] ++ n ++ [125]
  | _ :: _ =>
    if is_len_form op w then [36; 123; 35] ++ n ++ [125]
    else [36; 123] ++ n ++ op ++ match w with Some l => print_parts3 l | None => [] end ++ [125]
  end.
Proof. reflexivity. Qed.

Lemma print_brace_head n op w : exists tl, print_part3 (QB n op w) = 36 :: 123 :: tl.
Proof. rewrite print_brace3. destruct op as [|o op']; [eexists; reflexivity|]. destruct (is_len_form (o :: op') w); eexists; reflexivity. Qed.

Lemma print_app3 a b : print_parts3 (a ++ b) = print_parts3 a ++ print_parts3 b.
Proof. induction a as [|x a IH]; cbn [app print_parts3]; [reflexivity|]. rewrite IH, app_assoc. reflexivity. Qed.

Lemma print_lit_of3 acc : print_parts3 (lit_of3 acc) = rev acc.
Proof. unfold lit_of3. destruct acc as [|c acc]; [reflexivity|]. cbn [print_parts3 print_part3]. apply app_nil_r. Qed.

(** * more fuel does no harm *)
Definition scanner := list rune -> list rune -> option (list rq * list rune).
Definition le_scanner (a b : scanner) : Prop := forall s acc r, a s acc = Some r -> b s acc = Some r.

Lemma with_name_le (b1 b2 : scanner) : le_scanner b1 b2 -> forall n u r, with_name b1 n u = Some r -> with_name b2 n u = Some r.
Proof.
  intros Hb n u r. unfold with_name. destruct (brace_op3 u) as [[op u']|]; [|auto]. destruct op as [|o op']; [auto|].
  destruct (b1 u' []) as [[w rr]|] eqn:E; [|discriminate]. rewrite (Hb _ _ _ E). auto.
Qed.

Lemma brace_body_le (b1 b2 : scanner) : le_scanner b1 b2 -> forall s r, brace_body b1 s = Some r -> brace_body b2 s = Some r.
Proof.
  intros Hb s r. unfold brace_body, plain_name. destruct s as [|c t]; [auto|].
  destruct (c =? 35).
  - destruct t as [|r0 t']; [auto|]. destruct (memb r0 [58; 61; 43; 37; 125]); [apply with_name_le; exact Hb|].
    destruct (memb r0 [35; 63; 45]); [|auto]. destruct t' as [|x rest]; [auto|]. destruct (x =? 125); [auto|apply with_name_le; exact Hb].
  - destruct (brace_name3 (c :: t)) as [[name u]|]; [|auto]. apply with_name_le. exact Hb.
Qed.

Lemma dollar_le (b1 b2 : scanner) : le_scanner b1 b2 -> forall s r, dollar b1 s = Some r -> dollar b2 s = Some r.
Proof.
  intros Hb s r. unfold dollar. destruct s as [|c s']; [auto|]. destruct (c =? 123); [apply brace_body_le; exact Hb|auto].
Qed.

Lemma step_dq_le (d1 d2 b1 b2 : scanner) : le_scanner d1 d2 -> le_scanner b1 b2 -> le_scanner (step_dq d1 b1) (step_dq d2 b2).
Proof.
  intros Hd Hb s acc r. unfold step_dq. destruct s as [|c s']; [auto|].
  destruct (c =? 34); [auto|].
  destruct (c =? 92).
  { destruct s' as [|d s'']; [auto|]. destruct (dq_special3 d).
    - destruct (d1 s'' []) as [[ps rest]|] eqn:E; [|discriminate]. rewrite (Hd _ _ _ E). auto.
    - destruct (d =? 10); apply Hd. }
  destruct (c =? 36).
  { destruct (dollar b1 s') as [[p r0]|] eqn:E; [|discriminate]. rewrite (dollar_le b1 b2 Hb _ _ E).
    destruct (d1 r0 []) as [[ps rest]|] eqn:E2; [|discriminate]. rewrite (Hd _ _ _ E2). auto. }
  destruct (c =? 96); [auto|]. apply Hd.
Qed.

Lemma step_bw_le (d1 d2 b1 b2 : scanner) : le_scanner d1 d2 -> le_scanner b1 b2 -> le_scanner (step_bw d1 b1) (step_bw d2 b2).
Proof.
  intros Hd Hb s acc r. unfold step_bw. destruct s as [|c s']; [auto|].
  destruct (c =? 125); [auto|].
  destruct (c =? 92).
  { destruct s' as [|d s'']; [auto|]. destruct (d =? 10); [auto|].
    destruct (b1 s'' []) as [[ps r1]|] eqn:E; [|discriminate]. rewrite (Hb _ _ _ E). auto. }
  destruct (c =? 39).
  { destruct (scan_sq3 s') as [[t rest]|]; [|auto]. destruct (b1 rest []) as [[ps r1]|] eqn:E; [|discriminate]. rewrite (Hb _ _ _ E). auto. }
  destruct (c =? 34).
  { destruct (d1 s' []) as [[v rest]|] eqn:E1; [|discriminate]. rewrite (Hd _ _ _ E1).
    destruct (b1 rest []) as [[ps r1]|] eqn:E; [|discriminate]. rewrite (Hb _ _ _ E). auto. }
  destruct (c =? 36).
  { destruct (dollar b1 s') as [[p r0]|] eqn:E; [|discriminate]. rewrite (dollar_le b1 b2 Hb _ _ E).
    destruct (b1 r0 []) as [[ps r1]|] eqn:E2; [|discriminate]. rewrite (Hb _ _ _ E2). auto. }
  destruct (c =? 96); [auto|]. apply Hb.
Qed.

Lemma step_wd_le (d1 d2 b1 b2 w1 w2 : scanner) : le_scanner d1 d2 -> le_scanner b1 b2 -> le_scanner w1 w2 ->
  le_scanner (step_wd d1 b1 w1) (step_wd d2 b2 w2).
Proof.
  intros Hd Hb Hw s acc r. unfold step_wd. destruct s as [|c s']; [auto|].
  destruct (c =? 39).
  { destruct (scan_sq3 s') as [[t rest]|]; [|auto]. destruct (w1 rest []) as [[ps r1]|] eqn:E; [|discriminate]. rewrite (Hw _ _ _ E). auto. }
  destruct (c =? 34).
  { destruct (d1 s' []) as [[v rest]|] eqn:E1; [|discriminate]. rewrite (Hd _ _ _ E1).
    destruct (w1 rest []) as [[ps r1]|] eqn:E; [|discriminate]. rewrite (Hw _ _ _ E). auto. }
  destruct (c =? 92).
  { destruct s' as [|d s'']; [auto|]. destruct (d =? 10); [apply Hw|].
    destruct (w1 s'' []) as [[ps r1]|] eqn:E; [|discriminate]. rewrite (Hw _ _ _ E). auto. }
  destruct (c =? 36).
  { destruct (dollar b1 s') as [[p r0]|] eqn:E; [|discriminate]. rewrite (dollar_le b1 b2 Hb _ _ E).
    destruct (w1 r0 []) as [[ps r1]|] eqn:E2; [|discriminate]. rewrite (Hw _ _ _ E2). auto. }
  destruct (is_blank_or_op3 c); [auto|]. destruct (memb c [96; 35]); [auto|]. apply Hw.
Qed.

Lemma scanners_step f : le_scanner (scan_dq3 f) (scan_dq3 (S f)) /\ le_scanner (scan_bw3 f) (scan_bw3 (S f)) /\ le_scanner (scan_word3 f) (scan_word3 (S f)).
Proof.
  induction f as [|f (Hd & Hb & Hw)].
  - repeat split; intros s acc r H; discriminate.
  - split; [|split].
    + rewrite (dq_S (S f)). rewrite (dq_S f) at 1. apply step_dq_le; assumption.
    + rewrite (bw_S (S f)). rewrite (bw_S f) at 1. apply step_bw_le; assumption.
    + rewrite (wd_S (S f)). rewrite (wd_S f) at 1. apply step_wd_le; assumption.
Qed.

Lemma scanners_mono f k : le_scanner (scan_dq3 f) (scan_dq3 (f + k)%nat) /\ le_scanner (scan_bw3 f) (scan_bw3 (f + k)%nat) /\
  le_scanner (scan_word3 f) (scan_word3 (f + k)%nat).
Proof.
  induction k as [|k (Hd & Hb & Hw)].
  - rewrite Nat.add_0_r. repeat split; intros s acc r H; exact H.
  - replace (f + S k)%nat with (S (f + k)) by lia. destruct (scanners_step (f + k)) as (Sd & Sb & Sw).
    repeat split; intros s acc r H; [apply Sd, Hd, H|apply Sb, Hb, H|apply Sw, Hw, H].
Qed.

Lemma dq_mono f k : le_scanner (scan_dq3 f) (scan_dq3 (f + k)%nat). Proof. apply scanners_mono. Qed.
Lemma bw_mono f k : le_scanner (scan_bw3 f) (scan_bw3 (f + k)%nat). Proof. apply scanners_mono. Qed.
Lemma wd_mono f k : le_scanner (scan_word3 f) (scan_word3 (f + k)%nat). Proof. apply scanners_mono. Qed.

(** * the printed form begins with the pending literal *)
Lemma dq_prefix f : forall s acc v r1, scan_dq3 f s acc = Some (v, r1) -> exists tl, print_parts3 v = rev acc ++ tl.
Proof.
  induction f as [|f IH]; intros s acc v r1 H; [discriminate|]. rewrite dq_S in H. unfold step_dq in H.
  destruct s as [|c s']; [discriminate|].
  destruct (c =? 34); [inversion H; subst; exists []; rewrite print_lit_of3, app_nil_r; reflexivity|].
  destruct (c =? 92).
  { destruct s' as [|d s'']; [discriminate|]. destruct (dq_special3 d).
    - destruct (scan_dq3 f s'' []) as [[ps rest]|]; [|discriminate]. inversion H; subst. rewrite print_app3, print_lit_of3. eauto.
    - destruct (d =? 10); [exact (IH _ _ _ _ H)|].
      destruct (IH _ _ _ _ H) as [tl Ht]. exists (92 :: d :: tl). rewrite Ht. cbn [rev]. rewrite <- !app_assoc. reflexivity. }
  destruct (c =? 36).
  { destruct (dollar (scan_bw3 f) s') as [[p r0]|]; [|discriminate].
    destruct (scan_dq3 f r0 []) as [[ps rest]|]; [|discriminate]. inversion H; subst. rewrite print_app3, print_lit_of3. eauto. }
  destruct (c =? 96); [discriminate|].
  destruct (IH _ _ _ _ H) as [tl Ht]. exists (c :: tl). rewrite Ht. cbn [rev]. rewrite <- app_assoc. reflexivity.
Qed.

Lemma bw_prefix f : forall s acc w r, scan_bw3 f s acc = Some (w, r) -> exists tl, print_parts3 w = rev acc ++ tl.
Proof.
  induction f as [|f IH]; intros s acc w r H; [discriminate|]. rewrite bw_S in H. unfold step_bw in H.
  destruct s as [|c s']; [discriminate|].
  destruct (c =? 125); [inversion H; subst; exists []; rewrite print_lit_of3, app_nil_r; reflexivity|].
  destruct (c =? 92).
  { destruct s' as [|d s'']; [discriminate|]. destruct (d =? 10); [discriminate|].
    destruct (scan_bw3 f s'' []) as [[ps r1]|]; [|discriminate]. inversion H; subst. rewrite print_app3, print_lit_of3. eauto. }
  destruct (c =? 39).
  { destruct (scan_sq3 s') as [[t rest]|]; [|discriminate]. destruct (scan_bw3 f rest []) as [[ps r1]|]; [|discriminate].
    inversion H; subst. rewrite print_app3, print_lit_of3. eauto. }
  destruct (c =? 34).
  { destruct (scan_dq3 f s' []) as [[v rest]|]; [|discriminate]. destruct (scan_bw3 f rest []) as [[ps r1]|]; [|discriminate].
    inversion H; subst. rewrite print_app3, print_lit_of3. eauto. }
  destruct (c =? 36).
  { destruct (dollar (scan_bw3 f) s') as [[p r0]|]; [|discriminate]. destruct (scan_bw3 f r0 []) as [[ps r1]|]; [|discriminate].
    inversion H; subst. rewrite print_app3, print_lit_of3. eauto. }
  destruct (c =? 96); [discriminate|].
  destruct (IH _ _ _ _ H) as [tl Ht]. exists (c :: tl). rewrite Ht. cbn [rev]. rewrite <- app_assoc. reflexivity.
Qed.

Lemma wd_prefix f : forall s acc w r, scan_word3 f s acc = Some (w, r) -> exists tl, print_parts3 w ++ r = rev acc ++ tl.
Proof.
  induction f as [|f IH]; intros s acc w r H; [discriminate|]. rewrite wd_S in H. unfold step_wd in H.
  destruct s as [|c s']; [inversion H; subst; exists []; rewrite print_lit_of3; reflexivity|].
  destruct (c =? 39).
  { destruct (scan_sq3 s') as [[t rest]|]; [|discriminate]. destruct (scan_word3 f rest []) as [[ps r1]|]; [|discriminate].
    inversion H; subst. rewrite print_app3, print_lit_of3, <- app_assoc. eauto. }
  destruct (c =? 34).
  { destruct (scan_dq3 f s' []) as [[v rest]|]; [|discriminate]. destruct (scan_word3 f rest []) as [[ps r1]|]; [|discriminate].
    inversion H; subst. rewrite print_app3, print_lit_of3, <- app_assoc. eauto. }
  destruct (c =? 92).
  { destruct s' as [|d s''].
    - inversion H; subst. rewrite print_app3, print_lit_of3, <- app_assoc. eauto.
    - destruct (d =? 10); [exact (IH _ _ _ _ H)|].
      destruct (scan_word3 f s'' []) as [[ps r1]|]; [|discriminate]. inversion H; subst. rewrite print_app3, print_lit_of3, <- app_assoc. eauto. }
  destruct (c =? 36).
  { destruct (dollar (scan_bw3 f) s') as [[p r0]|]; [|discriminate]. destruct (scan_word3 f r0 []) as [[ps r1]|]; [|discriminate].
    inversion H; subst. rewrite print_app3, print_lit_of3, <- app_assoc. eauto. }
  destruct (is_blank_or_op3 c); [inversion H; subst; rewrite print_lit_of3; eauto|].
  destruct (memb c [96; 35]); [discriminate|].
  destruct (IH _ _ _ _ H) as [tl Ht]. exists (c :: tl). rewrite Ht. cbn [rev]. rewrite <- app_assoc. reflexivity.
Qed.

Lemma with_name_form (b : scanner) n u p r : with_name b n u = Some (p, r) -> exists op w, p = QB n op w.
Proof.
  unfold with_name. destruct (brace_op3 u) as [[op u']|]; [|discriminate]. destruct op as [|o op'].
  - destruct u' as [|c rest]; [discriminate|]. destruct (c =? 125); [|discriminate]. intros H; inversion H; subst. eauto.
  - destruct (b u' []) as [[w rr]|]; [|discriminate]. destruct rr as [|c rest]; [discriminate|]. destruct (c =? 125); [|discriminate].
    intros H; inversion H; subst. eauto.
Qed.

Lemma brace_body_form (b : scanner) s p r : brace_body b s = Some (p, r) -> exists n op w, p = QB n op w.
Proof.
  unfold brace_body, plain_name, length_form. destruct s as [|c t]; [discriminate|].
  destruct (c =? 35).
  - destruct t as [|r0 t']; [discriminate|]. destruct (memb r0 [58; 61; 43; 37; 125]).
    + intros H. destruct (with_name_form _ _ _ _ _ H) as (op & w & ->). eauto.
    + destruct (memb r0 [35; 63; 45]).
      * destruct t' as [|x rest]; [discriminate|]. destruct (x =? 125).
        -- intros H; inversion H; subst. eauto.
        -- intros H. destruct (with_name_form _ _ _ _ _ H) as (op & w & ->). eauto.
      * destruct (brace_name3 (r0 :: t')) as [[name u]|]; [|discriminate]. destruct u as [|c0 rest]; [discriminate|].
        destruct (c0 =? 125); [|discriminate]. intros H; inversion H; subst. eauto.
  - destruct (brace_name3 (c :: t)) as [[name u]|]; [|discriminate].
    intros H. destruct (with_name_form _ _ _ _ _ H) as (op & w & ->). eauto.
Qed.

Lemma dollar_head (b : scanner) s p r : dollar b s = Some (p, r) -> exists tl, print_part3 p = 36 :: tl.
Proof.
  unfold dollar. destruct s as [|c s']; [discriminate|]. destruct (c =? 123).
  - intros H. destruct (brace_body_form _ _ _ _ H) as (n & op & w & ->). destruct (print_brace_head n op w) as [tl ->]. eauto.
  - destruct (scan_dollar3 (c :: s')) as [[n rr]|]; [|discriminate]. intros H; inversion H; subst. eexists. reflexivity.
Qed.

(** * the printed text begins like the source text *)
Definition head_ok (s X : list rune) : Prop :=
  match s with
  | [] => X = []
  | c :: s' => exists X', X = c :: X' /\
               ((c =? 92) = true -> match s' with d :: _ => exists X'', X' = d :: X'' | [] => X' = [] end)
  end.

Definition nocont (s : list rune) : bool :=
  match s with c :: d :: _ => negb ((c =? 92) && (d =? 10)) | _ => true end.

Lemma head_ok_plain c s' tl : (c =? 92) = false -> head_ok (c :: s') (c :: tl).
Proof. intros H. exists tl. split; [reflexivity|]. rewrite H. discriminate. Qed.

Lemma wd_head f s w r : scan_word3 f s [] = Some (w, r) -> nocont s = true -> head_ok s (print_parts3 w ++ r).
Proof.
  destruct f as [|f]; [discriminate|]. intros H Hn. rewrite wd_S in H. unfold step_wd in H.
  destruct s as [|c s']; [inversion H; subst; reflexivity|].
  destruct (c =? 39) eqn:E39.
  { destruct (scan_sq3 s') as [[t rest]|]; [|discriminate]. destruct (scan_word3 f rest []) as [[ps r1]|]; [|discriminate].
    inversion H; subst. apply N.eqb_eq in E39. subst c. cbn [lit_of3 app print_parts3]. rewrite print_quote3. cbn. eexists. split; [reflexivity|discriminate]. }
  destruct (c =? 34) eqn:E34.
  { destruct (scan_dq3 f s' []) as [[v rest]|]; [|discriminate]. destruct (scan_word3 f rest []) as [[ps r1]|]; [|discriminate].
    inversion H; subst. apply N.eqb_eq in E34. subst c. cbn [lit_of3 app print_parts3]. rewrite print_quote3. cbn. eexists. split; [reflexivity|discriminate]. }
  destruct (c =? 92) eqn:E92.
  { apply N.eqb_eq in E92. subst c. destruct s' as [|d s''].
    - inversion H; subst. cbn. exists []. split; [reflexivity|]. intros _. reflexivity.
    - cbn [nocont] in Hn. change (92 =? 92) with true in Hn. cbn [andb] in Hn. apply Bool.negb_true_iff in Hn. rewrite Hn in H.
      destruct (scan_word3 f s'' []) as [[ps r1]|]; [|discriminate]. inversion H; subst.
      cbn [lit_of3 app print_parts3]. rewrite print_quote3. cbn. eexists. split; [reflexivity|]. intros _. eexists. reflexivity. }
  destruct (c =? 36) eqn:E36.
  { destruct (dollar (scan_bw3 f) s') as [[p r0]|] eqn:Ed; [|discriminate]. destruct (scan_word3 f r0 []) as [[ps r1]|]; [|discriminate].
    inversion H; subst. apply N.eqb_eq in E36. subst c. cbn [lit_of3 app print_parts3].
    destruct (dollar_head _ _ _ _ Ed) as [tl Hp]. rewrite Hp.
    cbn [app]. eexists. split; [reflexivity|discriminate]. }
  destruct (is_blank_or_op3 c) eqn:Eb.
  { inversion H; subst. cbn [lit_of3 print_parts3 app]. exists s'. split; [reflexivity|]. rewrite E92. discriminate. }
  destruct (memb c [96; 35]); [discriminate|].
  destruct (wd_prefix _ _ _ _ _ H) as [tl Ht]. rewrite Ht. cbn [rev app]. apply head_ok_plain. exact E92.
Qed.

Lemma dq_head f s v r1 Y : scan_dq3 f s [] = Some (v, r1) -> nocont s = true -> head_ok s (print_parts3 v ++ 34 :: Y).
Proof.
  destruct f as [|f]; [discriminate|]. intros H Hn. rewrite dq_S in H. unfold step_dq in H.
  destruct s as [|c s']; [discriminate|].
  destruct (c =? 34) eqn:E34.
  { inversion H; subst. apply N.eqb_eq in E34. subst c. cbn. eexists. split; [reflexivity|discriminate]. }
  destruct (c =? 92) eqn:E92.
  { apply N.eqb_eq in E92. subst c. destruct s' as [|d s'']; [discriminate|].
    cbn [nocont] in Hn. change (92 =? 92) with true in Hn. cbn [andb] in Hn. apply Bool.negb_true_iff in Hn.
    destruct (dq_special3 d).
    - destruct (scan_dq3 f s'' []) as [[ps rest]|]; [|discriminate]. inversion H; subst.
      cbn [lit_of3 app print_parts3]. rewrite print_quote3. cbn. eexists. split; [reflexivity|]. intros _. eexists. reflexivity.
    - rewrite Hn in H. destruct (dq_prefix _ _ _ _ _ H) as [tl Ht]. rewrite Ht. cbn [rev app].
      eexists. split; [reflexivity|]. intros _. eexists. reflexivity. }
  destruct (c =? 36) eqn:E36.
  { destruct (dollar (scan_bw3 f) s') as [[p r0]|] eqn:Ed; [|discriminate]. destruct (scan_dq3 f r0 []) as [[ps rest]|]; [|discriminate].
    inversion H; subst. apply N.eqb_eq in E36. subst c. cbn [lit_of3 app print_parts3].
    destruct (dollar_head _ _ _ _ Ed) as [tl Hp]. rewrite Hp. cbn [app]. eexists. split; [reflexivity|discriminate]. }
  destruct (c =? 96); [discriminate|].
  destruct (dq_prefix _ _ _ _ _ H) as [tl Ht]. rewrite Ht. cbn [rev app]. apply head_ok_plain. exact E92.
Qed.

Lemma bw_head f s w r Y : scan_bw3 f s [] = Some (w, r) -> head_ok s (print_parts3 w ++ 125 :: Y).
Proof.
  destruct f as [|f]; [discriminate|]. intros H. rewrite bw_S in H. unfold step_bw in H.
  destruct s as [|c s']; [discriminate|].
  destruct (c =? 125) eqn:E125.
  { inversion H; subst. apply N.eqb_eq in E125. subst c. cbn. eexists. split; [reflexivity|discriminate]. }
  destruct (c =? 92) eqn:E92.
  { apply N.eqb_eq in E92. subst c. destruct s' as [|d s'']; [discriminate|]. destruct (d =? 10); [discriminate|].
    destruct (scan_bw3 f s'' []) as [[ps r1]|]; [|discriminate]. inversion H; subst.
    cbn [lit_of3 app print_parts3]. rewrite print_quote3. cbn. eexists. split; [reflexivity|]. intros _. eexists. reflexivity. }
  destruct (c =? 39) eqn:E39.
  { destruct (scan_sq3 s') as [[t rest]|]; [|discriminate]. destruct (scan_bw3 f rest []) as [[ps r1]|]; [|discriminate].
    inversion H; subst. apply N.eqb_eq in E39. subst c. cbn [lit_of3 app print_parts3]. rewrite print_quote3. cbn. eexists. split; [reflexivity|discriminate]. }
  destruct (c =? 34) eqn:E34.
  { destruct (scan_dq3 f s' []) as [[v rest]|]; [|discriminate]. destruct (scan_bw3 f rest []) as [[ps r1]|]; [|discriminate].
    inversion H; subst. apply N.eqb_eq in E34. subst c. cbn [lit_of3 app print_parts3]. rewrite print_quote3. cbn. eexists. split; [reflexivity|discriminate]. }
  destruct (c =? 36) eqn:E36.
  { destruct (dollar (scan_bw3 f) s') as [[p r0]|] eqn:Ed; [|discriminate]. destruct (scan_bw3 f r0 []) as [[ps r1]|]; [|discriminate].
    inversion H; subst. apply N.eqb_eq in E36. subst c. cbn [lit_of3 app print_parts3].
    destruct (dollar_head _ _ _ _ Ed) as [tl Hp]. rewrite Hp. cbn [app]. eexists. split; [reflexivity|discriminate]. }
  destruct (c =? 96); [discriminate|].
  destruct (bw_prefix _ _ _ _ _ H) as [tl Ht]. rewrite Ht. cbn [rev app]. apply head_ok_plain. exact E92.
Qed.

(* the result of the brace-word scanner ends where a closing brace stands *)
Lemma bw_rest f : forall s acc w r, scan_bw3 f s acc = Some (w, r) -> exists r', r = 125 :: r'.
Proof.
  induction f as [|f IH]; intros s acc w r H; [discriminate|]. rewrite bw_S in H. unfold step_bw in H.
  destruct s as [|c s']; [discriminate|].
  destruct (c =? 125) eqn:E; [inversion H; subst; apply N.eqb_eq in E; subst; eauto|].
  destruct (c =? 92).
  { destruct s' as [|d s'']; [discriminate|]. destruct (d =? 10); [discriminate|].
    destruct (scan_bw3 f s'' []) as [[ps r1]|] eqn:E2; [|discriminate]. inversion H; subst. exact (IH _ _ _ _ E2). }
  destruct (c =? 39).
  { destruct (scan_sq3 s') as [[t rest]|]; [|discriminate]. destruct (scan_bw3 f rest []) as [[ps r1]|] eqn:E2; [|discriminate].
    inversion H; subst. exact (IH _ _ _ _ E2). }
  destruct (c =? 34).
  { destruct (scan_dq3 f s' []) as [[v rest]|]; [|discriminate]. destruct (scan_bw3 f rest []) as [[ps r1]|] eqn:E2; [|discriminate].
    inversion H; subst. exact (IH _ _ _ _ E2). }
  destruct (c =? 36).
  { destruct (dollar (scan_bw3 f) s') as [[p r0]|]; [|discriminate]. destruct (scan_bw3 f r0 []) as [[ps r1]|] eqn:E2; [|discriminate].
    inversion H; subst. exact (IH _ _ _ _ E2). }
  destruct (c =? 96); [discriminate|]. exact (IH _ _ _ _ H).
Qed.

(* an empty result means the closing brace came first *)
Lemma bw_nonempty f s r : scan_bw3 f s [] = Some ([], r) -> exists s', s = 125 :: s'.
Proof.
  intros H. pose proof (bw_head f s [] r [] H) as Hh. cbn [print_parts3 app] in Hh.
  destruct s as [|c s']; [destruct f; discriminate|]. destruct Hh as (X' & HX & _). inversion HX; subst. eauto.
Qed.

Lemma head_ok_after_name s X : ok_after_name3 s = true -> head_ok s X -> ok_after_name3 X = true.
Proof.
  destruct s as [|c s']; cbn [head_ok]; [intros _ ->; reflexivity|].
  intros Hok (X' & -> & H2). unfold ok_after_name3 in *. destruct (c =? 92) eqn:E92.
  - specialize (H2 eq_refl). destruct s' as [|d s''].
    + subst X'. exact Hok.
    + destruct H2 as [X'' ->]. exact Hok.
  - cbn [andb negb] in *. exact Hok.
Qed.

Lemma ok_nocont s : ok_after_name3 s = true -> nocont s = true.
Proof.
  destruct s as [|c [|d s'']]; try reflexivity. unfold ok_after_name3, nocont. intros H.
  apply Bool.andb_true_iff in H as [_ H]. exact H.
Qed.

(** * names and operators are read back *)
Lemma name_run_spec : forall s n r, name_run3 s = (n, r) ->
  s = n ++ r /\ forallb is_name_char3 n = true /\ match r with c :: _ => is_name_char3 c = false | [] => True end.
Proof.
  induction s as [|c s IH]; intros n r H; cbn [name_run3] in H.
  - inversion H; subst. repeat split.
  - destruct (is_name_char3 c) eqn:E.
    + destruct (name_run3 s) as [n' r'] eqn:En. inversion H; subst. destruct (IH n' r eq_refl) as (-> & Hn & Hr).
      repeat split; [cbn [forallb]; rewrite E; exact Hn|exact Hr].
    + inversion H; subst. repeat split. exact E.
Qed.

Lemma name_run_app n X : forallb is_name_char3 n = true ->
  match X with c :: _ => is_name_char3 c = false | [] => True end -> name_run3 (n ++ X) = (n, X).
Proof.
  induction n as [|c n IH]; intros Hn HX.
  - cbn [app]. destruct X as [|c X]; [reflexivity|]. cbn [name_run3]. rewrite HX. reflexivity.
  - cbn [forallb] in Hn. apply Bool.andb_true_iff in Hn as [Hc Hn]. cbn [app name_run3]. rewrite Hc, (IH Hn HX). reflexivity.
Qed.

Lemma ok_after_name_head X : ok_after_name3 X = true -> match X with c :: _ => is_name_char3 c = false | [] => True end.
Proof.
  destruct X as [|c X]; [trivial|]. unfold ok_after_name3. intros H.
  apply Bool.andb_true_iff in H as [H _]. apply Bool.andb_true_iff in H as [H _]. apply Bool.negb_true_iff in H. exact H.
Qed.

Lemma scan_dollar_ok s n r X : scan_dollar3 s = Some (n, r) ->
  (ok_after_name3 r = true -> ok_after_name3 X = true) -> scan_dollar3 (n ++ X) = Some (n, X).
Proof.
  unfold scan_dollar3. destruct s as [|d s']; [discriminate|].
  destruct (is_special3 d) eqn:Es; [intros H _; inversion H; subst; cbn [app]; rewrite Es; reflexivity|].
  destruct (is_digit3 d) eqn:Ed; [intros H _; inversion H; subst; cbn [app]; rewrite Es, Ed; reflexivity|].
  destruct (is_name_start3 d) eqn:En; [|discriminate].
  destruct (name_run3 (d :: s')) as [n0 r0] eqn:Er. destruct (ok_after_name3 r0) eqn:Eo; [|discriminate].
  intros H HX. inversion H; subst. specialize (HX Eo).
  destruct (name_run_spec _ _ _ Er) as (Hs & Hn & Hr).
  assert (Hd : exists n', n = d :: n').
  { cbn [name_run3] in Er. unfold is_name_char3 in Er at 1. rewrite En in Er. cbn [orb] in Er.
    destruct (name_run3 s') as [n1 r1]. inversion Er; subst. eauto. }
  destruct Hd as [n' ->]. cbn [app]. rewrite Es, Ed, En.
  change (d :: n' ++ X) with ((d :: n') ++ X). rewrite (name_run_app (d :: n') X Hn (ok_after_name_head X HX)), HX. reflexivity.
Qed.

(* what follows a name inside braces: an operator character or the closing brace *)
Definition after_bname (X : list rune) : Prop := exists c X', X = c :: X' /\ is_name_char3 c = false /\ ascii3 c = true.

Lemma brace_name_ok s name u X : brace_name3 s = Some (name, u) -> after_bname X -> brace_name3 (name ++ X) = Some (name, X).
Proof.
  intros H (c & X' & -> & Hc & Ha). unfold brace_name3 in H. destruct s as [|d s']; [discriminate|].
  destruct (is_bspecial3 d) eqn:Eb.
  - inversion H; subst. cbn [app brace_name3]. rewrite Eb. reflexivity.
  - destruct (name_run3 (d :: s')) as [n r] eqn:Er. destruct (name_run_spec _ _ _ Er) as (Hs & Hn & Hr).
    destruct n as [|n0 n']; [discriminate|]. destruct r as [|c0 r']; [discriminate|]. destruct (ascii3 c0); [|discriminate].
    inversion H; subst. assert (Hd : n0 = d) by (cbn [app] in Hs; inversion Hs; reflexivity). subst n0.
    cbn [app brace_name3]. rewrite Eb. change (d :: n' ++ c :: X') with ((d :: n') ++ c :: X').
    rewrite (name_run_app (d :: n') (c :: X') Hn Hc), Ha. reflexivity.
Qed.

Lemma brace_name_nonempty s name u : brace_name3 s = Some (name, u) -> exists d n', name = d :: n' /\ s = name ++ u /\ (d =? 35) = false.
Proof.
  unfold brace_name3. destruct s as [|d s']; [discriminate|].
  destruct (is_bspecial3 d) eqn:Eb.
  - intros H; inversion H; subst. exists d, []. repeat split. destruct (d =? 35) eqn:E; [|reflexivity]. apply N.eqb_eq in E. subst d. discriminate.
  - destruct (name_run3 (d :: s')) as [n r] eqn:Er. destruct (name_run_spec _ _ _ Er) as (Hs & Hn & Hr).
    destruct n as [|n0 n']; [discriminate|]. destruct r as [|c0 r']; [discriminate|]. destruct (ascii3 c0); [|discriminate].
    intros H; inversion H; subst. assert (Hd : n0 = d) by (cbn [app] in Hs; inversion Hs; reflexivity). subst n0.
    exists d, n'. repeat split; [exact Hs|]. cbn [forallb] in Hn. apply Bool.andb_true_iff in Hn as [Hn _].
    destruct (d =? 35) eqn:E; [|reflexivity]. apply N.eqb_eq in E. subst d. discriminate.
Qed.

(* operators *)
Lemma brace_op_form u op u' : brace_op3 u = Some (op, u') ->
  (op = [] /\ u' = u /\ exists r, u = 125 :: r) \/
  (exists c, op = [58; c] /\ is_op1 c = true /\ u = 58 :: c :: u') \/
  (exists c, op = [c] /\ is_op1 c = true /\ u = c :: u') \/
  (exists c, op = [c; c] /\ is_pct c = true /\ u = c :: c :: u') \/
  (exists c d r', op = [c] /\ is_pct c = true /\ is_op1 c = false /\ u' = d :: r' /\ u = c :: u' /\ (d =? c) = false /\ is_pct d = false).
Proof.
  unfold brace_op3. destruct u as [|c r]; [discriminate|].
  destruct (c =? 125) eqn:E125.
  { intros H; inversion H; subst. left. apply N.eqb_eq in E125. subst c. eauto. }
  destruct (c =? 58) eqn:E58.
  { destruct r as [|c2 r']; [discriminate|]. destruct (is_op1 c2) eqn:Eo; [|discriminate]. intros H; inversion H; subst.
    apply N.eqb_eq in E58. subst c. right; left. eauto. }
  destruct (is_op1 c) eqn:Eo.
  { intros H; inversion H; subst. right; right; left. eauto. }
  destruct (is_pct c) eqn:Ep; [|discriminate].
  destruct r as [|d r']; [discriminate|]. destruct (d =? c) eqn:Ed.
  { intros H; inversion H; subst. apply N.eqb_eq in Ed. subst d. right; right; right; left. eauto. }
  destruct (is_pct d) eqn:Epd; [discriminate|]. intros H; inversion H; subst. right; right; right; right. exists c, d, r'. repeat split; auto.
Qed.

Lemma is_op1_not_125 c : is_op1 c = true -> (c =? 125) = false /\ (c =? 58) = false /\ is_name_char3 c = false /\ ascii3 c = true.
Proof.
  unfold is_op1. cbn [memb]. intros H.
  destruct (c =? 45) eqn:E1; [apply N.eqb_eq in E1; subst; repeat split|].
  destruct (c =? 61) eqn:E2; [apply N.eqb_eq in E2; subst; repeat split|].
  destruct (c =? 63) eqn:E3; [apply N.eqb_eq in E3; subst; repeat split|].
  destruct (c =? 43) eqn:E4; [apply N.eqb_eq in E4; subst; repeat split|]. discriminate.
Qed.

Lemma is_pct_facts c : is_pct c = true -> (c =? 125) = false /\ (c =? 58) = false /\ is_name_char3 c = false /\ ascii3 c = true.
Proof.
  unfold is_pct. intros H. apply Bool.orb_true_iff in H as [H|H]; apply N.eqb_eq in H; subst; repeat split.
Qed.

(* the operator is read back when what follows it begins like what followed it in the source *)
Lemma brace_op_ok u op u' X : brace_op3 u = Some (op, u') -> op <> [] -> head_ok u' X -> u' <> [] -> brace_op3 (op ++ X) = Some (op, X).
Proof.
  intros H Hne Hh Hu. destruct (brace_op_form _ _ _ H) as [(-> & _)|[(c & -> & Hc & _)|[(c & -> & Hc & _)|[(c & -> & Hc & _)|(c & d & r' & -> & Hp & Ho & -> & _ & Hdc & Hpd)]]]].
  - congruence.
  - cbn [app brace_op3]. change (58 =? 125) with false. change (58 =? 58) with true. cbv iota. rewrite Hc. reflexivity.
  - destruct (is_op1_not_125 c Hc) as (H1 & H2 & _). cbn [app brace_op3]. rewrite H1, H2, Hc. reflexivity.
  - destruct (is_pct_facts c Hc) as (H1 & H2 & _). cbn [app brace_op3]. rewrite H1, H2.
    destruct (is_op1 c) eqn:Eo.
    + (* cannot be: pct characters are not in the first group *)
      unfold is_pct in Hc. apply Bool.orb_true_iff in Hc as [Hc|Hc]; apply N.eqb_eq in Hc; subst c; discriminate.
    + rewrite Hc, N.eqb_refl. reflexivity.
  - destruct (is_pct_facts c Hp) as (H1 & H2 & _). destruct Hh as (X' & -> & _).
    cbn [app brace_op3]. rewrite H1, H2, Ho, Hp, Hdc, Hpd. reflexivity.
Qed.

(** * braced expansions are read back *)
Definition bwplain (c : rune) : bool := negb ((c =? 125) || (c =? 92) || (c =? 39) || (c =? 34) || (c =? 36) || (c =? 96)).

Lemma bw_nil f acc : scan_bw3 f [] acc = None.
Proof. destruct f; [reflexivity|]. rewrite bw_S. reflexivity. Qed.

Definition R_bw (f : nat) : Prop := forall s acc w r, forallb bwplain acc = true -> scan_bw3 f s acc = Some (w, r) ->
  forall Y, exists F, scan_bw3 F (print_parts3 w ++ 125 :: Y) [] = Some (w, 125 :: Y).

Definition op_tail (op : list rune) (w : option (list rq)) : list rune :=
  match op with
  | [] => [125]
  | _ :: _ => op ++ match w with Some l => print_parts3 l | None => [] end ++ [125]
  end.

Lemma with_name_rescan f (IHb : R_bw f) name u p rest :
  with_name (scan_bw3 f) name u = Some (p, rest) ->
  exists op w, p = QB name op w /\ is_len_form op w = false /\
    (forall X, exists F, with_name (scan_bw3 F) name (op_tail op w ++ X) = Some (p, X)) /\
    (* the first characters of the source and of the printed text *)
    (forall X, match u, op_tail op w ++ X with
               | a :: u1, b :: v1 => a = b /\ (forall x u2, u1 = x :: u2 -> (x =? 125) = false -> is_op1 a = true \/ is_pct a = true ->
                                                  exists y v2, v1 = y :: v2 /\ (y =? 125) = false)
               | _, _ => False end) /\
    (forall X, after_bname (op_tail op w ++ X)).
Proof.
  unfold with_name. destruct (brace_op3 u) as [[op u']|] eqn:Eop; [|discriminate]. destruct op as [|o op'].
  - destruct u' as [|c rest0]; [discriminate|]. destruct (c =? 125) eqn:Ec; [|discriminate]. intros H; inversion H; subst.
    apply N.eqb_eq in Ec. subst c. exists [], None. split; [reflexivity|]. split; [reflexivity|].
    destruct (brace_op_form _ _ _ Eop) as [(_ & Hu & _)|[(c & Hc & _)|[(c & Hc & _)|[(c & Hc & _)|(c & d & r' & Hc & _)]]]]; try discriminate.
    subst u. split; [|split].
    + intros X. exists 0%nat. cbn [op_tail app]. unfold brace_op3. change (125 =? 125) with true. cbv iota. reflexivity.
    + intros X. cbn [op_tail app]. split; [reflexivity|]. intros x u2 _ _ [Ho|Hp]; discriminate.
    + intros X. exists 125, X. repeat split.
  - destruct (scan_bw3 f u' []) as [[w rr]|] eqn:Eb; [|discriminate]. destruct rr as [|c rest0]; [discriminate|].
    destruct (c =? 125) eqn:Ec; [|discriminate]. intros H; inversion H; subst. apply N.eqb_eq in Ec. subst c.
    exists (o :: op'), (Some w). split; [reflexivity|]. split; [destruct op'; reflexivity|].
    assert (Hu' : u' <> []) by (intros ->; rewrite bw_nil in Eb; discriminate).
    split; [|split].
    + intros X. destruct (IHb u' [] w _ eq_refl Eb X) as [F HF]. exists F. cbn [op_tail]. rewrite <- !app_assoc.
      rewrite (brace_op_ok u (o :: op') u' (print_parts3 w ++ [125] ++ X) Eop ltac:(discriminate)); [|exact (bw_head f u' w _ X Eb)|exact Hu'].
      cbn [app] in HF |- *. rewrite HF. change (125 =? 125) with true. reflexivity.
    + intros X. cbn [op_tail].
      destruct (brace_op_form _ _ _ Eop) as [(Hc & _)|[(c & Hc & Ho1 & Hu)|[(c & Hc & Ho1 & Hu)|[(c & Hc & Hp & Hu)|(c & d & r' & Hc & Hp & Ho & Hd & Hu & Hdc & Hpd)]]]]; try discriminate;
        inversion Hc; subst; cbn [app].
      * split; [reflexivity|]. intros x u2 Hx Hx125 [Ho|Hp]; discriminate.
      * split; [reflexivity|]. intros x u2 Hx Hx125 _. subst u'.
        pose proof (bw_head f (x :: u2) w _ X Eb) as (X' & HX & _). rewrite <- app_assoc. cbn [app] in HX |- *. rewrite HX. eauto.
      * split; [reflexivity|]. intros x u2 Hx Hx125 _. inversion Hx; subst x. destruct (is_pct_facts c Hp) as (H1 & _). eauto.
      * split; [reflexivity|]. intros x u2 Hx Hx125 _. inversion Hx; subst.
        pose proof (bw_head f (x :: u2) w _ X Eb) as (X' & HX & _). rewrite <- app_assoc. cbn [app] in HX |- *. rewrite HX. eauto.
    + intros X. cbn [op_tail].
      destruct (brace_op_form _ _ _ Eop) as [(Hc & _)|[(c & Hc & Ho1 & Hu)|[(c & Hc & Ho1 & Hu)|[(c & Hc & Hp & Hu)|(c & d & r' & Hc & Hp & Ho & Hd & Hu & Hdc & Hpd)]]]]; try discriminate;
        inversion Hc; subst; cbn [app]; eexists; eexists; (split; [reflexivity|]).
      * split; reflexivity.
      * destruct (is_op1_not_125 c Ho1) as (_ & _ & H3 & H4). split; assumption.
      * destruct (is_pct_facts c Hp) as (_ & _ & H3 & H4). split; assumption.
      * destruct (is_pct_facts c Hp) as (_ & _ & H3 & H4). split; assumption.
Qed.

Lemma print_brace_tail n op w : is_len_form op w = false -> print_part3 (QB n op w) = [36; 123] ++ n ++ op_tail op w.
Proof. intros H. rewrite print_brace3. unfold op_tail. destruct op as [|o op']; [reflexivity|]. rewrite H. reflexivity. Qed.

Lemma brace_body_rescan f (IHb : R_bw f) s p rest :
  brace_body (scan_bw3 f) s = Some (p, rest) ->
  exists tl, print_part3 p = 36 :: 123 :: tl /\ forall X, exists F, brace_body (scan_bw3 F) (tl ++ X) = Some (p, X).
Proof.
  unfold brace_body. destruct s as [|c t]; [discriminate|]. destruct (c =? 35) eqn:E35.
  - destruct t as [|r t']; [discriminate|].
    destruct (memb r [58; 61; 43; 37; 125]) eqn:M1.
    { intros H. destruct (with_name_rescan f IHb [35] (r :: t') p rest H) as (op & w & -> & Hl & Hr & Hh & _).
      exists ([35] ++ op_tail op w). split; [rewrite (print_brace_tail _ _ _ Hl); reflexivity|].
      intros X. destruct (Hr X) as [F HF]. exists F. specialize (Hh X). rewrite <- app_assoc. cbn [app].
      destruct (op_tail op w ++ X) as [|b v1] eqn:Ev; [contradiction|]. destruct Hh as [<- _].
      change (35 =? 35) with true. cbv iota. rewrite M1. exact HF. }
    destruct (memb r [35; 63; 45]) eqn:M2.
    { destruct t' as [|x rest0]; [discriminate|]. destruct (x =? 125) eqn:Ex.
      - intros H; inversion H; subst. exists [35; r; 125]. split; [reflexivity|]. intros X. exists 0%nat.
        cbn [app]. change (35 =? 35) with true. cbv iota. rewrite M1, M2. change (125 =? 125) with true. reflexivity.
      - intros H. destruct (with_name_rescan f IHb [35] (r :: x :: rest0) p rest H) as (op & w & -> & Hl & Hr & Hh & _).
        exists ([35] ++ op_tail op w). split; [rewrite (print_brace_tail _ _ _ Hl); reflexivity|].
        intros X. destruct (Hr X) as [F HF]. exists F. specialize (Hh X). rewrite <- app_assoc. cbn [app].
        destruct (op_tail op w ++ X) as [|b v1] eqn:Ev; [contradiction|]. destruct Hh as [<- Hh2].
        assert (Hro : is_op1 r = true \/ is_pct r = true).
        { unfold is_op1, is_pct. cbn [memb] in M2 |- *. destruct (r =? 35); [right; apply Bool.orb_true_r|]. destruct (r =? 63); [left; rewrite ?Bool.orb_true_r; reflexivity|].
          destruct (r =? 45); [left; reflexivity|discriminate]. }
        destruct (Hh2 x rest0 eq_refl Ex Hro) as (y & v2 & -> & Hy).
        change (35 =? 35) with true. cbv iota. rewrite M1, M2, Hy. exact HF. }
    unfold length_form. destruct (brace_name3 (r :: t')) as [[name u]|] eqn:En; [|discriminate].
    destruct u as [|c0 rest0]; [discriminate|]. destruct (c0 =? 125) eqn:Ec0; [|discriminate]. intros H; inversion H; subst.
    destruct (brace_name_nonempty _ _ _ En) as (d & n' & -> & Hs & Hd). cbn [app] in Hs. inversion Hs; subst d.
    exists ([35] ++ (r :: n') ++ [125]). split; [reflexivity|]. intros X. exists 0%nat. rewrite <- !app_assoc. cbn [app].
    change (35 =? 35) with true. cbv iota. rewrite M1, M2. unfold length_form.
    change (r :: n' ++ 125 :: X) with ((r :: n') ++ 125 :: X).
    rewrite (brace_name_ok _ _ _ (125 :: X) En); [change (125 =? 125) with true; reflexivity|]. exists 125, X. repeat split.
  - unfold plain_name. destruct (brace_name3 (c :: t)) as [[name u]|] eqn:En; [|discriminate]. intros H.
    destruct (with_name_rescan f IHb name u p rest H) as (op & w & -> & Hl & Hr & _ & Ha).
    destruct (brace_name_nonempty _ _ _ En) as (d & n' & -> & Hs & Hd). cbn [app] in Hs. inversion Hs; subst d.
    exists ((c :: n') ++ op_tail op w). split; [rewrite (print_brace_tail _ _ _ Hl); reflexivity|].
    intros X. destruct (Hr X) as [F HF]. exists F. rewrite <- app_assoc. cbn [app]. rewrite E35. unfold plain_name.
    change (c :: n' ++ op_tail op w ++ X) with ((c :: n') ++ op_tail op w ++ X).
    rewrite (brace_name_ok _ _ _ (op_tail op w ++ X) En (Ha X)). exact HF.
Qed.

(* what follows the dollar *)
Lemma dollar_rescan f (IHb : R_bw f) s p r :
  dollar (scan_bw3 f) s = Some (p, r) ->
  exists tl, print_part3 p = 36 :: tl /\
    forall X, (ok_after_name3 r = true -> ok_after_name3 X = true) -> exists F, dollar (scan_bw3 F) (tl ++ X) = Some (p, X).
Proof.
  unfold dollar. destruct s as [|c s']; [discriminate|]. destruct (c =? 123) eqn:E.
  - intros H. destruct (brace_body_rescan f IHb s' p r H) as (tl & Hp & Hr). exists (123 :: tl). split; [exact Hp|].
    intros X _. destruct (Hr X) as [F HF]. exists F. cbn [app]. change (123 =? 123) with true. exact HF.
  - destruct (scan_dollar3 (c :: s')) as [[n rr]|] eqn:Es; [|discriminate]. intros H; inversion H; subst.
    exists n. split; [reflexivity|]. intros X HX. exists 0%nat.
    pose proof (scan_dollar_ok _ _ _ X Es HX) as Hok.
    (* the name does not begin with an opening brace *)
    assert (Hn : exists d n', n = d :: n' /\ (d =? 123) = false).
    { unfold scan_dollar3 in Es. destruct (is_special3 c); [inversion Es; subst; eauto|]. destruct (is_digit3 c); [inversion Es; subst; eauto|].
      destruct (is_name_start3 c) eqn:Ens; [|discriminate]. destruct (name_run3 (c :: s')) as [n0 r0] eqn:Er.
      destruct (ok_after_name3 r0); [|discriminate]. inversion Es; subst.
      cbn [name_run3] in Er. unfold is_name_char3 in Er at 1. rewrite Ens in Er. cbn [orb] in Er. destruct (name_run3 s') as [n1 r1]. inversion Er; subst. eauto. }
    destruct Hn as (d & n' & -> & Hd). cbn [app] in Hok |- *. rewrite Hd, Hok. reflexivity.
Qed.

(** * literals are read back *)
Definition plain (c : rune) : bool :=
  negb ((c =? 39) || (c =? 34) || (c =? 92) || (c =? 36) || is_blank_or_op3 c || memb c [96; 35]).

Lemma plain_inv c : plain c = true ->
  (c =? 39) = false /\ (c =? 34) = false /\ (c =? 92) = false /\ (c =? 36) = false /\ is_blank_or_op3 c = false /\ memb c [96; 35] = false.
Proof.
  unfold plain. intros H. apply Bool.negb_true_iff in H.
  apply Bool.orb_false_iff in H as [H H6]. apply Bool.orb_false_iff in H as [H H5]. apply Bool.orb_false_iff in H as [H H4].
  apply Bool.orb_false_iff in H as [H H3]. apply Bool.orb_false_iff in H as [H1 H2]. auto 6.
Qed.

Lemma wd_step_plain f c s acc : plain c = true -> scan_word3 (S f) (c :: s) acc = scan_word3 f s (c :: acc).
Proof.
  intros H. destruct (plain_inv c H) as (H1 & H2 & H3 & H4 & H5 & H6).
  rewrite wd_S. unfold step_wd. rewrite H1, H2, H3, H4, H5, H6. reflexivity.
Qed.

Lemma wd_scan_plain pre : forall f X acc, forallb plain pre = true ->
  scan_word3 (length pre + f) (pre ++ X) acc = scan_word3 f X (rev pre ++ acc).
Proof.
  induction pre as [|c pre IH]; intros f X acc H; [reflexivity|].
  cbn [forallb] in H. apply Bool.andb_true_iff in H as [Hc H].
  cbn [length plus app]. rewrite (wd_step_plain _ c _ _ Hc), (IH f X (c :: acc) H).
  cbn [rev]. rewrite <- app_assoc. reflexivity.
Qed.

Lemma forallb_rev3 {A} (g : A -> bool) a : forallb g a = true -> forallb g (rev a) = true.
Proof. intros H. apply forallb_forall. intros x Hx. apply in_rev in Hx. exact (proj1 (forallb_forall _ _) H x Hx). Qed.

Lemma wd_rescan_acc acc f X : forallb plain acc = true ->
  scan_word3 (length (rev acc) + f) (rev acc ++ X) [] = scan_word3 f X acc.
Proof. intros H. rewrite (wd_scan_plain (rev acc) f X [] (forallb_rev3 _ acc H)), rev_involutive, app_nil_r. reflexivity. Qed.

Lemma bwplain_inv c : bwplain c = true ->
  (c =? 125) = false /\ (c =? 92) = false /\ (c =? 39) = false /\ (c =? 34) = false /\ (c =? 36) = false /\ (c =? 96) = false.
Proof.
  unfold bwplain. intros H. apply Bool.negb_true_iff in H.
  apply Bool.orb_false_iff in H as [H H6]. apply Bool.orb_false_iff in H as [H H5]. apply Bool.orb_false_iff in H as [H H4].
  apply Bool.orb_false_iff in H as [H H3]. apply Bool.orb_false_iff in H as [H1 H2]. auto 6.
Qed.

Lemma bw_step_plain f c s acc : bwplain c = true -> scan_bw3 (S f) (c :: s) acc = scan_bw3 f s (c :: acc).
Proof.
  intros H. destruct (bwplain_inv c H) as (H1 & H2 & H3 & H4 & H5 & H6).
  rewrite bw_S. unfold step_bw. rewrite H1, H2, H3, H4, H5, H6. reflexivity.
Qed.

Lemma bw_scan_plain pre : forall f X acc, forallb bwplain pre = true ->
  scan_bw3 (length pre + f) (pre ++ X) acc = scan_bw3 f X (rev pre ++ acc).
Proof.
  induction pre as [|c pre IH]; intros f X acc H; [reflexivity|].
  cbn [forallb] in H. apply Bool.andb_true_iff in H as [Hc H].
  cbn [length plus app]. rewrite (bw_step_plain _ c _ _ Hc), (IH f X (c :: acc) H).
  cbn [rev]. rewrite <- app_assoc. reflexivity.
Qed.

Lemma bw_rescan_acc acc f X : forallb bwplain acc = true ->
  scan_bw3 (length (rev acc) + f) (rev acc ++ X) [] = scan_bw3 f X acc.
Proof. intros H. rewrite (bw_scan_plain (rev acc) f X [] (forallb_rev3 _ acc H)), rev_involutive, app_nil_r. reflexivity. Qed.

Definition dqplain (c : rune) : bool := negb ((c =? 34) || (c =? 92) || (c =? 36) || (c =? 96)).

Inductive dqlit : list rune -> Prop :=
| dql_nil : dqlit []
| dql_plain c r : dqplain c = true -> dqlit r -> dqlit (c :: r)
| dql_esc d r : dq_special3 d = false -> (d =? 10) = false -> dqlit r -> dqlit (92 :: d :: r).

Lemma dqlit_app a b : dqlit a -> dqlit b -> dqlit (a ++ b).
Proof. intros Ha Hb. induction Ha; cbn [app]; [exact Hb|apply dql_plain; assumption|apply dql_esc; assumption]. Qed.

Lemma dqplain_inv c : dqplain c = true -> (c =? 34) = false /\ (c =? 92) = false /\ (c =? 36) = false /\ (c =? 96) = false.
Proof.
  unfold dqplain. intros H. apply Bool.negb_true_iff in H.
  apply Bool.orb_false_iff in H as [H H4]. apply Bool.orb_false_iff in H as [H H3]. apply Bool.orb_false_iff in H as [H1 H2]. auto.
Qed.

Lemma dq_step_plain f c s acc : dqplain c = true -> scan_dq3 (S f) (c :: s) acc = scan_dq3 f s (c :: acc).
Proof. intros Hc. destruct (dqplain_inv c Hc) as (H1 & H2 & H3 & H4). rewrite dq_S. unfold step_dq. rewrite H1, H2, H3, H4. reflexivity. Qed.

Lemma dq_step_esc f d s acc : dq_special3 d = false -> (d =? 10) = false ->
  scan_dq3 (S f) (92 :: d :: s) acc = scan_dq3 f s (d :: 92 :: acc).
Proof. intros Hd Hn. rewrite dq_S. unfold step_dq. change (92 =? 34) with false. change (92 =? 92) with true. cbv iota. rewrite Hd, Hn. reflexivity. Qed.

Lemma scan_dq_lit L : dqlit L -> forall X acc f r, scan_dq3 f X (rev L ++ acc) = Some r -> scan_dq3 (length L + f) (L ++ X) acc = Some r.
Proof.
  induction 1 as [|c r0 Hc Hr IH|d r0 Hd Hn Hr IH]; intros X acc f r H.
  - exact H.
  - cbn [length plus app]. rewrite (dq_step_plain _ c _ _ Hc). apply IH. cbn [rev] in H. rewrite <- app_assoc in H. exact H.
  - cbn [length app]. replace (S (S (length r0)) + f)%nat with (S ((length r0 + f) + 1)) by lia.
    rewrite (dq_step_esc _ d _ _ Hd Hn). apply dq_mono. apply IH.
    cbn [rev] in H. rewrite <- !app_assoc in H. exact H.
Qed.

Lemma dq_rescan_acc acc X f r : dqlit (rev acc) -> scan_dq3 f X acc = Some r -> scan_dq3 (length (rev acc) + f) (rev acc ++ X) [] = Some r.
Proof. intros Hd H. apply (scan_dq_lit (rev acc) Hd). rewrite rev_involutive, app_nil_r. exact H. Qed.

Lemma scan_sq_inv3 : forall s t r, scan_sq3 s = Some (t, r) -> s = t ++ 39 :: r /\ forallb (fun c => negb (c =? 39)) t = true.
Proof.
  induction s as [|c s IH]; intros t r H; cbn [scan_sq3] in H; [discriminate|].
  destruct (c =? 39) eqn:E.
  - inversion H; subst. apply N.eqb_eq in E. subst c. split; reflexivity.
  - destruct (scan_sq3 s) as [[t' r']|] eqn:Es; [|discriminate]. inversion H; subst.
    destruct (IH t' r eq_refl) as [-> Hn]. split; [reflexivity|]. cbn [forallb]. rewrite E. exact Hn.
Qed.

Lemma scan_sq_ok3 s rest : forallb (fun c => negb (c =? 39)) s = true -> scan_sq3 (s ++ 39 :: rest) = Some (s, rest).
Proof.
  induction s as [|c s IH]; intros H; cbn [app scan_sq3]; [reflexivity|].
  cbn [forallb] in H. apply Bool.andb_true_iff in H as [Hc H]. apply Bool.negb_true_iff in Hc. rewrite Hc, (IH H). reflexivity.
Qed.

(** * the three scanners read back what they returned *)
Definition R_dq (f : nat) : Prop := forall s acc v r1, dqlit (rev acc) -> scan_dq3 f s acc = Some (v, r1) ->
  forall Y, exists F, scan_dq3 F (print_parts3 v ++ 34 :: Y) [] = Some (v, Y).
Definition R_wd (f : nat) : Prop := forall s acc w rest, forallb plain acc = true -> scan_word3 f s acc = Some (w, rest) ->
  exists F, scan_word3 F (print_parts3 w ++ rest) [] = Some (w, rest).

Lemma dollar_mono f k s r : dollar (scan_bw3 f) s = Some r -> dollar (scan_bw3 (f + k)%nat) s = Some r.
Proof. apply dollar_le. apply bw_mono. Qed.

Lemma R_dq_step f : R_dq f -> R_bw f -> R_dq (S f).
Proof.
  intros IHd IHb s acc v r1 Hd H Y. rewrite dq_S in H. unfold step_dq in H.
  destruct s as [|c s']; [discriminate|].
  destruct (c =? 34) eqn:E34.
  { inversion H; subst. rewrite print_lit_of3. exists (length (rev acc) + 1)%nat. apply (dq_rescan_acc acc _ 1 _ Hd).
    rewrite dq_S. unfold step_dq. change (34 =? 34) with true. reflexivity. }
  destruct (c =? 92) eqn:E92.
  { destruct s' as [|d s'']; [discriminate|]. destruct (dq_special3 d) eqn:Esp.
    - destruct (scan_dq3 f s'' []) as [[ps rest]|] eqn:E2; [|discriminate]. inversion H; subst.
      destruct (IHd s'' [] ps r1 dql_nil E2 Y) as [F1 HF].
      exists (length (rev acc) + S F1)%nat.
      rewrite print_app3, print_lit_of3. cbn [print_parts3]. rewrite print_quote3.
      change (92 =? 39) with false. change (92 =? 34) with false. change (92 =? 92) with true. cbv iota.
      cbn [print_parts3 print_part3]. rewrite app_nil_r, <- !app_assoc.
      apply (dq_rescan_acc acc _ (S F1) _ Hd).
      rewrite dq_S. unfold step_dq. cbn [app]. change (92 =? 34) with false. change (92 =? 92) with true. cbv iota. rewrite Esp, HF. reflexivity.
    - destruct (d =? 10) eqn:E10.
      + destruct (IHd s'' acc v r1 Hd H Y) as [F HF]. exists F. exact HF.
      + refine (IHd s'' (d :: 92 :: acc) v r1 _ H Y).
        cbn [rev]. rewrite <- app_assoc. apply dqlit_app; [exact Hd|]. cbn [app]. apply dql_esc; [exact Esp|exact E10|apply dql_nil]. }
  destruct (c =? 36) eqn:E36.
  { destruct (dollar (scan_bw3 f) s') as [[p r0]|] eqn:Esd; [|discriminate].
    destruct (scan_dq3 f r0 []) as [[ps rest]|] eqn:E2; [|discriminate]. inversion H; subst.
    destruct (IHd r0 [] ps r1 dql_nil E2 Y) as [F1 HF].
    destruct (dollar_rescan f IHb s' p r0 Esd) as (tl & Hp & Hr).
    destruct (Hr (print_parts3 ps ++ 34 :: Y)) as [F2 HF2].
    { intros Hok. exact (head_ok_after_name _ _ Hok (dq_head f r0 ps r1 Y E2 (ok_nocont _ Hok))). }
    exists (length (rev acc) + S (F1 + F2))%nat.
    rewrite print_app3, print_lit_of3. cbn [print_parts3]. rewrite Hp. rewrite <- !app_assoc.
    apply (dq_rescan_acc acc _ (S (F1 + F2)) _ Hd).
    rewrite dq_S. unfold step_dq. cbn [app]. change (36 =? 34) with false. change (36 =? 92) with false. change (36 =? 36) with true. cbv iota.
    replace (F1 + F2)%nat with (F2 + F1)%nat at 1 by lia. rewrite (dollar_mono F2 F1 _ _ HF2).
    rewrite (dq_mono F1 F2 _ _ _ HF). reflexivity. }
  destruct (c =? 96) eqn:E96; [discriminate|].
  refine (IHd s' (c :: acc) v r1 _ H Y).
  cbn [rev]. apply dqlit_app; [exact Hd|]. apply dql_plain; [|apply dql_nil].
  unfold dqplain. rewrite E34, E92, E36, E96. reflexivity.
Qed.

Lemma R_bw_step f : R_dq f -> R_bw f -> R_bw (S f).
Proof.
  intros IHd IHb s acc w r Hp H Y. rewrite bw_S in H. unfold step_bw in H.
  destruct s as [|c s']; [discriminate|].
  destruct (c =? 125) eqn:E125.
  { inversion H; subst. rewrite print_lit_of3. exists (length (rev acc) + 1)%nat. rewrite (bw_rescan_acc acc 1 _ Hp).
    rewrite bw_S. unfold step_bw. change (125 =? 125) with true. reflexivity. }
  destruct (c =? 92) eqn:E92.
  { destruct s' as [|d s'']; [discriminate|]. destruct (d =? 10) eqn:E10; [discriminate|].
    destruct (scan_bw3 f s'' []) as [[ps r1]|] eqn:E2; [|discriminate]. inversion H; subst.
    destruct (IHb s'' [] ps r eq_refl E2 Y) as [F1 HF].
    exists (length (rev acc) + S F1)%nat.
    rewrite print_app3, print_lit_of3. cbn [print_parts3]. rewrite print_quote3.
    change (92 =? 39) with false. change (92 =? 34) with false. change (92 =? 92) with true. cbv iota.
    cbn [print_parts3 print_part3]. rewrite app_nil_r, <- !app_assoc. rewrite (bw_rescan_acc acc (S F1) _ Hp).
    rewrite bw_S. unfold step_bw. cbn [app]. change (92 =? 125) with false. change (92 =? 92) with true. cbv iota. rewrite E10, HF. reflexivity. }
  destruct (c =? 39) eqn:E39.
  { destruct (scan_sq3 s') as [[t rest]|] eqn:Esq; [|discriminate]. destruct (scan_bw3 f rest []) as [[ps r1]|] eqn:E2; [|discriminate].
    inversion H; subst. destruct (scan_sq_inv3 _ _ _ Esq) as [-> Hn].
    destruct (IHb rest [] ps r eq_refl E2 Y) as [F1 HF].
    exists (length (rev acc) + S F1)%nat.
    rewrite print_app3, print_lit_of3. cbn [print_parts3]. rewrite print_quote3. change (39 =? 39) with true. cbv iota.
    cbn [print_parts3 print_part3]. rewrite app_nil_r, <- !app_assoc. rewrite (bw_rescan_acc acc (S F1) _ Hp).
    rewrite bw_S. unfold step_bw. cbn [app]. change (39 =? 125) with false. change (39 =? 92) with false. change (39 =? 39) with true. cbv iota.
    rewrite <- app_assoc. cbn [app]. rewrite (scan_sq_ok3 t _ Hn), HF. reflexivity. }
  destruct (c =? 34) eqn:E34.
  { destruct (scan_dq3 f s' []) as [[v rest]|] eqn:Edq; [|discriminate]. destruct (scan_bw3 f rest []) as [[ps r1]|] eqn:E2; [|discriminate].
    inversion H; subst.
    destruct (IHb rest [] ps r eq_refl E2 Y) as [F1 HF].
    destruct (IHd s' [] v rest dql_nil Edq (print_parts3 ps ++ 125 :: Y)) as [F2 HF2].
    exists (length (rev acc) + S (F1 + F2))%nat.
    rewrite print_app3, print_lit_of3. cbn [print_parts3]. rewrite print_quote3.
    change (34 =? 39) with false. change (34 =? 34) with true. cbv iota. rewrite <- !app_assoc. rewrite (bw_rescan_acc acc (S (F1 + F2)) _ Hp).
    rewrite bw_S. unfold step_bw. cbn [app]. change (34 =? 125) with false. change (34 =? 92) with false. change (34 =? 39) with false.
    change (34 =? 34) with true. cbv iota. rewrite <- app_assoc. cbn [app].
    replace (F1 + F2)%nat with (F2 + F1)%nat at 1 by lia. rewrite (dq_mono F2 F1 _ _ _ HF2). rewrite (bw_mono F1 F2 _ _ _ HF). reflexivity. }
  destruct (c =? 36) eqn:E36.
  { destruct (dollar (scan_bw3 f) s') as [[p r0]|] eqn:Esd; [|discriminate].
    destruct (scan_bw3 f r0 []) as [[ps r1]|] eqn:E2; [|discriminate]. inversion H; subst.
    destruct (IHb r0 [] ps r eq_refl E2 Y) as [F1 HF].
    destruct (dollar_rescan f IHb s' p r0 Esd) as (tl & Hpp & Hr).
    destruct (Hr (print_parts3 ps ++ 125 :: Y)) as [F2 HF2].
    { intros Hok. exact (head_ok_after_name _ _ Hok (bw_head f r0 ps r Y E2)). }
    exists (length (rev acc) + S (F1 + F2))%nat.
    rewrite print_app3, print_lit_of3. cbn [print_parts3]. rewrite Hpp. rewrite <- !app_assoc. rewrite (bw_rescan_acc acc (S (F1 + F2)) _ Hp).
    rewrite bw_S. unfold step_bw. cbn [app]. change (36 =? 125) with false. change (36 =? 92) with false. change (36 =? 39) with false.
    change (36 =? 34) with false. change (36 =? 36) with true. cbv iota.
    replace (F1 + F2)%nat with (F2 + F1)%nat at 1 by lia. rewrite (dollar_mono F2 F1 _ _ HF2). rewrite (bw_mono F1 F2 _ _ _ HF). reflexivity. }
  destruct (c =? 96) eqn:E96; [discriminate|].
  refine (IHb s' (c :: acc) w r _ H Y).
  cbn [forallb]. unfold bwplain at 1. rewrite E125, E92, E39, E34, E36, E96, Hp. reflexivity.
Qed.

Lemma R_wd_step f : R_dq f -> R_bw f -> R_wd f -> R_wd (S f).
Proof.
  intros IHd IHb IHw s acc w rest Hp H. rewrite wd_S in H. unfold step_wd in H.
  destruct s as [|c s'].
  { inversion H; subst. exists (length (rev acc) + 1)%nat. rewrite print_lit_of3, (wd_rescan_acc acc 1 [] Hp). rewrite wd_S. reflexivity. }
  destruct (c =? 39) eqn:E39.
  { destruct (scan_sq3 s') as [[t r1]|] eqn:Esq; [|discriminate]. destruct (scan_word3 f r1 []) as [[ps r]|] eqn:E2; [|discriminate].
    inversion H; subst. destruct (scan_sq_inv3 _ _ _ Esq) as [-> Hn].
    destruct (IHw r1 [] ps rest eq_refl E2) as [F1 HF].
    exists (length (rev acc) + S F1)%nat.
    rewrite print_app3, print_lit_of3. cbn [print_parts3]. rewrite print_quote3. change (39 =? 39) with true. cbv iota.
    cbn [print_parts3 print_part3]. rewrite app_nil_r, <- !app_assoc. rewrite (wd_rescan_acc acc (S F1) _ Hp).
    rewrite wd_S. unfold step_wd. cbn [app]. change (39 =? 39) with true. cbv iota.
    rewrite <- app_assoc. cbn [app]. rewrite (scan_sq_ok3 t _ Hn), HF. reflexivity. }
  destruct (c =? 34) eqn:E34.
  { destruct (scan_dq3 f s' []) as [[v r1]|] eqn:Edq; [|discriminate]. destruct (scan_word3 f r1 []) as [[ps r]|] eqn:E2; [|discriminate].
    inversion H; subst.
    destruct (IHw r1 [] ps rest eq_refl E2) as [F1 HF].
    destruct (IHd s' [] v r1 dql_nil Edq (print_parts3 ps ++ rest)) as [F2 HF2].
    exists (length (rev acc) + S (F1 + F2))%nat.
    rewrite print_app3, print_lit_of3. cbn [print_parts3]. rewrite print_quote3.
    change (34 =? 39) with false. change (34 =? 34) with true. cbv iota. rewrite <- !app_assoc. rewrite (wd_rescan_acc acc (S (F1 + F2)) _ Hp).
    rewrite wd_S. unfold step_wd. cbn [app]. change (34 =? 39) with false. change (34 =? 34) with true. cbv iota. rewrite <- app_assoc. cbn [app].
    replace (F1 + F2)%nat with (F2 + F1)%nat at 1 by lia. rewrite (dq_mono F2 F1 _ _ _ HF2). rewrite (wd_mono F1 F2 _ _ _ HF). reflexivity. }
  destruct (c =? 92) eqn:E92.
  { destruct s' as [|d s''].
    - inversion H; subst. exists (length (rev acc) + 1)%nat.
      rewrite print_app3, print_lit_of3. cbn [print_parts3]. rewrite print_quote3.
      change (92 =? 39) with false. change (92 =? 34) with false. change (92 =? 92) with true. cbv iota.
      cbn [print_parts3 app]. rewrite <- !app_assoc. rewrite (wd_rescan_acc acc 1 _ Hp). rewrite wd_S. reflexivity.
    - destruct (d =? 10) eqn:E10.
      + destruct (IHw s'' acc w rest Hp H) as [F HF]. exists F. exact HF.
      + destruct (scan_word3 f s'' []) as [[ps r]|] eqn:E2; [|discriminate]. inversion H; subst.
        destruct (IHw s'' [] ps rest eq_refl E2) as [F1 HF].
        exists (length (rev acc) + S F1)%nat.
        rewrite print_app3, print_lit_of3. cbn [print_parts3]. rewrite print_quote3.
        change (92 =? 39) with false. change (92 =? 34) with false. change (92 =? 92) with true. cbv iota.
        cbn [print_parts3 print_part3]. rewrite app_nil_r, <- !app_assoc. rewrite (wd_rescan_acc acc (S F1) _ Hp).
        rewrite wd_S. unfold step_wd. cbn [app]. change (92 =? 39) with false. change (92 =? 34) with false. change (92 =? 92) with true. cbv iota.
        rewrite E10, HF. reflexivity. }
  destruct (c =? 36) eqn:E36.
  { destruct (dollar (scan_bw3 f) s') as [[p r0]|] eqn:Esd; [|discriminate].
    destruct (scan_word3 f r0 []) as [[ps r]|] eqn:E2; [|discriminate]. inversion H; subst.
    destruct (IHw r0 [] ps rest eq_refl E2) as [F1 HF].
    destruct (dollar_rescan f IHb s' p r0 Esd) as (tl & Hpp & Hr).
    destruct (Hr (print_parts3 ps ++ rest)) as [F2 HF2].
    { intros Hok. exact (head_ok_after_name _ _ Hok (wd_head f r0 ps rest E2 (ok_nocont _ Hok))). }
    exists (length (rev acc) + S (F1 + F2))%nat.
    rewrite print_app3, print_lit_of3. cbn [print_parts3]. rewrite Hpp. rewrite <- !app_assoc. rewrite (wd_rescan_acc acc (S (F1 + F2)) _ Hp).
    rewrite wd_S. unfold step_wd. cbn [app]. change (36 =? 39) with false. change (36 =? 34) with false. change (36 =? 92) with false.
    change (36 =? 36) with true. cbv iota.
    replace (F1 + F2)%nat with (F2 + F1)%nat at 1 by lia. rewrite (dollar_mono F2 F1 _ _ HF2). rewrite (wd_mono F1 F2 _ _ _ HF). reflexivity. }
  destruct (is_blank_or_op3 c) eqn:Eb.
  { inversion H; subst. exists (length (rev acc) + 1)%nat. rewrite print_lit_of3, (wd_rescan_acc acc 1 _ Hp).
    rewrite wd_S. unfold step_wd. rewrite E39, E34, E92, E36, Eb. reflexivity. }
  destruct (memb c [96; 35]) eqn:Em; [discriminate|].
  refine (IHw s' (c :: acc) w rest _ H).
  cbn [forallb]. unfold plain at 1. rewrite E39, E34, E92, E36, Eb, Em, Hp. reflexivity.
Qed.

Theorem rescan_all f : R_dq f /\ R_bw f /\ R_wd f.
Proof.
  induction f as [|f (IHd & IHb & IHw)].
  - repeat split; intros s acc; intros; discriminate.
  - repeat split; [apply R_dq_step|apply R_bw_step|apply R_wd_step]; assumption.
Qed.

(** scanning, printing and scanning again gives the same word and rest *)
Theorem scan_print_scan3 f s w rest :
  scan_word3 f s [] = Some (w, rest) -> exists F, scan_word3 F (print_parts3 w ++ rest) [] = Some (w, rest).
Proof. intros H. exact (proj2 (proj2 (rescan_all f)) s [] w rest eq_refl H). Qed.

Example reprint3_witness :
  exists w, scan_word3 60 [97; 36; 123; 120; 58; 45; 39; 98; 32; 99; 39; 36; 121; 125; 34; 36; 123; 35; 122; 125; 34; 36; 123; 35; 63; 125; 32; 113] [] = Some (w, [32; 113]) /\
            print_parts3 w = [97; 36; 123; 120; 58; 45; 39; 98; 32; 99; 39; 36; 121; 125; 34; 36; 123; 35; 122; 125; 34; 36; 123; 35; 63; 125] /\ length w = 4%nat.
Proof. eexists. split; [vm_compute; reflexivity|split; vm_compute; reflexivity]. Qed.
