(** The here-document body reader for an unquoted delimiter (parser/lexer.go scanHeredoc with
    quoted = false, esc, find), for bodies without '$' and backquote: a backslash-newline joins
    two physical lines into one logical line and leaves no trace in the body, any other
    backslash pair is kept as it is written, and the delimiter is looked for at every newline that
    is not escaped, in the whole logical line.  Observable: the printed text of Redir.Heredoc, of
    Redir.Delim, and the unread rest. *)
From GoSh Require Import Base.Bytes Lex.Heredoc.
From Coq Require Import Lia.
Open Scope N_scope.

Inductive hxres := HOk (body dline rest : list rune) | HErr | HUnmodelled.

(** [cur] = printed text of the logical line read so far *)
Fixpoint read_exp (fuel : nat) (dash : bool) (delim : list rune) (s : list rune) (acc cur : list rune) : hxres :=
  match fuel with
  | O => HErr
  | S f =>
    match s with
    | [] => if is_delim dash delim cur then HOk acc cur [] else HErr      (* the input ends in the delimiter line, or: delimited by EOF *)
    | 10 :: s' =>
      if is_delim dash delim cur then HOk acc cur s'
      else read_exp f dash delim s' (acc ++ cur ++ [10]) []
    | 92 :: s' =>
      match s' with
      | [] => HErr
      | 10 :: s'' => read_exp f dash delim s'' acc cur                       (* line continuation *)
      | d :: s'' => read_exp f dash delim s'' acc (cur ++ [92; d])
      end
    | 36 :: _ => HUnmodelled
    | 96 :: _ => HUnmodelled
    | c :: s' => read_exp f dash delim s' acc (cur ++ [c])
    end
  end.

(** * specification *)
Inductive atom := Plain (c : rune) | Esc (d : rune).
Definition atom_ok (a : atom) : bool :=
  match a with
  | Plain c => negb (c =? 10) && negb (c =? 92) && negb (c =? 36) && negb (c =? 96)
  | Esc d => negb (d =? 10)
  end.
Definition atom_text (a : atom) : list rune := match a with Plain c => [c] | Esc d => [92; d] end.
Definition seg_text (p : list atom) : list rune := flat_map atom_text p.
(** a logical line: physical segments joined by backslash-newline *)
Definition line_text (l : list (list atom)) : list rune := flat_map seg_text l.
Fixpoint line_src (l : list (list atom)) : list rune :=
  match l with
  | [] => [10]
  | [p] => seg_text p ++ [10]
  | p :: l' => seg_text p ++ [92; 10] ++ line_src l'
  end.
Definition line_ok (l : list (list atom)) : bool := negb (Nat.eqb (length l) 0) && forallb (forallb atom_ok) l.
Definition body_src (ls : list (list (list atom))) : list rune := flat_map line_src ls.
Definition body_text (ls : list (list (list atom))) : list rune := flat_map (fun l => line_text l ++ [10]) ls.


Ltac crack q := destruct q as [q|q|]; try reflexivity; try congruence; try crack q.

Lemma read_exp_atom a f dash delim s acc cur : atom_ok a = true ->
  read_exp (S f) dash delim (atom_text a ++ s) acc cur = read_exp f dash delim s acc (cur ++ atom_text a).
Proof.
  destruct a as [c|d]; cbn [atom_ok atom_text app]; intros H.
  - apply Bool.andb_true_iff in H as [H H96]. apply Bool.andb_true_iff in H as [H H36]. apply Bool.andb_true_iff in H as [H10 H92].
    apply Bool.negb_true_iff, N.eqb_neq in H10, H92, H36, H96.
    cbn [read_exp]. destruct c as [|q]; [reflexivity|]. crack q.
  - apply Bool.negb_true_iff, N.eqb_neq in H. cbn [read_exp]. destruct d as [|q]; [reflexivity|]. crack q.
Qed.

Lemma read_exp_seg : forall p f dash delim s acc cur, forallb atom_ok p = true ->
  read_exp (length p + f) dash delim (seg_text p ++ s) acc cur = read_exp f dash delim s acc (cur ++ seg_text p).
Proof.
  induction p as [|a p IH]; intros f dash delim s acc cur H.
  - cbn [seg_text flat_map app length plus]. now rewrite app_nil_r.
  - cbn [forallb] in H. apply Bool.andb_true_iff in H as [Ha Hp].
    cbn [seg_text flat_map length plus]. fold (seg_text p). rewrite <- app_assoc, (read_exp_atom a _ _ _ _ _ _ Ha), (IH _ _ _ _ _ _ Hp).
    now rewrite <- app_assoc.
Qed.

Fixpoint line_cost (l : list (list atom)) : nat :=
  match l with [] => 1 | p :: l' => (length p + 1 + match l' with [] => 0 | _ => line_cost l' end)%nat end.

(** a logical line that is not the delimiter goes to the body, its continuations removed *)
Lemma read_exp_line : forall l f dash delim s acc cur, line_ok l = true ->
  is_delim dash delim (cur ++ line_text l) = false ->
  read_exp (line_cost l + f) dash delim (line_src l ++ s) acc cur = read_exp f dash delim s (acc ++ (cur ++ line_text l) ++ [10]) [].
Proof.
  induction l as [|p l IH]; intros f dash delim s acc cur Hok Hd; [discriminate|].
  unfold line_ok in Hok. cbn [length Nat.eqb negb andb forallb] in Hok. apply Bool.andb_true_iff in Hok as [Hp Hl].
  destruct l as [|p2 l].
  - cbn [line_src line_text flat_map line_cost] in *. rewrite app_nil_r in *. rewrite <- app_assoc.
    replace (length p + 1 + 0 + f)%nat with (length p + S f)%nat by lia.
    rewrite (read_exp_seg p _ _ _ _ _ _ Hp). cbn [app read_exp]. now rewrite Hd.
  - change (line_src (p :: p2 :: l)) with (seg_text p ++ [92; 10] ++ line_src (p2 :: l)).
    change (line_text (p :: p2 :: l)) with (seg_text p ++ line_text (p2 :: l)) in *.
    change (line_cost (p :: p2 :: l)) with (length p + 1 + line_cost (p2 :: l))%nat.
    rewrite <- !app_assoc. replace (length p + 1 + line_cost (p2 :: l) + f)%nat with (length p + S (line_cost (p2 :: l) + f))%nat by lia.
    rewrite (read_exp_seg p _ _ _ _ _ _ Hp). cbn [app read_exp].
    rewrite app_assoc in Hd. rewrite (IH f dash delim s acc (cur ++ seg_text p)); [now rewrite <- !app_assoc| |exact Hd].
    unfold line_ok. cbn [length Nat.eqb negb andb]. exact Hl.
Qed.

(** the delimiter line ends the here-document *)
Lemma read_exp_delim : forall l f dash delim s acc cur, line_ok l = true ->
  is_delim dash delim (cur ++ line_text l) = true ->
  read_exp (line_cost l + f) dash delim (line_src l ++ s) acc cur = HOk acc (cur ++ line_text l) s.
Proof.
  induction l as [|p l IH]; intros f dash delim s acc cur Hok Hd; [discriminate|].
  unfold line_ok in Hok. cbn [length Nat.eqb negb andb forallb] in Hok. apply Bool.andb_true_iff in Hok as [Hp Hl].
  destruct l as [|p2 l].
  - cbn [line_src line_text flat_map line_cost] in *. rewrite app_nil_r in *. rewrite <- app_assoc.
    replace (length p + 1 + 0 + f)%nat with (length p + S f)%nat by lia.
    rewrite (read_exp_seg p _ _ _ _ _ _ Hp). cbn [app read_exp]. now rewrite Hd.
  - change (line_src (p :: p2 :: l)) with (seg_text p ++ [92; 10] ++ line_src (p2 :: l)).
    change (line_text (p :: p2 :: l)) with (seg_text p ++ line_text (p2 :: l)) in *.
    change (line_cost (p :: p2 :: l)) with (length p + 1 + line_cost (p2 :: l))%nat.
    rewrite <- !app_assoc. replace (length p + 1 + line_cost (p2 :: l) + f)%nat with (length p + S (line_cost (p2 :: l) + f))%nat by lia.
    rewrite (read_exp_seg p _ _ _ _ _ _ Hp). cbn [app read_exp].
    rewrite app_assoc in Hd. rewrite (IH f dash delim s acc (cur ++ seg_text p)); [now rewrite <- !app_assoc| |exact Hd].
    unfold line_ok. cbn [length Nat.eqb negb andb]. exact Hl.
Qed.

Definition body_cost (ls : list (list (list atom))) : nat := fold_right (fun l n => (line_cost l + n)%nat) 0%nat ls.

(** For an unquoted delimiter: every body whose logical lines (physical lines joined by
    backslash-newline) differ from the delimiter is returned with the continuations removed and
    every other backslash pair kept; the first logical line that equals the delimiter ends it -- a
    physical line that spells the delimiter but continues a line does not -- and reading stops
    right after it. *)
Theorem heredoc_expanding_body dash delim : forall ls dl rest acc fuel,
  forallb (fun l => line_ok l && negb (is_delim dash delim (line_text l))) ls = true ->
  line_ok dl = true -> is_delim dash delim (line_text dl) = true ->
  (body_cost ls + line_cost dl <= fuel)%nat ->
  read_exp fuel dash delim (body_src ls ++ line_src dl ++ rest) acc [] = HOk (acc ++ body_text ls) (line_text dl) rest.
Proof.
  induction ls as [|l ls IH]; intros dl rest acc fuel Hls Hdl Hd Hf.
  - cbn [body_src body_text flat_map app body_cost fold_right plus] in *. rewrite app_nil_r.
    replace fuel with (line_cost dl + (fuel - line_cost dl))%nat by lia.
    rewrite (read_exp_delim dl _ dash delim rest acc [] Hdl Hd). reflexivity.
  - cbn [forallb] in Hls. apply Bool.andb_true_iff in Hls as [Hl Hls]. apply Bool.andb_true_iff in Hl as [Hlok Hnd].
    apply Bool.negb_true_iff in Hnd. cbn [body_cost fold_right] in Hf. fold (body_cost ls) in Hf.
    cbn [body_src body_text flat_map]. fold (body_src ls) (body_text ls). rewrite <- !app_assoc.
    replace fuel with (line_cost l + (fuel - line_cost l))%nat by lia.
    rewrite (read_exp_line l _ dash delim _ acc [] Hlok Hnd). cbn [app].
    rewrite (IH dl rest _ _ Hls Hdl Hd) by lia. now rewrite <- !app_assoc.
Qed.

(** more budget never changes a result *)
Lemma read_exp_mono : forall f dash delim s acc cur, read_exp f dash delim s acc cur <> HErr ->
  read_exp (S f) dash delim s acc cur = read_exp f dash delim s acc cur.
Proof.
  induction f as [|f IH]; intros dash delim s acc cur H; [cbn in H; congruence|].
  remember (S f) as f1. cbn [read_exp]. subst f1. cbn [read_exp] in H |- *.
  destruct s as [|c s']; [reflexivity|].
  destruct c as [|q]; [apply IH; exact H|].
  repeat (destruct q as [q|q|]; try (apply IH; exact H); try reflexivity);
  try (destruct (is_delim dash delim cur); [reflexivity|apply IH; exact H]);
  try (destruct s' as [|d s'']; [reflexivity|];
       destruct d as [|q']; [apply IH; exact H|];
       repeat (destruct q' as [q'|q'|]; try (apply IH; exact H); try reflexivity)).
Qed.

Lemma read_exp_mono_k : forall k f dash delim s acc cur, read_exp f dash delim s acc cur <> HErr ->
  read_exp (f + k) dash delim s acc cur = read_exp f dash delim s acc cur.
Proof.
  induction k as [|k IH]; intros f dash delim s acc cur H; [now rewrite Nat.add_0_r|].
  rewrite Nat.add_succ_r. rewrite read_exp_mono; [apply IH; exact H|]. rewrite IH; exact H.
Qed.

(** a delimiter that never comes is an error (never a silently truncated body) *)
Lemma unterminated_big dash delim : forall ls acc k,
  forallb (fun l => line_ok l && negb (is_delim dash delim (line_text l))) ls = true ->
  is_delim dash delim [] = false ->
  read_exp (body_cost ls + k) dash delim (body_src ls) acc [] = HErr.
Proof.
  induction ls as [|l ls IH]; intros acc k Hls He.
  - cbn [body_cost fold_right plus body_src flat_map]. destruct k; [reflexivity|]. cbn [read_exp]. now rewrite He.
  - cbn [forallb] in Hls. apply Bool.andb_true_iff in Hls as [Hl Hls]. apply Bool.andb_true_iff in Hl as [Hlok Hnd].
    apply Bool.negb_true_iff in Hnd. cbn [body_src flat_map body_cost fold_right]. fold (body_src ls) (body_cost ls).
    rewrite <- Nat.add_assoc, (read_exp_line l _ dash delim _ acc [] Hlok Hnd). apply IH; assumption.
Qed.

Theorem heredoc_expanding_unterminated dash delim : forall ls acc fuel,
  forallb (fun l => line_ok l && negb (is_delim dash delim (line_text l))) ls = true ->
  is_delim dash delim [] = false ->
  read_exp fuel dash delim (body_src ls) acc [] = HErr.
Proof.
  intros ls acc fuel Hls He.
  destruct (read_exp fuel dash delim (body_src ls) acc []) eqn:E; [| reflexivity |].
  - assert (Hne : read_exp fuel dash delim (body_src ls) acc [] <> HErr) by (rewrite E; discriminate).
    pose proof (read_exp_mono_k (body_cost ls) fuel dash delim _ acc [] Hne) as Hm.
    rewrite Nat.add_comm, (unterminated_big dash delim ls acc fuel Hls He) in Hm. congruence.
  - assert (Hne : read_exp fuel dash delim (body_src ls) acc [] <> HErr) by (rewrite E; discriminate).
    pose proof (read_exp_mono_k (body_cost ls) fuel dash delim _ acc [] Hne) as Hm.
    rewrite Nat.add_comm, (unterminated_big dash delim ls acc fuel Hls He) in Hm. congruence.
Qed.
