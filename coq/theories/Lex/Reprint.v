(** Printing a word of literal quotings and scanning it again gives the same word: for every text
    the word scanner accepts (single quotes, double quotes with escapes, backslash escapes, plain
    characters, line continuations anywhere), the parts it returns, written back in the printer's
    notation, are scanned to exactly the same parts with the same unread rest. *)
From GoSh Require Import Base.Bytes Base.Utf8 Base.Outcome Store.Env Expand.Expand Lex.Quote Lex.QuoteProofs.
From Coq Require Import Lia.
Open Scope N_scope.

Definition runes (b : bytes) : list rune := map fst (decode_all b).

(** the printer's notation for literals and quotations (printer.word, printer.quote) *)
Fixpoint print_part (p : wpart) : list rune :=
  let pp := fix pp (l : list wpart) : list rune := match l with [] => [] | x :: r => print_part x ++ pp r end in
  match p with
  | WLit t => runes t
  | WQuote tok v =>
    if tok =? 39 then 39 :: pp v ++ [39]
    else if tok =? 34 then 34 :: pp v ++ [34]
    else if tok =? 92 then 92 :: pp v
    else []
  | _ => []
  end.
Fixpoint print_parts (l : list wpart) : list rune :=
  match l with [] => [] | x :: r => print_part x ++ print_parts r end.

Lemma print_quote tok v : print_part (WQuote tok v) =
  if tok =? 39 then 39 :: print_parts v ++ [39]
  else if tok =? 34 then 34 :: print_parts v ++ [34]
  else if tok =? 92 then 92 :: print_parts v
  else [].
Proof. reflexivity. Qed.

Lemma print_parts_app a b : print_parts (a ++ b) = print_parts a ++ print_parts b.
Proof. induction a as [|x a IH]; cbn [app print_parts]; [reflexivity|]. rewrite IH, app_assoc. reflexivity. Qed.

Lemma runes_encoded t : forallb scalar t = true -> runes (encode_all t) = t.
Proof. apply runes_of_encoded. Qed.

Lemma scalar_rev a : forallb scalar a = true -> forallb scalar (rev a) = true.
Proof. intros H. apply forallb_forall. intros x Hx. apply in_rev in Hx. exact (proj1 (forallb_forall _ _) H x Hx). Qed.

Lemma print_lit_of acc : forallb scalar acc = true -> print_parts (lit_of acc) = rev acc.
Proof.
  intros H. unfold lit_of. destruct acc as [|c acc]; [reflexivity|].
  cbn [print_parts print_part]. rewrite app_nil_r. apply runes_encoded. apply scalar_rev. exact H.
Qed.

(** * plain characters of a word *)
Definition plain (c : rune) : bool :=
  negb ((c =? 39) || (c =? 34) || (c =? 92) || is_blank_or_op c || memb c [36; 96; 35]).

Lemma plain_step f c s acc : plain c = true -> scan_word (S f) (c :: s) acc = scan_word f s (c :: acc).
Proof.
  unfold plain. intros H. apply Bool.negb_true_iff in H.
  apply Bool.orb_false_iff in H as [H H5]. apply Bool.orb_false_iff in H as [H H4].
  apply Bool.orb_false_iff in H as [H H3]. apply Bool.orb_false_iff in H as [H1 H2].
  cbn [scan_word]. rewrite H1, H2, H3, H4, H5. reflexivity.
Qed.

Lemma scan_plain pre : forall f X acc, forallb plain pre = true ->
  scan_word (length pre + f) (pre ++ X) acc = scan_word f X (rev pre ++ acc).
Proof.
  induction pre as [|c pre IH]; intros f X acc H; [reflexivity|].
  cbn [forallb] in H. apply Bool.andb_true_iff in H as [Hc H].
  cbn [length plus app]. rewrite (plain_step _ c _ _ Hc), (IH f X (c :: acc) H).
  cbn [rev]. rewrite <- app_assoc. reflexivity.
Qed.

Lemma plain_rev a : forallb plain a = true -> forallb plain (rev a) = true.
Proof. intros H. apply forallb_forall. intros x Hx. apply in_rev in Hx. exact (proj1 (forallb_forall _ _) H x Hx). Qed.

(* scanning a printed literal brings the accumulator back *)
Lemma rescan_acc acc f X : forallb plain acc = true ->
  scan_word (length (rev acc) + f) (rev acc ++ X) [] = scan_word f X acc.
Proof.
  intros H. rewrite (scan_plain (rev acc) f X [] (plain_rev acc H)), rev_involutive, app_nil_r. reflexivity.
Qed.

(** * single quotes *)
Lemma scan_sq_inv : forall s t r, scan_sq s = Some (t, r) -> s = t ++ 39 :: r /\ forallb (fun c => negb (c =? 39)) t = true.
Proof.
  induction s as [|c s IH]; intros t r H; cbn [scan_sq] in H; [discriminate|].
  destruct (c =? 39) eqn:E.
  - inversion H; subst. apply N.eqb_eq in E. subst c. split; reflexivity.
  - destruct (scan_sq s) as [[t' r']|] eqn:Es; [|discriminate]. inversion H; subst.
    destruct (IH t' r eq_refl) as [-> Hn]. split; [reflexivity|]. cbn [forallb]. rewrite E. exact Hn.
Qed.

Lemma scalar_app a b : forallb scalar (a ++ b) = true -> forallb scalar a = true /\ forallb scalar b = true.
Proof. rewrite forallb_app. apply Bool.andb_true_iff. Qed.

(** * double quotes *)
Definition dqplain (c : rune) : bool := negb ((c =? 34) || (c =? 92) || (c =? 36) || (c =? 96)).

(* the text of a literal inside double quotes: plain characters and backslashes that escape nothing *)
Inductive dqlit : list rune -> Prop :=
| dql_nil : dqlit []
| dql_plain c r : dqplain c = true -> dqlit r -> dqlit (c :: r)
| dql_esc d r : dq_special d = false -> (d =? 10) = false -> dqlit r -> dqlit (92 :: d :: r).

Lemma dqlit_app a b : dqlit a -> dqlit b -> dqlit (a ++ b).
Proof. intros Ha Hb. induction Ha; cbn [app]; [exact Hb|apply dql_plain; assumption|apply dql_esc; assumption]. Qed.

Lemma dqplain_inv c : dqplain c = true -> (c =? 34) = false /\ (c =? 92) = false /\ (c =? 36) = false /\ (c =? 96) = false.
Proof.
  unfold dqplain. intros H. apply Bool.negb_true_iff in H.
  apply Bool.orb_false_iff in H as [H H4]. apply Bool.orb_false_iff in H as [H H3]. apply Bool.orb_false_iff in H as [H1 H2]. auto.
Qed.

Lemma special_not_nl d : dq_special d = true -> (d =? 10) = false.
Proof.
  unfold dq_special. cbn [memb]. intros H. destruct (d =? 10) eqn:E; [|reflexivity].
  apply N.eqb_eq in E. subst d. discriminate.
Qed.

Lemma scan_dq_lit L : dqlit L -> forall X acc, scan_dq (L ++ X) acc = scan_dq X (rev L ++ acc).
Proof.
  induction 1 as [|c r Hc Hr IH|d r Hd Hn Hr IH]; intros X acc.
  - reflexivity.
  - destruct (dqplain_inv c Hc) as (H1 & H2 & H3 & H4).
    cbn [app scan_dq]. rewrite H1, H2, H3, H4. cbn [orb]. rewrite IH. cbn [rev]. rewrite <- app_assoc. reflexivity.
  - cbn [app scan_dq]. change (92 =? 34) with false. change (92 =? 92) with true. cbv iota.
    rewrite Hd, Hn. rewrite IH. cbn [rev]. rewrite <- !app_assoc. reflexivity.
Qed.

Lemma rescan_dq_acc acc X : dqlit (rev acc) -> scan_dq (rev acc ++ X) [] = scan_dq X acc.
Proof. intros H. rewrite (scan_dq_lit (rev acc) H X []), rev_involutive, app_nil_r. reflexivity. Qed.

(* what scan_dq returns, printed and followed by the closing quote, is scanned to the same parts *)
Lemma rescan_dq n : forall s acc v r1, (length s <= n)%nat ->
  forallb scalar s = true -> forallb scalar acc = true -> dqlit (rev acc) ->
  scan_dq s acc = Some (v, r1) ->
  forall Y, scan_dq (print_parts v ++ 34 :: Y) [] = Some (v, Y).
Proof.
  induction n as [|n IH]; intros s acc v r1 Hl Hs Ha Hd H Y.
  - destruct s; [discriminate|cbn in Hl; lia].
  - destruct s as [|c s']; [discriminate|]. cbn [scan_dq] in H. cbn [length] in Hl.
    cbn [forallb] in Hs. apply Bool.andb_true_iff in Hs as [Hc Hs].
    destruct (c =? 34) eqn:E34.
    { inversion H; subst. rewrite (print_lit_of acc Ha), (rescan_dq_acc acc _ Hd).
      cbn [scan_dq]. change (34 =? 34) with true. reflexivity. }
    destruct (c =? 92) eqn:E92.
    { destruct s' as [|d s'']; [discriminate|]. cbn [length] in Hl.
      cbn [forallb] in Hs. apply Bool.andb_true_iff in Hs as [Hdsc Hs].
      destruct (dq_special d) eqn:Esp.
      - destruct (scan_dq s'' []) as [[ps rest]|] eqn:E2; [|discriminate]. inversion H; subst.
        pose proof (IH s'' [] ps r1 ltac:(lia) Hs eq_refl dql_nil E2 Y) as H2.
        rewrite print_parts_app, (print_lit_of acc Ha). cbn [print_parts]. rewrite print_quote.
        change (92 =? 39) with false. change (92 =? 34) with false. change (92 =? 92) with true. cbv iota.
        cbn [print_parts print_part]. change (encode_rune d ++ []) with (encode_all [d]). rewrite app_nil_r.
        rewrite (runes_encoded [d]) by (cbn [forallb]; rewrite Hdsc; reflexivity).
        rewrite <- app_assoc. rewrite (rescan_dq_acc acc _ Hd).
        cbn [app scan_dq]. change (92 =? 34) with false. change (92 =? 92) with true. cbv iota.
        rewrite Esp, H2. reflexivity.
      - destruct (d =? 10) eqn:E10.
        + exact (IH s'' acc v r1 ltac:(lia) Hs Ha Hd H Y).
        + refine (IH s'' (d :: 92 :: acc) v r1 ltac:(lia) Hs _ _ H Y).
          * cbn [forallb]. rewrite Hdsc, Ha. reflexivity.
          * cbn [rev]. rewrite <- app_assoc. apply dqlit_app; [exact Hd|]. cbn [app]. apply dql_esc; [exact Esp|exact E10|apply dql_nil]. }
    destruct ((c =? 36) || (c =? 96)) eqn:Ex; [discriminate|].
    apply Bool.orb_false_iff in Ex as [E36 E96].
    refine (IH s' (c :: acc) v r1 ltac:(lia) Hs _ _ H Y).
    + cbn [forallb]. rewrite Hc, Ha. reflexivity.
    + cbn [rev]. apply dqlit_app; [exact Hd|]. apply dql_plain; [|apply dql_nil].
      unfold dqplain. rewrite E34, E92, E36, E96. reflexivity.
Qed.

Lemma scan_dq_rest_scalar n : forall s acc v r1, (length s <= n)%nat ->
  forallb scalar s = true -> scan_dq s acc = Some (v, r1) -> forallb scalar r1 = true.
Proof.
  induction n as [|n IH]; intros s acc v r1 Hl Hs E.
  - destruct s; [discriminate|cbn in Hl; lia].
  - destruct s as [|x s]; [discriminate|]. cbn [scan_dq] in E. cbn [length] in Hl.
    cbn [forallb] in Hs. apply Bool.andb_true_iff in Hs as [_ Hs'].
    destruct (x =? 34); [inversion E; subst; exact Hs'|].
    destruct (x =? 92).
    + destruct s as [|d s'']; [discriminate|]. cbn [length] in Hl.
      cbn [forallb] in Hs'. apply Bool.andb_true_iff in Hs' as [_ Hs''].
      destruct (dq_special d).
      * destruct (scan_dq s'' []) as [[ps0 r0]|] eqn:E0; [|discriminate]. inversion E; subst.
        exact (IH s'' [] ps0 r1 ltac:(lia) Hs'' E0).
      * destruct (d =? 10); exact (IH s'' _ v r1 ltac:(lia) Hs'' E).
    + destruct ((x =? 36) || (x =? 96)); [discriminate|]. exact (IH s _ v r1 ltac:(lia) Hs' E).
Qed.

(** * the word *)
Lemma not_plain_cases c : (c =? 39) = false -> (c =? 34) = false -> (c =? 92) = false ->
  is_blank_or_op c = false -> memb c [36; 96; 35] = false -> plain c = true.
Proof. intros H1 H2 H3 H4 H5. unfold plain. rewrite H1, H2, H3, H4, H5. reflexivity. Qed.

Theorem rescan_word f : forall s acc w rest,
  forallb scalar s = true -> forallb scalar acc = true -> forallb plain acc = true ->
  scan_word f s acc = Some (w, rest) ->
  exists F, scan_word F (print_parts w ++ rest) [] = Some (w, rest).
Proof.
  induction f as [|f IH]; intros s acc w rest Hs Ha Hp H; [discriminate|].
  cbn [scan_word] in H. destruct s as [|c s'].
  { inversion H; subst. exists (length (rev acc) + 1)%nat.
    rewrite (print_lit_of acc Ha), (rescan_acc acc 1 [] Hp). reflexivity. }
  cbn [forallb] in Hs. apply Bool.andb_true_iff in Hs as [Hc Hs].
  destruct (c =? 39) eqn:E39.
  { destruct (scan_sq s') as [[t r1]|] eqn:Esq; [|discriminate].
    destruct (scan_word f r1 []) as [[ps r]|] eqn:E2; [|discriminate]. inversion H; subst. clear H.
    destruct (scan_sq_inv s' t r1 Esq) as [-> Hn]. apply scalar_app in Hs as [Ht Hr1].
    cbn [forallb] in Hr1. apply Bool.andb_true_iff in Hr1 as [_ Hr1].
    destruct (IH r1 [] ps rest Hr1 eq_refl eq_refl E2) as [F1 HF].
    exists (length (rev acc) + S F1)%nat.
    rewrite print_parts_app, (print_lit_of acc Ha). cbn [print_parts]. rewrite print_quote.
    change (39 =? 39) with true. cbv iota. cbn [print_parts print_part]. rewrite app_nil_r, (runes_encoded t Ht).
    rewrite <- !app_assoc. rewrite (rescan_acc acc (S F1) _ Hp).
    cbn [app scan_word]. change (39 =? 39) with true. cbv iota.
    rewrite <- app_assoc. cbn [app]. rewrite (scan_sq_ok t _ Hn), HF. reflexivity. }
  destruct (c =? 34) eqn:E34.
  { destruct (scan_dq s' []) as [[v r1]|] eqn:Edq; [|discriminate].
    destruct (scan_word f r1 []) as [[ps r]|] eqn:E2; [|discriminate]. inversion H; subst. clear H.
    pose proof (scan_dq_rest_scalar (length s') s' [] v r1 ltac:(lia) Hs Edq) as Hr1.
    destruct (IH r1 [] ps rest Hr1 eq_refl eq_refl E2) as [F1 HF].
    exists (length (rev acc) + S F1)%nat.
    rewrite print_parts_app, (print_lit_of acc Ha). cbn [print_parts]. rewrite print_quote.
    change (34 =? 39) with false. change (34 =? 34) with true. cbv iota.
    rewrite <- !app_assoc. rewrite (rescan_acc acc (S F1) _ Hp).
    cbn [app scan_word]. change (34 =? 39) with false. change (34 =? 34) with true. cbv iota.
    rewrite <- app_assoc. cbn [app].
    rewrite (rescan_dq (length s') s' [] v r1 ltac:(lia) Hs eq_refl dql_nil Edq), HF. reflexivity. }
  destruct (c =? 92) eqn:E92.
  { destruct s' as [|d s''].
    - inversion H; subst. exists (length (rev acc) + 1)%nat.
      rewrite print_parts_app, (print_lit_of acc Ha). cbn [print_parts]. rewrite print_quote.
      change (92 =? 39) with false. change (92 =? 34) with false. change (92 =? 92) with true. cbv iota.
      cbn [print_parts app]. rewrite <- !app_assoc. rewrite (rescan_acc acc 1 _ Hp). reflexivity.
    - cbn [forallb] in Hs. apply Bool.andb_true_iff in Hs as [Hd Hs].
      destruct (d =? 10) eqn:E10; [exact (IH s'' acc w rest Hs Ha Hp H)|].
      destruct (scan_word f s'' []) as [[ps r]|] eqn:E2; [|discriminate]. inversion H; subst. clear H.
      destruct (IH s'' [] ps rest Hs eq_refl eq_refl E2) as [F1 HF].
      exists (length (rev acc) + S F1)%nat.
      rewrite print_parts_app, (print_lit_of acc Ha). cbn [print_parts]. rewrite print_quote.
      change (92 =? 39) with false. change (92 =? 34) with false. change (92 =? 92) with true. cbv iota.
      cbn [print_parts print_part]. change (encode_rune d ++ []) with (encode_all [d]). rewrite app_nil_r.
      rewrite (runes_encoded [d]) by (cbn [forallb]; rewrite Hd; reflexivity).
      rewrite <- !app_assoc. rewrite (rescan_acc acc (S F1) _ Hp).
      cbn [app scan_word]. change (92 =? 39) with false. change (92 =? 34) with false. change (92 =? 92) with true. cbv iota.
      rewrite E10, HF. reflexivity. }
  destruct (is_blank_or_op c) eqn:Eb.
  { inversion H; subst. exists (length (rev acc) + 1)%nat.
    rewrite (print_lit_of acc Ha), (rescan_acc acc 1 _ Hp).
    cbn [scan_word]. rewrite E39, E34, E92, Eb. reflexivity. }
  destruct (memb c [36; 96; 35]) eqn:Em; [discriminate|].
  refine (IH s' (c :: acc) w rest Hs _ _ H).
  - cbn [forallb]. rewrite Hc, Ha. reflexivity.
  - cbn [forallb]. rewrite (not_plain_cases c E39 E34 E92 Eb Em), Hp. reflexivity.
Qed.

(** from the source text: scanning, printing and scanning again gives the same word and rest *)
Corollary scan_print_scan f s w rest : forallb scalar s = true ->
  scan_word f s [] = Some (w, rest) -> exists F, scan_word F (print_parts w ++ rest) [] = Some (w, rest).
Proof. intros Hs H. exact (rescan_word f s [] w rest Hs eq_refl eq_refl H). Qed.

Example reprint_witness :
  let s := [97; 92; 10; 98; 39; 99; 32; 39; 34; 100; 92; 36; 92; 120; 34; 92; 59; 32; 122] in
  exists w, scan_word 30 s [] = Some (w, [32; 122]) /\
            print_parts w = [97; 98; 39; 99; 32; 39; 34; 100; 92; 36; 92; 120; 34; 92; 59].
Proof. eexists. split; vm_compute; reflexivity. Qed.

(** formatting is a fix-point at the level of such words: the printed text, scanned and printed
    again, is the same text *)
Corollary print_scan_print f s w rest : forallb scalar s = true ->
  scan_word f s [] = Some (w, rest) ->
  exists F w', scan_word F (print_parts w ++ rest) [] = Some (w', rest) /\ print_parts w' = print_parts w.
Proof.
  intros Hs H. destruct (scan_print_scan f s w rest Hs H) as [F HF]. exists F, w. split; [exact HF|reflexivity].
Qed.

(** * The printer's notation for parameter expansions is not injective (open finding F64)
    printer.paramExp, transcribed: with braces, "${name}" when there is no operator, "${#name}"
    for the length form (operator # and no word), otherwise "${" name op word "}"; without braces
    "$name".  The parameter # with the operator ? and an empty word -- which the parser builds for
    "${#?" followed by a line continuation and "}" -- and the length of $? are written alike. *)
Record pexp := mkPexp { pbraces : bool; pname : list rune; pop : list rune; pword : option (list rune) }.

Definition print_pexp (e : pexp) : list rune :=
  if pbraces e then
    match pop e, pword e with
    | [], _ => [36; 123] ++ pname e ++ [125]
    | [35], None => [36; 123; 35] ++ pname e ++ [125]
    | op, w => [36; 123] ++ pname e ++ op ++ match w with Some t => t | None => [] end ++ [125]
    end
  else 36 :: pname e.

Theorem print_pexp_refuted : exists a b, a <> b /\ print_pexp a = print_pexp b.
Proof.
  exists (mkPexp true [35] [63] (Some [])), (mkPexp true [63] [35] None).
  split; [discriminate|reflexivity].
Qed.

(** * A backslash at the very end of the input (open finding F65): the theorem above needs the same
    rest after the printed word; the word a\ at the end of the input, printed and followed by
    anything else (a redirection the printer moves behind it), is another word. *)
Theorem trailing_backslash_refuted :
  exists f s w, scan_word f s [] = Some (w, []) /\
    forall F, scan_word F (print_parts w ++ [32; 62; 102]) [] <> Some (w, [32; 62; 102]).
Proof.
  exists 3%nat, [97; 92], [WLit [97]; WQuote 92 []]. split; [reflexivity|].
  intros F. destruct F as [|[|[|F]]]; cbn; discriminate.
Qed.
