(** The quoting fragment of the word scanner (parser/lexer.go scanQuote, esc, the word loop of
    scanRawToken): single quotes, double quotes with backslash escapes, backslash outside quotes.
    Model of what the lexer builds for a word made of literal quotings only, the three POSIX
    literal quoting functions, and the round-trip theorem of C15. *)
From GoSh Require Import Base.Bytes Base.Outcome Store.Env Expand.Expand Expand.SplitProofs.
From Coq Require Import Lia.
Open Scope N_scope.

(** * Scanner (on runes) *)
Definition is_blank_or_op (r : rune) : bool :=
  memb r [32; 9; 10; 38; 40; 41; 59; 124; 60; 62].

(* inside single quotes: everything up to the next single quote *)
Fixpoint scan_sq (s : list rune) : option (list rune * list rune) :=
  match s with
  | [] => None
  | c :: s' =>
    if c =? 39 then Some ([], s')
    else match scan_sq s' with Some (t, rest) => Some (c :: t, rest) | None => None end
  end.

Definition lit_of (acc : list rune) : list wpart :=
  match acc with [] => [] | _ => [WLit (encode_all (rev acc))] end.

Definition dq_special (c : rune) : bool := memb c [36; 96; 34; 92].

(* inside double quotes: literal runs and backslash escapes of the four special characters;
   backslash-newline is removed; an unescaped dollar or backquote (an expansion) is outside this
   fragment: None *)
Fixpoint scan_dq (s : list rune) (acc : list rune) : option (list wpart * list rune) :=
  match s with
  | [] => None
  | c :: s' =>
    if c =? 34 then Some (lit_of acc, s')
    else if c =? 92 then
      match s' with
      | [] => None
      | d :: s'' =>
        if dq_special d then
          match scan_dq s'' [] with
          | Some (ps, rest) => Some (lit_of acc ++ WQuote 92 [WLit (encode_all [d])] :: ps, rest)
          | None => None
          end
        else if d =? 10 then scan_dq s'' acc
        else scan_dq s'' (d :: 92 :: acc)
      end
    else if (c =? 36) || (c =? 96) then None
    else scan_dq s' (c :: acc)
  end.

(* a word: returns its parts and the unread rest *)
Fixpoint scan_word (fuel : nat) (s : list rune) (acc : list rune) : option (list wpart * list rune) :=
  match fuel with
  | O => None
  | S f =>
    match s with
    | [] => Some (lit_of acc, [])
    | c :: s' =>
      if c =? 39 then
        match scan_sq s' with
        | Some (t, rest) =>
          match scan_word f rest [] with
          | Some (ps, r) => Some (lit_of acc ++ WQuote 39 [WLit (encode_all t)] :: ps, r)
          | None => None
          end
        | None => None
        end
      else if c =? 34 then
        match scan_dq s' [] with
        | Some (v, rest) =>
          match scan_word f rest [] with
          | Some (ps, r) => Some (lit_of acc ++ WQuote 34 v :: ps, r)
          | None => None
          end
        | None => None
        end
      else if c =? 92 then
        match s' with
        | [] => Some (lit_of acc ++ [WQuote 92 []], [])
        | d :: s'' =>
          if d =? 10 then scan_word f s'' acc
          else match scan_word f s'' [] with
               | Some (ps, r) => Some (lit_of acc ++ WQuote 92 [WLit (encode_all [d])] :: ps, r)
               | None => None
               end
        end
      else if is_blank_or_op c then Some (lit_of acc, s)
      else if memb c [36; 96; 35] then None          (* expansions / comments: outside the fragment *)
      else scan_word f s' (c :: acc)
    end
  end.

(** * The three literal quotings of the property *)
Definition quote_single (s : list rune) : list rune := 39 :: s ++ [39].

Fixpoint dq_body (s : list rune) : list rune :=
  match s with
  | [] => []
  | c :: s' => if dq_special c then 92 :: c :: dq_body s' else c :: dq_body s'
  end.
Definition quote_double (s : list rune) : list rune := 34 :: dq_body s ++ [34].

Definition quote_backslash (s : list rune) : list rune := flat_map (fun c => [92; c]) s.

(** * What expansion makes of literal-quoted parts *)
(* the text a literal-quoted part stands for *)
Definition dq_inner_text (p : wpart) : option bytes :=
  match p with
  | WLit t => Some t
  | WQuote tok [WLit t] => if tok =? 92 then Some t else None
  | _ => None
  end.

Fixpoint all_some (l : list (option bytes)) : option bytes :=
  match l with
  | [] => Some []
  | Some t :: l' => match all_some l' with Some r => Some (t ++ r) | None => None end
  | None :: _ => None
  end.

Definition part_text (p : wpart) : option bytes :=
  match p with
  | WQuote tok v =>
    if tok =? 34 then all_some (map dq_inner_text v)
    else if (tok =? 39) || (tok =? 92) then
      match v with [] => Some [] | [WLit t] => Some t | _ => None end
    else None
  | _ => None
  end.

Definition word_text (w : list wpart) : option bytes := all_some (map part_text w).
