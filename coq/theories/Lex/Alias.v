(** The alias stack of the lexer (parser/lexer.go subst, read): a name is never substituted while
    it is on the stack, so the stack holds pairwise distinct names and its depth is bounded by the
    alias table -- the reason why every table, cyclic ones included, leads to termination. *)
From GoSh Require Import Base.Bytes.
From Coq Require Import Lia.
Open Scope N_scope.

Definition table := list (bytes * bytes).

Fixpoint alias_lookup (n : bytes) (t : table) : option bytes :=
  match t with [] => None | (k, v) :: t' => if beqb n k then Some v else alias_lookup n t' end.

Fixpoint on_stack (n : bytes) (st : list bytes) : bool :=
  match st with [] => false | x :: st' => beqb n x || on_stack n st' end.

(** subst: pushes [name] when it is an alias and not already being expanded *)
Definition subst (t : table) (st : list bytes) (name : bytes) : option (list bytes * bytes) :=
  match alias_lookup name t with
  | Some v => if on_stack name st then None else Some (name :: st, v)
  | None => None
  end.

(** the stack operations that can happen: substitution pushes, exhaustion pops *)
Inductive sstep (t : table) : list bytes -> list bytes -> Prop :=
| ss_push st name st' v : subst t st name = Some (st', v) -> sstep t st st'
| ss_pop n st : sstep t (n :: st) st.

Inductive reachable (t : table) : list bytes -> Prop :=
| r_init : reachable t []
| r_step st st' : reachable t st -> sstep t st st' -> reachable t st'.

Lemma on_stack_In n st : on_stack n st = true <-> In n st.
Proof.
  induction st as [|x st IH]; cbn; [intuition congruence|].
  rewrite Bool.orb_true_iff, IH. split; intros [H|H]; auto.
  - apply beqb_eq in H. auto.
  - left. subst. apply beqb_refl.
Qed.

Lemma lookup_In n t v : alias_lookup n t = Some v -> In n (map fst t).
Proof.
  induction t as [|[k w] t IH]; cbn; [discriminate|].
  destruct (beqb n k) eqn:E; [apply beqb_eq in E; subst; auto|auto].
Qed.

Definition good (t : table) (st : list bytes) : Prop := NoDup st /\ forall n, In n st -> In n (map fst t).

Lemma sstep_good t st st' : good t st -> sstep t st st' -> good t st'.
Proof.
  intros [Hnd Hin] Hs. destruct Hs as [st name st' v Hsub|n st].
  - unfold subst in Hsub. destruct (alias_lookup name t) eqn:El; [|discriminate].
    destruct (on_stack name st) eqn:Eo; [discriminate|]. inversion Hsub; subst. split.
    + constructor; [|exact Hnd]. intros H. apply on_stack_In in H. congruence.
    + intros n [<-|H]; [eapply lookup_In; eassumption|auto].
  - inversion Hnd; subst. split; [assumption|]. intros m Hm. apply Hin. right. exact Hm.
Qed.

Theorem stack_names_distinct t st : reachable t st -> good t st.
Proof.
  induction 1 as [|st st' _ IH Hs]; [split; [constructor|intros n []]|]. eapply sstep_good; eassumption.
Qed.

(** a duplicate-free list drawn from [l] is no longer than [l] *)
Lemma nodup_incl_length (st l : list bytes) : NoDup st -> (forall n, In n st -> In n l) -> (length st <= length l)%nat.
Proof. intros Hnd Hin. apply NoDup_incl_length; [exact Hnd|exact Hin]. Qed.

(** the depth of the alias stack never exceeds the number of aliases: self-referential and
    mutually recursive tables cannot nest forever *)
Theorem alias_depth_bounded t st : reachable t st -> (length st <= length t)%nat.
Proof.
  intros H. destruct (stack_names_distinct t st H) as [Hnd Hin].
  rewrite <- (map_length fst t). apply nodup_incl_length; assumption.
Qed.

(** and a name is never expanded again inside its own expansion *)
Theorem no_self_expansion t st name : on_stack name st = true -> subst t st name = None.
Proof. intros H. unfold subst. destruct (alias_lookup name t); [rewrite H|]; reflexivity. Qed.
