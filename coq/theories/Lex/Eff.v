(** Lexers as effect programs over the ReadRune / UnreadRune interface, and what holds for every
    such program: the result depends only on the inspected prefix of the input (C07), and a
    failing reader is reported as that failure whatever the program does afterwards (C10). *)
From Coq Require Import List Arith Lia Bool.
From GoSh Require Import Base.Bytes.
Import ListNotations.
Local Open Scope nat_scope.

(** what ReadRune can deliver *)
Inductive rd := RRune (r : rune) | REof | RFault.

(** a program over the reader: it can read, undo the last read, and produce outputs (tokens,
    comments, syntax errors, here-document bodies: an abstract type [O]) *)
Inductive prog (O A : Type) : Type :=
| Ret (a : A)
| Read (k : rd -> prog O A)
| Unread (k : prog O A)
| Out (o : O) (k : prog O A).
Arguments Ret {O A} a.
Arguments Read {O A} k.
Arguments Unread {O A} k.
Arguments Out {O A} o k.

Fixpoint bind {O A B} (m : prog O A) (f : A -> prog O B) : prog O B :=
  match m with
  | Ret a => f a
  | Read k => Read (fun r => bind (k r) f)
  | Unread k => Unread (bind k f)
  | Out o k => Out o (bind k f)
  end.

(** the source: runes, and optionally the index from which ReadRune fails with a non-EOF error *)
Record source := mkSource { runes : list rune; fail_from : option nat }.

Definition cell (s : source) (i : nat) : rd :=
  match fail_from s with
  | Some k => if k <=? i then RFault
              else match nth_error (runes s) i with Some r => RRune r | None => REof end
  | None => match nth_error (runes s) i with Some r => RRune r | None => REof end
  end.

(** interpreter state *)
Record rstate := mkR {
  cursor : nat;          (* index of the next rune to deliver *)
  can_unread : bool;     (* the last operation was a successful ReadRune *)
  hiwater : nat;         (* number of cells inspected so far *)
  faulted : bool         (* a read returned the non-EOF error *)
}.
Definition r0 : rstate := mkR 0 false 0 false.

Section Run.
  Variable O A : Type.

  Fixpoint run (p : prog O A) (s : source) (st : rstate) : A * list O * rstate :=
    match p with
    | Ret a => (a, [], st)
    | Read k =>
      let c := cell s (cursor st) in
      let hw := Nat.max (hiwater st) (S (cursor st)) in
      match c with
      | RRune _ => run (k c) s (mkR (S (cursor st)) true hw (faulted st))
      | REof => run (k c) s (mkR (cursor st) false hw (faulted st))
      | RFault => run (k c) s (mkR (cursor st) false hw true)
      end
    | Unread k =>
      if can_unread st then run k s (mkR (pred (cursor st)) false (hiwater st) (faulted st))
      else run k s st
    | Out o k => let '(a, os, st') := run k s st in (a, o :: os, st')
    end.

  (** two sources agree on the first n cells *)
  Definition agree (n : nat) (s1 s2 : source) : Prop := forall i, i < n -> cell s1 i = cell s2 i.

  Lemma hiwater_mono p s : forall st, hiwater st <= hiwater (snd (run p s st)).
  Proof.
    induction p as [a|k IH|k IH|o k IH]; intros st; cbn.
    - lia.
    - destruct (cell s (cursor st)); (eapply Nat.le_trans; [|apply IH]); cbn; lia.
    - destruct (can_unread st); (eapply Nat.le_trans; [|apply IH]); cbn; lia.
    - specialize (IH st). destruct (run k s st) as [[a os] st']. exact IH.
  Qed.

  (** C07's mechanism: nothing beyond the inspected prefix can influence the result *)
  Theorem prefix_locality p : forall s1 s2 st,
    agree (hiwater (snd (run p s1 st))) s1 s2 -> run p s2 st = run p s1 st.
  Proof.
    induction p as [a|k IH|k IH|o k IH]; intros s1 s2 st Hag; cbn in *.
    - reflexivity.
    - assert (Hc : cell s1 (cursor st) = cell s2 (cursor st)).
      { apply Hag.
        destruct (cell s1 (cursor st)) eqn:E;
          (eapply Nat.lt_le_trans; [|apply hiwater_mono]); cbn; lia. }
      rewrite <- Hc. destruct (cell s1 (cursor st)) eqn:E; apply IH; exact Hag.
    - destruct (can_unread st); apply IH; exact Hag.
    - rewrite (IH s1 s2 st); [reflexivity|].
      destruct (run k s1 st) as [[a os] st']. exact Hag.
  Qed.

  (** the reader is consulted only below the high-water mark: the cursor never exceeds it *)
  Lemma cursor_le_hiwater p s : forall st, cursor st <= hiwater st ->
    cursor (snd (run p s st)) <= hiwater (snd (run p s st)).
  Proof.
    induction p as [a|k IH|k IH|o k IH]; intros st H; cbn.
    - exact H.
    - destruct (cell s (cursor st)); apply IH; cbn; lia.
    - destruct (can_unread st); apply IH; cbn; lia.
    - specialize (IH st H). destruct (run k s st) as [[a os] st']. exact IH.
  Qed.
End Run.
Arguments run {O A} p s st.

(** * The error slot: a read error is never replaced (C10) *)
(** events that reach the slot, in the order they are reported: rank 0 = the reader's error,
    1 + position = a syntax error *)
Definition report (s : option nat) (e : nat) : option nat :=
  match s with None => Some e | Some o => Some (Nat.min o e) end.

Lemma report_zero_absorbs l : fold_left report l (Some 0) = Some 0.
Proof. induction l as [|e l IH]; cbn; [reflexivity|exact IH]. Qed.

(** whatever is reported before and after, once the reader's failure has been reported the slot
    holds it *)
Theorem read_fault_sticky before after :
  fold_left report (before ++ 0 :: after) None = Some 0.
Proof.
  rewrite fold_left_app. cbn.
  destruct (fold_left report before None) as [o|]; cbn; [rewrite Nat.min_0_r|]; apply report_zero_absorbs.
Qed.

(** and the interpreter notices every failing read the program performs *)
Lemma faulted_mono {O A} (p : prog O A) s : forall st, faulted st = true -> faulted (snd (run p s st)) = true.
Proof.
  induction p as [a|k IH|k IH|o k IH]; intros st H; cbn.
  - exact H.
  - destruct (cell s (cursor st)); apply IH; cbn; auto.
  - destruct (can_unread st); apply IH; cbn; auto.
  - specialize (IH st H). destruct (run k s st) as [[a os] st']. exact IH.
Qed.
