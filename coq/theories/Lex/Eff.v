(** Lexers as effect programs over the ReadRune / UnreadRune interface, and what holds for every
    such program: the result depends only on the inspected prefix of the input (C07), and a
    failing reader is reported as that failure whatever the program does afterwards (C10). *)
From Coq Require Import List Arith Lia Bool.
From GoSh Require Import Base.Bytes.
Import ListNotations.
Local Open Scope nat_scope.

(** what ReadRune can deliver *)
Inductive rd := RRune (r : rune) | REof | RFault.

(** a program over the reader: it can read, undo the last read, and produce outputs (tokens,
    comments, syntax errors, here-document bodies: an abstract type [O]) *)
Inductive prog (O A : Type) : Type :=
| Ret (a : A)
| Read (k : rd -> prog O A)
| Unread (k : prog O A)
| Out (o : O) (k : prog O A).
Arguments Ret {O A} a.
Arguments Read {O A} k.
Arguments Unread {O A} k.
Arguments Out {O A} o k.

Fixpoint bind {O A B} (m : prog O A) (f : A -> prog O B) : prog O B :=
  match m with
  | Ret a => f a
  | Read k => Read (fun r => bind (k r) f)
  | Unread k => Unread (bind k f)
  | Out o k => Out o (bind k f)
  end.

(** the source: runes, and optionally the index from which ReadRune fails with a non-EOF error *)
Record source := mkSource { runes : list rune; fail_from : option nat }.

Definition cell (s : source) (i : nat) : rd :=
  match fail_from s with
  | Some k => if k <=? i then RFault
              else match nth_error (runes s) i with Some r => RRune r | None => REof end
  | None => match nth_error (runes s) i with Some r => RRune r | None => REof end
  end.

(** interpreter state *)
Record rstate := mkR {
  cursor : nat;          (* index of the next rune to deliver *)
  can_unread : bool;     (* the last operation was a successful ReadRune *)
  hiwater : nat;         (* number of cells inspected so far *)
  faulted : bool         (* a read returned the non-EOF error *)
}.
Definition r0 : rstate := mkR 0 false 0 false.

Section Run.
  Variable O A : Type.

  Fixpoint run (p : prog O A) (s : source) (st : rstate) : A * list O * rstate :=
    match p with
    | Ret a => (a, [], st)
    | Read k =>
      let c := cell s (cursor st) in
      let hw := Nat.max (hiwater st) (S (cursor st)) in
      match c with
      | RRune _ => run (k c) s (mkR (S (cursor st)) true hw (faulted st))
      | REof => run (k c) s (mkR (cursor st) false hw (faulted st))
      | RFault => run (k c) s (mkR (cursor st) false hw true)
      end
    | Unread k =>
      if can_unread st then run k s (mkR (pred (cursor st)) false (hiwater st) (faulted st))
      else run k s st
    | Out o k => let '(a, os, st') := run k s st in (a, o :: os, st')
    end.

  (** two sources agree on the first n cells *)
  Definition agree (n : nat) (s1 s2 : source) : Prop := forall i, i < n -> cell s1 i = cell s2 i.

  Lemma hiwater_mono p s : forall st, hiwater st <= hiwater (snd (run p s st)).
  Proof.
    induction p as [a|k IH|k IH|o k IH]; intros st; cbn.
    - lia.
    - destruct (cell s (cursor st)); (eapply Nat.le_trans; [|apply IH]); cbn; lia.
    - destruct (can_unread st); (eapply Nat.le_trans; [|apply IH]); cbn; lia.
    - specialize (IH st). destruct (run k s st) as [[a os] st']. exact IH.
  Qed.

  (** C07's mechanism: nothing beyond the inspected prefix can influence the result *)
  Theorem prefix_locality p : forall s1 s2 st,
    agree (hiwater (snd (run p s1 st))) s1 s2 -> run p s2 st = run p s1 st.
  Proof.
    induction p as [a|k IH|k IH|o k IH]; intros s1 s2 st Hag; cbn in *.
    - reflexivity.
    - assert (Hc : cell s1 (cursor st) = cell s2 (cursor st)).
      { apply Hag.
        destruct (cell s1 (cursor st)) eqn:E;
          (eapply Nat.lt_le_trans; [|apply hiwater_mono]); cbn; lia. }
      rewrite <- Hc. destruct (cell s1 (cursor st)) eqn:E; apply IH; exact Hag.
    - destruct (can_unread st); apply IH; exact Hag.
    - rewrite (IH s1 s2 st); [reflexivity|].
      destruct (run k s1 st) as [[a os] st']. exact Hag.
  Qed.

  (** the reader is consulted only below the high-water mark: the cursor never exceeds it *)
  Lemma cursor_le_hiwater p s : forall st, cursor st <= hiwater st ->
    cursor (snd (run p s st)) <= hiwater (snd (run p s st)).
  Proof.
    induction p as [a|k IH|k IH|o k IH]; intros st H; cbn.
    - exact H.
    - destruct (cell s (cursor st)); apply IH; cbn; lia.
    - destruct (can_unread st); apply IH; cbn; lia.
    - specialize (IH st H). destruct (run k s st) as [[a os] st']. exact IH.
  Qed.
End Run.
Arguments run {O A} p s st.

(** * The error slot: a read error is never replaced (C10) *)
(** events that reach the slot, in the order they are reported: rank 0 = the reader's error,
    1 + position = a syntax error *)
Definition report (s : option nat) (e : nat) : option nat :=
  match s with None => Some e | Some o => Some (Nat.min o e) end.

Lemma report_zero_absorbs l : fold_left report l (Some 0) = Some 0.
Proof. induction l as [|e l IH]; cbn; [reflexivity|exact IH]. Qed.

(** whatever is reported before and after, once the reader's failure has been reported the slot
    holds it *)
Theorem read_fault_sticky before after :
  fold_left report (before ++ 0 :: after) None = Some 0.
Proof.
  rewrite fold_left_app. cbn.
  destruct (fold_left report before None) as [o|]; cbn; [rewrite Nat.min_0_r|]; apply report_zero_absorbs.
Qed.

(** and the interpreter notices every failing read the program performs *)
Lemma faulted_mono {O A} (p : prog O A) s : forall st, faulted st = true -> faulted (snd (run p s st)) = true.
Proof.
  induction p as [a|k IH|k IH|o k IH]; intros st H; cbn.
  - exact H.
  - destruct (cell s (cursor st)); apply IH; cbn; auto.
  - destruct (can_unread st); apply IH; cbn; auto.
  - specialize (IH st H). destruct (run k s st) as [[a os] st']. exact IH.
Qed.

(** * A failure of the reader is noticed exactly when its position is inspected (C10) *)
Section Fault.
  Variables (O A : Type) (k : nat) (rs : list rune).
  Let s := mkSource rs (Some k).
  Let clean := mkSource rs None.

  Lemma cell_fault i : k <= i -> cell s i = RFault.
  Proof. intros H. unfold cell, s. cbn [fail_from]. apply Nat.leb_le in H. rewrite H. reflexivity. Qed.

  Lemma cell_clean i : i < k -> cell s i = cell clean i.
  Proof.
    intros H. unfold cell, s, clean. cbn [fail_from runes].
    destruct (k <=? i) eqn:E; [apply Nat.leb_le in E; lia|reflexivity].
  Qed.

  (** a program that has inspected the failing position has been told of the failure *)
  Theorem fault_noticed_when_inspected (p : prog O A) : forall st,
    cursor st <= hiwater st -> (k < hiwater st -> faulted st = true) ->
    k < hiwater (snd (run p s st)) -> faulted (snd (run p s st)) = true.
  Proof.
    induction p as [a|kk IH|kk IH|o kk IH]; intros st Hc Hf; cbn [run].
    - exact Hf.
    - destruct (cell s (cursor st)) eqn:E; apply IH; cbn [cursor hiwater faulted]; try lia.
      + intros H. destruct (Nat.lt_ge_cases k (hiwater st)) as [H1|H1]; [exact (Hf H1)|].
        assert (k <= cursor st) by lia. rewrite (cell_fault _ H0) in E. discriminate.
      + intros H. destruct (Nat.lt_ge_cases k (hiwater st)) as [H1|H1]; [exact (Hf H1)|].
        assert (k <= cursor st) by lia. rewrite (cell_fault _ H0) in E. discriminate.
    - destruct (can_unread st); apply IH; cbn [cursor hiwater faulted]; try lia; exact Hf.
    - specialize (IH st Hc Hf). destruct (run kk s st) as [[a os] st']. exact IH.
  Qed.

  (** and a program that was never told of it has run as on the whole input: same result, same
      outputs, same final state *)
  Theorem unnoticed_fault_changes_nothing (p : prog O A) st :
    cursor st <= hiwater st -> hiwater st <= k -> faulted (snd (run p s st)) = false ->
    run p clean st = run p s st.
  Proof.
    intros Hc Hh Hn. apply prefix_locality. intros i Hi.
    assert (Hk : hiwater (snd (run p s st)) <= k).
    { destruct (Nat.lt_ge_cases k (hiwater (snd (run p s st)))) as [H|H]; [|exact H].
      rewrite (fault_noticed_when_inspected p st Hc ltac:(intros; lia) H) in Hn. discriminate. }
    apply cell_clean. lia.
  Qed.
End Fault.

(** * Successive calls on one reader (C07) *)
Theorem run_bind {O A B} (m : prog O A) (f : A -> prog O B) s : forall st,
  run (bind m f) s st =
  let '(a, os, st1) := run m s st in let '(b, os2, st2) := run (f a) s st1 in (b, os ++ os2, st2).
Proof.
  induction m as [a|k IH|k IH|o k IH]; intros st; cbn [bind run].
  - destruct (run (f a) s st) as [[b os2] st2]. reflexivity.
  - destruct (cell s (cursor st)); apply IH.
  - destruct (can_unread st); apply IH.
  - rewrite IH. destruct (run k s st) as [[a os] st1]. destruct (run (f a) s st1) as [[b os2] st2]. reflexivity.
Qed.

Lemma nth_error_skipn {T} (l : list T) : forall c i, nth_error (skipn c l) i = nth_error l (i + c).
Proof.
  induction l as [|x l IH]; intros c i.
  - rewrite skipn_nil. destruct i, c; reflexivity.
  - destruct c as [|c]; [rewrite Nat.add_0_r; reflexivity|].
    cbn [skipn]. rewrite IH. replace (i + S c) with (S (i + c)) by lia. reflexivity.
Qed.

Section Shift.
  Variables (O A : Type) (rs : list rune) (c : nat).
  Let s := mkSource rs None.
  Let s2 := mkSource (skipn c rs) None.

  (** a program started c characters into the text behaves as on the text that begins there *)
  Theorem run_shift (p : prog O A) : forall st st2,
    cursor st = cursor st2 + c -> can_unread st = can_unread st2 -> faulted st = faulted st2 ->
    (can_unread st2 = true -> 0 < cursor st2) ->
    let '(a, os, st') := run p s st in
    let '(a2, os2, st2') := run p s2 st2 in
    a = a2 /\ os = os2 /\ cursor st' = cursor st2' + c /\ can_unread st' = can_unread st2' /\ faulted st' = faulted st2'.
  Proof.
    induction p as [a|k IH|k IH|o k IH]; intros st st2 Hc Hu Hf Hp; cbn [run].
    - repeat split; assumption.
    - assert (Hcell : cell s (cursor st) = cell s2 (cursor st2)).
      { unfold cell, s, s2. cbn [fail_from runes]. rewrite Hc, nth_error_skipn. reflexivity. }
      rewrite Hcell. destruct (cell s2 (cursor st2)); apply IH; cbn [cursor can_unread faulted]; try assumption; try reflexivity; try lia; try discriminate.
    - rewrite Hu. destruct (can_unread st2) eqn:E.
      + specialize (Hp eq_refl). apply IH; cbn [cursor can_unread faulted]; try assumption; try reflexivity; try lia; try discriminate.
      + apply IH; try assumption; [congruence|intros H0; rewrite E in H0; discriminate].
    - specialize (IH st st2 Hc Hu Hf Hp). destruct (run k s st) as [[a os] st']. destruct (run k s2 st2) as [[a2 os2] st2'].
      destruct IH as (Ha & Hos & Hrest). repeat split; try tauto. rewrite Hos. reflexivity.
  Qed.
End Shift.

(** a call: a fresh lexer never unreads before it has read *)
Definition fresh (st : rstate) : rstate := mkR (cursor st) false (hiwater st) (faulted st).

(** the second of two successive calls on one reader gives what the same program gives on the
    text that begins where the first call stopped: same result, same outputs, and it stops at
    the corresponding place *)
Theorem successive_calls {O A B} (p : prog O A) (q : prog O B) rs :
  let s := mkSource rs None in
  let '(a, os, st1) := run p s r0 in
  let '(b, os2, st2) := run q s (fresh st1) in
  let '(b', os2', st2') := run q (mkSource (skipn (cursor st1) rs) None) r0 in
  b = b' /\ os2 = os2' /\ cursor st2 = cursor st2' + cursor st1.
Proof.
  cbv zeta. destruct (run p (mkSource rs None) r0) as [[a os] st1] eqn:E1.
  assert (Hf : faulted st1 = false).
  { destruct (faulted st1) eqn:Ef; [|reflexivity]. exfalso.
    (* without a failing cell the interpreter never sets the flag *)
    assert (H : forall (p0 : prog O A) st, faulted st = false -> faulted (snd (run p0 (mkSource rs None) st)) = false).
    { induction p0 as [x|k IH|k IH|o k IH]; intros st H0; cbn [run].
      - exact H0.
      - destruct (cell (mkSource rs None) (cursor st)) eqn:Ec; try (apply IH; exact H0).
        unfold cell in Ec. cbn [fail_from runes] in Ec. destruct (nth_error rs (cursor st)); discriminate.
      - destruct (can_unread st); apply IH; exact H0.
      - specialize (IH st H0). destruct (run k (mkSource rs None) st) as [[x os0] st0]. exact IH. }
    specialize (H p r0 eq_refl). rewrite E1 in H. cbn [snd] in H. congruence. }
  pose proof (run_shift O B rs (cursor st1) q (fresh st1) r0) as H.
  cbn [fresh r0 cursor can_unread faulted] in H. specialize (H eq_refl eq_refl Hf ltac:(discriminate)).
  destruct (run q (mkSource rs None) (fresh st1)) as [[b os2] st2].
  destruct (run q (mkSource (skipn (cursor st1) rs) None) r0) as [[b' os2'] st2'].
  destruct H as (H1 & H2 & H3 & _). repeat split; assumption.
Qed.
