(** The here-document body reader for a quoted delimiter (parser/lexer.go scanHeredoc with
    quoted = true): the body is taken verbatim up to the first line that equals the delimiter
    (after removal of leading tabs for the dash form). *)
From GoSh Require Import Base.Bytes.
From Coq Require Import Lia.
Open Scope N_scope.

(* the first line and, when a newline was found, the text after it *)
Fixpoint take_line (s : list rune) : list rune * option (list rune) :=
  match s with
  | [] => ([], None)
  | c :: s' => if c =? 10 then ([], Some s')
               else let '(l, r) := take_line s' in (c :: l, r)
  end.

Fixpoint strip_tabs (l : list rune) : list rune :=
  match l with c :: l' => if c =? 9 then strip_tabs l' else l | [] => [] end.

Definition is_delim (dash : bool) (delim line : list rune) : bool :=
  beqb (if dash then strip_tabs line else line) delim.

(* result: body, delimiter line as written, unread rest *)
Fixpoint read_heredoc (fuel : nat) (dash : bool) (delim : list rune) (s : list rune) (acc : list rune)
  : option (list rune * list rune * list rune) :=
  match fuel with
  | O => None
  | S f =>
    let '(line, r) := take_line s in
    if is_delim dash delim line then Some (acc, line, match r with Some r' => r' | None => [] end)
    else match r with
         | Some r' => read_heredoc f dash delim r' (acc ++ line ++ [10])
         | None => None                    (* here-document delimited by EOF *)
         end
  end.

Definition no_nl (l : list rune) : bool := forallb (fun c => negb (c =? 10)) l.

Lemma take_line_app l r : no_nl l = true -> take_line (l ++ 10 :: r) = (l, Some r).
Proof.
  induction l as [|c l IH]; cbn; intros H; [reflexivity|].
  apply Bool.andb_true_iff in H as [Hc Hl]. apply Bool.negb_true_iff in Hc. rewrite Hc, (IH Hl). reflexivity.
Qed.

Definition body_of (lines : list (list rune)) : list rune := flat_map (fun l => l ++ [10]) lines.

(** Every body whose lines are not the delimiter is returned byte for byte, the delimiter line is
    recognised (also tab-indented for the dash form), and reading stops right after it. *)
Theorem heredoc_literal_body dash delim : forall lines dline rest acc fuel,
  forallb (fun l => no_nl l && negb (is_delim dash delim l)) lines = true ->
  no_nl dline = true -> is_delim dash delim dline = true ->
  (length lines < fuel)%nat ->
  read_heredoc fuel dash delim (body_of lines ++ dline ++ 10 :: rest) acc = Some (acc ++ body_of lines, dline, rest).
Proof.
  induction lines as [|l lines IH]; intros dline rest acc fuel Hl Hd Hdel Hf.
  - destruct fuel; [cbn in Hf; lia|]. cbn [body_of flat_map app read_heredoc].
    rewrite (take_line_app dline rest Hd), Hdel, app_nil_r. reflexivity.
  - destruct fuel; [cbn in Hf; lia|]. cbn in Hf. cbn [forallb] in Hl.
    apply Bool.andb_true_iff in Hl as [Hl1 Hls]. apply Bool.andb_true_iff in Hl1 as [Hnl Hnd].
    apply Bool.negb_true_iff in Hnd.
    cbn [body_of flat_map]. fold (body_of lines). rewrite <- !app_assoc. cbn [app read_heredoc].
    rewrite (take_line_app l _ Hnl), Hnd.
    rewrite (IH dline rest (acc ++ l ++ [10]) fuel Hls Hd Hdel ltac:(lia)).
    rewrite <- !app_assoc. reflexivity.
Qed.

(** a delimiter that never comes is an error, not a silent truncation *)
Theorem heredoc_unterminated dash delim : forall lines acc fuel,
  forallb (fun l => no_nl l && negb (is_delim dash delim l)) lines = true ->
  is_delim dash delim [] = false ->
  read_heredoc fuel dash delim (body_of lines) acc = None.
Proof.
  induction lines as [|l lines IH]; intros acc fuel Hl He.
  - destruct fuel; [reflexivity|]. cbn. rewrite He. reflexivity.
  - destruct fuel; [reflexivity|]. cbn [forallb] in Hl.
    apply Bool.andb_true_iff in Hl as [Hl1 Hls]. apply Bool.andb_true_iff in Hl1 as [Hnl Hnd].
    apply Bool.negb_true_iff in Hnd.
    cbn [body_of flat_map]. fold (body_of lines). rewrite <- app_assoc. cbn [app read_heredoc].
    rewrite (take_line_app l _ Hnl), Hnd. apply IH; assumption.
Qed.
