(** Quote removal of a here-document delimiter word (parser/lexer.go scanHeredoc, the unquote
    closure): quotes are removed at every level, the word counts as quoted when any part of it was
    a quote.  For a word written under one of the literal quotings the delimiter is the text. *)
From GoSh Require Import Base.Bytes Base.Outcome Store.Env Expand.Expand Lex.Quote.
Open Scope N_scope.

(** unquote(ws): a Quote is replaced by its unquoted value, anything else is kept *)
Fixpoint unq_part (p : wpart) : list wpart * bool :=
  match p with
  | WQuote _ v =>
    ((fix go (l : list wpart) : list wpart :=
        match l with [] => [] | q :: l' => fst (unq_part q) ++ go l' end) v, true)
  | _ => ([p], false)
  end.
Definition unq (w : list wpart) : list wpart * bool :=
  (flat_map (fun p => fst (unq_part p)) w, existsb (fun p => snd (unq_part p)) w).

(** the delimiter string: the printed form of the remaining parts (literals print as themselves;
    anything else is outside this statement) *)
Fixpoint lits_text (w : list wpart) : option bytes :=
  match w with
  | [] => Some []
  | WLit t :: w' => match lits_text w' with Some r => Some (t ++ r) | None => None end
  | _ => None
  end.

Lemma unq_go v : (fix go (l : list wpart) : list wpart :=
        match l with [] => [] | q :: l' => fst (unq_part q) ++ go l' end) v = flat_map (fun p => fst (unq_part p)) v.
Proof. induction v as [|q v IH]; [reflexivity|]. cbn [flat_map]. now rewrite <- IH. Qed.

Lemma lits_text_app a b ta tb : lits_text a = Some ta -> lits_text b = Some tb -> lits_text (a ++ b) = Some (ta ++ tb).
Proof.
  revert ta. induction a as [|p a IH]; intros ta Ha Hb.
  - cbn in Ha. inversion Ha; subst. exact Hb.
  - destruct p as [t| | | |]; try discriminate. cbn [lits_text app] in *.
    destruct (lits_text a) as [r|]; [|discriminate]. inversion Ha; subst. rewrite (IH r eq_refl Hb). now rewrite app_assoc.
Qed.

Lemma dq_inner_unq v t : all_some (map dq_inner_text v) = Some t -> lits_text (flat_map (fun p => fst (unq_part p)) v) = Some t.
Proof.
  revert t. induction v as [|p v IH]; intros t H.
  - cbn in H. inversion H; subst. reflexivity.
  - cbn [map all_some] in H. destruct (dq_inner_text p) as [tp|] eqn:Ep; [|discriminate].
    destruct (all_some (map dq_inner_text v)) as [r|]; [|discriminate]. inversion H; subst.
    cbn [flat_map]. apply lits_text_app; [|apply IH; reflexivity].
    destruct p as [s|tok [|[s| | | |] [|? ?]]| | |]; cbn in Ep; try discriminate.
    + inversion Ep; subst. cbn. now rewrite app_nil_r.
    + destruct (tok =? 92); [|discriminate]. inversion Ep; subst. cbn. now rewrite app_nil_r.
Qed.

(** a word written under the literal quotings: after quote removal the delimiter is its text, and
    the word is quoted as soon as it has one part *)
Theorem delimiter_of_quoted_word : forall w text, word_text w = Some text ->
  lits_text (fst (unq w)) = Some text /\ snd (unq w) = negb (Nat.eqb (length w) 0).
Proof.
  unfold word_text, unq. induction w as [|p w IH]; intros text H.
  - cbn in H. inversion H; subst. split; reflexivity.
  - cbn [map all_some] in H. destruct (part_text p) as [tp|] eqn:Ep; [|discriminate].
    destruct (all_some (map part_text w)) as [r|] eqn:Er; [|discriminate]. inversion H; subst.
    destruct (IH r eq_refl) as [IH1 _]. cbn [fst snd flat_map existsb length Nat.eqb negb] in *.
    destruct p as [s|tok v| | |]; cbn in Ep; try discriminate.
    cbn [unq_part fst snd orb]. split; [|reflexivity]. rewrite unq_go. apply lits_text_app; [|exact IH1].
    destruct (tok =? 34).
    + apply dq_inner_unq. exact Ep.
    + destruct ((tok =? 39) || (tok =? 92)); [|discriminate].
      destruct v as [|[s| | | |] [|? ?]]; try discriminate; inversion Ep; subst; cbn; [reflexivity|now rewrite app_nil_r].
Qed.

(** an unquoted literal word is its own delimiter and leaves the body to be scanned *)
Theorem delimiter_of_plain_word : forall t, unq [WLit t] = ([WLit t], false).
Proof. reflexivity. Qed.
