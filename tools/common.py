"""Shared machinery of the go.sh verification checks (see DESIGN.md sections 0, 3, 4, 8)."""
import concurrent.futures as cf
import fcntl
import hashlib
import json
import os
import random
import re
import shutil
import subprocess
import sys
import tempfile
import time

VERIF = os.path.normpath(os.path.join(os.path.dirname(os.path.abspath(__file__)), ".."))
REPO = os.environ.get("VERIF_REPO", "/repo")
COQ = os.path.join(VERIF, "coq")
BUILD = os.path.join(VERIF, "build")
EVID = os.path.join(VERIF, "evidence")
REPLAYS = os.path.join(VERIF, "replays")
NCPU = os.cpu_count() or 4

GOENV = dict(os.environ, GOFLAGS="-mod=mod", GOPROXY="off", GOSUMDB="off", GOTOOLCHAIN="local",
             CGO_ENABLED=os.environ.get("CGO_ENABLED", "0"))

# Standard-library axioms that may appear under Print Assumptions (named in DESIGN section 10).
ALLOWED_AXIOMS = {
    "functional_extensionality_dep", "FunctionalExtensionality.functional_extensionality_dep",
    "Eqdep.Eq_rect_eq.eq_rect_eq", "eq_rect_eq", "proof_irrelevance", "classic", "JMeq_eq", "JMeq.JMeq_eq",
}
FORBIDDEN = re.compile(
    r"\b(Admitted|admit|Axiom|Axioms|Parameter|Parameters|Conjecture|Admit Obligations|bypass_check)\b"
    r"|Unset\s+Guard|Unset\s+Positivity|Unset\s+Universe|type-in-type|impredicative-set")


def hx(b):
    if isinstance(b, str):
        b = b.encode()
    return b.hex()


def unhx(s):
    return bytes.fromhex(s)


class Lock:
    def __init__(self, name="build"):
        os.makedirs(BUILD, exist_ok=True)
        self.path = os.path.join(BUILD, "." + name + ".lock")

    def __enter__(self):
        self.f = open(self.path, "w")
        fcntl.flock(self.f, fcntl.LOCK_EX)
        return self

    def __exit__(self, *a):
        fcntl.flock(self.f, fcntl.LOCK_UN)
        self.f.close()


def run(cmd, cwd=None, env=None, timeout=1800, stdin=None):
    t0 = time.time()
    try:
        p = subprocess.run(cmd, cwd=cwd, env=env, timeout=timeout, input=stdin,
                           stdout=subprocess.PIPE, stderr=subprocess.STDOUT)
        return p.returncode, p.stdout.decode("utf-8", "replace"), time.time() - t0
    except subprocess.TimeoutExpired as e:
        return 124, (e.stdout or b"").decode("utf-8", "replace") + "\nTIMEOUT", time.time() - t0


def newer(src_paths, target):
    if not os.path.exists(target):
        return True
    t = os.path.getmtime(target)
    return any(os.path.getmtime(p) > t for p in src_paths if os.path.exists(p))


def coq_sources():
    out = []
    for root in ("theories", "extract", "grammars"):
        for d, _, fs in os.walk(os.path.join(COQ, root)):
            for f in fs:
                if f.endswith(".v") or f.endswith(".vy"):
                    out.append(os.path.join(d, f))
    return sorted(out)


def strip_coq_comments(src):
    """Blank out (nested) comments, keeping line structure."""
    out = []
    depth = 0
    i = 0
    n = len(src)
    while i < n:
        if src.startswith("(*", i):
            depth += 1
            i += 2
            out.append("  ")
        elif depth and src.startswith("*)", i):
            depth -= 1
            i += 2
            out.append("  ")
        else:
            c = src[i]
            out.append(c if (depth == 0 or c == "\n") else " ")
            i += 1
    return "".join(out)


def scan_forbidden():
    hits = []
    for p in coq_sources():
        with open(p, encoding="utf-8") as f:
            src = strip_coq_comments(f.read())
        for i, line in enumerate(src.split("\n"), 1):
            if FORBIDDEN.search(line):
                hits.append("%s:%d: %s" % (os.path.relpath(p, VERIF), i, line.strip()))
    return hits


class BuildResult:
    def __init__(self):
        self.coq_ok = False
        self.coq_log = ""
        self.failed_files = []
        self.driver_ok = False
        self.harness_ok = False
        self.harness_log = ""
        self.forbidden = []
        self.wall = 0.0


def build_all(quiet=False, race=False):
    """Regenerate Extracted.v from /repo, (re)build the Coq development with a full .vo make,
    the extracted OCaml driver and the Go harness (from /repo's working tree, -tags verif)."""
    r = BuildResult()
    t0 = time.time()
    with Lock():
        rc, out, _ = run([sys.executable, os.path.join(VERIF, "tools", "extract_consts.py")], env=dict(os.environ, VERIF_REPO=REPO))
        r.coq_log += out
        if rc != 0:
            r.coq_log += "\nextract_consts failed\n"
        mk = os.path.join(COQ, "Makefile.coq")
        if newer([os.path.join(COQ, "_CoqProject")], mk):
            run(["coq_makefile", "-f", "_CoqProject", "-o", "Makefile.coq"], cwd=COQ)
        rc, out, _ = run(["timeout", "3000", "make", "-f", "Makefile.coq", "-j%d" % NCPU, "-k"], cwd=COQ, timeout=3100)
        r.coq_log += out
        r.coq_ok = rc == 0 and "extract_consts failed" not in r.coq_log
        r.failed_files = re.findall(r"\*\*\* \[Makefile\.coq:\d+: (\S+?)\.vo\] Error", out)
        if "extract_consts failed" in r.coq_log:
            # the translated tables are stale: the theorems would be about what the code said before
            r.failed_files = ["tools/extract_consts.py (translator could not read /repo's tables)"] + r.failed_files
        r.forbidden = scan_forbidden()
        # OCaml driver from the extracted model
        ml = [os.path.join(COQ, "model.ml"), os.path.join(COQ, "model.mli")]
        mls = sorted(os.path.join(VERIF, "ocaml", f) for f in os.listdir(os.path.join(VERIF, "ocaml")) if f.endswith(".ml"))
        drv = os.path.join(BUILD, "driver")
        if all(os.path.exists(p) for p in ml):
            if newer(ml + mls, drv):
                for p in ml + mls:
                    shutil.copy(p, BUILD)
                order = ["util.ml"] + sorted(os.path.basename(p) for p in mls if os.path.basename(p) not in ("util.ml", "driver.ml")) + ["driver.ml"]
                rc, out, _ = run(["ocamlfind", "ocamlopt", "-O3", "-w", "-a", "-package", "str,unix", "-linkpkg",
                                  "model.mli", "model.ml"] + order + ["-o", "driver.new"], cwd=BUILD, timeout=900)
                if rc == 0:
                    os.replace(os.path.join(BUILD, "driver.new"), drv)
                    r.driver_ok = True
                else:
                    r.coq_log += "\nDRIVER BUILD FAILED\n" + out
            else:
                r.driver_ok = True
        # scratch trees a killed harness worker may have left behind
        for d in os.listdir(BUILD):
            # (not the ones a check running at the same time is using: only trees older than two hours)
            try:
                if d.startswith("verifc16") and time.time() - os.path.getmtime(os.path.join(BUILD, d)) > 7200:
                    shutil.rmtree(os.path.join(BUILD, d), ignore_errors=True)
            except OSError:
                pass          # (a check running at the same time has just removed its own tree)
        # Go harness, always from /repo's current working tree
        hdir = os.path.join(VERIF, "harness")
        # (built beside the target and moved over it: a check running at the same time keeps the binary it started with)
        cmd = ["go", "build", "-tags", "verif", "-o", os.path.join(BUILD, "harness.new")]
        rc, out, _ = run(cmd + ["."], cwd=hdir, env=GOENV, timeout=600)
        r.harness_ok = rc == 0
        r.harness_log = out
        if rc == 0:
            os.replace(os.path.join(BUILD, "harness.new"), os.path.join(BUILD, "harness"))
        if race:
            env = dict(GOENV, CGO_ENABLED="1")
            rc, out, _ = run(["go", "build", "-race", "-tags", "verif", "-o", os.path.join(BUILD, "harness_race.new"), "."],
                             cwd=hdir, env=env, timeout=900)
            r.harness_log += out
            if rc == 0:
                os.replace(os.path.join(BUILD, "harness_race.new"), os.path.join(BUILD, "harness_race"))
            else:
                r.harness_ok = False
    r.wall = time.time() - t0
    return r


def coqchk_all():
    """Independent re-check of every Props file and everything it depends on (thorough tier); cached under build/ by the
    hash of the compiled files.  Returns (ok, summary)."""
    vos = []
    for root, _d, files in os.walk(COQ):
        for f in sorted(files):
            if f.endswith(".vo"):
                p = os.path.join(root, f)
                vos.append((os.path.relpath(p, COQ), hashlib.sha256(open(p, "rb").read()).hexdigest()))
    key = hashlib.sha256(json.dumps(sorted(vos)).encode()).hexdigest()
    cache = os.path.join(BUILD, "coqchk.json")
    if os.path.exists(cache):
        try:
            d = json.load(open(cache))
            if d.get("key") == key:
                return d["ok"], d["summary"]
        except Exception:
            pass
    mods = ["GoSh.Props." + f[:-2] for f in sorted(os.listdir(os.path.join(COQ, "theories", "Props"))) if f.endswith(".v")]
    rc, out, _ = run(["timeout", "3000", "coqchk", "-silent", "-o", "-Q", "theories", "GoSh", "-Q", "gen", "GoShGen"] + mods, cwd=COQ, timeout=3100)
    tail = out[out.find("CONTEXT SUMMARY"):] if "CONTEXT SUMMARY" in out else out[-1500:]
    ok = rc == 0 and "Axioms: <none>" in tail and "type-in-type: <none>" in tail and "unsafe (co)fixpoints: <none>" in tail and "positivity is assumed: <none>" in tail
    summary = " ".join(tail.split())[:600]
    json.dump({"key": key, "ok": ok, "summary": summary}, open(cache, "w"))
    return ok, summary


def coq_flags():
    return ["-Q", "theories", "GoSh", "-Q", "gen", "GoShGen", "-w", "-notation-overridden,-deprecated-hint-without-locality,-deprecated-syntactic-definition"]


def check_props_file(pid):
    """Recompile Props/<pid>.v to capture Print Assumptions. Returns dict."""
    path = os.path.join("theories", "Props", pid + ".v")
    full = os.path.join(COQ, path)
    res = {"file": path, "theorems": [], "compiled": False, "axioms": {}, "bad_axioms": [], "log": ""}
    if not os.path.exists(full):
        res["log"] = "missing " + path
        return res
    src = open(full, encoding="utf-8").read()
    res["theorems"] = re.findall(r"^(?:Theorem|Corollary)\s+(\w+)", src, re.M)
    printed = re.findall(r"^Print Assumptions\s+(\w+)\.", src, re.M)
    with tempfile.TemporaryDirectory(prefix="verif-props-") as td:
        # compile to a throw-away .vo so the build tree is not disturbed
        rc, out, _ = run(["timeout", "900", "coqc"] + coq_flags() + ["-o", os.path.join(td, pid + ".vo"), path], cwd=COQ, timeout=1000)
    res["log"] = out
    res["compiled"] = rc == 0
    # parse the Print Assumptions blocks in order
    blocks = re.split(r"(?m)^(?=Closed under the global context|Axioms:)", out)
    blocks = [b for b in blocks if b.startswith("Closed under") or b.startswith("Axioms:")]
    for name, b in zip(printed, blocks):
        if b.startswith("Closed"):
            res["axioms"][name] = []
        else:
            ax = re.findall(r"^(\S+)\s*:", b[len("Axioms:"):], re.M)
            res["axioms"][name] = ax
            for a in ax:
                if a not in ALLOWED_AXIOMS and a.split(".")[-1] not in ALLOWED_AXIOMS:
                    res["bad_axioms"].append("%s uses %s" % (name, a))
    res["unprinted"] = [t for t in res["theorems"] if t not in printed]
    if rc == 0 and len(blocks) != len(printed):
        res["bad_axioms"].append("Print Assumptions output count mismatch")
    return res


def props_lock_ok(pid):
    lock = os.path.join(VERIF, "tools", "props.lock")
    path = os.path.join(COQ, "theories", "Props", pid + ".v")
    if not os.path.exists(lock) or not os.path.exists(path):
        return False, "no lock or no file"
    want = json.load(open(lock)).get(pid)
    got = statements_hash(path)
    return want == got, "lock %s file %s" % (want, got)


def statements_hash(path):
    """Hash of the theorem statements (text between Theorem and Proof.) of a Props file."""
    src = open(path, encoding="utf-8").read()
    stm = re.findall(r"^(?:Theorem|Corollary)\s+.*?(?=^Proof\.)", src, re.M | re.S)
    return hashlib.sha256("\n".join(re.sub(r"\s+", " ", s).strip() for s in stm).encode()).hexdigest()[:16]


def relock():
    d = {}
    pdir = os.path.join(COQ, "theories", "Props")
    for f in sorted(os.listdir(pdir)):
        if f.endswith(".v"):
            d[f[:-2]] = statements_hash(os.path.join(pdir, f))
    json.dump(d, open(os.path.join(VERIF, "tools", "props.lock"), "w"), indent=1, sort_keys=True)
    return d


# ---------------------------------------------------------------------------------------------
# running cases

def _run_chunk(args):
    exe, sub, lines, env, timeout = args
    data = ("\n".join(lines) + "\n").encode()
    try:
        p = subprocess.run([exe, sub], input=data, stdout=subprocess.PIPE, stderr=subprocess.PIPE, env=env, timeout=timeout)
        out = p.stdout.decode("utf-8", "replace").split("\n")
        if out and out[-1] == "":
            out.pop()
        return p.returncode, out, p.stderr.decode("utf-8", "replace")[-4000:]
    except subprocess.TimeoutExpired:
        return 124, [], "TIMEOUT"


def run_harness(sub, lines, env=None, exe=None, chunk=None, timeout=240, isolate=False):
    """Run the Go harness on case lines, in parallel chunks.  If a worker dies (process crash) the
    chunk is bisected down to the single input, which gets the observable CRASH:<stderr tail>."""
    exe = exe or os.path.join(BUILD, "harness")
    env = dict(os.environ if env is None else env)
    env.setdefault("GOMAXPROCS", "2")
    n = len(lines)
    if n == 0:
        return []
    if chunk is None:
        chunk = max(1, min(5000, (n + NCPU - 1) // NCPU))
    jobs = [(i, lines[i:i + chunk]) for i in range(0, n, chunk)]
    res = [None] * n

    def work(job, tmo=None):
        i0, ls = job
        tmo = tmo or timeout
        rc, out, err = _run_chunk((exe, sub, ls, env, tmo))
        if rc == 0 and len(out) == len(ls):
            return [(i0 + k, out[k]) for k in range(len(ls))]
        if rc == 3 and out and len(out) <= len(ls) and out[-1].startswith("HANG"):
            # the worker abandoned a call that was still running and stopped; resume after it
            done = [(i0 + k, out[k]) for k in range(len(out))]
            return done + (work((i0 + len(out), ls[len(out):])) if len(out) < len(ls) else [])
        if len(ls) == 1:
            tag = "TIMEOUT" if rc == 124 else "CRASH"
            return [(i0, tag + ":" + hx(err[-600:]))]
        mid = len(ls) // 2
        # a worker that hung is searched with a shrinking time budget, so that a dead-locked harness cannot stall the check for long
        nxt = max(20, tmo // 2) if rc == 124 else tmo
        return work((i0, ls[:mid]), nxt) + work((i0 + mid, ls[mid:]), nxt)

    with cf.ThreadPoolExecutor(max_workers=NCPU) as ex:
        for part in ex.map(work, jobs):
            for i, o in part:
                res[i] = o
    # a call that exceeded the watchdog is run again on its own with a ten times longer limit: on a loaded machine a slow call
    # must not be reported as a hang.  Three cases that hang again settle it (a genuine hang repeats); at most 40 are retried.
    hung = [i for i, o in enumerate(res) if o is not None and o.startswith(("HANG", "TIMEOUT"))]
    again = 0
    env2 = dict(env, VERIF_WATCHDOG_X="10")
    for i in hung[:40]:
        if again >= 3:
            break
        rc, out, err = _run_chunk((exe, sub, [lines[i]], env2, max(timeout, 120)))
        if out and not out[0].startswith(("HANG", "TIMEOUT")) and rc in (0, 3):
            res[i] = out[0]
        else:
            again += 1
    return res


def run_driver(sub, lines, impl=None, timeout=1200):
    """Run the extracted model (and the judge on impl outputs) in parallel chunks.
    Returns list of (model_out, judge)."""
    n = len(lines)
    if n == 0:
        return []
    chunk = max(1, min(5000, (n + NCPU - 1) // NCPU))
    jobs = list(range(0, n, chunk))
    res = [None] * n
    td = tempfile.mkdtemp(prefix="verif-drv-")
    try:
        def work(i0):
            ls = lines[i0:i0 + chunk]
            cpath = os.path.join(td, "c%d" % i0)
            with open(cpath, "w") as f:
                f.write("\n".join(ls) + "\n")
            cmd = [os.path.join(BUILD, "driver"), sub, cpath]
            if impl is not None:
                ipath = os.path.join(td, "i%d" % i0)
                with open(ipath, "w") as f:
                    f.write("\n".join(impl[i0:i0 + chunk]) + "\n")
                cmd.append(ipath)
            p = subprocess.run(cmd, stdout=subprocess.PIPE, stderr=subprocess.PIPE, timeout=timeout)
            out = p.stdout.decode("utf-8", "replace").split("\n")
            if out and out[-1] == "":
                out.pop()
            if p.returncode != 0 or len(out) != len(ls):
                raise RuntimeError("driver %s failed rc=%d: %s" % (sub, p.returncode, p.stderr.decode()[-2000:]))
            return i0, out
        with cf.ThreadPoolExecutor(max_workers=NCPU) as ex:
            for i0, out in ex.map(work, jobs):
                for k, o in enumerate(out):
                    m, _, j = o.rpartition("\t")
                    res[i0 + k] = (m, j)
    finally:
        shutil.rmtree(td, ignore_errors=True)
    return res


# ---------------------------------------------------------------------------------------------
# known findings, replays, evidence

def load_findings(pid):
    path = os.path.join(VERIF, "KNOWN_FINDINGS.jsonl")
    out = []
    if os.path.exists(path):
        for line in open(path):
            line = line.strip()
            if line and not line.startswith("#"):
                d = json.loads(line)
                if d.get("property") == pid or (pid in d.get("also", []) and d.get("status") == "open"):
                    out.append(d)
    return out


def write_replay(pid, payload):
    os.makedirs(REPLAYS, exist_ok=True)
    h = hashlib.sha256(json.dumps(payload, sort_keys=True).encode()).hexdigest()[:12]
    path = os.path.join(REPLAYS, "%s-%s.json" % (pid, h))
    with open(path, "w") as f:
        json.dump(payload, f, indent=1, sort_keys=True)
    return path


def write_evidence(pid, tier, seed, coverage, wall, violations, assumptions, level="proof"):
    os.makedirs(EVID, exist_ok=True)
    ev = {"property_id": pid, "tier": tier, "seed": seed, "level": level, "coverage": coverage,
          "assumptions": assumptions, "wall_s": round(wall, 2), "violations": violations}
    tmp = os.path.join(EVID, pid + ".json.tmp")
    with open(tmp, "w") as f:
        json.dump(ev, f, indent=1)
    os.replace(tmp, os.path.join(EVID, pid + ".json"))


TRUSTED_BASE = [
    "Coq 8.16.1 kernel (coqc; vm_compute used, native_compute not used); coqchk re-check in the thorough tier",
    "tools/extract_consts.py (regex translator for literal tables of /repo into coq/gen/Extracted.v)",
    "Coq extraction with ExtrOcamlBasic directives only (nat/positive/N/Z stay inductive); ocamlfind ocamlopt",
    "ocaml/*.ml driver (case parsing, formatting), harness/*.go (calls the real API), tools/*.py (generators, comparison)",
    "correspondence check = differential testing of model vs /repo on generated/enumerated cases (not a proof)",
]
